import WhatwgUrl.Basic
import WhatwgUrl.Impl.Types
import WhatwgUrl.Impl.Percent
import WhatwgUrl.Impl.Host
import WhatwgUrl.Impl.Parser
import WhatwgUrl.Impl.Api
import WhatwgUrl.Impl.Heap
import WhatwgUrl.Impl.Canon
