/-
  Basic vocabulary shared by Spec and Impl.

  * `Bytes`  = a Go `string` (arbitrary bytes)
  * `Str`    = a scalar value string (Lean's `Char` is exactly a Unicode scalar value);
               also the type of Go's `[]rune(s)` because Go replaces every ill-formed byte by U+FFFD.

  Everything here is total, structurally recursive (or fuelled) and free of Mathlib so that the
  kernel can evaluate it (`decide`) and the driver can be linked as a native executable.
-/
namespace WhatwgUrl

abbrev Bytes := List UInt8
abbrev Str := List Char

/-- ASCII character to byte. -/
@[inline] def cb (c : Char) : UInt8 := c.toNat.toUInt8

/-- ASCII string literal to bytes (only used on ASCII literals). -/
def lit (s : String) : Bytes := s.toList.map cb

/-- byte to the character with the same number (Latin-1 view; used on ASCII bytes). -/
@[inline] def bc (x : UInt8) : Char := Char.ofNat x.toNat

def repl : Char := Char.ofNat 0xFFFD

/-! ### UTF-8 -/

def utf8Char (c : Char) : Bytes := String.utf8EncodeChar c
def utf8 (s : Str) : Bytes := s.flatMap utf8Char

@[inline] def isCont (x : UInt8) : Bool := 0x80 ≤ x.toNat && x.toNat ≤ 0xBF

/-- Go's `utf8.DecodeRune` on the non-empty byte string `b0 :: rest`: the rune and its size.
    Every ill-formed sequence yields `(U+FFFD, 1)` (Go's rule: one replacement per byte). -/
def decode1 (b0 : UInt8) (rest : Bytes) : Char × Nat :=
  let n0 := b0.toNat
  if n0 < 0x80 then (Char.ofNat n0, 1)
  else if n0 < 0xC2 then (repl, 1)
  else if n0 < 0xE0 then
    match rest with
    | b1 :: _ => if isCont b1 then (Char.ofNat (((n0 % 0x20) * 0x40) + (b1.toNat % 0x40)), 2) else (repl, 1)
    | [] => (repl, 1)
  else if n0 < 0xF0 then
    match rest with
    | b1 :: b2 :: _ =>
      let lo : Nat := if n0 == 0xE0 then 0xA0 else 0x80
      let hi : Nat := if n0 == 0xED then 0x9F else 0xBF
      if lo ≤ b1.toNat && b1.toNat ≤ hi && isCont b2 then
        (Char.ofNat (((n0 % 0x10) * 0x1000) + ((b1.toNat % 0x40) * 0x40) + (b2.toNat % 0x40)), 3)
      else (repl, 1)
    | _ => (repl, 1)
  else if n0 < 0xF5 then
    match rest with
    | b1 :: b2 :: b3 :: _ =>
      let lo : Nat := if n0 == 0xF0 then 0x90 else 0x80
      let hi : Nat := if n0 == 0xF4 then 0x8F else 0xBF
      if lo ≤ b1.toNat && b1.toNat ≤ hi && isCont b2 && isCont b3 then
        (Char.ofNat (((n0 % 0x08) * 0x40000) + ((b1.toNat % 0x40) * 0x1000) + ((b2.toNat % 0x40) * 0x40) + (b3.toNat % 0x40)), 4)
      else (repl, 1)
    | _ => (repl, 1)
  else (repl, 1)

/-- Go's `[]rune(s)` together with the byte size each rune came from. Fuelled by the length. -/
def goDecodeAux : Nat → Bytes → List (Char × Nat)
  | 0, _ => []
  | _, [] => []
  | fuel + 1, b0 :: rest =>
    (decode1 b0 rest) :: goDecodeAux fuel (rest.drop ((decode1 b0 rest).2 - 1))

def goDecode (s : Bytes) : List (Char × Nat) := goDecodeAux s.length s
/-- Go's `[]rune(s)`. -/
def goRunes (s : Bytes) : Str := (goDecode s).map (·.1)
/-- Go's `utf8.ValidString`. -/
def validUtf8 (s : Bytes) : Bool :=
  (goDecode s).all fun d => !(d.1 == repl && d.2 == 1)

/-! ### ASCII classes (on code point numbers) -/

@[inline] def isDigitN (n : Nat) : Bool := 0x30 ≤ n && n ≤ 0x39
@[inline] def isUpperN (n : Nat) : Bool := 0x41 ≤ n && n ≤ 0x5A
@[inline] def isLowerN (n : Nat) : Bool := 0x61 ≤ n && n ≤ 0x7A
@[inline] def isAlphaN (n : Nat) : Bool := isUpperN n || isLowerN n
@[inline] def isAlnumN (n : Nat) : Bool := isAlphaN n || isDigitN n
@[inline] def isHexN (n : Nat) : Bool := isDigitN n || (0x41 ≤ n && n ≤ 0x46) || (0x61 ≤ n && n ≤ 0x66)
@[inline] def isOctN (n : Nat) : Bool := 0x30 ≤ n && n ≤ 0x37

def lowerN (n : Nat) : Nat := if isUpperN n then n + 0x20 else n
def lowerB (x : UInt8) : UInt8 := if isUpperN x.toNat then x + 0x20 else x
def lowerC (c : Char) : Char := if isUpperN c.toNat then Char.ofNat (c.toNat + 0x20) else c
/-- ASCII lower-casing of a byte string (bytes ≥ 0x80 untouched). -/
def asciiLower (s : Bytes) : Bytes := s.map lowerB

def hexVal (n : Nat) : Nat :=
  if isDigitN n then n - 0x30 else if 0x41 ≤ n && n ≤ 0x46 then n - 0x41 + 10 else if 0x61 ≤ n && n ≤ 0x66 then n - 0x61 + 10 else 0

def hexUpper (n : Nat) : UInt8 := if n < 10 then (0x30 + n).toUInt8 else (0x41 + (n - 10)).toUInt8
def hexLower (n : Nat) : UInt8 := if n < 10 then (0x30 + n).toUInt8 else (0x61 + (n - 10)).toUInt8

/-- `%XX` with upper-case hex digits. -/
def pctByte (x : UInt8) : Bytes := [0x25, hexUpper (x.toNat / 16), hexUpper (x.toNat % 16)]

/-! ### Numbers -/

/-- most significant digit first, at least one digit; fuelled so that the kernel can evaluate it -/
def toDigitsAux (base : Nat) : Nat → Nat → List Nat → List Nat
  | 0, n, acc => n % base :: acc
  | fuel + 1, n, acc => if n < base then n :: acc else toDigitsAux base fuel (n / base) (n % base :: acc)

def toDigits (base n : Nat) : List Nat := toDigitsAux base n n []

/-- Go's `strconv.Itoa` on a non-negative number. -/
def itoa (n : Nat) : Bytes := (toDigits 10 n).map fun d => (0x30 + d).toUInt8
/-- Go's `strconv.FormatUint(n, 16)`. -/
def hexStr (n : Nat) : Bytes := (toDigits 16 n).map hexLower

/-- value of a digit string in the given radix (digits are assumed valid for the radix) -/
def digitsVal (radix : Nat) (s : Bytes) : Nat := s.foldl (fun acc x => acc * radix + hexVal x.toNat) 0

/-! ### Go string helpers -/

/-- Go's `strings.Split(s, sep)` for a one-byte separator: never empty. -/
def splitOn (sep : UInt8) : Bytes → List Bytes
  | [] => [[]]
  | x :: xs =>
    if x == sep then [] :: splitOn sep xs
    else match splitOn sep xs with
      | h :: t => (x :: h) :: t
      | [] => [[x]]

/-- Go's `strings.SplitN(s, sep, 2)`: the part before the first separator and, if there is one, the rest. -/
def splitFirst (sep : UInt8) : Bytes → Bytes × Option Bytes
  | [] => ([], none)
  | x :: xs =>
    if x == sep then ([], some xs)
    else ((x :: (splitFirst sep xs).1), (splitFirst sep xs).2)

def intercalate (sep : Bytes) : List Bytes → Bytes
  | [] => []
  | [x] => x
  | x :: xs => x ++ sep ++ intercalate sep xs

def startsWith (s p : Bytes) : Bool := p.isPrefixOf s
def endsWith (s p : Bytes) : Bool := p.isSuffixOf s

/-- `strings.TrimPrefix` -/
def trimPrefix1 (s p : Bytes) : Bytes := if startsWith s p then s.drop p.length else s
/-- `strings.TrimSuffix` -/
def trimSuffix1 (s p : Bytes) : Bytes := if endsWith s p then s.take (s.length - p.length) else s

/-- `strings.TrimRight(s, cutset)` for a one-byte cutset -/
def trimRightByte (x : UInt8) (s : Bytes) : Bytes := (s.reverse.dropWhile (· == x)).reverse
def trimLeftByte (x : UInt8) (s : Bytes) : Bytes := s.dropWhile (· == x)

/-- `strings.ReplaceAll(s, old, new)` for a one-byte `old` -/
def replaceByte (old new : UInt8) (s : Bytes) : Bytes := s.map fun x => if x == old then new else x

/-- Go's `<` on strings: lexicographic on bytes. -/
def bytesLt : Bytes → Bytes → Bool
  | [], [] => false
  | [], _ :: _ => true
  | _ :: _, [] => false
  | x :: xs, y :: ys => if x.toNat < y.toNat then true else if y.toNat < x.toNat then false else bytesLt xs ys

def hexOfBytes (s : Bytes) : String :=
  String.ofList (s.flatMap fun x => [bc (hexLower (x.toNat / 16)), bc (hexLower (x.toNat % 16))])

end WhatwgUrl
