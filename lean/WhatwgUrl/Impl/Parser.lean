import WhatwgUrl.Impl.Host
/-
  Impl: url/parser.go `BasicParser` (the state machine) and url/inputstring.go (the cursor),
  url/path.go. Literal: pointer starts at -1, `nextCodePoint` pre-increments and returns U+FFFD at EOF.
-/
namespace WhatwgUrl.Impl
open WhatwgUrl

/-! ### path.go -/

def Path.isEmpty (p : Path) : Bool := p.segs.isEmpty
def Path.setOpaque (s : Bytes) : Path := ⟨[s], true⟩
def Path.addSegment (p : Path) (s : Bytes) : Path := ⟨p.segs ++ [s], false⟩
def Path.init : Path := ⟨[], false⟩

def isWindowsDriveLetter (s : Bytes) : Bool :=
  match s with
  | [a, b] => isAlphaN a.toNat && (b == 0x3a || b == 0x7c)
  | _ => false

def isNormalizedWindowsDriveLetter (s : Bytes) : Bool :=
  match s with
  | [a, b] => isAlphaN a.toNat && b == 0x3a
  | _ => false

def startsWithAWindowsDriveLetter (s : Bytes) : Bool :=
  match s with
  | a :: b :: rest =>
    isWindowsDriveLetter [a, b] &&
      (match rest with
       | [] => true
       | c :: _ => c == 0x2f || c == 0x5c || c == 0x3f || c == 0x23)
  | _ => false

def Path.shorten (p : Path) (scheme : Bytes) : Path :=
  if scheme == lit "file" && p.segs.length == 1 && isNormalizedWindowsDriveLetter (p.segs.headD []) then p
  else if p.segs.isEmpty then p
  else { p with segs := p.segs.dropLast }

def isSingleDot (s : Bytes) : Bool := s == lit "." || asciiLower s == lit "%2e"
def isDoubleDot (s : Bytes) : Bool :=
  s == lit ".." || asciiLower s == lit ".%2e" || asciiLower s == lit "%2e." || asciiLower s == lit "%2e%2e"

/-- `path.String()`; `none` = index out of range on an opaque path without element -/
def Path.str? (p : Path) : Option Bytes :=
  if p.opq then p.segs.head? else some (p.segs.flatMap fun s => 0x2f :: s)

def Path.str (p : Path) : Bytes := (p.str?).getD []

/-! ### the parser state -/

structure PS where
  state : State
  pointer : Int
  eof : Bool
  buffer : Bytes
  atFlag : Bool
  bracketFlag : Bool
  pwSeen : Bool
  url : Url
deriving Repr

/-- everything that is constant during one `BasicParser` call -/
structure Env where
  cfg : Cfg
  I : Idna
  /-- `input.s` (after trim/remove) -/
  src : Bytes
  /-- `input.runes` -/
  runes : Str
  /-- the private clone of the base -/
  base : Option Url
  /-- `stateOverride` (`none` = NoState) -/
  ov : Option State

inductive StepR
  | cont (ps : PS)
  | done (r : Res)

def cur (rs : Str) (p : Int) : Option Char := if 0 ≤ p then rs[p.toNat]? else none

/-- `input.nextCodePoint()` -/
def next (rs : Str) (ps : PS) : PS × Char :=
  match cur rs (ps.pointer + 1) with
  | some c => ({ ps with pointer := ps.pointer + 1 }, c)
  | none => ({ ps with pointer := ps.pointer + 1, eof := true }, repl)

def rewindLast (ps : PS) : PS := { ps with pointer := ps.pointer - 1, eof := false }
def resetInput (ps : PS) : PS := { ps with pointer := -1, eof := false }
def rewind (ps : PS) (n : Nat) : PS := { ps with pointer := ps.pointer - n, eof := false }

/-- `string(i.runes[k:])` as a rune list; `k` must be within bounds -/
def runesFrom (rs : Str) (k : Int) : Str := rs.drop k.toNat

/-- `input.remainingStartsWith(s)` for an ASCII `s` -/
def remainingStartsWith (rs : Str) (ps : PS) (s : Str) : Bool :=
  !ps.eof && s.isPrefixOf (runesFrom rs (ps.pointer + 1))

/-- `input.remainingFromPointer()` -/
def remainingFromPointer (rs : Str) (ps : PS) : Bytes :=
  if ps.eof then [] else utf8 (runesFrom rs ps.pointer)

/-- `input.remainingIsInvalidPercentEncoded()` (first component) -/
def remainingInvalidPct (rs : Str) (ps : PS) : Bool := invalidPct (runesFrom rs ps.pointer)

/-- `input.currentByteOffset()` -/
def byteOffset (src : Bytes) (k : Int) : Nat := (((goDecode src).take k.toNat).map (·.2)).sum

/-- `input.currentIsInvalid()` -/
def currentIsInvalid (e : Env) (ps : PS) : Bool :=
  cur e.runes ps.pointer == some repl &&
    (match e.src.drop (byteOffset e.src ps.pointer) with
     | b0 :: rest => (decode1 b0 rest).2 == 1
     | [] => false)

/-- `input.getCurrentAsByte()`; `none` = index out of range -/
def currentAsByte (e : Env) (ps : PS) : Option UInt8 := e.src[byteOffset e.src ps.pointer]?

def isSp (e : Env) (u : Url) : Bool := e.cfg.isSpecial u.scheme
def spBackslash (e : Env) (u : Url) (r : Char) : Bool := isSp e u && r == '\\'

/-- `cleanDefaultPort` -/
def cleanDefaultPort (cfg : Cfg) (u : Url) : Url :=
  match cfg.special? u.scheme with
  | some dp => if u.port == none || u.port == some dp then { u with port := none, decodedPort := 0 } else u
  | none => u

/-- `if err := p.handleError(url, t, f); err != nil { return nil, err }` then `k` -/
def herr (e : Env) (ps : PS) (t : ErrT) (f : Bool) (k : PS → StepR) : StepR :=
  if stops e.cfg f then .done ⟨record e.cfg ps.url t f, .err ⟨t, f⟩ false⟩
  else k { ps with url := record e.cfg ps.url t f }

def retUrl (ps : PS) : StepR := .done ⟨ps.url, .url⟩

def writeRune (ps : PS) (c : Char) : PS := { ps with buffer := ps.buffer ++ utf8Char c }

/-! ### one function per `case` of the `switch` -/

def stSchemeStart (e : Env) (ps : PS) (r : Char) : StepR :=
  if isAlphaN r.toNat then .cont { (writeRune ps (lowerC r)) with state := .scheme }
  else if e.ov.isNone then .cont { (rewindLast ps) with state := .noScheme }
  else herr e ps .InvalidURLUnit true .cont

def stScheme (e : Env) (ps : PS) (r : Char) : StepR :=
  if isAlnumN r.toNat || r == '+' || r == '-' || r == '.' then .cont (writeRune ps (lowerC r))
  else if r == ':' then
    let u := ps.url
    if e.ov.isSome && (e.cfg.isSpecial u.scheme && !e.cfg.isSpecial ps.buffer) then retUrl ps
    else if e.ov.isSome && (!e.cfg.isSpecial u.scheme && e.cfg.isSpecial ps.buffer) then retUrl ps
    else if e.ov.isSome && ((u.username != [] || u.password != [] || u.port.isSome) && ps.buffer == lit "file") then retUrl ps
    else if e.ov.isSome && u.scheme == lit "file" && u.host == some [] then retUrl ps
    else
      let ps := { ps with url := { ps.url with scheme := ps.buffer } }
      if e.ov.isSome then .done ⟨cleanDefaultPort e.cfg ps.url, .url⟩
      else
        let ps := { ps with buffer := [] }
        if ps.url.scheme == lit "file" then
          if !remainingStartsWith e.runes ps ['/', '/'] then
            herr e ps .SpecialSchemeMissingFollowingSolidus false fun ps => .cont { ps with state := .file }
          else .cont { ps with state := .file }
        else if isSp e ps.url && (match e.base with | some b => b.scheme == ps.url.scheme | none => false) then
          .cont { ps with state := .specialRelativeOrAuthority }
        else if isSp e ps.url then .cont { ps with state := .specialAuthoritySlashes }
        else if remainingStartsWith e.runes ps ['/'] then
          .cont { (next e.runes ps).1 with state := .pathOrAuthority }
        else .cont { ps with state := .opaquePath, url := { ps.url with path := Path.setOpaque [] } }
  else if e.ov.isNone then .cont { (resetInput ps) with buffer := [], state := .noScheme }
  else herr e ps .InvalidURLUnit true .cont

def stNoScheme (e : Env) (ps : PS) (r : Char) : StepR :=
  match e.base with
  | none => herr e ps .MissingSchemeNonRelativeURL true .cont
  | some b =>
    if b.path.opq && r != '#' then herr e ps .MissingSchemeNonRelativeURL true .cont
    else if b.path.opq && r == '#' then
      .cont { ps with state := .fragment,
                      url := { ps.url with scheme := b.scheme, path := b.path, query := b.query, fragment := some [] } }
    else if b.scheme != lit "file" then .cont { (rewindLast ps) with state := .relative }
    else .cont { (rewindLast ps) with state := .file }

def stSpecialRelativeOrAuthority (e : Env) (ps : PS) (r : Char) : StepR :=
  if r == '/' && remainingStartsWith e.runes ps ['/'] then
    .cont { (next e.runes ps).1 with state := .specialAuthorityIgnoreSlashes }
  else herr e ps .SpecialSchemeMissingFollowingSolidus false fun ps => .cont { (rewindLast ps) with state := .relative }

def stPathOrAuthority (_e : Env) (ps : PS) (r : Char) : StepR :=
  if r == '/' then .cont { ps with state := .authority }
  else .cont { (rewindLast ps) with state := .path }

def stRelative (e : Env) (ps : PS) (r : Char) : StepR :=
  match e.base with
  | none => .done ⟨ps.url, .panic 11⟩      -- `base.scheme` on a nil base
  | some b =>
    let ps := { ps with url := { ps.url with scheme := b.scheme } }
    if r == '/' then .cont { ps with state := .relativeSlash }
    else if spBackslash e ps.url r then
      herr e ps .InvalidReverseSolidus false fun ps => .cont { ps with state := .relativeSlash }
    else
      let ps := { ps with url := { ps.url with username := b.username, password := b.password, host := b.host,
                                               port := b.port, decodedPort := b.decodedPort, path := b.path, query := b.query } }
      if r == '?' then .cont { ps with state := .query, url := { ps.url with query := some [] } }
      else if r == '#' then .cont { ps with state := .fragment, url := { ps.url with fragment := some [] } }
      else if !ps.eof then
        .cont { (rewindLast ps) with state := .path,
                                     url := { ps.url with query := none, path := ps.url.path.shorten ps.url.scheme } }
      else .cont ps

def stRelativeSlash (e : Env) (ps : PS) (r : Char) : StepR :=
  if isSp e ps.url && (r == '/' || r == '\\') then
    if r == '\\' then herr e ps .InvalidReverseSolidus false fun ps => .cont { ps with state := .specialAuthorityIgnoreSlashes }
    else .cont { ps with state := .specialAuthorityIgnoreSlashes }
  else if r == '/' then .cont { ps with state := .authority }
  else match e.base with
    | none => .done ⟨ps.url, .panic 12⟩
    | some b =>
      let u := { ps.url with username := b.username, password := b.password, host := b.host, port := b.port, decodedPort := b.decodedPort }
      .cont { (rewindLast ps) with state := .path, url := u }

def stSpecialAuthoritySlashes (e : Env) (ps : PS) (r : Char) : StepR :=
  if r == '/' && remainingStartsWith e.runes ps ['/'] then
    .cont { (next e.runes ps).1 with state := .specialAuthorityIgnoreSlashes }
  else herr e ps .SpecialSchemeMissingFollowingSolidus false fun ps =>
    .cont { (rewindLast ps) with state := .specialAuthorityIgnoreSlashes }

def stSpecialAuthorityIgnoreSlashes (e : Env) (ps : PS) (r : Char) : StepR :=
  if r != '/' && r != '\\' then .cont { (rewindLast ps) with state := .authority }
  else herr e ps .SpecialSchemeMissingFollowingSolidus false .cont

/-- the credentials loop of the authority state: `bb := newInputString(buffer.String())` … -/
def credLoop (cfg : Cfg) : Str → Bool → Bytes → Bytes → Bool × Bytes × Bytes
  | [], pw, user, pass => (pw, user, pass)
  | c :: rest, pw, user, pass =>
    if c == ':' && !pw then credLoop cfg rest true user pass
    else if pw then credLoop cfg rest pw user (pass ++ percentEncodeRune cfg userinfoSet c)
    else credLoop cfg rest pw (user ++ percentEncodeRune cfg userinfoSet c) pass

def stAuthority (e : Env) (ps : PS) (r : Char) : StepR :=
  if r == '@' then
    herr e ps .InvalidCredentials false fun ps =>
      let buf := if ps.atFlag then lit "%40" ++ ps.buffer else ps.buffer
      let cl := credLoop e.cfg (goRunes buf) ps.pwSeen ps.url.username ps.url.password
      .cont { ps with atFlag := true, buffer := [], pwSeen := cl.1,
                      url := { ps.url with username := cl.2.1, password := cl.2.2 } }
  else if (ps.eof || r == '/' || r == '?' || r == '#') || spBackslash e ps.url r then
    let k : PS → StepR := fun ps =>
      .cont { (rewind ps ((goRunes ps.buffer).length + 1)) with buffer := [], state := .host }
    if ps.atFlag && ps.buffer.isEmpty then herr e ps .InvalidCredentials true k else k ps
  else .cont (writeRune ps r)

/-- what the callers of `parseHost` do with its result: `return url, err` on error -/
def afterHost (hr : HR) (ps : PS) (k : PS → Bytes → StepR) : StepR :=
  match hr.out with
  | .ok h => k { ps with url := hr.url } h
  | .err er => .done ⟨hr.url, .err er true⟩
  | .panic n => .done ⟨hr.url, .panic n⟩

def stHost (e : Env) (ps : PS) (r : Char) : StepR :=
  if e.ov.isSome && ps.url.scheme == lit "file" then .cont { (rewindLast ps) with state := .fileHost }
  else if r == ':' && !ps.bracketFlag then
    let k : PS → StepR := fun ps =>
      if e.ov == some .hostname then retUrl ps
      else afterHost (parseHost e.cfg e.I ps.url ps.buffer (!isSp e ps.url)) ps fun ps h =>
        .cont { ps with url := { ps.url with host := some h }, buffer := [], state := .port }
    if ps.buffer.isEmpty then herr e ps .HostMissing true k else k ps
  else if ps.eof || (r == '/' || r == '?' || r == '#' || spBackslash e ps.url r) then
    let ps := rewindLast ps
    if isSp e ps.url && ps.buffer.isEmpty then herr e ps .HostMissing true .cont
    else if e.ov.isSome && ps.buffer.isEmpty && (ps.url.username != [] || ps.url.password != [] || ps.url.port.isSome) then retUrl ps
    else afterHost (parseHost e.cfg e.I ps.url ps.buffer (!isSp e ps.url)) ps fun ps h =>
      let ps := { ps with url := { ps.url with host := some h }, buffer := [], state := .pathStart }
      if e.ov.isSome then retUrl ps else .cont ps
  else
    let ps := if r == '[' then { ps with bracketFlag := true } else if r == ']' then { ps with bracketFlag := false } else ps
    if currentIsInvalid e ps && e.cfg.acceptInvalid then
      match currentAsByte e ps with
      | some x => .cont { ps with buffer := ps.buffer ++ [x] }
      | none => .done ⟨ps.url, .panic 13⟩
    else .cont (writeRune ps r)

def stPort (e : Env) (ps : PS) (r : Char) : StepR :=
  if isDigitN r.toNat then .cont (writeRune ps r)
  else if (ps.eof || r == '/' || r == '?' || r == '#') || spBackslash e ps.url r || e.ov.isSome then
    let fin : PS → StepR := fun ps =>
      if e.ov.isSome then retUrl ps else .cont { (rewindLast ps) with state := .pathStart }
    if !ps.buffer.isEmpty then
      let port := digitsVal 10 ps.buffer
      if port > 65535 then
        -- handleWrappedError(PortOutOfRange, true): always returns
        .done ⟨record e.cfg ps.url .PortOutOfRange true, .err ⟨.PortOutOfRange, true⟩ false⟩
      else
        fin { ps with buffer := [],
                      url := cleanDefaultPort e.cfg { ps.url with decodedPort := port, port := some (itoa port) } }
    else if e.ov.isSome then herr e ps .PortMissing true fin
    else fin ps
  else herr e ps .PortInvalid true .cont

def stFile (e : Env) (ps : PS) (r : Char) : StepR :=
  let ps := { ps with url := { ps.url with scheme := lit "file", host := some [] } }
  if r == '/' || r == '\\' then
    if r == '\\' then herr e ps .InvalidReverseSolidus false fun ps => .cont { ps with state := .fileSlash }
    else .cont { ps with state := .fileSlash }
  else match e.base with
    | some b =>
      if b.scheme == lit "file" then
        let ps := { ps with url := { ps.url with host := b.host, path := b.path, query := b.query } }
        if r == '?' then .cont { ps with state := .query, url := { ps.url with query := some [] } }
        else if r == '#' then .cont { ps with state := .fragment, url := { ps.url with fragment := some [] } }
        else if !ps.eof then
          let ps := { ps with url := { ps.url with query := none } }
          if !startsWithAWindowsDriveLetter (remainingFromPointer e.runes ps) then
            .cont { (rewindLast ps) with state := .path, url := { ps.url with path := ps.url.path.shorten ps.url.scheme } }
          else herr e ps .FileInvalidWindowsDriveLetter false fun ps =>
            .cont { (rewindLast ps) with state := .path, url := { ps.url with path := Path.init } }
        else .cont ps
      else .cont { (rewindLast ps) with state := .path }
    | none => .cont { (rewindLast ps) with state := .path }

def stFileSlash (e : Env) (ps : PS) (r : Char) : StepR :=
  if r == '/' || r == '\\' then
    if r == '\\' then herr e ps .InvalidReverseSolidus false fun ps => .cont { ps with state := .fileHost }
    else .cont { ps with state := .fileHost }
  else
    let ps := match e.base with
      | some b =>
        if b.scheme == lit "file" then
          let ps := { ps with url := { ps.url with host := b.host } }
          if !startsWithAWindowsDriveLetter (remainingFromPointer e.runes ps) && !b.path.segs.isEmpty &&
              isNormalizedWindowsDriveLetter (b.path.segs.headD []) then
            { ps with url := { ps.url with path := ps.url.path.addSegment (b.path.segs.headD []) } }
          else ps
        else ps
      | none => ps
    .cont { (rewindLast ps) with state := .path }

def stFileHost (e : Env) (ps : PS) (r : Char) : StepR :=
  if ps.eof || r == '/' || r == '\\' || r == '?' || r == '#' then
    let ps := rewindLast ps
    if e.ov.isNone && isWindowsDriveLetter ps.buffer then
      herr e ps .FileInvalidWindowsDriveLetterHost false fun ps => .cont { ps with state := .path }
    else if ps.buffer.isEmpty then
      let ps := { ps with url := { ps.url with host := some [] } }
      if e.ov.isSome then .done ⟨ps.url, .nilNil⟩ else .cont { ps with state := .pathStart }
    else afterHost (parseHost e.cfg e.I ps.url ps.buffer (!isSp e ps.url)) ps fun ps h =>
      let h := if h == lit "localhost" then [] else h
      let ps := { ps with url := { ps.url with host := some h } }
      if e.ov.isSome then retUrl ps else .cont { ps with buffer := [], state := .pathStart }
  else .cont (writeRune ps r)

def stPathStart (e : Env) (ps : PS) (r : Char) : StepR :=
  if isSp e ps.url && !e.cfg.skipTrailingSlash then
    let k : PS → StepR := fun ps =>
      .cont { (if r != '/' && r != '\\' then rewindLast ps else ps) with state := .path }
    if r == '\\' then herr e ps .InvalidReverseSolidus false k else k ps
  else if e.ov.isNone && r == '?' then .cont { ps with state := .query, url := { ps.url with query := some [] } }
  else if e.ov.isNone && r == '#' then .cont { ps with state := .fragment, url := { ps.url with fragment := some [] } }
  else if !ps.eof then .cont { (if r != '/' then rewindLast ps else ps) with state := .path }
  else if e.ov.isSome && ps.url.host == none then .cont { ps with url := { ps.url with path := ps.url.path.addSegment [] } }
  else .cont ps

/-- the code-point branch shared by path / opaque path / query / fragment: the two non-fatal `InvalidURLUnit` reports -/
def unitChecks (e : Env) (ps : PS) (r : Char) (k : PS → StepR) : StepR :=
  let k2 : PS → StepR := fun ps =>
    if remainingInvalidPct e.runes ps then herr e ps .InvalidURLUnit false k else k ps
  if !isUrlCp r.toNat && r != '%' then herr e ps .InvalidURLUnit false k2 else k2 ps

def stPath (e : Env) (ps : PS) (r : Char) : StepR :=
  if (ps.eof || r == '/') || spBackslash e ps.url r || (e.ov.isNone && (r == '?' || r == '#')) then
    let k : PS → StepR := fun ps =>
      let slash := r == '/' || spBackslash e ps.url r
      let url := ps.url
      let res : Option (Url × Bytes) :=   -- new url and buffer (before `buffer.Reset()`), none = panic
        if isDoubleDot ps.buffer then
          let p := url.path.shorten url.scheme
          some ({ url with path := if !slash then p.addSegment [] else p }, ps.buffer)
        else if isSingleDot ps.buffer && !slash then some ({ url with path := url.path.addSegment [] }, ps.buffer)
        else if !isSingleDot ps.buffer then
          let buf :=
            if url.scheme == lit "file" && url.path.isEmpty && isWindowsDriveLetter ps.buffer && !e.cfg.skipDrive then
              ps.buffer.take 1 ++ [0x3a] ++ ps.buffer.drop 2
            else ps.buffer
          if !e.cfg.collapse || !isSp e url || url.path.isEmpty || (url.path.segs.getLast?.getD []).length > 0 then
            some ({ url with path := url.path.addSegment buf }, buf)
          else
            -- url.path.p[len-1] = buffer.String()   (opaque flag untouched)
            some ({ url with path := { url.path with segs := url.path.segs.dropLast ++ [buf] } }, buf)
        else some (url, ps.buffer)
      match res with
      | none => .done ⟨ps.url, .panic 14⟩
      | some (url, _) =>
        let ps := { ps with url := url, buffer := [] }
        if r == '?' then .cont { ps with state := .query, url := { ps.url with query := some [] } }
        else if r == '#' then .cont { ps with state := .fragment, url := { ps.url with fragment := some [] } }
        else .cont ps
    if spBackslash e ps.url r then herr e ps .InvalidReverseSolidus false k else k ps
  else
    unitChecks e ps r fun ps =>
      if remainingInvalidPct e.runes ps then
        .cont { ps with buffer := ps.buffer ++ percentEncodeInvalidRune e.cfg e.cfg.pathSet r }
      else .cont { ps with buffer := ps.buffer ++ percentEncodeRune e.cfg e.cfg.pathSet r }

def stOpaquePath (e : Env) (ps : PS) (r : Char) : StepR :=
  if r == '?' then .cont { ps with state := .query, buffer := [], url := { ps.url with query := some [] } }
  else if r == '#' then .cont { ps with state := .fragment, buffer := [], url := { ps.url with fragment := some [] } }
  else if !ps.eof then
    unitChecks e ps r fun ps =>
      let buf := ps.buffer ++
        (if remainingInvalidPct e.runes ps then percentEncodeInvalidRune e.cfg c0Set r else percentEncodeRune e.cfg c0Set r)
      .cont { ps with buffer := buf, url := { ps.url with path := Path.setOpaque buf } }
  else .cont ps

def stQuery (e : Env) (ps : PS) (r : Char) : StepR :=
  if e.ov.isNone && r == '#' then
    match ps.url.query with
    | none => .done ⟨ps.url, .panic 15⟩     -- `*url.query = …` on nil
    | some _ => .cont { ps with state := .fragment, buffer := [], url := { ps.url with fragment := some [], query := some ps.buffer } }
  else if !ps.eof then
    unitChecks e ps r fun ps =>
      let set := if isSp e ps.url then e.cfg.spQuerySet else e.cfg.querySet
      .cont { ps with buffer := ps.buffer ++ percentEncodeRune e.cfg set r }
  else .cont { ps with url := { ps.url with query := some ps.buffer } }

def stFragment (e : Env) (ps : PS) (r : Char) : StepR :=
  if !ps.eof then
    unitChecks e ps r fun ps =>
      let set := if isSp e ps.url then e.cfg.spFragSet else e.cfg.fragSet
      .cont { ps with buffer := ps.buffer ++ percentEncodeRune e.cfg set r }
  else .cont { ps with url := { ps.url with fragment := some ps.buffer } }

/-- the `switch state` -/
def body (e : Env) (ps : PS) (r : Char) : StepR :=
  match ps.state with
  | .schemeStart => stSchemeStart e ps r
  | .scheme => stScheme e ps r
  | .noScheme => stNoScheme e ps r
  | .opaquePath => stOpaquePath e ps r
  | .specialRelativeOrAuthority => stSpecialRelativeOrAuthority e ps r
  | .specialAuthoritySlashes => stSpecialAuthoritySlashes e ps r
  | .specialAuthorityIgnoreSlashes => stSpecialAuthorityIgnoreSlashes e ps r
  | .pathOrAuthority => stPathOrAuthority e ps r
  | .authority => stAuthority e ps r
  | .host => stHost e ps r
  | .hostname => stHost e ps r
  | .file => stFile e ps r
  | .fileHost => stFileHost e ps r
  | .fileSlash => stFileSlash e ps r
  | .port => stPort e ps r
  | .path => stPath e ps r
  | .pathStart => stPathStart e ps r
  | .query => stQuery e ps r
  | .fragment => stFragment e ps r
  | .relative => stRelative e ps r
  | .relativeSlash => stRelativeSlash e ps r

/-- `if input.eof { break }` at the bottom of the loop; after the loop `return url, nil` -/
def bottom : StepR → StepR
  | .cont ps => if ps.eof then .done ⟨ps.url, .url⟩ else .cont ps
  | .done r => .done r

/-- one iteration of `for { r := input.nextCodePoint(); switch … ; if input.eof { break } }` -/
def step (e : Env) (ps : PS) : StepR := bottom (body e (next e.runes ps).1 (next e.runes ps).2)

def loop (e : Env) : Nat → PS → Res
  | 0, ps => ⟨ps.url, .outOfFuel⟩
  | fuel + 1, ps =>
    match step e ps with
    | .cont ps' => loop e fuel ps'
    | .done r => r

def fuelFor (rs : Str) : Nat := 24 * (rs.length + 2)

/-- `(*parser).BasicParser(urlOrRef, baseUrl, url, stateOverride)`.
    `url = none` is Go's `url == nil`. The base is passed by value: the Go code clones it first. -/
def basicParser (cfg : Cfg) (I : Idna) (input : Bytes) (base : Option Url) (url : Option Url) (ov : Option State) : Res :=
  let fresh : Url := {}
  let u0 := url.getD fresh
  -- trimming only for a fresh url
  let t := trim c0OrSpaceSet input
  let trimStops := url.isNone && t.2 && stops cfg false
  if trimStops then ⟨record cfg u0 .InvalidURLUnit false, .err ⟨.InvalidURLUnit, false⟩ false⟩
  else
    let u1 := if url.isNone && t.2 then record cfg u0 .InvalidURLUnit false else u0
    let in1 := if url.isNone then t.1 else input
    let rm := removeTabNl in1
    if rm.2 && stops cfg false then ⟨record cfg u1 .InvalidURLUnit false, .err ⟨.InvalidURLUnit, false⟩ false⟩
    else
      let u2 := if rm.2 then record cfg u1 .InvalidURLUnit false else u1
      let src := rm.1
      let rs := goRunes src
      let e : Env := { cfg := cfg, I := I, src := src, runes := rs, base := base, ov := ov }
      let ps0 : PS := { state := ov.getD .schemeStart, pointer := -1, eof := false, buffer := [],
                        atFlag := false, bracketFlag := false, pwSeen := false, url := u2 }
      loop e (fuelFor rs) ps0

end WhatwgUrl.Impl
