import WhatwgUrl.Impl.Parser
/-
  Impl: url/url.go — serializer, getters, setters (value level; the SearchParams side lives in Heap.lean),
  and the parse entry points of url/parser.go.
-/
namespace WhatwgUrl.Impl
open WhatwgUrl

/-- `(*Url).Href(excludeFragment)` -/
def href (u : Url) (excludeFragment : Bool) : Bytes :=
  u.scheme ++ [0x3a] ++
  (match u.host with
   | some h =>
     [0x2f, 0x2f] ++
     (if u.username != [] || u.password != [] then
        u.username ++ (if u.password != [] then 0x3a :: u.password else []) ++ [0x40]
      else []) ++
     h ++ (match u.port with | some p => 0x3a :: p | none => [])
   | none => []) ++
  (if u.host == none && !u.path.opq && u.path.segs.length > 1 && u.path.segs.head? == some [] then [0x2f, 0x2e] else []) ++
  u.path.str ++
  (match u.query with | some q => 0x3f :: q | none => []) ++
  (if !excludeFragment then (match u.fragment with | some f => 0x23 :: f | none => []) else [])

def protocol (u : Url) : Bytes := u.scheme ++ [0x3a]
def hostG (u : Url) : Bytes :=
  match u.host with
  | none => []
  | some h => match u.port with | none => h | some p => h ++ [0x3a] ++ p
def hostname (u : Url) : Bytes := u.host.getD []
def portG (u : Url) : Bytes := u.port.getD []
def pathname (u : Url) : Bytes := u.path.str
def search (u : Url) : Bytes := match u.query with | none => [] | some q => if q.isEmpty then [] else 0x3f :: q
def queryG (u : Url) : Bytes := u.query.getD []
def hashG (u : Url) : Bytes := match u.fragment with | none => [] | some f => if f.isEmpty then [] else 0x23 :: f
def fragmentG (u : Url) : Bytes := u.fragment.getD []

/-- `getDefaultPort` -/
def defaultPort (cfg : Cfg) (u : Url) : Nat :=
  match cfg.special? u.scheme with
  | some dp => if !dp.isEmpty && dp.all (fun x => isDigitN x.toNat) then digitsVal 10 dp else 0
  | none => 0

/-- `DecodedPort` -/
def decodedPortG (cfg : Cfg) (u : Url) : Nat := if u.port == none then defaultPort cfg u else u.decodedPort

/-- one part of a dotted-decimal host as `IsIPv4` accepts it: `Atoi` succeeds, 0..255, `Itoa(n) == part` -/
def isCanonicalOctet (part : Bytes) : Bool :=
  !part.isEmpty && part.all (fun x => isDigitN x.toNat) && part.length ≤ 3 && digitsVal 10 part ≤ 255 && itoa (digitsVal 10 part) == part

/-- `IsIPv4` -/
def isIPv4 (cfg : Cfg) (u : Url) : Bool :=
  match u.host with
  | none => false
  | some h => cfg.isSpecial u.scheme && (splitOn 0x2e h).length == 4 && (splitOn 0x2e h).all isCanonicalOctet

/-- `IsIPv6` -/
def isIPv6 (u : Url) : Bool := match u.host with | none => false | some h => h.head? == some 0x5b

/-! ### setters (value part) -/

def cannotHaveUPP (u : Url) : Bool := u.host == none || u.host == some [] || u.scheme == lit "file"

def keep (u : Url) : Res := ⟨u, .url⟩

def setProtocol (cfg : Cfg) (I : Idna) (u : Url) (v : Bytes) : Res :=
  basicParser cfg I (if endsWith v [0x3a] then v else v ++ [0x3a]) none (some u) (some .schemeStart)

def setUsername (cfg : Cfg) (u : Url) (v : Bytes) : Res :=
  if cannotHaveUPP u then keep u else keep { u with username := percentEncodeString cfg userinfoSet v }

def setPassword (cfg : Cfg) (u : Url) (v : Bytes) : Res :=
  if cannotHaveUPP u then keep u else keep { u with password := percentEncodeString cfg userinfoSet v }

def setHost (cfg : Cfg) (I : Idna) (u : Url) (v : Bytes) : Res :=
  if u.path.opq then keep u else basicParser cfg I v none (some u) (some .host)

def setHostname (cfg : Cfg) (I : Idna) (u : Url) (v : Bytes) : Res :=
  if u.path.opq then keep u else basicParser cfg I v none (some u) (some .hostname)

def setPort (cfg : Cfg) (I : Idna) (u : Url) (v : Bytes) : Res :=
  if cannotHaveUPP u then keep u
  else if v.isEmpty then keep { u with port := none, decodedPort := 0 }
  else basicParser cfg I v none (some u) (some .port)

def setPathname (cfg : Cfg) (I : Idna) (u : Url) (v : Bytes) : Res :=
  if u.path.opq then keep u else basicParser cfg I v none (some { u with path := Path.init }) (some .pathStart)

/-- `stripTrailingSpacesIfOpaque`; `none` = `p.p[0]` out of range -/
def stripTrailingSpacesIfOpaque (p : Path) : Option Path :=
  if p.opq then
    match p.segs with
    | s0 :: rest => some { p with segs := trimRightByte 0x20 s0 :: rest }
    | [] => none
  else some p

/-- the URL part of `SetSearch` -/
def setSearchU (cfg : Cfg) (I : Idna) (u : Url) (v : Bytes) : Res :=
  if v.isEmpty then
    let u := { u with query := none }
    if u.fragment == none then
      match stripTrailingSpacesIfOpaque u.path with
      | some p => keep { u with path := p }
      | none => ⟨u, .panic 20⟩
    else keep u
  else
    let u := if u.query == none then { u with query := some [] } else u
    basicParser cfg I (trimPrefix1 v [0x3f]) none (some u) (some .query)

def setHash (cfg : Cfg) (I : Idna) (u : Url) (v : Bytes) : Res :=
  if v.isEmpty then
    let u := { u with fragment := none }
    if u.query == none then
      match stripTrailingSpacesIfOpaque u.path with
      | some p => keep { u with path := p }
      | none => ⟨u, .panic 21⟩
    else keep u
  else basicParser cfg I (trimPrefix1 v [0x23]) none (some { u with fragment := some [] }) (some .fragment)

inductive Setter
  | protocol | username | password | host | hostname | port | pathname | search | hash
deriving DecidableEq, Repr, BEq

/-- a setter call at the value level (for `search`: the URL part only) -/
def setU (cfg : Cfg) (I : Idna) (s : Setter) (u : Url) (v : Bytes) : Res :=
  match s with
  | .protocol => setProtocol cfg I u v
  | .username => setUsername cfg u v
  | .password => setPassword cfg u v
  | .host => setHost cfg I u v
  | .hostname => setHostname cfg I u v
  | .port => setPort cfg I u v
  | .pathname => setPathname cfg I u v
  | .search => setSearchU cfg I u v
  | .hash => setHash cfg I u v

/-! ### parse entry points -/

/-- `(*parser).Parse` -/
def parse (cfg : Cfg) (I : Idna) (raw : Bytes) : Res := basicParser cfg I raw none none none

/-- `(*Url).Parse(ref)` (value level): the base is cloned inside `BasicParser` -/
def urlParse (cfg : Cfg) (I : Idna) (base : Url) (ref : Bytes) : Res := basicParser cfg I ref (some base) none none

/-- did `BasicParser` hand back a usable url with a nil error? -/
def Res.isOk (r : Res) : Bool := r.ret == .url

/-- `(*parser).ParseRef(rawUrl, ref)` -/
def parseRef (cfg : Cfg) (I : Idna) (raw ref : Bytes) : Res :=
  if raw.isEmpty then parse cfg I ref
  else
    let b := parse cfg I raw
    match b.ret with
    | .url => basicParser cfg I ref (some b.url) none none
    | .err er _ => ⟨b.url, .err er false⟩
    | other => ⟨b.url, other⟩

end WhatwgUrl.Impl
