import WhatwgUrl.Impl.Percent
/-
  Impl: url/hostparser.go — parseHost, endsInANumber, parseIPv4Number, parseIPv4, parseIPv6,
  parseOpaqueHost, IPv6Addr.String, IPv4Addr.String, ToASCII and its ASCII-only fallback.
-/
namespace WhatwgUrl.Impl
open WhatwgUrl

/-- `handleError`: the part that records -/
def record (cfg : Cfg) (u : Url) (t : ErrT) (f : Bool) : Url :=
  if cfg.report then { u with verrs := u.verrs ++ [⟨t, f⟩] } else u
/-- `handleError`: does the caller get a non-nil error back? -/
def stops (cfg : Cfg) (f : Bool) : Bool := f || cfg.failOnVErr

inductive HOut
  | ok (h : Bytes)
  | err (e : VErr)
  | panic (site : Nat)
deriving DecidableEq, Repr, BEq

/-- result of a host-level routine: the url (validation errors may have been appended) and the outcome -/
structure HR where
  url : Url
  out : HOut
deriving DecidableEq, Repr, BEq

/-- `if err := p.handleError(u, t, f); err != nil { return "", err }` followed by `k` -/
def hErr (cfg : Cfg) (u : Url) (t : ErrT) (f : Bool) (k : Url → HR) : HR :=
  if stops cfg f then ⟨record cfg u t f, .err ⟨t, f⟩⟩ else k (record cfg u t f)

/-! ### IPv4 -/

inductive NumErr | none | verr | syntax | range
deriving DecidableEq, Repr, BEq

structure NumR where
  url : Url
  n : Nat
  ve : Bool
  err : NumErr
deriving Repr

def radixDigit (radix : Nat) (x : UInt8) : Bool :=
  if radix == 8 then isOctN x.toNat else if radix == 10 then isDigitN x.toNat else isHexN x.toNat

/-- `parseIPv4Number` -/
def parseIPv4Number (cfg : Cfg) (u : Url) (input : Bytes) : NumR :=
  if input.isEmpty then ⟨record cfg u .IPv4EmptyPart true, 0, false, .verr⟩
  else
    let isHex := input.length ≥ 2 && (startsWith input (lit "0x") || startsWith input (lit "0X"))
    let isOct := !isHex && input.length ≥ 2 && startsWith input (lit "0")
    let digits := if isHex then input.drop 2 else if isOct then input.drop 1 else input
    let radix := if isHex then 16 else if isOct then 8 else 10
    if digits.isEmpty then ⟨u, 0, true, .none⟩
    else if !digits.all (radixDigit radix) then ⟨u, 0, isHex || isOct, .syntax⟩
    else if digitsVal radix digits ≥ 2 ^ 63 then ⟨u, 2 ^ 63 - 1, isHex || isOct, .range⟩   -- strconv.ErrRange
    else ⟨u, digitsVal radix digits, isHex || isOct, .none⟩

/-- `endsInANumber` -/
def endsInANumber (cfg : Cfg) (u : Url) (input : Bytes) : Bool :=
  let parts := splitOn 0x2e input
  let parts := if parts.getLast? == some [] then (if parts.length == 1 then [] else parts.dropLast) else parts
  match parts.getLast? with
  | none => false
  | some last =>
    if last.isEmpty then false
    else if last.all (fun x => isDigitN x.toNat) then true
    else
      let r := parseIPv4Number cfg u last
      r.err == .none || r.err == .range

/-- `IPv4Addr.String` -/
def ipv4String (n : Nat) : Bytes :=
  itoa (n / 2 ^ 24 % 256) ++ [0x2e] ++ itoa (n / 2 ^ 16 % 256) ++ [0x2e] ++ itoa (n / 2 ^ 8 % 256) ++ [0x2e] ++ itoa (n % 256)

structure NumsR where
  url : Url
  nums : List Nat
  err : Option VErr
deriving Repr

/-- the loop `for _, part := range parts` of `parseIPv4` -/
def parseIPv4Parts (cfg : Cfg) : Url → List Bytes → List Nat → NumsR
  | u, [], acc => ⟨u, acc, none⟩
  | u, part :: rest, acc =>
    let r := parseIPv4Number cfg u part
    if r.err != .none then
      -- handleWrappedError(IPv4NonNumericPart, true): always returns
      ⟨record cfg r.url .IPv4NonNumericPart true, acc, some ⟨.IPv4NonNumericPart, true⟩⟩
    else if r.ve && stops cfg false then
      ⟨record cfg r.url .IPv4NonDecimalPart false, acc, some ⟨.IPv4NonDecimalPart, false⟩⟩
    else
      parseIPv4Parts cfg (if r.ve then record cfg r.url .IPv4NonDecimalPart false else r.url) rest (acc ++ [r.n])

/-- first loop over `numbers`: a non-fatal `IPv4OutOfRangePart` per number > 255 -/
def ipv4RangeWarn (cfg : Cfg) : Url → List Nat → Url × Bool
  | u, [] => (u, false)
  | u, n :: rest =>
    if n > 255 then
      if stops cfg false then (record cfg u .IPv4OutOfRangePart false, true)
      else ipv4RangeWarn cfg (record cfg u .IPv4OutOfRangePart false) rest
    else ipv4RangeWarn cfg u rest

/-- `parseIPv4` -/
def parseIPv4 (cfg : Cfg) (u : Url) (input : Bytes) : HR :=
  let parts0 := splitOn 0x2e input
  let lastEmpty := parts0.getLast? == some []
  let afterEmpty : Url → HR := fun u =>
    let parts := if lastEmpty && parts0.length > 1 then parts0.dropLast else parts0
    let afterCount : Url → HR := fun u =>
      let pr := parseIPv4Parts cfg u parts []
      match pr.err with
      | some e => ⟨pr.url, .err e⟩
      | none =>
        let w := ipv4RangeWarn cfg pr.url pr.nums
        if w.2 then ⟨w.1, .err ⟨.IPv4OutOfRangePart, false⟩⟩
        else
          let nums := pr.nums
          if nums.dropLast.any (· > 255) then ⟨record cfg w.1 .IPv4OutOfRangePart true, .err ⟨.IPv4OutOfRangePart, true⟩⟩
          else match nums.getLast? with
            | none => ⟨w.1, .panic 1⟩            -- numbers[len(numbers)-1] on an empty slice
            | some last =>
              if last ≥ 256 ^ (5 - nums.length) then
                ⟨record cfg w.1 .IPv4OutOfRangePart true, .err ⟨.IPv4OutOfRangePart, true⟩⟩
              else
                let front := nums.dropLast
                let v := (List.range front.length).foldl (fun acc i => acc + front[i]! * 256 ^ (3 - i)) last
                ⟨w.1, .ok (ipv4String (v % 2 ^ 32))⟩
    if parts.length > 4 then hErr cfg u .IPv4TooManyParts true afterCount else afterCount u
  if lastEmpty then hErr cfg u .IPv4EmptyPart false afterEmpty else afterEmpty u

/-! ### IPv6 -/

/-- locals of the first loop of `IPv6Addr.String` -/
structure Scan6 where
  compress : Int := -1
  compressLength : Nat := 0
  currentIdx : Int := -1
  currentLength : Nat := 0
deriving Repr, DecidableEq

def scanStep6 (a : List Nat) (st : Scan6) (i : Nat) : Scan6 :=
  if a[i]! == 0 then
    { st with currentIdx := if st.currentIdx < 0 then (i : Int) else st.currentIdx, currentLength := st.currentLength + 1 }
  else if st.currentLength > 1 && st.currentLength > st.compressLength then
    { compress := st.currentIdx, compressLength := st.currentLength, currentIdx := -1, currentLength := 0 }
  else { st with currentIdx := -1, currentLength := 0 }

/-- `IPv6Addr.String`: index of the compressed run (-1 = none) -/
def ipv6CompressScan (a : List Nat) : Int :=
  let st := (List.range 8).foldl (scanStep6 a) {}
  if st.currentLength > 1 && st.currentLength > st.compressLength then st.currentIdx else st.compress

/-- second loop of `IPv6Addr.String`; state (output, ignore0) -/
def serStep6 (a : List Nat) (compress : Int) (st : Bytes × Bool) (i : Nat) : Bytes × Bool :=
  if st.2 && a[i]! == 0 then st
  else if compress == (i : Int) then (st.1 ++ (if i == 0 then [0x3a, 0x3a] else [0x3a]), true)
  else (st.1 ++ hexStr a[i]! ++ (if i != 7 then [0x3a] else []), false)

def ipv6String (a : List Nat) : Bytes :=
  ((List.range 8).foldl (serStep6 a (ipv6CompressScan a)) (([] : Bytes), false)).1

/-- cursor of `parseIPv6`'s private `inputString` -/
structure C6 where
  pointer : Int
  eof : Bool
deriving Repr

def cur6 (rs : Str) (p : Int) : Option Char := if 0 ≤ p then rs[p.toNat]? else none

/-- `nextCodePoint` -/
def next6 (rs : Str) (c : C6) : C6 × Char :=
  match cur6 rs (c.pointer + 1) with
  | some ch => ({ c with pointer := c.pointer + 1 }, ch)
  | none => ({ pointer := c.pointer + 1, eof := true }, repl)

/-- `remainingStartsWith(":")` -/
def startsWithColon6 (rs : Str) (c : C6) : Bool := !c.eof && cur6 rs (c.pointer + 1) == some ':'

structure S6 where
  cur : C6
  c : Char
  address : List Nat
  pieceIdx : Nat
  compress : Int
  url : Url

inductive R6
  | cont (s : S6)
  | brk (s : S6)          -- `break` out of the main loop
  | done (r : HR)

def setPiece (a : List Nat) (i v : Nat) : Option (List Nat) := if i < a.length then some (a.set i v) else none

/-- hex digits loop: `for length < 4 && ASCIIHexDigit.Test(c)` ; returns (cursor, c, value, length) -/
def hexLoop6 (rs : Str) : Nat → C6 → Char → Nat → Nat → C6 × Char × Nat × Nat
  | 0, cu, c, v, l => (cu, c, v, l)
  | fuel + 1, cu, c, v, l =>
    if l < 4 && isHexN c.toNat then
      hexLoop6 rs fuel (next6 rs cu).1 (next6 rs cu).2 (v * 16 + hexVal c.toNat) (l + 1)
    else (cu, c, v, l)

/-- inner digits loop of the IPv4-in-IPv6 part: `for ASCIIDigit.Test(c)`; `ipv4Piece` is -1 before the first digit -/
def digitLoop6 (cfg : Cfg) (rs : Str) : Nat → C6 → Char → Int → Url → Sum (C6 × Char × Int × Url) HR
  | 0, cu, c, p, u => .inl (cu, c, p, u)
  | fuel + 1, cu, c, p, u =>
    if isDigitN c.toNat then
      let number : Int := ((c.toNat - 0x30 : Nat) : Int)
      if p < 0 then
        let p' := number
        if p' > 255 then .inr ⟨record cfg u .IPv4InIPv6OutOfRangePart true, .err ⟨.IPv4InIPv6OutOfRangePart, true⟩⟩
        else digitLoop6 cfg rs fuel (next6 rs cu).1 (next6 rs cu).2 p' u
      else if p == 0 then .inr ⟨record cfg u .IPv4InIPv6InvalidCodePoint true, .err ⟨.IPv4InIPv6InvalidCodePoint, true⟩⟩
      else
        let p' := p * 10 + number
        if p' > 255 then .inr ⟨record cfg u .IPv4InIPv6OutOfRangePart true, .err ⟨.IPv4InIPv6OutOfRangePart, true⟩⟩
        else digitLoop6 cfg rs fuel (next6 rs cu).1 (next6 rs cu).2 p' u
    else .inl (cu, c, p, u)

def fail6 (cfg : Cfg) (u : Url) (t : ErrT) : HR := ⟨record cfg u t true, .err ⟨t, true⟩⟩

/-- the IPv4-in-IPv6 loop `for !input.eof`; state: cursor, c, address, pieceIdx, numbersSeen -/
def v4Loop6 (cfg : Cfg) (rs : Str) : Nat → C6 → Char → List Nat → Nat → Nat → Url → Sum (List Nat × Nat × Nat × Url) HR
  | 0, _, _, a, pi, ns, u => .inl (a, pi, ns, u)
  | fuel + 1, cu, c, a, pi, ns, u =>
    if cu.eof then .inl (a, pi, ns, u)
    else
      -- separator
      let sepOk := !(ns > 0) || (c == '.' && ns < 4)
      if !sepOk then .inr (fail6 cfg u .IPv4InIPv6InvalidCodePoint)
      else
        let cu1 := if ns > 0 then (next6 rs cu).1 else cu
        let c1 := if ns > 0 then (next6 rs cu).2 else c
        if !isDigitN c1.toNat then .inr (fail6 cfg u .IPv4InIPv6InvalidCodePoint)
        else match digitLoop6 cfg rs (rs.length + 2) cu1 c1 (-1) u with
          | .inr r => .inr r
          | .inl (cu2, c2, p, u2) =>
            match setPiece a pi ((a[pi]! * 0x100 + p.toNat) % 0x10000) with
            | none => .inr ⟨u2, .panic 2⟩
            | some a' =>
              let ns' := ns + 1
              let pi' := if ns' == 2 || ns' == 4 then pi + 1 else pi
              v4Loop6 cfg rs fuel cu2 c2 a' pi' ns' u2

/-- one iteration of the main loop `for !input.eof` of `parseIPv6` -/
def iter6 (cfg : Cfg) (rs : Str) (s : S6) : R6 :=
  if s.pieceIdx == 8 then .done (fail6 cfg s.url .IPv6TooManyPieces)
  else if s.c == ':' then
    if s.compress ≥ 0 then .done (fail6 cfg s.url .IPv6MultipleCompression)
    else .cont { s with cur := (next6 rs s.cur).1, c := (next6 rs s.cur).2, pieceIdx := s.pieceIdx + 1, compress := (s.pieceIdx + 1 : Nat) }
  else
    let h := hexLoop6 rs 5 s.cur s.c 0 0
    let cu := h.1
    let c := h.2.1
    let value := h.2.2.1
    let length := h.2.2.2
    if c == '.' then
      if length == 0 then .done (fail6 cfg s.url .IPv4InIPv6InvalidCodePoint)
      else
        -- input.rewind(length + 1); c = input.nextCodePoint()
        let cuR : C6 := { pointer := cu.pointer - (length + 1 : Nat), eof := false }
        let cu1 := (next6 rs cuR).1
        let c1 := (next6 rs cuR).2
        if s.pieceIdx > 6 then .done (fail6 cfg s.url .IPv4InIPv6TooManyPieces)
        else match v4Loop6 cfg rs (rs.length + 2) cu1 c1 s.address s.pieceIdx 0 s.url with
          | .inr r => .done r
          | .inl (a, pi, ns, u) =>
            if ns != 4 then .done (fail6 cfg u .IPv4InIPv6TooFewParts)
            else .brk { s with address := a, pieceIdx := pi, url := u }
    else
      let afterSep : C6 → Char → R6 := fun cu c =>
        match setPiece s.address s.pieceIdx (value % 0x10000) with
        | none => .done ⟨s.url, .panic 3⟩
        | some a => .cont { s with cur := cu, c := c, address := a, pieceIdx := s.pieceIdx + 1 }
      if c == ':' then
        let cu1 := (next6 rs cu).1
        let c1 := (next6 rs cu).2
        if cu1.eof then .done (fail6 cfg s.url .IPv6InvalidCodePoint) else afterSep cu1 c1
      else if !cu.eof then .done (fail6 cfg s.url .IPv6InvalidCodePoint)
      else afterSep cu c

def loop6 (cfg : Cfg) (rs : Str) : Nat → S6 → Sum S6 HR
  | 0, s => .inl s
  | fuel + 1, s =>
    if s.cur.eof then .inl s
    else match iter6 cfg rs s with
      | .cont s' => loop6 cfg rs fuel s'
      | .brk s' => .inl s'
      | .done r => .inr r

/-- the swap loop after `::` -/
def swap6 : Nat → List Nat → Nat → Int → Nat → Option (List Nat)
  | 0, a, _, _, _ => some a
  | fuel + 1, a, pieceIdx, compress, swaps =>
    if pieceIdx != 0 && swaps > 0 then
      let j := (compress + (swaps : Int) - 1).toNat
      if pieceIdx < a.length && j < a.length then
        swap6 fuel ((a.set pieceIdx a[j]!).set j a[pieceIdx]!) (pieceIdx - 1) compress (swaps - 1)
      else none
    else some a

/-- `parseIPv6(u, newInputString(input))` -/
def parseIPv6 (cfg : Cfg) (u : Url) (input : Bytes) : HR :=
  let rs := goRunes input
  let cu0 : C6 := { pointer := -1, eof := false }
  let cu1 := (next6 rs cu0).1
  let c1 := (next6 rs cu0).2
  let start : Option S6 :=
    if c1 == ':' then
      if !startsWithColon6 rs cu1 then none
      else
        let cu2 := (next6 rs cu1).1
        let cu3 := (next6 rs cu2).1
        some { cur := cu3, c := (next6 rs cu2).2, address := List.replicate 8 0, pieceIdx := 1, compress := 1, url := u }
    else some { cur := cu1, c := c1, address := List.replicate 8 0, pieceIdx := 0, compress := -1, url := u }
  match start with
  | none => fail6 cfg u .IPv6InvalidCompression
  | some s0 =>
    match loop6 cfg rs (rs.length + 2) s0 with
    | .inr r => r
    | .inl s =>
      if s.compress ≥ 0 then
        match swap6 8 s.address 7 s.compress (s.pieceIdx - s.compress.toNat) with
        | none => ⟨s.url, .panic 4⟩
        | some a => ⟨s.url, .ok ([0x5b] ++ ipv6String a ++ [0x5d])⟩
      else if s.pieceIdx != 8 then fail6 cfg s.url .IPv6TooFewPieces
      else ⟨s.url, .ok ([0x5b] ++ ipv6String s.address ++ [0x5d])⟩

/-! ### opaque host -/

/-- the loop of `parseOpaqueHost`; `lax` returns the input unchanged at the first forbidden code point -/
def opaqueLoop (cfg : Cfg) (input : Bytes) : Str → Url → Bytes → HR
  | [], u, out => ⟨u, .ok out⟩
  | c :: rest, u, out =>
    if forbiddenHost c.toNat then
      if cfg.laxHost then ⟨u, .ok input⟩
      else ⟨record cfg u .HostInvalidCodePoint true, .err ⟨.HostInvalidCodePoint, true⟩⟩
    else
      let bad1 := !isUrlCp c.toNat && c != '%'
      if bad1 && stops cfg false then ⟨record cfg u .InvalidURLUnit false, .err ⟨.InvalidURLUnit, false⟩⟩
      else
        let u1 := if bad1 then record cfg u .InvalidURLUnit false else u
        let bad2 := c == '%' && invalidPct (c :: rest)
        if bad2 && stops cfg false then ⟨record cfg u1 .InvalidURLUnit false, .err ⟨.InvalidURLUnit, false⟩⟩
        else
          let u2 := if bad2 then record cfg u1 .InvalidURLUnit false else u1
          opaqueLoop cfg input rest u2 (out ++ percentEncodeRune cfg c0Set c)

def parseOpaqueHost (cfg : Cfg) (u : Url) (input : Bytes) : HR := opaqueLoop cfg input (goRunes input) u []

/-! ### domain to ASCII -/

/-- the part of Go's `strings.ToLower` that matters to `containsOnlyASCIIOrMiscAndNoPunycode`:
    two non-ASCII letters lower-case to ASCII letters (U+212A KELVIN SIGN, U+0130 I WITH DOT ABOVE). -/
def lowerForCheck (c : Char) : Char :=
  if c.toNat == 0x212A then 'k' else if c.toNat == 0x130 then 'i' else lowerC c

/-- `containsOnlyASCIIOrMiscAndNoPunycode`; `p` is the little automaton recognising `xn--` at a label start -/
def asciiOrMiscNoPuny : Str → Int → Bool
  | [], _ => true
  | r0 :: rest, p =>
    let r := lowerForCheck r0
    if r.toNat ≥ 0x80 && r.toNat != 0x2260 && r.toNat != 0x226e && r.toNat != 0x226f then false
    else if r == '.' then asciiOrMiscNoPuny rest 0
    else if p == 0 && r == 'x' then asciiOrMiscNoPuny rest 1
    else if p == 1 && r == 'n' then asciiOrMiscNoPuny rest 2
    else if p == 2 && r == '-' then asciiOrMiscNoPuny rest 3
    else if p == 3 && r == '-' then false
    else asciiOrMiscNoPuny rest (-1)

/-- `stringToUnicode` -/
def stringToUnicode (cm : Charmap) : Str → Option Bytes
  | [] => some []
  | r :: rest =>
    if (cm.enc r).2 && (cm.enc r).1.toNat > 31 then (stringToUnicode cm rest).map ((cm.enc r).1 :: ·) else none

inductive ToAsciiR
  | ok (a : Bytes)
  | err (a : Bytes)        -- `return a, err`
deriving Repr

/-- `(*parser).ToASCII(src, false)`; second component: the url with the oracle query logged (ghost) -/
def toASCII (cfg : Cfg) (I : Idna) (u : Url) (src0 : Bytes) : ToAsciiR × Url :=
  if src0.isEmpty then (.ok [], u)
  else
    let src := match cfg.encOverride with
      | some cm => (match stringToUnicode cm (goRunes src0) with | some s => s | none => src0)
      | none => src0
    let u' := { u with qlog := u.qlog ++ [src] }
    let a := (I src).1
    let failed := (I src).2
    if failed && asciiOrMiscNoPuny (goRunes src) 0 then (.ok a, u')
    else if failed && !cfg.laxHost then (.err a, u')
    else if a.isEmpty then (.err [], u')
    else (.ok a, u')

/-- the loop `for _, c := range asciiDomain` with the forbidden domain code point test.
    `none` = no early return; `some r` = early return. -/
def forbiddenLoop (cfg : Cfg) (asciiDomain : Bytes) : Str → Url → Url × Option HOut
  | [], u => (u, none)
  | c :: rest, u =>
    if forbiddenDomain c.toNat then
      if cfg.laxHost then (u, some (.ok (percentEncodeString cfg hostSet asciiDomain)))
      else (record cfg u .DomainInvalidCodePoint true, some (.err ⟨.DomainInvalidCodePoint, true⟩))
    else forbiddenLoop cfg asciiDomain rest u

/-- `(*parser).parseHost(u, parser, input, isNotSpecial)` -/
def parseHost (cfg : Cfg) (I : Idna) (u : Url) (input0 : Bytes) (isNotSpecial : Bool) : HR :=
  let input := match cfg.preHost with | some f => f u input0 | none => input0
  match input with
  | [] => ⟨u, .ok []⟩
  | b0 :: _ =>
    if b0 == 0x5b then
      if !endsWith input [0x5d] then fail6 cfg u .IPv6Unclosed
      else parseIPv6 cfg u (trimSuffix1 (trimPrefix1 input [0x5b]) [0x5d])
    else if isNotSpecial then parseOpaqueHost cfg u input
    else
      let domain := decodePercent cfg input
      if !validUtf8 domain && cfg.laxHost then ⟨u, .ok (percentEncodeBytes hostSet input)⟩
      else if !validUtf8 domain then fail6 cfg u .DomainToASCII
      else
        let ta := toASCII cfg I u domain
        let u1 := ta.2
        match ta.1 with
        | .err _ =>
          if cfg.laxHost then ⟨u1, .ok domain⟩ else fail6 cfg u1 .DomainToASCII
        | .ok asciiDomain =>
          let fl := forbiddenLoop cfg asciiDomain (goRunes asciiDomain) u1
          match fl.2 with
          | some out => ⟨fl.1, out⟩
          | none =>
            if endsInANumber cfg fl.1 asciiDomain then parseIPv4 cfg fl.1 asciiDomain
            else match cfg.postHost with
              | some f => ⟨fl.1, .ok (f fl.1 asciiDomain)⟩
              | none => ⟨fl.1, .ok asciiDomain⟩

end WhatwgUrl.Impl
