import WhatwgUrl.Impl.Heap
/-
  Impl: canonicalizer/canonicalizer.go, options.go, profiles.go
-/
namespace WhatwgUrl.Impl
open WhatwgUrl

inductive QuerySort | noSort | sortKeys | sortParameter
deriving DecidableEq, Repr, BEq

/-- `canonicalizer.profile` -/
structure Profile where
  cfg : Cfg := {}
  removeUserInfo : Bool := false
  removePort : Bool := false
  removeFragment : Bool := false
  sortQuery : QuerySort := .noSort
  repeatedPercentDecoding : Bool := false
  defaultScheme : Bytes := []

/-- canonicalizer's own `decodePercentEncoded` (byte level, no encoding override) -/
def canonDecode : Bytes → Bytes
  | [] => []
  | x :: rest@(h1 :: h2 :: rest') =>
    if x == 0x25 && isHexN h1.toNat && isHexN h2.toNat then
      (hexVal h1.toNat * 16 + hexVal h2.toNat).toUInt8 :: canonDecode rest'
    else x :: canonDecode rest
  | x :: rest => x :: canonDecode rest

/-- `repeatedDecode`: decode until nothing changes (fuelled by the length: a changing decode shortens) -/
def repeatedDecodeAux : Nat → Bytes → Bytes
  | 0, s => s
  | fuel + 1, s => if canonDecode s == s then s else repeatedDecodeAux fuel (canonDecode s)

def repeatedDecode (s : Bytes) : Bytes := repeatedDecodeAux (s.length + 1) s

/-- canonicalizer's `percentEncode(s, tr)`: byte level with `tr.Set('%')` -/
def canonEncode (tr : PSet) (s : Bytes) : Bytes := percentEncodeBytes (tr.set 0x25) s

def decodeEncode (tr : PSet) (s : Bytes) : Bytes := canonEncode tr (repeatedDecode s)

def laxPathSet : PSet := pathSet.clearAll [0x2E, 0x3C, 0x3E]
def laxQuerySet : PSet := querySet.clearAll [0x22, 0x25, 0x2F, 0x3B, 0x3F, 0x7B]
def repeatedQuerySet : PSet := c0OrSpaceSet.setAll [0x23, 0x25, 0x26, 0x3d]

/-- sequential composition of heap steps that may panic: stop at the first non-`url` return -/
def thenH (x : Heap × Ret) (k : Heap → Heap × Ret) : Heap × Ret :=
  match x.2 with
  | .panic n => (x.1, .panic n)
  | _ => k x.1

/-- `(*profile).Canonicalize(u)` on object `i`. Setter return values are ignored by the Go code, except panics. -/
def canonicalize (I : Idna) (p : Profile) (H : Heap) (i : Nat) : Heap × Ret :=
  let getU : Heap → Url := fun H => ((H.urls[i]?).map (·.u)).getD {}
  let s1 : Heap → Heap × Ret := fun H =>
    if p.repeatedPercentDecoding && hostname (getU H) != [] then
      H.set I i .hostname (decodeEncode hostSet (hostname (getU H)))
    else (H, .url)
  let s2 : Heap → Heap × Ret := fun H =>
    if p.repeatedPercentDecoding && pathname (getU H) != [] then
      H.set I i .pathname (decodeEncode laxPathSet (pathname (getU H)))
    else (H, .url)
  let s3 : Heap → Heap × Ret := fun H =>
    if p.repeatedPercentDecoding && search (getU H) != [] then
      match H.searchParams i with
      | (H', some s) => (H'.spMutate s (.iterate fun nv => (decodeEncode repeatedQuerySet nv.1, decodeEncode repeatedQuerySet nv.2)), .url)
      | (H', none) => (H', .url)
    else (H, .url)
  let s4 : Heap → Heap × Ret := fun H =>
    if p.repeatedPercentDecoding && hashG (getU H) != [] then
      H.set I i .hash (decodeEncode hostSet (trimPrefix1 (hashG (getU H)) [0x23]))
    else (H, .url)
  let s5 : Heap → Heap × Ret := fun H => if p.removePort then H.set I i .port [] else (H, .url)
  let s6 : Heap → Heap × Ret := fun H =>
    if p.removeUserInfo then thenH (H.set I i .username []) fun H => H.set I i .password [] else (H, .url)
  let s7 : Heap → Heap × Ret := fun H => if p.removeFragment then H.set I i .hash [] else (H, .url)
  let s8 : Heap → Heap × Ret := fun H =>
    match p.sortQuery with
    | .noSort => (H, .url)
    | .sortKeys => (match H.searchParams i with | (H', some s) => (H'.spMutate s .sort, .url) | (H', none) => (H', .url))
    | .sortParameter => (match H.searchParams i with | (H', some s) => (H'.spMutate s .sortAbs, .url) | (H', none) => (H', .url))
  thenH (s1 H) fun H => thenH (s2 H) fun H => thenH (s3 H) fun H => thenH (s4 H) fun H =>
  thenH (s5 H) fun H => thenH (s6 H) fun H => thenH (s7 H) fun H =>
  match s8 H with
  | (H', .panic n) => (H', .panic n)
  | (H', _) => (H', .url)

/-- the retry with the default scheme, shared by `Parse` and `ParseRef` -/
def canonParseBase (I : Idna) (p : Profile) (raw : Bytes) : Res :=
  let r := parse p.cfg I raw
  match r.ret with
  | .err er _ =>
    if er.t == .MissingSchemeNonRelativeURL && p.defaultScheme != [] then
      parse p.cfg I (p.defaultScheme ++ lit "://" ++ raw)
    else r
  | _ => r

/-- `(*profile).Parse(rawUrl)` : heap, new object (if any), return -/
def canonParse (I : Idna) (p : Profile) (H : Heap) (raw : Bytes) : Heap × Option Nat × Ret :=
  let r := canonParseBase I p raw
  match H.allocRes p.cfg r with
  | (H', some i) => let c := canonicalize I p H' i; (c.1, some i, c.2)
  | (H', none) => (H', none, match r.ret with | .err er _ => .err er false | x => x)

/-- `(*profile).ParseRef(rawUrl, ref)` -/
def canonParseRef (I : Idna) (p : Profile) (H : Heap) (raw ref : Bytes) : Heap × Option Nat × Ret :=
  let b := canonParseBase I p raw
  match b.ret with
  | .url =>
    let r := Impl.urlParse p.cfg I b.url ref
    (match H.allocRes p.cfg r with
     | (H', some i) => let c := canonicalize I p H' i; (c.1, some i, c.2)
     | (H', none) => (H', none, match r.ret with | .err er _ => .err er false | x => x))
  | .err er _ => (H, none, .err er false)
  | x => (H, none, x)

end WhatwgUrl.Impl
