import WhatwgUrl.Impl.Canon
/-
  The two predefined canonicalization profiles with parser options, as Lean VALUES (canonicalizer/profiles.go:
  `GoogleSafeBrowsing`, `Semantic`), together with the closures they install (`WithPreParseHostFunc`) and the Latin-1
  charmap of `WithEncodingOverride(charmap.ISO8859_1)`.

  Tie to the code: the harness prints the configuration token of the real profile objects (`Generated.profile_*`,
  regenerated on every run); the driver decodes a token with `profileOfTok`, which installs exactly these closures for the
  closure ids 1 and 2, and the leaf `LPROF` compares every other field of the decoded token with the values below — so the
  theorems about `gsbProfile` / `semanticProfile` (Props/C18e.lean) are about the options the Go objects have today.
-/
namespace WhatwgUrl.Impl

def latin1 : Charmap :=
  { enc := fun r => if r.toNat < 0x100 then (r.toNat.toUInt8, true) else (0x1A, false)
    dec := fun x => Char.ofNat x.toNat }

/-- `strings.Trim(host, ".")` then collapse `\.\.+` to `.` -/
def collapseDotsAux : Bool → Bytes → Bytes
  | _, [] => []
  | prevDot, x :: rest =>
    if x == 0x2e then (if prevDot then collapseDotsAux true rest else x :: collapseDotsAux true rest)
    else x :: collapseDotsAux false rest

def collapseDots (s : Bytes) : Bytes := collapseDotsAux false s

def gsbPre (_ : Url) (h : Bytes) : Bytes := collapseDots (trimRightByte 0x2e (trimLeftByte 0x2e h))
def semanticPre (_ : Url) (h : Bytes) : Bytes :=
  if h.isEmpty then h
  else
    let h' := collapseDots (trimRightByte 0x2e (trimLeftByte 0x2e h))
    if h'.isEmpty then lit "0.0.0.0" else h'

/-- the parser options of `canonicalizer.GoogleSafeBrowsing` -/
def gsbCfg : Cfg :=
  { laxHost := true, querySet := laxQuerySet, collapse := true, acceptInvalid := true, pctSingle := true,
    preHost := some gsbPre, skipEquals := true }

/-- `canonicalizer.GoogleSafeBrowsing` -/
def gsbProfile : Profile :=
  { cfg := gsbCfg, removePort := true, removeFragment := true, repeatedPercentDecoding := true, defaultScheme := lit "http" }

/-- the parser options of `canonicalizer.Semantic` -/
def semanticCfg : Cfg :=
  { laxHost := true, pathSet := laxPathSet, querySet := laxQuerySet, collapse := true, acceptInvalid := true, pctSingle := true,
    allowNonBasePath := true, encOverride := some latin1, preHost := some semanticPre,
    specialSchemes := [(lit "file", []), (lit "ftp", lit "21"), (lit "gopher", lit "70"), (lit "http", lit "80"),
      (lit "https", lit "443"), (lit "ws", lit "80"), (lit "wss", lit "443")] }

/-- `canonicalizer.Semantic` -/
def semanticProfile : Profile :=
  { cfg := semanticCfg, removeUserInfo := true, removeFragment := true, repeatedPercentDecoding := true,
    sortQuery := .sortKeys, defaultScheme := lit "http" }

/-- every field of a configuration that is data (not a closure, not the charmap) -/
def Cfg.sameData (a b : Cfg) : Bool :=
  a.report == b.report && a.failOnVErr == b.failOnVErr && a.laxHost == b.laxHost && a.collapse == b.collapse &&
  a.acceptInvalid == b.acceptInvalid && a.pctSingle == b.pctSingle && a.allowNonBasePath == b.allowNonBasePath &&
  a.skipDrive == b.skipDrive && a.skipTrailingSlash == b.skipTrailingSlash && a.skipEquals == b.skipEquals &&
  a.pathSet == b.pathSet && a.spQuerySet == b.spQuerySet && a.querySet == b.querySet && a.spFragSet == b.spFragSet &&
  a.fragSet == b.fragSet &&
  -- a Go map: the table as a set of entries
  a.specialSchemes.all (fun e => b.specialSchemes.contains e) && b.specialSchemes.all (fun e => a.specialSchemes.contains e) &&
  a.specialSchemes.length == b.specialSchemes.length &&
  a.preHost.isSome == b.preHost.isSome && a.postHost.isSome == b.postHost.isSome && a.encOverride.isSome == b.encOverride.isSome

def Profile.sameData (a b : Profile) : Bool :=
  a.cfg.sameData b.cfg && a.removeUserInfo == b.removeUserInfo && a.removePort == b.removePort &&
  a.removeFragment == b.removeFragment && a.repeatedPercentDecoding == b.repeatedPercentDecoding &&
  a.defaultScheme == b.defaultScheme &&
  (match a.sortQuery, b.sortQuery with
   | .noSort, .noSort => true | .sortKeys, .sortKeys => true | .sortParameter, .sortParameter => true | _, _ => false)

end WhatwgUrl.Impl
