import WhatwgUrl.Basic
/-
  Impl: an executable model of what the Go code in /repo does (not of what it should do).
  Types: percent-encode sets, parser options, the Url record, errors.
-/
namespace WhatwgUrl.Impl
open WhatwgUrl

/-- `url.PercentEncodeSet{bs, allBelow}`; `bits` is the bitset (bit i = code point i), only bits < 0x80 matter. -/
structure PSet where
  allBelow : Nat
  bits : Nat
deriving Repr, BEq, DecidableEq

namespace PSet
/-- `RuneShouldBeEncoded` / `ByteShouldBeEncoded` -/
def has (p : PSet) (c : Nat) : Bool := c < p.allBelow || c > 0x7E || p.bits.testBit c
/-- `!RuneNotInSet` -/
def inSet (p : PSet) (c : Nat) : Bool := c < p.allBelow || p.bits.testBit c
/-- `Set(b)` : a derived copy -/
def set (p : PSet) (c : Nat) : PSet := { p with bits := p.bits ||| (1 <<< c) }
def setAll (p : PSet) (cs : List Nat) : PSet := cs.foldl set p
/-- `Clear(b)` : a derived copy -/
def clear (p : PSet) (c : Nat) : PSet := { p with bits := if p.bits.testBit c then p.bits - (1 <<< c) else p.bits }
def clearAll (p : PSet) (cs : List Nat) : PSet := cs.foldl clear p
end PSet

def c0Set : PSet := ⟨0x20, 0⟩
def c0OrSpaceSet : PSet := ⟨0x21, 0⟩
def fragmentSet : PSet := c0OrSpaceSet.setAll [0x22, 0x3c, 0x3e, 0x60]
def querySet : PSet := c0OrSpaceSet.setAll [0x22, 0x23, 0x3c, 0x3e]
def specialQuerySet : PSet := querySet.set 0x27
def pathSet : PSet := querySet.setAll [0x3f, 0x60, 0x7b, 0x7d]
def userinfoSet : PSet := pathSet.setAll [0x2f, 0x3a, 0x3b, 0x3d, 0x40, 0x5b, 0x5c, 0x5d, 0x5e, 0x7c]
def hostSet : PSet := c0OrSpaceSet.set 0x23

/-- `ForbiddenHostCodePoint` bitset -/
def forbiddenHost (c : Nat) : Bool :=
  c == 0x00 || c == 0x09 || c == 0x0a || c == 0x0d || c == 0x20 || c == 0x23 || c == 0x2f || c == 0x3a ||
  c == 0x3c || c == 0x3e || c == 0x3f || c == 0x40 || c == 0x5b || c == 0x5c || c == 0x5d || c == 0x5e || c == 0x7c
/-- `ForbiddenDomainCodePoint` bitset -/
def forbiddenDomain (c : Nat) : Bool := forbiddenHost c || c ≤ 0x1f || c == 0x25 || c == 0x7f

/-- `someURLCodePoints` bitset -/
def someUrlCp (c : Nat) : Bool :=
  c == 0x24 || (0x26 ≤ c && c ≤ 0x2f) || c == 0x3a || c == 0x3b || c == 0x3d || c == 0x3f || c == 0x40 || c == 0x5f || c == 0x7e

/-- Unicode noncharacters (`unicode.Noncharacter_Code_Point`) -/
def isNonchar (c : Nat) : Bool := (0xFDD0 ≤ c && c ≤ 0xFDEF) || (c % 0x10000 == 0xFFFE) || (c % 0x10000 == 0xFFFF)

/-- `isURLCodePoint` (note: as in the Go code, `!` is missing from the ASCII part) -/
def isUrlCp (c : Nat) : Bool :=
  isAlnumN c || someUrlCp c || (0xa0 ≤ c && c ≤ 0x10fffd && !isNonchar c && !(0xD800 ≤ c && c ≤ 0xDFFF))

/-- the error catalogue of `errors/codes.go`, in declaration order -/
inductive ErrT
  | DomainToASCII | DomainToUnicode
  | DomainInvalidCodePoint | HostInvalidCodePoint | IPv4EmptyPart | IPv4TooManyParts | IPv4NonNumericPart
  | IPv4NonDecimalPart | IPv4OutOfRangePart | IPv6Unclosed | IPv6InvalidCompression | IPv6TooManyPieces
  | IPv6MultipleCompression | IPv6InvalidCodePoint | IPv6TooFewPieces | IPv4InIPv6TooManyPieces
  | IPv4InIPv6InvalidCodePoint | IPv4InIPv6OutOfRangePart | IPv4InIPv6TooFewParts
  | InvalidURLUnit | SpecialSchemeMissingFollowingSolidus | MissingSchemeNonRelativeURL | InvalidReverseSolidus
  | InvalidCredentials | HostMissing | PortMissing | PortOutOfRange | PortInvalid
  | FileInvalidWindowsDriveLetter | FileInvalidWindowsDriveLetterHost
deriving DecidableEq, Repr, BEq

def ErrT.all : List ErrT := [
  .DomainToASCII, .DomainToUnicode,
  .DomainInvalidCodePoint, .HostInvalidCodePoint, .IPv4EmptyPart, .IPv4TooManyParts, .IPv4NonNumericPart,
  .IPv4NonDecimalPart, .IPv4OutOfRangePart, .IPv6Unclosed, .IPv6InvalidCompression, .IPv6TooManyPieces,
  .IPv6MultipleCompression, .IPv6InvalidCodePoint, .IPv6TooFewPieces, .IPv4InIPv6TooManyPieces,
  .IPv4InIPv6InvalidCodePoint, .IPv4InIPv6OutOfRangePart, .IPv4InIPv6TooFewParts,
  .InvalidURLUnit, .SpecialSchemeMissingFollowingSolidus, .MissingSchemeNonRelativeURL, .InvalidReverseSolidus,
  .InvalidCredentials, .HostMissing, .PortMissing, .PortOutOfRange, .PortInvalid,
  .FileInvalidWindowsDriveLetter, .FileInvalidWindowsDriveLetterHost]

def ErrT.idx (t : ErrT) : Nat := (ErrT.all.findIdx? (· == t)).getD 99

/-- a `*errors.ValidationError` as far as it is observable: type and failure flag -/
structure VErr where
  t : ErrT
  failure : Bool
deriving DecidableEq, Repr, BEq

/-- `url.path` -/
structure Path where
  segs : List Bytes
  opq : Bool
deriving DecidableEq, Repr, BEq

/-- `url.Url` (the value part; `searchParams`, `parser` live in the heap model). `host/port/query/fragment` are Go
    `*string` (`none` = nil). `qlog` is a ghost field: the arguments with which the IDNA oracle was consulted. -/
structure Url where
  scheme : Bytes := []
  username : Bytes := []
  password : Bytes := []
  host : Option Bytes := none
  port : Option Bytes := none
  decodedPort : Nat := 0
  path : Path := ⟨[], false⟩
  query : Option Bytes := none
  fragment : Option Bytes := none
  verrs : List VErr := []
  qlog : List Bytes := []
deriving DecidableEq, Repr, BEq

/-- `charmap.Charmap` as far as the code uses it -/
structure Charmap where
  /-- `EncodeRune`: byte and ok flag (the replacement byte when not ok) -/
  enc : Char → UInt8 × Bool
  /-- `DecodeByte` -/
  dec : UInt8 → Char

/-- `idnaProfile.ToASCII` : output and whether an error was returned. An oracle (x/net is not modelled). -/
abbrev Idna := Bytes → Bytes × Bool

/-- `parserOptions` -/
structure Cfg where
  report : Bool := false
  failOnVErr : Bool := false
  laxHost : Bool := false
  collapse : Bool := false
  acceptInvalid : Bool := false
  preHost : Option (Url → Bytes → Bytes) := none
  postHost : Option (Url → Bytes → Bytes) := none
  pctSingle : Bool := false
  allowNonBasePath : Bool := false
  skipDrive : Bool := false
  specialSchemes : List (Bytes × Bytes) :=
    [(lit "ftp", lit "21"), (lit "file", []), (lit "http", lit "80"), (lit "https", lit "443"), (lit "ws", lit "80"), (lit "wss", lit "443")]
  skipTrailingSlash : Bool := false
  encOverride : Option Charmap := none
  pathSet : PSet := pathSet
  spQuerySet : PSet := specialQuerySet
  querySet : PSet := querySet
  spFragSet : PSet := fragmentSet
  fragSet : PSet := fragmentSet
  skipEquals : Bool := false

def Cfg.default : Cfg := {}

/-- Go map lookup `specialSchemes[s]` -/
def Cfg.special? (cfg : Cfg) (s : Bytes) : Option Bytes := (cfg.specialSchemes.find? (·.1 == s)).map (·.2)
def Cfg.isSpecial (cfg : Cfg) (s : Bytes) : Bool := (cfg.special? s).isSome

inductive State
  | schemeStart | scheme | noScheme | opaquePath | specialRelativeOrAuthority | specialAuthoritySlashes
  | specialAuthorityIgnoreSlashes | pathOrAuthority | authority | host | hostname | file | fileHost | fileSlash
  | port | path | pathStart | query | fragment | relative | relativeSlash
deriving DecidableEq, Repr, BEq

/-- how `BasicParser` returned -/
inductive Ret
  | url                         -- `return url, nil`
  | nilNil                      -- `return nil, nil`   (file host state under an override)
  | err (e : VErr) (withUrl : Bool)   -- `return nil, err` / `return url, err`
  | panic (site : Nat)          -- a Go run-time panic (index out of range, nil dereference)
  | outOfFuel                   -- never happens (C02)
deriving DecidableEq, Repr, BEq

/-- final value of the (mutated in place) url plus the return value -/
structure Res where
  url : Url
  ret : Ret
deriving DecidableEq, Repr, BEq

end WhatwgUrl.Impl
