import WhatwgUrl.Impl.Types
/-
  Impl: percent codec (`percentEncodeRune`, `PercentEncodeString`, `DecodePercentEncoded`,
  `percentEncodeString/percentEncodeByte`, `trim`, `remove`) — url/parser.go, url/hostparser.go
-/
namespace WhatwgUrl.Impl
open WhatwgUrl

/-- the bytes that get `%XX`-escaped for rune `r`: UTF-8, or the single byte of the encoding override -/
def runeBytes (cfg : Cfg) (r : Char) : Bytes :=
  match cfg.encOverride with
  | some cm => [(cm.enc r).1]
  | none => utf8Char r

/-- `(*parser).percentEncodeRune(r, tr)` with a non-nil set -/
def percentEncodeRune (cfg : Cfg) (tr : PSet) (r : Char) : Bytes :=
  if !tr.has r.toNat then utf8Char r
  else (runeBytes cfg r).flatMap pctByte

/-- `(*parser).percentEncodeInvalidRune` -/
def percentEncodeInvalidRune (cfg : Cfg) (tr : PSet) (r : Char) : Bytes :=
  if cfg.pctSingle then percentEncodeRune cfg (tr.set 0x25) r else percentEncodeRune cfg tr r

/-- `remainingIsInvalidPercentEncoded(runes)` (first component) -/
def invalidPct (rs : Str) : Bool :=
  match rs with
  | c0 :: rest =>
    c0 == '%' &&
      (match rest with
       | c1 :: c2 :: _ => !isHexN c1.toNat || !isHexN c2.toNat
       | _ => true)
  | [] => false

/-- `(*parser).PercentEncodeString(s, tr)` on the rune list -/
def pesRunes (cfg : Cfg) (tr : PSet) : Str → Bytes
  | [] => []
  | r :: rest =>
    (if r == '%' && invalidPct (r :: rest) && cfg.pctSingle then percentEncodeRune cfg (tr.set 0x25) r
     else percentEncodeRune cfg tr r) ++ pesRunes cfg tr rest

def percentEncodeString (cfg : Cfg) (tr : PSet) (s : Bytes) : Bytes := pesRunes cfg tr (goRunes s)

/-- `(*parser).DecodePercentEncoded(s)` — byte level -/
def decodePercent (cfg : Cfg) : Bytes → Bytes
  | [] => []
  | x :: rest@(h1 :: h2 :: rest') =>
    if x == 0x25 && isHexN h1.toNat && isHexN h2.toNat then
      (match cfg.encOverride with
       | some cm => utf8Char (cm.dec (hexVal h1.toNat * 16 + hexVal h2.toNat).toUInt8)
       | none => [(hexVal h1.toNat * 16 + hexVal h2.toNat).toUInt8]) ++ decodePercent cfg rest'
    else x :: decodePercent cfg rest
  | x :: rest => x :: decodePercent cfg rest

/-- package-level `percentEncodeString(s, tr)` / `percentEncodeByte` of hostparser.go (byte level) -/
def percentEncodeBytes (tr : PSet) (s : Bytes) : Bytes :=
  s.flatMap fun x => if !tr.has x.toNat then [x] else pctByte x

/-- `trimPrefix(s, C0OrSpacePercentEncodeSet)`: result and `changed`. Works on runes (`for i, c := range s`). -/
def trimPrefixAux (tr : PSet) : List (Char × Nat) → Nat → Option Nat
  | [], _ => none
  | d :: rest, off => if !tr.inSet d.1.toNat then some off else trimPrefixAux tr rest (off + d.2)

def trimPrefix (tr : PSet) (s : Bytes) : Bytes × Bool :=
  if s.isEmpty then (s, false)
  else match trimPrefixAux tr (goDecode s) 0 with
    | some i => (s.drop i, i > 0)
    | none => ([], true)

/-- `trimPostfix`: byte level -/
def trimPostfix (tr : PSet) (s : Bytes) : Bytes × Bool :=
  if s.isEmpty then (s, false)
  else
    let kept := (s.reverse.dropWhile fun x => tr.inSet x.toNat).reverse
    if kept.isEmpty then ([], true) else (kept, kept.length < s.length)

def trim (tr : PSet) (s : Bytes) : Bytes × Bool :=
  ((trimPostfix tr (trimPrefix tr s).1).1, (trimPrefix tr s).2 || (trimPostfix tr (trimPrefix tr s).1).2)

def isTabNl (x : UInt8) : Bool := x == 0x09 || x == 0x0a || x == 0x0d

/-- `remove(s, ASCIITabOrNewline)` byte level -/
def removeTabNl (s : Bytes) : Bytes × Bool := (s.filter (!isTabNl ·), s.any isTabNl)

end WhatwgUrl.Impl
