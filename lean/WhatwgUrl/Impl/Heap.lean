import WhatwgUrl.Impl.Api
/-
  Impl: url/searchparams.go and the pointer structure between `Url` and `SearchParams`
  (who points at whom, what `Clone` copies, which object a mutation writes through to).
  In a pure model independence of two values would hold by construction, so the objects that Go shares
  by pointer are explicit here.
-/
namespace WhatwgUrl.Impl
open WhatwgUrl

abbrev Pairs := List (Bytes × Bytes)

/-! ### the urlencoded codec and the list operations (value level) -/

/-- `SearchParams.init(query)` -/
def spInit (cfg : Cfg) (query : Bytes) : Pairs :=
  (splitOn 0x26 query).filterMap fun q =>
    if q.isEmpty then none
    else
      some (decodePercent cfg (replaceByte 0x2b 0x20 (splitFirst 0x3d q).1),
            match (splitFirst 0x3d q).2 with
            | some v => decodePercent cfg (replaceByte 0x2b 0x20 v)
            | none => [])

/-- `SearchParams.QueryEscape` -/
def queryEscape (cfg : Cfg) (s : Bytes) : Bytes :=
  (goRunes s).flatMap fun c => if c.toNat == 0x20 then [0x2b] else percentEncodeRune cfg cfg.querySet c

def spPairString (cfg : Cfg) (nv : Bytes × Bytes) : Bytes :=
  queryEscape cfg nv.1 ++ (if !cfg.skipEquals || nv.2 != [] then [0x3d] else []) ++ (if nv.2 != [] then queryEscape cfg nv.2 else [])

/-- `SearchParams.String()` -/
def spString (cfg : Cfg) (l : Pairs) : Bytes := intercalate [0x26] (l.map (spPairString cfg))

def spDelete (l : Pairs) (name : Bytes) : Pairs := l.filter (·.1 != name)
def spGet (l : Pairs) (name : Bytes) : Bytes := ((l.find? (·.1 == name)).map (·.2)).getD []
def spGetAll (l : Pairs) (name : Bytes) : List Bytes := (l.filter (·.1 == name)).map (·.2)
def spHas (l : Pairs) (name : Bytes) : Bool := l.any (·.1 == name)

/-- the compaction loop of `Set` -/
def spSetAux (name value : Bytes) : Pairs → Bool → Pairs × Bool
  | [], isSet => ([], isSet)
  | nv :: rest, isSet =>
    if nv.1 == name then
      if isSet then spSetAux name value rest isSet
      else ((nv.1, value) :: (spSetAux name value rest true).1, (spSetAux name value rest true).2)
    else (nv :: (spSetAux name value rest isSet).1, (spSetAux name value rest isSet).2)

def spSet (l : Pairs) (name value : Bytes) : Pairs :=
  if (spSetAux name value l false).2 then (spSetAux name value l false).1
  else (spSetAux name value l false).1 ++ [(name, value)]

/-- stable insertion of `x` into a list sorted by `lt` on keys: after every element that is not greater -/
def insertStable (key : Bytes × Bytes → Bytes) (x : Bytes × Bytes) : Pairs → Pairs
  | [] => [x]
  | y :: ys => if bytesLt (key x) (key y) then x :: y :: ys else y :: insertStable key x ys

/-- `sort.SliceStable` (any stable sort gives the same result; modelled as insertion sort) -/
def sortStable (key : Bytes × Bytes → Bytes) (l : Pairs) : Pairs := l.foldl (fun acc x => insertStable key x acc) []

def spSort (l : Pairs) : Pairs := sortStable (·.1) l
def spSortAbs (l : Pairs) : Pairs := sortStable (fun nv => nv.1 ++ nv.2) l

/-! ### objects -/

structure SpObj where
  /-- the back-pointer `SearchParams.url` -/
  url : Option Nat
  params : Pairs

structure UrlObj where
  u : Url
  /-- `Url.searchParams` -/
  sp : Option Nat
  /-- `Url.parser` (its options) -/
  cfg : Cfg

structure Heap where
  urls : List UrlObj := []
  sps : List SpObj := []

namespace Heap

def allocUrl (H : Heap) (o : UrlObj) : Heap × Nat := ({ H with urls := H.urls ++ [o] }, H.urls.length)
def allocSp (H : Heap) (o : SpObj) : Heap × Nat := ({ H with sps := H.sps ++ [o] }, H.sps.length)

def setUrl (H : Heap) (i : Nat) (f : UrlObj → UrlObj) : Heap :=
  match H.urls[i]? with
  | some o => { H with urls := H.urls.set i (f o) }
  | none => H

def setSp (H : Heap) (s : Nat) (f : SpObj → SpObj) : Heap :=
  match H.sps[s]? with
  | some o => { H with sps := H.sps.set s (f o) }
  | none => H

/-- `SearchParams.update()` -/
def spUpdate (H : Heap) (s : Nat) : Heap :=
  match H.sps[s]? with
  | none => H
  | some sp =>
    match sp.url with
    | none => H
    | some j =>
      match H.urls[j]? with
      | none => H
      | some uo =>
        let q := spString uo.cfg sp.params
        if (q.isEmpty && uo.u.query.isSome) || !q.isEmpty then H.setUrl j fun o => { o with u := { o.u with query := some q } }
        else H

/-- `(*Url).newUrlSearchParams()` -/
def newUrlSearchParams (H : Heap) (i : Nat) : Heap :=
  match H.urls[i]? with
  | none => H
  | some uo =>
    let params := match uo.u.query with | some q => spInit uo.cfg q | none => []
    let a := H.allocSp { url := some i, params := params }
    a.1.setUrl i fun o => { o with sp := some a.2 }

/-- `(*Url).SearchParams()` : heap after lazy creation, and the handle -/
def searchParams (H : Heap) (i : Nat) : Heap × Option Nat :=
  match H.urls[i]? with
  | none => (H, none)
  | some uo =>
    match uo.sp with
    | some s => (H, some s)
    | none =>
      let H' := H.newUrlSearchParams i
      (H', (H'.urls[i]?).bind (·.sp))

inductive SpMut
  | append (n v : Bytes)
  | delete (n : Bytes)
  | set (n v : Bytes)
  | sort
  | sortAbs
  /-- `Iterate(f)` with a pair-wise function -/
  | iterate (f : Bytes × Bytes → Bytes × Bytes)

def applyMut (m : SpMut) (l : Pairs) : Pairs :=
  match m with
  | .append n v => l ++ [(n, v)]
  | .delete n => spDelete l n
  | .set n v => spSet l n v
  | .sort => spSort l
  | .sortAbs => spSortAbs l
  | .iterate f => l.map f

/-- any mutating method of `SearchParams`: change the list, then `update()` -/
def spMutate (H : Heap) (s : Nat) (m : SpMut) : Heap :=
  (H.setSp s fun o => { o with params := applyMut m o.params }).spUpdate s

/-- a value-level setter applied to object `i` -/
def setValue (H : Heap) (i : Nat) (r : Res) : Heap := H.setUrl i fun o => { o with u := r.url }

/-- `(*Url).SetSearch(v)` : returns the heap and how the inner parser call returned -/
def setSearch (I : Idna) (H : Heap) (i : Nat) (v : Bytes) : Heap × Ret :=
  match H.urls[i]? with
  | none => (H, .url)
  | some uo =>
    let r := setSearchU uo.cfg I uo.u v
    if v.isEmpty then
      -- u.query = nil; params = params[:0]; strip
      let H1 := H.setValue i r
      let H2 := match uo.sp with | some s => H1.setSp s fun o => { o with params := [] } | none => H1
      (H2, r.ret)
    else
      let H1 := H.setValue i r
      match uo.sp with
      | none => (H1.newUrlSearchParams i, r.ret)
      | some s =>
        -- u.searchParams.init(*u.query): uses the parser of the url the list points at
        match H1.sps[s]? with
        | none => (H1, r.ret)
        | some sp =>
          match sp.url.bind (H1.urls[·]?) with
          | none => (H1, .panic 30)     -- `s.url.parser` on a nil back-pointer
          | some owner =>
            match r.url.query with
            | none => (H1, .panic 31)   -- `*u.query` on nil
            | some q => (H1.setSp s fun o => { o with params := spInit owner.cfg q }, r.ret)

/-- the nine setters on an object -/
def set (I : Idna) (H : Heap) (i : Nat) (s : Setter) (v : Bytes) : Heap × Ret :=
  match s with
  | .search => H.setSearch I i v
  | _ =>
    match H.urls[i]? with
    | none => (H, .url)
    | some uo => let r := setU uo.cfg I s uo.u v; (H.setValue i r, r.ret)

/-- `(*Url).SetSearchParams(sp)` -/
def setSearchParams (H : Heap) (i : Nat) (s : Nat) : Heap :=
  (H.setUrl i fun o => { o with sp := some s }).spUpdate s

/-- `(*Url).Clone()` -/
def clone (H : Heap) (i : Nat) : Heap × Option Nat :=
  match H.urls[i]? with
  | none => (H, none)
  | some uo =>
    let a := H.allocUrl { u := { uo.u with verrs := [], qlog := [] }, sp := none, cfg := uo.cfg }
    match uo.sp.bind (H.sps[·]?) with
    | none => (a.1, some a.2)
    | some sp =>
      let b := a.1.allocSp { url := some a.2, params := sp.params }
      (b.1.setUrl a.2 fun o => { o with sp := some b.2 }, some a.2)

/-- a parse result becomes a new object when it is a url -/
def allocRes (H : Heap) (cfg : Cfg) (r : Res) : Heap × Option Nat :=
  match r.ret with
  | .url => let a := H.allocUrl { u := r.url, sp := none, cfg := cfg }; (a.1, some a.2)
  | _ => (H, none)

/-- `(*Url).Parse(ref)` -/
def urlParse (I : Idna) (H : Heap) (i : Nat) (ref : Bytes) : Heap × Option Nat × Ret :=
  match H.urls[i]? with
  | none => (H, none, .url)
  | some uo =>
    let r := Impl.urlParse uo.cfg I uo.u ref
    let a := H.allocRes uo.cfg r
    (a.1, a.2, r.ret)

end Heap

end WhatwgUrl.Impl
