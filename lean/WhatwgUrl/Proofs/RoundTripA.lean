import WhatwgUrl.Proofs.RoundTrip
import WhatwgUrl.Proofs.HostWF
/-
  Round trip (C03b), stage A: records with an opaque path.
-/
namespace WhatwgUrl.Proofs.RoundTrip
set_option linter.unusedSimpArgs false
set_option linter.unusedVariables false
open WhatwgUrl WhatwgUrl.Impl WhatwgUrl.Proofs.IPv4 WhatwgUrl.Proofs.Trim
open WhatwgUrl.Props.C04b (schemeOk okB WFs)
open WhatwgUrl.Proofs.HostWF (Same)

/-! ### byte classes are printable -/

theorem frag_print : ∀ b : UInt8, fragmentSet.has b.toNat = false → 0x21 ≤ b.toNat ∧ b.toNat < 0x7f :=
  forall_uint8 (by decide +kernel)
theorem query_print : ∀ b : UInt8, querySet.has b.toNat = false → 0x21 ≤ b.toNat ∧ b.toNat < 0x7f :=
  forall_uint8 (by decide +kernel)
theorem squery_print : ∀ b : UInt8, specialQuerySet.has b.toNat = false → 0x21 ≤ b.toNat ∧ b.toNat < 0x7f :=
  forall_uint8 (by decide +kernel)
theorem qset_print (sp : Bool) (b : UInt8) (h : (qset sp).has b.toNat = false) : 0x21 ≤ b.toNat ∧ b.toNat < 0x7f := by
  cases sp
  · exact query_print b h
  · exact squery_print b h
theorem opq_print : ∀ b : UInt8, opqB b = true → 0x20 ≤ b.toNat ∧ b.toNat < 0x7f :=
  forall_uint8 (by decide +kernel)
theorem okB_print : ∀ b : UInt8, okB b = true → 0x21 ≤ b.toNat ∧ b.toNat < 0x7f :=
  forall_uint8 (by decide +kernel)
theorem lower_print : ∀ b : UInt8, isLowerN b.toNat = true → 0x21 ≤ b.toNat ∧ b.toNat < 0x7f :=
  forall_uint8 (by decide +kernel)

/-- all bytes are in 0x21 … 0x7e -/
def Graphic (s : Bytes) : Prop := ∀ b ∈ s, 0x21 ≤ b.toNat ∧ b.toNat < 0x7f

theorem Graphic.printable {s : Bytes} (h : Graphic s) : Printable s := fun b hb => ⟨by have := h b hb; omega, by have := h b hb; omega⟩
theorem Graphic.endsOk {s : Bytes} (h : Graphic s) : EndsOk s :=
  EndsOk_of_all s (fun b hb => by have := h b hb; simp [isWs]; omega)
theorem Graphic.append {s t : Bytes} (hs : Graphic s) (ht : Graphic t) : Graphic (s ++ t) := by
  intro b hb
  rcases List.mem_append.mp hb with h | h
  · exact hs b h
  · exact ht b h
theorem Printable.append {s t : Bytes} (hs : Printable s) (ht : Printable t) : Printable (s ++ t) := by
  intro b hb
  rcases List.mem_append.mp hb with h | h
  · exact hs b h
  · exact ht b h
theorem Graphic.cons {b : UInt8} {t : Bytes} (hb : 0x21 ≤ b.toNat ∧ b.toNat < 0x7f) (ht : Graphic t) : Graphic (b :: t) := by
  intro x hx
  rcases List.mem_cons.mp hx with h | h
  · subst h; exact hb
  · exact ht x h

theorem scheme_graphic (s : Bytes) (h : schemeOk s = true) : Graphic s ∧ ∃ c t, s = c :: t := by
  cases s with
  | nil => simp [schemeOk] at h
  | cons c t =>
    simp only [schemeOk, Bool.and_eq_true] at h
    refine ⟨Graphic.cons (lower_print c h.1) ?_, c, t, rfl⟩
    intro b hb
    have := List.all_eq_true.mp h.2 b hb
    exact okB_print b (by simpa [okB] using this)

theorem fTail_graphic (f : Option Bytes) (hf : FOk f) : Graphic (fTail f) := by
  cases f with
  | none => intro b hb; simp [fTail] at hb
  | some x => exact Graphic.cons (by decide) (fun b hb => frag_print b (hf x rfl b hb))

theorem qTail_graphic (sp : Bool) (q : Option Bytes) (hq : QOk sp q) : Graphic (qTail q) := by
  cases q with
  | none => intro b hb; simp [qTail] at hb
  | some x => exact Graphic.cons (by decide) (fun b hb => qset_print sp b (hq x rfl b hb))

theorem qf_nil {q f : Option Bytes} (h : qTail q ++ fTail f = []) : q = none ∧ f = none := by
  cases q <;> cases f <;> simp [qTail, fTail] at h ⊢

theorem not_slash_prefix (w : Bytes) (h : w.head? ≠ some 0x2f) : ¬ ['/'] <+: asStr w := by
  cases w with
  | nil => simp
  | cons b t =>
    intro hp
    have : bc b = '/' := by have := hp; simp at this; exact this.symm
    have hb : b = 0x2f := bc_inj (x := b) (y := 0x2f) (by rw [this]; rfl)
    exact h (by simp [hb])

theorem Same_setQF (u0 u : Url) (h1 : u0.scheme = u.scheme) (h2 : u0.username = u.username) (h3 : u0.password = u.password)
    (h4 : u0.host = u.host) (h5 : u0.port = u.port) (h6 : u0.decodedPort = u.decodedPort) (h7 : u0.path = u.path)
    (h8 : u.query = none → u0.query = none) (h9 : u.fragment = none → u0.fragment = none) :
    Same (setF (setQ u0 u.query) u.fragment) u := by
  unfold Same
  cases hq : u.query <;> cases hf : u.fragment <;> simp [setF, setQ, h1, h2, h3, h4, h5, h6, h7, h8 , h9, hq, hf]

/-! ### stage A -/

theorem roundtrip_opaque (I : Idna) (u : Url) (hwf : WFs {} u) (hc : RTc u) (ho : u.path.opq = true) :
    ∃ u', parse {} I (href u false) = ⟨u', .url⟩ ∧ Same u' u := by
  obtain ⟨hs, h2, h3, h4, h5, h6⟩ := hwf
  obtain ⟨c1, c2, c3, c4, c5, c6, c7, c8⟩ := hc
  obtain ⟨hhost, hlen⟩ := h3 ho
  have hsp : Cfg.isSpecial {} u.scheme = false := by
    cases h : Cfg.isSpecial {} u.scheme
    · rfl
    · have := (h2 h).2.2.1; rw [ho] at this; cases this
  have huser : u.username = [] := Decidable.byContradiction fun h => (h4 (Or.inl h)).1 hhost
  have hpass : u.password = [] := Decidable.byContradiction fun h => (h4 (Or.inr (Or.inl h))).1 hhost
  have hport : u.port = none := Decidable.byContradiction fun h => (h4 (Or.inr (Or.inr h))).1 hhost
  have hdp := c1 hport
  obtain ⟨p, hp⟩ := List.length_eq_one_iff.mp hlen
  obtain ⟨o1, o2, o3⟩ := c4 ho p (by rw [hp]; simp)
  have hq : QOk false u.query := fun x hx b hb => by
    have := c3 x (by simp [hx]) b hb
    rwa [hsp] at this
  have hf : FOk u.fragment := fun x hx b hb => c2 x (by simp [hx]) b hb
  -- the serialization
  have hhref : href u false = u.scheme ++ 0x3a :: (p ++ (qTail u.query ++ fTail u.fragment)) := by
    unfold href
    simp only [hhost, ho, Path.str, Path.str?, hp, qTail, fTail]
    simp
    rfl
  obtain ⟨hsg, c, t, hct⟩ := scheme_graphic u.scheme hs
  have hpp : Printable p := fun b hb => by have := opq_print b (o1 b hb); omega
  have hqfg : Graphic (qTail u.query ++ fTail u.fragment) := (qTail_graphic false _ hq).append (fTail_graphic _ hf)
  have hprint : Printable (href u false) := by
    rw [hhref]
    refine hsg.printable.append ?_
    have : Printable ([0x3a] ++ (p ++ (qTail u.query ++ fTail u.fragment))) :=
      Printable.append (by intro b hb; simp at hb; subst hb; decide) (hpp.append hqfg.printable)
    simpa using this
  have hhead : ∀ x, (href u false).head? = some x → isWs x = false := by
    intro x hx
    rw [hhref, hct] at hx
    simp at hx
    subst hx
    have := hsg c (by rw [hct]; simp)
    simp [isWs]; omega
  have hends : EndsOk (href u false) := by
    rw [hhref]
    have e1 : u.scheme ++ 0x3a :: (p ++ (qTail u.query ++ fTail u.fragment)) =
        ((u.scheme ++ [0x3a]) ++ p) ++ (qTail u.query ++ fTail u.fragment) := by simp
    rw [e1]
    refine EndsOk_append _ _ hqfg.endsOk ?_
    intro hnil
    obtain ⟨hqn, hfn⟩ := qf_nil hnil
    refine EndsOk_append _ _ ?_ ?_
    · intro x hx
      have hx20 : x ≠ 0x20 := fun e => o3 hqn hfn (by rw [hx, e])
      have := opq_print x (o1 x (List.mem_of_getLast? hx))
      have : x.toNat ≠ 0x20 := fun e => hx20 (UInt8.toNat_inj.mp e)
      simp [isWs]; omega
    · intro _
      exact EndsOk_append _ _ (by intro x hx; simp at hx; subst hx; decide) (by intro h; cases h)
  rw [parse_clean I _ hprint hhead hends]
  -- the run
  have hrs : asStr (href u false) = asStr u.scheme ++ (':' :: asStr (p ++ (qTail u.query ++ fTail u.fragment))) := by
    rw [hhref, asStr_append]; rfl
  have hdk : (asStr (href u false)).drop u.scheme.length = ':' :: asStr (p ++ (qTail u.query ++ fTail u.fragment)) := by
    rw [hrs]; exact List.drop_left' (by simp)
  have hns : ¬ ['/'] <+: asStr (p ++ (qTail u.query ++ fTail u.fragment)) := by
    apply not_slash_prefix
    cases p with
    | cons b t => simpa using o2
    | nil => cases u.query <;> cases u.fragment <;> simp [qTail, fTail]
  have hH : ∃ u', Halts (mkE I (href u false) (asStr (href u false))) ⟨.schemeStart, -1, false, [], false, false, false, {}⟩ u' ∧
      Same u' u := by
    refine ⟨_, reach_scheme I _ _ u.scheme hs _ {} _ hrs
      (halts_step (step_scheme_colon_opaque I _ _ _ u.scheme.length _ rfl rfl (by simp) hdk hsp hns)
        (reach_opaque I _ _ false u.query u.fragment hq hf p o1 _ (u.scheme.length + 1) rfl rfl hsp rfl (by simp)
          (drop_succ_of_cons hdk))), ?_⟩
    apply Same_setQF
    all_goals simp [huser, hpass, hhost, hport, hdp, Path.setOpaque, hp]
    rw [← hp, ← ho]
  obtain ⟨u', hh, hs'⟩ := hH
  exact ⟨u', halts_fuel hh rfl rfl, hs'⟩

end WhatwgUrl.Proofs.RoundTrip
