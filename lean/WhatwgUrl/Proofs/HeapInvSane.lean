import WhatwgUrl.Proofs.HeapInv
import WhatwgUrl.Props.C02b
/-
  Helper for C02c: the second instance of the heap invariant — every url object's record is `SaneC` for its own
  configuration, and "file" is a special scheme of that configuration (the hypothesis under which `SaneC` is inductive,
  see `Props/C02b.lean`).
-/
namespace WhatwgUrl.Proofs.HeapInv
open WhatwgUrl WhatwgUrl.Impl
open WhatwgUrl.Proofs.SaneInv (SaneC)
open WhatwgUrl.Props.C02b

/-- "file" is a special scheme of the configuration -/
def FileSpecial (cfg : Cfg) : Prop := cfg.isSpecial (lit "file") = true

instance (cfg : Cfg) : Decidable (FileSpecial cfg) := by unfold FileSpecial; infer_instance

/-- the record predicate of the `SaneC` instance -/
def RC (cfg : Cfg) (u : Url) : Prop := FileSpecial cfg ∧ SaneC cfg u

instance (cfg : Cfg) (u : Url) : Decidable (RC cfg u) := by unfold RC; infer_instance

theorem recInv_saneC : RecInv RC FileSpecial where
  pathOk h := h.2.2
  setter I s v h := ⟨h.1, C02_setter_saneC _ I s _ v h.1 h.2⟩
  query q h := ⟨h.1, h.2⟩
  ghost h := ⟨h.1, h.2⟩
  resolve I ref h hr := ⟨h.1, C02_parse_saneC _ I ref (some _) (by intro b hb; cases hb; exact h.2) hr⟩
  parse I raw hC hr := ⟨hC, C02_parse_saneC _ I raw none (by intro b hb; cases hb) hr⟩

end WhatwgUrl.Proofs.HeapInv
