import WhatwgUrl.Proofs.RTcInv
import WhatwgUrl.Impl.Canon
/-
  C03c / C17b helper file, part 4: the setters that do not call the parser (user name, password; port, search, hash with the
  empty value) keep `RTx`; the post-processing of the canonicalizer for the options remove-port / remove-user-info /
  remove-fragment at value level (`postU`) and at heap level (`canonicalize_post`).
-/
namespace WhatwgUrl.Proofs.RTcInv
set_option linter.unusedSimpArgs false
set_option linter.unusedVariables false
open WhatwgUrl WhatwgUrl.Impl WhatwgUrl.Proofs.HostWF
open WhatwgUrl.Props.C04b (WFs)
open WhatwgUrl.Proofs.OpaqueSlash (NoSl)

/-! ### the value-level setters -/

theorem RTx_keep_fields {u u' : Url} (h : RTx u) (h1 : u'.scheme = u.scheme) (h4 : u'.host = u.host) (h5 : u'.port = u.port)
    (h6 : u'.decodedPort = u.decodedPort) (h7 : u'.path = u.path) (h8 : u'.query = u.query) (h9 : u'.fragment = u.fragment) :
    RTx u' := by
  unfold RTx Xu Xe Xt NoSl at h ⊢
  rw [h1, h4, h5, h6, h7, h8, h9]; exact h

theorem RTx_same {u u' : Url} (hs : Same u u') : RTx u' ↔ RTx u := by
  obtain ⟨h1, h2, h3, h4, h5, h6, h7, h8, h9⟩ := hs
  exact ⟨fun h => RTx_keep_fields h h1.symm h4.symm h5.symm h6.symm h7.symm h8.symm h9.symm,
    fun h => RTx_keep_fields h h1 h4 h5 h6 h7 h8 h9⟩

theorem setUsername_RTx (cfg : Cfg) (u : Url) (v : Bytes) (h : RTx u) : RTx (setUsername cfg u v).url := by
  unfold setUsername keep
  split
  · exact h
  · exact RTx_keep_fields h rfl rfl rfl rfl rfl rfl rfl

theorem setPassword_RTx (cfg : Cfg) (u : Url) (v : Bytes) (h : RTx u) : RTx (setPassword cfg u v).url := by
  unfold setPassword keep
  split
  · exact h
  · exact RTx_keep_fields h rfl rfl rfl rfl rfl rfl rfl

/-- port := nil -/
theorem RTx_clearPort (u : Url) (h : RTx u) : RTx { u with port := none, decodedPort := 0 } := by
  obtain ⟨⟨x1, x2, x3, x4⟩, x5, x6, x7⟩ := h
  unfold RTx Xu Xe Xt NoSl
  dsimp only
  exact ⟨⟨fun _ => rfl, x2, x3, x4⟩, x5, x6, x7⟩

theorem trimRight_last (x : UInt8) (s : Bytes) : (trimRightByte x s).getLast? ≠ some x := by
  unfold trimRightByte
  rw [List.getLast?_reverse]
  intro h
  have := List.head?_dropWhile_not (fun y => y == x) s.reverse
  rw [h] at this
  simp at this

theorem trimRight_fix (x : UInt8) (s : Bytes) (h : s.getLast? ≠ some x) : trimRightByte x s = s := by
  unfold trimRightByte
  cases hr : s.reverse with
  | nil => simp at hr; subst hr; rfl
  | cons y r =>
    have hl : s.getLast? = some y := by rw [← List.head?_reverse, hr]; rfl
    have hy : (y == x) = false := by
      rw [hl] at h
      simpa using fun e => h (by rw [e])
    simp only [List.dropWhile_cons, hy, Bool.false_eq_true, if_false]
    rw [← hr, List.reverse_reverse]

theorem noQH_trimRight (x : UInt8) (s : Bytes) (h : noQH s = true) : noQH (trimRightByte x s) = true := by
  unfold noQH trimRightByte at *
  rw [List.all_eq_true] at h ⊢
  intro b hb
  apply h
  rw [List.mem_reverse] at hb
  have := (List.dropWhile_sublist (fun y => y == x) (l := s.reverse)).subset hb
  simpa using this

/-- `stripTrailingSpacesIfOpaque`: whatever query and fragment become -/
theorem RTx_strip (u : Url) (p : Path) (hw : u.path.opq = true → u.path.segs.length = 1) (h : RTx u)
    (hp : stripTrailingSpacesIfOpaque u.path = some p) (q f : Option Bytes) :
    RTx { u with query := q, fragment := f, path := p } := by
  obtain ⟨⟨x1, x2, x3, x4⟩, x5, x6, x7⟩ := h
  unfold stripTrailingSpacesIfOpaque at hp
  split at hp
  · rename_i ho
    split at hp
    · rename_i s0 rest hs
      cases hp
      have hrest : rest = [] := by
        have := hw ho
        rw [hs] at this
        simpa using this
      subst hrest
      unfold RTx Xu Xe Xt NoSl
      dsimp only
      refine ⟨⟨x1, x2, ?_, ?_⟩, ?_, ?_, ?_⟩
      · intro hf; rw [ho] at hf; cases hf
      · intro _
        have := x4 ho
        rw [hs] at this
        simp only [List.all_cons, List.all_nil, Bool.and_true] at this ⊢
        exact noQH_trimRight _ _ this
      · intro hf; rw [ho] at hf; cases hf
      · intro _ _ _ q' hq'
        simp only [List.mem_singleton] at hq'
        subst hq'
        exact trimRight_last _ _
      · intro _ s hs'
        simp only [List.head?_cons, Option.some.injEq] at hs'
        subst hs'
        intro hc
        exact x7 ho s0 (by rw [hs]; rfl) (WhatwgUrl.Proofs.OpaqueSlash.trimRightByte_head _ _ _ hc)
    · cases hp
  · rename_i ho
    cases hp
    have ho' : u.path.opq = false := by simpa using ho
    unfold RTx Xu Xe Xt NoSl
    dsimp only
    refine ⟨⟨x1, x2, x3, ?_⟩, x5, ?_, ?_⟩
    · intro h; rw [ho'] at h; cases h
    · intro h; rw [ho'] at h; cases h
    · intro h; rw [ho'] at h; cases h

/-- fragment := nil while a query is present -/
theorem RTx_clearFragment (u : Url) (h : RTx u) (hq : u.query ≠ none) : RTx { u with fragment := none } := by
  obtain ⟨⟨x1, x2, x3, x4⟩, x5, x6, x7⟩ := h
  unfold RTx Xu Xe Xt NoSl
  dsimp only
  exact ⟨⟨x1, x2, x3, x4⟩, x5, fun _ hq' => absurd hq' hq, x7⟩

theorem RTx_clearQuery (u : Url) (h : RTx u) (hq : u.fragment ≠ none) : RTx { u with query := none } := by
  obtain ⟨⟨x1, x2, x3, x4⟩, x5, x6, x7⟩ := h
  unfold RTx Xu Xe Xt NoSl
  dsimp only
  exact ⟨⟨x1, x2, x3, x4⟩, x5, fun _ _ hf' => absurd hf' hq, x7⟩

theorem strip_some (p : Path) (hw : p.opq = true → p.segs.length = 1) : ∃ q, stripTrailingSpacesIfOpaque p = some q := by
  unfold stripTrailingSpacesIfOpaque
  split
  · rename_i ho
    have := hw ho
    split
    · exact ⟨_, rfl⟩
    · rename_i hs; rw [hs] at this; cases this
  · exact ⟨_, rfl⟩

/-- `SetHash("")` -/
theorem setHash_empty_RTx (cfg : Cfg) (I : Idna) (u : Url) (hs : WFs cfg u) (h : RTx u) : RTx (setHash cfg I u []).url := by
  have hw : u.path.opq = true → u.path.segs.length = 1 := fun ho => (hs.2.2.1 ho).2
  unfold setHash keep
  simp only [List.isEmpty_nil, if_true]
  split
  · rename_i hq
    have hq' : u.query = none := by simpa using hq
    obtain ⟨p, hp⟩ := strip_some u.path hw
    rw [hp]
    exact RTx_keep_fields (RTx_strip u p hw h hp u.query none) rfl rfl rfl rfl rfl rfl rfl
  · rename_i hq
    exact RTx_clearFragment u h (by simpa using hq)

/-- `SetSearch("")` -/
theorem setSearch_empty_RTx (cfg : Cfg) (I : Idna) (u : Url) (hs : WFs cfg u) (h : RTx u) : RTx (setSearchU cfg I u []).url := by
  have hw : u.path.opq = true → u.path.segs.length = 1 := fun ho => (hs.2.2.1 ho).2
  unfold setSearchU keep
  simp only [List.isEmpty_nil, if_true]
  split
  · rename_i hq
    have hq' : u.fragment = none := by simpa using hq
    obtain ⟨p, hp⟩ := strip_some u.path hw
    rw [hp]
    exact RTx_keep_fields (RTx_strip u p hw h hp none u.fragment) rfl rfl rfl rfl rfl rfl rfl
  · rename_i hq
    exact RTx_clearQuery u h (by simpa using hq)

/-- `SetPort("")` -/
theorem setPort_empty_RTx (cfg : Cfg) (I : Idna) (u : Url) (h : RTx u) : RTx (setPort cfg I u []).url := by
  unfold setPort keep
  simp only [List.isEmpty_nil, if_true]
  split
  · exact h
  · exact RTx_clearPort u h

end WhatwgUrl.Proofs.RTcInv

namespace WhatwgUrl.Proofs.RTcInv
set_option linter.unusedSimpArgs false
set_option linter.unusedVariables false
open WhatwgUrl WhatwgUrl.Impl WhatwgUrl.Proofs.HostWF
open WhatwgUrl.Props.C04b (WFs)

/-! ### the canonicalizer's post-processing for remove-port / remove-user-info / remove-fragment, value level -/

def rmPort (cfg : Cfg) (I : Idna) (u : Url) : Url := (setU cfg I .port u []).url
def rmUser (cfg : Cfg) (I : Idna) (u : Url) : Url := (setU cfg I .password (setU cfg I .username u []).url []).url
def rmFrag (cfg : Cfg) (I : Idna) (u : Url) : Url := (setU cfg I .hash u []).url

/-- what `canonicalize` does to the url for a profile without repeated decoding and query sorting, in three stages -/
def post5 (I : Idna) (p : Profile) (u : Url) : Url := if p.removePort then rmPort p.cfg I u else u
def post6 (I : Idna) (p : Profile) (u : Url) : Url := if p.removeUserInfo then rmUser p.cfg I (post5 I p u) else post5 I p u
def postU (I : Idna) (p : Profile) (u : Url) : Url := if p.removeFragment then rmFrag p.cfg I (post6 I p u) else post6 I p u

/-- … and what it returns (only `SetHash("")` can panic: an opaque path without element) -/
def postRet (I : Idna) (p : Profile) (u : Url) : Ret :=
  if p.removeFragment then (setU p.cfg I .hash (post6 I p u) []).ret else .url

theorem rmPort_eq (cfg : Cfg) (I : Idna) (u : Url) :
    rmPort cfg I u = if cannotHaveUPP u then u else { u with port := none, decodedPort := 0 } := by
  unfold rmPort setU setPort keep
  simp only [List.isEmpty_nil, if_true]
  split <;> rfl

theorem rmUser_eq (cfg : Cfg) (I : Idna) (u : Url) :
    rmUser cfg I u = if cannotHaveUPP u then u else { u with username := [], password := [] } := by
  unfold rmUser setU setUsername setPassword keep
  cases hc : cannotHaveUPP u
  · simp only [Bool.false_eq_true, if_false]
    have : cannotHaveUPP { u with username := percentEncodeString cfg userinfoSet [] } = false := hc
    rw [this]
    simp only [Bool.false_eq_true, if_false]
    rfl
  · simp only [if_true, hc]

/-- the stripped path (the path itself when it is a list, or when the opaque path has no element) -/
def stripD (p : Path) : Path := (stripTrailingSpacesIfOpaque p).getD p

theorem rmFrag_eq (cfg : Cfg) (I : Idna) (u : Url) :
    rmFrag cfg I u = { u with fragment := none, path := if u.query == none then stripD u.path else u.path } := by
  unfold rmFrag setU setHash keep stripD
  simp only [List.isEmpty_nil, if_true]
  split
  · split
    · rename_i p hp; rw [hp]; rfl
    · rename_i hp; rw [hp]; rfl
  · rfl

theorem rmFrag_ret (cfg : Cfg) (I : Idna) (u : Url) (hw : u.path.opq = true → u.path.segs.length = 1) :
    (setU cfg I .hash u []).ret = .url := by
  unfold setU setHash keep
  simp only [List.isEmpty_nil, if_true]
  split
  · obtain ⟨p, hp⟩ := strip_some u.path hw
    rw [hp]
  · rfl

/-! ### the three invariants, the host and "nothing left to remove" -/

/-- the three invariants of a parse result -/
def Inv3 (u : Url) : Prop := WFs {} u ∧ WhatwgUrl.Props.C04c.WFc u ∧ RTx u

theorem Inv3_set (I : Idna) (hIa : WhatwgUrl.Props.C04c.IdnaAscii I) (hIne : IdnaNonEmpty I) (s : Setter) (u : Url) (v : Bytes)
    (h : Inv3 u) (hx : RTx u → RTx (setU {} I s u v).url) : Inv3 (setU {} I s u v).url :=
  ⟨WhatwgUrl.Props.C04b.C04_setter_WFs_default I hIne s u v h.1, WhatwgUrl.Props.C04c.C04_setter_WFc I hIa hIne s u v h.1 h.2.1,
    hx h.2.2⟩

theorem Inv3_rmPort (I : Idna) (hIa : WhatwgUrl.Props.C04c.IdnaAscii I) (hIne : IdnaNonEmpty I) (u : Url) (h : Inv3 u) :
    Inv3 (rmPort {} I u) :=
  Inv3_set I hIa hIne .port u [] h (setPort_empty_RTx {} I u)

theorem Inv3_rmUser (I : Idna) (hIa : WhatwgUrl.Props.C04c.IdnaAscii I) (hIne : IdnaNonEmpty I) (u : Url) (h : Inv3 u) :
    Inv3 (rmUser {} I u) :=
  Inv3_set I hIa hIne .password _ [] (Inv3_set I hIa hIne .username u [] h (setUsername_RTx {} u [])) (setPassword_RTx {} _ [])

theorem Inv3_rmFrag (I : Idna) (hIa : WhatwgUrl.Props.C04c.IdnaAscii I) (hIne : IdnaNonEmpty I) (u : Url) (h : Inv3 u) :
    Inv3 (rmFrag {} I u) :=
  Inv3_set I hIa hIne .hash u [] h (setHash_empty_RTx {} I u h.1)

theorem Inv3_post5 (I : Idna) (hIa : WhatwgUrl.Props.C04c.IdnaAscii I) (hIne : IdnaNonEmpty I) (p : Profile) (hp : p.cfg = {})
    (u : Url) (h : Inv3 u) : Inv3 (post5 I p u) := by
  unfold post5; rw [hp]
  split
  · exact Inv3_rmPort I hIa hIne u h
  · exact h

theorem Inv3_post6 (I : Idna) (hIa : WhatwgUrl.Props.C04c.IdnaAscii I) (hIne : IdnaNonEmpty I) (p : Profile) (hp : p.cfg = {})
    (u : Url) (h : Inv3 u) : Inv3 (post6 I p u) := by
  unfold post6; rw [hp]
  split
  · exact Inv3_rmUser I hIa hIne _ (Inv3_post5 I hIa hIne p hp u h)
  · exact Inv3_post5 I hIa hIne p hp u h

theorem Inv3_postU (I : Idna) (hIa : WhatwgUrl.Props.C04c.IdnaAscii I) (hIne : IdnaNonEmpty I) (p : Profile) (hp : p.cfg = {})
    (u : Url) (h : Inv3 u) : Inv3 (postU I p u) := by
  unfold postU; rw [hp]
  split
  · exact Inv3_rmFrag I hIa hIne _ (Inv3_post6 I hIa hIne p hp u h)
  · exact Inv3_post6 I hIa hIne p hp u h

theorem postRet_url (I : Idna) (hIa : WhatwgUrl.Props.C04c.IdnaAscii I) (hIne : IdnaNonEmpty I) (p : Profile) (hp : p.cfg = {})
    (u : Url) (h : Inv3 u) : postRet I p u = .url := by
  unfold postRet
  split
  · exact rmFrag_ret _ I _ (fun ho => ((Inv3_post6 I hIa hIne p hp u h).1.2.2.1 ho).2)
  · rfl

/-! field projections of the three steps -/

theorem cannot_congr {u u' : Url} (h1 : u'.scheme = u.scheme) (h2 : u'.host = u.host) : cannotHaveUPP u' = cannotHaveUPP u := by
  unfold cannotHaveUPP; rw [h1, h2]

section fields
variable (cfg : Cfg) (I : Idna) (u : Url)
theorem rmPort_scheme : (rmPort cfg I u).scheme = u.scheme := by rw [rmPort_eq]; split <;> rfl
theorem rmPort_host : (rmPort cfg I u).host = u.host := by rw [rmPort_eq]; split <;> rfl
theorem rmUser_scheme : (rmUser cfg I u).scheme = u.scheme := by rw [rmUser_eq]; split <;> rfl
theorem rmUser_host : (rmUser cfg I u).host = u.host := by rw [rmUser_eq]; split <;> rfl
theorem rmUser_port : (rmUser cfg I u).port = u.port := by rw [rmUser_eq]; split <;> rfl
theorem rmUser_decodedPort : (rmUser cfg I u).decodedPort = u.decodedPort := by rw [rmUser_eq]; split <;> rfl
theorem rmFrag_scheme : (rmFrag cfg I u).scheme = u.scheme := by rw [rmFrag_eq]
theorem rmFrag_host : (rmFrag cfg I u).host = u.host := by rw [rmFrag_eq]
theorem rmFrag_port : (rmFrag cfg I u).port = u.port := by rw [rmFrag_eq]
theorem rmFrag_decodedPort : (rmFrag cfg I u).decodedPort = u.decodedPort := by rw [rmFrag_eq]
theorem rmFrag_username : (rmFrag cfg I u).username = u.username := by rw [rmFrag_eq]
theorem rmFrag_password : (rmFrag cfg I u).password = u.password := by rw [rmFrag_eq]
theorem rmFrag_fragment : (rmFrag cfg I u).fragment = none := by rw [rmFrag_eq]
end fields

/-- scheme and host are not touched -/
theorem post5_scheme_host (I : Idna) (p : Profile) (u : Url) :
    (post5 I p u).scheme = u.scheme ∧ (post5 I p u).host = u.host := by
  unfold post5
  split
  · exact ⟨rmPort_scheme _ _ _, rmPort_host _ _ _⟩
  · exact ⟨rfl, rfl⟩

theorem post6_scheme_host (I : Idna) (p : Profile) (u : Url) :
    (post6 I p u).scheme = u.scheme ∧ (post6 I p u).host = u.host := by
  have h5 := post5_scheme_host I p u
  unfold post6
  split
  · exact ⟨(rmUser_scheme _ _ _).trans h5.1, (rmUser_host _ _ _).trans h5.2⟩
  · exact h5

theorem postU_scheme_host (I : Idna) (p : Profile) (u : Url) :
    (postU I p u).scheme = u.scheme ∧ (postU I p u).host = u.host := by
  have h6 := post6_scheme_host I p u
  unfold postU
  split
  · exact ⟨(rmFrag_scheme _ _ _).trans h6.1, (rmFrag_host _ _ _).trans h6.2⟩
  · exact h6

/-- the profile has nothing left to remove -/
def Done (p : Profile) (u : Url) : Prop :=
  (p.removePort = true → u.port = none ∧ u.decodedPort = 0) ∧
  (p.removeUserInfo = true → u.username = [] ∧ u.password = []) ∧
  (p.removeFragment = true → u.fragment = none)

theorem upp_of_cannot (u : Url) (hs : WFs {} u) (hc : cannotHaveUPP u = true) : u.username = [] ∧ u.password = [] ∧ u.port = none := by
  have h4 := hs.2.2.2.1
  simp only [cannotHaveUPP, Bool.or_eq_true, beq_iff_eq] at hc
  have hn : ¬ (u.username ≠ [] ∨ u.password ≠ [] ∨ u.port ≠ none) := by
    intro h
    obtain ⟨a, b, c⟩ := h4 h
    rcases hc with (hc | hc) | hc
    · exact a hc
    · exact b hc
    · exact c hc
  simp only [not_or, ne_eq, Decidable.not_not] at hn
  exact hn

theorem rmPort_done (cfg : Cfg) (I : Idna) (u : Url) (hs : WFs {} u) (hx : RTx u) :
    (rmPort cfg I u).port = none ∧ (rmPort cfg I u).decodedPort = 0 := by
  rw [rmPort_eq]
  split
  · rename_i hc
    have := (upp_of_cannot u hs hc).2.2
    exact ⟨this, hx.1.1 this⟩
  · exact ⟨rfl, rfl⟩

theorem rmUser_done (cfg : Cfg) (I : Idna) (u : Url) (hs : WFs {} u) :
    (rmUser cfg I u).username = [] ∧ (rmUser cfg I u).password = [] := by
  rw [rmUser_eq]
  split
  · rename_i hc
    exact ⟨(upp_of_cannot u hs hc).1, (upp_of_cannot u hs hc).2.1⟩
  · exact ⟨rfl, rfl⟩

theorem post5_done (I : Idna) (p : Profile) (hp : p.cfg = {}) (u : Url) (h : Inv3 u) (hr : p.removePort = true) :
    (post5 I p u).port = none ∧ (post5 I p u).decodedPort = 0 := by
  unfold post5
  rw [if_pos hr]
  exact rmPort_done _ I u h.1 h.2.2

theorem post6_done (I : Idna) (hIa : WhatwgUrl.Props.C04c.IdnaAscii I) (hIne : IdnaNonEmpty I) (p : Profile) (hp : p.cfg = {})
    (u : Url) (h : Inv3 u) :
    (p.removePort = true → (post6 I p u).port = none ∧ (post6 I p u).decodedPort = 0) ∧
    (p.removeUserInfo = true → (post6 I p u).username = [] ∧ (post6 I p u).password = []) := by
  unfold post6
  split
  · refine ⟨fun hh => ?_, fun _ => rmUser_done _ I _ (Inv3_post5 I hIa hIne p hp u h).1⟩
    rw [rmUser_port, rmUser_decodedPort]; exact post5_done I p hp u h hh
  · rename_i hn
    exact ⟨post5_done I p hp u h, fun hh => absurd hh hn⟩

theorem postU_done (I : Idna) (hIa : WhatwgUrl.Props.C04c.IdnaAscii I) (hIne : IdnaNonEmpty I) (p : Profile) (hp : p.cfg = {})
    (u : Url) (h : Inv3 u) : Done p (postU I p u) := by
  have h6 := post6_done I hIa hIne p hp u h
  unfold Done postU
  split
  · refine ⟨fun hh => ?_, fun hh => ?_, fun _ => rmFrag_fragment _ _ _⟩
    · rw [rmFrag_port, rmFrag_decodedPort]; exact h6.1 hh
    · rw [rmFrag_username, rmFrag_password]; exact h6.2 hh
  · rename_i hn; exact ⟨h6.1, h6.2, fun hh => absurd hh hn⟩

theorem Done_same {p : Profile} {u u' : Url} (hs : Same u u') (h : Done p u) : Done p u' := by
  obtain ⟨h1, h2, h3, h4, h5, h6, h7, h8, h9⟩ := hs
  unfold Done at h ⊢
  rw [h2, h3, h5, h6, h9]; exact h

/-- on a record on which nothing is left to remove the post-processing is the identity -/
theorem postU_fix (I : Idna) (p : Profile) (u : Url) (hd : Done p u) (hw : u.path.opq = true → u.path.segs.length = 1)
    (ht : Xt u) : postU I p u = u := by
  obtain ⟨d1, d2, d3⟩ := hd
  have e5 : (if p.removePort = true then rmPort p.cfg I u else u) = u := by
    split
    · rename_i h
      obtain ⟨a, b⟩ := d1 h
      rw [rmPort_eq]
      split
      · rfl
      · cases u; simp_all
    · rfl
  have e6 : (if p.removeUserInfo = true then rmUser p.cfg I u else u) = u := by
    split
    · rename_i h
      obtain ⟨a, b⟩ := d2 h
      rw [rmUser_eq]
      split
      · rfl
      · cases u; simp_all
    · rfl
  unfold postU post6 post5
  rw [e5, e6]
  split
  · rename_i h
    have hf := d3 h
    rw [rmFrag_eq]
    have hpath : (if (u.query == none) = true then stripD u.path else u.path) = u.path := by
      split
      · rename_i hq
        have hq' : u.query = none := by simpa using hq
        unfold stripD stripTrailingSpacesIfOpaque
        split
        · rename_i ho
          have hl := hw ho
          have hx := ht ho hq' hf
          match hseg : u.path.segs, hl with
          | [s0], _ =>
            rw [hseg] at hx
            have := trimRight_fix 0x20 s0 (hx s0 (by simp))
            simp only [this, Option.getD_some]
            cases hpp : u.path with
            | mk segs opq =>
              rw [hpp] at hseg ho
              simp only at hseg ho
              subst hseg
              rfl
        · rfl
      · rfl
    rw [hpath]
    cases u; simp_all
  · rfl

end WhatwgUrl.Proofs.RTcInv

namespace WhatwgUrl.Proofs.RTcInv
set_option linter.unusedSimpArgs false
set_option linter.unusedVariables false
open WhatwgUrl WhatwgUrl.Impl

/-! ### heap level: `canonicalize` on an object is `postU` on its url -/

theorem setUrl_at (H : Heap) (i : Nat) (f : UrlObj → UrlObj) (o : UrlObj) (hu : H.urls[i]? = some o) :
    (H.setUrl i f).urls[i]? = some (f o) := by
  unfold Heap.setUrl
  rw [hu]
  have hlt : i < H.urls.length := (List.getElem?_eq_some_iff.mp hu).1
  simp [hlt]

/-- a setter other than `search` on object `i` -/
theorem set_at (I : Idna) (H : Heap) (i : Nat) (s : Setter) (v : Bytes) (o : UrlObj) (hs : s ≠ .search)
    (hu : H.urls[i]? = some o) :
    (H.set I i s v).2 = (setU o.cfg I s o.u v).ret ∧
    (H.set I i s v).1.urls[i]? = some { o with u := (setU o.cfg I s o.u v).url } := by
  unfold Heap.set
  cases s <;> first
    | exact absurd rfl hs
    | (refine ⟨?_, ?_⟩
       · simp only [hu]
       · simp only [hu]
         exact setUrl_at H i _ o hu)

theorem setPort_empty_ret (cfg : Cfg) (I : Idna) (u : Url) : (setU cfg I .port u []).ret = .url := by
  show (setPort cfg I u []).ret = .url
  unfold setPort keep
  simp only [List.isEmpty_nil, if_true]
  split <;> rfl
theorem setUsername_ret (cfg : Cfg) (I : Idna) (u : Url) (v : Bytes) : (setU cfg I .username u v).ret = .url := by
  show (setUsername cfg u v).ret = .url
  unfold setUsername keep
  split <;> rfl
theorem setPassword_ret (cfg : Cfg) (I : Idna) (u : Url) (v : Bytes) : (setU cfg I .password u v).ret = .url := by
  show (setPassword cfg u v).ret = .url
  unfold setPassword keep
  split <;> rfl

theorem thenH_url (x : Heap × Ret) (k : Heap → Heap × Ret) (h : x.2 = .url) : thenH x k = k x.1 := by
  unfold thenH; rw [h]

/-- **`canonicalize` for a profile without repeated decoding and query sorting**: the object's url becomes `postU`, the
    rest of the object is untouched, the return value is `postRet` (a panic is handed on) -/
theorem canonicalize_post (I : Idna) (p : Profile) (H : Heap) (i : Nat) (o : UrlObj)
    (hrpd : p.repeatedPercentDecoding = false) (hsq : p.sortQuery = .noSort) (hu : H.urls[i]? = some o) (hc : o.cfg = p.cfg)
    (hr : postRet I p o.u = .url) :
    (canonicalize I p H i).2 = .url ∧ (canonicalize I p H i).1.urls[i]? = some { o with u := postU I p o.u } := by
  unfold canonicalize
  simp only [hrpd, hsq, Bool.false_and, Bool.false_eq_true, if_false]
  rw [thenH_url _ _ rfl, thenH_url _ _ rfl, thenH_url _ _ rfl, thenH_url _ _ rfl]
  -- stage 5
  have s5 : ∃ H5, (if p.removePort = true then H.set I i .port [] else (H, .url)) = (H5, .url) ∧
      H5.urls[i]? = some { o with u := post5 I p o.u } := by
    unfold post5
    split
    · have := set_at I H i .port [] o (by decide) hu
      refine ⟨(H.set I i .port []).1, ?_, by rw [← hc]; exact this.2⟩
      rw [← setPort_empty_ret o.cfg I o.u, ← this.1]
    · exact ⟨H, rfl, hu⟩
  obtain ⟨H5, e5, hu5⟩ := s5
  rw [e5, thenH_url _ _ rfl]
  dsimp only
  -- stage 6
  have s6 : ∃ H6, (if p.removeUserInfo = true then thenH (H5.set I i .username []) fun H => H.set I i .password [] else (H5, .url)) =
      (H6, .url) ∧ H6.urls[i]? = some { o with u := post6 I p o.u } := by
    unfold post6
    split
    · have h1 := set_at I H5 i .username [] _ (by decide) hu5
      dsimp only at h1
      rw [thenH_url _ _ (by rw [h1.1]; exact setUsername_ret _ I _ [])]
      have h2 := set_at I (H5.set I i .username []).1 i .password [] _ (by decide) h1.2
      dsimp only at h2
      refine ⟨((H5.set I i .username []).1.set I i .password []).1, ?_, ?_⟩
      · rw [← setPassword_ret o.cfg I (setU o.cfg I .username (post5 I p o.u) []).url [], ← h2.1]
      · rw [h2.2]; unfold rmUser; rw [← hc]
    · exact ⟨H5, rfl, hu5⟩
  obtain ⟨H6, e6, hu6⟩ := s6
  rw [e6, thenH_url _ _ rfl]
  dsimp only
  -- stage 7
  unfold postRet at hr
  unfold postU
  split
  · rename_i h7
    rw [if_pos h7] at hr
    have h1 := set_at I H6 i .hash [] _ (by decide) hu6
    dsimp only at h1
    rw [hc] at h1
    rw [thenH_url _ _ (by rw [h1.1]; exact hr)]
    exact ⟨rfl, by rw [h1.2, hc]; rfl⟩
  · rw [thenH_url _ _ rfl]
    exact ⟨rfl, hu6⟩

end WhatwgUrl.Proofs.RTcInv
