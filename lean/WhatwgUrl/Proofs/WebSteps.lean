import WhatwgUrl.Proofs.WebDefs
/-
  C18e helper file 2: single steps of the state machine under an ARBITRARY configuration (no base, no state override),
  on the characters of an ordinary web url.  The `stepc_*` lemmas are the configuration-generic twins of the `step_*`
  lemmas of `Proofs/RoundTrip*.lean` (which are about the default configuration `mkE`); what they need from the
  configuration is stated as explicit hypotheses (the scheme is special, the byte is outside the set, …).
-/
namespace WhatwgUrl.Proofs.Web
set_option linter.unusedSimpArgs false
set_option linter.unusedVariables false
open WhatwgUrl WhatwgUrl.Impl WhatwgUrl.Proofs.IPv4 WhatwgUrl.Proofs.RoundTrip WhatwgUrl.Proofs.Spelling
open WhatwgUrl.Proofs.Pipeline

/-- configuration `cfg`, no base, no override -/
def mkEC (cfg : Cfg) (I : Idna) (src : Bytes) (rs : Str) : Env := ⟨cfg, I, src, rs, none, none⟩

@[simp] theorem mkEC_cfg (cfg : Cfg) (I : Idna) (src : Bytes) (rs : Str) : (mkEC cfg I src rs).cfg = cfg := rfl
@[simp] theorem mkEC_I (cfg : Cfg) (I : Idna) (src : Bytes) (rs : Str) : (mkEC cfg I src rs).I = I := rfl
@[simp] theorem mkEC_src (cfg : Cfg) (I : Idna) (src : Bytes) (rs : Str) : (mkEC cfg I src rs).src = src := rfl
@[simp] theorem mkEC_runes (cfg : Cfg) (I : Idna) (src : Bytes) (rs : Str) : (mkEC cfg I src rs).runes = rs := rfl
@[simp] theorem mkEC_base (cfg : Cfg) (I : Idna) (src : Bytes) (rs : Str) : (mkEC cfg I src rs).base = none := rfl
@[simp] theorem mkEC_ov (cfg : Cfg) (I : Idna) (src : Bytes) (rs : Str) : (mkEC cfg I src rs).ov = none := rfl

theorem cur_at (rs : Str) (k : Nat) (c : Char) (tl : Str) (hd : rs.drop k = c :: tl) : cur rs (k : Int) = some c := by
  unfold cur
  simp only [Int.natCast_nonneg, if_true, Int.toNat_natCast]
  have := List.getElem?_drop (xs := rs) (i := k) (j := 0)
  rw [hd] at this
  simpa using this.symm

/-! ### scheme → authority -/

theorem stepc_scheme_colon (cfg : Cfg) (I : Idna) (src : Bytes) (rs : Str) (ps : PS) (k : Nat) (tl : Str)
    (hst : ps.state = .scheme) (he : ps.eof = false) (hk : ps.pointer + 1 = (k : Int))
    (hd : rs.drop k = ':' :: tl) (hsp : cfg.isSpecial ps.buffer = true) (hnf : (ps.buffer == lit "file") = false) :
    step (mkEC cfg I src rs) ps = .cont { ps with pointer := (k : Int), state := .specialAuthoritySlashes, buffer := [], url := { ps.url with scheme := ps.buffer } } := by
  unfold step
  simp only [mkEC_runes, next_some rs ps k _ _ hk hd]
  have h1 : isAlnumN 58 = false := by decide
  simp [body, hst, stScheme, h1, he, bottom, hnf, isSp, hsp]

theorem stepc_sAS (cfg : Cfg) (I : Idna) (src : Bytes) (rs : Str) (ps : PS) (k : Nat) (tl : Str)
    (hst : ps.state = .specialAuthoritySlashes) (he : ps.eof = false) (hk : ps.pointer + 1 = (k : Int))
    (hd : rs.drop k = '/' :: '/' :: tl) :
    step (mkEC cfg I src rs) ps = .cont { ps with pointer := (k : Int) + 1, state := .specialAuthorityIgnoreSlashes } := by
  unfold step
  simp only [mkEC_runes, next_some rs ps k _ _ hk hd]
  have hd' : rs.drop (k + 1) = '/' :: tl := drop_succ_of_cons hd
  simp [body, hst, stSpecialAuthoritySlashes, he, bottom, remainingStartsWith, runesFrom, hd', next, cur_succ rs k _ _ hd']

theorem stepc_sAIS (cfg : Cfg) (I : Idna) (src : Bytes) (rs : Str) (ps : PS) (k : Nat) (c : Char) (tl : Str)
    (hst : ps.state = .specialAuthorityIgnoreSlashes) (he : ps.eof = false) (hk : ps.pointer + 1 = (k : Int))
    (hd : rs.drop k = c :: tl) (h1 : c ≠ '/') (h2 : c ≠ '\\') :
    step (mkEC cfg I src rs) ps = .cont { ps with state := .authority } := by
  unfold step
  simp only [mkEC_runes, next_some rs ps k _ _ hk hd]
  simp [body, hst, stSpecialAuthorityIgnoreSlashes, h1, h2, rewindLast, bottom]
  exact ⟨by omega, he⟩

/-! ### authority, host -/

theorem spBackslash_c (e : Env) (u : Url) (r : Char) (h : r ≠ '\\') : spBackslash e u r = false := by
  simp [spBackslash, h]

theorem stepc_auth_char (cfg : Cfg) (I : Idna) (src : Bytes) (rs : Str) (ps : PS) (k : Nat) (b : UInt8) (tl : Str)
    (hst : ps.state = .authority ∧ ps.eof = false) (hk : ps.pointer + 1 = (k : Int))
    (hd : rs.drop k = bc b :: tl) (hb : authB true b = true) :
    step (mkEC cfg I src rs) ps = .cont { ps with pointer := (k : Int), buffer := ps.buffer ++ [b] } := by
  obtain ⟨h0, h1, h2, h3, h4, h5⟩ := authB_spec b true hb
  unfold step
  simp only [mkEC_runes, next_some rs ps k _ tl hk hd]
  have h6 := spBackslash_c (mkEC cfg I src rs) ps.url (bc b) (h5 rfl)
  simp [body, hst.1, stAuthority, hst.2, h0, h1, h2, h3, h4, h6, writeRune, bottom]

theorem stepc_auth_end (cfg : Cfg) (I : Idna) (src : Bytes) (rs : Str) (ps : PS) (k : Nat)
    (hst : ps.state = .authority) (he : ps.eof = false) (hk : ps.pointer + 1 = (k : Int))
    (hd : Delim (rs.drop k)) (haf : ps.atFlag = false) (hlen : (goRunes ps.buffer).length = ps.buffer.length) :
    step (mkEC cfg I src rs) ps = .cont { ps with pointer := (k : Int) - ((ps.buffer.length + 1 : Nat) : Int), buffer := [], state := .host } := by
  unfold step
  rcases hd with hd | ⟨c, tl, hd, hc3⟩
  · simp only [mkEC_runes, next_none rs ps k hk hd]
    have h1 : (repl == '@') = false := by decide
    simp [body, hst, stAuthority, h1, haf, rewind, hlen, bottom, he]
  · simp only [mkEC_runes, next_some rs ps k _ tl hk hd]
    have h1 : (c == '@') = false := by rcases hc3 with h | h | h <;> subst h <;> decide
    have h2 : (c = '/' ∨ c = '?') ∨ c = '#' := by rcases hc3 with h | h | h <;> simp [h]
    simp [body, hst, stAuthority, h1, h2, haf, rewind, hlen, bottom, he]

theorem bc_ne_repl : ∀ x : UInt8, (bc x == repl) = false := forall_uint8 (by decide +kernel)

theorem body_path (e : Env) (ps : PS) (r : Char) (h : ps.state = .path) : body e ps r = stPath e ps r := by
  unfold body; rw [h]
theorem body_query (e : Env) (ps : PS) (r : Char) (h : ps.state = .query) : body e ps r = stQuery e ps r := by
  unfold body; rw [h]
theorem body_fragment (e : Env) (ps : PS) (r : Char) (h : ps.state = .fragment) : body e ps r = stFragment e ps r := by
  unfold body; rw [h]

theorem currentIsInvalid_bc (e : Env) (ps : PS) (b : UInt8) (h : cur e.runes ps.pointer = some (bc b)) :
    currentIsInvalid e ps = false := by
  unfold currentIsInvalid
  rw [h]
  have h2 : (some (bc b) == some repl) = false := by
    have := bc_ne_repl b
    simpa using this
  rw [h2]; rfl

theorem stepc_host_char (cfg : Cfg) (I : Idna) (src : Bytes) (rs : Str) (ps : PS) (k : Nat) (b : UInt8) (tl : Str)
    (hst : ps.state = .host) (he : ps.eof = false) (hk : ps.pointer + 1 = (k : Int))
    (hd : rs.drop k = bc b :: tl) (hb : hostB true b = true) (hcol : (b == 0x3a && !ps.bracketFlag) = false) :
    step (mkEC cfg I src rs) ps = .cont { ps with pointer := (k : Int), buffer := ps.buffer ++ [b], bracketFlag := nextFlag b ps.bracketFlag } := by
  obtain ⟨h0, h1, h2, h3, h4, h5, h6, h7, _⟩ := hostB_spec b true hb
  unfold step
  simp only [mkEC_runes, next_some rs ps k _ tl hk hd]
  have h8 := spBackslash_c (mkEC cfg I src rs) ps.url (bc b) (h4 rfl)
  have h1' : (bc b == '/') = false := by simp [h1]
  have h2' : (bc b == '?') = false := by simp [h2]
  have h3' : (bc b == '#') = false := by simp [h3]
  have hci : ∀ ps' : PS, ps'.pointer = (k : Int) → currentIsInvalid (mkEC cfg I src rs) ps' = false :=
    fun ps' hp => currentIsInvalid_bc _ _ b (by rw [hp]; exact cur_at rs k _ _ hd)
  simp only [body, hst, stHost, mkEC_ov, Option.isSome_none, Bool.false_and, Bool.false_eq_true, if_false, h5, hcol, he,
    h1', h2', h3', h8, Bool.or_self, Bool.false_or, h6, h7, mkEC_cfg, writeRune, h0, nextFlag]
  by_cases hb1 : b = 0x5b
  · simp [hb1, bottom, hci, he]
  · by_cases hb2 : b = 0x5d
    · simp [hb2, bottom, hci, he]
    · simp [hb1, hb2, bottom, he, hci]

/-- end of the host (no port): the host is parsed, on to the path start state, the delimiter is read again -/
theorem stepc_host_end (cfg : Cfg) (I : Idna) (src : Bytes) (rs : Str) (ps : PS) (k : Nat) (h' : Bytes)
    (hst : ps.state = .host) (he : ps.eof = false) (hsp : cfg.isSpecial ps.url.scheme = true)
    (hk : ps.pointer + 1 = (k : Int)) (hd : Delim (rs.drop k)) (hne : ps.buffer ≠ [])
    (hout : (parseHost cfg I ps.url ps.buffer false).out = .ok h') :
    step (mkEC cfg I src rs) ps = .cont { ps with buffer := [], state := .pathStart, url := { (parseHost cfg I ps.url ps.buffer false).url with host := some h' } } := by
  have hem : ps.buffer.isEmpty = false := by
    cases hb : ps.buffer with
    | nil => exact absurd hb hne
    | cons _ _ => rfl
  unfold step
  rcases hd with hd | ⟨c, tl, hd, hc3⟩
  · simp only [mkEC_runes, next_none rs ps k hk hd]
    have h1 : (repl == ':') = false := by decide
    simp [body, hst, stHost, h1, rewindLast, isSp, hsp, hem, afterHost, hout, bottom, he]
    omega
  · simp only [mkEC_runes, next_some rs ps k _ tl hk hd]
    have h1 : (c == ':') = false := by rcases hc3 with h | h | h <;> subst h <;> decide
    have h2 : (c = '/' ∨ c = '?') ∨ c = '#' := by rcases hc3 with h | h | h <;> simp [h]
    simp [body, hst, stHost, h1, h2, rewindLast, isSp, hsp, hem, afterHost, hout, bottom, he]
    omega

theorem stepc_host_end_fail (cfg : Cfg) (I : Idna) (src : Bytes) (rs : Str) (ps : PS) (k : Nat)
    (hst : ps.state = .host) (he : ps.eof = false) (hsp : cfg.isSpecial ps.url.scheme = true)
    (hk : ps.pointer + 1 = (k : Int)) (hd : Delim (rs.drop k)) (hne : ps.buffer ≠ [])
    (hno : ∀ h, (parseHost cfg I ps.url ps.buffer false).out ≠ .ok h) :
    step (mkEC cfg I src rs) ps = .done (hostFail (parseHost cfg I ps.url ps.buffer false)) := by
  have hem : ps.buffer.isEmpty = false := by
    cases hb : ps.buffer with
    | nil => exact absurd hb hne
    | cons _ _ => rfl
  unfold step
  rcases hd with hd | ⟨c, tl, hd, hc3⟩
  · simp only [mkEC_runes, next_none rs ps k hk hd]
    have h1 : (repl == ':') = false := by decide
    simp [body, hst, stHost, h1, rewindLast, isSp, hsp, hem, afterHost_fail _ hno, bottom, he]
  · simp only [mkEC_runes, next_some rs ps k _ tl hk hd]
    have h1 : (c == ':') = false := by rcases hc3 with h | h | h <;> subst h <;> decide
    have h2 : (c = '/' ∨ c = '?') ∨ c = '#' := by rcases hc3 with h | h | h <;> simp [h]
    simp [body, hst, stHost, h1, h2, rewindLast, isSp, hsp, hem, afterHost_fail _ hno, bottom, he]

/-! ### path start -/

theorem stepc_pathStart_slash (cfg : Cfg) (I : Idna) (src : Bytes) (rs : Str) (ps : PS) (k : Nat) (tl : Str)
    (hst : ps.state = .pathStart) (he : ps.eof = false) (hk : ps.pointer + 1 = (k : Int)) (hd : rs.drop k = '/' :: tl) :
    step (mkEC cfg I src rs) ps = .cont { ps with pointer := (k : Int), state := .path } := by
  unfold step
  simp only [mkEC_runes, next_some rs ps k _ tl hk hd]
  have h1 : ('/' == '?') = false := by decide
  have h2 : ('/' == '#') = false := by decide
  have h3 : ('/' == '\\') = false := by decide
  cases hsp : (isSp (mkEC cfg I src rs) ps.url && !cfg.skipTrailingSlash)
  · simp [body, hst, stPathStart, hsp, h1, h2, he, bottom]
  · simp [body, hst, stPathStart, hsp, h3, he, bottom]

/-! ### the code-point branch -/

/-- no validation error on a code point that is a URL code point or `%`, when the escape test does not fire -/
theorem unitChecks_ok (e : Env) (ps : PS) (r : Char) (K : PS → StepR) (h1 : isUrlCp r.toNat = true ∨ r = '%')
    (h2 : remainingInvalidPct e.runes ps = false) : unitChecks e ps r K = K ps := by
  unfold unitChecks
  have hc : (!isUrlCp r.toNat && r != '%') = false := by
    rcases h1 with h | h
    · simp [h]
    · simp [h]
  simp only [hc, Bool.false_eq_true, if_false, h2]

theorem rip_at (rs : Str) (ps : PS) (k : Nat) (hp : ps.pointer = (k : Int)) (h : invalidPct (rs.drop k) = false) :
    remainingInvalidPct rs ps = false := by
  unfold remainingInvalidPct runesFrom
  rw [hp, Int.toNat_natCast]; exact h

/-- a byte outside the set is copied, whatever the configuration -/
theorem pe_copy_c (cfg : Cfg) (tr : PSet) (b : UInt8) (hn : (bc b).toNat = b.toNat) (hu : utf8Char (bc b) = [b])
    (h : tr.has b.toNat = false) : percentEncodeRune cfg tr (bc b) = [b] := by
  simp [percentEncodeRune, hn, h, hu]

/-! ### path -/

theorem stPath_copy (e : Env) (ps : PS) (b : UInt8) (hov : e.ov = none) (he : ps.eof = false) (hb : qB b = true)
    (hinv : remainingInvalidPct e.runes ps = false) (hset : e.cfg.pathSet.has b.toNat = false) :
    stPath e ps (bc b) = .cont { ps with buffer := ps.buffer ++ [b] } := by
  obtain ⟨h1, h2, h3, h4, h5, h6, h7, _⟩ := qB_char b hb
  have h8 := spBackslash_c e ps.url (bc b) h4
  unfold stPath
  have hc : ((ps.eof || bc b == '/') || spBackslash e ps.url (bc b) || (e.ov.isNone && (bc b == '?' || bc b == '#'))) = false := by
    simp [he, h1, h2, h3, h8]
  rw [if_neg (by rw [hc]; simp)]
  rw [unitChecks_ok e ps (bc b) _ h5 hinv]
  simp only [hinv, Bool.false_eq_true, if_false, pe_copy_c e.cfg _ b h7 h6 hset]

theorem stepc_path_char (cfg : Cfg) (I : Idna) (src : Bytes) (rs : Str) (ps : PS) (k : Nat) (b : UInt8) (tl : Str)
    (hst : ps.state = .path ∧ ps.eof = false) (hk : ps.pointer + 1 = (k : Int))
    (hd : rs.drop k = bc b :: tl) (hb : qB b = true) (hinv : invalidPct (rs.drop k) = false)
    (hset : cfg.pathSet.has b.toNat = false) :
    step (mkEC cfg I src rs) ps = .cont { ps with pointer := (k : Int), buffer := ps.buffer ++ [b] } := by
  unfold step
  simp only [mkEC_runes, next_some rs ps k _ tl hk hd]
  have := stPath_copy (mkEC cfg I src rs) { ps with pointer := (k : Int) } b rfl hst.2 hb (rip_at rs _ k rfl hinv) hset
  rw [body_path _ _ _ (show ({ ps with pointer := (k : Int) } : PS).state = .path from hst.1), this]
  simp [bottom, hst.2]

/-- the condition under which the path state ADDS the buffer as a new segment -/
def AddsSeg (cfg : Cfg) (u : Url) : Prop :=
  (!cfg.collapse || !cfg.isSpecial u.scheme || u.path.isEmpty || decide ((u.path.segs.getLast?.getD []).length > 0)) = true

theorem stepc_path_slash (cfg : Cfg) (I : Idna) (src : Bytes) (rs : Str) (ps : PS) (k : Nat) (tl : Str)
    (hst : ps.state = .path) (he : ps.eof = false) (hk : ps.pointer + 1 = (k : Int)) (hd : rs.drop k = '/' :: tl)
    (h1 : isSingleDot ps.buffer = false) (h2 : isDoubleDot ps.buffer = false) (hnf : (ps.url.scheme == lit "file") = false)
    (hadd : AddsSeg cfg ps.url) :
    step (mkEC cfg I src rs) ps = .cont { ps with pointer := (k : Int), buffer := [], url := { ps.url with path := ps.url.path.addSegment ps.buffer } } := by
  unfold step
  simp only [mkEC_runes, next_some rs ps k _ tl hk hd]
  have hb : spBackslash (mkEC cfg I src rs) ps.url '/' = false := spBackslash_c _ _ _ (by decide)
  unfold AddsSeg at hadd
  simp only [body, hst, stPath, he, h1, h2, hb, hnf, isSp, mkEC_cfg, hadd]
  simp [bottom, he]

theorem stepc_path_qm (cfg : Cfg) (I : Idna) (src : Bytes) (rs : Str) (ps : PS) (k : Nat) (tl : Str)
    (hst : ps.state = .path) (he : ps.eof = false) (hk : ps.pointer + 1 = (k : Int)) (hd : rs.drop k = '?' :: tl)
    (h1 : isSingleDot ps.buffer = false) (h2 : isDoubleDot ps.buffer = false) (hnf : (ps.url.scheme == lit "file") = false)
    (hadd : AddsSeg cfg ps.url) :
    step (mkEC cfg I src rs) ps = .cont { ps with pointer := (k : Int), state := .query, buffer := [], url := { ps.url with path := ps.url.path.addSegment ps.buffer, query := some [] } } := by
  unfold step
  simp only [mkEC_runes, next_some rs ps k _ tl hk hd]
  have hb : spBackslash (mkEC cfg I src rs) ps.url '?' = false := spBackslash_c _ _ _ (by decide)
  have hx : ('?' == '/') = false := by decide
  unfold AddsSeg at hadd
  simp only [body, hst, stPath, he, h1, h2, hb, hx, hnf, isSp, mkEC_cfg, hadd]
  simp [bottom, he]

theorem stepc_path_hash (cfg : Cfg) (I : Idna) (src : Bytes) (rs : Str) (ps : PS) (k : Nat) (tl : Str)
    (hst : ps.state = .path) (he : ps.eof = false) (hk : ps.pointer + 1 = (k : Int)) (hd : rs.drop k = '#' :: tl)
    (h1 : isSingleDot ps.buffer = false) (h2 : isDoubleDot ps.buffer = false) (hnf : (ps.url.scheme == lit "file") = false)
    (hadd : AddsSeg cfg ps.url) :
    step (mkEC cfg I src rs) ps = .cont { ps with pointer := (k : Int), state := .fragment, buffer := [], url := { ps.url with path := ps.url.path.addSegment ps.buffer, fragment := some [] } } := by
  unfold step
  simp only [mkEC_runes, next_some rs ps k _ tl hk hd]
  have hb : spBackslash (mkEC cfg I src rs) ps.url '#' = false := spBackslash_c _ _ _ (by decide)
  have hx : ('#' == '/') = false := by decide
  have hy : ('#' == '?') = false := by decide
  unfold AddsSeg at hadd
  simp only [body, hst, stPath, he, h1, h2, hb, hx, hy, hnf, isSp, mkEC_cfg, hadd]
  simp [bottom, he]

theorem stepc_path_eof (cfg : Cfg) (I : Idna) (src : Bytes) (rs : Str) (ps : PS) (k : Nat)
    (hst : ps.state = .path) (hk : ps.pointer + 1 = (k : Int)) (hd : rs.drop k = [])
    (h1 : isSingleDot ps.buffer = false) (h2 : isDoubleDot ps.buffer = false) (hnf : (ps.url.scheme == lit "file") = false)
    (hadd : AddsSeg cfg ps.url) :
    step (mkEC cfg I src rs) ps = .done ⟨{ ps.url with path := ps.url.path.addSegment ps.buffer }, .url⟩ := by
  unfold step
  simp only [mkEC_runes, next_none rs ps k hk hd]
  have hb : spBackslash (mkEC cfg I src rs) ps.url repl = false := spBackslash_c _ _ _ (by decide)
  have hx : (repl == '/') = false := by decide
  have hy : (repl == '?') = false := by decide
  have hz : (repl == '#') = false := by decide
  unfold AddsSeg at hadd
  simp only [body, hst, stPath, h1, h2, hb, hx, hy, hz, hnf, isSp, mkEC_cfg, hadd]
  simp [bottom]

/-! ### query -/

theorem stQuery_copy (e : Env) (ps : PS) (b : UInt8) (hov : e.ov = none) (he : ps.eof = false) (hb : qB b = true)
    (hinv : remainingInvalidPct e.runes ps = false) (hsp : e.cfg.isSpecial ps.url.scheme = true)
    (hset : e.cfg.spQuerySet.has b.toNat = false) :
    stQuery e ps (bc b) = .cont { ps with buffer := ps.buffer ++ [b] } := by
  obtain ⟨h1, h2, h3, h4, h5, h6, h7, _⟩ := qB_char b hb
  unfold stQuery
  have hc : (e.ov.isNone && bc b == '#') = false := by simp [h3]
  rw [if_neg (by rw [hc]; simp)]
  rw [if_pos (by simp [he])]
  rw [unitChecks_ok e ps (bc b) _ h5 hinv]
  simp only [isSp, hsp, if_true, pe_copy_c e.cfg _ b h7 h6 hset]

theorem stepc_query_char (cfg : Cfg) (I : Idna) (src : Bytes) (rs : Str) (ps : PS) (k : Nat) (b : UInt8) (tl : Str)
    (hst : ps.state = .query ∧ ps.eof = false ∧ cfg.isSpecial ps.url.scheme = true) (hk : ps.pointer + 1 = (k : Int))
    (hd : rs.drop k = bc b :: tl) (hb : qB b = true) (hinv : invalidPct (rs.drop k) = false)
    (hset : cfg.spQuerySet.has b.toNat = false) :
    step (mkEC cfg I src rs) ps = .cont { ps with pointer := (k : Int), buffer := ps.buffer ++ [b] } := by
  unfold step
  simp only [mkEC_runes, next_some rs ps k _ tl hk hd]
  have := stQuery_copy (mkEC cfg I src rs) { ps with pointer := (k : Int) } b rfl hst.2.1 hb (rip_at rs _ k rfl hinv) hst.2.2 hset
  rw [body_query _ _ _ (show ({ ps with pointer := (k : Int) } : PS).state = .query from hst.1), this]
  simp [bottom, hst.2.1]

theorem stepc_query_eof (cfg : Cfg) (I : Idna) (src : Bytes) (rs : Str) (ps : PS) (k : Nat)
    (hst : ps.state = .query) (hk : ps.pointer + 1 = (k : Int)) (hd : rs.drop k = []) :
    step (mkEC cfg I src rs) ps = .done ⟨{ ps.url with query := some ps.buffer }, .url⟩ := by
  unfold step
  simp only [mkEC_runes, next_none rs ps k hk hd]
  have : (repl == '#') = false := by decide
  simp [body, hst, stQuery, bottom, this]

theorem stepc_query_hash (cfg : Cfg) (I : Idna) (src : Bytes) (rs : Str) (ps : PS) (k : Nat) (tl : Str) (q0 : Bytes)
    (hst : ps.state = .query) (he : ps.eof = false) (hq : ps.url.query = some q0) (hk : ps.pointer + 1 = (k : Int))
    (hd : rs.drop k = '#' :: tl) :
    step (mkEC cfg I src rs) ps = .cont { ps with pointer := (k : Int), state := .fragment, buffer := [], url := { ps.url with fragment := some [], query := some ps.buffer } } := by
  unfold step
  simp only [mkEC_runes, next_some rs ps k _ tl hk hd]
  simp [body, hst, stQuery, bottom, hq, he]

/-! ### fragment -/

theorem stFragment_copy (e : Env) (ps : PS) (b : UInt8) (he : ps.eof = false) (hb : qB b = true)
    (hinv : remainingInvalidPct e.runes ps = false) (hsp : e.cfg.isSpecial ps.url.scheme = true)
    (hset : e.cfg.spFragSet.has b.toNat = false) :
    stFragment e ps (bc b) = .cont { ps with buffer := ps.buffer ++ [b] } := by
  obtain ⟨h1, h2, h3, h4, h5, h6, h7, _⟩ := qB_char b hb
  unfold stFragment
  rw [if_pos (by simp [he])]
  rw [unitChecks_ok e ps (bc b) _ h5 hinv]
  simp only [isSp, hsp, if_true, pe_copy_c e.cfg _ b h7 h6 hset]

theorem stepc_fragment_char (cfg : Cfg) (I : Idna) (src : Bytes) (rs : Str) (ps : PS) (k : Nat) (b : UInt8) (tl : Str)
    (hst : ps.state = .fragment ∧ ps.eof = false ∧ cfg.isSpecial ps.url.scheme = true) (hk : ps.pointer + 1 = (k : Int))
    (hd : rs.drop k = bc b :: tl) (hb : qB b = true) (hinv : invalidPct (rs.drop k) = false)
    (hset : cfg.spFragSet.has b.toNat = false) :
    step (mkEC cfg I src rs) ps = .cont { ps with pointer := (k : Int), buffer := ps.buffer ++ [b] } := by
  unfold step
  simp only [mkEC_runes, next_some rs ps k _ tl hk hd]
  have := stFragment_copy (mkEC cfg I src rs) { ps with pointer := (k : Int) } b hst.2.1 hb (rip_at rs _ k rfl hinv) hst.2.2 hset
  rw [body_fragment _ _ _ (show ({ ps with pointer := (k : Int) } : PS).state = .fragment from hst.1), this]
  simp [bottom, hst.2.1]

theorem stepc_fragment_eof (cfg : Cfg) (I : Idna) (src : Bytes) (rs : Str) (ps : PS) (k : Nat)
    (hst : ps.state = .fragment) (hk : ps.pointer + 1 = (k : Int)) (hd : rs.drop k = []) :
    step (mkEC cfg I src rs) ps = .done ⟨{ ps.url with fragment := some ps.buffer }, .url⟩ := by
  unfold step
  simp only [mkEC_runes, next_none rs ps k hk hd]
  simp [body, hst, stFragment, bottom]

end WhatwgUrl.Proofs.Web
