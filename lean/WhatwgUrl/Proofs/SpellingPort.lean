import WhatwgUrl.Proofs.SpellingScheme
import WhatwgUrl.Proofs.RoundTripD
/-
  Spelling (C18c), part 4: a default port, an empty port, a default port with leading zeros are the same as no port
  (default configuration, no base).  Also the shared run `special scheme "://" host-text` used by part 5.
-/
namespace WhatwgUrl.Proofs.Spelling
set_option linter.unusedSimpArgs false
set_option linter.unusedVariables false
open WhatwgUrl WhatwgUrl.Impl WhatwgUrl.Proofs.IPv4 WhatwgUrl.Proofs.Trim WhatwgUrl.Proofs.RoundTrip

/-! ### texts -/

/-- the text of a host as the host state reads it: not empty, printable ASCII without `/ ? # @ \\` and blanks,
    `:` only inside brackets, brackets closed -/
def hostText (a : Bytes) : Bool := !a.isEmpty && a.all (hostB true) && (hostScan a false == some false)

/-- what may follow: nothing, or something starting with `/`, `?` or `#` -/
def DelimB (rest : Bytes) : Prop := rest = [] ∨ ∃ c r, rest = c :: r ∧ (c = 0x2f ∨ c = 0x3f ∨ c = 0x23)

instance (rest : Bytes) : Decidable (DelimB rest) :=
  match rest with
  | [] => isTrue (Or.inl rfl)
  | c :: r =>
    if h : c = 0x2f ∨ c = 0x3f ∨ c = 0x23 then isTrue (Or.inr ⟨c, r, rfl, h⟩)
    else isFalse (by
      intro hh
      rcases hh with hh | ⟨c', r', e1, h'⟩
      · cases hh
      · cases e1; exact h h')

theorem graphic_noWs {A : Bytes} (h : Graphic A) : NoWs A := by
  intro b hb
  have := h b hb
  simp [isWs]; omega

theorem graphic_ascii {A : Bytes} (h : Graphic A) : Ascii A := fun b hb => by have := h b hb; omega

/-- the text after the prologue still starts with the delimiter -/
theorem restText_delim (rest : Bytes) (h : DelimB rest) : Delim (goRunes (restText rest)) := by
  rcases h with h | ⟨c, r, rfl, hc⟩
  · subst h; left; rfl
  · right
    have hg : Graphic [c] := by
      intro b hb; simp at hb; subst hb
      rcases hc with h | h | h <;> subst h <;> decide
    have h1 : dropWsR ([c] ++ r) = [c] ++ dropWsR r :=
      dropWsR_clean [c] r (by simp) (fun a ha => graphic_noWs hg a (List.mem_of_getLast? ha))
    have h2 : restText (c :: r) = [c] ++ (removeTabNl (dropWsR r)).1 := by
      unfold restText
      show (removeTabNl (dropWsR ([c] ++ r))).1 = _
      rw [h1, removeTabNl_clean [c] _ (graphic_noWs hg)]
    rw [h2, goRunes_clean [c] _ (graphic_ascii hg)]
    refine ⟨bc c, _, rfl, ?_⟩
    rcases hc with h | h | h <;> subst h
    · left; rfl
    · right; left; rfl
    · right; right; rfl

/-- with the default configuration two inputs with the same prologue text … -/
theorem parse_default_congr (I : Idna) (x y : Bytes)
    (hloop : loop (mkE I (text x) (goRunes (text x))) (fuelFor (goRunes (text x))) (ps0 .schemeStart {}) =
      loop (mkE I (text y) (goRunes (text y))) (fuelFor (goRunes (text y))) (ps0 .schemeStart {})) :
    parse {} I x = parse {} I y := by
  unfold parse basicParser
  simp only [stops, record, Bool.or_self, Bool.and_false, Bool.false_eq_true, if_false, ite_self,
    Option.isNone_none, if_true, Option.getD_none]
  exact hloop

/-! ### special scheme, "//", up to the authority state -/

/-- a special scheme other than `file`, lower case -/
def SpecialScheme (s : Bytes) : Prop :=
  schemeText s = true ∧ asciiLower s = s ∧ Cfg.isSpecial {} s = true ∧ (s == lit "file") = false

theorem special_cases (s dp : Bytes) (h : Cfg.special? {} s = some dp) (hdp : dp ≠ []) :
    (s = lit "ftp" ∧ dp = lit "21") ∨ (s = lit "http" ∧ dp = lit "80") ∨ (s = lit "https" ∧ dp = lit "443") ∨
    (s = lit "ws" ∧ dp = lit "80") ∨ (s = lit "wss" ∧ dp = lit "443") := by
  unfold Cfg.special? at h
  simp only [List.find?] at h
  repeat' split at h
  all_goals simp at h
  all_goals (rename_i hh; try simp only [beq_iff_eq] at hh)
  all_goals (subst h; simp_all)

theorem specialScheme_of (s dp : Bytes) (h : Cfg.special? {} s = some dp) (hdp : dp ≠ []) :
    SpecialScheme s ∧ (∀ b ∈ dp, isDigitN b.toNat = true) ∧ itoa (digitsVal 10 dp) = dp ∧ digitsVal 10 dp ≤ 65535 := by
  rcases special_cases s dp h hdp with ⟨rfl, rfl⟩ | ⟨rfl, rfl⟩ | ⟨rfl, rfl⟩ | ⟨rfl, rfl⟩ | ⟨rfl, rfl⟩ <;>
    exact ⟨⟨by decide, by decide, by decide, by decide⟩, by decide, by decide +kernel, by decide +kernel⟩

theorem schemeB_graphic : ∀ b : UInt8, schemeB b = true → 0x21 ≤ b.toNat ∧ b.toNat < 0x7f := forall_uint8 (by decide +kernel)

theorem specialScheme_graphic {s : Bytes} (h : SpecialScheme s) : Graphic s :=
  fun b hb => schemeB_graphic b (schemeText_all s h.1 b hb)

theorem Reach.of_eq {e : Env} {ps ps' : PS} (h : ps = ps') : Reach e ps ps' := h ▸ Reach.refl e ps

/-- from the initial state to the authority state, the cursor on the second slash -/
theorem reach_authority (I : Idna) (src : Bytes) (rs : Str) (s : Bytes) (hs : SpecialScheme s) (u0 : Url) (c : Char) (tl : Str)
    (hd : rs = asStr s ++ ':' :: '/' :: '/' :: c :: tl) (h1 : c ≠ '/') (h2 : c ≠ '\\') :
    Reach (mkE I src rs) (ps0 .schemeStart u0)
      ⟨.authority, (s.length : Int) + 2, false, [], false, false, false, { u0 with scheme := s }⟩ := by
  have R := reach_scheme_g (mkE I src rs) s hs.1 _ u0 hd
  rw [hs.2.1] at R
  refine R.trans ?_
  have hk : rs.drop s.length = ':' :: '/' :: '/' :: c :: tl := by rw [hd]; exact List.drop_left' (by simp)
  have hk1 := drop_succ_of_cons hk
  have hk2 := drop_succ_of_cons hk1
  have hk3 := drop_succ_of_cons hk2
  refine Reach.cons (step_scheme_colon_sAS I src rs _ s.length _ rfl rfl (by simp) hk hs.2.2.1 hs.2.2.2) ?_
  refine Reach.cons (step_sAS I src rs _ (s.length + 1) _ rfl rfl (by simp) hk1) ?_
  refine Reach.cons (step_sAIS I src rs _ (s.length + 1 + 1 + 1) c tl rfl rfl (by simp) hk3 h1 h2) ?_
  apply Reach.of_eq
  simp only [PS.mk.injEq, true_and, and_true]
  omega

/-! ### authority and host states over a host text -/

theorem reach_host_bulk (I : Idna) (src : Bytes) (rs : Str) (sp : Bool) :
    ∀ (h : Bytes) (fl fl' : Bool), hostScan h fl = some fl' → (∀ b ∈ h, hostB sp b = true) →
    ∀ (ps : PS) (k : Nat) (tl : Str), ps.state = .host → ps.eof = false → Cfg.isSpecial {} ps.url.scheme = sp →
      ps.bracketFlag = fl → ps.pointer + 1 = (k : Int) → rs.drop k = asStr h ++ tl →
      Reach (mkE I src rs) ps { ps with pointer := ps.pointer + (h.length : Int), buffer := ps.buffer ++ h, bracketFlag := fl' } := by
  intro h
  induction h with
  | nil =>
    intro fl fl' hsc _ ps k tl _ _ _ hfl _ _
    simp only [hostScan, Option.some.injEq] at hsc
    subst hsc
    subst hfl
    simpa using Reach.refl _ ps
  | cons b w ih =>
    intro fl fl' hsc hw ps k tl hst he hsp hfl hk hd
    rw [hostScan_cons] at hsc
    by_cases hcol : (b == 0x3a && !fl) = true
    · rw [if_pos hcol] at hsc; cases hsc
    · rw [if_neg hcol] at hsc
      have hcol' : (b == 0x3a && !ps.bracketFlag) = false := by rw [hfl]; simpa using hcol
      have hs := step_host_char I src rs sp ps k b (asStr w ++ tl) hst he hsp hk hd (hw b (by simp)) hcol'
      have := ih (nextFlag b fl) fl' hsc (fun x hx => hw x (by simp [hx]))
        { ps with pointer := (k : Int), buffer := ps.buffer ++ [b], bracketFlag := nextFlag b ps.bracketFlag } (k + 1) tl hst he hsp
        (by simp [hfl]) (by simp) (drop_succ_of_cons hd)
      refine Reach.cons hs ?_
      have e1 : ((k : Int) + (w.length : Int)) = ps.pointer + ((w.length + 1 : Nat) : Int) := by omega
      simpa [e1, List.append_assoc] using this

theorem hostText_spec {a : Bytes} (h : hostText a = true) :
    a ≠ [] ∧ (∀ b ∈ a, hostB true b = true) ∧ hostScan a false = some false := by
  simp only [hostText, Bool.and_eq_true, Bool.not_eq_true', List.all_eq_true, beq_iff_eq] at h
  refine ⟨?_, h.1.2, h.2⟩
  intro he; rw [he] at h; simp at h

theorem hostText_graphic {a : Bytes} (h : hostText a = true) : Graphic a :=
  fun b hb => (hostB_spec b true ((hostText_spec h).2.1 b hb)).2.2.2.2.2.2.2.2.2

/-- the authority state reads `a ++ X` up to the delimiter and rewinds; then the host state reads `a` -/
theorem reach_host_read (I : Idna) (src : Bytes) (rs : Str) (a X : Bytes) (ha : hostText a = true)
    (hX : ∀ b ∈ X, authB true b = true) (p0 : Nat) (u : Url) (hsp : Cfg.isSpecial {} u.scheme = true) (tl : Str) (htl : Delim tl)
    (hd : rs.drop (p0 + 1) = asStr a ++ (asStr X ++ tl)) :
    Reach (mkE I src rs) ⟨.authority, (p0 : Int), false, [], false, false, false, u⟩
      ⟨.host, (p0 : Int) + (a.length : Int), false, a, false, false, false, u⟩ := by
  obtain ⟨hne, hB, hscan⟩ := hostText_spec ha
  have hall : ∀ b ∈ a ++ X, authB true b = true := by
    intro b hb
    rcases List.mem_append.mp hb with h | h
    · exact (hostB_spec b true (hB b h)).2.2.2.2.2.2.2.2.1
    · exact hX b h
  have hd' : rs.drop (p0 + 1) = asStr (a ++ X) ++ tl := by rw [hd, asStr_append, List.append_assoc]
  have R1 := reach_bulk (mkE I src rs) (fun b => authB true b = true) id
    (fun ps => ps.state = .authority ∧ ps.eof = false ∧ Cfg.isSpecial {} ps.url.scheme = true)
    (fun _ _ _ h => h) (fun ps k b tl hJ hk hd hb => step_auth_char I src rs true ps k b tl hJ hk hd hb) (a ++ X) hall
    ⟨.authority, (p0 : Int), false, [], false, false, false, u⟩ (p0 + 1) tl ⟨rfl, rfl, hsp⟩ (by simp) hd'
  refine R1.trans ?_
  have hdk : rs.drop (p0 + 1 + (a ++ X).length) = tl := by
    rw [← List.drop_drop, hd']; exact List.drop_left' (by simp)
  have hlen : (goRunes ([] ++ List.map id (a ++ X))).length = ([] ++ List.map id (a ++ X)).length := by
    apply goRunes_len_ascii
    intro b hb
    simp only [List.nil_append, List.map_id_fun, id_eq] at hb
    exact authB_ascii true b (hall b hb)
  refine Reach.cons (step_auth_end I src rs _ (p0 + 1 + (a ++ X).length) rfl rfl (by simp; omega) (by rw [hdk]; exact htl)
    (by intro h; cases h) hlen) ?_
  have R2 := reach_host_bulk I src rs true a false false hscan hB
    ⟨.host, (p0 : Int), false, [], false, false, false, u⟩ (p0 + 1) (asStr X ++ tl) rfl rfl hsp rfl (by simp) hd
  refine Reach.trans (Reach.of_eq ?_) (R2.trans (Reach.of_eq ?_))
  · simp only [PS.mk.injEq, true_and, and_true, List.nil_append, List.map_id_fun, id_eq, List.length_append]
    omega
  · simp

/-- special scheme, `://`, host text `a`, further authority text `X`, delimiter: up to the host state having read `a` -/
theorem reach_host_state (I : Idna) (src : Bytes) (s a X : Bytes) (T : Str) (hs : SpecialScheme s) (ha : hostText a = true)
    (hX : ∀ b ∈ X, authB true b = true) (hT : Delim T) (u0 : Url) (rs : Str)
    (hrs : rs = asStr s ++ ':' :: '/' :: '/' :: (asStr a ++ (asStr X ++ T))) :
    Reach (mkE I src rs) (ps0 .schemeStart u0)
      ⟨.host, (s.length : Int) + 2 + (a.length : Int), false, a, false, false, false, { u0 with scheme := s }⟩ ∧
    rs.drop (s.length + 3 + a.length) = asStr X ++ T := by
  obtain ⟨hne, hB, hscan⟩ := hostText_spec ha
  obtain ⟨c0, a', rfl⟩ : ∃ c0 a', a = c0 :: a' := by
    cases a with
    | nil => exact absurd rfl hne
    | cons c0 a' => exact ⟨c0, a', rfl⟩
  have hc := hostB_spec c0 true (hB c0 (by simp))
  have hd3 : rs.drop (s.length + 3) = asStr (c0 :: a') ++ (asStr X ++ T) := by
    rw [hrs, show s.length + 3 = (asStr s).length + 3 by simp, ← List.drop_drop, List.drop_left]
    rfl
  have R1 := reach_authority I src rs s hs u0 (bc c0) (asStr a' ++ (asStr X ++ T)) (by rw [hrs]; rfl) hc.2.1 (hc.2.2.2.2.1 rfl)
  have R2 := reach_host_read I src rs (c0 :: a') X ha hX (s.length + 2) { u0 with scheme := s } hs.2.2.1 T hT hd3
  refine ⟨R1.trans (Reach.trans (Reach.of_eq ?_) (R2.trans (Reach.of_eq ?_))), ?_⟩
  · simp
  · simp
  · rw [show s.length + 3 + (c0 :: a').length = (s.length + 3) + (asStr (c0 :: a')).length by simp, ← List.drop_drop, hd3,
      List.drop_left]

/-! ### the host parser fails: both spellings stop in the same way -/

/-- what the callers of `parseHost` return when it fails -/
def hostFail (hr : HR) : Res :=
  match hr.out with
  | .ok _ => ⟨hr.url, .url⟩
  | .err er => ⟨hr.url, .err er true⟩
  | .panic n => ⟨hr.url, .panic n⟩

theorem afterHost_fail (hr : HR) (hno : ∀ h, hr.out ≠ .ok h) (q : PS) (K : PS → Bytes → StepR) :
    afterHost hr q K = .done (hostFail hr) := by
  unfold afterHost hostFail
  split
  · rename_i h heq; exact absurd heq (hno h)
  · rename_i er heq; simp [heq]
  · rename_i n heq; simp [heq]

theorem step_host_colon_fail (I : Idna) (src : Bytes) (rs : Str) (ps : PS) (k : Nat) (tl : Str)
    (hst : ps.state = .host) (he : ps.eof = false) (hsp : Cfg.isSpecial {} ps.url.scheme = true) (hfl : ps.bracketFlag = false)
    (hk : ps.pointer + 1 = (k : Int)) (hd : rs.drop k = ':' :: tl) (hne : ps.buffer ≠ [])
    (hno : ∀ h, (parseHost {} I ps.url ps.buffer false).out ≠ .ok h) :
    step (mkE I src rs) ps = .done (hostFail (parseHost {} I ps.url ps.buffer false)) := by
  unfold step
  simp only [mkE_runes, next_some rs ps k _ tl hk hd]
  have hem : ps.buffer.isEmpty = false := by
    cases hb : ps.buffer with
    | nil => exact absurd hb hne
    | cons _ _ => rfl
  simp [body, hst, stHost, hfl, hem, isSp, hsp, afterHost_fail _ hno, bottom, he]

theorem step_host_end_fail (I : Idna) (src : Bytes) (rs : Str) (ps : PS) (k : Nat)
    (hst : ps.state = .host) (he : ps.eof = false) (hsp : Cfg.isSpecial {} ps.url.scheme = true)
    (hk : ps.pointer + 1 = (k : Int)) (hd : Delim (rs.drop k)) (hne : ps.buffer ≠ [])
    (hno : ∀ h, (parseHost {} I ps.url ps.buffer false).out ≠ .ok h) :
    step (mkE I src rs) ps = .done (hostFail (parseHost {} I ps.url ps.buffer false)) := by
  have hem : ps.buffer.isEmpty = false := by
    cases hb : ps.buffer with
    | nil => exact absurd hb hne
    | cons _ _ => rfl
  unfold step
  rcases hd with hd | ⟨c, tl, hd, hc3⟩
  · simp only [mkE_runes, next_none rs ps k hk hd]
    have h1 : (repl == ':') = false := by decide
    simp [body, hst, stHost, h1, rewindLast, isSp, hsp, hem, afterHost_fail _ hno, bottom, he]
  · simp only [mkE_runes, next_some rs ps k _ tl hk hd]
    have h1 : (c == ':') = false := by rcases hc3 with h | h | h <;> subst h <;> decide
    have h2 : (c = '/' ∨ c = '?') ∨ c = '#' := by rcases hc3 with h | h | h <;> simp [h]
    simp [body, hst, stHost, h1, h2, rewindLast, isSp, hsp, hem, afterHost_fail _ hno, bottom, he]

/-- an empty port: nothing is set -/
theorem step_port_end_empty (I : Idna) (src : Bytes) (rs : Str) (ps : PS) (k : Nat)
    (hst : ps.state = .port) (he : ps.eof = false) (hk : ps.pointer + 1 = (k : Int)) (hd : Delim (rs.drop k))
    (hb : ps.buffer = []) :
    step (mkE I src rs) ps = .cont { ps with state := .pathStart } := by
  unfold step
  rcases hd with hd | ⟨c, tl, hd, hc3⟩
  · simp only [mkE_runes, next_none rs ps k hk hd]
    have h1 : isDigitN repl.toNat = false := by decide
    simp [body, hst, stPort, h1, hb, rewindLast, bottom, he]
    omega
  · simp only [mkE_runes, next_some rs ps k _ tl hk hd]
    have h1 : isDigitN c.toNat = false := by rcases hc3 with h | h | h <;> subst h <;> decide
    have h2 : (c = '/' ∨ c = '?') ∨ c = '#' := by rcases hc3 with h | h | h <;> simp [h]
    simp [body, hst, stPort, h1, h2, hb, rewindLast, bottom, he]
    omega

/-! ### the port -/

/-- a port text that the port state turns into "no port" when the default port of the scheme is `dp`:
    digits only, and empty or (leading zeros allowed) the number `dp` -/
def PortNeutral (dp p : Bytes) : Prop := (∀ b ∈ p, isDigitN b.toNat = true) ∧ (p = [] ∨ itoa (digitsVal 10 p) = dp)

instance (dp p : Bytes) : Decidable (PortNeutral dp p) := by unfold PortNeutral; infer_instance

theorem cleanDefaultPort_default (V : Url) (dp : Bytes) (dv : Nat) (h1 : Cfg.special? {} V.scheme = some dp)
    (h2 : V.port = none) (h3 : V.decodedPort = 0) :
    cleanDefaultPort {} { V with decodedPort := dv, port := some dp } = V := by
  unfold cleanDefaultPort
  simp only [h1]
  cases V
  simp_all

theorem lit_css : lit "://" = [0x3a, 0x2f, 0x2f] := by decide

theorem port_loopEq (I : Idna) (s dp a p R : Bytes) (hsd : Cfg.special? {} s = some dp) (hdp : dp ≠ [])
    (ha : hostText a = true) (hp : PortNeutral dp p) (hR : Delim (goRunes R)) :
    LoopEq (mkE I ((s ++ lit "://" ++ a ++ 0x3a :: p) ++ R) (goRunes ((s ++ lit "://" ++ a ++ 0x3a :: p) ++ R))) (ps0 .schemeStart {})
      (mkE I ((s ++ lit "://" ++ a) ++ R) (goRunes ((s ++ lit "://" ++ a) ++ R))) (ps0 .schemeStart {}) := by
  obtain ⟨hs, hdig, hcan, hle⟩ := specialScheme_of s dp hsd hdp
  obtain ⟨hpd, hpv⟩ := hp
  have gs := specialScheme_graphic hs
  have ga := hostText_graphic ha
  have gp : Graphic p := fun b hb => ⟨(digit_spec b (hpd b hb)).2.2.2.1, (digit_spec b (hpd b hb)).2.2.2.2⟩
  have g3 : Graphic (lit "://") := by unfold Graphic; decide
  have gA2 : Graphic (s ++ lit "://" ++ a) := (gs.append g3).append ga
  have gA1 : Graphic (s ++ lit "://" ++ a ++ 0x3a :: p) := gA2.append (Graphic.cons (by decide) gp)
  generalize hA1 : s ++ lit "://" ++ a ++ 0x3a :: p = A1 at gA1 ⊢
  generalize hA2 : s ++ lit "://" ++ a = A2 at gA2 ⊢
  have hr1 : goRunes (A1 ++ R) = asStr A1 ++ goRunes R := goRunes_clean A1 R (graphic_ascii gA1)
  have hr2 : goRunes (A2 ++ R) = asStr A2 ++ goRunes R := goRunes_clean A2 R (graphic_ascii gA2)
  have hrs1 : goRunes (A1 ++ R) = asStr s ++ ':' :: '/' :: '/' :: (asStr a ++ (asStr (0x3a :: p) ++ goRunes R)) := by
    rw [hr1, ← hA1, lit_css]; simp [asStr_append, bc_colon, bc_slash]
  have hrs2 : goRunes (A2 ++ R) = asStr s ++ ':' :: '/' :: '/' :: (asStr a ++ (asStr [] ++ goRunes R)) := by
    rw [hr2, ← hA2, lit_css]; simp [asStr_append, bc_colon, bc_slash]
  have hX : ∀ b ∈ (0x3a :: p : Bytes), authB true b = true := by
    intro b hb
    rcases List.mem_cons.mp hb with h | h
    · subst h; decide
    · exact (digit_spec b (hpd b h)).2.2.1
  obtain ⟨H1, hdrop1⟩ := reach_host_state I (A1 ++ R) s a (0x3a :: p) (goRunes R) hs ha hX hR {} _ hrs1
  obtain ⟨H2, hdrop2⟩ := reach_host_state I (A2 ++ R) s a [] (goRunes R) hs ha (by simp) hR {} _ hrs2
  have hlenA1 : A1.length = s.length + 3 + a.length + 1 + p.length := by rw [← hA1, lit_css]; simp; omega
  have hlenA2 : A2.length = s.length + 3 + a.length := by rw [← hA2, lit_css]; simp; omega
  have hne : a ≠ [] := (hostText_spec ha).1
  -- the record in the host state
  generalize hU : ({ ({} : Url) with scheme := s }) = U at H1 H2
  have hUs : U.scheme = s := by rw [← hU]
  have hUp : U.port = none := by rw [← hU]
  have hUd : U.decodedPort = 0 := by rw [← hU]
  have hsp : Cfg.isSpecial {} U.scheme = true := by rw [hUs]; exact hs.2.2.1
  have hd1 : (goRunes (A1 ++ R)).drop (s.length + 3 + a.length) = ':' :: (asStr p ++ goRunes R) := hdrop1
  have hd2 : Delim ((goRunes (A2 ++ R)).drop (s.length + 3 + a.length)) := by rw [hdrop2]; exact hR
  cases hout : (parseHost {} I U a false).out with
  | ok h' =>
    -- first spelling: colon, digits, end of the port
    have hd1' := drop_succ_of_cons hd1
    have B := reach_bulk (mkE I (A1 ++ R) (goRunes (A1 ++ R))) (fun b => isDigitN b.toNat = true) id
      (fun ps => ps.state = .port ∧ ps.eof = false) (fun _ _ _ h => h)
      (fun ps k b tl hJ hk hd hb => step_port_digit I (A1 ++ R) _ ps k b tl hJ hk hd hb) p hpd
      ⟨.port, ((s.length + 3 + a.length : Nat) : Int), false, [], false, false, false, { (parseHost {} I U a false).url with host := some h' }⟩
      (s.length + 3 + a.length + 1) (goRunes R) ⟨rfl, rfl⟩ (by simp) hd1'
    have hdk : Delim ((goRunes (A1 ++ R)).drop (s.length + 3 + a.length + 1 + p.length)) := by
      rw [← List.drop_drop, hd1', List.drop_left' (by simp)]; exact hR
    -- second spelling: end of the host
    -- the shift
    have S := Shift.of_append (mkE I (A1 ++ R) (goRunes (A1 ++ R))) (asStr A1) (asStr A2) R
      (by simp [utf8_asStr A1 (graphic_ascii gA1)]) (by simp [hr1])
    have hE : envWith (mkE I (A1 ++ R) (goRunes (A1 ++ R))) (utf8 (asStr A2) ++ R) (asStr A2 ++ goRunes R) =
        mkE I (A2 ++ R) (goRunes (A2 ++ R)) := by
      simp only [envWith, mkE, utf8_asStr A2 (graphic_ascii gA2), hr2]
    have hphs := ph_scheme I U a false
    have hphp := ph_port I U a false
    have hphd := ph_decodedPort I U a false
    generalize hV : ({ (parseHost {} I U a false).url with host := some h' } : Url) = V at B
    have s1 : step (mkE I (A1 ++ R) (goRunes (A1 ++ R))) ⟨.host, (s.length : Int) + 2 + (a.length : Int), false, a, false, false, false, U⟩ =
        .cont ⟨.port, ((s.length + 3 + a.length : Nat) : Int), false, [], false, false, false, V⟩ := by
      rw [← hV]
      exact step_host_colon I (A1 ++ R) _ true ⟨.host, (s.length : Int) + 2 + (a.length : Int), false, a, false, false, false, U⟩ (s.length + 3 + a.length) _ h' rfl rfl hsp rfl (by (try dsimp only); omega) hd1 hne hout
    have s2 : step (mkE I (A2 ++ R) (goRunes (A2 ++ R))) ⟨.host, (s.length : Int) + 2 + (a.length : Int), false, a, false, false, false, U⟩ =
        .cont ⟨.pathStart, (s.length : Int) + 2 + (a.length : Int), false, [], false, false, false, V⟩ := by
      rw [← hV]
      exact step_host_end I (A2 ++ R) _ true ⟨.host, (s.length : Int) + 2 + (a.length : Int), false, a, false, false, false, U⟩ (s.length + 3 + a.length) h' rfl rfl hsp (by (try dsimp only); omega) hd2 (fun _ => hne) hout
    have hVs : Cfg.special? {} V.scheme = some dp := by rw [← hV]; show Cfg.special? {} (parseHost {} I U a false).url.scheme = _; rw [hphs, hUs]; exact hsd
    have hVp : V.port = none := by rw [← hV]; show (parseHost {} I U a false).url.port = _; rw [hphp, hUp]
    have hVd : V.decodedPort = 0 := by rw [← hV]; show (parseHost {} I U a false).url.decodedPort = _; rw [hphd, hUd]
    -- the state both spellings arrive in
    have F : Reach (mkE I (A1 ++ R) (goRunes (A1 ++ R))) (ps0 .schemeStart {})
        ⟨.pathStart, ((s.length + 3 + a.length + p.length : Nat) : Int), false, [], false, false, false, V⟩ := by
      refine H1.trans (Reach.cons s1 (B.trans ?_))
      rcases hpv with hp0 | hpc
      · subst hp0
        refine Reach.cons (step_port_end_empty I (A1 ++ R) _ _ (s.length + 3 + a.length + 1 + 0) rfl rfl (by simp) hdk rfl) ?_
        apply Reach.of_eq
        simp
      · have hpne : p ≠ [] := by
          intro h0; rw [h0] at hpc
          have : itoa (digitsVal 10 []) ≠ dp := by
            intro h; rw [← h] at hdig hcan
            rcases special_cases s dp hsd hdp with ⟨_, h⟩ | ⟨_, h⟩ | ⟨_, h⟩ | ⟨_, h⟩ | ⟨_, h⟩ <;> rw [← hpc] at h <;> revert h <;> decide
          exact this hpc
        have hle' : digitsVal 10 p ≤ 65535 := by
          have := digitsVal_itoa (digitsVal 10 p); rw [hpc] at this; omega
        refine Reach.cons (step_port_end I (A1 ++ R) _ _ (s.length + 3 + a.length + 1 + p.length) rfl rfl (by (try dsimp only); omega) hdk
          (by simpa using hpne) (by simpa using hle')) ?_
        apply Reach.of_eq
        simp only [List.nil_append, List.map_id_fun, id_eq, hpc, cleanDefaultPort_default V dp _ hVs hVp hVd]
        simp
    have G : Reach (mkE I (A2 ++ R) (goRunes (A2 ++ R))) (ps0 .schemeStart {})
        (sh ((A2.length : Int) - (A1.length : Int)) ⟨.pathStart, ((s.length + 3 + a.length + p.length : Nat) : Int), false, [], false, false, false, V⟩) := by
      refine H2.trans (Reach.cons s2 (Reach.of_eq ?_))
      simp only [sh, PS.mk.injEq, true_and, and_true]
      rw [hlenA1, hlenA2]; simp; omega
    have hI : Inv ((asStr A1).length : Int) ⟨.pathStart, ((s.length + 3 + a.length + p.length : Nat) : Int), false, [], false, false, false, V⟩ := by
      refine ⟨?_, by simp, by simp, by simp [AuthReach]⟩
      simp [hlenA1]; omega
    have L := LoopEq.of_shift S _ hI
    rw [hE] at L
    simp only [asStr_length] at L
    exact LoopEq.reach_l F (LoopEq.reach_r G L)
  | err er =>
    have hno : ∀ h, (parseHost {} I U a false).out ≠ .ok h := by intro h; rw [hout]; simp
    exact LoopEq.reach_l H1 (LoopEq.reach_r H2 (LoopEq.done
      (step_host_colon_fail I (A1 ++ R) _ ⟨.host, (s.length : Int) + 2 + (a.length : Int), false, a, false, false, false, U⟩ (s.length + 3 + a.length) _ rfl rfl hsp rfl (by (try dsimp only); omega) hd1 hne hno)
      (step_host_end_fail I (A2 ++ R) _ ⟨.host, (s.length : Int) + 2 + (a.length : Int), false, a, false, false, false, U⟩ (s.length + 3 + a.length) rfl rfl hsp (by (try dsimp only); omega) hd2 hne hno)))
  | panic n =>
    have hno : ∀ h, (parseHost {} I U a false).out ≠ .ok h := by intro h; rw [hout]; simp
    exact LoopEq.reach_l H1 (LoopEq.reach_r H2 (LoopEq.done
      (step_host_colon_fail I (A1 ++ R) _ ⟨.host, (s.length : Int) + 2 + (a.length : Int), false, a, false, false, false, U⟩ (s.length + 3 + a.length) _ rfl rfl hsp rfl (by (try dsimp only); omega) hd1 hne hno)
      (step_host_end_fail I (A2 ++ R) _ ⟨.host, (s.length : Int) + 2 + (a.length : Int), false, a, false, false, false, U⟩ (s.length + 3 + a.length) rfl rfl hsp (by (try dsimp only); omega) hd2 hne hno)))

theorem hostText_prefix_graphic (s dp a : Bytes) (hsd : Cfg.special? {} s = some dp) (hdp : dp ≠ []) (ha : hostText a = true) :
    Graphic (s ++ lit "://" ++ a) := by
  have g3 : Graphic (lit "://") := by unfold Graphic; decide
  exact ((specialScheme_graphic (specialScheme_of s dp hsd hdp).1).append g3).append (hostText_graphic ha)

/-- the parse-level statement -/
theorem port_parse_eq (I : Idna) (s dp a p rest : Bytes) (hsd : Cfg.special? {} s = some dp) (hdp : dp ≠ [])
    (ha : hostText a = true) (hp : PortNeutral dp p) (hrest : DelimB rest) :
    parse {} I (s ++ lit "://" ++ a ++ 0x3a :: p ++ rest) = parse {} I (s ++ lit "://" ++ a ++ rest) := by
  have gA2 := hostText_prefix_graphic s dp a hsd hdp ha
  have gp : Graphic p := fun b hb => ⟨(digit_spec b (hp.1 b hb)).2.2.2.1, (digit_spec b (hp.1 b hb)).2.2.2.2⟩
  have gA1 : Graphic (s ++ lit "://" ++ a ++ 0x3a :: p) := gA2.append (Graphic.cons (by decide) gp)
  apply parse_default_congr
  have hne : s ++ lit "://" ++ a ≠ [] := by
    intro h; have := congrArg List.length h; simp [lit_css] at this
  rw [text_clean _ rest (by simp) (graphic_noWs gA1), text_clean _ rest hne (graphic_noWs gA2)]
  exact loopEq_fuel (port_loopEq I s dp a p (restText rest) hsd hdp ha hp (restText_delim rest hrest)) rfl rfl rfl rfl

theorem digitsVal_zeros (n : Nat) (p : Bytes) : digitsVal 10 (List.replicate n 0x30 ++ p) = digitsVal 10 p := by
  unfold digitsVal
  rw [List.foldl_append]
  congr 1
  induction n with
  | zero => rfl
  | succ n ih => rw [List.replicate_succ, List.foldl_cons]; exact ih

theorem portNeutral_default (s dp : Bytes) (hsd : Cfg.special? {} s = some dp) (hdp : dp ≠ []) (n : Nat) :
    PortNeutral dp (List.replicate n 0x30 ++ dp) := by
  obtain ⟨_, hdig, hcan, _⟩ := specialScheme_of s dp hsd hdp
  refine ⟨?_, Or.inr (by rw [digitsVal_zeros, hcan])⟩
  intro b hb
  rcases List.mem_append.mp hb with h | h
  · rw [(List.mem_replicate.mp h).2]; decide
  · exact hdig b h

end WhatwgUrl.Proofs.Spelling
