import WhatwgUrl.Impl.Api
import WhatwgUrl.Proofs.Frame
import WhatwgUrl.Proofs.NoPanic
import WhatwgUrl.Proofs.RoundTripHost
/-
  C18d helper file 1: two runs of the state machine on url records that AGREE on the fields the machine reads.

  `Ag wp wq wf a b`: the records `a`, `b` agree on scheme, user name, password, host, port, decoded port, and — when the flag
  is set — on the path / the query / the fragment.  The diagnostic fields (`verrs`, `qlog`) are never compared.
  Two runs in lock-step from states that differ in the url only:
   * host family  {host, hostname, fileHost, port}  under a state override: any flags (these states read none of path,
     query, fragment), given that the OUTCOME of the host parser does not depend on the record (`HostOk`);
   * path family  {pathStart, path, query, fragment}: `wp = true` (the path state reads the path).
  Result: the returned records agree in the same sense, the return values are equal or both errors.
-/
namespace WhatwgUrl.Proofs.Pipeline
set_option linter.unusedSimpArgs false
set_option linter.unusedVariables false
open WhatwgUrl WhatwgUrl.Impl

/-! ### the relations -/

def Ag (wp wq wf : Bool) (a b : Url) : Prop :=
  a.scheme = b.scheme ∧ a.username = b.username ∧ a.password = b.password ∧ a.host = b.host ∧ a.port = b.port ∧
  a.decodedPort = b.decodedPort ∧ (wp = true → a.path = b.path) ∧ (wq = true → a.query = b.query) ∧
  (wf = true → a.fragment = b.fragment)

theorem Ag.symm {wp wq wf : Bool} {a b : Url} (h : Ag wp wq wf a b) : Ag wp wq wf b a := by
  obtain ⟨h1, h2, h3, h4, h5, h6, h7, h8, h9⟩ := h
  exact ⟨h1.symm, h2.symm, h3.symm, h4.symm, h5.symm, h6.symm, fun x => (h7 x).symm, fun x => (h8 x).symm, fun x => (h9 x).symm⟩

theorem Ag.refl (wp wq wf : Bool) (a : Url) : Ag wp wq wf a a :=
  ⟨rfl, rfl, rfl, rfl, rfl, rfl, fun _ => rfl, fun _ => rfl, fun _ => rfl⟩

theorem Ag.weaken {wp wq wf : Bool} {a b : Url} (h : Ag wp wq wf a b) : Ag false false false a b := by
  obtain ⟨h1, h2, h3, h4, h5, h6, h7, h8, h9⟩ := h
  exact ⟨h1, h2, h3, h4, h5, h6, Bool.noConfusion, Bool.noConfusion, Bool.noConfusion⟩

/-- the parser states differ in the url only -/
def PSAg (wp wq wf : Bool) (p q : PS) : Prop :=
  p.state = q.state ∧ p.pointer = q.pointer ∧ p.eof = q.eof ∧ p.buffer = q.buffer ∧ p.atFlag = q.atFlag ∧
  p.bracketFlag = q.bracketFlag ∧ p.pwSeen = q.pwSeen ∧ Ag wp wq wf p.url q.url

/-- equal, or both errors -/
def RetAg (r s : Ret) : Prop := r = s ∨ ((∃ e w, r = .err e w) ∧ (∃ e w, s = .err e w))

theorem RetAg.rfl' (r : Ret) : RetAg r r := Or.inl rfl

def ResAg (wp wq wf : Bool) (x y : Res) : Prop := Ag wp wq wf x.url y.url ∧ RetAg x.ret y.ret

/-- two step results in lock-step; continuations stay inside the state set `S`, and in the query state (which reads
    whether the query is nil) the queries agree -/
def RelR (wp wq wf : Bool) (S : State → Bool) : StepR → StepR → Prop
  | .cont p, .cont q => PSAg wp wq wf p q ∧ S p.state = true ∧ (p.state = .query → p.url.query = q.url.query)
  | .done x, .done y => ResAg wp wq wf x y
  | _, _ => False

theorem RelR_ite (wp wq wf : Bool) (S : State → Bool) (c : Prop) [Decidable c] (a b a' b' : StepR)
    (ha : c → RelR wp wq wf S a a') (hb : ¬ c → RelR wp wq wf S b b') :
    RelR wp wq wf S (if c then a else b) (if c then a' else b') := by
  by_cases hc : c
  · rw [if_pos hc, if_pos hc]; exact ha hc
  · rw [if_neg hc, if_neg hc]; exact hb hc

theorem RelR_cont' (wp wq wf : Bool) (S : State → Bool) (st : State) (ptr : Int) (eof : Bool) (buf : Bytes) (af bf pw : Bool)
    (u u' : Url) (hu : Ag wp wq wf u u') (hs : S st = true) (hQ : st = .query → u.query = u'.query) :
    RelR wp wq wf S (.cont ⟨st, ptr, eof, buf, af, bf, pw, u⟩) (.cont ⟨st, ptr, eof, buf, af, bf, pw, u'⟩) :=
  ⟨⟨rfl, rfl, rfl, rfl, rfl, rfl, rfl, hu⟩, hs, hQ⟩

theorem RelR_done' (wp wq wf : Bool) (S : State → Bool) (u u' : Url) (r : Ret) (hu : Ag wp wq wf u u') :
    RelR wp wq wf S (.done ⟨u, r⟩) (.done ⟨u', r⟩) := ⟨hu, Or.inl rfl⟩

theorem Ag_mk (wp wq wf : Bool) (sc us pwd : Bytes) (ho po : Option Bytes) (dp : Nat)
    (pa pa' : Path) (qu fr : Option Bytes) (ve : List VErr) (ql : List Bytes) (qu' fr' : Option Bytes) (ve' : List VErr) (ql' : List Bytes)
    (hp : wp = true → pa = pa') (hq : wq = true → qu = qu') (hf : wf = true → fr = fr') :
    Ag wp wq wf ⟨sc, us, pwd, ho, po, dp, pa, qu, fr, ve, ql⟩ ⟨sc, us, pwd, ho, po, dp, pa', qu', fr', ve', ql'⟩ :=
  ⟨rfl, rfl, rfl, rfl, rfl, rfl, hp, hq, hf⟩

/-- from the destructured form to the relational form -/
theorem of_fields (F : PS → StepR) (S₀ S : State → Bool) (wp wq wf : Bool)
    (H : ∀ (st : State) (ptr : Int) (eof : Bool) (buf : Bytes) (af bf pw : Bool) (sc us pwd : Bytes) (ho po : Option Bytes) (dp : Nat)
      (pa pa' : Path) (qu fr : Option Bytes) (ve : List VErr) (ql : List Bytes) (qu' fr' : Option Bytes) (ve' : List VErr) (ql' : List Bytes),
      (wp = true → pa = pa') → (wq = true → qu = qu') → (wf = true → fr = fr') → S₀ st = true → (st = .query → qu = qu') →
      RelR wp wq wf S (F ⟨st, ptr, eof, buf, af, bf, pw, ⟨sc, us, pwd, ho, po, dp, pa, qu, fr, ve, ql⟩⟩)
        (F ⟨st, ptr, eof, buf, af, bf, pw, ⟨sc, us, pwd, ho, po, dp, pa', qu', fr', ve', ql'⟩⟩))
    (p q : PS) (h : PSAg wp wq wf p q) (hS : S₀ p.state = true) (hQ : p.state = .query → p.url.query = q.url.query) :
    RelR wp wq wf S (F p) (F q) := by
  obtain ⟨st, ptr, eof, buf, af, bf, pw, u⟩ := p
  obtain ⟨st', ptr', eof', buf', af', bf', pw', u'⟩ := q
  obtain ⟨h1, h2, h3, h4, h5, h6, h7, hu⟩ := h
  dsimp only at h1 h2 h3 h4 h5 h6 h7 hu
  subst h1 h2 h3 h4 h5 h6 h7
  obtain ⟨sc, us, pwd, ho, po, dp, pa, qu, fr, ve, ql⟩ := u
  obtain ⟨sc', us', pwd', ho', po', dp', pa', qu', fr', ve', ql'⟩ := u'
  obtain ⟨a1, a2, a3, a4, a5, a6, a7, a8, a9⟩ := hu
  dsimp only at a1 a2 a3 a4 a5 a6 a7 a8 a9
  subst a1 a2 a3 a4 a5 a6
  exact H _ _ _ _ _ _ _ _ _ _ _ _ _ _ _ _ _ _ _ _ _ _ _ a7 a8 a9 hS hQ

/-! ### `record` -/

theorem Ag_record {wp wq wf : Bool} {a b : Url} (cfg : Cfg) (t : ErrT) (f : Bool) (h : Ag wp wq wf a b) :
    Ag wp wq wf (record cfg a t f) (record cfg b t f) := by
  unfold record; split <;> exact h

/-! ### the host parser -/

/-- the outcome of the host parser does not depend on the record it is handed (as far as success goes) -/
def HostOk (cfg : Cfg) (I : Idna) : Prop :=
  ∀ (a b : Url) (buf : Bytes) (ns : Bool) (h : Bytes), Ag false false false a b →
    (parseHost cfg I a buf ns).out = .ok h → (parseHost cfg I b buf ns).out = .ok h

theorem hostOk_default (I : Idna) : HostOk {} I :=
  fun a b buf ns h _ hw => WhatwgUrl.Proofs.RoundTrip.parseHost_ok_indep I b a buf ns h hw

end WhatwgUrl.Proofs.Pipeline
