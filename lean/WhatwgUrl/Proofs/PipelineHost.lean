import WhatwgUrl.Proofs.PipelineRel
/-
  C18d helper file 7: `HostOk` for EVERY configuration whose host hooks read the record only through the fields two
  agreeing records share (in particular: every configuration without hooks).

  Technique ("transport"): a function `g` on url records that commutes with recording a validation error and with logging
  an oracle query, and that the hooks do not see, commutes with every routine of the host parser:
      `f cfg (g u) args = map g (f cfg u args)`          (`Tr`, `parseHost_T`).
  Instances: `g` overwrites path, query and fragment and prepends fixed lists to `verrs` and `qlog`.
-/
namespace WhatwgUrl.Proofs.Pipeline
set_option linter.unusedSimpArgs false
set_option linter.unusedVariables false
set_option linter.unusedSectionVars false
open WhatwgUrl WhatwgUrl.Impl

/-- `g` is invisible to the host parser under the configuration `c` -/
structure Tr (c : Cfg) (g : Url → Url) : Prop where
  rcd : ∀ u t f, record c (g u) t f = g (record c u t f)
  qlog : ∀ u x, ({ g u with qlog := (g u).qlog ++ [x] } : Url) = g { u with qlog := u.qlog ++ [x] }
  pre : ∀ f, c.preHost = some f → ∀ u h, f (g u) h = f u h
  post : ∀ f, c.postHost = some f → ∀ u h, f (g u) h = f u h

def mapHR (g : Url → Url) (r : HR) : HR := { r with url := g r.url }
def mapNumR (g : Url → Url) (r : NumR) : NumR := { r with url := g r.url }
def mapNumsR (g : Url → Url) (r : NumsR) : NumsR := { r with url := g r.url }

theorem hom_ite' {α β : Type} (g : α → β) (c : Prop) [Decidable c] (a b : α) (a' b' : β)
    (ha : c → g a = a') (hb : ¬ c → g b = b') : g (if c then a else b) = if c then a' else b' := by
  split
  · exact ha ‹_›
  · exact hb ‹_›

section
variable {c : Cfg} {g : Url → Url} (T : Tr c g)
include T

theorem hErr_T (u : Url) (t : ErrT) (f : Bool) (k1 k2 : Url → HR) (hk : ∀ u, mapHR g (k1 u) = k2 (g u)) :
    mapHR g (hErr c u t f k1) = hErr c (g u) t f k2 := by
  unfold hErr
  rw [T.rcd]
  split
  · simp [mapHR]
  · rw [hk]

theorem fail6_T (u : Url) (t : ErrT) : mapHR g (fail6 c u t) = fail6 c (g u) t := by
  simp [fail6, mapHR, T.rcd]

theorem parseIPv4Number_T (u : Url) (i : Bytes) :
    mapNumR g (parseIPv4Number c u i) = parseIPv4Number c (g u) i := by
  unfold parseIPv4Number
  simp only [T.rcd]
  repeat' split
  all_goals simp [mapNumR]

theorem endsInANumber_T (u : Url) (i : Bytes) : endsInANumber c u i = endsInANumber c (g u) i := by
  unfold endsInANumber
  simp only [← parseIPv4Number_T T, mapNumR]

theorem parseIPv4Parts_T (parts : List Bytes) : ∀ (u : Url) (acc : List Nat),
    mapNumsR g (parseIPv4Parts c u parts acc) = parseIPv4Parts c (g u) parts acc := by
  induction parts with
  | nil => intro u acc; rfl
  | cons p rest ih =>
    intro u acc
    unfold parseIPv4Parts
    simp only [← parseIPv4Number_T T, T.rcd]
    generalize parseIPv4Number c u p = r
    simp only [mapNumR]
    repeat' split
    all_goals simp_all [mapNumsR, ih, T.rcd]

theorem ipv4RangeWarn_T (ns : List Nat) : ∀ (u : Url),
    (g (ipv4RangeWarn c u ns).1, (ipv4RangeWarn c u ns).2) = ipv4RangeWarn c (g u) ns := by
  induction ns with
  | nil => intro u; rfl
  | cons n rest ih =>
    intro u
    unfold ipv4RangeWarn
    simp only [T.rcd]
    repeat' split
    all_goals simp_all [ih]

theorem parseIPv4_T (u : Url) (i : Bytes) : mapHR g (parseIPv4 c u i) = parseIPv4 c (g u) i := by
  unfold parseIPv4
  dsimp only
  generalize splitOn 46 i = parts0
  generalize (if (parts0.getLast? == some [] && decide (parts0.length > 1)) = true then parts0.dropLast else parts0) = parts
  repeat' first | (apply hErr_T T; intro _) | (apply hom_ite' <;> intro _)
  all_goals
    simp only [← parseIPv4Parts_T T]
    generalize parseIPv4Parts c _ parts [] = pr
    simp only [mapNumsR, ← ipv4RangeWarn_T T, T.rcd]
    generalize ipv4RangeWarn c pr.url pr.nums = w
    repeat' split
    all_goals simp_all [mapHR]

/-! #### IPv6 -/

omit T in
def mapDL (g : Url → Url) : Sum (C6 × Char × Int × Url) HR → Sum (C6 × Char × Int × Url) HR
  | .inl x => .inl (x.1, x.2.1, x.2.2.1, g x.2.2.2)
  | .inr r => .inr (mapHR g r)
omit T in
def mapVL (g : Url → Url) : Sum (List Nat × Nat × Nat × Url) HR → Sum (List Nat × Nat × Nat × Url) HR
  | .inl x => .inl (x.1, x.2.1, x.2.2.1, g x.2.2.2)
  | .inr r => .inr (mapHR g r)
omit T in
def mapS6 (g : Url → Url) (s : S6) : S6 := { s with url := g s.url }
omit T in
def mapR6 (g : Url → Url) : R6 → R6
  | .cont s => .cont (mapS6 g s)
  | .brk s => .brk (mapS6 g s)
  | .done r => .done (mapHR g r)
omit T in
def mapL6 (g : Url → Url) : Sum S6 HR → Sum S6 HR
  | .inl s => .inl (mapS6 g s)
  | .inr r => .inr (mapHR g r)

theorem digitLoop6_T (rs : Str) (fuel : Nat) : ∀ (cu : C6) (ch : Char) (p : Int) (u : Url),
    mapDL g (digitLoop6 c rs fuel cu ch p u) = digitLoop6 c rs fuel cu ch p (g u) := by
  induction fuel with
  | zero => intro cu ch p u; rfl
  | succ n ih =>
    intro cu ch p u
    unfold digitLoop6
    simp only [T.rcd]
    repeat' split
    all_goals simp_all [mapDL, mapHR, ih]

theorem v4Loop6_T (rs : Str) (fuel : Nat) : ∀ (cu : C6) (ch : Char) (a : List Nat) (pi ns : Nat) (u : Url),
    mapVL g (v4Loop6 c rs fuel cu ch a pi ns u) = v4Loop6 c rs fuel cu ch a pi ns (g u) := by
  induction fuel with
  | zero => intro cu ch a pi ns u; rfl
  | succ n ih =>
    intro cu ch a pi ns u
    unfold v4Loop6
    simp only [← digitLoop6_T T, ← fail6_T T]
    generalize digitLoop6 c rs (rs.length + 2) _ _ (-1) u = d
    rcases d with ⟨cu2, c2', p, u2⟩ | r <;> simp only [mapDL]
    all_goals repeat' split
    all_goals simp_all [mapVL, mapHR, ih]

theorem iter6_T (rs : Str) (s : S6) : mapR6 g (iter6 c rs s) = iter6 c rs (mapS6 g s) := by
  unfold iter6
  simp only [← v4Loop6_T T, mapS6]
  generalize v4Loop6 c rs (rs.length + 2) _ _ s.address s.pieceIdx 0 s.url = d
  rcases d with ⟨a, pi, ns, u⟩ | r <;> simp only [mapVL]
  all_goals repeat' split
  all_goals simp_all [mapR6, mapS6, mapHR, fail6, T.rcd]

theorem loop6_T (rs : Str) (fuel : Nat) : ∀ (s : S6),
    mapL6 g (loop6 c rs fuel s) = loop6 c rs fuel (mapS6 g s) := by
  induction fuel with
  | zero => intro s; rfl
  | succ n ih =>
    intro s
    unfold loop6
    simp only [← iter6_T T]
    generalize iter6 c rs s = d
    rcases d with s' | s' | r <;> simp only [mapR6]
    all_goals repeat' split
    all_goals simp_all [mapL6, mapS6, ih]

theorem parseIPv6_T (u : Url) (i : Bytes) : mapHR g (parseIPv6 c u i) = parseIPv6 c (g u) i := by
  unfold parseIPv6
  dsimp only
  generalize goRunes i = rs
  by_cases h1 : ((next6 rs ⟨-1, false⟩).2 == ':') = true
  · by_cases h2 : (!startsWithColon6 rs (next6 rs ⟨-1, false⟩).1) = true
    · simp only [if_pos h1, if_pos h2]; exact fail6_T T _ _
    · simp only [if_pos h1, if_neg h2]
      generalize hd1 : loop6 c rs _ ⟨_, _, _, _, _, u⟩ = d1
      generalize hd2 : loop6 c rs _ ⟨_, _, _, _, _, g u⟩ = d2
      have : mapL6 g d1 = d2 := by rw [← hd1, ← hd2]; exact loop6_T T _ _ _
      subst this
      clear hd1 hd2
      rcases d1 with s | r <;> simp only [mapL6]
      all_goals repeat' split
      all_goals (simp_all [mapS6, mapHR, fail6, T.rcd]) <;> omega
  · simp only [if_neg h1]
    generalize hd1 : loop6 c rs _ ⟨_, _, _, _, _, u⟩ = d1
    generalize hd2 : loop6 c rs _ ⟨_, _, _, _, _, g u⟩ = d2
    have : mapL6 g d1 = d2 := by rw [← hd1, ← hd2]; exact loop6_T T _ _ _
    subst this
    clear hd1 hd2
    rcases d1 with s | r <;> simp only [mapL6]
    all_goals repeat' split
    all_goals (simp_all [mapS6, mapHR, fail6, T.rcd]) <;> omega

/-! #### opaque host, domain -/

theorem opaqueLoop_T (i : Bytes) (rs : Str) : ∀ (u : Url) (out : Bytes),
    mapHR g (opaqueLoop c i rs u out) = opaqueLoop c i rs (g u) out := by
  induction rs with
  | nil => intro u out; rfl
  | cons ch rest ih =>
    intro u out
    unfold opaqueLoop
    simp only [T.rcd]
    repeat' split
    all_goals simp_all [mapHR, ih, T.rcd]

theorem parseOpaqueHost_T (u : Url) (i : Bytes) : mapHR g (parseOpaqueHost c u i) = parseOpaqueHost c (g u) i :=
  opaqueLoop_T T _ _ _ _

theorem toASCII_T (I : Idna) (u : Url) (s : Bytes) :
    ((toASCII c I u s).1, g (toASCII c I u s).2) = toASCII c I (g u) s := by
  unfold toASCII
  simp only [T.qlog]
  repeat' split
  all_goals simp_all

theorem forbiddenLoop_T (a : Bytes) (rs : Str) : ∀ (u : Url),
    (g (forbiddenLoop c a rs u).1, (forbiddenLoop c a rs u).2) = forbiddenLoop c a rs (g u) := by
  induction rs with
  | nil => intro u; rfl
  | cons ch rest ih =>
    intro u
    unfold forbiddenLoop
    simp only [T.rcd]
    repeat' split
    all_goals simp_all [ih]

theorem parseHost_T (I : Idna) (u : Url) (i : Bytes) (ns : Bool) :
    mapHR g (parseHost c I u i ns) = parseHost c I (g u) i ns := by
  unfold parseHost
  have hpost := T.post
  have hpre := T.pre
  cases h : c.preHost with
  | none =>
    dsimp only
    generalize i = input
    simp only [← parseIPv6_T T, ← parseOpaqueHost_T T, ← toASCII_T T, ← forbiddenLoop_T T, ← endsInANumber_T T, ← parseIPv4_T T]
    repeat' split
    all_goals simp_all [mapHR, fail6, T.rcd]
  | some f =>
    dsimp only
    rw [hpre f h u i]
    generalize f u i = input
    simp only [← parseIPv6_T T, ← parseOpaqueHost_T T, ← toASCII_T T, ← forbiddenLoop_T T, ← endsInANumber_T T, ← parseIPv4_T T]
    repeat' split
    all_goals simp_all [mapHR, fail6, T.rcd]

end

/-! ### the instance, and `HostOk` -/

/-- overwrite path, query and fragment; prepend to the recorded errors and to the oracle log -/
def gT (P : Path) (Q F : Option Bytes) (V : List VErr) (L : List Bytes) (u : Url) : Url :=
  { u with path := P, query := Q, fragment := F, verrs := V ++ u.verrs, qlog := L ++ u.qlog }

/-- the host hooks of the configuration read the record only through the fields two agreeing records share (scheme, user
    name, password, host, port, decoded port); in particular: no hooks -/
def HooksOk (c : Cfg) : Prop :=
  (∀ f, c.preHost = some f → ∀ a b h, Ag false false false a b → f a h = f b h) ∧
  (∀ f, c.postHost = some f → ∀ a b h, Ag false false false a b → f a h = f b h)

theorem hooksOk_none (c : Cfg) (h1 : c.preHost = none) (h2 : c.postHost = none) : HooksOk c :=
  ⟨fun f hf => (by rw [h1] at hf; cases hf), fun f hf => (by rw [h2] at hf; cases hf)⟩

theorem ag_gT (P : Path) (Q F : Option Bytes) (V : List VErr) (L : List Bytes) (u : Url) :
    Ag false false false (gT P Q F V L u) u :=
  ⟨rfl, rfl, rfl, rfl, rfl, rfl, Bool.noConfusion, Bool.noConfusion, Bool.noConfusion⟩

theorem tr_gT (c : Cfg) (hc : HooksOk c) (P : Path) (Q F : Option Bytes) (V : List VErr) (L : List Bytes) :
    Tr c (gT P Q F V L) where
  rcd := by
    intro u t f
    unfold record
    split
    · simp [gT, List.append_assoc]
    · rfl
  qlog := by intro u x; simp [gT, List.append_assoc]
  pre := fun f hf u h => hc.1 f hf _ _ h (ag_gT P Q F V L u)
  post := fun f hf u h => hc.2 f hf _ _ h (ag_gT P Q F V L u)

/-- **the outcome of the host parser depends on the record only through what the hooks read** -/
theorem hostOk_of_hooks (c : Cfg) (I : Idna) (hc : HooksOk c) : HostOk c I := by
  intro a b buf ns h hab hout
  obtain ⟨h1, h2, h3, h4, h5, h6, _, _, _⟩ := hab
  have ea : a = gT a.path a.query a.fragment a.verrs a.qlog { a with verrs := [], qlog := [] } := by
    cases a; simp [gT]
  have eb : b = gT b.path b.query b.fragment b.verrs b.qlog { a with verrs := [], qlog := [] } := by
    cases a; cases b; simp only at h1 h2 h3 h4 h5 h6; subst h1 h2 h3 h4 h5 h6; simp [gT]
  have ta := parseHost_T (tr_gT c hc a.path a.query a.fragment a.verrs a.qlog) I { a with verrs := [], qlog := [] } buf ns
  have tb := parseHost_T (tr_gT c hc b.path b.query b.fragment b.verrs b.qlog) I { a with verrs := [], qlog := [] } buf ns
  rw [← ea] at ta
  rw [← eb] at tb
  rw [← ta] at hout
  rw [← tb]
  exact hout

end WhatwgUrl.Proofs.Pipeline
