import WhatwgUrl.Proofs.IPv6
/-
  Helper lemmas for C08_parse_conforms: the Go IPv6 parser computes what the standard's parser computes.
  The Go cursor (pointer, eof flag, current code point) is a function of the standard's pointer.
-/
namespace WhatwgUrl.Proofs.IPv6
open WhatwgUrl WhatwgUrl.Impl

/-! ### the Go cursor as a function of the standard's pointer -/

def gcur (rs : Str) (p : Nat) : C6 := ⟨(p : Int), (rs[p]?).isNone⟩
def gc (rs : Str) (p : Nat) : Char := (rs[p]?).getD repl

theorem next6_g (rs : Str) (p : Nat) : next6 rs (gcur rs p) = (gcur rs (p + 1), gc rs (p + 1)) := by
  have h1 : cur6 rs ((p : Int) + 1) = rs[p + 1]? := by
    unfold cur6
    have : (0 : Int) ≤ (p : Int) + 1 := by omega
    rw [if_pos this]
    congr 1
  unfold next6
  simp only [gcur, h1]
  cases h : rs[p + 1]? with
  | none => simp [gc, h]
  | some ch =>
    have hlt : p + 1 < rs.length := by
      rcases Nat.lt_or_ge (p + 1) rs.length with h' | h'
      · exact h'
      · rw [List.getElem?_eq_none h'] at h; cases h
    have : rs[p]?.isNone = false := by
      rw [List.getElem?_eq_getElem (by omega)]; rfl
    simp [gc, h, this]

theorem next6_start (rs : Str) : next6 rs ⟨-1, false⟩ = (gcur rs 0, gc rs 0) := by
  have h1 : cur6 rs ((-1 : Int) + 1) = rs[0]? := by
    unfold cur6; simp
  unfold next6
  simp only [h1]
  cases h : rs[0]? with
  | none => simp [gc, gcur, h]
  | some ch => simp [gc, gcur, h]

theorem gcur_eof (rs : Str) (p : Nat) : (gcur rs p).eof = (Spec.at6 rs p).isNone := rfl
theorem gcur_pointer (rs : Str) (p : Nat) : (gcur rs p).pointer = (p : Int) := rfl

theorem repl_facts : isHexN repl.toNat = false ∧ isDigitN repl.toNat = false ∧ (repl == ':') = false ∧ (repl == '.') = false := by
  decide

theorem gc_isHex (rs : Str) (p : Nat) : isHexN (gc rs p).toNat = Spec.isHexC (Spec.at6 rs p) := by
  unfold gc Spec.at6 Spec.isHexC
  cases rs[p]? with
  | none => exact repl_facts.1
  | some c => rfl

theorem gc_isDigit (rs : Str) (p : Nat) : isDigitN (gc rs p).toNat = Spec.isDigitC (Spec.at6 rs p) := by
  unfold gc Spec.at6 Spec.isDigitC
  cases rs[p]? with
  | none => exact repl_facts.2.1
  | some c => rfl

theorem gc_colon (rs : Str) (p : Nat) : (gc rs p == ':') = (Spec.at6 rs p == some ':') := by
  unfold gc Spec.at6
  cases rs[p]? with
  | none => exact repl_facts.2.2.1
  | some c => simp

theorem gc_dot (rs : Str) (p : Nat) : (gc rs p == '.') = (Spec.at6 rs p == some '.') := by
  unfold gc Spec.at6
  cases rs[p]? with
  | none => exact repl_facts.2.2.2
  | some c => simp

theorem gc_getD (rs : Str) (p : Nat) (h : (Spec.at6 rs p).isSome) : (Spec.at6 rs p).getD '0' = gc rs p := by
  unfold gc Spec.at6 at *
  cases h' : rs[p]? with
  | none => rw [h'] at h; cases h
  | some c => rfl

/-! ### hex loop -/

theorem hexLoop6_eq (rs : Str) : ∀ fuel p v l,
    hexLoop6 rs fuel (gcur rs p) (gc rs p) v l =
      (gcur rs (Spec.hexRun rs fuel v l p).2.2, gc rs (Spec.hexRun rs fuel v l p).2.2,
        (Spec.hexRun rs fuel v l p).1, (Spec.hexRun rs fuel v l p).2.1) := by
  intro fuel
  induction fuel with
  | zero => intro p v l; rfl
  | succ f ih =>
    intro p v l
    simp only [hexLoop6, Spec.hexRun, gc_isHex]
    by_cases h : (decide (l < 4) && Spec.isHexC (Spec.at6 rs p)) = true
    · have hs : (Spec.at6 rs p).isSome := by
        simp only [Bool.and_eq_true] at h
        cases h' : Spec.at6 rs p with
        | none => rw [h'] at h; simp [Spec.isHexC] at h
        | some c => rfl
      rw [if_pos h, if_pos h, next6_g, ih, gc_getD rs p hs]
    · rw [if_neg h, if_neg h]

theorem hexVal_lt (n : Nat) : hexVal n < 16 := by
  unfold hexVal isDigitN
  split
  · rename_i h; simp at h; omega
  · split
    · rename_i h; simp at h; omega
    · split
      · rename_i h; simp at h; omega
      · omega

/-- the hex loop advances the pointer by the number of digits and keeps the value below 16^length -/
theorem hexRun_inv (rs : Str) : ∀ fuel v l p, l ≤ 4 → v < 16 ^ l →
    (Spec.hexRun rs fuel v l p).2.2 + l = p + (Spec.hexRun rs fuel v l p).2.1 ∧
    l ≤ (Spec.hexRun rs fuel v l p).2.1 ∧ (Spec.hexRun rs fuel v l p).2.1 ≤ 4 ∧
    (Spec.hexRun rs fuel v l p).1 < 16 ^ (Spec.hexRun rs fuel v l p).2.1 := by
  intro fuel
  induction fuel with
  | zero => intro v l p hl hv; simp [Spec.hexRun, hl, hv]
  | succ f ih =>
    intro v l p hl hv
    simp only [Spec.hexRun]
    by_cases h : (decide (l < 4) && Spec.isHexC (Spec.at6 rs p)) = true
    · rw [if_pos h]
      have hl4 : l < 4 := by simp at h; exact h.1
      have hx := hexVal_lt ((Spec.at6 rs p).getD '0').toNat
      have hv' : v * 0x10 + hexVal ((Spec.at6 rs p).getD '0').toNat < 16 ^ (l + 1) := by
        rw [Nat.pow_succ]; omega
      have := ih (v * 0x10 + hexVal ((Spec.at6 rs p).getD '0').toNat) (l + 1) (p + 1) (by omega) hv'
      omega
    · rw [if_neg h]; simp [hl, hv]


/-! ### digit loop of the IPv4-in-IPv6 part -/

def IsErr (r : HR) : Prop := ∃ e, r.out = .err e

def encP (o : Option Nat) : Int := match o with | none => -1 | some v => (v : Int)

theorem digitLoop6_eq (cfg : Cfg) (rs : Str) (u : Url) : ∀ fuel p piece,
    match Spec.digitRun rs fuel piece p with
    | none => ∃ r, digitLoop6 cfg rs fuel (gcur rs p) (gc rs p) (encP piece) u = .inr r ∧ IsErr r
    | some res => digitLoop6 cfg rs fuel (gcur rs p) (gc rs p) (encP piece) u =
        .inl (gcur rs res.2, gc rs res.2, encP res.1, u) := by
  intro fuel
  induction fuel with
  | zero => intro p piece; rfl
  | succ f ih =>
    intro p piece
    by_cases hd : Spec.isDigitC (Spec.at6 rs p) = true
    · have hs : (Spec.at6 rs p).isSome := by
        cases h' : Spec.at6 rs p with
        | none => rw [h'] at hd; simp [Spec.isDigitC] at hd
        | some c => rfl
      have hg := gc_getD rs p hs
      have hd' : isDigitN (gc rs p).toNat = true := by rw [gc_isDigit]; exact hd
      have hn : (gc rs p).toNat - 0x30 ≤ 9 := by
        simp [isDigitN] at hd'; omega
      cases piece with
      | none =>
        have h1 := ih (p + 1) (some ((gc rs p).toNat - 0x30))
        simp only [Spec.digitRun, hd, if_true, hg]
        simp only [digitLoop6, hd', if_true, encP, next6_g]
        have e1 : ((-1 : Int) < 0) := by omega
        have e2 : ¬ ((((gc rs p).toNat - 0x30 : Nat) : Int) > 255) := by omega
        rw [if_pos e1, if_neg e2]
        exact h1
      | some v =>
        cases v with
        | zero =>
          simp only [Spec.digitRun, hd, if_true]
          simp only [digitLoop6, hd', if_true, encP]
          exact ⟨_, rfl, _, rfl⟩
        | succ v =>
          simp only [Spec.digitRun, hd, if_true, hg]
          simp only [digitLoop6, hd', if_true, encP, next6_g]
          have e1 : ¬ (((v + 1 : Nat) : Int) < 0) := by omega
          have e2 : (((v + 1 : Nat) : Int) == 0) = false := by
            apply beq_false_of_ne; omega
          rw [if_neg e1, e2]
          simp only [Bool.false_eq_true, if_false]
          by_cases h3 : (v + 1) * 10 + ((gc rs p).toNat - 0x30) > 255
          · have h3' : ((v + 1 : Nat) : Int) * 10 + (((gc rs p).toNat - 0x30 : Nat) : Int) > 255 := by omega
            rw [if_pos h3, if_pos h3']
            exact ⟨_, rfl, _, rfl⟩
          · have h3' : ¬ (((v + 1 : Nat) : Int) * 10 + (((gc rs p).toNat - 0x30 : Nat) : Int) > 255) := by omega
            rw [if_neg h3, if_neg h3']
            have h1 := ih (p + 1) (some ((v + 1) * 10 + ((gc rs p).toNat - 0x30)))
            have e3 : encP (some ((v + 1) * 10 + ((gc rs p).toNat - 0x30))) =
                ((v + 1 : Nat) : Int) * 10 + (((gc rs p).toNat - 0x30 : Nat) : Int) := by
              simp only [encP]; omega
            rw [e3] at h1
            exact h1
    · have hd' : isDigitN (gc rs p).toNat = false := by rw [gc_isDigit]; simpa using hd
      simp only [Spec.digitRun, hd, digitLoop6, hd']
      rfl


theorem at6_none_of_ge (rs : Str) (p : Nat) (h : rs.length ≤ p) : Spec.at6 rs p = none := by
  unfold Spec.at6; exact List.getElem?_eq_none h

theorem digitRun_mono (rs : Str) : ∀ fuel piece p res, Spec.digitRun rs fuel piece p = some res → p ≤ res.2 := by
  intro fuel
  induction fuel with
  | zero => intro piece p res h; simp only [Spec.digitRun] at h; cases h; exact Nat.le_refl _
  | succ f ih =>
    intro piece p res h
    simp only [Spec.digitRun] at h
    split at h
    · split at h
      · have := ih _ _ _ h; omega
      · cases h
      · split at h
        · cases h
        · have := ih _ _ _ h; omega
    · cases h; exact Nat.le_refl _

/-- with enough fuel the result of the digit loop does not depend on the fuel -/
theorem digitRun_fuel (rs : Str) : ∀ fuel fuel' piece p, rs.length + 1 ≤ fuel + p → rs.length + 1 ≤ fuel' + p →
    Spec.digitRun rs fuel piece p = Spec.digitRun rs fuel' piece p := by
  intro fuel
  induction fuel with
  | zero =>
    intro fuel' piece p h1 h2
    have hn := at6_none_of_ge rs p (by omega)
    cases fuel' with
    | zero => rfl
    | succ f' => simp [Spec.digitRun, hn, Spec.isDigitC]
  | succ f ih =>
    intro fuel' piece p h1 h2
    cases fuel' with
    | zero =>
      have hn := at6_none_of_ge rs p (by omega)
      simp [Spec.digitRun, hn, Spec.isDigitC]
    | succ f' =>
      simp only [Spec.digitRun]
      split
      · split
        · exact ih _ _ _ (by omega) (by omega)
        · rfl
        · split
          · rfl
          · exact ih _ _ _ (by omega) (by omega)
      · rfl


theorem digitRun_bound (rs : Str) : ∀ fuel piece p res, Spec.digitRun rs fuel piece p = some res →
    (∀ v, piece = some v → v ≤ 255) → ∀ v, res.1 = some v → v ≤ 255 := by
  intro fuel
  induction fuel with
  | zero => intro piece p res h hb; simp only [Spec.digitRun] at h; cases h; exact hb
  | succ f ih =>
    intro piece p res h hb
    simp only [Spec.digitRun] at h
    split at h
    · rename_i hd
      have hn : ((Spec.at6 rs p).getD '0').toNat - 0x30 ≤ 9 := by
        cases h' : Spec.at6 rs p with
        | none => simp
        | some c => rw [h'] at hd; simp [Spec.isDigitC, isDigitN] at hd; simp; omega
      split at h
      · exact ih _ _ _ h (by intro v hv; cases hv; omega)
      · cases h
      · split at h
        · cases h
        · exact ih _ _ _ h (by intro v hv; cases hv; omega)
    · cases h; exact hb

/-! ### the IPv4-in-IPv6 loop -/

/-- invariant of the IPv4-in-IPv6 loop: room for the remaining numbers, and the pieces not yet written are zero -/
def V4Inv (a : List Nat) (pi ns : Nat) : Prop :=
  a.length = 8 ∧ ns ≤ 4 ∧ pi + (if ns < 2 then 2 else if ns < 4 then 1 else 0) ≤ 8 ∧
  (ns % 2 = 0 → ∀ j, pi ≤ j → a[j]! = 0) ∧ (ns % 2 = 1 → a[pi]! ≤ 255 ∧ ∀ j, pi < j → a[j]! = 0)

theorem getElem!_set_ne (a : List Nat) (i j v : Nat) (h : i ≠ j) : (a.set i v)[j]! = a[j]! := by
  simp [h]

theorem getElem!_set_eq (a : List Nat) (i v : Nat) (h : i < a.length) : (a.set i v)[i]! = v := by
  simp [h]

theorem V4Inv_step (a : List Nat) (pi ns piece : Nat) (h : V4Inv a pi ns) (hns : ns < 4) (hp : piece ≤ 255) :
    pi < a.length ∧ a[pi]! * 0x100 + piece < 0x10000 ∧
    V4Inv (a.set pi (a[pi]! * 0x100 + piece)) (if (ns + 1 == 2 || ns + 1 == 4) = true then pi + 1 else pi) (ns + 1) := by
  obtain ⟨hl, h4, hroom, he, ho⟩ := h
  have hroom' : (ns < 2 → pi + 2 ≤ 8) ∧ (ns < 4 → pi + 1 ≤ 8) ∧ pi ≤ 8 := by
    split at hroom <;> (try split at hroom) <;> omega
  clear hroom
  have hpi : pi < a.length := by omega
  rcases Nat.mod_two_eq_zero_or_one ns with hev | hod
  · have hz := he hev
    have h0 : a[pi]! = 0 := hz pi (Nat.le_refl _)
    have hnn : (ns + 1 == 2 || ns + 1 == 4) = false := by simp; omega
    refine ⟨hpi, by rw [h0]; omega, ?_⟩
    rw [hnn]
    simp only [Bool.false_eq_true, if_false]
    refine ⟨by simp [hl], by omega, ?_, fun h' => by omega, fun _ => ⟨?_, ?_⟩⟩
    · (repeat' split) <;> omega
    · rw [getElem!_set_eq a pi _ hpi, h0]; omega
    · intro j hj
      rw [getElem!_set_ne a pi j _ (by omega)]
      exact hz j (by omega)
  · obtain ⟨hb, hz⟩ := ho hod
    have hnn : (ns + 1 == 2 || ns + 1 == 4) = true := by simp; omega
    refine ⟨hpi, by omega, ?_⟩
    rw [hnn]
    simp only [if_true]
    refine ⟨by simp [hl], by omega, ?_, fun _ => ?_, fun h' => by omega⟩
    · (repeat' split) <;> omega
    · intro j hj
      rw [getElem!_set_ne a pi j _ (by omega)]
      exact hz j (by omega)

theorem v4Loop6_eq (cfg : Cfg) (rs : Str) : ∀ fuel p a pi ns u, V4Inv a pi ns →
    match Spec.v4Run rs fuel a pi ns p with
    | none => ∃ r, v4Loop6 cfg rs fuel (gcur rs p) (gc rs p) a pi ns u = .inr r ∧ IsErr r
    | some res => v4Loop6 cfg rs fuel (gcur rs p) (gc rs p) a pi ns u = .inl (res.1, res.2.1, res.2.2.1, u) ∧
        V4Inv res.1 res.2.1 res.2.2.1 ∧ pi ≤ res.2.1 := by
  intro fuel
  induction fuel with
  | zero => intro p a pi ns u hinv; exact ⟨rfl, hinv, Nat.le_refl _⟩
  | succ f ih =>
    intro p a pi ns u hinv
    by_cases heof : (Spec.at6 rs p).isNone = true
    · have hS : Spec.v4Run rs (f + 1) a pi ns p = some (a, pi, ns, p) := by
        simp only [Spec.v4Run, heof, if_true]
      have hG : v4Loop6 cfg rs (f + 1) (gcur rs p) (gc rs p) a pi ns u = .inl (a, pi, ns, u) := by
        simp only [v4Loop6, gcur_eof, heof, if_true]
      rw [hS]; exact ⟨hG, hinv, Nat.le_refl _⟩
    · have heof' : (Spec.at6 rs p).isNone = false := Bool.eq_false_iff.mpr heof
      have hsepEq : (!(!decide (ns > 0) || (gc rs p == '.' && decide (ns < 4)))) =
          (decide (ns > 0) && !(Spec.at6 rs p == some '.' && decide (ns < 4))) := by
        rw [gc_dot]; cases decide (ns > 0) <;> cases (Spec.at6 rs p == some '.' && decide (ns < 4)) <;> rfl
      by_cases hsep : (decide (ns > 0) && !(Spec.at6 rs p == some '.' && decide (ns < 4))) = true
      · have hS : Spec.v4Run rs (f + 1) a pi ns p = none := by
          simp only [Spec.v4Run, heof', hsep, if_true, Bool.false_eq_true, if_false]
        have hG : v4Loop6 cfg rs (f + 1) (gcur rs p) (gc rs p) a pi ns u = .inr (fail6 cfg u .IPv4InIPv6InvalidCodePoint) := by
          simp only [v4Loop6, gcur_eof, heof', hsepEq, hsep, if_true, Bool.false_eq_true, if_false]
        rw [hS]; exact ⟨_, hG, _, rfl⟩
      · have hsep' : (decide (ns > 0) && !(Spec.at6 rs p == some '.' && decide (ns < 4))) = false := Bool.eq_false_iff.mpr hsep
        have hns4 : ns < 4 := by
          by_cases h0 : ns > 0
          · simp [h0] at hsep'; exact hsep'.2
          · omega
        generalize hp1 : (if ns > 0 then p + 1 else p) = p1
        have hcu1 : (if ns > 0 then (next6 rs (gcur rs p)).1 else gcur rs p) = gcur rs p1 := by
          rw [next6_g, ← hp1]; split <;> rfl
        have hc1 : (if ns > 0 then (next6 rs (gcur rs p)).2 else gc rs p) = gc rs p1 := by
          rw [next6_g, ← hp1]; split <;> rfl
        by_cases hdig : Spec.isDigitC (Spec.at6 rs p1) = true
        · have hfuel := digitRun_fuel rs (rs.length + 1) (rs.length + 2) none p1 (by omega) (by omega)
          have hD := digitLoop6_eq cfg rs u (rs.length + 2) p1 none
          cases hdr : Spec.digitRun rs (rs.length + 2) none p1 with
          | none =>
            rw [hdr] at hD
            obtain ⟨r, hr, hre⟩ := hD
            have hS : Spec.v4Run rs (f + 1) a pi ns p = none := by
              simp only [Spec.v4Run, heof', hsep', hp1, hdig, hfuel, hdr, Bool.false_eq_true, if_false, Bool.not_true]
            have hG : v4Loop6 cfg rs (f + 1) (gcur rs p) (gc rs p) a pi ns u = .inr r := by
              simp only [v4Loop6, gcur_eof, heof', hsepEq, hsep', hcu1, hc1, gc_isDigit, hdig, Bool.false_eq_true, if_false, Bool.not_true]
              rw [show encP none = -1 from rfl] at hr
              rw [hr]
            rw [hS]; exact ⟨_, hG, hre⟩
          | some res =>
            obtain ⟨piece, p2⟩ := res
            rw [hdr] at hD
            simp only at hD
            have hpb : piece.getD 0 ≤ 255 := by
              have := digitRun_bound rs _ _ _ _ hdr (by intro v hv; cases hv)
              cases piece with
              | none => simp
              | some v => exact this v rfl
            have hpe : (encP piece).toNat = piece.getD 0 := by
              cases piece with
              | none => rfl
              | some v => simp [encP]
            obtain ⟨hpi, hval, hinv'⟩ := V4Inv_step a pi ns (piece.getD 0) hinv hns4 hpb
            have hI := ih p2 (a.set pi (a[pi]! * 0x100 + piece.getD 0))
              (if (ns + 1 == 2 || ns + 1 == 4) = true then pi + 1 else pi) (ns + 1) u hinv'
            have hS : Spec.v4Run rs (f + 1) a pi ns p = Spec.v4Run rs f (a.set pi (a[pi]! * 0x100 + piece.getD 0))
                (if (ns + 1 == 2 || ns + 1 == 4) = true then pi + 1 else pi) (ns + 1) p2 := by
              simp only [Spec.v4Run, heof', hsep', hp1, hdig, hfuel, hdr, Bool.false_eq_true, if_false, Bool.not_true]
            have hG : v4Loop6 cfg rs (f + 1) (gcur rs p) (gc rs p) a pi ns u =
                v4Loop6 cfg rs f (gcur rs p2) (gc rs p2) (a.set pi (a[pi]! * 0x100 + piece.getD 0))
                (if (ns + 1 == 2 || ns + 1 == 4) = true then pi + 1 else pi) (ns + 1) u := by
              simp only [v4Loop6, gcur_eof, heof', hsepEq, hsep', hcu1, hc1, gc_isDigit, hdig, Bool.false_eq_true, if_false, Bool.not_true]
              rw [show encP none = -1 from rfl] at hD
              rw [hD]
              simp only [setPiece, hpi, if_true, hpe, Nat.mod_eq_of_lt hval]
            rw [hS, hG]
            have hmono : pi ≤ (if (ns + 1 == 2 || ns + 1 == 4) = true then pi + 1 else pi) := by split <;> omega
            cases hres : Spec.v4Run rs f (a.set pi (a[pi]! * 0x100 + piece.getD 0))
                (if (ns + 1 == 2 || ns + 1 == 4) = true then pi + 1 else pi) (ns + 1) p2 with
            | none => rw [hres] at hI; exact hI
            | some res =>
              rw [hres] at hI
              exact ⟨hI.1, hI.2.1, Nat.le_trans hmono hI.2.2⟩
        · have hdig' : Spec.isDigitC (Spec.at6 rs p1) = false := Bool.eq_false_iff.mpr hdig
          have hS : Spec.v4Run rs (f + 1) a pi ns p = none := by
            simp only [Spec.v4Run, heof', hsep', hp1, hdig', Bool.false_eq_true, if_false, Bool.not_false, if_true]
          have hG : v4Loop6 cfg rs (f + 1) (gcur rs p) (gc rs p) a pi ns u = .inr (fail6 cfg u .IPv4InIPv6InvalidCodePoint) := by
            simp only [v4Loop6, gcur_eof, heof', hsepEq, hsep', hcu1, hc1, gc_isDigit, hdig', Bool.false_eq_true, if_false, Bool.not_false, if_true]
          rw [hS]; exact ⟨_, hG, _, rfl⟩

theorem digitRun_progress (rs : Str) (fuel p : Nat) (res : Option Nat × Nat)
    (hd : Spec.isDigitC (Spec.at6 rs p) = true) (h : Spec.digitRun rs (fuel + 1) none p = some res) : p + 1 ≤ res.2 := by
  simp only [Spec.digitRun, hd, if_true] at h
  exact digitRun_mono rs _ _ _ _ h

/-- with enough fuel the result of the IPv4-in-IPv6 loop does not depend on the fuel -/
theorem v4Run_fuel (rs : Str) : ∀ fuel fuel' a pi ns p, rs.length + 1 ≤ fuel + p → rs.length + 1 ≤ fuel' + p →
    Spec.v4Run rs fuel a pi ns p = Spec.v4Run rs fuel' a pi ns p := by
  intro fuel
  induction fuel with
  | zero =>
    intro fuel' a pi ns p h1 h2
    have hn := at6_none_of_ge rs p (by omega)
    cases fuel' with
    | zero => rfl
    | succ f' => simp [Spec.v4Run, hn]
  | succ f ih =>
    intro fuel' a pi ns p h1 h2
    cases fuel' with
    | zero =>
      have hn := at6_none_of_ge rs p (by omega)
      simp [Spec.v4Run, hn]
    | succ f' =>
      simp only [Spec.v4Run]
      have hp1 : p ≤ (if ns > 0 then p + 1 else p) := by split <;> omega
      generalize (if ns > 0 then p + 1 else p) = p1 at hp1 ⊢
      by_cases h1 : (Spec.at6 rs p).isNone = true
      · simp only [h1, if_true]
      · by_cases h2 : (decide (ns > 0) && !(Spec.at6 rs p == some '.' && decide (ns < 4))) = true
        · simp only [h1, h2, if_true, if_false]
        · by_cases h3 : (!Spec.isDigitC (Spec.at6 rs p1)) = true
          · simp only [h1, h2, h3, if_true, if_false]
          · have hdig' : Spec.isDigitC (Spec.at6 rs p1) = true := by simpa using h3
            simp only [h1, h2, h3, if_false]
            cases hdr : Spec.digitRun rs (rs.length + 1) none p1 with
            | none => rfl
            | some res =>
              obtain ⟨piece, p2⟩ := res
              have hp := digitRun_progress rs _ _ _ hdig' hdr
              simp only at hp ⊢
              exact ih _ _ _ _ _ (by omega) (by omega)

/-! ### the main loop -/

theorem sloop6_eof (rs : Str) (fuel : Nat) (s : Spec.P6) (h : Spec.at6 rs s.pointer = none) :
    Spec.loop6 rs fuel s = some s := by
  cases fuel with
  | zero => rfl
  | succ f => simp only [Spec.loop6, h]

theorem sloop6_fuel (rs : Str) : ∀ fuel fuel' s, rs.length + 1 ≤ fuel + s.pointer → rs.length + 1 ≤ fuel' + s.pointer →
    Spec.loop6 rs fuel s = Spec.loop6 rs fuel' s := by
  intro fuel
  induction fuel with
  | zero =>
    intro fuel' s h1 h2
    rw [sloop6_eof rs _ s (at6_none_of_ge rs _ (by omega)), sloop6_eof rs _ s (at6_none_of_ge rs _ (by omega))]
  | succ f ih =>
    intro fuel' s h1 h2
    cases fuel' with
    | zero =>
      rw [sloop6_eof rs _ s (at6_none_of_ge rs _ (by omega)), sloop6_eof rs _ s (at6_none_of_ge rs _ (by omega))]
    | succ f' =>
      cases hat : Spec.at6 rs s.pointer with
      | none => rw [sloop6_eof rs _ s hat, sloop6_eof rs _ s hat]
      | some c =>
        have hinv := hexRun_inv rs 5 0 0 s.pointer (by omega) (by omega)
        simp only [Spec.loop6, hat]
        generalize Spec.hexRun rs 5 0 0 s.pointer = h at hinv ⊢
        by_cases c1 : (s.pieceIndex == 8) = true
        · simp only [c1, if_true]
        · by_cases c2 : (c == ':') = true
          · by_cases c3 : s.compress.isSome = true
            · simp only [c1, c2, c3, Bool.false_eq_true, if_true, if_false]
            · simp only [c1, c2, c3, Bool.false_eq_true, if_true, if_false]
              exact ih _ _ (by simp only; omega) (by simp only; omega)
          · by_cases c4 : (Spec.at6 rs h.2.2 == some '.') = true
            · simp only [c1, c2, c4, Bool.false_eq_true, if_true, if_false]
            · by_cases c5 : (Spec.at6 rs h.2.2 == some ':') = true
              · by_cases c6 : (Spec.at6 rs (h.2.2 + 1)).isNone = true
                · simp only [c1, c2, c4, c5, c6, Bool.false_eq_true, if_true, if_false]
                · simp only [c1, c2, c4, c5, c6, Bool.false_eq_true, if_true, if_false]
                  exact ih _ _ (by simp only; omega) (by simp only; omega)
              · by_cases c7 : (Spec.at6 rs h.2.2).isSome = true
                · simp only [c1, c2, c4, c5, c7, Bool.false_eq_true, if_true, if_false]
                · simp only [c1, c2, c4, c5, c7, Bool.false_eq_true, if_false]
                  have hn : Spec.at6 rs h.2.2 = none := by
                    cases hh : Spec.at6 rs h.2.2 with
                    | none => rfl
                    | some x => rw [hh] at c7; exact absurd rfl c7
                  rw [sloop6_eof rs _ _ hn, sloop6_eof rs _ _ hn]

def toS6 (rs : Str) (s : Spec.P6) (u : Url) : S6 :=
  ⟨gcur rs s.pointer, gc rs s.pointer, s.address, s.pieceIndex, encP s.compress, u⟩

def MInv (s : Spec.P6) : Prop :=
  s.address.length = 8 ∧ s.pieceIndex ≤ 8 ∧ (∀ j, s.pieceIndex ≤ j → s.address[j]! = 0) ∧
  (∀ c, s.compress = some c → 1 ≤ c ∧ c ≤ s.pieceIndex)

theorem next6_rewind (rs : Str) (p p' len : Nat) (c : Char) (hp : p' = p + len) (hat : Spec.at6 rs p = some c) :
    next6 rs ⟨(p' : Int) - ((len + 1 : Nat) : Int), false⟩ = (gcur rs p, gc rs p) := by
  have e : (p' : Int) - ((len + 1 : Nat) : Int) + 1 = (p : Int) := by omega
  have h1 : cur6 rs (p : Int) = some c := by
    unfold cur6
    rw [if_pos (by omega)]; exact hat
  unfold Spec.at6 at hat
  simp only [next6, gcur, gc, hat, e, h1]
  rfl

theorem encP_nonneg (o : Option Nat) : (encP o ≥ 0) ↔ o.isSome = true := by
  cases o with
  | none => simp [encP]
  | some v => simp [encP]

theorem loop6_step (cfg : Cfg) (rs : Str) (f : Nat) (g : S6) :
    Impl.loop6 cfg rs (f + 1) g = if g.cur.eof then .inl g else
      match iter6 cfg rs g with
      | .cont s' => Impl.loop6 cfg rs f s'
      | .brk s' => .inl s'
      | .done r => .inr r := rfl

theorem loop6_eq (cfg : Cfg) (rs : Str) (u : Url) : ∀ fuel s, MInv s →
    match Spec.loop6 rs fuel s with
    | none => ∃ r, Impl.loop6 cfg rs fuel (toS6 rs s u) = .inr r ∧ IsErr r
    | some s' => ∃ g, Impl.loop6 cfg rs fuel (toS6 rs s u) = .inl g ∧ g.address = s'.address ∧
        g.pieceIdx = s'.pieceIndex ∧ g.compress = encP s'.compress ∧ MInv s' := by
  intro fuel
  induction fuel with
  | zero => intro s hinv; exact ⟨_, rfl, rfl, rfl, rfl, hinv⟩
  | succ f ih =>
    intro s hinv
    cases hat : Spec.at6 rs s.pointer with
    | none =>
      rw [sloop6_eof rs _ s hat]
      have : (toS6 rs s u).cur.eof = true := by simp only [toS6, gcur_eof, hat]; rfl
      rw [loop6_step, if_pos this]
      exact ⟨_, rfl, rfl, rfl, rfl, hinv⟩
    | some c =>
      have heof : (toS6 rs s u).cur.eof = false := by simp only [toS6, gcur_eof, hat]; rfl
      have hgc : gc rs s.pointer = c := by unfold Spec.at6 at hat; simp only [gc, hat]; rfl
      rw [loop6_step, heof]
      simp only [Bool.false_eq_true, if_false]
      obtain ⟨hlen, hpi8, hzero, hcomp⟩ := hinv
      by_cases c1 : (s.pieceIndex == 8) = true
      · have hS : Spec.loop6 rs (f + 1) s = none := by simp only [Spec.loop6, hat, c1, if_true]
        have hI : iter6 cfg rs (toS6 rs s u) = .done (fail6 cfg u .IPv6TooManyPieces) := by
          simp only [iter6, toS6, c1, if_true]
        rw [hS, hI]; exact ⟨_, rfl, _, rfl⟩
      · have c1' : (s.pieceIndex == 8) = false := Bool.eq_false_iff.mpr c1
        have hpi : s.pieceIndex < 8 := by
          have : s.pieceIndex ≠ 8 := by simpa using c1
          omega
        by_cases c2 : (c == ':') = true
        · by_cases c3 : s.compress.isSome = true
          · have hS : Spec.loop6 rs (f + 1) s = none := by
              simp only [Spec.loop6, hat, c1', c2, c3, Bool.false_eq_true, if_true, if_false]
            have hI : iter6 cfg rs (toS6 rs s u) = .done (fail6 cfg u .IPv6MultipleCompression) := by
              have : encP s.compress ≥ 0 := (encP_nonneg _).2 c3
              simp only [iter6, toS6, c1', hgc, c2, this, Bool.false_eq_true, if_true, if_false]
            rw [hS, hI]; exact ⟨_, rfl, _, rfl⟩
          · have hS : Spec.loop6 rs (f + 1) s = Spec.loop6 rs f
                { s with pointer := s.pointer + 1, pieceIndex := s.pieceIndex + 1, compress := some (s.pieceIndex + 1) } := by
              simp only [Spec.loop6, hat, c1', c2, c3, Bool.false_eq_true, if_true, if_false]
            have hI : iter6 cfg rs (toS6 rs s u) = .cont (toS6 rs
                { s with pointer := s.pointer + 1, pieceIndex := s.pieceIndex + 1, compress := some (s.pieceIndex + 1) } u) := by
              have : ¬ (encP s.compress ≥ 0) := fun h => c3 ((encP_nonneg _).1 h)
              simp only [iter6, toS6, c1', hgc, c2, this, next6_g, Bool.false_eq_true, if_true, if_false]
              rfl
            rw [hS, hI]
            exact ih _ ⟨hlen, by simp only; omega, fun j hj => hzero j (by simp only at hj; omega),
              fun c hc => by simp only at hc; cases hc; simp only; omega⟩
        · have c2' : (c == ':') = false := Bool.eq_false_iff.mpr c2
          have hinvH := hexRun_inv rs 5 0 0 s.pointer (by omega) (by omega)
          have hH := hexLoop6_eq rs 5 s.pointer 0 0
          rw [hgc] at hH
          generalize hrun : Spec.hexRun rs 5 0 0 s.pointer = h at hinvH hH
          obtain ⟨hp', _, hl4, hv⟩ := hinvH
          have hv' : h.1 < 0x10000 := by
            have : (16 : Nat) ^ h.2.1 ≤ 16 ^ 4 := Nat.pow_le_pow_right (by omega) hl4
            omega
          have hset : setPiece s.address s.pieceIndex (h.1 % 0x10000) = some (s.address.set s.pieceIndex h.1) := by
            simp only [setPiece, hlen, hpi, if_true, Nat.mod_eq_of_lt hv']
          have hnext : ∀ q, MInv { s with address := s.address.set s.pieceIndex h.1, pieceIndex := s.pieceIndex + 1, pointer := q } := by
            intro q
            refine ⟨by simp [hlen], by simp only; omega, fun j hj => ?_, fun c hc => ?_⟩
            · simp only at hj ⊢
              rw [getElem!_set_ne _ _ _ _ (by omega)]; exact hzero j (by omega)
            · simp only at hc ⊢
              have := hcomp c hc; omega
          by_cases c4 : (Spec.at6 rs h.2.2 == some '.') = true
          · by_cases c5 : (h.2.1 == 0) = true
            · have hS : Spec.loop6 rs (f + 1) s = none := by
                simp only [Spec.loop6, hat, c1', c2', hrun, c4, c5, Bool.false_eq_true, if_true, if_false]
              have hI : iter6 cfg rs (toS6 rs s u) = .done (fail6 cfg u .IPv4InIPv6InvalidCodePoint) := by
                simp only [iter6, toS6, c1', hgc, c2', hH, gc_dot, c4, c5, Bool.false_eq_true, if_true, if_false]
              rw [hS, hI]; exact ⟨_, rfl, _, rfl⟩
            · have c5' : (h.2.1 == 0) = false := Bool.eq_false_iff.mpr c5
              by_cases c6 : s.pieceIndex > 6
              · have hS : Spec.loop6 rs (f + 1) s = none := by
                  simp only [Spec.loop6, hat, c1', c2', hrun, c4, c5', c6, Bool.false_eq_true, if_true, if_false]
                have hI : iter6 cfg rs (toS6 rs s u) = .done (fail6 cfg u .IPv4InIPv6TooManyPieces) := by
                  simp only [iter6, toS6, c1', hgc, c2', hH, gc_dot, c4, c5', c6, Bool.false_eq_true, if_true, if_false]
                rw [hS, hI]; exact ⟨_, rfl, _, rfl⟩
              · have hback : h.2.2 - h.2.1 = s.pointer := by omega
                have hrew := next6_rewind rs s.pointer h.2.2 h.2.1 c (by omega) hat
                rw [hgc] at hrew
                have hvinv : V4Inv s.address s.pieceIndex 0 :=
                  ⟨hlen, by omega, by simp only [Nat.lt_irrefl, Nat.zero_lt_succ, if_true]; omega,
                    fun _ => hzero, fun h' => by omega⟩
                have hV := v4Loop6_eq cfg rs (rs.length + 2) s.pointer s.address s.pieceIndex 0 u hvinv
                rw [hgc] at hV
                have hfuel := v4Run_fuel rs (rs.length + 1) (rs.length + 2) s.address s.pieceIndex 0 s.pointer (by omega) (by omega)
                cases hvr : Spec.v4Run rs (rs.length + 2) s.address s.pieceIndex 0 s.pointer with
                | none =>
                  rw [hvr] at hV
                  obtain ⟨r, hr, hre⟩ := hV
                  have hS : Spec.loop6 rs (f + 1) s = none := by
                    simp only [Spec.loop6, hat, c1', c2', hrun, c4, c5', c6, hback, hfuel, hvr, Bool.false_eq_true, if_true, if_false]
                  have hI : iter6 cfg rs (toS6 rs s u) = .done r := by
                    simp only [iter6, toS6, c1', hgc, c2', hH, gc_dot, c4, c5', c6, gcur_pointer, hrew, hr, Bool.false_eq_true, if_true, if_false]
                  rw [hS, hI]; exact ⟨_, rfl, hre⟩
                | some res =>
                  obtain ⟨a, pi, ns, p''⟩ := res
                  rw [hvr] at hV
                  simp only at hV
                  obtain ⟨hVeq, hVinv, hVmono⟩ := hV
                  by_cases c8 : (ns != 4) = true
                  · have hS : Spec.loop6 rs (f + 1) s = none := by
                      simp only [Spec.loop6, hat, c1', c2', hrun, c4, c5', c6, hback, hfuel, hvr, c8, Bool.false_eq_true, if_true, if_false]
                    have hI : iter6 cfg rs (toS6 rs s u) = .done (fail6 cfg u .IPv4InIPv6TooFewParts) := by
                      simp only [iter6, toS6, c1', hgc, c2', hH, gc_dot, c4, c5', c6, gcur_pointer, hrew, hVeq, c8, Bool.false_eq_true, if_true, if_false]
                    rw [hS, hI]; exact ⟨_, rfl, _, rfl⟩
                  · have c8' : (ns != 4) = false := Bool.eq_false_iff.mpr c8
                    have hns : ns = 4 := by simpa using c8'
                    have hS : Spec.loop6 rs (f + 1) s = some { s with address := a, pieceIndex := pi, pointer := p'' } := by
                      simp only [Spec.loop6, hat, c1', c2', hrun, c4, c5', c6, hback, hfuel, hvr, c8', Bool.false_eq_true, if_true, if_false]
                    have hI : iter6 cfg rs (toS6 rs s u) = .brk { toS6 rs s u with address := a, pieceIdx := pi, url := u } := by
                      simp only [iter6, toS6, c1', hgc, c2', hH, gc_dot, c4, c5', c6, gcur_pointer, hrew, hVeq, c8', Bool.false_eq_true, if_true, if_false]
                    rw [hS, hI]
                    subst hns
                    obtain ⟨hl', _, hroom, hz', _⟩ := hVinv
                    refine ⟨_, rfl, rfl, rfl, rfl, hl', ?_, hz' (by omega), fun c hc => ?_⟩
                    · simp only at hroom ⊢; omega
                    · have := hcomp c hc; simp only at hVmono ⊢; omega
          · have c4' : (Spec.at6 rs h.2.2 == some '.') = false := Bool.eq_false_iff.mpr c4
            by_cases c5 : (Spec.at6 rs h.2.2 == some ':') = true
            · by_cases c6 : (Spec.at6 rs (h.2.2 + 1)).isNone = true
              · have hS : Spec.loop6 rs (f + 1) s = none := by
                  simp only [Spec.loop6, hat, c1', c2', hrun, c4', c5, c6, Bool.false_eq_true, if_true, if_false]
                have hI : iter6 cfg rs (toS6 rs s u) = .done (fail6 cfg u .IPv6InvalidCodePoint) := by
                  simp only [iter6, toS6, c1', hgc, c2', hH, gc_dot, gc_colon, c4', c5, next6_g, gcur_eof, c6, Bool.false_eq_true, if_true, if_false]
                rw [hS, hI]; exact ⟨_, rfl, _, rfl⟩
              · have c6' : (Spec.at6 rs (h.2.2 + 1)).isNone = false := Bool.eq_false_iff.mpr c6
                have hS : Spec.loop6 rs (f + 1) s = Spec.loop6 rs f
                    { s with address := s.address.set s.pieceIndex h.1, pieceIndex := s.pieceIndex + 1, pointer := h.2.2 + 1 } := by
                  simp only [Spec.loop6, hat, c1', c2', hrun, c4', c5, c6', Bool.false_eq_true, if_true, if_false]
                have hI : iter6 cfg rs (toS6 rs s u) = .cont (toS6 rs
                    { s with address := s.address.set s.pieceIndex h.1, pieceIndex := s.pieceIndex + 1, pointer := h.2.2 + 1 } u) := by
                  simp only [iter6, toS6, c1', hgc, c2', hH, gc_dot, gc_colon, c4', c5, next6_g, gcur_eof, c6', hset, Bool.false_eq_true, if_true, if_false]
                rw [hS, hI]
                exact ih _ (hnext _)
            · have c5' : (Spec.at6 rs h.2.2 == some ':') = false := Bool.eq_false_iff.mpr c5
              by_cases c7 : (Spec.at6 rs h.2.2).isSome = true
              · have hS : Spec.loop6 rs (f + 1) s = none := by
                  simp only [Spec.loop6, hat, c1', c2', hrun, c4', c5', c7, Bool.false_eq_true, if_true, if_false]
                have hI : iter6 cfg rs (toS6 rs s u) = .done (fail6 cfg u .IPv6InvalidCodePoint) := by
                  have : (Spec.at6 rs h.2.2).isNone = false := by
                    cases hh : Spec.at6 rs h.2.2 with
                    | none => rw [hh] at c7; cases c7
                    | some x => rfl
                  simp only [iter6, toS6, c1', hgc, c2', hH, gc_dot, gc_colon, c4', c5', gcur_eof, this, Bool.not_false, Bool.false_eq_true, if_true, if_false]
                rw [hS, hI]; exact ⟨_, rfl, _, rfl⟩
              · have c7' : (Spec.at6 rs h.2.2).isSome = false := Bool.eq_false_iff.mpr c7
                have hS : Spec.loop6 rs (f + 1) s = Spec.loop6 rs f
                    { s with address := s.address.set s.pieceIndex h.1, pieceIndex := s.pieceIndex + 1, pointer := h.2.2 } := by
                  simp only [Spec.loop6, hat, c1', c2', hrun, c4', c5', c7', Bool.false_eq_true, if_true, if_false]
                have hI : iter6 cfg rs (toS6 rs s u) = .cont (toS6 rs
                    { s with address := s.address.set s.pieceIndex h.1, pieceIndex := s.pieceIndex + 1, pointer := h.2.2 } u) := by
                  have : (Spec.at6 rs h.2.2).isNone = true := by
                    cases hh : Spec.at6 rs h.2.2 with
                    | none => rfl
                    | some x => rw [hh] at c7; exact absurd rfl c7
                  simp only [iter6, toS6, c1', hgc, c2', hH, gc_dot, gc_colon, c4', c5', gcur_eof, this, hset, Bool.not_true, Bool.false_eq_true, if_true, if_false]
                rw [hS, hI]
                exact ih _ (hnext _)


/-! ### the swap loop and the whole parser -/

theorem swap6_eq : ∀ fuel (a : List Nat) (pi c swaps : Nat), a.length = 8 → pi < 8 → c + swaps ≤ 8 →
    swap6 fuel a pi (c : Int) swaps = some (Spec.swapRun fuel a pi c swaps) := by
  intro fuel
  induction fuel with
  | zero => intro a pi c swaps _ _ _; rfl
  | succ f ih =>
    intro a pi c swaps hl hpi hc
    by_cases h : (pi != 0 && decide (swaps > 0)) = true
    · have hs : swaps > 0 := by simp at h; exact h.2
      have hj : ((c : Int) + (swaps : Int) - 1).toNat = c + swaps - 1 := by omega
      have hb : (decide (pi < a.length) && decide (c + swaps - 1 < a.length)) = true := by
        simp [hl]; omega
      simp only [swap6, Spec.swapRun, h, hj, hb, if_true]
      exact ih _ _ _ _ (by simp [hl]) (by omega) (by omega)
    · simp only [swap6, Spec.swapRun, h, Bool.false_eq_true, if_false]


/-- what the Go parser does after its main loop, on a final state that agrees with the standard's -/
theorem finish_eq (g : S6) (s' : Spec.P6) (h1 : g.address = s'.address) (h2 : g.pieceIdx = s'.pieceIndex)
    (h3 : g.compress = encP s'.compress) (hinv : MInv s') :
    match (if g.compress ≥ 0 then
        match swap6 8 g.address 7 g.compress (g.pieceIdx - g.compress.toNat) with
        | none => (⟨g.url, .panic 4⟩ : HR)
        | some a => ⟨g.url, .ok ([0x5b] ++ ipv6String a ++ [0x5d])⟩
      else if g.pieceIdx != 8 then fail6 cfg g.url .IPv6TooFewPieces
      else ⟨g.url, .ok ([0x5b] ++ ipv6String g.address ++ [0x5d])⟩).out,
      (match s'.compress with
        | some c => some (Spec.swapRun 8 s'.address 7 c (s'.pieceIndex - c))
        | none => if s'.pieceIndex != 8 then none else some s'.address) with
    | .ok h, some a => h = [0x5b] ++ ipv6String a ++ [0x5d]
    | .err _, none => True
    | _, _ => False := by
  obtain ⟨hl, hp8, _, hc⟩ := hinv
  rw [h1, h2, h3]
  cases hco : s'.compress with
  | none =>
    have : ¬ (encP none ≥ 0) := by simp [encP]
    simp only [this, if_false]
    by_cases h8 : (s'.pieceIndex != 8) = true
    · simp only [h8, if_true, fail6]
    · simp only [h8, Bool.false_eq_true, if_false]
  | some c =>
    obtain ⟨hc1, hc2⟩ := hc c hco
    have : encP (some c) ≥ 0 := by simp [encP]
    have ht : (encP (some c)).toNat = c := by simp [encP]
    simp only [this, if_true, ht]
    rw [show encP (some c) = (c : Int) from rfl, swap6_eq 8 s'.address 7 c (s'.pieceIndex - c) hl (by omega) (by omega)]


theorem after_start (cfg : Cfg) (rs : Str) (u : Url) (s0 : Spec.P6) (hinv : MInv s0) :
    match (match Impl.loop6 cfg rs (rs.length + 2) (toS6 rs s0 u) with
      | .inr r => r
      | .inl s =>
        if s.compress ≥ 0 then
          match swap6 8 s.address 7 s.compress (s.pieceIdx - s.compress.toNat) with
          | none => (⟨s.url, .panic 4⟩ : HR)
          | some a => ⟨s.url, .ok ([0x5b] ++ ipv6String a ++ [0x5d])⟩
        else if s.pieceIdx != 8 then fail6 cfg s.url .IPv6TooFewPieces
        else ⟨s.url, .ok ([0x5b] ++ ipv6String s.address ++ [0x5d])⟩).out,
      (match Spec.loop6 rs (rs.length + 1) s0 with
        | none => none
        | some s =>
          match s.compress with
          | some c => some (Spec.swapRun 8 s.address 7 c (s.pieceIndex - c))
          | none => if s.pieceIndex != 8 then none else some s.address) with
    | .ok h, some a => h = [0x5b] ++ ipv6String a ++ [0x5d]
    | .err _, none => True
    | _, _ => False := by
  rw [sloop6_fuel rs (rs.length + 1) (rs.length + 2) s0 (by omega) (by omega)]
  have hL := loop6_eq cfg rs u (rs.length + 2) s0 hinv
  cases hs : Spec.loop6 rs (rs.length + 2) s0 with
  | none =>
    rw [hs] at hL
    obtain ⟨r, hr, e, he⟩ := hL
    rw [hr]
    simp only [he]
  | some s' =>
    rw [hs] at hL
    obtain ⟨g, hg, h1, h2, h3, hinv'⟩ := hL
    rw [hg]
    exact finish_eq g s' h1 h2 h3 hinv'

theorem zeros_get (n j : Nat) : (List.replicate n (0 : Nat))[j]! = 0 := by
  by_cases h : j < n <;> simp [h]

theorem parse_conforms (cfg : Cfg) (u : Url) (t : Bytes) :
    match (Impl.parseIPv6 cfg u t).out, Spec.parseIPv6 (goRunes t) with
    | .ok h, some a => h = [0x5b] ++ ipv6String a ++ [0x5d]
    | .err _, none => True
    | _, _ => False := by
  simp only [Impl.parseIPv6, Spec.parseIPv6, next6_start]
  generalize goRunes t = rs
  rw [gc_colon]
  by_cases hc : (Spec.at6 rs 0 == some ':') = true
  · have heof : (gcur rs 0).eof = false := by
      rw [gcur_eof]
      cases h0 : Spec.at6 rs 0 with
      | none => rw [h0] at hc; cases hc
      | some c => rfl
    have hsw : startsWithColon6 rs (gcur rs 0) = (Spec.at6 rs 1 == some ':') := by
      simp only [startsWithColon6, heof, Bool.not_false, Bool.true_and, gcur_pointer]
      congr 1
    by_cases h1 : (Spec.at6 rs 1 != some ':') = true
    · have : (!startsWithColon6 rs (gcur rs 0)) = true := by rw [hsw]; exact h1
      simp only [hc, h1, this, if_true, fail6]
    · have h1' : (Spec.at6 rs 1 != some ':') = false := Bool.eq_false_iff.mpr h1
      have : (!startsWithColon6 rs (gcur rs 0)) = false := by rw [hsw]; exact h1'
      simp only [hc, h1', this, if_true, Bool.false_eq_true, if_false, next6_g]
      have hinv : MInv { pointer := 2, pieceIndex := 1, compress := some 1 } := by
        exact ⟨by decide, by decide, fun j _ => zeros_get 8 j, fun c hc => by cases hc; decide⟩
      exact after_start cfg rs u { pointer := 2, pieceIndex := 1, compress := some 1 } hinv
  · have hc' : (Spec.at6 rs 0 == some ':') = false := Bool.eq_false_iff.mpr hc
    simp only [hc', Bool.false_eq_true, if_false]
    have hinv : MInv {} := by
      exact ⟨by decide, by decide, fun j _ => zeros_get 8 j, fun c hc => by cases hc⟩
    exact after_start cfg rs u {} hinv


end WhatwgUrl.Proofs.IPv6
