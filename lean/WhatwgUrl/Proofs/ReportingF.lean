import WhatwgUrl.Proofs.ReportingBase
/-
  C15, part 3: fail mode is sound.  `c1` has `failOnVErr = true`, `c2` is the same configuration with any value of
  `failOnVErr` (and the same `report`).  Lock-step: under `c1` every `handleError` call returns the error, so a run
  under `c1` either returns an error or passes through no error site at all, and then the run under `c2` is identical.
-/
namespace WhatwgUrl.Proofs.Reporting
set_option linter.unusedSimpArgs false
set_option linter.unusedVariables false
set_option linter.unusedSectionVars false
open WhatwgUrl WhatwgUrl.Impl

structure FH (c1 c2 : Cfg) : Prop where
  rel : CfgRel c1 c2
  fo : c1.failOnVErr = true
  rep : c1.report = c2.report

/-- host level: the fail-mode run returned an error, or both runs agree -/
def HRelF (hr1 hr2 : HR) : Prop := (∃ e, hr1.out = .err e) ∨ hr1 = hr2

def isErrS (r : StepR) : Prop := ∃ x e w, r = .done x ∧ x.ret = .err e w
/-- parser level -/
def RelF (r1 r2 : StepR) : Prop := isErrS r1 ∨ r1 = r2

section
variable {c1 c2 : Cfg} (F : FH c1 c2)
include F

theorem FH.stops (f : Bool) : stops c1 f = true := by simp [Impl.stops, F.fo]
theorem FH.rcd : record c1 = record c2 := by
  funext u t f; simp [record, F.rep]

/-! ### host level -/

theorem hErr_F (u : Url) (t : ErrT) (f : Bool) (k1 k2 : Url → HR) : HRelF (hErr c1 u t f k1) (hErr c2 u t f k2) := by
  unfold hErr
  rw [F.stops]
  exact Or.inl ⟨_, rfl⟩

theorem fail6_F : fail6 c1 = fail6 c2 := by
  funext u t; simp [fail6, F.rcd]

theorem parseIPv4Number_F : parseIPv4Number c1 = parseIPv4Number c2 := by
  funext u i; simp only [parseIPv4Number, F.rcd]

theorem endsInANumber_F : endsInANumber c1 = endsInANumber c2 := by
  funext u i; simp only [endsInANumber, parseIPv4Number_F F]

theorem parseIPv4Parts_F (parts : List Bytes) : ∀ (u : Url) (acc : List Nat),
    (∃ e, (parseIPv4Parts c1 u parts acc).err = some e) ∨ parseIPv4Parts c1 u parts acc = parseIPv4Parts c2 u parts acc := by
  induction parts with
  | nil => intro u acc; exact Or.inr rfl
  | cons p rest ih =>
    intro u acc
    unfold parseIPv4Parts
    simp only [parseIPv4Number_F F, F.rcd, F.stops]
    generalize parseIPv4Number c2 u p = r
    cases hv : r.ve <;> repeat' split
    all_goals simp_all
    all_goals exact ih _ _

theorem ipv4RangeWarn_F (ns : List Nat) : ∀ (u : Url),
    (ipv4RangeWarn c1 u ns).2 = true ∨ ipv4RangeWarn c1 u ns = ipv4RangeWarn c2 u ns := by
  induction ns with
  | nil => intro u; exact Or.inr rfl
  | cons n rest ih =>
    intro u
    unfold ipv4RangeWarn
    simp only [F.rcd, F.stops]
    repeat' split
    all_goals simp_all
    all_goals exact ih _

omit F in
theorem R_ite {α : Type} (R : α → α → Prop) (p : Prop) [Decidable p] (a1 b1 a2 b2 : α)
    (ha : p → R a1 a2) (hb : ¬ p → R b1 b2) : R (if p then a1 else b1) (if p then a2 else b2) := by
  split
  · exact ha ‹_›
  · exact hb ‹_›

theorem ipv4AfterCount_F (parts : List Bytes) (u : Url) :
    HRelF (ipv4AfterCount c1 parts u) (ipv4AfterCount c2 parts u) := by
  unfold ipv4AfterCount
  dsimp only
  rcases parseIPv4Parts_F F parts u [] with ⟨e, he⟩ | heq
  · rw [he]; exact Or.inl ⟨_, rfl⟩
  · rw [heq]
    generalize parseIPv4Parts c2 u parts [] = pr
    cases hpe : pr.err with
    | some e => exact Or.inr rfl
    | none =>
      dsimp only
      rcases ipv4RangeWarn_F F pr.nums pr.url with hw | heq
      · rw [if_pos hw]; exact Or.inl ⟨_, rfl⟩
      · rw [heq, F.rcd]; exact Or.inr rfl

theorem parseIPv4_F (u : Url) (i : Bytes) : HRelF (parseIPv4 c1 u i) (parseIPv4 c2 u i) := by
  rw [parseIPv4_eq, parseIPv4_eq]
  dsimp only
  repeat' first
    | apply hErr_F F
    | apply ipv4AfterCount_F F
    | (apply R_ite <;> intro _)

/-! #### IPv6: no `handleError` whose result is inspected — the functions are equal -/

theorem digitLoop6_F (rs : Str) (fuel : Nat) : ∀ (cu : C6) (ch : Char) (p : Int) (u : Url),
    digitLoop6 c1 rs fuel cu ch p u = digitLoop6 c2 rs fuel cu ch p u := by
  induction fuel with
  | zero => intro cu ch p u; rfl
  | succ n ih => intro cu ch p u; simp only [digitLoop6, F.rcd, ih]

theorem v4Loop6_F (rs : Str) (fuel : Nat) : ∀ (cu : C6) (ch : Char) (a : List Nat) (pi ns : Nat) (u : Url),
    v4Loop6 c1 rs fuel cu ch a pi ns u = v4Loop6 c2 rs fuel cu ch a pi ns u := by
  induction fuel with
  | zero => intro cu ch a pi ns u; rfl
  | succ n ih => intro cu ch a pi ns u; simp only [v4Loop6, fail6_F F, digitLoop6_F F, ih]

theorem iter6_F (rs : Str) (s : S6) : iter6 c1 rs s = iter6 c2 rs s := by
  simp only [iter6, fail6_F F, v4Loop6_F F]

theorem loop6_F (rs : Str) (fuel : Nat) : ∀ s : S6, loop6 c1 rs fuel s = loop6 c2 rs fuel s := by
  induction fuel with
  | zero => intro s; rfl
  | succ n ih => intro s; simp only [loop6, iter6_F F, ih]

theorem parseIPv6_F : parseIPv6 c1 = parseIPv6 c2 := by
  funext u i; simp only [parseIPv6, fail6_F F, loop6_F F]

/-! #### opaque host, domain -/

theorem opaqueLoop_F (i : Bytes) (rs : Str) : ∀ (u : Url) (out : Bytes),
    HRelF (opaqueLoop c1 i rs u out) (opaqueLoop c2 i rs u out) := by
  induction rs with
  | nil => intro u out; exact Or.inr rfl
  | cons ch rest ih =>
    intro u out
    unfold opaqueLoop
    simp only [F.rcd, F.stops, F.rel.laxHost, F.rel.percentEncodeRune]
    by_cases hf : forbiddenHost ch.toNat = true
    · simp only [if_pos hf]; exact Or.inr rfl
    · simp only [if_neg hf]
      by_cases h1 : (!isUrlCp ch.toNat && ch != '%') = true
      · simp only [h1, Bool.true_and, if_true]; exact Or.inl ⟨_, rfl⟩
      · have h1' : (!isUrlCp ch.toNat && ch != '%') = false := by simpa using h1
        simp only [h1', Bool.false_and, Bool.false_eq_true, if_false]
        by_cases h2 : (ch == '%' && invalidPct (ch :: rest)) = true
        · simp only [h2, Bool.true_and, if_true]; exact Or.inl ⟨_, rfl⟩
        · have h2' : (ch == '%' && invalidPct (ch :: rest)) = false := by simpa using h2
          simp only [h2', Bool.false_and, Bool.false_eq_true, if_false]
          exact ih _ _

theorem toASCII_F : toASCII c1 = toASCII c2 := by
  funext I u s; simp only [toASCII, F.rel.laxHost, F.rel.encOverride]

theorem forbiddenLoop_F (a : Bytes) (rs : Str) : ∀ u : Url, forbiddenLoop c1 a rs u = forbiddenLoop c2 a rs u := by
  induction rs with
  | nil => intro u; rfl
  | cons ch rest ih => intro u; simp only [forbiddenLoop, F.rcd, F.rel.laxHost, F.rel.percentEncodeString, ih]

theorem parseHost_F (I : Idna) (u : Url) (i : Bytes) (ns : Bool) :
    HRelF (parseHost c1 I u i ns) (parseHost c2 I u i ns) := by
  unfold parseHost
  simp only [F.rel.preHost, F.rel.postHost, F.rel.laxHost, F.rel.decodePercent, fail6_F F, parseIPv6_F F, toASCII_F F,
    forbiddenLoop_F F, endsInANumber_F F]
  repeat' split
  all_goals first
    | exact Or.inr rfl
    | exact opaqueLoop_F F _ _ _ _
    | exact parseIPv4_F F _ _
    | (exfalso; simp_all; done)

/-! ### parser level -/

theorem RelF_herr (I1 I2 : Idna) (s1 s2 : Bytes) (r1 r2 : Str) (b1 b2 : Option Url) (o1 o2 : Option State)
    (ps1 ps2 : PS) (t1 t2 : ErrT) (f1 f2 : Bool) (k1 k2 : PS → StepR) :
    RelF (herr ⟨c1, I1, s1, r1, b1, o1⟩ ps1 t1 f1 k1) (herr ⟨c2, I2, s2, r2, b2, o2⟩ ps2 t2 f2 k2) := by
  unfold herr
  dsimp only
  rw [F.stops, if_pos rfl]
  exact Or.inl ⟨_, _, _, rfl, rfl⟩

omit F in
theorem RelF_afterHost (hr1 hr2 : HR) (ps : PS) (k1 k2 : PS → Bytes → StepR) (hhr : HRelF hr1 hr2)
    (hk : ∀ u h, RelF (k1 { ps with url := u } h) (k2 { ps with url := u } h)) :
    RelF (afterHost hr1 ps k1) (afterHost hr2 ps k2) := by
  rcases hhr with ⟨e, he⟩ | rfl
  · unfold afterHost
    rw [he]
    exact Or.inl ⟨_, _, _, rfl, rfl⟩
  · unfold afterHost
    rcases hr1 with ⟨u, o⟩
    cases o with
    | ok h => exact hk u h
    | err e => exact Or.inr rfl
    | panic n => exact Or.inr rfl

end

macro "f_norm" F:term : tactic => `(tactic| try simp +instances only [isSp, spBackslash, unitChecks, segPath, currentIsInvalid, currentAsByte,
  (FH.rel $F).isSpecial, (FH.rel $F).cleanDefaultPort, (FH.rel $F).credLoop, (FH.rel $F).percentEncodeRune,
  (FH.rel $F).percentEncodeInvalidRune, (FH.rel $F).acceptInvalid, (FH.rel $F).skipTrailingSlash, (FH.rel $F).skipDrive,
  (FH.rel $F).collapse, (FH.rel $F).pathSet, (FH.rel $F).spQuerySet, (FH.rel $F).querySet, (FH.rel $F).spFragSet,
  (FH.rel $F).fragSet, FH.rcd $F])

macro "f_step" F:term : tactic => `(tactic| first
  | exact Or.inr (by with_reducible rfl)
  | apply RelF_herr $F
  | (apply RelF_afterHost _ _ _ _ _ (parseHost_F $F _ _ _ _); intro _ _)
  | (apply R_ite <;> intro _)
  | (refine Or.inr (congrArg StepR.cont ?_); rfl)
  | (refine Or.inr (congrArg StepR.done ?_); rfl)
  | dsimp only
  | split)

section
variable {c1 c2 : Cfg} (F : FH c1 c2) (I : Idna) (src : Bytes) (rs : Str) (base : Option Url) (ov : Option State)
include F

theorem stSchemeStart_F (ps : PS) (r : Char) :
    RelF (stSchemeStart ⟨c1, I, src, rs, base, ov⟩ ps r) (stSchemeStart ⟨c2, I, src, rs, base, ov⟩ ps r) := by
  unfold stSchemeStart
  f_norm F
  repeat' f_step F

theorem stScheme_F (ps : PS) (r : Char) :
    RelF (stScheme ⟨c1, I, src, rs, base, ov⟩ ps r) (stScheme ⟨c2, I, src, rs, base, ov⟩ ps r) := by
  unfold stScheme
  f_norm F
  repeat' f_step F

theorem stNoScheme_F (ps : PS) (r : Char) :
    RelF (stNoScheme ⟨c1, I, src, rs, base, ov⟩ ps r) (stNoScheme ⟨c2, I, src, rs, base, ov⟩ ps r) := by
  unfold stNoScheme
  f_norm F
  repeat' f_step F

theorem stSpecialRelativeOrAuthority_F (ps : PS) (r : Char) :
    RelF (stSpecialRelativeOrAuthority ⟨c1, I, src, rs, base, ov⟩ ps r) (stSpecialRelativeOrAuthority ⟨c2, I, src, rs, base, ov⟩ ps r) := by
  unfold stSpecialRelativeOrAuthority
  f_norm F
  repeat' f_step F

theorem stPathOrAuthority_F (ps : PS) (r : Char) :
    RelF (stPathOrAuthority ⟨c1, I, src, rs, base, ov⟩ ps r) (stPathOrAuthority ⟨c2, I, src, rs, base, ov⟩ ps r) := by
  unfold stPathOrAuthority
  f_norm F
  repeat' f_step F

theorem stRelative_F (ps : PS) (r : Char) :
    RelF (stRelative ⟨c1, I, src, rs, base, ov⟩ ps r) (stRelative ⟨c2, I, src, rs, base, ov⟩ ps r) := by
  unfold stRelative
  f_norm F
  repeat' f_step F

theorem stRelativeSlash_F (ps : PS) (r : Char) :
    RelF (stRelativeSlash ⟨c1, I, src, rs, base, ov⟩ ps r) (stRelativeSlash ⟨c2, I, src, rs, base, ov⟩ ps r) := by
  unfold stRelativeSlash
  f_norm F
  repeat' f_step F

theorem stSpecialAuthoritySlashes_F (ps : PS) (r : Char) :
    RelF (stSpecialAuthoritySlashes ⟨c1, I, src, rs, base, ov⟩ ps r) (stSpecialAuthoritySlashes ⟨c2, I, src, rs, base, ov⟩ ps r) := by
  unfold stSpecialAuthoritySlashes
  f_norm F
  repeat' f_step F

theorem stSpecialAuthorityIgnoreSlashes_F (ps : PS) (r : Char) :
    RelF (stSpecialAuthorityIgnoreSlashes ⟨c1, I, src, rs, base, ov⟩ ps r) (stSpecialAuthorityIgnoreSlashes ⟨c2, I, src, rs, base, ov⟩ ps r) := by
  unfold stSpecialAuthorityIgnoreSlashes
  f_norm F
  repeat' f_step F

theorem stAuthority_F (ps : PS) (r : Char) :
    RelF (stAuthority ⟨c1, I, src, rs, base, ov⟩ ps r) (stAuthority ⟨c2, I, src, rs, base, ov⟩ ps r) := by
  unfold stAuthority
  f_norm F
  repeat' f_step F

theorem stHost_F (ps : PS) (r : Char) :
    RelF (stHost ⟨c1, I, src, rs, base, ov⟩ ps r) (stHost ⟨c2, I, src, rs, base, ov⟩ ps r) := by
  unfold stHost
  f_norm F
  repeat' f_step F

theorem stPort_F (ps : PS) (r : Char) :
    RelF (stPort ⟨c1, I, src, rs, base, ov⟩ ps r) (stPort ⟨c2, I, src, rs, base, ov⟩ ps r) := by
  unfold stPort
  f_norm F
  repeat' f_step F

theorem stFile_F (ps : PS) (r : Char) :
    RelF (stFile ⟨c1, I, src, rs, base, ov⟩ ps r) (stFile ⟨c2, I, src, rs, base, ov⟩ ps r) := by
  unfold stFile
  f_norm F
  repeat' f_step F

theorem stFileSlash_F (ps : PS) (r : Char) :
    RelF (stFileSlash ⟨c1, I, src, rs, base, ov⟩ ps r) (stFileSlash ⟨c2, I, src, rs, base, ov⟩ ps r) := by
  unfold stFileSlash
  f_norm F
  repeat' f_step F

theorem stFileHost_F (ps : PS) (r : Char) :
    RelF (stFileHost ⟨c1, I, src, rs, base, ov⟩ ps r) (stFileHost ⟨c2, I, src, rs, base, ov⟩ ps r) := by
  unfold stFileHost
  f_norm F
  repeat' f_step F

theorem stPathStart_F (ps : PS) (r : Char) :
    RelF (stPathStart ⟨c1, I, src, rs, base, ov⟩ ps r) (stPathStart ⟨c2, I, src, rs, base, ov⟩ ps r) := by
  unfold stPathStart
  f_norm F
  repeat' f_step F

theorem stPath_F (ps : PS) (r : Char) :
    RelF (stPath ⟨c1, I, src, rs, base, ov⟩ ps r) (stPath ⟨c2, I, src, rs, base, ov⟩ ps r) := by
  rw [stPath_eq, stPath_eq]
  unfold stPath'
  f_norm F
  repeat' f_step F

theorem stOpaquePath_F (ps : PS) (r : Char) :
    RelF (stOpaquePath ⟨c1, I, src, rs, base, ov⟩ ps r) (stOpaquePath ⟨c2, I, src, rs, base, ov⟩ ps r) := by
  unfold stOpaquePath
  f_norm F
  repeat' f_step F

theorem stQuery_F (ps : PS) (r : Char) :
    RelF (stQuery ⟨c1, I, src, rs, base, ov⟩ ps r) (stQuery ⟨c2, I, src, rs, base, ov⟩ ps r) := by
  unfold stQuery
  f_norm F
  repeat' f_step F

theorem stFragment_F (ps : PS) (r : Char) :
    RelF (stFragment ⟨c1, I, src, rs, base, ov⟩ ps r) (stFragment ⟨c2, I, src, rs, base, ov⟩ ps r) := by
  unfold stFragment
  f_norm F
  repeat' f_step F

theorem body_F (ps : PS) (r : Char) :
    RelF (body ⟨c1, I, src, rs, base, ov⟩ ps r) (body ⟨c2, I, src, rs, base, ov⟩ ps r) := by
  unfold body
  generalize hs : ps.state = s
  cases s <;> dsimp only <;> first
    | exact stSchemeStart_F F I src rs base ov ps r
    | exact stScheme_F F I src rs base ov ps r
    | exact stNoScheme_F F I src rs base ov ps r
    | exact stOpaquePath_F F I src rs base ov ps r
    | exact stSpecialRelativeOrAuthority_F F I src rs base ov ps r
    | exact stSpecialAuthoritySlashes_F F I src rs base ov ps r
    | exact stSpecialAuthorityIgnoreSlashes_F F I src rs base ov ps r
    | exact stPathOrAuthority_F F I src rs base ov ps r
    | exact stAuthority_F F I src rs base ov ps r
    | exact stHost_F F I src rs base ov ps r
    | exact stFile_F F I src rs base ov ps r
    | exact stFileHost_F F I src rs base ov ps r
    | exact stFileSlash_F F I src rs base ov ps r
    | exact stPort_F F I src rs base ov ps r
    | exact stPath_F F I src rs base ov ps r
    | exact stPathStart_F F I src rs base ov ps r
    | exact stQuery_F F I src rs base ov ps r
    | exact stFragment_F F I src rs base ov ps r
    | exact stRelative_F F I src rs base ov ps r
    | exact stRelativeSlash_F F I src rs base ov ps r

theorem step_F (ps : PS) : RelF (step ⟨c1, I, src, rs, base, ov⟩ ps) (step ⟨c2, I, src, rs, base, ov⟩ ps) := by
  unfold step
  dsimp only
  rcases body_F F I src rs base ov (next rs ps).1 (next rs ps).2 with ⟨x, e, w, hx, he⟩ | heq
  · rw [hx]; exact Or.inl ⟨x, e, w, rfl, he⟩
  · rw [heq]; exact Or.inr rfl

/-- result level: the fail-mode run returned an error, or both runs agree -/
def RelFR (x1 x2 : Res) : Prop := (∃ e w, x1.ret = .err e w) ∨ x1 = x2

theorem loop_F (fuel : Nat) : ∀ ps : PS,
    RelFR (loop ⟨c1, I, src, rs, base, ov⟩ fuel ps) (loop ⟨c2, I, src, rs, base, ov⟩ fuel ps) := by
  induction fuel with
  | zero => intro ps; exact Or.inr rfl
  | succ n ih =>
    intro ps
    unfold loop
    rcases step_F F I src rs base ov ps with ⟨x, e, w, hx, he⟩ | heq
    · rw [hx]; exact Or.inl ⟨e, w, he⟩
    · rw [heq]
      generalize step ⟨c2, I, src, rs, base, ov⟩ ps = s
      cases s with
      | cont p => exact ih p
      | done x => exact Or.inr rfl

theorem basicParser_F (input : Bytes) (url : Option Url) :
    RelFR (basicParser c1 I input base url ov) (basicParser c2 I input base url ov) := by
  unfold basicParser
  dsimp only
  simp only [F.stops, F.rcd, Bool.and_true]
  by_cases h1 : (url.isNone && (trim c0OrSpaceSet input).2) = true
  · rw [if_pos h1]; exact Or.inl ⟨_, _, rfl⟩
  · have h1' : (url.isNone && (trim c0OrSpaceSet input).2) = false := by simpa using h1
    simp only [h1', Bool.false_and, Bool.false_eq_true, if_false]
    generalize (removeTabNl (if url.isNone = true then (trim c0OrSpaceSet input).1 else input)) = rm
    by_cases h2 : rm.2 = true
    · rw [if_pos h2]; exact Or.inl ⟨_, _, rfl⟩
    · have h2' : rm.2 = false := by simpa using h2
      simp only [h2', Bool.false_and, Bool.false_eq_true, if_false]
      exact loop_F F I _ _ base ov _ _

end

end WhatwgUrl.Proofs.Reporting
