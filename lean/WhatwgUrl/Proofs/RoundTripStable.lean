import WhatwgUrl.Proofs.RoundTripD
/-
  Round trip (C03b): `HostStable` is provable, without any assumption on the IDNA oracle, for opaque hosts in stored form
  and for the serialization of every IPv6 address.  (For domains it is an assumption on the oracle: finding F6.)
-/
namespace WhatwgUrl.Proofs.RoundTrip
set_option linter.unusedSimpArgs false
set_option linter.unusedVariables false
open WhatwgUrl WhatwgUrl.Impl WhatwgUrl.Proofs.IPv4 WhatwgUrl.Proofs.Trim WhatwgUrl.Proofs.Sim
open WhatwgUrl.Props

/-! ### `HostStable` is provable for opaque hosts and for IPv6 literals (no assumption on the oracle) -/

/-- a byte of a valid opaque host in stored form: printable ASCII, not a forbidden host code point -/
def opaqueHostB (b : UInt8) : Bool := decide (0x20 < b.toNat) && decide (b.toNat < 0x7f) && !forbiddenHost b.toNat

theorem opaqueHostB_spec : ∀ b : UInt8, opaqueHostB b = true →
    b.toNat < 0x80 ∧ Spec.forbiddenHostCp (bc b).toNat = false ∧ Spec.c0ControlSet (bc b).toNat = false ∧ (b == 0x5b) = false := by
  apply forall_uint8
  decide +kernel

/-- an opaque host (non-special scheme) without forbidden code points and without bytes that would be escaped is stable -/
theorem parseHost_opaque_fixed (I : Idna) (h : Bytes) (hok : ∀ b ∈ h, opaqueHostB b = true) :
    (parseHost {} I {} h true).out = .ok h := by
  show (parseHost Cfg.default I {} h true).out = .ok h
  cases h with
  | nil => rfl
  | cons b0 rest =>
    rw [parseHost_cons, (opaqueHostB_spec b0 (hok b0 (by simp))).2.2.2]
    simp only [Bool.false_eq_true, if_false, if_true]
    unfold parseOpaqueHost
    have hasc : Ascii (b0 :: rest) := fun b hb => (opaqueHostB_spec b (hok b hb)).1
    rw [opaqueLoop_default, goRunes_ascii _ hasc]
    have hnf : (asStr (b0 :: rest)).any (fun c => Spec.forbiddenHostCp c.toNat) = false := by
      rw [List.any_eq_false]
      intro c hc
      obtain ⟨b, hb, rfl⟩ := List.mem_map.mp hc
      simp [(opaqueHostB_spec b (hok b hb)).2.1]
    rw [hnf]
    simp only [Bool.false_eq_true, if_false, List.nil_append]
    rw [C10.C10_encode_fixed _ _ (by
      intro c hc
      obtain ⟨b, hb, rfl⟩ := List.mem_map.mp hc
      exact (opaqueHostB_spec b (hok b hb)).2.2.1), utf8_asStr _ hasc]

theorem HostStable_opaque (I : Idna) (u : Url) (hns : Cfg.isSpecial {} u.scheme = false)
    (hok : ∀ h ∈ u.host, ∀ b ∈ h, opaqueHostB b = true) : HostStable I u := by
  intro h hh
  rw [hns]
  exact parseHost_opaque_fixed I h (hok h hh)

/-- the serialization of any IPv6 address is stable (C08: serializer conforms, parser conforms, round trip) -/
theorem parseHost_ipv6_fixed (I : Idna) (a : List Nat) (ha : C08.Addr a) (ns : Bool) :
    (parseHost {} I {} ([0x5b] ++ ipv6String a ++ [0x5d]) ns).out = .ok ([0x5b] ++ ipv6String a ++ [0x5d]) := by
  show (parseHost Cfg.default I {} ([0x5b] ++ ipv6String a ++ [0x5d]) ns).out = _
  have hcons : ([0x5b] ++ ipv6String a ++ [0x5d] : Bytes) = 0x5b :: (ipv6String a ++ [0x5d]) := by simp
  rw [hcons, parseHost_cons]
  have hends : endsWith (0x5b :: (ipv6String a ++ [0x5d])) [0x5d] = true := by
    unfold endsWith
    rw [isSuffixOf_singleton]
    have : (0x5b :: (ipv6String a ++ [0x5d]) : Bytes) = (0x5b :: ipv6String a) ++ [0x5d] := by simp
    rw [this, List.getLast?_append]
    simp
  have htrim : trimSuffix1 (trimPrefix1 (0x5b :: (ipv6String a ++ [0x5d])) [0x5b]) [0x5d] = ipv6String a := by
    have h1 : trimPrefix1 (0x5b :: (ipv6String a ++ [0x5d])) [0x5b] = ipv6String a ++ [0x5d] := by
      simp [trimPrefix1, startsWith]
    rw [h1]
    have h2 : endsWith (ipv6String a ++ [0x5d]) [0x5d] = true := by
      unfold endsWith; rw [isSuffixOf_singleton]; simp
    simp [trimSuffix1, h2]
  simp only [beq_self_eq_true, if_true, hends, Bool.not_true, Bool.false_eq_true, if_false, htrim]
  have hser := C08.C08_serializer_conforms a ha.1
  have hparse : Spec.parseIPv6 (goRunes (ipv6String a)) = some a := by
    rw [hser, Utf8.goRunes_utf8]; exact C08.C08_roundtrip a ha
  rw [C08.C08_parse_conforms_serialized Cfg.default {} (ipv6String a) a hparse ha.1, ← hser]
  simp

theorem HostStable_ipv6 (I : Idna) (u : Url) (a : List Nat) (ha : C08.Addr a)
    (hh : u.host = some ([0x5b] ++ ipv6String a ++ [0x5d])) : HostStable I u := by
  intro h hm
  have : h = [0x5b] ++ ipv6String a ++ [0x5d] := by
    rw [hh] at hm; simpa using hm.symm
  subst this
  exact parseHost_ipv6_fixed I a ha _

end WhatwgUrl.Proofs.RoundTrip
