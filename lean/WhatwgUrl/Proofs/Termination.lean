import WhatwgUrl.Impl.Parser
/-
  Helper lemmas for C02 (termination of the `BasicParser` loop with an explicit bound).

  Measure.  With `N = e.runes.length`,
      `mu N ps = rank ps.state * (N + 2) + (N - max ps.pointer (-1))`      (an `Int`)
  where `rank` orders the states so that every state CHANGE of the machine goes to a strictly lower rank.

  Choice made for the `rewind (len buffer + 1)` of the authority state: we do NOT carry an invariant relating the
  buffer to the consumed input (that would need a UTF-8 round-trip lemma `goRunes (b ++ utf8Char c)` plus a global
  "buffer = [] before the authority state" invariant).  Instead the measure is made robust: the pointer is clamped
  from below (`max pointer (-1)`), and the loop invariant only says `pointer < N ∧ eof = false`.  This is enough because
    * a state change drops the rank by ≥ 1, which pays for ANY pointer position `< N` (the second summand is in `[1, N+1]`);
    * a self-loop never rewinds; it continues only if `eof` is still `false` after `next`, and `next` leaves `eof = false`
      only when `0 ≤ pointer + 1 < N` — so in a continuing self-loop the un-clamped pointer is ≥ -1 and advances by one.
-/
namespace WhatwgUrl.Proofs.Termination
set_option linter.unusedSimpArgs false
set_option linter.unusedVariables false
open WhatwgUrl WhatwgUrl.Impl

/-- every state change of the machine goes to a strictly lower rank -/
def rank : State → Nat
  | .fragment => 0
  | .query => 1
  | .path => 2
  | .opaquePath => 3
  | .pathStart => 4
  | .fileHost => 5
  | .port => 6
  | .host => 7
  | .hostname => 7
  | .authority => 8
  | .specialAuthorityIgnoreSlashes => 9
  | .fileSlash => 10
  | .file => 11
  | .relativeSlash => 12
  | .relative => 13
  | .specialRelativeOrAuthority => 14
  | .specialAuthoritySlashes => 14
  | .pathOrAuthority => 14
  | .noScheme => 15
  | .scheme => 16
  | .schemeStart => 17

theorem rank_le (s : State) : rank s ≤ 17 := by cases s <;> decide

/-- the measure -/
def mu (N : Nat) (ps : PS) : Int := ((rank ps.state * (N + 2) : Nat) : Int) + ((N : Int) - max ps.pointer (-1))

/-! ### projection lemmas for the cursor primitives -/

theorem next_pointer (rs : Str) (ps : PS) : (next rs ps).1.pointer = ps.pointer + 1 := by
  unfold next; split <;> rfl

theorem next_state (rs : Str) (ps : PS) : (next rs ps).1.state = ps.state := by
  unfold next; split <;> rfl

/-- `next` leaves `eof = false` only if it was `false` and the new position is a valid index -/
theorem next_eof (rs : Str) (ps : PS) (h : (next rs ps).1.eof = false) :
    ps.eof = false ∧ 0 ≤ ps.pointer + 1 ∧ ps.pointer + 1 < rs.length := by
  unfold next at h
  split at h
  · rename_i c hc
    refine ⟨h, ?_⟩
    unfold cur at hc
    split at hc
    · rename_i h0
      have := (List.getElem?_eq_some_iff.mp hc).1
      omega
    · cases hc
  · cases h

/-- two-sided characterisation of `bottom` -/
theorem bottom_cont (r : StepR) (ps' : PS) : bottom r = .cont ps' ↔ r = .cont ps' ∧ ps'.eof = false := by
  cases r with
  | done x => simp [bottom]
  | cont p =>
    unfold bottom
    by_cases hp : p.eof = true
    · simp only [hp, if_true]
      constructor
      · intro h; cases h
      · rintro ⟨h, h2⟩; cases h; rw [hp] at h2; cases h2
    · simp only [hp]
      constructor
      · intro h; cases h; exact ⟨rfl, by simpa using hp⟩
      · rintro ⟨h, _⟩; simpa using h

theorem stops_true (cfg : Cfg) : stops cfg true = true := by simp [stops]

/-- a fatal `handleError` never continues -/
theorem herr_true (e : Env) (ps : PS) (t : ErrT) (k : PS → StepR) :
    herr e ps t true k = .done ⟨record e.cfg ps.url t true, .err ⟨t, true⟩ false⟩ := by
  simp [herr, stops_true]

/-- what a per-state lemma proves about a continuing body: the pointer stays below `N`, and either the rank dropped or
    it is a self-loop that did not rewind (and `eof` was still false after `next`) -/
def Good (N : Nat) (q ps' : PS) : Prop :=
  ps'.pointer < N ∧ (rank ps'.state < rank q.state ∨ (rank ps'.state = rank q.state ∧ ps'.pointer = q.pointer ∧ q.eof = false))


/-! ### `rank` on constructors (`simp only [rank]` would unfold `rank q.state` into a `match`) -/

theorem rank_fragment : rank .fragment = 0 := rfl
theorem rank_query : rank .query = 1 := rfl
theorem rank_path : rank .path = 2 := rfl
theorem rank_opaquePath : rank .opaquePath = 3 := rfl
theorem rank_pathStart : rank .pathStart = 4 := rfl
theorem rank_fileHost : rank .fileHost = 5 := rfl
theorem rank_port : rank .port = 6 := rfl
theorem rank_host : rank .host = 7 := rfl
theorem rank_hostname : rank .hostname = 7 := rfl
theorem rank_authority : rank .authority = 8 := rfl
theorem rank_sAIS : rank .specialAuthorityIgnoreSlashes = 9 := rfl
theorem rank_fileSlash : rank .fileSlash = 10 := rfl
theorem rank_file : rank .file = 11 := rfl
theorem rank_relativeSlash : rank .relativeSlash = 12 := rfl
theorem rank_relative : rank .relative = 13 := rfl
theorem rank_sROA : rank .specialRelativeOrAuthority = 14 := rfl
theorem rank_sAS : rank .specialAuthoritySlashes = 14 := rfl
theorem rank_pOA : rank .pathOrAuthority = 14 := rfl
theorem rank_noScheme : rank .noScheme = 15 := rfl
theorem rank_scheme : rank .scheme = 16 := rfl
theorem rank_schemeStart : rank .schemeStart = 17 := rfl

/-! ### a compositional "shape" predicate for the CPS-style state functions -/

/-- every continuing outcome satisfies `P`, and every returning outcome is not `.outOfFuel` -/
def Sh (P : PS → Prop) (r : StepR) : Prop :=
  (∀ ps', r = .cont ps' → P ps') ∧ (∀ x, r = .done x → x.ret ≠ .outOfFuel)

theorem Sh_done (P : PS → Prop) (x : Res) (hx : x.ret ≠ .outOfFuel) : Sh P (.done x) :=
  ⟨(by intro ps' h; cases h), (by intro y h; cases h; exact hx)⟩
theorem Sh_retUrl (P : PS → Prop) (ps : PS) : Sh P (retUrl ps) := Sh_done _ _ (by simp)
theorem Sh_cont (P : PS → Prop) (ps : PS) (h : P ps) : Sh P (.cont ps) :=
  ⟨(by intro ps' h'; cases h'; exact h), (by intro y h; cases h)⟩
theorem Sh_ite (P : PS → Prop) (c : Prop) [Decidable c] (a b : StepR) (ha : c → Sh P a) (hb : ¬ c → Sh P b) :
    Sh P (if c then a else b) := by
  by_cases hc : c
  · rw [if_pos hc]; exact ha hc
  · rw [if_neg hc]; exact hb hc
theorem Sh_herr_true (P : PS → Prop) (e : Env) (ps : PS) (t : ErrT) (k : PS → StepR) : Sh P (herr e ps t true k) := by
  rw [herr_true]; exact Sh_done _ _ (by simp)
theorem Sh_herr (P : PS → Prop) (e : Env) (ps : PS) (t : ErrT) (f : Bool) (k : PS → StepR)
    (h : ∀ u, Sh P (k { ps with url := u })) : Sh P (herr e ps t f k) := by
  unfold herr
  apply Sh_ite
  · intro _; exact Sh_done _ _ (by simp)
  · intro _; exact h _
theorem Sh_afterHost (P : PS → Prop) (hr : HR) (ps : PS) (k : PS → Bytes → StepR)
    (h : ∀ u b, Sh P (k { ps with url := u } b)) : Sh P (afterHost hr ps k) := by
  unfold afterHost
  split
  · exact h _ _
  · exact Sh_done _ _ (by simp)
  · exact Sh_done _ _ (by simp)

/-- the postcondition of a state function called on `q` (the state after `next`) -/
def Post (N : Nat) (q : PS) : PS → Prop := fun ps' => ps'.eof = false → Good N q ps'

/-- close a leaf `Post N q {…}` -/
macro "leaf" hst:ident : tactic => `(tactic|
  (intro he
   simp only [Good, rewindLast, resetInput, rewind, writeRune, next_pointer, next_state,
     rank_fragment, rank_query, rank_path, rank_opaquePath, rank_pathStart, rank_fileHost, rank_port, rank_host,
     rank_hostname, rank_authority, rank_sAIS, rank_fileSlash, rank_file, rank_relativeSlash, rank_relative,
     rank_sROA, rank_sAS, rank_pOA, rank_noScheme, rank_scheme, rank_schemeStart, $hst:ident] at he ⊢
   try have h2 := next_eof _ _ he
   simp_all <;> omega))

macro "sh_step" hst:ident : tactic => `(tactic| first
  | (apply Sh_done; simp; done)
  | apply Sh_retUrl
  | apply Sh_herr_true
  | (apply Sh_ite <;> intro _)
  | (apply Sh_herr; intro _)
  | (apply Sh_afterHost; intro _ _)
  | dsimp only
  | split
  | (apply Sh_cont; leaf $hst))

/-! ### one lemma per state function -/

theorem stSchemeStart_good (e : Env) (q : PS) (r : Char) (hst : rank q.state = 17)
    (hq1 : q.pointer ≤ e.runes.length) (hq : q.eof = false → q.pointer < e.runes.length) :
    Sh (Post e.runes.length q) (stSchemeStart e q r) := by
  unfold stSchemeStart
  repeat' sh_step hst

theorem stScheme_good (e : Env) (q : PS) (r : Char) (hst : rank q.state = 16)
    (hq1 : q.pointer ≤ e.runes.length) (hq : q.eof = false → q.pointer < e.runes.length) :
    Sh (Post e.runes.length q) (stScheme e q r) := by
  unfold stScheme
  repeat' sh_step hst

theorem stNoScheme_good (e : Env) (q : PS) (r : Char) (hst : rank q.state = 15)
    (hq1 : q.pointer ≤ e.runes.length) (hq : q.eof = false → q.pointer < e.runes.length) :
    Sh (Post e.runes.length q) (stNoScheme e q r) := by
  unfold stNoScheme
  repeat' sh_step hst

theorem stSpecialRelativeOrAuthority_good (e : Env) (q : PS) (r : Char) (hst : rank q.state = 14)
    (hq1 : q.pointer ≤ e.runes.length) (hq : q.eof = false → q.pointer < e.runes.length) :
    Sh (Post e.runes.length q) (stSpecialRelativeOrAuthority e q r) := by
  unfold stSpecialRelativeOrAuthority
  repeat' sh_step hst

theorem stPathOrAuthority_good (e : Env) (q : PS) (r : Char) (hst : rank q.state = 14)
    (hq1 : q.pointer ≤ e.runes.length) (hq : q.eof = false → q.pointer < e.runes.length) :
    Sh (Post e.runes.length q) (stPathOrAuthority e q r) := by
  unfold stPathOrAuthority
  repeat' sh_step hst

theorem stRelative_good (e : Env) (q : PS) (r : Char) (hst : rank q.state = 13)
    (hq1 : q.pointer ≤ e.runes.length) (hq : q.eof = false → q.pointer < e.runes.length) :
    Sh (Post e.runes.length q) (stRelative e q r) := by
  unfold stRelative
  repeat' sh_step hst

theorem stRelativeSlash_good (e : Env) (q : PS) (r : Char) (hst : rank q.state = 12)
    (hq1 : q.pointer ≤ e.runes.length) (hq : q.eof = false → q.pointer < e.runes.length) :
    Sh (Post e.runes.length q) (stRelativeSlash e q r) := by
  unfold stRelativeSlash
  repeat' sh_step hst

theorem stSpecialAuthoritySlashes_good (e : Env) (q : PS) (r : Char) (hst : rank q.state = 14)
    (hq1 : q.pointer ≤ e.runes.length) (hq : q.eof = false → q.pointer < e.runes.length) :
    Sh (Post e.runes.length q) (stSpecialAuthoritySlashes e q r) := by
  unfold stSpecialAuthoritySlashes
  repeat' sh_step hst

theorem stSpecialAuthorityIgnoreSlashes_good (e : Env) (q : PS) (r : Char) (hst : rank q.state = 9)
    (hq1 : q.pointer ≤ e.runes.length) (hq : q.eof = false → q.pointer < e.runes.length) :
    Sh (Post e.runes.length q) (stSpecialAuthorityIgnoreSlashes e q r) := by
  unfold stSpecialAuthorityIgnoreSlashes
  repeat' sh_step hst

theorem stAuthority_good (e : Env) (q : PS) (r : Char) (hst : rank q.state = 8)
    (hq1 : q.pointer ≤ e.runes.length) (hq : q.eof = false → q.pointer < e.runes.length) :
    Sh (Post e.runes.length q) (stAuthority e q r) := by
  unfold stAuthority
  repeat' sh_step hst

theorem stHost_good (e : Env) (q : PS) (r : Char) (hst : rank q.state = 7)
    (hq1 : q.pointer ≤ e.runes.length) (hq : q.eof = false → q.pointer < e.runes.length) :
    Sh (Post e.runes.length q) (stHost e q r) := by
  unfold stHost
  repeat' sh_step hst

theorem stPort_good (e : Env) (q : PS) (r : Char) (hst : rank q.state = 6)
    (hq1 : q.pointer ≤ e.runes.length) (hq : q.eof = false → q.pointer < e.runes.length) :
    Sh (Post e.runes.length q) (stPort e q r) := by
  unfold stPort
  repeat' sh_step hst

theorem stFile_good (e : Env) (q : PS) (r : Char) (hst : rank q.state = 11)
    (hq1 : q.pointer ≤ e.runes.length) (hq : q.eof = false → q.pointer < e.runes.length) :
    Sh (Post e.runes.length q) (stFile e q r) := by
  unfold stFile
  repeat' sh_step hst

theorem stFileSlash_good (e : Env) (q : PS) (r : Char) (hst : rank q.state = 10)
    (hq1 : q.pointer ≤ e.runes.length) (hq : q.eof = false → q.pointer < e.runes.length) :
    Sh (Post e.runes.length q) (stFileSlash e q r) := by
  unfold stFileSlash
  repeat' sh_step hst

theorem stFileHost_good (e : Env) (q : PS) (r : Char) (hst : rank q.state = 5)
    (hq1 : q.pointer ≤ e.runes.length) (hq : q.eof = false → q.pointer < e.runes.length) :
    Sh (Post e.runes.length q) (stFileHost e q r) := by
  unfold stFileHost
  repeat' sh_step hst

theorem stPathStart_good (e : Env) (q : PS) (r : Char) (hst : rank q.state = 4)
    (hq1 : q.pointer ≤ e.runes.length) (hq : q.eof = false → q.pointer < e.runes.length) :
    Sh (Post e.runes.length q) (stPathStart e q r) := by
  unfold stPathStart
  repeat' sh_step hst

theorem stPath_good (e : Env) (q : PS) (r : Char) (hst : rank q.state = 2)
    (hq1 : q.pointer ≤ e.runes.length) (hq : q.eof = false → q.pointer < e.runes.length) :
    Sh (Post e.runes.length q) (stPath e q r) := by
  unfold stPath
  repeat' sh_step hst

theorem stOpaquePath_good (e : Env) (q : PS) (r : Char) (hst : rank q.state = 3)
    (hq1 : q.pointer ≤ e.runes.length) (hq : q.eof = false → q.pointer < e.runes.length) :
    Sh (Post e.runes.length q) (stOpaquePath e q r) := by
  unfold stOpaquePath
  repeat' sh_step hst

theorem stQuery_good (e : Env) (q : PS) (r : Char) (hst : rank q.state = 1)
    (hq1 : q.pointer ≤ e.runes.length) (hq : q.eof = false → q.pointer < e.runes.length) :
    Sh (Post e.runes.length q) (stQuery e q r) := by
  unfold stQuery
  repeat' sh_step hst

theorem stFragment_good (e : Env) (q : PS) (r : Char) (hst : rank q.state = 0)
    (hq1 : q.pointer ≤ e.runes.length) (hq : q.eof = false → q.pointer < e.runes.length) :
    Sh (Post e.runes.length q) (stFragment e q r) := by
  unfold stFragment
  repeat' sh_step hst

theorem body_good (e : Env) (q : PS) (r : Char)
    (hq1 : q.pointer ≤ e.runes.length) (hq : q.eof = false → q.pointer < e.runes.length) :
    Sh (Post e.runes.length q) (body e q r) := by
  unfold body
  split <;> rename_i heq
  · exact stSchemeStart_good e q r (by rw [heq]; rfl) hq1 hq
  · exact stScheme_good e q r (by rw [heq]; rfl) hq1 hq
  · exact stNoScheme_good e q r (by rw [heq]; rfl) hq1 hq
  · exact stOpaquePath_good e q r (by rw [heq]; rfl) hq1 hq
  · exact stSpecialRelativeOrAuthority_good e q r (by rw [heq]; rfl) hq1 hq
  · exact stSpecialAuthoritySlashes_good e q r (by rw [heq]; rfl) hq1 hq
  · exact stSpecialAuthorityIgnoreSlashes_good e q r (by rw [heq]; rfl) hq1 hq
  · exact stPathOrAuthority_good e q r (by rw [heq]; rfl) hq1 hq
  · exact stAuthority_good e q r (by rw [heq]; rfl) hq1 hq
  · exact stHost_good e q r (by rw [heq]; rfl) hq1 hq
  · exact stHost_good e q r (by rw [heq]; rfl) hq1 hq
  · exact stFile_good e q r (by rw [heq]; rfl) hq1 hq
  · exact stFileHost_good e q r (by rw [heq]; rfl) hq1 hq
  · exact stFileSlash_good e q r (by rw [heq]; rfl) hq1 hq
  · exact stPort_good e q r (by rw [heq]; rfl) hq1 hq
  · exact stPath_good e q r (by rw [heq]; rfl) hq1 hq
  · exact stPathStart_good e q r (by rw [heq]; rfl) hq1 hq
  · exact stQuery_good e q r (by rw [heq]; rfl) hq1 hq
  · exact stFragment_good e q r (by rw [heq]; rfl) hq1 hq
  · exact stRelative_good e q r (by rw [heq]; rfl) hq1 hq
  · exact stRelativeSlash_good e q r (by rw [heq]; rfl) hq1 hq

/-! ### the loop -/

/-- the loop invariant: the pointer is below the number of code points and `eof` is not set -/
def Inv (N : Nat) (ps : PS) : Prop := ps.pointer < N ∧ ps.eof = false

theorem mu_pos (N : Nat) (ps : PS) (h : Inv N ps) : 1 ≤ mu N ps := by
  unfold mu; have := h.1; omega

/-- a continuing iteration keeps the invariant and strictly decreases the measure -/
theorem step_cont (e : Env) (ps ps' : PS) (hI : Inv e.runes.length ps) (h : step e ps = .cont ps') :
    Inv e.runes.length ps' ∧ mu e.runes.length ps' < mu e.runes.length ps := by
  unfold step at h
  rw [bottom_cont] at h
  obtain ⟨h1, he⟩ := h
  obtain ⟨hp, hE⟩ := hI
  have hq1 : (next e.runes ps).1.pointer ≤ e.runes.length := by rw [next_pointer]; omega
  have hq : (next e.runes ps).1.eof = false → (next e.runes ps).1.pointer < e.runes.length := by
    intro h; have := next_eof _ _ h; rw [next_pointer]; omega
  have hg := (body_good e _ (next e.runes ps).2 hq1 hq).1 ps' h1 he
  obtain ⟨hlt, hor⟩ := hg
  refine ⟨⟨hlt, he⟩, ?_⟩
  rw [next_state, next_pointer] at hor
  unfold mu
  rcases hor with hr | ⟨hr, hpp, hqe⟩
  · have hm : (rank ps'.state + 1) * (e.runes.length + 2) ≤ rank ps.state * (e.runes.length + 2) :=
      Nat.mul_le_mul_right _ hr
    rw [Nat.add_mul] at hm
    generalize rank ps'.state * (e.runes.length + 2) = A at hm ⊢
    generalize rank ps.state * (e.runes.length + 2) = B at hm ⊢
    omega
  · have := next_eof _ _ hqe
    rw [hr, hpp]
    omega

/-- a returning iteration never returns `.outOfFuel` -/
theorem step_done (e : Env) (ps : PS) (hI : Inv e.runes.length ps) (x : Res) (h : step e ps = .done x) :
    x.ret ≠ .outOfFuel := by
  unfold step at h
  obtain ⟨hp, hE⟩ := hI
  have hq1 : (next e.runes ps).1.pointer ≤ e.runes.length := by rw [next_pointer]; omega
  have hq : (next e.runes ps).1.eof = false → (next e.runes ps).1.pointer < e.runes.length := by
    intro h; have := next_eof _ _ h; rw [next_pointer]; omega
  have hb := (body_good e _ (next e.runes ps).2 hq1 hq).2
  generalize body e (next e.runes ps).1 (next e.runes ps).2 = res at h hb
  cases res with
  | done y => simp only [bottom] at h; cases h; exact hb _ rfl
  | cont p =>
    simp only [bottom] at h
    split at h
    · cases h; simp
    · cases h

/-- enough fuel for the measure: the loop does not run out -/
theorem loop_ok (e : Env) : ∀ (fuel : Nat) (ps : PS), Inv e.runes.length ps → mu e.runes.length ps ≤ fuel →
    (loop e fuel ps).ret ≠ .outOfFuel := by
  intro fuel
  induction fuel with
  | zero => intro ps hI hm; have := mu_pos _ _ hI; omega
  | succ n ih =>
    intro ps hI hm
    unfold loop
    split
    · rename_i ps' hs
      obtain ⟨hI', hlt⟩ := step_cont e ps ps' hI hs
      exact ih ps' hI' (by omega)
    · rename_i r hs
      exact step_done e ps hI r hs

/-- with enough fuel for the measure the result does not depend on the fuel -/
theorem loop_fuel_irrel (e : Env) : ∀ (f f' : Nat) (ps : PS), Inv e.runes.length ps →
    mu e.runes.length ps ≤ f → mu e.runes.length ps ≤ f' → loop e f ps = loop e f' ps := by
  intro f
  induction f with
  | zero => intro f' ps hI hm; have := mu_pos _ _ hI; omega
  | succ n ih =>
    intro f' ps hI hm hm'
    cases f' with
    | zero => have := mu_pos _ _ hI; omega
    | succ n' =>
      unfold loop
      split
      · rename_i ps' hs
        obtain ⟨hI', hlt⟩ := step_cont e ps ps' hI hs
        exact ih n' ps' hI' (by omega) (by omega)
      · rfl

/-- the initial parser state satisfies the invariant and its measure is within `fuelFor` -/
theorem mu_init (N : Nat) (ps : PS) (hp : ps.pointer = -1) (hE : ps.eof = false) :
    Inv N ps ∧ mu N ps ≤ (24 * (N + 2) : Nat) := by
  refine ⟨⟨by omega, hE⟩, ?_⟩
  unfold mu
  have hm : rank ps.state * (N + 2) ≤ 17 * (N + 2) := Nat.mul_le_mul_right _ (rank_le _)
  generalize rank ps.state * (N + 2) = A at hm ⊢
  omega

/-- the sharper bound that the rank assignment actually gives: `18·(N+2) − 1` -/
theorem mu_init18 (N : Nat) (ps : PS) (hp : ps.pointer = -1) (hE : ps.eof = false) :
    mu N ps + 1 ≤ (18 * (N + 2) : Nat) := by
  unfold mu
  have hm : rank ps.state * (N + 2) ≤ 17 * (N + 2) := Nat.mul_le_mul_right _ (rank_le _)
  generalize rank ps.state * (N + 2) = A at hm ⊢
  omega

end WhatwgUrl.Proofs.Termination
