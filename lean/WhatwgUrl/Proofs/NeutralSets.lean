import WhatwgUrl.Proofs.NeutralCollapse
import WhatwgUrl.Proofs.Frame
/-
  Helper lemmas for C16c: the special-scheme table and the five replaceable percent-encode sets of the parser
  (path, special-query, query, special-fragment, fragment).  Same technique as `Proofs/Neutral.lean`: `updS c …` is `c` with
  those six fields overwritten; the host parser and the credentials loop read none of them.
-/
namespace WhatwgUrl.Proofs.Neutral
set_option linter.unusedSimpArgs false
set_option linter.unusedVariables false
set_option linter.unusedSectionVars false
open WhatwgUrl WhatwgUrl.Impl WhatwgUrl.Proofs.Termination

/-- `c` with the special-scheme table and the five parser percent-encode sets overwritten -/
@[reducible] def updS (c : Cfg) (ss : List (Bytes × Bytes)) (t1 t2 t3 t4 t5 : PSet) : Cfg :=
  { c with specialSchemes := ss, pathSet := t1, spQuerySet := t2, querySet := t3, spFragSet := t4, fragSet := t5 }

section
variable (c : Cfg) (ss : List (Bytes × Bytes)) (t1 t2 t3 t4 t5 : PSet) (I : Idna) (src : Bytes) (rs : Str)
  (base : Option Url) (ov : Option State)

theorem record_updS : record (updS c ss t1 t2 t3 t4 t5) = record c := rfl
theorem stops_updS : stops (updS c ss t1 t2 t3 t4 t5) = stops c := rfl
theorem hErr_updS : hErr (updS c ss t1 t2 t3 t4 t5) = hErr c := rfl
theorem fail6_updS : fail6 (updS c ss t1 t2 t3 t4 t5) = fail6 c := rfl
theorem parseIPv4Number_updS : parseIPv4Number (updS c ss t1 t2 t3 t4 t5) = parseIPv4Number c := rfl
theorem endsInANumber_updS : endsInANumber (updS c ss t1 t2 t3 t4 t5) = endsInANumber c := rfl

theorem parseIPv4Parts_updS (u : Url) (l : List Bytes) (acc : List Nat) :
    parseIPv4Parts (updS c ss t1 t2 t3 t4 t5) u l acc = parseIPv4Parts c u l acc := by
  induction l generalizing u acc with
  | nil => rfl
  | cons x rest ih =>
    simp only [parseIPv4Parts, ih]
    rfl

theorem ipv4RangeWarn_updS (u : Url) (l : List Nat) :
    ipv4RangeWarn (updS c ss t1 t2 t3 t4 t5) u l = ipv4RangeWarn c u l := by
  induction l generalizing u with
  | nil => rfl
  | cons x rest ih =>
    simp only [ipv4RangeWarn, ih]
    rfl

theorem parseIPv4_updS (u : Url) (s : Bytes) : parseIPv4 (updS c ss t1 t2 t3 t4 t5) u s = parseIPv4 c u s := by
  simp only [parseIPv4, parseIPv4Parts_updS, ipv4RangeWarn_updS]
  rfl


theorem digitLoop6_updS (rs : Str) (fuel : Nat) (cu : C6) (ch : Char) (pc : Int) (u : Url) :
    digitLoop6 (updS c ss t1 t2 t3 t4 t5) rs fuel cu ch pc u = digitLoop6 c rs fuel cu ch pc u := by
  induction fuel generalizing cu ch pc u with
  | zero => rfl
  | succ n ih =>
    simp only [digitLoop6, ih]
    rfl

theorem v4Loop6_updS (rs : Str) (fuel : Nat) (cu : C6) (ch : Char) (ad : List Nat) (pi ns : Nat) (u : Url) :
    v4Loop6 (updS c ss t1 t2 t3 t4 t5) rs fuel cu ch ad pi ns u = v4Loop6 c rs fuel cu ch ad pi ns u := by
  induction fuel generalizing cu ch ad pi ns u with
  | zero => rfl
  | succ n ih =>
    simp only [v4Loop6, ih, digitLoop6_updS]
    rfl

theorem iter6_updS (rs : Str) (s : S6) : iter6 (updS c ss t1 t2 t3 t4 t5) rs s = iter6 c rs s := by
  simp only [iter6, v4Loop6_updS]
  rfl

theorem loop6_updS (rs : Str) (fuel : Nat) (s : S6) : loop6 (updS c ss t1 t2 t3 t4 t5) rs fuel s = loop6 c rs fuel s := by
  induction fuel generalizing s with
  | zero => rfl
  | succ n ih => simp only [loop6, ih, iter6_updS]

theorem parseIPv6_updS (u : Url) (s : Bytes) : parseIPv6 (updS c ss t1 t2 t3 t4 t5) u s = parseIPv6 c u s := by
  simp only [parseIPv6, loop6_updS]
  rfl

theorem percentEncodeRune_updS : percentEncodeRune (updS c ss t1 t2 t3 t4 t5) = percentEncodeRune c := rfl

theorem credLoop_updS (s : Str) (pw : Bool) (us pa : Bytes) :
    credLoop (updS c ss t1 t2 t3 t4 t5) s pw us pa = credLoop c s pw us pa := by
  induction s generalizing pw us pa with
  | nil => rfl
  | cons x rest ih => simp only [credLoop, ih, percentEncodeRune_updS]

theorem decodePercent_updS (s : Bytes) : decodePercent (updS c ss t1 t2 t3 t4 t5) s = decodePercent c s := by
  fun_induction decodePercent c s with
  | case1 => simp [decodePercent]
  | case2 x h1 h2 rest' hc ih => simp only [decodePercent, hc, ih]; rfl
  | case3 x h1 h2 rest' hc ih => simp only [decodePercent, hc, ih]; rfl
  | case4 x rest hne ih =>
    match rest, hne, ih with
    | [], _, _ => simp [decodePercent]
    | [y], _, _ => simp [decodePercent]
    | y :: z :: r, hne, _ => exact absurd rfl (hne y z r)



theorem pesRunes_updS (tr : PSet) (s : Str) : pesRunes (updS c ss t1 t2 t3 t4 t5) tr s = pesRunes c tr s := by
  induction s with
  | nil => rfl
  | cons y rest ih => simp only [pesRunes, ih]; rfl

theorem opaqueLoop_updS (input : Bytes) (s : Str) (u : Url) (out : Bytes) :
    opaqueLoop (updS c ss t1 t2 t3 t4 t5) input s u out = opaqueLoop c input s u out := by
  induction s generalizing u out with
  | nil => rfl
  | cons y rest ih => simp only [opaqueLoop, ih]; rfl

theorem forbiddenLoop_updS (ad : Bytes) (s : Str) (u : Url) :
    forbiddenLoop (updS c ss t1 t2 t3 t4 t5) ad s u = forbiddenLoop c ad s u := by
  induction s generalizing u with
  | nil => rfl
  | cons y rest ih =>
    simp only [forbiddenLoop, ih, percentEncodeString, pesRunes_updS]; rfl

theorem parseHost_updS (u : Url) (s : Bytes) (ns : Bool) : parseHost (updS c ss t1 t2 t3 t4 t5) I u s ns = parseHost c I u s ns := by
  simp only [parseHost, parseOpaqueHost, parseIPv6_updS, opaqueLoop_updS, decodePercent_updS, forbiddenLoop_updS,
    parseIPv4_updS]
  rfl

end

/-- the table `ss` answers the lookup of `x` like `c` does -/
def SAgree (ss : List (Bytes × Bytes)) (c : Cfg) (x : Bytes) : Prop :=
  (ss.find? (·.1 == x)).map (·.2) = c.special? x

section
variable (c : Cfg) (ss : List (Bytes × Bytes)) (t1 t2 t3 t4 t5 : PSet) (I : Idna) (src : Bytes) (rs : Str)
  (base : Option Url) (ov : Option State)

theorem special?_updS (x : Bytes) (h : SAgree ss c x) : (updS c ss t1 t2 t3 t4 t5).special? x = c.special? x := h
theorem isSpecial_updS (x : Bytes) (h : SAgree ss c x) : (updS c ss t1 t2 t3 t4 t5).isSpecial x = c.isSpecial x := by
  unfold Cfg.isSpecial; rw [special?_updS c ss t1 t2 t3 t4 t5 x h]
theorem cleanDefaultPort_updS (u : Url) (h : SAgree ss c u.scheme) :
    cleanDefaultPort (updS c ss t1 t2 t3 t4 t5) u = cleanDefaultPort c u := by
  unfold cleanDefaultPort; rw [special?_updS c ss t1 t2 t3 t4 t5 _ h]

/-! states that read neither the table nor the sets -/
theorem stSchemeStart_updS (ps : PS) (r : Char) :
    stSchemeStart ⟨updS c ss t1 t2 t3 t4 t5, I, src, rs, base, ov⟩ ps r = stSchemeStart ⟨c, I, src, rs, base, ov⟩ ps r := rfl
theorem stNoScheme_updS (ps : PS) (r : Char) :
    stNoScheme ⟨updS c ss t1 t2 t3 t4 t5, I, src, rs, base, ov⟩ ps r = stNoScheme ⟨c, I, src, rs, base, ov⟩ ps r := rfl
theorem stSpecialRelativeOrAuthority_updS (ps : PS) (r : Char) :
    stSpecialRelativeOrAuthority ⟨updS c ss t1 t2 t3 t4 t5, I, src, rs, base, ov⟩ ps r = stSpecialRelativeOrAuthority ⟨c, I, src, rs, base, ov⟩ ps r := rfl
theorem stPathOrAuthority_updS (ps : PS) (r : Char) :
    stPathOrAuthority ⟨updS c ss t1 t2 t3 t4 t5, I, src, rs, base, ov⟩ ps r = stPathOrAuthority ⟨c, I, src, rs, base, ov⟩ ps r := rfl
theorem stSpecialAuthoritySlashes_updS (ps : PS) (r : Char) :
    stSpecialAuthoritySlashes ⟨updS c ss t1 t2 t3 t4 t5, I, src, rs, base, ov⟩ ps r = stSpecialAuthoritySlashes ⟨c, I, src, rs, base, ov⟩ ps r := rfl
theorem stSpecialAuthorityIgnoreSlashes_updS (ps : PS) (r : Char) :
    stSpecialAuthorityIgnoreSlashes ⟨updS c ss t1 t2 t3 t4 t5, I, src, rs, base, ov⟩ ps r = stSpecialAuthorityIgnoreSlashes ⟨c, I, src, rs, base, ov⟩ ps r := rfl
theorem stFile_updS (ps : PS) (r : Char) :
    stFile ⟨updS c ss t1 t2 t3 t4 t5, I, src, rs, base, ov⟩ ps r = stFile ⟨c, I, src, rs, base, ov⟩ ps r := rfl
theorem stFileSlash_updS (ps : PS) (r : Char) :
    stFileSlash ⟨updS c ss t1 t2 t3 t4 t5, I, src, rs, base, ov⟩ ps r = stFileSlash ⟨c, I, src, rs, base, ov⟩ ps r := rfl
theorem stOpaquePath_updS (ps : PS) (r : Char) :
    stOpaquePath ⟨updS c ss t1 t2 t3 t4 t5, I, src, rs, base, ov⟩ ps r = stOpaquePath ⟨c, I, src, rs, base, ov⟩ ps r := rfl

/-! states that look a scheme up -/

theorem stAuthority_updS (ps : PS) (r : Char) (h : SAgree ss c ps.url.scheme) :
    stAuthority ⟨updS c ss t1 t2 t3 t4 t5, I, src, rs, base, ov⟩ ps r = stAuthority ⟨c, I, src, rs, base, ov⟩ ps r := by
  simp only [stAuthority, herr, isSp, spBackslash, credLoop_updS, record_updS, stops_updS, record_scheme,
    isSpecial_updS c ss t1 t2 t3 t4 t5 _ h]
  rfl

theorem stScheme_updS (ps : PS) (r : Char)
    (h : r = ':' → SAgree ss c ps.buffer ∧ (ov.isSome = true → SAgree ss c ps.url.scheme)) :
    stScheme ⟨updS c ss t1 t2 t3 t4 t5, I, src, rs, base, ov⟩ ps r = stScheme ⟨c, I, src, rs, base, ov⟩ ps r := by
  by_cases hr : r = ':'
  · obtain ⟨hb, hu⟩ := h hr
    cases ov with
    | none =>
      simp only [stScheme, herr, isSp, Option.isSome_none, Bool.false_and, Bool.false_eq_true, ↓reduceIte,
        isSpecial_updS c ss t1 t2 t3 t4 t5 _ hb]
      rfl
    | some o =>
      have hu := hu rfl
      simp only [stScheme, herr, isSp, Option.isSome_some, Bool.true_and, ↓reduceIte,
        isSpecial_updS c ss t1 t2 t3 t4 t5 _ hb, isSpecial_updS c ss t1 t2 t3 t4 t5 _ hu, retUrl]
      rw [cleanDefaultPort_updS c ss t1 t2 t3 t4 t5 _ hb]
      rfl
  · have hr' : (r == ':') = false := by simpa using hr
    simp only [stScheme, hr', Bool.false_eq_true, ↓reduceIte]
    rfl

theorem stRelative_updS (ps : PS) (r : Char) (h : ∀ b, base = some b → SAgree ss c b.scheme) :
    stRelative ⟨updS c ss t1 t2 t3 t4 t5, I, src, rs, base, ov⟩ ps r = stRelative ⟨c, I, src, rs, base, ov⟩ ps r := by
  cases base with
  | none => rfl
  | some b =>
    simp only [stRelative, herr, isSp, spBackslash, record_updS, stops_updS, isSpecial_updS c ss t1 t2 t3 t4 t5 _ (h b rfl)]
    rfl

theorem stRelativeSlash_updS (ps : PS) (r : Char) (h : SAgree ss c ps.url.scheme) :
    stRelativeSlash ⟨updS c ss t1 t2 t3 t4 t5, I, src, rs, base, ov⟩ ps r = stRelativeSlash ⟨c, I, src, rs, base, ov⟩ ps r := by
  simp only [stRelativeSlash, herr, isSp, spBackslash, record_updS, stops_updS, isSpecial_updS c ss t1 t2 t3 t4 t5 _ h]
  rfl

theorem stHost_updS (ps : PS) (r : Char) (h : SAgree ss c ps.url.scheme) :
    stHost ⟨updS c ss t1 t2 t3 t4 t5, I, src, rs, base, ov⟩ ps r = stHost ⟨c, I, src, rs, base, ov⟩ ps r := by
  simp only [stHost, herr, isSp, spBackslash, record_updS, stops_updS, record_scheme, parseHost_updS, rewindLast,
    isSpecial_updS c ss t1 t2 t3 t4 t5 _ h]
  rfl

theorem stPort_updS (ps : PS) (r : Char) (h : SAgree ss c ps.url.scheme) :
    stPort ⟨updS c ss t1 t2 t3 t4 t5, I, src, rs, base, ov⟩ ps r = stPort ⟨c, I, src, rs, base, ov⟩ ps r := by
  have h' : ∀ (n : Nat) (b : Bytes), SAgree ss c ({ ps.url with decodedPort := n, port := some b } : Url).scheme := fun _ _ => h
  simp only [stPort, herr, isSp, spBackslash, record_updS, stops_updS, record_scheme,
    isSpecial_updS c ss t1 t2 t3 t4 t5 _ h, cleanDefaultPort_updS c ss t1 t2 t3 t4 t5 _ (h' _ _)]
  rfl

theorem stFileHost_updS (ps : PS) (r : Char) (h : SAgree ss c ps.url.scheme) :
    stFileHost ⟨updS c ss t1 t2 t3 t4 t5, I, src, rs, base, ov⟩ ps r = stFileHost ⟨c, I, src, rs, base, ov⟩ ps r := by
  simp only [stFileHost, herr, isSp, spBackslash, record_updS, stops_updS, record_scheme, parseHost_updS, rewindLast,
    isSpecial_updS c ss t1 t2 t3 t4 t5 _ h]
  rfl

theorem stPathStart_updS (ps : PS) (r : Char) (h : SAgree ss c ps.url.scheme) :
    stPathStart ⟨updS c ss t1 t2 t3 t4 t5, I, src, rs, base, ov⟩ ps r = stPathStart ⟨c, I, src, rs, base, ov⟩ ps r := by
  simp only [stPathStart, herr, isSp, spBackslash, record_updS, stops_updS, record_scheme,
    isSpecial_updS c ss t1 t2 t3 t4 t5 _ h]
  rfl

theorem stPath_updS (ps : PS) (r : Char) (h : SAgree ss c ps.url.scheme) :
    stPath ⟨updS c ss c.pathSet t2 t3 t4 t5, I, src, rs, base, ov⟩ ps r = stPath ⟨c, I, src, rs, base, ov⟩ ps r := by
  simp only [stPath, unitChecks, herr, isSp, spBackslash, record_updS, stops_updS, record_scheme,
    isSpecial_updS c ss c.pathSet t2 t3 t4 t5 _ h]
  rfl

theorem stQuery_updS (ps : PS) (r : Char) (h : SAgree ss c ps.url.scheme) :
    stQuery ⟨updS c ss t1 c.spQuerySet c.querySet t4 t5, I, src, rs, base, ov⟩ ps r = stQuery ⟨c, I, src, rs, base, ov⟩ ps r := by
  simp only [stQuery, unitChecks, herr, isSp, spBackslash, record_updS, stops_updS, record_scheme,
    isSpecial_updS c ss t1 c.spQuerySet c.querySet t4 t5 _ h]
  rfl

theorem stFragment_updS (ps : PS) (r : Char) (h : SAgree ss c ps.url.scheme) :
    stFragment ⟨updS c ss t1 t2 t3 c.spFragSet c.fragSet, I, src, rs, base, ov⟩ ps r = stFragment ⟨c, I, src, rs, base, ov⟩ ps r := by
  simp only [stFragment, unitChecks, herr, isSp, spBackslash, record_updS, stops_updS, record_scheme,
    isSpecial_updS c ss t1 t2 t3 c.spFragSet c.fragSet _ h]
  rfl

end

/-! ### one step, the loop, the prologue (special-scheme table) -/

/-- the trigger of a changed entry `s` of the special-scheme table at a parser state: the step from `ps` looks the
    scheme `s` up.  By state: the scheme state looks up the buffer (and, under a state override, the url's scheme) when the
    next code point is `:`; the relative state looks up the base's scheme; nine states look nothing up; the others look
    up the url's scheme. -/
def readsUrlScheme : State → Bool
  | .authority | .host | .hostname | .fileHost | .port | .path | .pathStart | .query | .fragment | .relativeSlash => true
  | _ => false

def schemeTrig (s : Bytes) (rs : Str) (base : Option Url) (ov : Option State) (ps : PS) : Bool :=
  match ps.state with
  | .schemeStart | .noScheme | .opaquePath | .specialRelativeOrAuthority | .specialAuthoritySlashes
  | .specialAuthorityIgnoreSlashes | .pathOrAuthority | .file | .fileSlash => false
  | .scheme => cur rs (ps.pointer + 1) == some ':' && (ps.buffer == s || (ov.isSome && ps.url.scheme == s))
  | .relative => (match base with | some b => b.scheme == s | none => false)
  | _ => ps.url.scheme == s

theorem next_colon (rs : Str) (ps : PS) (h : (next rs ps).2 = ':') : cur rs (ps.pointer + 1) = some ':' := by
  unfold next at h
  split at h
  · rename_i c hc; rw [hc]; exact congrArg some h
  · exact absurd h (by decide : repl ≠ ':')

section
variable (c : Cfg) (ss : List (Bytes × Bytes)) (s : Bytes) (I : Idna) (src : Bytes) (rs : Str)
  (base : Option Url) (ov : Option State)

/-- `c` with only the special-scheme table overwritten -/
@[reducible] def updSch (c : Cfg) (ss : List (Bytes × Bytes)) : Cfg :=
  updS c ss c.pathSet c.spQuerySet c.querySet c.spFragSet c.fragSet

theorem body_updSch (hA : ∀ x, x ≠ s → SAgree ss c x) (ps : PS) (r : Char)
    (hsch : ps.state = .scheme → r = ':' → ps.buffer ≠ s ∧ (ov.isSome = true → ps.url.scheme ≠ s))
    (hrel : ps.state = .relative → ∀ b, base = some b → b.scheme ≠ s)
    (hoth : readsUrlScheme ps.state = true → ps.url.scheme ≠ s) :
    body ⟨updSch c ss, I, src, rs, base, ov⟩ ps r = body ⟨c, I, src, rs, base, ov⟩ ps r := by
  unfold body
  split <;> rename_i hst
  · rfl
  · exact stScheme_updS c ss _ _ _ _ _ I src rs base ov ps r
      (fun hr => ⟨hA _ (hsch hst hr).1, fun ho => hA _ ((hsch hst hr).2 ho)⟩)
  · rfl
  · rfl
  · rfl
  · rfl
  · rfl
  · rfl
  · exact stAuthority_updS c ss _ _ _ _ _ I src rs base ov ps r (hA _ (hoth (by rw [hst]; rfl)))
  · exact stHost_updS c ss _ _ _ _ _ I src rs base ov ps r (hA _ (hoth (by rw [hst]; rfl)))
  · exact stHost_updS c ss _ _ _ _ _ I src rs base ov ps r (hA _ (hoth (by rw [hst]; rfl)))
  · rfl
  · exact stFileHost_updS c ss _ _ _ _ _ I src rs base ov ps r (hA _ (hoth (by rw [hst]; rfl)))
  · rfl
  · exact stPort_updS c ss _ _ _ _ _ I src rs base ov ps r (hA _ (hoth (by rw [hst]; rfl)))
  · exact stPath_updS c ss _ _ _ _ I src rs base ov ps r (hA _ (hoth (by rw [hst]; rfl)))
  · exact stPathStart_updS c ss _ _ _ _ _ I src rs base ov ps r (hA _ (hoth (by rw [hst]; rfl)))
  · exact stQuery_updS c ss _ _ _ I src rs base ov ps r (hA _ (hoth (by rw [hst]; rfl)))
  · exact stFragment_updS c ss _ _ _ I src rs base ov ps r (hA _ (hoth (by rw [hst]; rfl)))
  · exact stRelative_updS c ss _ _ _ _ _ I src rs base ov ps r (fun b hb => hA _ (hrel hst b hb))
  · exact stRelativeSlash_updS c ss _ _ _ _ _ I src rs base ov ps r (hA _ (hoth (by rw [hst]; rfl)))

theorem step_updSch (hA : ∀ x, x ≠ s → SAgree ss c x) (ps : PS) (h : schemeTrig s rs base ov ps = false) :
    step ⟨updSch c ss, I, src, rs, base, ov⟩ ps = step ⟨c, I, src, rs, base, ov⟩ ps := by
  unfold step
  rw [body_updSch c ss s I src rs base ov hA]
  · intro hst hr
    rw [next_state] at hst
    rw [next_buffer, next_url]
    have hc := next_colon rs ps hr
    simp only [schemeTrig, hst, hc, beq_self_eq_true, Bool.true_and, Bool.or_eq_false_iff, beq_eq_false_iff_ne,
      Bool.and_eq_false_imp] at h
    exact ⟨h.1, fun ho => by simpa using h.2 ho⟩
  · intro hst b hb
    rw [next_state] at hst
    subst hb
    simpa [schemeTrig, hst] using h
  · intro hst
    rw [next_state] at hst
    rw [next_url]
    revert h hst
    unfold schemeTrig
    cases ps.state <;> simp [readsUrlScheme]

end

/-- the special-scheme table changed at `s` only: `basicParser` returns the same as long as the run looks `s` up nowhere -/
theorem basicParser_updSch (c : Cfg) (ss : List (Bytes × Bytes)) (s : Bytes) (hA : ∀ x, x ≠ s → SAgree ss c x) (I : Idna)
    (input : Bytes) (base url : Option Url) (ov : Option State)
    (h : parserVisits c I input base url ov (schemeTrig s (goRunes (prologueText url input)) base ov) = false) :
    basicParser (updSch c ss) I input base url ov = basicParser c I input base url ov := by
  unfold basicParser
  unfold parserVisits at h
  simp only [record_updS, stops_updS] at h ⊢
  by_cases h1 : (url.isNone && (trim c0OrSpaceSet input).2 && stops c false) = true
  · simp only [h1, ↓reduceIte]
  · simp only [h1, ↓reduceIte] at h ⊢
    by_cases h2 : ((removeTabNl (if url.isNone then (trim c0OrSpaceSet input).1 else input)).2 && stops c false) = true
    · simp only [h2, ↓reduceIte]
    · simp only [h2, ↓reduceIte] at h ⊢
      exact loop_congr_visits _ _ _ (fun ps hp => step_updSch c ss s I _ _ base ov hA ps hp) _ _ h

end WhatwgUrl.Proofs.Neutral
