import WhatwgUrl.Proofs.SaneInv
namespace WhatwgUrl.Proofs.SaneInv
set_option linter.unusedSimpArgs false
set_option linter.unusedVariables false
open WhatwgUrl WhatwgUrl.Impl WhatwgUrl.Proofs.NoPanic

/-- the new url computed by the path state when a segment ends (the `res` of `stPath`, which is never `none`) -/
def pathUrl (e : Env) (r : Char) (ps : PS) : Url :=
  let slash := r == '/' || spBackslash e ps.url r
  let url := ps.url
  if isDoubleDot ps.buffer then
    let p := url.path.shorten url.scheme
    { url with path := if !slash then p.addSegment [] else p }
  else if isSingleDot ps.buffer && !slash then { url with path := url.path.addSegment [] }
  else if !isSingleDot ps.buffer then
    let buf :=
      if url.scheme == lit "file" && url.path.isEmpty && isWindowsDriveLetter ps.buffer && !e.cfg.skipDrive then
        ps.buffer.take 1 ++ [0x3a] ++ ps.buffer.drop 2
      else ps.buffer
    if !e.cfg.collapse || !isSp e url || url.path.isEmpty || (url.path.segs.getLast?.getD []).length > 0 then
      { url with path := url.path.addSegment buf }
    else
      { url with path := { url.path with segs := url.path.segs.dropLast ++ [buf] } }
  else url

def pathFin (r : Char) (ps : PS) (url : Url) : StepR :=
  let ps := { ps with url := url, buffer := [] }
  if r == '?' then .cont { ps with state := .query, url := { ps.url with query := some [] } }
  else if r == '#' then .cont { ps with state := .fragment, url := { ps.url with fragment := some [] } }
  else .cont ps

/-- `stPath` with the never-failing `match res` resolved -/
def stPath' (e : Env) (ps : PS) (r : Char) : StepR :=
  if (ps.eof || r == '/') || spBackslash e ps.url r || (e.ov.isNone && (r == '?' || r == '#')) then
    let k : PS → StepR := fun ps => pathFin r ps (pathUrl e r ps)
    if spBackslash e ps.url r then herr e ps .InvalidReverseSolidus false k else k ps
  else
    unitChecks e ps r fun ps =>
      if remainingInvalidPct e.runes ps then
        .cont { ps with buffer := ps.buffer ++ percentEncodeInvalidRune e.cfg e.cfg.pathSet r }
      else .cont { ps with buffer := ps.buffer ++ percentEncodeRune e.cfg e.cfg.pathSet r }

macro "path_k" e:ident r:ident p:ident : tactic => `(tactic|
  (by_cases h1 : isDoubleDot ($p).buffer = true
   · simp only [pathUrl, h1, ↓reduceIte]; rfl
   · by_cases h2 : (isSingleDot ($p).buffer && !($r == '/' || spBackslash $e ($p).url $r)) = true
     · simp only [pathUrl, h1, h2, ↓reduceIte]; rfl
     · by_cases h3 : (!isSingleDot ($p).buffer) = true
       · by_cases h4 : (!($e).cfg.collapse || !isSp $e ($p).url || ($p).url.path.isEmpty ||
             decide ((($p).url.path.segs.getLast?.getD []).length > 0)) = true
         · simp only [pathUrl, h1, h2, h3, h4, ↓reduceIte]; rfl
         · simp only [pathUrl, h1, h2, h3, h4, ↓reduceIte]; rfl
       · simp only [pathUrl, h1, h2, h3, ↓reduceIte]; rfl))

theorem stPath_eq (e : Env) (ps : PS) (r : Char) : stPath e ps r = stPath' e ps r := by
  unfold stPath stPath'
  split
  · show (if spBackslash e ps.url r = true then herr e ps .InvalidReverseSolidus false _ else _) = _
    split
    · congr 1
      funext ps'
      path_k e r ps'
    · path_k e r ps
  · rfl

theorem pathUrl_scheme (e : Env) (r : Char) (ps : PS) : (pathUrl e r ps).scheme = ps.url.scheme := by
  unfold pathUrl; dsimp only; repeat' split
  all_goals rfl
theorem pathUrl_host (e : Env) (r : Char) (ps : PS) : (pathUrl e r ps).host = ps.url.host := by
  unfold pathUrl; dsimp only; repeat' split
  all_goals rfl
theorem pathUrl_opq (e : Env) (r : Char) (ps : PS) (h : ps.url.path.opq = false) : (pathUrl e r ps).path.opq = false := by
  unfold pathUrl; dsimp only; repeat' split
  all_goals simp [shorten_opq, addSegment_opq, h]

theorem stPath_sg (e : Env) (q : PS) (r : Char) (hst : q.state = .path) (hK : K e q)
    (hB : ∀ b, e.base = some b → SaneC e.cfg b) (hF : e.ov.isSome = true → e.cfg.isSpecial (lit "file") = true)
    (hrepl : q.eof = true → r = repl) : ShG (PK e) (DK e) (stPath e q r) := by
  rw [stPath_eq]
  have hp1 := pathUrl_scheme e r
  have hp2 := pathUrl_host e r
  have hp3 := pathUrl_opq e r
  obtain ⟨cfg, I, src, runes, base, ov⟩ := e
  cases ov <;> unfold stPath' pathFin unitChecks <;> repeat' sg_step

set_option maxHeartbeats 1000000 in
theorem stHost_sg (e : Env) (q : PS) (r : Char) (hst : q.state = .host ∨ q.state = .hostname) (hK : K e q)
    (hB : ∀ b, e.base = some b → SaneC e.cfg b) (hF : e.ov.isSome = true → e.cfg.isSpecial (lit "file") = true)
    (hrepl : q.eof = true → r = repl) : ShG (PK e) (DK e) (stHost e q r) := by
  obtain ⟨cfg, I, src, runes, base, ov⟩ := e
  rcases hst with hst | hst <;> cases ov <;> unfold stHost <;> repeat' sg_step

end WhatwgUrl.Proofs.SaneInv
