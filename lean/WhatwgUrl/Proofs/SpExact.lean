import WhatwgUrl.Proofs.SearchParams
import WhatwgUrl.Proofs.Utf8
/-
  Helper lemmas for C11b (exact class of lists that survive serialize-then-parse), part 1:
  the serializer at byte level (`queryEscape = E ∘ san`), the parser does not see the escaping
  (`spInit (E s) = spInit s`), and the decoder `PD = Spec.percentDecode` around barriers.
-/
namespace WhatwgUrl.Proofs.SpExact
open WhatwgUrl WhatwgUrl.Impl
open WhatwgUrl.Proofs.SearchParams (forall_uint8 parseSeq spInit_eq decodePercent_default)

/-- the percent decoder of the standard (= the Go decoder under the default configuration) -/
abbrev PD : Bytes → Bytes := Spec.percentDecode
/-- `+` becomes space -/
def R (s : Bytes) : Bytes := replaceByte 0x2b 0x20 s
def hexB (x : UInt8) : Bool := isHexN x.toNat
/-- what `QueryEscape` writes for one byte of well-formed UTF-8 -/
def enc (x : UInt8) : Bytes :=
  if x == 0x20 then [0x2b] else if Cfg.default.querySet.has x.toNat then pctByte x else [x]
def E (s : Bytes) : Bytes := s.flatMap enc
/-- Go's `string([]rune(s))`: ill-formed bytes become U+FFFD -/
def san (s : Bytes) : Bytes := utf8 (goRunes s)

theorem R_nil : R [] = [] := rfl
theorem R_cons (x : UInt8) (t : Bytes) : R (x :: t) = (if x == 0x2b then 0x20 else x) :: R t := rfl
theorem R_append (a b : Bytes) : R (a ++ b) = R a ++ R b := by simp [R, replaceByte]
theorem E_nil : E [] = [] := rfl
theorem E_cons (x : UInt8) (t : Bytes) : E (x :: t) = enc x ++ E t := by simp [E]
theorem E_append (a b : Bytes) : E (a ++ b) = E a ++ E b := by simp [E]

/-! ### the decoder -/

/-- does an escape start here -/
def esc : Bytes → Bool
  | x :: h1 :: h2 :: _ => x == 0x25 && isHexN h1.toNat && isHexN h2.toNat
  | _ => false

theorem PD_nil : PD [] = [] := by simp [PD, Spec.percentDecode]

theorem PD_step (x : UInt8) (t : Bytes) :
    PD (x :: t) = if esc (x :: t) then
      (hexVal (t.headD 0).toNat * 16 + hexVal ((t.drop 1).headD 0).toNat).toUInt8 :: PD (t.drop 2)
    else x :: PD t := by
  match t with
  | [] => simp [PD, Spec.percentDecode, esc]
  | [_] => simp [PD, Spec.percentDecode, esc]
  | a :: b :: r =>
    by_cases h : (x == 0x25 && isHexN a.toNat && isHexN b.toNat) = true <;>
      simp [PD, Spec.percentDecode, esc, h]

theorem PD_cons_ne (x : UInt8) (t : Bytes) (hx : x ≠ 0x25) : PD (x :: t) = x :: PD t := by
  rw [PD_step]
  have : esc (x :: t) = false := by
    match t with
    | [] => rfl
    | [_] => rfl
    | _ :: _ :: _ => simp [esc, hx]
  simp [this]

theorem PD_hex (h1 h2 : UInt8) (r : Bytes) (hh1 : hexB h1 = true) (hh2 : hexB h2 = true) :
    PD (0x25 :: h1 :: h2 :: r) = (hexVal h1.toNat * 16 + hexVal h2.toNat).toUInt8 :: PD r := by
  rw [PD_step]
  simp only [hexB] at hh1 hh2
  simp [esc, hh1, hh2]

theorem pct_facts : ∀ x : UInt8, hexB (hexUpper (x.toNat / 16)) = true ∧ hexB (hexUpper (x.toNat % 16)) = true ∧
    (hexVal (hexUpper (x.toNat / 16)).toNat * 16 + hexVal (hexUpper (x.toNat % 16)).toNat).toUInt8 = x := by
  apply forall_uint8
  decide +kernel

theorem PD_pct (x : UInt8) (r : Bytes) : PD (pctByte x ++ r) = x :: PD r := by
  obtain ⟨h1, h2, h3⟩ := pct_facts x
  simp only [pctByte, List.cons_append, List.nil_append]
  rw [PD_hex _ _ _ h1 h2, h3]

/-- a byte that is no hex digit is a barrier for the decoder -/
theorem PD_split (pre : Bytes) (c : UInt8) (r : Bytes) (hc : hexB c = false) :
    PD (pre ++ c :: r) = PD pre ++ PD (c :: r) := by
  simp only [hexB] at hc
  fun_induction Spec.percentDecode pre with
  | case1 => simp [PD, Spec.percentDecode]
  | case2 x h1 h2 rest' hcond ih =>
    simp only [List.cons_append, PD, Spec.percentDecode, hcond, ]
    simpa [PD] using ih
  | case3 x h1 h2 rest' hcond ih =>
    simp only [List.cons_append, PD, Spec.percentDecode, hcond]
    simpa [PD] using ih
  | case4 x rest hrest ih =>
    match rest, hrest with
    | [], _ =>
      match r with
      | [] => simp [PD, Spec.percentDecode]
      | _ :: _ => simp [PD, Spec.percentDecode, hc]
    | [a], _ =>
      have ih' : Spec.percentDecode (a :: c :: r) = Spec.percentDecode [a] ++ Spec.percentDecode (c :: r) := by
        simpa [PD] using ih
      simp only [List.cons_append, List.nil_append, PD]
      rw [Spec.percentDecode]
      simp only [hc, Bool.and_false, Bool.false_eq_true, ↓reduceIte, ih']
      simp [Spec.percentDecode]
    | a :: b :: r', h => exact absurd rfl (h a b r')

/-! ### the escaping, byte by byte -/

theorem enc_shape : ∀ x : UInt8,
    (R (enc x) = pctByte x ∧ hexB x = false ∧ x ≠ 0x25 ∧ x ≠ 0x2b) ∨ R (enc x) = R [x] := by
  apply forall_uint8
  decide +kernel

theorem enc_ne_nil : ∀ x : UInt8, enc x ≠ [] := by
  apply forall_uint8
  decide +kernel

theorem enc_amp : ∀ x : UInt8, (x = 0x26 ∧ enc x = [0x26]) ∨ (x ≠ 0x26 ∧ ∀ y ∈ enc x, y ≠ 0x26) := by
  apply forall_uint8
  decide +kernel

theorem enc_eq : ∀ x : UInt8, (x = 0x3d ∧ enc x = [0x3d]) ∨ (x ≠ 0x3d ∧ ∀ y ∈ enc x, y ≠ 0x3d) := by
  apply forall_uint8
  decide +kernel

/-- the decoder undoes the escaping: it sees `s` itself -/
theorem DRE (t pre : Bytes) : PD (pre ++ R (E t)) = PD (pre ++ R t) := by
  induction t generalizing pre with
  | nil => rfl
  | cons x t ih =>
    rw [E_cons, R_append]
    rcases enc_shape x with ⟨h1, h2, h3, h4⟩ | h1
    · rw [h1]
      have hp : hexB 0x25 = false := by decide
      have hx : R (x :: t) = x :: R t := by simp [R_cons, h4]
      rw [hx, PD_split pre x _ h2, PD_cons_ne x _ h3]
      have e : pctByte x ++ R (E t) =
          0x25 :: (hexUpper (x.toNat / 16) :: hexUpper (x.toNat % 16) :: R (E t)) := rfl
      rw [e, PD_split pre 0x25 _ hp, ← e, PD_pct]
      have := ih []
      simp only [List.nil_append] at this
      rw [this]
    · rw [h1]
      have : R (x :: t) = R [x] ++ R t := by rw [← R_append]; rfl
      rw [this, ← List.append_assoc, ← List.append_assoc]
      exact ih _

theorem DRE' (t : Bytes) : PD (R (E t)) = PD (R t) := DRE t []

/-! ### `QueryEscape` is `E ∘ san` -/

theorem flatMap_congr' {α β : Type} (l : List α) (f g : α → List β) (h : ∀ a ∈ l, f a = g a) :
    l.flatMap f = l.flatMap g := by
  induction l with
  | nil => rfl
  | cons a l ih =>
    rw [List.flatMap_cons, List.flatMap_cons, h a (by simp), ih (fun b hb => h b (by simp [hb]))]

theorem utf8Char_high (c : Char) (h : 0x80 ≤ c.toNat) : ∀ b ∈ utf8Char c, 0x80 ≤ b.toNat := by
  intro b hb
  rw [Utf8.utf8Char_eq] at hb
  have := Utf8.char_valid c
  repeat' split at hb
  all_goals simp at hb
  all_goals (rcases hb with rfl | rfl | rfl | rfl <;> simp <;> omega)

theorem enc_high (b : UInt8) (h : 0x80 ≤ b.toNat) : enc b = pctByte b := by
  have h1 : (b == 0x20) = false := by
    apply beq_false_of_ne; intro e; rw [e] at h; simp at h
  have h2 : Cfg.default.querySet.has b.toNat = true := by
    simp only [PSet.has, Bool.or_eq_true, decide_eq_true_eq]
    left; right; omega
  simp [enc, h1, h2]

theorem enc_ascii_char : ∀ i : Fin 128,
    (if (Char.ofNat i.val).toNat == 0x20 then [0x2b]
      else percentEncodeRune Cfg.default Cfg.default.querySet (Char.ofNat i.val)) =
    (utf8Char (Char.ofNat i.val)).flatMap enc := by
  decide +kernel

theorem enc_char (c : Char) :
    (if c.toNat == 0x20 then [0x2b] else percentEncodeRune Cfg.default Cfg.default.querySet c) =
      (utf8Char c).flatMap enc := by
  by_cases h : c.toNat < 0x80
  · have := enc_ascii_char ⟨c.toNat, h⟩
    simpa [Char.ofNat_toNat] using this
  · have h' : 0x80 ≤ c.toNat := by omega
    have h1 : (c.toNat == 0x20) = false := by
      apply beq_false_of_ne; omega
    have h2 : Cfg.default.querySet.has c.toNat = true := by
      simp only [PSet.has, Bool.or_eq_true, decide_eq_true_eq]
      left; right; omega
    have h3 : (utf8Char c).flatMap enc = (utf8Char c).flatMap pctByte := by
      apply flatMap_congr'
      intro b hb
      exact enc_high b (utf8Char_high c h' b hb)
    rw [h3]
    have h2' : querySet.has c.toNat = true := h2
    simp [h1, percentEncodeRune, h2', runeBytes, Cfg.default]

theorem qe_eq (s : Bytes) : queryEscape Cfg.default s = E (san s) := by
  unfold queryEscape E san utf8
  rw [List.flatMap_assoc]
  apply flatMap_congr'
  intro c _
  exact enc_char c

/-! ### the parser does not see the escaping -/

theorem splitOn_ne_nil (sep : UInt8) (s : Bytes) : splitOn sep s ≠ [] := by
  cases s with
  | nil => simp [splitOn]
  | cons x xs =>
    unfold splitOn
    split
    · simp
    · split <;> simp

theorem splitOn_cons_ne (sep x : UInt8) (s h : Bytes) (t : List Bytes) (hx : x ≠ sep) (hs : splitOn sep s = h :: t) :
    splitOn sep (x :: s) = (x :: h) :: t := by
  have : (x == sep) = false := beq_false_of_ne hx
  rw [splitOn]
  simp [this, hs]

theorem splitOn_pre (sep : UInt8) (pre r h : Bytes) (t : List Bytes) (hp : ∀ y ∈ pre, y ≠ sep)
    (hs : splitOn sep r = h :: t) : splitOn sep (pre ++ r) = (pre ++ h) :: t := by
  induction pre with
  | nil => simpa using hs
  | cons y pre ih =>
    have := ih (fun z hz => hp z (by simp [hz]))
    exact splitOn_cons_ne sep y _ _ _ (hp y (by simp)) this

theorem splitOn_E (s : Bytes) : splitOn 0x26 (E s) = (splitOn 0x26 s).map E := by
  induction s with
  | nil => rfl
  | cons x s ih =>
    rw [E_cons]
    rcases enc_amp x with ⟨rfl, h⟩ | ⟨hx, h⟩
    · rw [h]
      simp [splitOn, ih, E_nil]
    · obtain ⟨hd, tl, hs⟩ : ∃ hd tl, splitOn 0x26 s = hd :: tl := by
        cases e : splitOn 0x26 s with
        | nil => exact absurd e (splitOn_ne_nil _ _)
        | cons a b => exact ⟨a, b, rfl⟩
      rw [hs] at ih
      rw [splitOn_pre _ _ _ _ _ h ih, splitOn_cons_ne _ _ _ _ _ hx hs]
      simp [E_cons]

theorem splitFirst_pre (sep : UInt8) (pre r : Bytes) (hp : ∀ y ∈ pre, y ≠ sep) :
    splitFirst sep (pre ++ r) = (pre ++ (splitFirst sep r).1, (splitFirst sep r).2) := by
  induction pre with
  | nil => simp
  | cons y pre ih =>
    have hy : (y == sep) = false := beq_false_of_ne (hp y (by simp))
    have := ih (fun z hz => hp z (by simp [hz]))
    simp [splitFirst, hy, this]

theorem splitFirst_E (s : Bytes) :
    splitFirst 0x3d (E s) = (E (splitFirst 0x3d s).1, (splitFirst 0x3d s).2.map E) := by
  induction s with
  | nil => rfl
  | cons x s ih =>
    rw [E_cons]
    rcases enc_eq x with ⟨rfl, h⟩ | ⟨hx, h⟩
    · rw [h]
      simp [splitFirst, E_nil]
    · have hx' : (x == 0x3d) = false := beq_false_of_ne hx
      rw [splitFirst_pre _ _ _ h, ih]
      simp [splitFirst, hx', E_cons]

theorem E_isEmpty (q : Bytes) : (E q).isEmpty = q.isEmpty := by
  cases q with
  | nil => rfl
  | cons x t =>
    rw [E_cons]
    have := enc_ne_nil x
    cases e : enc x with
    | nil => exact absurd e this
    | cons a b => rfl

theorem parseSeq_E (q : Bytes) : parseSeq Cfg.default (E q) = parseSeq Cfg.default q := by
  unfold parseSeq
  rw [E_isEmpty, splitFirst_E]
  simp only [decodePercent_default]
  have h1 := DRE' (splitFirst 0x3d q).1
  simp only [PD, R] at h1
  rw [h1]
  cases (splitFirst 0x3d q).2 with
  | none => rfl
  | some v =>
    have h2 := DRE' v
    simp only [PD, R] at h2
    simp only [Option.map_some, h2]

theorem spInit_E (s : Bytes) : spInit Cfg.default (E s) = spInit Cfg.default s := by
  rw [spInit_eq, spInit_eq, splitOn_E, List.filterMap_map]
  congr 1
  funext q
  exact parseSeq_E q

/-! ### the serializer as the escaped naive join -/

/-- `name=value` without any escaping (after Go's rune conversion) -/
def J (p : Bytes × Bytes) : Bytes := san p.1 ++ 0x3d :: san p.2
/-- the naive join of all pairs -/
def S0 (l : Pairs) : Bytes := intercalate [0x26] (l.map J)

theorem san_nil : san [] = [] := rfl

theorem spPairString_eq (p : Bytes × Bytes) : spPairString Cfg.default p = E (J p) := by
  unfold spPairString J
  have hs : Cfg.default.skipEquals = false := rfl
  have he : enc 0x3d = [0x3d] := by decide
  rw [E_append, E_cons, he, qe_eq, qe_eq]
  by_cases hv : p.2 = []
  · simp [hs, hv, san_nil, E_nil]
  · simp [hs, hv]

theorem E_intercalate (xs : List Bytes) : E (intercalate [0x26] xs) = intercalate [0x26] (xs.map E) := by
  have he : E [0x26] = [0x26] := by decide
  induction xs with
  | nil => rfl
  | cons x xs ih =>
    cases xs with
    | nil => rfl
    | cons y ys =>
      simp only [intercalate, List.map_cons, E_append, he]
      rw [ih]
      rfl

theorem spString_eq (l : Pairs) : spString Cfg.default l = E (S0 l) := by
  unfold spString S0
  rw [E_intercalate, List.map_map]
  congr 1
  apply List.map_congr_left
  intro p _
  exact spPairString_eq p

/-- serialize-then-parse is the parse of the naive join -/
theorem rt_eq (l : Pairs) : spInit Cfg.default (spString Cfg.default l) = spInit Cfg.default (S0 l) := by
  rw [spString_eq, spInit_E]

end WhatwgUrl.Proofs.SpExact
