import WhatwgUrl.Proofs.SaneInv4
import WhatwgUrl.Proofs.HeapInvNP
/-
  Helper for C02c: `PathOk` ("an opaque path has its element") is an invariant of the parser and of the setters, for EVERY
  configuration (unlike `SaneC`, which needs "file" to be a special scheme).
  Same technique as `Proofs/SaneInv*.lean` (shape predicate `ShG` + per-state invariant), with a much weaker invariant:
  in a fresh parse the path may be broken (`opq ∧ segs = []`, produced by `shorten` on an opaque base path) only while the
  machine is in the path state, and the path state repairs it before it is left / before the loop ends.
-/
namespace WhatwgUrl.Proofs.HeapInvPath
set_option linter.unusedSimpArgs false
set_option linter.unusedVariables false
open WhatwgUrl WhatwgUrl.Impl WhatwgUrl.Proofs.NoPanic WhatwgUrl.Proofs.SaneInv WhatwgUrl.Proofs.HeapInvNP
open WhatwgUrl.Proofs.Termination (next_pointer next_state next_eof bottom_cont herr_true)

/-- the invariant: fresh parse — `PathOk` outside the path state; under a state override — `PathOk` all the time, and a
    list path in the path states -/
def Kp (e : Env) (ps : PS) : Prop :=
  (e.ov = none → ps.state ≠ .path → PathOk ps.url) ∧
  (e.ov.isSome = true → ovSt ps.state = true ∧ PathOk ps.url ∧ (pathSt ps.state = true → ps.url.path.opq = false))

def PKp (e : Env) (ps : PS) : Prop := Kp e ps ∧ (ps.eof = true → PathOk ps.url)

def DKp (e : Env) (x : Res) : Prop := (x.ret = .url ∨ e.ov.isSome = true) → PathOk x.url

macro "pk_leaf" : tactic => `(tactic|
  (simp_all [PKp, Kp, DKp, PathOk, pathSt, ovSt, isSp, spBackslash, rewindLast, resetInput, rewind, writeRune,
     next_state, next_url, record_path, cleanDefaultPort_path, shorten_opq, addSegment_opq, setOpaque_opq, setOpaque_segs,
     init_opq, Core, repl]))

macro "pk_host" : tactic => `(tactic| (intro _ _ hc; pk_leaf))

macro "pk_step" : tactic => `(tactic| first
  | dsimp only
  | ((with_reducible apply ShG_done); pk_leaf; done)
  | ((with_reducible apply ShG_retUrl); pk_leaf; done)
  | ((with_reducible apply ShG_herr_true); pk_leaf; done)
  | ((with_reducible apply ShG_ite) <;> intro _)
  | (with_reducible refine ShG_herr _ _ _ _ _ _ _ (by pk_leaf) ?_)
  | ((with_reducible refine ShG_parseHost _ _ _ _ _ _ _ _ _ (by pk_host) ?_); intro _ _ hc)
  | split
  | ((with_reducible apply ShG_cont); unfold PKp; refine ⟨?_, fun heof => ?_⟩ <;> pk_leaf))

theorem stSchemeStart_pk (e : Env) (q : PS) (r : Char) (hst : q.state = .schemeStart) (hK : Kp e q)
    (hB : ∀ b, e.base = some b → PathOk b) (hrepl : q.eof = true → r = repl) : ShG (PKp e) (DKp e) (stSchemeStart e q r) := by
  obtain ⟨cfg, I, src, runes, base, ov⟩ := e
  cases ov <;> cases base <;> unfold stSchemeStart <;> repeat' pk_step

theorem stScheme_pk (e : Env) (q : PS) (r : Char) (hst : q.state = .scheme) (hK : Kp e q)
    (hB : ∀ b, e.base = some b → PathOk b) (hrepl : q.eof = true → r = repl) : ShG (PKp e) (DKp e) (stScheme e q r) := by
  obtain ⟨cfg, I, src, runes, base, ov⟩ := e
  cases ov <;> cases base <;> unfold stScheme <;> repeat' pk_step

theorem stNoScheme_pk (e : Env) (q : PS) (r : Char) (hst : q.state = .noScheme) (hK : Kp e q)
    (hB : ∀ b, e.base = some b → PathOk b) (hrepl : q.eof = true → r = repl) : ShG (PKp e) (DKp e) (stNoScheme e q r) := by
  obtain ⟨cfg, I, src, runes, base, ov⟩ := e
  cases ov <;> cases base <;> unfold stNoScheme <;> repeat' pk_step

theorem stSpecialRelativeOrAuthority_pk (e : Env) (q : PS) (r : Char) (hst : q.state = .specialRelativeOrAuthority) (hK : Kp e q)
    (hB : ∀ b, e.base = some b → PathOk b) (hrepl : q.eof = true → r = repl) : ShG (PKp e) (DKp e) (stSpecialRelativeOrAuthority e q r) := by
  obtain ⟨cfg, I, src, runes, base, ov⟩ := e
  cases ov <;> cases base <;> unfold stSpecialRelativeOrAuthority <;> repeat' pk_step

theorem stPathOrAuthority_pk (e : Env) (q : PS) (r : Char) (hst : q.state = .pathOrAuthority) (hK : Kp e q)
    (hB : ∀ b, e.base = some b → PathOk b) (hrepl : q.eof = true → r = repl) : ShG (PKp e) (DKp e) (stPathOrAuthority e q r) := by
  obtain ⟨cfg, I, src, runes, base, ov⟩ := e
  cases ov <;> cases base <;> unfold stPathOrAuthority <;> repeat' pk_step

theorem stRelative_pk (e : Env) (q : PS) (r : Char) (hst : q.state = .relative) (hK : Kp e q)
    (hB : ∀ b, e.base = some b → PathOk b) (hrepl : q.eof = true → r = repl) : ShG (PKp e) (DKp e) (stRelative e q r) := by
  obtain ⟨cfg, I, src, runes, base, ov⟩ := e
  cases ov <;> cases base <;> unfold stRelative <;> repeat' pk_step

theorem stRelativeSlash_pk (e : Env) (q : PS) (r : Char) (hst : q.state = .relativeSlash) (hK : Kp e q)
    (hB : ∀ b, e.base = some b → PathOk b) (hrepl : q.eof = true → r = repl) : ShG (PKp e) (DKp e) (stRelativeSlash e q r) := by
  obtain ⟨cfg, I, src, runes, base, ov⟩ := e
  cases ov <;> cases base <;> unfold stRelativeSlash <;> repeat' pk_step

theorem stSpecialAuthoritySlashes_pk (e : Env) (q : PS) (r : Char) (hst : q.state = .specialAuthoritySlashes) (hK : Kp e q)
    (hB : ∀ b, e.base = some b → PathOk b) (hrepl : q.eof = true → r = repl) : ShG (PKp e) (DKp e) (stSpecialAuthoritySlashes e q r) := by
  obtain ⟨cfg, I, src, runes, base, ov⟩ := e
  cases ov <;> cases base <;> unfold stSpecialAuthoritySlashes <;> repeat' pk_step

theorem stSpecialAuthorityIgnoreSlashes_pk (e : Env) (q : PS) (r : Char) (hst : q.state = .specialAuthorityIgnoreSlashes) (hK : Kp e q)
    (hB : ∀ b, e.base = some b → PathOk b) (hrepl : q.eof = true → r = repl) : ShG (PKp e) (DKp e) (stSpecialAuthorityIgnoreSlashes e q r) := by
  obtain ⟨cfg, I, src, runes, base, ov⟩ := e
  cases ov <;> cases base <;> unfold stSpecialAuthorityIgnoreSlashes <;> repeat' pk_step

theorem stAuthority_pk (e : Env) (q : PS) (r : Char) (hst : q.state = .authority) (hK : Kp e q)
    (hB : ∀ b, e.base = some b → PathOk b) (hrepl : q.eof = true → r = repl) : ShG (PKp e) (DKp e) (stAuthority e q r) := by
  obtain ⟨cfg, I, src, runes, base, ov⟩ := e
  cases ov <;> cases base <;> unfold stAuthority <;> repeat' pk_step

theorem stPort_pk (e : Env) (q : PS) (r : Char) (hst : q.state = .port) (hK : Kp e q)
    (hB : ∀ b, e.base = some b → PathOk b) (hrepl : q.eof = true → r = repl) : ShG (PKp e) (DKp e) (stPort e q r) := by
  obtain ⟨cfg, I, src, runes, base, ov⟩ := e
  cases ov <;> cases base <;> unfold stPort <;> repeat' pk_step

theorem stFile_pk (e : Env) (q : PS) (r : Char) (hst : q.state = .file) (hK : Kp e q)
    (hB : ∀ b, e.base = some b → PathOk b) (hrepl : q.eof = true → r = repl) : ShG (PKp e) (DKp e) (stFile e q r) := by
  obtain ⟨cfg, I, src, runes, base, ov⟩ := e
  cases ov <;> cases base <;> unfold stFile <;> repeat' pk_step

theorem stFileSlash_pk (e : Env) (q : PS) (r : Char) (hst : q.state = .fileSlash) (hK : Kp e q)
    (hB : ∀ b, e.base = some b → PathOk b) (hrepl : q.eof = true → r = repl) : ShG (PKp e) (DKp e) (stFileSlash e q r) := by
  obtain ⟨cfg, I, src, runes, base, ov⟩ := e
  cases ov <;> cases base <;> unfold stFileSlash <;> repeat' pk_step

theorem stFileHost_pk (e : Env) (q : PS) (r : Char) (hst : q.state = .fileHost) (hK : Kp e q)
    (hB : ∀ b, e.base = some b → PathOk b) (hrepl : q.eof = true → r = repl) : ShG (PKp e) (DKp e) (stFileHost e q r) := by
  obtain ⟨cfg, I, src, runes, base, ov⟩ := e
  cases ov <;> cases base <;> unfold stFileHost <;> repeat' pk_step

theorem stPathStart_pk (e : Env) (q : PS) (r : Char) (hst : q.state = .pathStart) (hK : Kp e q)
    (hB : ∀ b, e.base = some b → PathOk b) (hrepl : q.eof = true → r = repl) : ShG (PKp e) (DKp e) (stPathStart e q r) := by
  obtain ⟨cfg, I, src, runes, base, ov⟩ := e
  cases ov <;> cases base <;> unfold stPathStart <;> repeat' pk_step

theorem stOpaquePath_pk (e : Env) (q : PS) (r : Char) (hst : q.state = .opaquePath) (hK : Kp e q)
    (hB : ∀ b, e.base = some b → PathOk b) (hrepl : q.eof = true → r = repl) : ShG (PKp e) (DKp e) (stOpaquePath e q r) := by
  obtain ⟨cfg, I, src, runes, base, ov⟩ := e
  cases ov <;> unfold stOpaquePath unitChecks <;> repeat' pk_step

theorem stQuery_pk (e : Env) (q : PS) (r : Char) (hst : q.state = .query) (hK : Kp e q)
    (hB : ∀ b, e.base = some b → PathOk b) (hrepl : q.eof = true → r = repl) : ShG (PKp e) (DKp e) (stQuery e q r) := by
  obtain ⟨cfg, I, src, runes, base, ov⟩ := e
  cases ov <;> unfold stQuery unitChecks <;> repeat' pk_step

theorem stFragment_pk (e : Env) (q : PS) (r : Char) (hst : q.state = .fragment) (hK : Kp e q)
    (hB : ∀ b, e.base = some b → PathOk b) (hrepl : q.eof = true → r = repl) : ShG (PKp e) (DKp e) (stFragment e q r) := by
  obtain ⟨cfg, I, src, runes, base, ov⟩ := e
  cases ov <;> unfold stFragment unitChecks <;> repeat' pk_step

set_option maxHeartbeats 1000000 in
theorem stHost_pk (e : Env) (q : PS) (r : Char) (hst : q.state = .host ∨ q.state = .hostname) (hK : Kp e q)
    (hB : ∀ b, e.base = some b → PathOk b) (hrepl : q.eof = true → r = repl) : ShG (PKp e) (DKp e) (stHost e q r) := by
  obtain ⟨cfg, I, src, runes, base, ov⟩ := e
  rcases hst with hst | hst <;> cases ov <;> unfold stHost <;> repeat' pk_step


end WhatwgUrl.Proofs.HeapInvPath
