import WhatwgUrl.Impl.Heap
/-
  Helper lemmas for C16c (skip-equals): Go's `strings.Split` / `strings.SplitN` on separator-free pieces, the body of
  `SearchParams.init` on one `&`-separated sequence.  Self-contained on purpose (importing `Proofs/SearchParams.lean`
  together with `Proofs/Percent.lean` clashes on an auto-generated auxiliary constant).
-/
namespace WhatwgUrl.Proofs.SkipEquals
open WhatwgUrl WhatwgUrl.Impl

theorem splitOn_ne_nil (sep : UInt8) (s : Bytes) : splitOn sep s ≠ [] := by
  cases s with
  | nil => simp [splitOn]
  | cons x xs =>
    unfold splitOn
    split
    · simp
    · split <;> simp

/-- `strings.Split` distributes over a separator -/
theorem splitOn_append_sep_gen (sep : UInt8) (s t : Bytes) :
    splitOn sep (s ++ sep :: t) = splitOn sep s ++ splitOn sep t := by
  induction s with
  | nil => simp [splitOn]
  | cons x xs ih =>
    by_cases hx : (x == sep) = true
    · simp [splitOn, hx, ih]
    · simp only [List.cons_append, splitOn, hx, Bool.false_eq_true, ↓reduceIte, ih]
      cases h : splitOn sep xs with
      | nil => exact absurd h (splitOn_ne_nil sep xs)
      | cons a as => simp

theorem splitOn_intercalate_gen (sep : UInt8) (s : Bytes) (segs : List Bytes) :
    splitOn sep (intercalate [sep] (s :: segs)) = (s :: segs).flatMap (splitOn sep) := by
  induction segs generalizing s with
  | nil => simp [intercalate]
  | cons s' segs ih =>
    simp only [intercalate, List.append_assoc, List.singleton_append]
    rw [splitOn_append_sep_gen, ih s']
    simp

theorem splitOn_no_sep (sep : UInt8) (s : Bytes) (hs : ∀ x ∈ s, x ≠ sep) : splitOn sep s = [s] := by
  induction s with
  | nil => rfl
  | cons x xs ih =>
    have hx : (x == sep) = false := by simpa using hs x (by simp)
    have := ih (fun y hy => hs y (by simp [hy]))
    simp [splitOn, hx, this]

theorem splitFirst_append_sep (sep : UInt8) (s t : Bytes) (hs : ∀ x ∈ s, x ≠ sep) :
    splitFirst sep (s ++ sep :: t) = (s, some t) := by
  induction s with
  | nil => simp [splitFirst]
  | cons x xs ih =>
    have hx : (x == sep) = false := by simpa using hs x (by simp)
    have := ih (fun y hy => hs y (by simp [hy]))
    simp [splitFirst, hx, this]

theorem splitFirst_no_sep (sep : UInt8) (s : Bytes) (hs : ∀ x ∈ s, x ≠ sep) : splitFirst sep s = (s, none) := by
  induction s with
  | nil => rfl
  | cons x xs ih =>
    have hx : (x == sep) = false := by simpa using hs x (by simp)
    have := ih (fun y hy => hs y (by simp [hy]))
    simp [splitFirst, hx, this]

theorem decodePercent_nil (cfg : Cfg) : decodePercent cfg [] = [] := by simp [decodePercent]

theorem decodePercent_cons_ne (cfg : Cfg) (x : UInt8) (t : Bytes) (hx : x ≠ 0x25) :
    decodePercent cfg (x :: t) = x :: decodePercent cfg t := by
  match t with
  | [] => simp [decodePercent]
  | [_] => simp [decodePercent]
  | _ :: _ :: _ => simp [decodePercent, hx]

/-- without a `%` the percent decoder is the identity -/
theorem decodePercent_noPct (cfg : Cfg) (s : Bytes) (h : ∀ x ∈ s, x ≠ 0x25) : decodePercent cfg s = s := by
  induction s with
  | nil => exact decodePercent_nil cfg
  | cons x xs ih =>
    rw [decodePercent_cons_ne cfg x xs (h x (by simp)), ih (fun y hy => h y (by simp [hy]))]

/-- the body of `spInit`: one `&`-separated sequence -/
def parseSeq (cfg : Cfg) (q : Bytes) : Option (Bytes × Bytes) :=
  if q.isEmpty then none
  else
    some (decodePercent cfg (replaceByte 0x2b 0x20 (splitFirst 0x3d q).1),
          match (splitFirst 0x3d q).2 with
          | some v => decodePercent cfg (replaceByte 0x2b 0x20 v)
          | none => [])

theorem spInit_eq (cfg : Cfg) (query : Bytes) :
    spInit cfg query = (splitOn 0x26 query).filterMap (parseSeq cfg) := rfl

/-- a sequence without `=` parses to the same pair with and without a final `=` -/
theorem parseSeq_trailing_eq (cfg : Cfg) (q : Bytes) (hne : q ≠ []) (hq : ∀ x ∈ q, x ≠ 0x3d) :
    parseSeq cfg (q ++ [0x3d]) = parseSeq cfg q := by
  unfold parseSeq
  have h1 : (q ++ [0x3d]).isEmpty = false := by simp
  have h2 : q.isEmpty = false := by simpa using hne
  rw [h1, h2, splitFirst_append_sep 0x3d q [] hq, splitFirst_no_sep 0x3d q hq]
  simp [replaceByte, decodePercent_nil]

theorem flatMap_filterMap_congr {α β : Type} (f f' : α → Bytes) (g : Bytes → Option β) (sep : UInt8) (l : List α)
    (h : ∀ a ∈ l, (splitOn sep (f a)).filterMap g = (splitOn sep (f' a)).filterMap g) :
    ((l.map f).flatMap (splitOn sep)).filterMap g = ((l.map f').flatMap (splitOn sep)).filterMap g := by
  induction l with
  | nil => rfl
  | cons a as ih =>
    simp only [List.map_cons, List.flatMap_cons, List.filterMap_append]
    rw [h a (by simp), ih (fun b hb => h b (by simp [hb]))]

theorem intercalate_length (sep : Bytes) (l : List Bytes) :
    (intercalate sep l).length = (l.map List.length).sum + (l.length - 1) * sep.length := by
  induction l with
  | nil => simp [intercalate]
  | cons x xs ih =>
    cases xs with
    | nil => simp [intercalate]
    | cons y ys =>
      simp only [intercalate, List.length_append, ih, List.map_cons, List.sum_cons, List.length_cons]
      simp only [Nat.add_sub_cancel, Nat.add_mul]
      omega

end WhatwgUrl.Proofs.SkipEquals
