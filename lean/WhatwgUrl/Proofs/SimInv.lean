import WhatwgUrl.Proofs.SimDefs2
import WhatwgUrl.Proofs.Termination
import WhatwgUrl.Proofs.SimPrologue
/-
  The invariant `XInv` of `SimDefs2.lean` holds initially and is preserved by every continuing iteration of the Go
  machine (default configuration; the host parser's frame property `HostFrame` is a hypothesis, it is `parseHost_url`
  of `Proofs/SimHost.lean`). The per-state simulation lemmas may therefore assume it.
-/
namespace WhatwgUrl.Proofs.Sim
open WhatwgUrl WhatwgUrl.Impl WhatwgUrl.Proofs.Termination

/-! ### `herr` in the default configuration -/

theorem herr_false_default (e : Env) (hcfg : e.cfg = {}) (ps : PS) (t : ErrT) (k : PS → StepR) :
    herr e ps t false k = k ps := by
  unfold herr
  rw [hcfg]
  rfl

theorem herr_true_default (e : Env) (hcfg : e.cfg = {}) (ps : PS) (t : ErrT) (k : PS → StepR) :
    herr e ps t true k = .done ⟨ps.url, .err ⟨t, true⟩ false⟩ := by
  unfold herr
  rw [hcfg]
  rfl

/-! ### projections -/

theorem next_buffer (rs : Str) (ps : PS) : (next rs ps).1.buffer = ps.buffer := by unfold next; split <;> rfl
theorem next_url (rs : Str) (ps : PS) : (next rs ps).1.url = ps.url := by unfold next; split <;> rfl

theorem shorten_opq (p : Path) (s : Bytes) : (p.shorten s).opq = p.opq := by
  unfold Path.shorten; split
  · rfl
  · split <;> rfl
theorem addSegment_opq (p : Path) (s : Bytes) : (p.addSegment s).opq = false := rfl

theorem cleanDefaultPort_path (cfg : Cfg) (u : Url) : (cleanDefaultPort cfg u).path = u.path := by
  unfold cleanDefaultPort
  split
  · split <;> rfl
  · rfl

theorem isSpecial_file : Cfg.isSpecial {} (lit "file") = true := by decide

/-- a base with scheme "file" has no opaque path -/
theorem EnvOk.file {e : Env} (hE : EnvOk e) (hcfg : e.cfg = {}) (b : Url) (hb : e.base = some b)
    (hs : (b.scheme == lit "file") = true) : b.path.opq = false := by
  have := hE b hb
  unfold BaseOk at this
  rw [hcfg, eq_of_beq hs] at this
  exact this isSpecial_file

theorem ite_some_pred {α : Type} (P : α → Prop) {c : Prop} [Decidable c] {a b : Option α}
    (ha : ∀ x, a = some x → P x) (hb : ∀ x, b = some x → P x) : ∀ x, (if c then a else b) = some x → P x := by
  intro x h
  split at h
  · exact ha x h
  · exact hb x h

theorem goRunes_writeRune_length (b : Bytes) (c : Char) : (goRunes (b ++ utf8Char c)).length = (goRunes b).length + 1 := by
  rw [goRunes_append_utf8Char]; simp

/-- the invariant as the state functions see it (after `next`) -/
structure XPre (e : Env) (q : PS) : Prop where
  ptr : 0 ≤ q.pointer
  auth : q.state = .authority → ((goRunes q.buffer).length : Int) ≤ q.pointer
  buf : bufEmptySt q.state = true → q.buffer = []
  rel : relSt q.state = true → ∃ b, e.base = some b ∧ b.path.opq = false
  opq : q.url.path.opq = true → opqSt q.state = true ∨ (e.ov.isSome = true ∧ ovOpqSt q.state = true)

theorem XPre_of_next (e : Env) (pi : PS) (h : XCore e pi) : XPre e (next e.runes pi).1 := by
  obtain ⟨h1, h2, h3, h4, h5⟩ := h
  refine ⟨?_, ?_, ?_, ?_, ?_⟩
  · rw [next_pointer]; omega
  · rw [next_state, next_buffer, next_pointer]; exact h2
  · rw [next_state, next_buffer]; exact h3
  · rw [next_state]; exact h4
  · rw [next_state, next_url]; exact h5

/-- the host parser keeps the path -/
theorem HostFrame.path {I : Idna} (hF : HostFrame I) (u : Url) (b : Bytes) (ns : Bool) :
    (parseHost {} I u b ns).url.path = u.path := by
  have h := congrArg Url.path (hF u b ns)
  exact h

theorem Sh_afterHost_frame (P : PS → Prop) (I : Idna) (hF : HostFrame I) (buf : Bytes) (ns : Bool) (ps : PS)
    (k : PS → Bytes → StepR)
    (h : ∀ u b, u.path = ps.url.path → Sh P (k { ps with url := u } b)) :
    Sh P (afterHost (parseHost {} I ps.url buf ns) ps k) := by
  unfold afterHost
  split
  · exact h _ _ (hF.path _ _ _)
  · exact Sh_done _ _ (by simp)
  · exact Sh_done _ _ (by simp)

/-- close a leaf `XCore e {…}` -/
macro "xleaf" : tactic => `(tactic|
  (refine ⟨?_, ?_, ?_, ?_, ?_⟩ <;>
   (simp_all [rewindLast, resetInput, rewind, writeRune, next_pointer, next_state, next_buffer, next_url,
      bufEmptySt, relSt, opqSt, ovOpqSt, shorten_opq, addSegment_opq, Path.setOpaque, Path.init, cleanDefaultPort_path,
      goRunes_writeRune_length] <;> omega)))

macro "x_step" : tactic => `(tactic| first
  | (apply Sh_done; simp; done)
  | apply Sh_retUrl
  | (apply Sh_ite <;> intro _)
  | (apply Sh_afterHost_frame _ _ (by assumption); intro _ _ _)
  | dsimp only
  | split
  | (apply Sh_cont; xleaf))

theorem stSchemeStart_inv (e : Env) (q : PS) (r : Char) (hcfg : e.cfg = {}) (hst : q.state = .schemeStart)
    (hq : XPre e q) : Sh (XCore e) (stSchemeStart e q r) := by
  obtain ⟨hp, ha, hb, hr, ho⟩ := hq
  unfold stSchemeStart
  simp only [herr_false_default e hcfg, herr_true_default e hcfg]
  repeat' x_step

theorem stNoScheme_inv (e : Env) (q : PS) (r : Char) (hcfg : e.cfg = {}) (hst : q.state = .noScheme)
    (hq : XPre e q) : Sh (XCore e) (stNoScheme e q r) := by
  obtain ⟨hp, ha, hb, hr, ho⟩ := hq
  unfold stNoScheme
  simp only [herr_false_default e hcfg, herr_true_default e hcfg]
  repeat' x_step

theorem stAuthority_inv (e : Env) (q : PS) (r : Char) (hcfg : e.cfg = {}) (hst : q.state = .authority)
    (hq : XPre e q) : Sh (XCore e) (stAuthority e q r) := by
  obtain ⟨hp, ha, hb, hr, ho⟩ := hq
  unfold stAuthority
  simp only [herr_false_default e hcfg, herr_true_default e hcfg]
  repeat' x_step

theorem stScheme_inv (e : Env) (q : PS) (r : Char) (hcfg : e.cfg = {}) (hE : EnvOk e) (hst : q.state = .scheme)
    (hq : XPre e q) : Sh (XCore e) (stScheme e q r) := by
  obtain ⟨hp, ha, hb, hr, ho⟩ := hq
  unfold stScheme
  simp only [herr_false_default e hcfg, herr_true_default e hcfg]
  cases hbase : e.base with
  | none => simp only []; repeat' x_step
  | some b =>
    have hsp : e.cfg.isSpecial b.scheme = true → b.path.opq = false := hE b hbase
    simp only [isSp]
    repeat' x_step

theorem stSpecialRelativeOrAuthority_inv (e : Env) (q : PS) (r : Char) (hcfg : e.cfg = {}) (hE : EnvOk e) (hst : q.state = .specialRelativeOrAuthority)
    (hq : XPre e q) : Sh (XCore e) (stSpecialRelativeOrAuthority e q r) := by
  obtain ⟨hp, ha, hb, hr, ho⟩ := hq
  unfold stSpecialRelativeOrAuthority
  simp only [herr_false_default e hcfg, herr_true_default e hcfg]
  repeat' x_step

theorem stPathOrAuthority_inv (e : Env) (q : PS) (r : Char) (hcfg : e.cfg = {}) (hE : EnvOk e) (hst : q.state = .pathOrAuthority)
    (hq : XPre e q) : Sh (XCore e) (stPathOrAuthority e q r) := by
  obtain ⟨hp, ha, hb, hr, ho⟩ := hq
  unfold stPathOrAuthority
  simp only [herr_false_default e hcfg, herr_true_default e hcfg]
  repeat' x_step

theorem stRelative_inv (e : Env) (q : PS) (r : Char) (hcfg : e.cfg = {}) (hE : EnvOk e) (hst : q.state = .relative)
    (hq : XPre e q) : Sh (XCore e) (stRelative e q r) := by
  obtain ⟨hp, ha, hb, hr, ho⟩ := hq
  unfold stRelative
  simp only [herr_false_default e hcfg, herr_true_default e hcfg]
  repeat' x_step

theorem stRelativeSlash_inv (e : Env) (q : PS) (r : Char) (hcfg : e.cfg = {}) (hE : EnvOk e) (hst : q.state = .relativeSlash)
    (hq : XPre e q) : Sh (XCore e) (stRelativeSlash e q r) := by
  obtain ⟨hp, ha, hb, hr, ho⟩ := hq
  unfold stRelativeSlash
  simp only [herr_false_default e hcfg, herr_true_default e hcfg]
  repeat' x_step

theorem stSpecialAuthoritySlashes_inv (e : Env) (q : PS) (r : Char) (hcfg : e.cfg = {}) (hE : EnvOk e) (hst : q.state = .specialAuthoritySlashes)
    (hq : XPre e q) : Sh (XCore e) (stSpecialAuthoritySlashes e q r) := by
  obtain ⟨hp, ha, hb, hr, ho⟩ := hq
  unfold stSpecialAuthoritySlashes
  simp only [herr_false_default e hcfg, herr_true_default e hcfg]
  repeat' x_step

theorem stSpecialAuthorityIgnoreSlashes_inv (e : Env) (q : PS) (r : Char) (hcfg : e.cfg = {}) (hE : EnvOk e) (hst : q.state = .specialAuthorityIgnoreSlashes)
    (hq : XPre e q) : Sh (XCore e) (stSpecialAuthorityIgnoreSlashes e q r) := by
  obtain ⟨hp, ha, hb, hr, ho⟩ := hq
  unfold stSpecialAuthorityIgnoreSlashes
  simp only [herr_false_default e hcfg, herr_true_default e hcfg]
  repeat' x_step

theorem stPort_inv (e : Env) (q : PS) (r : Char) (hcfg : e.cfg = {}) (hE : EnvOk e) (hst : q.state = .port)
    (hq : XPre e q) : Sh (XCore e) (stPort e q r) := by
  obtain ⟨hp, ha, hb, hr, ho⟩ := hq
  unfold stPort
  simp only [herr_false_default e hcfg, herr_true_default e hcfg]
  repeat' x_step

theorem stFile_inv (e : Env) (q : PS) (r : Char) (hcfg : e.cfg = {}) (hE : EnvOk e) (hst : q.state = .file)
    (hq : XPre e q) : Sh (XCore e) (stFile e q r) := by
  obtain ⟨hp, ha, hb, hr, ho⟩ := hq
  have hfile := hE.file hcfg
  unfold stFile
  simp only [herr_false_default e hcfg, herr_true_default e hcfg]
  repeat' x_step

theorem stFileSlash_inv (e : Env) (q : PS) (r : Char) (hcfg : e.cfg = {}) (hE : EnvOk e) (hst : q.state = .fileSlash)
    (hq : XPre e q) : Sh (XCore e) (stFileSlash e q r) := by
  obtain ⟨hp, ha, hb, hr, ho⟩ := hq
  unfold stFileSlash
  simp only [herr_false_default e hcfg, herr_true_default e hcfg]
  repeat' x_step

theorem stPathStart_inv (e : Env) (q : PS) (r : Char) (hcfg : e.cfg = {}) (hE : EnvOk e) (hst : q.state = .pathStart)
    (hq : XPre e q) : Sh (XCore e) (stPathStart e q r) := by
  obtain ⟨hp, ha, hb, hr, ho⟩ := hq
  unfold stPathStart
  simp only [herr_false_default e hcfg, herr_true_default e hcfg]
  repeat' x_step

theorem stPath_inv (e : Env) (q : PS) (r : Char) (hcfg : e.cfg = {}) (hE : EnvOk e) (hst : q.state = .path)
    (hq : XPre e q) : Sh (XCore e) (stPath e q r) := by
  obtain ⟨hp, ha, hb, hr, ho⟩ := hq
  have hq0 : q.url.path.opq = false := by
    cases h : q.url.path.opq with
    | false => rfl
    | true => simp_all [opqSt, ovOpqSt]
  unfold stPath unitChecks
  simp only [herr_false_default e hcfg, herr_true_default e hcfg]
  apply Sh_ite <;> intro _
  · apply Sh_ite <;> intro _
    all_goals
      split
      · apply Sh_done; simp
      · rename_i res url snd heq
        have hu : url.path.opq = false :=
          (show ∀ x : Url × Bytes, _ = some x → x.1.path.opq = false from by
            repeat' (first
              | apply ite_some_pred (fun x : Url × Bytes => x.1.path.opq = false)
              | (intro x hx; cases hx; (try split) <;> simp [shorten_opq, addSegment_opq, hq0]))) (url, snd) heq
        clear heq
        repeat' x_step
  · repeat' x_step

theorem stOpaquePath_inv (e : Env) (q : PS) (r : Char) (hcfg : e.cfg = {}) (hE : EnvOk e) (hst : q.state = .opaquePath)
    (hq : XPre e q) : Sh (XCore e) (stOpaquePath e q r) := by
  obtain ⟨hp, ha, hb, hr, ho⟩ := hq
  unfold stOpaquePath unitChecks
  simp only [herr_false_default e hcfg, herr_true_default e hcfg]
  repeat' x_step

theorem stQuery_inv (e : Env) (q : PS) (r : Char) (hcfg : e.cfg = {}) (hE : EnvOk e) (hst : q.state = .query)
    (hq : XPre e q) : Sh (XCore e) (stQuery e q r) := by
  obtain ⟨hp, ha, hb, hr, ho⟩ := hq
  unfold stQuery unitChecks
  simp only [herr_false_default e hcfg, herr_true_default e hcfg]
  repeat' x_step

theorem stFragment_inv (e : Env) (q : PS) (r : Char) (hcfg : e.cfg = {}) (hE : EnvOk e) (hst : q.state = .fragment)
    (hq : XPre e q) : Sh (XCore e) (stFragment e q r) := by
  obtain ⟨hp, ha, hb, hr, ho⟩ := hq
  unfold stFragment unitChecks
  simp only [herr_false_default e hcfg, herr_true_default e hcfg]
  repeat' x_step

theorem stHost_inv (e : Env) (q : PS) (r : Char) (hcfg : e.cfg = {}) (hF : HostFrame e.I)
    (hst : q.state = .host ∨ q.state = .hostname) (hq : XPre e q) : Sh (XCore e) (stHost e q r) := by
  obtain ⟨hp, ha, hb, hr, ho⟩ := hq
  unfold stHost
  simp only [herr_false_default e hcfg, herr_true_default e hcfg]
  rw [hcfg]
  rcases hst with hst | hst <;> repeat' x_step

theorem stFileHost_inv (e : Env) (q : PS) (r : Char) (hcfg : e.cfg = {}) (hF : HostFrame e.I)
    (hst : q.state = .fileHost) (hq : XPre e q) : Sh (XCore e) (stFileHost e q r) := by
  obtain ⟨hp, ha, hb, hr, ho⟩ := hq
  unfold stFileHost
  simp only [herr_false_default e hcfg, herr_true_default e hcfg]
  rw [hcfg]
  repeat' x_step

/-! ### the switch, one iteration, the initial state -/

theorem body_inv (e : Env) (q : PS) (r : Char) (hcfg : e.cfg = {}) (hF : HostFrame e.I) (hE : EnvOk e) (hq : XPre e q) :
    Sh (XCore e) (body e q r) := by
  unfold body
  split <;> rename_i heq
  · exact stSchemeStart_inv e q r hcfg heq hq
  · exact stScheme_inv e q r hcfg hE heq hq
  · exact stNoScheme_inv e q r hcfg heq hq
  · exact stOpaquePath_inv e q r hcfg hE heq hq
  · exact stSpecialRelativeOrAuthority_inv e q r hcfg hE heq hq
  · exact stSpecialAuthoritySlashes_inv e q r hcfg hE heq hq
  · exact stSpecialAuthorityIgnoreSlashes_inv e q r hcfg hE heq hq
  · exact stPathOrAuthority_inv e q r hcfg hE heq hq
  · exact stAuthority_inv e q r hcfg heq hq
  · exact stHost_inv e q r hcfg hF (Or.inl heq) hq
  · exact stHost_inv e q r hcfg hF (Or.inr heq) hq
  · exact stFile_inv e q r hcfg hE heq hq
  · exact stFileHost_inv e q r hcfg hF heq hq
  · exact stFileSlash_inv e q r hcfg hE heq hq
  · exact stPort_inv e q r hcfg hE heq hq
  · exact stPath_inv e q r hcfg hE heq hq
  · exact stPathStart_inv e q r hcfg hE heq hq
  · exact stQuery_inv e q r hcfg hE heq hq
  · exact stFragment_inv e q r hcfg hE heq hq
  · exact stRelative_inv e q r hcfg hE heq hq
  · exact stRelativeSlash_inv e q r hcfg hE heq hq

/-- the invariant is preserved by every continuing iteration (default configuration) -/
theorem XInv_step (e : Env) (hcfg : e.cfg = {}) (hF : HostFrame e.I) (hE : EnvOk e) (pi pi' : PS) (he : pi.eof = false)
    (h : XInv e pi) (hs : step e pi = .cont pi') : XInv e pi' := by
  refine ⟨(step_cont e pi pi' ⟨h.lt, he⟩ hs).1.1, ?_⟩
  unfold step at hs
  rw [bottom_cont] at hs
  exact (body_inv e _ _ hcfg hF hE (XPre_of_next e pi h.core)).1 pi' hs.1

/-- the invariant holds for the initial state of `basicParser` (the two side conditions hold for a fresh url without
    override, and for every setter: see `SimParse.lean`, `SimSetters.lean`) -/
theorem XInv_init (e : Env) (st : State) (u : Url) (hrel : relSt st = false)
    (hopq : u.path.opq = true → opqSt st = true ∨ (e.ov.isSome = true ∧ ovOpqSt st = true)) :
    XInv e { state := st, pointer := -1, eof := false, buffer := [], atFlag := false, bracketFlag := false,
             pwSeen := false, url := u } := by
  refine ⟨by show (-1 : Int) < _; omega, ⟨Int.le_refl _, ?_, fun _ => rfl, ?_, hopq⟩⟩
  · intro _; show ((goRunes []).length : Int) ≤ -1 + 1; simp
  · intro h; rw [hrel] at h; cases h

end WhatwgUrl.Proofs.Sim
