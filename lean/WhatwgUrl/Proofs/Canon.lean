import WhatwgUrl.Impl.Canon
/-
  Helper lemmas about the canonicalizer's percent codec (`canonDecode`, `repeatedDecode`, `canonEncode`),
  shared by Props/C17 and Props/C18.  Core Lean only.
-/
namespace WhatwgUrl.Proofs.Canon
open WhatwgUrl WhatwgUrl.Impl

/-- a statement about all bytes can be checked on the 256 values -/
theorem forall_uint8 (P : UInt8 → Prop) (h : ∀ i : Fin 256, P (UInt8.ofNat i.val)) : ∀ x, P x := fun x => by
  have := h ⟨x.toNat, x.toNat_lt⟩
  simpa using this

/-! ### one decode pass -/

/-- does the text start with two hex digits? -/
def hex2 : Bytes → Bool
  | h1 :: h2 :: _ => isHexN h1.toNat && isHexN h2.toNat
  | _ => false

/-- the decoded value of the two hex digits at the head of the text -/
def hexByte (h1 h2 : UInt8) : UInt8 := (hexVal h1.toNat * 16 + hexVal h2.toNat).toUInt8

theorem canonDecode_esc (h1 h2 : UInt8) (r : Bytes) (a : isHexN h1.toNat = true) (b : isHexN h2.toNat = true) :
    canonDecode (0x25 :: h1 :: h2 :: r) = hexByte h1 h2 :: canonDecode r := by
  rw [canonDecode.eq_2]; simp [a, b, hexByte]

/-- a byte that does not start a decodable escape is copied -/
theorem canonDecode_cons_of_not (x : UInt8) (r : Bytes) (h : ¬(x = 0x25 ∧ hex2 r = true)) :
    canonDecode (x :: r) = x :: canonDecode r := by
  match r with
  | [] => rw [canonDecode.eq_3]; intro _ _ _ h; cases h
  | [a] => rw [canonDecode.eq_3]; intro _ _ _ h; cases h
  | h1 :: h2 :: r' =>
    rw [canonDecode.eq_2]
    split
    · rename_i hc
      exfalso; apply h
      simp only [Bool.and_eq_true, beq_iff_eq] at hc
      exact ⟨hc.1.1, by simp [hex2, hc.1.2, hc.2]⟩
    · rfl

theorem canonDecode_cons_ne (x : UInt8) (r : Bytes) (h : x ≠ 0x25) : canonDecode (x :: r) = x :: canonDecode r :=
  canonDecode_cons_of_not x r (fun hh => h hh.1)

theorem canonDecode_length_le (s : Bytes) : (canonDecode s).length ≤ s.length := by
  fun_induction canonDecode s with
  | case1 => simp
  | case2 x h1 h2 r hc ih => simp only [List.length_cons]; omega
  | case3 x h1 h2 r hc ih => simp only [List.length_cons] at *; omega
  | case4 x r hr ih => simp only [List.length_cons]; omega

theorem canonDecode_shortens (s : Bytes) : canonDecode s ≠ s → (canonDecode s).length + 2 ≤ s.length := by
  fun_induction canonDecode s with
  | case1 => intro h; exact absurd rfl h
  | case2 x h1 h2 r hc ih =>
    intro _
    have := canonDecode_length_le r
    simp only [List.length_cons]; omega
  | case3 x h1 h2 r hc ih =>
    intro h
    have : canonDecode (h1 :: h2 :: r) ≠ h1 :: h2 :: r := fun e => h (by rw [e])
    have := ih this
    simp only [List.length_cons] at *; omega
  | case4 x r hr ih =>
    intro h
    have : canonDecode r ≠ r := fun e => h (by rw [e])
    have := ih this
    simp only [List.length_cons]; omega

/-- a fixed point of one pass: the tail is a fixed point and the head does not start an escape -/
theorem canonDecode_fix_cons (x : UInt8) (p : Bytes) (h : canonDecode (x :: p) = x :: p) :
    canonDecode p = p ∧ ¬(x = 0x25 ∧ hex2 p = true) := by
  by_cases hh : x = 0x25 ∧ hex2 p = true
  · exfalso
    obtain ⟨hx, h2⟩ := hh
    match p, h2 with
    | h1 :: h2' :: r, h2 =>
      simp only [hex2, Bool.and_eq_true] at h2
      rw [hx, canonDecode_esc _ _ _ h2.1 h2.2] at h
      have hl := congrArg List.length h
      have := canonDecode_length_le r
      simp only [List.length_cons] at hl; omega
  · rw [canonDecode_cons_of_not x p hh] at h
    exact ⟨List.tail_eq_of_cons_eq h, hh⟩

/-! ### the fixpoint loop -/

theorem aux_of_fix (t : Bytes) (h : canonDecode t = t) : ∀ fuel, repeatedDecodeAux fuel t = t := by
  intro fuel
  cases fuel with
  | zero => rfl
  | succ n => simp [repeatedDecodeAux, h]

theorem aux_fix : ∀ (fuel : Nat) (s : Bytes), s.length < fuel →
    canonDecode (repeatedDecodeAux fuel s) = repeatedDecodeAux fuel s := by
  intro fuel
  induction fuel with
  | zero => intro s h; omega
  | succ n ih =>
    intro s h
    unfold repeatedDecodeAux
    split
    · rename_i hc; exact beq_iff_eq.mp hc
    · rename_i hc
      have hne : canonDecode s ≠ s := fun e => hc (beq_iff_eq.mpr e)
      have := canonDecode_shortens s hne
      exact ih _ (by omega)

/-- more fuel than the length does not change the result -/
theorem aux_fuel : ∀ (f1 f2 : Nat) (s : Bytes), s.length < f1 → s.length < f2 →
    repeatedDecodeAux f1 s = repeatedDecodeAux f2 s := by
  intro f1
  induction f1 with
  | zero => intro f2 s h; omega
  | succ n ih =>
    intro f2 s h1 h2
    cases f2 with
    | zero => omega
    | succ m =>
      unfold repeatedDecodeAux
      split
      · rfl
      · rename_i hc
        have hne : canonDecode s ≠ s := fun e => hc (beq_iff_eq.mpr e)
        have := canonDecode_shortens s hne
        exact ih m _ (by omega) (by omega)

theorem repeatedDecode_fix (s : Bytes) : canonDecode (repeatedDecode s) = repeatedDecode s :=
  aux_fix _ _ (Nat.lt_succ_self _)

theorem repeatedDecode_of_fix (t : Bytes) (h : canonDecode t = t) : repeatedDecode t = t :=
  aux_of_fix t h _

/-- one unfolding of the loop -/
theorem repeatedDecode_step (x : Bytes) : repeatedDecode (canonDecode x) = repeatedDecode x := by
  by_cases h : canonDecode x = x
  · rw [h]
  · have hs := canonDecode_shortens x h
    show repeatedDecodeAux _ _ = repeatedDecodeAux (x.length + 1) x
    conv => rhs; unfold repeatedDecodeAux
    have hc : (canonDecode x == x) = false := by simpa using h
    simp only [hc, Bool.false_eq_true, if_false]
    exact aux_fuel _ _ _ (by omega) (by omega)

theorem repeatedDecode_idem (s : Bytes) : repeatedDecode (repeatedDecode s) = repeatedDecode s :=
  repeatedDecode_of_fix _ (repeatedDecode_fix s)

/-! ### escaping by an arbitrary predicate that contains `%` -/

/-- escape (as `%XX`, upper case) exactly the bytes selected by `p` -/
def encP (p : UInt8 → Bool) (s : Bytes) : Bytes := s.flatMap fun x => if p x then pctByte x else [x]

theorem encP_cons (p : UInt8 → Bool) (x : UInt8) (s : Bytes) :
    encP p (x :: s) = (if p x then pctByte x else [x]) ++ encP p s := by
  simp [encP]

theorem encP_append (p : UInt8 → Bool) (a b : Bytes) : encP p (a ++ b) = encP p a ++ encP p b := by
  simp [encP]

theorem hexUpper_roundtrip : ∀ x : UInt8,
    isHexN (hexUpper (x.toNat / 16)).toNat = true ∧ isHexN (hexUpper (x.toNat % 16)).toNat = true ∧
    hexByte (hexUpper (x.toNat / 16)) (hexUpper (x.toNat % 16)) = x := by
  apply forall_uint8; decide +kernel

theorem hexLower_roundtrip : ∀ x : UInt8,
    isHexN (hexLower (x.toNat / 16)).toNat = true ∧ isHexN (hexLower (x.toNat % 16)).toNat = true ∧
    hexByte (hexLower (x.toNat / 16)) (hexLower (x.toNat % 16)) = x := by
  apply forall_uint8; decide +kernel

/-- hex digits round-trip -/
theorem hexVal_hexUpper : ∀ d : Fin 16, hexVal (hexUpper d.val).toNat = d.val := by decide
theorem hexVal_hexLower : ∀ d : Fin 16, hexVal (hexLower d.val).toNat = d.val := by decide

theorem canonDecode_pctByte (x : UInt8) (r : Bytes) : canonDecode (pctByte x ++ r) = x :: canonDecode r := by
  obtain ⟨a, b, c⟩ := hexUpper_roundtrip x
  show canonDecode (0x25 :: _ :: _ :: r) = _
  rw [canonDecode_esc _ _ _ a b, c]

/-- decoding the escaped text followed by anything: the escaped text comes back and decoding continues behind it -/
theorem canonDecode_encP_append (p : UInt8 → Bool) (hp : p 0x25 = true) (s r : Bytes) :
    canonDecode (encP p s ++ r) = s ++ canonDecode r := by
  induction s with
  | nil => simp [encP]
  | cons x s ih =>
    rw [encP_cons]
    by_cases hx : p x = true
    · simp only [hx, if_true, List.append_assoc]
      rw [canonDecode_pctByte, ih]; rfl
    · have hne : x ≠ 0x25 := fun e => hx (e ▸ hp)
      rw [if_neg hx]
      simp only [List.cons_append, List.nil_append]
      rw [canonDecode_cons_ne _ _ hne, ih]

theorem canonDecode_encP (p : UInt8 → Bool) (hp : p 0x25 = true) (s : Bytes) : canonDecode (encP p s) = s := by
  have := canonDecode_encP_append p hp s []
  simpa [canonDecode] using this

/-- the bytes of the escaped text -/
theorem mem_encP (p : UInt8 → Bool) (s : Bytes) (y : UInt8) (h : y ∈ encP p s) :
    y = 0x25 ∨ (y ∈ s ∧ p y = false) ∨ (0x30 ≤ y.toNat ∧ y.toNat ≤ 0x39) ∨ (0x41 ≤ y.toNat ∧ y.toNat ≤ 0x46) := by
  simp only [encP, List.mem_flatMap] at h
  obtain ⟨x, hx, hy⟩ := h
  by_cases hpx : p x = true
  · simp only [hpx, if_true, pctByte, List.mem_cons, List.not_mem_nil, or_false] at hy
    have hu : ∀ d : Fin 16, (0x30 ≤ (hexUpper d.val).toNat ∧ (hexUpper d.val).toNat ≤ 0x39) ∨
        (0x41 ≤ (hexUpper d.val).toNat ∧ (hexUpper d.val).toNat ≤ 0x46) := by decide
    rcases hy with rfl | rfl | rfl
    · exact Or.inl rfl
    · exact Or.inr (Or.inr (hu ⟨x.toNat / 16, by have := x.toNat_lt; omega⟩))
    · exact Or.inr (Or.inr (hu ⟨x.toNat % 16, by omega⟩))
  · rw [if_neg hpx] at hy
    simp only [List.mem_cons, List.not_mem_nil, or_false] at hy
    subst hy
    exact Or.inr (Or.inl ⟨hx, by simpa using hpx⟩)

/-- every `%` of the escaped text begins a well-formed escape -/
theorem encP_pct_wellformed (p : UInt8 → Bool) (hp : p 0x25 = true) (s : Bytes) :
    ∀ a b : Bytes, encP p s = a ++ 0x25 :: b → hex2 b = true := by
  induction s with
  | nil => intro a b h; simp [encP] at h
  | cons x s ih =>
    intro a b h
    rw [encP_cons] at h
    by_cases hx : p x = true
    · simp only [hx, if_true, pctByte, List.cons_append, List.nil_append] at h
      obtain ⟨ha, hb, _⟩ := hexUpper_roundtrip x
      have hn : ∀ y : UInt8, isHexN y.toNat = true → y ≠ 0x25 := by
        apply forall_uint8; decide +kernel
      match a, h with
      | [], h =>
        simp only [List.nil_append, List.cons.injEq, true_and] at h
        subst h; simp [hex2, ha, hb]
      | [_], h =>
        simp only [List.cons_append, List.nil_append, List.cons.injEq] at h
        exact absurd h.2.1 (hn _ ha)
      | [_, _], h =>
        simp only [List.cons_append, List.nil_append, List.cons.injEq] at h
        exact absurd h.2.2.1 (hn _ hb)
      | _ :: _ :: _ :: a', h =>
        simp only [List.cons_append, List.cons.injEq] at h
        exact ih a' b h.2.2.2
    · have hne : x ≠ 0x25 := fun e => hx (e ▸ hp)
      rw [if_neg hx] at h
      match a, h with
      | [], h =>
        simp only [List.nil_append, List.cons_append, List.cons.injEq] at h
        exact absurd h.1 hne
      | _ :: a', h =>
        simp only [List.cons_append, List.nil_append, List.cons.injEq] at h
        exact ih a' b h.2

/-! ### `canonEncode` is an instance -/

theorem has_set_pct (tr : PSet) : (tr.set 0x25).has 0x25 = true := by
  have : Nat.testBit 137438953472 37 = true := by decide
  simp [PSet.has, PSet.set, Nat.testBit_or, Nat.one_shiftLeft, this]

theorem canonEncode_eq_encP (tr : PSet) (s : Bytes) :
    canonEncode tr s = encP (fun x => (tr.set 0x25).has x.toNat) s := by
  unfold canonEncode percentEncodeBytes encP
  congr 1
  funext x
  cases h : (tr.set 0x25).has x.toNat <;> simp [h]

theorem canonDecode_canonEncode (tr : PSet) (s : Bytes) : canonDecode (canonEncode tr s) = s := by
  rw [canonEncode_eq_encP]
  exact canonDecode_encP _ (has_set_pct tr) s

/-! ### kernel-evaluable twins

`canonDecode` is compiled by well-founded recursion (its recursive call is on `rest'`, two constructors deep, next to a
call on the `rest@…` alias), so neither `decide` nor `decide +kernel` can evaluate it.  The fuelled twins below are
structural; the equations let the non-vacuity examples be checked by evaluation. -/

def canonDecodeF : Nat → Bytes → Bytes
  | 0, _ => []
  | _ + 1, [] => []
  | f + 1, x :: rest =>
    match rest with
    | h1 :: h2 :: rest' =>
      if x == 0x25 && isHexN h1.toNat && isHexN h2.toNat then
        (hexVal h1.toNat * 16 + hexVal h2.toNat).toUInt8 :: canonDecodeF f rest'
      else x :: canonDecodeF f rest
    | _ => x :: canonDecodeF f rest

theorem canonDecodeF_eq : ∀ (f : Nat) (s : Bytes), s.length ≤ f → canonDecodeF f s = canonDecode s := by
  intro f
  induction f with
  | zero =>
    intro s h
    have : s = [] := List.eq_nil_of_length_eq_zero (by omega)
    subst this; simp [canonDecodeF, canonDecode]
  | succ n ih =>
    intro s h
    match s, h with
    | [], _ => simp [canonDecodeF, canonDecode]
    | [x], _ => simp [canonDecodeF, canonDecode, ih]
    | [x, y], h =>
      simp only [canonDecodeF]
      rw [ih _ (by simp only [List.length_cons, List.length_nil] at h ⊢; omega), canonDecode.eq_3 x [y] (by intro _ _ _ h; cases h)]
    | x :: h1 :: h2 :: r, h =>
      simp only [canonDecodeF, List.length_cons] at h ⊢
      rw [canonDecode.eq_2, ih r (by omega), ih (h1 :: h2 :: r) (by simp only [List.length_cons]; omega)]

def canonDecodeE (s : Bytes) : Bytes := canonDecodeF s.length s

theorem canonDecode_eq_E (s : Bytes) : canonDecode s = canonDecodeE s := (canonDecodeF_eq _ s (Nat.le_refl _)).symm

def repeatedDecodeAuxE : Nat → Bytes → Bytes
  | 0, s => s
  | fuel + 1, s => if canonDecodeE s == s then s else repeatedDecodeAuxE fuel (canonDecodeE s)

def repeatedDecodeE (s : Bytes) : Bytes := repeatedDecodeAuxE (s.length + 1) s

theorem repeatedDecodeAux_eq_E : ∀ (fuel : Nat) (s : Bytes), repeatedDecodeAux fuel s = repeatedDecodeAuxE fuel s := by
  intro fuel
  induction fuel with
  | zero => intro s; rfl
  | succ n ih => intro s; simp only [repeatedDecodeAux, repeatedDecodeAuxE, canonDecode_eq_E, ih]

theorem repeatedDecode_eq_E (s : Bytes) : repeatedDecode s = repeatedDecodeE s := repeatedDecodeAux_eq_E _ s

theorem decodeEncode_eq_E (tr : PSet) (s : Bytes) : decodeEncode tr s = canonEncode tr (repeatedDecodeE s) := by
  unfold decodeEncode; rw [repeatedDecode_eq_E]

end WhatwgUrl.Proofs.Canon
