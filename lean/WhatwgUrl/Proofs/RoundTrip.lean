import WhatwgUrl.Impl.Api
import WhatwgUrl.Proofs.IPv4
import WhatwgUrl.Proofs.Trim
import WhatwgUrl.Props.C02
import WhatwgUrl.Proofs.WellFormed
/-
  Round trip (C03b), part 1: the framework.

  * `mkE I src rs` : the environment of a default-configuration parse without base and without state override;
  * `Halts e ps u` : the loop started in `ps` returns `u` with a nil error (for some fuel);
  * cursor lemmas in the zipper view (`rs.drop k`), default-configuration simplifications of the CPS helpers;
  * the generic self-loop lemma `bulk_copy`, bulk-step lemmas for the fragment, query, opaque-path and scheme states;
  * the prologue of `basicParser` on a clean ASCII input (`parse_clean`);
  * the side conditions `RTc` (with `RTopq`, `RTlist`, `RThost`) of the round-trip theorem.
  Stages: RoundTripA (opaque paths), RoundTripB (path state, host-less list paths), RoundTripC / C2 (authority),
  RoundTripHost (the host parser's outcome does not depend on the record), RoundTripD (file, union),
  RoundTripStable (`HostStable` for opaque hosts and IPv6 literals).
-/
namespace WhatwgUrl.Proofs.RoundTrip
set_option linter.unusedSimpArgs false
set_option linter.unusedVariables false
open WhatwgUrl WhatwgUrl.Impl WhatwgUrl.Proofs.IPv4 WhatwgUrl.Proofs.Trim
open WhatwgUrl.Props.C04b (schemeOk okB WFs)

/-! ### environment -/

/-- default configuration, no base, no override -/
def mkE (I : Idna) (src : Bytes) (rs : Str) : Env := ⟨{}, I, src, rs, none, none⟩

@[simp] theorem mkE_cfg (I : Idna) (src : Bytes) (rs : Str) : (mkE I src rs).cfg = {} := rfl
@[simp] theorem mkE_I (I : Idna) (src : Bytes) (rs : Str) : (mkE I src rs).I = I := rfl
@[simp] theorem mkE_src (I : Idna) (src : Bytes) (rs : Str) : (mkE I src rs).src = src := rfl
@[simp] theorem mkE_runes (I : Idna) (src : Bytes) (rs : Str) : (mkE I src rs).runes = rs := rfl
@[simp] theorem mkE_base (I : Idna) (src : Bytes) (rs : Str) : (mkE I src rs).base = none := rfl
@[simp] theorem mkE_ov (I : Idna) (src : Bytes) (rs : Str) : (mkE I src rs).ov = none := rfl

/-! ### halting -/

/-- the loop started in `ps` returns `(u, nil)` for some fuel -/
def Halts (e : Env) (ps : PS) (u : Url) : Prop := ∃ n, loop e n ps = ⟨u, .url⟩

theorem halts_step {e : Env} {ps ps' : PS} {u : Url} (h : step e ps = .cont ps') (h2 : Halts e ps' u) : Halts e ps u := by
  obtain ⟨n, hn⟩ := h2
  refine ⟨n + 1, ?_⟩
  simp only [loop, h]
  exact hn

theorem halts_done {e : Env} {ps : PS} {u : Url} (h : step e ps = .done ⟨u, .url⟩) : Halts e ps u := by
  refine ⟨1, ?_⟩
  simp only [loop, h]

theorem loop_mono (e : Env) : ∀ (n m : Nat) (ps : PS) (r : Res), loop e n ps = r → r.ret ≠ .outOfFuel → loop e (n + m) ps = r := by
  intro n
  induction n with
  | zero => intro m ps r h hr; simp only [loop] at h; subst h; exact absurd rfl hr
  | succ n ih =>
    intro m ps r h hr
    have : n + 1 + m = (n + m) + 1 := by omega
    rw [this]
    simp only [loop] at h ⊢
    split
    · rename_i ps' hs
      rw [hs] at h
      exact ih m ps' r h hr
    · rename_i r' hs
      rw [hs] at h
      exact h

/-- a halting run is what `fuelFor` computes -/
theorem halts_fuel {e : Env} {ps0 : PS} {u : Url} (h : Halts e ps0 u) (hp : ps0.pointer = -1) (hE : ps0.eof = false) :
    loop e (fuelFor e.runes) ps0 = ⟨u, .url⟩ := by
  obtain ⟨n, hn⟩ := h
  have h1 := loop_mono e n (fuelFor e.runes) ps0 _ hn (by simp)
  have h2 := Props.C02.C02_loop_fuel_monotone e ps0 hp hE (n + fuelFor e.runes) (by omega)
  rw [← h2, h1]

/-! ### cursor -/

theorem next_some (rs : Str) (ps : PS) (k : Nat) (c : Char) (tl : Str) (hk : ps.pointer + 1 = (k : Int))
    (hd : rs.drop k = c :: tl) : next rs ps = ({ ps with pointer := (k : Int) }, c) := by
  have hc : cur rs (ps.pointer + 1) = some c := by
    rw [hk]
    unfold cur
    simp only [Int.natCast_nonneg, if_true, Int.toNat_natCast]
    have := List.getElem?_drop (xs := rs) (i := k) (j := 0)
    rw [hd] at this
    simpa using this.symm
  unfold next
  rw [hc, hk]

theorem next_none (rs : Str) (ps : PS) (k : Nat) (hk : ps.pointer + 1 = (k : Int))
    (hd : rs.drop k = []) : next rs ps = ({ ps with pointer := (k : Int), eof := true }, repl) := by
  have hc : cur rs (ps.pointer + 1) = none := by
    rw [hk]
    unfold cur
    simp only [Int.natCast_nonneg, if_true, Int.toNat_natCast]
    have := List.drop_eq_nil_iff.mp hd
    exact List.getElem?_eq_none this
  unfold next
  rw [hc, hk]

theorem drop_succ_of_cons {α : Type} {l : List α} {k : Nat} {c : α} {tl : List α} (h : l.drop k = c :: tl) :
    l.drop (k + 1) = tl := by
  have := List.drop_drop (l := l) (i := 1) (j := k)
  rw [← this, h]
  rfl

/-! ### default-configuration simplifications -/

theorem herr_nf (I : Idna) (src : Bytes) (rs : Str) (ps : PS) (t : ErrT) (k : PS → StepR) :
    herr (mkE I src rs) ps t false k = k ps := by
  simp [herr, stops, record]

theorem unitChecks_E (I : Idna) (src : Bytes) (rs : Str) (ps : PS) (r : Char) (k : PS → StepR) :
    unitChecks (mkE I src rs) ps r k = k ps := by
  simp [unitChecks, herr_nf]

theorem peInvalid_default (tr : PSet) (r : Char) : percentEncodeInvalidRune {} tr r = percentEncodeRune {} tr r := by
  simp [percentEncodeInvalidRune]

/-- a byte outside the set is copied -/
theorem pe_copy (tr : PSet) (b : UInt8) (h : tr.has b.toNat = false) : percentEncodeRune {} tr (bc b) = [b] := by
  have hb : b.toNat < 0x80 := by
    simp only [PSet.has, Bool.or_eq_false_iff, decide_eq_false_iff_not] at h
    omega
  simp [percentEncodeRune, IPv4.bc_toNat, h, utf8Char_bc b hb]


theorem asStr_append (a b : Bytes) : asStr (a ++ b) = asStr a ++ asStr b := by simp [asStr]

/-- generic self-loop: a state that copies the bytes satisfying `P` to the buffer -/
theorem bulk_copy (e : Env) (P : UInt8 → Prop) (Inv : PS → Prop)
    (hinv : ∀ ps p b, Inv ps → Inv { ps with pointer := p, buffer := b })
    (hstep : ∀ (ps : PS) (k : Nat) (b : UInt8) (tl : Str), Inv ps → ps.pointer + 1 = (k : Int) → e.runes.drop k = bc b :: tl → P b →
      step e ps = .cont { ps with pointer := (k : Int), buffer := ps.buffer ++ [b] }) :
    ∀ (w : Bytes), (∀ b ∈ w, P b) → ∀ (ps : PS) (k : Nat) (tl : Str) (u : Url), Inv ps → ps.pointer + 1 = (k : Int) →
      e.runes.drop k = asStr w ++ tl →
      Halts e { ps with pointer := ps.pointer + (w.length : Int), buffer := ps.buffer ++ w } u → Halts e ps u := by
  intro w
  induction w with
  | nil =>
    intro _ ps k tl u _ _ _ h
    simpa using h
  | cons b w ih =>
    intro hw ps k tl u hi hk hd h
    have hs := hstep ps k b (asStr w ++ tl) hi hk hd (hw b (by simp))
    refine halts_step hs (ih (fun x hx => hw x (by simp [hx])) _ (k + 1) tl u (hinv _ _ _ hi) (by simp) (drop_succ_of_cons hd) ?_)
    have e1 : ((k : Int) + (w.length : Int)) = ps.pointer + ((w.length + 1 : Nat) : Int) := by omega
    simpa [e1, List.append_assoc] using h

/-! ### fragment -/

def fTail (f : Option Bytes) : Bytes := match f with | some f => 0x23 :: f | none => []
def qTail (q : Option Bytes) : Bytes := match q with | some q => 0x3f :: q | none => []
def setF (u : Url) (f : Option Bytes) : Url := match f with | none => u | some f => { u with fragment := some f }
def setQ (u : Url) (q : Option Bytes) : Url := match q with | none => u | some q => { u with query := some q }

theorem step_fragment_char (I : Idna) (src : Bytes) (rs : Str) (ps : PS) (k : Nat) (b : UInt8) (tl : Str)
    (hst : ps.state = .fragment ∧ ps.eof = false) (hk : ps.pointer + 1 = (k : Int)) (hd : rs.drop k = bc b :: tl)
    (hb : fragmentSet.has b.toNat = false) :
    step (mkE I src rs) ps = .cont { ps with pointer := (k : Int), buffer := ps.buffer ++ [b] } := by
  unfold step
  simp only [mkE_runes, next_some rs ps k _ tl hk hd]
  simp [body, hst.1, stFragment, unitChecks_E, hst.2, pe_copy _ _ hb, bottom]

theorem step_fragment_eof (I : Idna) (src : Bytes) (rs : Str) (ps : PS) (k : Nat)
    (hst : ps.state = .fragment) (hk : ps.pointer + 1 = (k : Int)) (hd : rs.drop k = []) :
    step (mkE I src rs) ps = .done ⟨{ ps.url with fragment := some ps.buffer }, .url⟩ := by
  unfold step
  simp only [mkE_runes, next_none rs ps k hk hd]
  simp [body, hst, stFragment, bottom]

theorem reach_fragment (I : Idna) (src : Bytes) (rs : Str) (w : Bytes) (hw : ∀ b ∈ w, fragmentSet.has b.toNat = false)
    (ps : PS) (k : Nat) (hst : ps.state = .fragment) (he : ps.eof = false) (hk : ps.pointer + 1 = (k : Int))
    (hd : rs.drop k = asStr w) : Halts (mkE I src rs) ps { ps.url with fragment := some (ps.buffer ++ w) } := by
  refine bulk_copy (mkE I src rs) (fun b => fragmentSet.has b.toNat = false) (fun ps => ps.state = .fragment ∧ ps.eof = false)
    (fun _ _ _ h => h) (step_fragment_char I src rs) w hw ps k [] _ ⟨hst, he⟩ hk (by simpa using hd) ?_
  refine halts_done ?_
  have := step_fragment_eof I src rs { ps with pointer := ps.pointer + (w.length : Int), buffer := ps.buffer ++ w } (k + w.length)
    hst (by simp; omega) (by rw [← List.drop_drop, hd]; simp)
  exact this

/-! ### query -/

theorem bc_hash : bc 35 = '#' := rfl
theorem bc_qm : bc 63 = '?' := rfl
theorem bc_slash : bc 47 = '/' := rfl
theorem bc_colon : bc 58 = ':' := rfl

def qset (sp : Bool) : PSet := if sp then specialQuerySet else querySet

/-- the fragment part of a serialization is well-formed -/
def FOk (f : Option Bytes) : Prop := ∀ x, f = some x → ∀ b ∈ x, fragmentSet.has b.toNat = false

theorem step_query_char (I : Idna) (src : Bytes) (rs : Str) (sp : Bool) (ps : PS) (k : Nat) (b : UInt8) (tl : Str)
    (hst : ps.state = .query ∧ ps.eof = false ∧ Cfg.isSpecial {} ps.url.scheme = sp) (hk : ps.pointer + 1 = (k : Int))
    (hd : rs.drop k = bc b :: tl) (hb : (qset sp).has b.toNat = false) :
    step (mkE I src rs) ps = .cont { ps with pointer := (k : Int), buffer := ps.buffer ++ [b] } := by
  have hne : bc b ≠ '#' := by
    intro h
    have : b = 0x23 := bc_inj (x := b) (y := 0x23) (by rw [h]; rfl)
    subst this
    cases sp <;> simp [qset] at hb <;> revert hb <;> decide
  unfold step
  simp only [mkE_runes, next_some rs ps k _ tl hk hd]
  cases sp
  · simp [body, hst.1, stQuery, unitChecks_E, hst.2.1, hst.2.2, isSp, hne, pe_copy _ _ hb, bottom, qset] at hb ⊢
    simp [pe_copy _ _ hb]
  · simp [body, hst.1, stQuery, unitChecks_E, hst.2.1, hst.2.2, isSp, hne, pe_copy _ _ hb, bottom, qset] at hb ⊢
    simp [pe_copy _ _ hb]

theorem step_query_eof (I : Idna) (src : Bytes) (rs : Str) (ps : PS) (k : Nat)
    (hst : ps.state = .query) (hk : ps.pointer + 1 = (k : Int)) (hd : rs.drop k = []) :
    step (mkE I src rs) ps = .done ⟨{ ps.url with query := some ps.buffer }, .url⟩ := by
  unfold step
  simp only [mkE_runes, next_none rs ps k hk hd]
  have : (repl == '#') = false := by decide
  simp [body, hst, stQuery, bottom, this]

theorem step_query_hash (I : Idna) (src : Bytes) (rs : Str) (ps : PS) (k : Nat) (tl : Str) (q0 : Bytes)
    (hst : ps.state = .query) (he : ps.eof = false) (hq : ps.url.query = some q0) (hk : ps.pointer + 1 = (k : Int))
    (hd : rs.drop k = '#' :: tl) :
    step (mkE I src rs) ps = .cont { ps with pointer := (k : Int), state := .fragment, buffer := [], url := { ps.url with fragment := some [], query := some ps.buffer } } := by
  unfold step
  simp only [mkE_runes, next_some rs ps k _ tl hk hd]
  simp [body, hst, stQuery, bottom, hq, he]

theorem reach_query (I : Idna) (src : Bytes) (rs : Str) (sp : Bool) (w : Bytes) (f : Option Bytes)
    (hw : ∀ b ∈ w, (qset sp).has b.toNat = false) (hf : FOk f)
    (ps : PS) (k : Nat) (hst : ps.state = .query) (he : ps.eof = false) (hsp : Cfg.isSpecial {} ps.url.scheme = sp)
    (q0 : Bytes) (hq : ps.url.query = some q0) (hk : ps.pointer + 1 = (k : Int))
    (hd : rs.drop k = asStr (w ++ fTail f)) :
    Halts (mkE I src rs) ps (setF { ps.url with query := some (ps.buffer ++ w) } f) := by
  rw [asStr_append] at hd
  refine bulk_copy (mkE I src rs) (fun b => (qset sp).has b.toNat = false)
    (fun ps => ps.state = .query ∧ ps.eof = false ∧ Cfg.isSpecial {} ps.url.scheme = sp)
    (fun _ _ _ h => h) (step_query_char I src rs sp) w hw ps k _ _ ⟨hst, he, hsp⟩ hk hd ?_
  have hd' : rs.drop (k + w.length) = asStr (fTail f) := by
    rw [← List.drop_drop, hd]; simp
  cases f with
  | none =>
    refine halts_done ?_
    exact step_query_eof I src rs { ps with pointer := ps.pointer + (w.length : Int), buffer := ps.buffer ++ w } (k + w.length)
      hst (by simp; omega) (by simpa [fTail] using hd')
  | some x =>
    have hs := step_query_hash I src rs { ps with pointer := ps.pointer + (w.length : Int), buffer := ps.buffer ++ w } (k + w.length)
      (asStr x) q0 hst he hq (by simp; omega) (by simpa [fTail, bc_hash] using hd')
    refine halts_step hs ?_
    have hd2 : rs.drop (k + w.length + 1) = asStr x := drop_succ_of_cons (c := '#') (by simpa [fTail, bc_hash] using hd')
    have := reach_fragment I src rs x (hf x rfl)
      { ps with pointer := ((k + w.length : Nat) : Int), state := .fragment, buffer := [], url := { ps.url with fragment := some [], query := some (ps.buffer ++ w) } }
      (k + w.length + 1) rfl he (by simp) hd2
    simpa [setF] using this



/-! ### opaque path -/

def QOk (sp : Bool) (q : Option Bytes) : Prop := ∀ x, q = some x → ∀ b ∈ x, (qset sp).has b.toNat = false

/-- a byte of an opaque path that the opaque-path state copies -/
def opqB (b : UInt8) : Bool := !c0Set.has b.toNat && b != 0x3f && b != 0x23

theorem opqB_spec : ∀ b : UInt8, opqB b = true → c0Set.has b.toNat = false ∧ bc b ≠ '?' ∧ bc b ≠ '#' :=
  forall_uint8 (by decide +kernel)

theorem step_opaque_char (I : Idna) (src : Bytes) (rs : Str) (ps : PS) (k : Nat) (b : UInt8) (tl : Str)
    (hst : ps.state = .opaquePath) (he : ps.eof = false) (hk : ps.pointer + 1 = (k : Int))
    (hd : rs.drop k = bc b :: tl) (hb : opqB b = true) :
    step (mkE I src rs) ps = .cont { ps with pointer := (k : Int), buffer := ps.buffer ++ [b], url := { ps.url with path := Path.setOpaque (ps.buffer ++ [b]) } } := by
  obtain ⟨h1, h2, h3⟩ := opqB_spec b hb
  unfold step
  simp only [mkE_runes, next_some rs ps k _ tl hk hd]
  simp [body, hst, stOpaquePath, unitChecks_E, he, h2, h3, peInvalid_default, pe_copy _ _ h1, bottom]

theorem step_opaque_qm (I : Idna) (src : Bytes) (rs : Str) (ps : PS) (k : Nat) (tl : Str)
    (hst : ps.state = .opaquePath) (he : ps.eof = false) (hk : ps.pointer + 1 = (k : Int))
    (hd : rs.drop k = '?' :: tl) :
    step (mkE I src rs) ps = .cont { ps with pointer := (k : Int), state := .query, buffer := [], url := { ps.url with query := some [] } } := by
  unfold step
  simp only [mkE_runes, next_some rs ps k _ tl hk hd]
  simp [body, hst, stOpaquePath, he, bottom]

theorem step_opaque_hash (I : Idna) (src : Bytes) (rs : Str) (ps : PS) (k : Nat) (tl : Str)
    (hst : ps.state = .opaquePath) (he : ps.eof = false) (hk : ps.pointer + 1 = (k : Int))
    (hd : rs.drop k = '#' :: tl) :
    step (mkE I src rs) ps = .cont { ps with pointer := (k : Int), state := .fragment, buffer := [], url := { ps.url with fragment := some [] } } := by
  unfold step
  simp only [mkE_runes, next_some rs ps k _ tl hk hd]
  have : ('#' == '?') = false := by decide
  simp [body, hst, stOpaquePath, he, bottom, this]

theorem step_opaque_eof (I : Idna) (src : Bytes) (rs : Str) (ps : PS) (k : Nat)
    (hst : ps.state = .opaquePath) (hk : ps.pointer + 1 = (k : Int)) (hd : rs.drop k = []) :
    step (mkE I src rs) ps = .done ⟨ps.url, .url⟩ := by
  unfold step
  simp only [mkE_runes, next_none rs ps k hk hd]
  have h1 : (repl == '?') = false := by decide
  have h2 : (repl == '#') = false := by decide
  simp [body, hst, stOpaquePath, bottom, h1, h2]

theorem reach_opaque (I : Idna) (src : Bytes) (rs : Str) (sp : Bool) (q f : Option Bytes) (hq : QOk sp q) (hf : FOk f) :
    ∀ (w : Bytes), (∀ b ∈ w, opqB b = true) → ∀ (ps : PS) (k : Nat), ps.state = .opaquePath → ps.eof = false →
      Cfg.isSpecial {} ps.url.scheme = sp → ps.url.path = Path.setOpaque ps.buffer → ps.pointer + 1 = (k : Int) →
      rs.drop k = asStr (w ++ (qTail q ++ fTail f)) →
      Halts (mkE I src rs) ps (setF (setQ { ps.url with path := Path.setOpaque (ps.buffer ++ w) } q) f) := by
  intro w
  induction w with
  | nil =>
    intro _ ps k hst he hsp hp hk hd
    have hpp : { ps.url with path := Path.setOpaque (ps.buffer ++ []) } = ps.url := by
      rw [List.append_nil, ← hp]
    rw [hpp]
    cases q with
    | some x =>
      have hd1 : rs.drop k = '?' :: asStr (x ++ fTail f) := by simpa [qTail, asStr_append, bc_qm] using hd
      refine halts_step (step_opaque_qm I src rs ps k _ hst he hk hd1) ?_
      have := reach_query I src rs sp x f (hq x rfl) hf
        { ps with pointer := (k : Int), state := .query, buffer := [], url := { ps.url with query := some [] } } (k + 1)
        rfl he hsp [] rfl (by simp) (drop_succ_of_cons hd1)
      simpa [setQ] using this
    | none =>
      cases f with
      | some y =>
        have hd1 : rs.drop k = '#' :: asStr y := by simpa [qTail, fTail, asStr_append, bc_hash] using hd
        refine halts_step (step_opaque_hash I src rs ps k _ hst he hk hd1) ?_
        have := reach_fragment I src rs y (hf y rfl)
          { ps with pointer := (k : Int), state := .fragment, buffer := [], url := { ps.url with fragment := some [] } } (k + 1)
          rfl he (by simp) (drop_succ_of_cons hd1)
        simpa [setQ, setF] using this
      | none =>
        refine halts_done ?_
        simpa [setQ, setF] using step_opaque_eof I src rs ps k hst hk (by simpa [qTail, fTail] using hd)
  | cons b w ih =>
    intro hw ps k hst he hsp hp hk hd
    have hd1 : rs.drop k = bc b :: asStr (w ++ (qTail q ++ fTail f)) := by simpa using hd
    refine halts_step (step_opaque_char I src rs ps k b _ hst he hk hd1 (hw b (by simp))) ?_
    have := ih (fun x hx => hw x (by simp [hx]))
      { ps with pointer := (k : Int), buffer := ps.buffer ++ [b], url := { ps.url with path := Path.setOpaque (ps.buffer ++ [b]) } }
      (k + 1) hst he hsp rfl (by simp) (drop_succ_of_cons hd1)
    simpa [List.append_assoc] using this



/-! ### scheme -/

theorem lower_first : ∀ x : UInt8, isLowerN x.toNat = true → isAlphaN (bc x).toNat = true ∧ utf8Char (lowerC (bc x)) = [x] :=
  forall_uint8 (by decide +kernel)

theorem okB_char : ∀ x : UInt8, okB x = true →
    (isAlnumN (bc x).toNat || bc x == '+' || bc x == '-' || bc x == '.') = true ∧ utf8Char (lowerC (bc x)) = [x] :=
  forall_uint8 (by decide +kernel)

theorem step_schemeStart (I : Idna) (src : Bytes) (rs : Str) (ps : PS) (k : Nat) (b : UInt8) (tl : Str)
    (hst : ps.state = .schemeStart) (he : ps.eof = false) (hk : ps.pointer + 1 = (k : Int))
    (hd : rs.drop k = bc b :: tl) (hb : isLowerN b.toNat = true) :
    step (mkE I src rs) ps = .cont { ps with pointer := (k : Int), state := .scheme, buffer := ps.buffer ++ [b] } := by
  obtain ⟨h1, h2⟩ := lower_first b hb
  unfold step
  simp only [mkE_runes, next_some rs ps k _ tl hk hd]
  simp [body, hst, stSchemeStart, writeRune, he, h1, h2, bottom]

theorem step_scheme_char (I : Idna) (src : Bytes) (rs : Str) (ps : PS) (k : Nat) (b : UInt8) (tl : Str)
    (hst : ps.state = .scheme ∧ ps.eof = false) (hk : ps.pointer + 1 = (k : Int))
    (hd : rs.drop k = bc b :: tl) (hb : okB b = true) :
    step (mkE I src rs) ps = .cont { ps with pointer := (k : Int), buffer := ps.buffer ++ [b] } := by
  obtain ⟨h1, h2⟩ := okB_char b hb
  unfold step
  simp only [mkE_runes, next_some rs ps k _ tl hk hd]
  simp only [body, hst.1, stScheme, h1, if_true]
  simp [writeRune, hst.2, h2, bottom]

/-- from the initial state through the scheme text up to (not including) the colon -/
theorem reach_scheme (I : Idna) (src : Bytes) (rs : Str) (s : Bytes) (hs : schemeOk s = true) (tl : Str) (u0 u : Url)
    (hd : rs = asStr s ++ tl)
    (h : Halts (mkE I src rs) ⟨.scheme, (s.length : Int) - 1, false, s, false, false, false, u0⟩ u) :
    Halts (mkE I src rs) ⟨.schemeStart, -1, false, [], false, false, false, u0⟩ u := by
  cases s with
  | nil => simp [schemeOk] at hs
  | cons c t =>
    simp only [schemeOk, Bool.and_eq_true] at hs
    have hd0 : rs.drop 0 = bc c :: (asStr t ++ tl) := by simp [hd]
    refine halts_step (step_schemeStart I src rs _ 0 c _ rfl rfl (by simp) hd0 hs.1) ?_
    refine bulk_copy (mkE I src rs) (fun b => okB b = true) (fun ps => ps.state = .scheme ∧ ps.eof = false)
      (fun _ _ _ h => h) (step_scheme_char I src rs) t ?_ _ 1 tl u ⟨rfl, rfl⟩ (by simp) (drop_succ_of_cons hd0) ?_
    · intro b hb
      have := List.all_eq_true.mp hs.2 b hb
      simpa [okB] using this
    · have e1 : ((t.length + 1 : Nat) : Int) - 1 = (0 : Int) + (t.length : Int) := by omega
      simpa [e1] using h

theorem isSpecial_file : Cfg.isSpecial {} (lit "file") = true := by decide

theorem step_scheme_colon_opaque (I : Idna) (src : Bytes) (rs : Str) (ps : PS) (k : Nat) (tl : Str)
    (hst : ps.state = .scheme) (he : ps.eof = false) (hk : ps.pointer + 1 = (k : Int))
    (hd : rs.drop k = ':' :: tl) (hsp : Cfg.isSpecial {} ps.buffer = false) (hns : ¬ ['/'] <+: tl) :
    step (mkE I src rs) ps = .cont { ps with pointer := (k : Int), state := .opaquePath, buffer := [], url := { ps.url with scheme := ps.buffer, path := Path.setOpaque [] } } := by
  have hf : (ps.buffer == lit "file") = false := by
    cases h : ps.buffer == lit "file"
    · rfl
    · rw [eq_of_beq h, isSpecial_file] at hsp; cases hsp
  unfold step
  simp only [mkE_runes, next_some rs ps k _ tl hk hd]
  have h1 : isAlnumN 58 = false := by decide
  have hd' : rs.drop (k + 1) = tl := drop_succ_of_cons hd
  simp [body, hst, stScheme, h1, he, bottom, hf, isSp, hsp, remainingStartsWith, runesFrom, hd', hns]



/-! ### prologue -/

/-- empty, or the last byte is above 0x20 -/
def EndsOk (s : Bytes) : Prop := ∀ x, s.getLast? = some x → isWs x = false

theorem EndsOk_append (s t : Bytes) (ht : EndsOk t) (hs : t = [] → EndsOk s) : EndsOk (s ++ t) := by
  intro x hx
  rw [List.getLast?_append] at hx
  cases h : t.getLast? with
  | none =>
    have : t = [] := List.getLast?_eq_none_iff.mp h
    rw [h] at hx
    exact hs this x (by simpa using hx)
  | some y =>
    rw [h] at hx
    simp at hx
    subst hx
    exact ht y h

theorem EndsOk_of_all (s : Bytes) (h : ∀ b ∈ s, isWs b = false) : EndsOk s := by
  intro x hx
  exact h x (List.mem_of_getLast? hx)

theorem dropWsR_of_EndsOk (s : Bytes) (h : EndsOk s) : dropWsR s = s := by
  unfold dropWsR
  cases hr : s.reverse with
  | nil => simp at hr; subst hr; rfl
  | cons x r =>
    have hl : s.getLast? = some x := by
      rw [← List.head?_reverse, hr]; rfl
    have := h x hl
    simp only [List.dropWhile_cons, this, Bool.false_eq_true, if_false]
    rw [← hr, List.reverse_reverse]

/-- the input is ASCII without controls -/
def Printable (s : Bytes) : Prop := ∀ b ∈ s, 0x20 ≤ b.toNat ∧ b.toNat < 0x80

theorem notTabNl_of_ge : ∀ x : UInt8, 0x20 ≤ x.toNat → isTabNl x = false := forall_uint8 (by decide +kernel)

theorem parse_clean (I : Idna) (raw : Bytes) (hp : Printable raw) (hh : ∀ x, raw.head? = some x → isWs x = false)
    (hl : EndsOk raw) :
    parse {} I raw = loop (mkE I raw (asStr raw)) (fuelFor (asStr raw)) ⟨.schemeStart, -1, false, [], false, false, false, {}⟩ := by
  have hdw : dropWs raw = raw := by
    unfold dropWs
    cases raw with
    | nil => rfl
    | cons x r => simp [List.dropWhile_cons, hh x rfl]
  have ht : (trim c0OrSpaceSet raw).1 = raw := by rw [trim_fst, hdw, dropWsR_of_EndsOk raw hl]
  have hr : (removeTabNl raw).1 = raw := by
    unfold removeTabNl
    simp only
    apply List.filter_eq_self.mpr
    intro b hb
    simp [notTabNl_of_ge b (hp b hb).1]
  have hr2 : (removeTabNl raw).2 = false := by
    unfold removeTabNl
    simp only [List.any_eq_false]
    intro b hb
    simp [notTabNl_of_ge b (hp b hb).1]
  have hg : goRunes raw = asStr raw := goRunes_ascii raw (fun x hx => (hp x hx).2)
  unfold parse basicParser
  simp only [Option.isNone_none, Bool.true_and, ht, hr, hr2, hg, Bool.false_and, Bool.false_eq_true, if_false, if_true,
    Option.getD_none, stops, record, Bool.or_self, Bool.and_false, ite_self]
  rfl



/-! ### the side conditions of the round trip -/

/-- a byte of a list-path segment that the path state copies (`sp`: special scheme, where `\` is a separator) -/
def segB (sp : Bool) (b : UInt8) : Bool := !pathSet.has b.toNat && b != 0x2f && !(sp && b == 0x5c)
/-- a path segment that the path state stores unchanged: copied bytes, not a dot segment -/
def segOk (sp : Bool) (s : Bytes) : Bool := s.all (segB sp) && !isSingleDot s && !isDoubleDot s
/-- a byte of a host text: printable ASCII, not a delimiter of the authority / host states -/
def hostB (sp : Bool) (b : UInt8) : Bool :=
  decide (0x20 < b.toNat) && decide (b.toNat < 0x7f) && b != 0x2f && b != 0x3f && b != 0x23 && b != 0x40 && !(sp && b == 0x5c)
/-- the bracket automaton of the host state: `none` = a `:` outside brackets, otherwise the final flag -/
def hostScan : Bytes → Bool → Option Bool
  | [], fl => some fl
  | b :: rest, fl =>
    if b == 0x3a && !fl then none else hostScan rest (if b == 0x5b then true else if b == 0x5d then false else fl)

/-- the opaque path: copied bytes, no leading `/`, no trailing space unless a query or a fragment follows -/
def RTopq (u : Url) : Prop :=
  ∀ p ∈ u.path.segs, (∀ b ∈ p, opqB b = true) ∧ p.head? ≠ some 0x2f ∧
    (u.query = none → u.fragment = none → p.getLast? ≠ some 0x20)
instance (u : Url) : Decidable (RTopq u) := by unfold RTopq; infer_instance

/-- the list path: stable segments; not empty without a host; `file`: no non-normalised drive letter in front -/
def RTlist (u : Url) : Prop :=
  (∀ s ∈ u.path.segs, segOk (Cfg.isSpecial {} u.scheme) s = true) ∧ (u.host = none → u.path.segs ≠ []) ∧
  (u.scheme = lit "file" → ∀ s ∈ u.path.segs.head?, isWindowsDriveLetter s = true → isNormalizedWindowsDriveLetter s = true)
instance (u : Url) : Decidable (RTlist u) := by unfold RTlist; infer_instance

/-- the host text -/
def RThost (u : Url) : Prop :=
  ∀ h ∈ u.host, (∀ b ∈ h, hostB (Cfg.isSpecial {} u.scheme) b = true) ∧ hostScan h false = some false ∧
    (u.scheme = lit "file" → h ≠ lit "localhost" ∧ isWindowsDriveLetter h = false)
instance (u : Url) : Decidable (RThost u) := by unfold RThost; infer_instance

/-- **Character (and one cache) conditions** under which a record round-trips -/
def RTc (u : Url) : Prop :=
  (u.port = none → u.decodedPort = 0) ∧
  (∀ f ∈ u.fragment, ∀ b ∈ f, fragmentSet.has b.toNat = false) ∧
  (∀ q ∈ u.query, ∀ b ∈ q, (qset (Cfg.isSpecial {} u.scheme)).has b.toNat = false) ∧
  (u.path.opq = true → RTopq u) ∧
  (u.path.opq = false → RTlist u) ∧
  (∀ b ∈ u.username, userinfoSet.has b.toNat = false) ∧
  (∀ b ∈ u.password, userinfoSet.has b.toNat = false) ∧
  RThost u

instance (u : Url) : Decidable (RTc u) := by unfold RTc; infer_instance

example : RTc { scheme := lit "mailto", path := ⟨[lit "a@b c"], true⟩, query := some (lit "x=1") } := by decide +kernel
example : ¬ RTc { scheme := lit "mailto", path := ⟨[lit "a@b c "], true⟩ } := by decide +kernel


end WhatwgUrl.Proofs.RoundTrip
