import WhatwgUrl.Proofs.Charset
/-
  C04c helper lemmas, part 2: the host parser's output satisfies `hostCharsOk`
  (IPv6 serializer: `[` lower-case hex / `:` `]`; IPv4 serializer: digits and dots; opaque host: the C0-control encoder on
  non-forbidden host code points; domain: the oracle's ASCII output after the forbidden-domain-code-point loop).
-/
namespace WhatwgUrl.Props.C04c
set_option linter.unusedSimpArgs false
set_option linter.unusedVariables false
open WhatwgUrl WhatwgUrl.Impl WhatwgUrl.Proofs.HostWF WhatwgUrl.Proofs.IPv4

/-- a successful outcome satisfies `Q` -/
def GQ (Q : Bytes → Prop) (r : HR) : Prop := ∀ h, r.out = .ok h → Q h

theorem GQ_err {Q : Bytes → Prop} {u : Url} (e : VErr) : GQ Q ⟨u, .err e⟩ := by intro _ h; cases h
theorem GQ_panic {Q : Bytes → Prop} {u : Url} (n : Nat) : GQ Q ⟨u, .panic n⟩ := by intro _ h; cases h
theorem GQ_ok {Q : Bytes → Prop} {u : Url} (x : Bytes) (hx : Q x) : GQ Q ⟨u, .ok x⟩ := by intro _ h; cases h; exact hx
theorem GQ_fail6 {Q : Bytes → Prop} {cfg : Cfg} {u : Url} (t : ErrT) : GQ Q (fail6 cfg u t) := GQ_err _
theorem GQ_hErr {Q : Bytes → Prop} {cfg : Cfg} {u : Url} (t : ErrT) (f : Bool) (k : Url → HR)
    (hk : ∀ u', GQ Q (k u')) : GQ Q (hErr cfg u t f k) := by
  unfold hErr
  split
  · exact GQ_err _
  · exact hk _

macro "gq_base" : tactic => `(tactic| first
  | exact GQ_err _
  | exact GQ_panic _
  | exact GQ_fail6 _
  | exact True.intro
  | refine GQ_hErr _ _ _ (fun _ => ?_)
  | dsimp only)

/-! ### IPv4 -/

theorem itoa_digits (n : Nat) : ∀ b ∈ itoa n, isDigitN b.toNat = true := by
  intro b hb
  unfold itoa at hb
  rw [List.mem_map] at hb
  obtain ⟨d, hd, rfl⟩ := hb
  have := WhatwgUrl.Proofs.IPv6.toDigits_lt 10 (by omega) n d hd
  have h2 : (48 + d).toUInt8.toNat = 48 + d := toUInt8_toNat_of_lt _ (by omega)
  simp only [isDigitN, h2, Bool.and_eq_true, decide_eq_true_eq]
  omega

theorem digit_host : ∀ b : UInt8, (isDigitN b.toNat = true ∨ b = 0x2e) →
    hostByteOk true b = true ∧ hostByteOk false b = true := forall_uint8 (by decide +kernel)

theorem ipv4String_ok (sp : Bool) (n : Nat) : (ipv4String n).all (hostByteOk sp) = true := by
  rw [List.all_eq_true]
  intro b hb
  have : isDigitN b.toNat = true ∨ b = 0x2e := by
    unfold ipv4String at hb
    simp only [List.mem_append, List.mem_singleton] at hb
    rcases hb with (((((h | h) | h) | h) | h) | h) | h
    all_goals first | exact Or.inl (itoa_digits _ b h) | exact Or.inr h
  cases sp
  · exact (digit_host b this).2
  · exact (digit_host b this).1

theorem GQ_parseIPv4 {cfg : Cfg} (sp : Bool) (u : Url) (input : Bytes) :
    GQ (fun h => h.all (hostByteOk sp) = true) (parseIPv4 cfg u input) := by
  unfold parseIPv4
  dsimp only
  repeat' (first | gq_base | (apply GQ_ok; exact ipv4String_ok _ _) | split)

/-! ### IPv6 -/

theorem hexStr_ok (n : Nat) : (hexStr n).all isV6Byte = true := by
  rw [List.all_eq_true]
  intro b hb
  unfold hexStr at hb
  rw [List.mem_map] at hb
  obtain ⟨d, hd, rfl⟩ := hb
  have := WhatwgUrl.Proofs.IPv6.toDigits_lt 16 (by omega) n d hd
  have h : ∀ d : Fin 16, isV6Byte (hexLower d.val) = true := by decide
  exact h ⟨d, this⟩

theorem serStep6_ok (a : List Nat) (c : Int) (st : Bytes × Bool) (i : Nat) (h : st.1.all isV6Byte = true) :
    (serStep6 a c st i).1.all isV6Byte = true := by
  unfold serStep6
  split
  · exact h
  · split
    · dsimp only
      split <;> simp [h, isV6Byte]
    · dsimp only
      split <;> simp [h, hexStr_ok, isV6Byte]

theorem foldl_serStep6_ok (a : List Nat) (c : Int) : ∀ (l : List Nat) (st : Bytes × Bool), st.1.all isV6Byte = true →
    (l.foldl (serStep6 a c) st).1.all isV6Byte = true := by
  intro l
  induction l with
  | nil => intro st h; exact h
  | cons i t ih => intro st h; exact ih _ (serStep6_ok a c st i h)

theorem ipv6String_ok (a : List Nat) : (ipv6String a).all isV6Byte = true :=
  foldl_serStep6_ok a _ _ _ rfl

theorem v6_literal (m : Bytes) (h : m.all isV6Byte = true) : isV6Literal ([0x5b] ++ m ++ [0x5d]) = true := by
  unfold isV6Literal
  have h1 : ([0x5b] ++ m ++ [0x5d] : Bytes).getLast? = some 0x5d := by
    rw [List.getLast?_append]; simp
  have h2 : (([0x5b] ++ m ++ [0x5d] : Bytes).drop 1).dropLast = m := by simp
  rw [h1, h2, h]
  simp

def GQS {α : Type} (Q : Bytes → Prop) : Sum α HR → Prop
  | .inl _ => True
  | .inr r => GQ Q r

theorem GQ_digitLoop6 {Q : Bytes → Prop} {cfg : Cfg} (rs : Str) : ∀ (fuel : Nat) (cu : C6) (c : Char) (p : Int) (u : Url),
    GQS Q (digitLoop6 cfg rs fuel cu c p u) := by
  intro fuel
  induction fuel with
  | zero => intro cu c p u; exact True.intro
  | succ n ih =>
    intro cu c p u
    unfold digitLoop6
    dsimp only
    repeat' (first | apply ih | gq_base | split)

theorem GQ_v4Loop6 {Q : Bytes → Prop} {cfg : Cfg} (rs : Str) :
    ∀ (fuel : Nat) (cu : C6) (c : Char) (a : List Nat) (pi ns : Nat) (u : Url), GQS Q (v4Loop6 cfg rs fuel cu c a pi ns u) := by
  intro fuel
  induction fuel with
  | zero => intro cu c a pi ns u; exact True.intro
  | succ n ih =>
    intro cu c a pi ns u
    unfold v4Loop6
    dsimp only
    generalize (if ns > 0 then (next6 rs cu).1 else cu) = cu1
    generalize (if ns > 0 then (next6 rs cu).2 else c) = c1
    split
    · exact True.intro
    · split
      · exact GQ_fail6 _
      · split
        · exact GQ_fail6 _
        · have hd := GQ_digitLoop6 (Q := Q) (cfg := cfg) rs (rs.length + 2) cu1 c1 (-1) u
          split
          · rename_i r heq
            rw [heq] at hd; exact hd
          · split
            · exact GQ_panic _
            · exact ih _ _ _ _ _ _

def GQR6 (Q : Bytes → Prop) : R6 → Prop
  | .cont _ => True
  | .brk _ => True
  | .done r => GQ Q r

theorem GQ_iter6 {Q : Bytes → Prop} {cfg : Cfg} (rs : Str) (s : S6) : GQR6 Q (iter6 cfg rs s) := by
  unfold iter6
  dsimp only
  split
  · exact GQ_fail6 _
  · split
    · split
      · exact GQ_fail6 _
      · exact True.intro
    · split
      · split
        · exact GQ_fail6 _
        · split
          · exact GQ_fail6 _
          · generalize hcu : (next6 rs _).1 = cu1
            generalize hc1 : (next6 rs _).2 = c1
            have hv := GQ_v4Loop6 (Q := Q) (cfg := cfg) rs (rs.length + 2) cu1 c1 s.address s.pieceIdx 0 s.url
            split
            · rename_i r heq
              rw [heq] at hv; exact hv
            · split
              · exact GQ_fail6 _
              · exact True.intro
      · repeat' (first | exact GQ_fail6 _ | exact GQ_panic _ | exact True.intro | split)

theorem GQ_loop6 {Q : Bytes → Prop} {cfg : Cfg} (rs : Str) : ∀ (fuel : Nat) (s : S6), GQS Q (loop6 cfg rs fuel s) := by
  intro fuel
  induction fuel with
  | zero => intro s; exact True.intro
  | succ n ih =>
    intro s
    unfold loop6
    split
    · exact True.intro
    · have hi := GQ_iter6 (Q := Q) (cfg := cfg) rs s
      split
      · exact ih _
      · exact True.intro
      · rename_i r heq; rw [heq] at hi; exact hi

theorem GQ_parseIPv6 {cfg : Cfg} (u : Url) (input : Bytes) : GQ (fun h => isV6Literal h = true) (parseIPv6 cfg u input) := by
  unfold parseIPv6
  dsimp only
  split
  · exact GQ_fail6 _
  · rename_i s0 hs0
    have hl := GQ_loop6 (Q := fun h => isV6Literal h = true) (cfg := cfg) (goRunes input) ((goRunes input).length + 2) s0
    split
    · rename_i r heq; rw [heq] at hl; exact hl
    · split
      · split
        · exact GQ_panic _
        · exact GQ_ok _ (v6_literal _ (ipv6String_ok _))
      · split
        · exact GQ_fail6 _
        · exact GQ_ok _ (v6_literal _ (ipv6String_ok _))

/-! ### opaque host -/

theorem opaque_lit : ∀ c : Fin 128, forbiddenHost c.val = false → c0Set.has c.val = false →
    hostByteOk false c.val.toUInt8 = true := by decide

theorem pct_host : ∀ b : UInt8, isPctByte b = true → hostByteOk false b = true := forall_uint8 (by decide +kernel)

theorem GQ_opaqueLoop {cfg : Cfg} (henc : cfg.encOverride = none) (hlax : cfg.laxHost = false) (input : Bytes) :
    ∀ (rs : Str) (u : Url) (out : Bytes), out.all (hostByteOk false) = true →
      GQ (fun h => h.all (hostByteOk false) = true) (opaqueLoop cfg input rs u out) := by
  intro rs
  induction rs with
  | nil => intro u out h; unfold opaqueLoop; exact GQ_ok _ h
  | cons c rest ih =>
    intro u out h
    unfold opaqueLoop
    dsimp only
    split
    · rw [hlax]; exact GQ_err _
    · rename_i hf
      split
      · exact GQ_err _
      · split
        · exact GQ_err _
        · apply ih
          rw [List.all_append, h, Bool.true_and]
          apply pe_all cfg henc
          · exact pct_host
          · intro h1 h2
            exact opaque_lit ⟨c.toNat, by omega⟩ (by simpa using hf) h1

/-! ### domain -/

theorem forbiddenLoop_none {cfg : Cfg} (a : Bytes) : ∀ (rs : Str) (u : Url), (forbiddenLoop cfg a rs u).2 = none →
    ∀ c ∈ rs, forbiddenDomain c.toNat = false := by
  intro rs
  induction rs with
  | nil => intro u _ c hc; cases hc
  | cons c rest ih =>
    intro u h d hd
    unfold forbiddenLoop at h
    split at h
    · split at h <;> cases h
    · rename_i hf
      rcases List.mem_cons.mp hd with rfl | hd
      · simpa using hf
      · exact ih _ h d hd

theorem forbiddenLoop_some {cfg : Cfg} (hlax : cfg.laxHost = false) (a : Bytes) : ∀ (rs : Str) (u : Url) (out : HOut),
    (forbiddenLoop cfg a rs u).2 = some out → ∀ h, out ≠ .ok h := by
  intro rs
  induction rs with
  | nil => intro u out h; cases h
  | cons c rest ih =>
    intro u out h
    unfold forbiddenLoop at h
    rw [hlax] at h
    split at h
    · simp only [Bool.false_eq_true, ↓reduceIte, Option.some.injEq] at h
      subst h
      intro x hx; cases hx
    · exact ih _ _ h

theorem domain_byte : ∀ b : UInt8, b.toNat < 0x80 → forbiddenDomain b.toNat = false → hostByteOk true b = true :=
  forall_uint8 (by decide +kernel)

theorem toASCII_ascii (cfg : Cfg) (I : Idna) (hIa : ∀ s, ∀ x ∈ (I s).1, x.toNat < 0x80) (u : Url) (src0 a : Bytes)
    (h : (toASCII cfg I u src0).1 = .ok a) : Ascii a := by
  unfold toASCII at h
  dsimp only at h
  repeat' split at h
  all_goals first
    | (cases h; intro x hx; cases hx)
    | (cases h; exact hIa _)
    | cases h

/-! ### parseHost -/

theorem parseHost_chars (cfg : Cfg) (I : Idna) (u : Url) (input : Bytes) (sp : Bool) (hpre : cfg.preHost = none)
    (hpost : cfg.postHost = none) (henc : cfg.encOverride = none) (hlax : cfg.laxHost = false)
    (hIa : ∀ s, ∀ x ∈ (I s).1, x.toNat < 0x80) :
    GQ (fun h => hostCharsOk sp h = true) (parseHost cfg I u input (!sp)) := by
  have hv6 : ∀ r, GQ (fun h => isV6Literal h = true) r → GQ (fun h => hostCharsOk sp h = true) r := by
    intro r hr h hh; simp [hostCharsOk, hr h hh]
  have hall : ∀ r, GQ (fun h => h.all (hostByteOk sp) = true) r → GQ (fun h => hostCharsOk sp h = true) r := by
    intro r hr h hh; simp only [hostCharsOk, hr h hh, Bool.or_true]
  unfold parseHost
  simp only [hpre, hpost, hlax]
  match input with
  | [] => exact GQ_ok _ (by simp)
  | b0 :: rest =>
    dsimp only
    split
    · split
      · exact GQ_fail6 _
      · exact hv6 _ (GQ_parseIPv6 _ _)
    · split
      · rename_i hns
        have : sp = false := by simpa using hns
        subst this
        exact hall _ (GQ_opaqueLoop henc hlax _ _ _ _ rfl)
      · rename_i hns
        have : sp = true := by simpa using hns
        subst this
        simp only [Bool.and_false, Bool.false_eq_true, ↓reduceIte]
        split
        · exact GQ_fail6 _
        · split
          · exact GQ_fail6 _
          · rename_i a ha
            have hasc := toASCII_ascii cfg I hIa u _ a ha
            have hok : a.all (hostByteOk true) = true → hostCharsOk true a = true := by
              intro h; simp only [hostCharsOk, h, Bool.or_true]
            split
            · rename_i out hout
              intro x hx
              dsimp only at hx
              rw [hx] at hout
              exact absurd rfl (forbiddenLoop_some hlax a _ _ _ hout x)
            · rename_i hnone
              have hnf := forbiddenLoop_none a _ _ hnone
              rw [goRunes_ascii a hasc] at hnf
              split
              · exact hall _ (GQ_parseIPv4 _ _ _)
              · apply GQ_ok
                apply hok
                rw [List.all_eq_true]
                intro b hb
                apply domain_byte b (hasc b hb)
                have := hnf (bc b) (by unfold asStr; exact List.mem_map_of_mem hb)
                rwa [bc_toNat] at this

end WhatwgUrl.Props.C04c
