import WhatwgUrl.Proofs.RoundTrip
import WhatwgUrl.Proofs.OpaqueSlash
import WhatwgUrl.Props.C04c
/-
  C03c helper file, part 1: which clauses of the round-trip side condition `RTc` (`Proofs/RoundTrip.lean`) are NOT
  consequences of the structural invariant `WFs` (C04b) and the character-set invariant `WFc` (C04c).

  `RTx u` is their conjunction (decidable):
    1. `port = none → decodedPort = 0`                                        (the cache of the port is in sync)
    2. `scheme = "file" → host ≠ "localhost"`                                 (the file host state maps it to the empty host)
    3. list path, `file`: a drive letter in front is normalised               (the path state normalises `C|` to `C:`)
    4. opaque path: no `?`, no `#`                                            (`WFc` only says "printable")
    5. list path without a host is not empty                                  (`sc:` re-parses as an opaque path)
    6. opaque path without query and fragment does not end in a space         (the prologue strips it)
    7. opaque path does not start with `/`                                    (`NoSl` of `Proofs/OpaqueSlash.lean`, C19b)
  Everything else of `RTc` follows from `WFs ∧ WFc`: the byte classes of fragment / query / user name / password / path
  segments / host, "no dot segments", and — for the host — the bracket automaton `hostScan` (an IPv6 literal is
  `[` hex-or-colon `]`, every other host has neither `:` nor brackets) and "not a drive letter" (`:` and `|` are forbidden
  host code points).
-/
namespace WhatwgUrl.Proofs.RTcInv
set_option linter.unusedSimpArgs false
set_option linter.unusedVariables false
open WhatwgUrl WhatwgUrl.Impl WhatwgUrl.Proofs.IPv4 WhatwgUrl.Proofs.RoundTrip
open WhatwgUrl.Props.C04b (WFs)
open WhatwgUrl.Props.C04c (WFc WFcC okIn printable hostCharsOk hostByteOk isV6Literal isV6Byte pathOk queryOk fragOk hostOk)
open WhatwgUrl.Proofs.OpaqueSlash (NoSl)

/-! ### the extra clauses -/

/-- a drive letter at the head of the list is normalised -/
def DriveOk (p : Path) : Prop :=
  ∀ s ∈ p.segs.head?, isWindowsDriveLetter s = true → isNormalizedWindowsDriveLetter s = true
instance (p : Path) : Decidable (DriveOk p) := by unfold DriveOk; infer_instance

/-- no `?` and no `#` -/
def noQH (s : Bytes) : Bool := s.all fun b => b != 0x3f && b != 0x23

/-- clauses 1–4: they hold at every loop top of a fresh parse -/
def Xu (u : Url) : Prop :=
  (u.port = none → u.decodedPort = 0) ∧
  (u.scheme = lit "file" → u.host ≠ some (lit "localhost")) ∧
  (u.path.opq = false → u.scheme = lit "file" → DriveOk u.path) ∧
  (u.path.opq = true → u.path.segs.all noQH = true)
instance (u : Url) : Decidable (Xu u) := by unfold Xu; infer_instance

/-- clause 5 -/
def Xe (u : Url) : Prop := u.path.opq = false → u.host = none → u.path.segs ≠ []
instance (u : Url) : Decidable (Xe u) := by unfold Xe; infer_instance

/-- clause 6 -/
def Xt (u : Url) : Prop :=
  u.path.opq = true → u.query = none → u.fragment = none → ∀ p ∈ u.path.segs, p.getLast? ≠ some 0x20
instance (u : Url) : Decidable (Xt u) := by unfold Xt; infer_instance

instance (u : Url) : Decidable (NoSl u) := by unfold NoSl; infer_instance

/-- **the part of `RTc` that `WFs ∧ WFc` do not give** -/
def RTx (u : Url) : Prop := Xu u ∧ Xe u ∧ Xt u ∧ NoSl u
instance (u : Url) : Decidable (RTx u) := by unfold RTx; infer_instance

/-! ### byte-level facts -/

theorem okIn_has (tr : PSet) (s : Bytes) (h : okIn tr s = true) : ∀ b ∈ s, tr.has b.toNat = false := by
  intro b hb
  unfold okIn at h
  rw [List.all_eq_true] at h
  have := h b hb
  simp only [Bool.and_eq_true, Bool.not_eq_true'] at this
  exact this.2

theorem hostByte_hostB : ∀ b : UInt8, (hostByteOk true b = true → hostB true b = true ∧ b ≠ 0x3a ∧ b ≠ 0x5b ∧ b ≠ 0x5d ∧ b ≠ 0x7c) ∧
    (hostByteOk false b = true → hostB false b = true ∧ b ≠ 0x3a ∧ b ≠ 0x5b ∧ b ≠ 0x5d ∧ b ≠ 0x7c) :=
  forall_uint8 (by decide +kernel)

theorem v6Byte_hostB : ∀ b : UInt8, isV6Byte b = true → hostB true b = true ∧ hostB false b = true ∧ b ≠ 0x5b ∧ b ≠ 0x5d :=
  forall_uint8 (by decide +kernel)

theorem hostByte_sp (sp : Bool) (b : UInt8) (h : hostByteOk sp b = true) :
    hostB sp b = true ∧ b ≠ 0x3a ∧ b ≠ 0x5b ∧ b ≠ 0x5d ∧ b ≠ 0x7c := by
  cases sp
  · exact (hostByte_hostB b).2 h
  · exact (hostByte_hostB b).1 h

theorem v6Byte_sp (sp : Bool) (b : UInt8) (h : isV6Byte b = true) : hostB sp b = true ∧ b ≠ 0x5b ∧ b ≠ 0x5d := by
  cases sp
  · exact ⟨(v6Byte_hostB b h).2.1, (v6Byte_hostB b h).2.2⟩
  · exact ⟨(v6Byte_hostB b h).1, (v6Byte_hostB b h).2.2⟩

/-- the bracket automaton on a text without `:` and brackets -/
theorem hostScan_plain (h : Bytes) (hh : ∀ b ∈ h, b ≠ 0x3a ∧ b ≠ 0x5b ∧ b ≠ 0x5d) (fl : Bool) : hostScan h fl = some fl := by
  induction h with
  | nil => rfl
  | cons b t ih =>
    obtain ⟨h1, h2, h3⟩ := hh b (by simp)
    unfold hostScan
    have e1 : (b == 0x3a) = false := by simpa using h1
    have e2 : (b == 0x5b) = false := by simpa using h2
    have e3 : (b == 0x5d) = false := by simpa using h3
    simp only [e1, e2, e3, Bool.false_and, Bool.false_eq_true, if_false]
    exact ih (fun x hx => hh x (by simp [hx]))

/-- … inside brackets `:` is allowed -/
theorem hostScan_inside (m tl : Bytes) (hm : ∀ b ∈ m, b ≠ 0x5b ∧ b ≠ 0x5d) : hostScan (m ++ tl) true = hostScan tl true := by
  induction m with
  | nil => rfl
  | cons b t ih =>
    obtain ⟨h2, h3⟩ := hm b (by simp)
    have e2 : (b == 0x5b) = false := by simpa using h2
    have e3 : (b == 0x5d) = false := by simpa using h3
    rw [List.cons_append, hostScan]
    simp only [Bool.not_true, Bool.and_false, Bool.false_eq_true, if_false, e2, e3]
    exact ih (fun x hx => hm x (by simp [hx]))

/-- the shape of an IPv6 literal -/
theorem v6_shape (h : Bytes) (hv : isV6Literal h = true) : ∃ m, h = 0x5b :: (m ++ [0x5d]) ∧ ∀ b ∈ m, isV6Byte b = true := by
  unfold isV6Literal at hv
  simp only [Bool.and_eq_true, beq_iff_eq, decide_eq_true_eq, List.all_eq_true] at hv
  obtain ⟨⟨⟨h1, h2⟩, h3⟩, h4⟩ := hv
  match h, h1, h2, h3, h4 with
  | x :: t, h1, h2, h3, h4 =>
    simp only [List.head?_cons, Option.some.injEq] at h1
    simp only [List.drop_succ_cons, List.drop_zero] at h4
    have hne : t ≠ [] := by intro e; subst e; simp at h3
    have hl : t.getLast? = some 0x5d := by
      rw [List.getLast?_cons] at h2
      cases ht : t.getLast? with
      | none => rw [List.getLast?_eq_none_iff] at ht; exact absurd ht hne
      | some y => rw [ht] at h2; simpa using h2
    refine ⟨t.dropLast, ?_, h4⟩
    rw [h1, dropLast_append_of_getLast? hl]

/-- the host clauses of `RTc` that follow from the character-set invariant -/
theorem host_of_chars (sp : Bool) (h : Bytes) (hc : hostCharsOk sp h = true) :
    (∀ b ∈ h, hostB sp b = true) ∧ hostScan h false = some false ∧ (sp = true → isWindowsDriveLetter h = false) := by
  unfold hostCharsOk at hc
  rcases Bool.or_eq_true_iff.mp hc with hv | ha
  · obtain ⟨m, rfl, hm⟩ := v6_shape h hv
    refine ⟨?_, ?_, ?_⟩
    · intro b hb
      simp only [List.mem_cons, List.mem_append, List.not_mem_nil, or_false] at hb
      rcases hb with rfl | hb | rfl
      · cases sp <;> decide
      · exact (v6Byte_sp sp b (hm b hb)).1
      · cases sp <;> decide
    · rw [hostScan]
      simp only [show ((0x5b : UInt8) == 0x3a) = false by decide, Bool.false_and, Bool.false_eq_true, if_false,
        show ((0x5b : UInt8) == 0x5b) = true by decide, if_true]
      rw [hostScan_inside m _ (fun b hb => (v6Byte_sp sp b (hm b hb)).2)]
      decide
    · intro _
      unfold isWindowsDriveLetter
      split
      · rename_i a b heq
        have : a = 0x5b := by
          have := congrArg List.head? heq
          simpa using this.symm
        subst this
        simp
        intro h; exact absurd h (by decide)
      · rfl
  · rw [List.all_eq_true] at ha
    refine ⟨fun b hb => (hostByte_sp sp b (ha b hb)).1, ?_, ?_⟩
    · exact hostScan_plain h (fun b hb => ⟨(hostByte_sp sp b (ha b hb)).2.1, (hostByte_sp sp b (ha b hb)).2.2.1,
        (hostByte_sp sp b (ha b hb)).2.2.2.1⟩) false
    · intro _
      cases hd : isWindowsDriveLetter h with
      | false => rfl
      | true =>
        obtain ⟨a, b, rfl, _, hb⟩ := WhatwgUrl.Props.C04c.drive_shape h hd
        have := hostByte_sp sp b (ha b (by simp))
        rcases hb with rfl | rfl
        · exact absurd rfl this.2.1
        · exact absurd rfl this.2.2.2.2

theorem segByte_segB (sp : Bool) (b : UInt8) (h : WhatwgUrl.Props.C04c.segByteOk sp b = true) : segB sp b = true := by
  cases sp <;>
    simp only [WhatwgUrl.Props.C04c.segByteOk, segB, Bool.and_eq_true, Bool.not_eq_true', bne_iff_ne, ne_eq, Bool.not_false,
      Bool.true_or, Bool.not_true, Bool.false_or, Bool.false_and, Bool.true_and, and_true, beq_eq_false_iff_ne] at h ⊢
  · exact ⟨h.1.2, h.2⟩
  · exact ⟨⟨h.1.1.2, h.1.2⟩, h.2⟩

theorem segOk_of_c (sp : Bool) (s : Bytes) (h : WhatwgUrl.Props.C04c.segOk sp s = true) : segOk sp s = true := by
  simp only [WhatwgUrl.Props.C04c.segOk, segOk, Bool.and_eq_true, List.all_eq_true] at h ⊢
  exact ⟨⟨fun b hb => segByte_segB sp b (h.1.1 b hb), h.1.2⟩, h.2⟩

theorem opq_byte : ∀ b : UInt8, (printable b && !c0Set.has b.toNat) = true → (b != 0x3f && b != 0x23) = true → opqB b = true :=
  forall_uint8 (by decide +kernel)

theorem opqB_noQH : ∀ b : UInt8, opqB b = true → (b != 0x3f && b != 0x23) = true := forall_uint8 (by decide +kernel)

/-! ### 1(a) -/

/-- **`RTc` is `RTx` modulo the two invariants**: every other clause of `RTc` follows from `WFs ∧ WFc` -/
theorem RTc_of_WFc (u : Url) (hs : WFs {} u) (hc : WFc u) (hx : RTx u) : RTc u := by
  obtain ⟨c1, c2, c3, c4, c5, c6⟩ := hc
  obtain ⟨⟨x1, x2, x3, x4⟩, x5, x6, x7⟩ := hx
  refine ⟨x1, ?_, ?_, ?_, ?_, okIn_has _ _ c1, okIn_has _ _ c2, ?_⟩
  · intro f hf
    rw [Option.mem_def] at hf
    rw [hf] at c6
    exact okIn_has _ _ c6
  · intro q hq
    rw [Option.mem_def] at hq
    rw [hq] at c5
    unfold queryOk at c5
    dsimp only at c5
    unfold qset
    exact okIn_has _ _ c5
  · intro ho p hp
    unfold pathOk at c4
    rw [if_pos ho, List.all_eq_true] at c4
    have h4 := x4 ho
    rw [List.all_eq_true] at h4
    refine ⟨?_, ?_, fun hq hf => x6 ho hq hf p hp⟩
    · intro b hb
      have a1 := c4 p hp
      have a2 := h4 p hp
      unfold okIn at a1
      unfold noQH at a2
      rw [List.all_eq_true] at a1 a2
      exact opq_byte b (a1 b hb) (a2 b hb)
    · obtain ⟨s, hs1⟩ := WhatwgUrl.Props.C04b.WFs_opaque_single hs ho
      rw [hs1] at hp
      simp only [List.mem_singleton] at hp
      subst hp
      exact x7 ho p (by rw [hs1]; rfl)
  · intro ho
    unfold pathOk at c4
    rw [if_neg (by simp [ho]), List.all_eq_true] at c4
    exact ⟨fun s hs' => segOk_of_c _ s (c4 s hs'), x5 ho, fun hf => x3 ho hf⟩
  · intro h hh
    rw [Option.mem_def] at hh
    rw [hh] at c3
    have := host_of_chars _ h c3
    refine ⟨this.1, this.2.1, fun hf => ⟨?_, ?_⟩⟩
    · intro e; subst e; exact x2 hf hh
    · apply this.2.2
      rw [hf]; decide

/-- conversely `RTc` contains `RTx` (used for the base url of a resolve) -/
theorem RTx_of_RTc (u : Url) (hs : WFs {} u) (hc : RTc u) : RTx u := by
  obtain ⟨r1, r2, r3, r4, r5, r6, r7, r8⟩ := hc
  refine ⟨⟨r1, ?_, ?_, ?_⟩, ?_, ?_, ?_⟩
  · intro hf hh
    exact (r8 _ (by rw [Option.mem_def]; exact hh)).2.2 hf |>.1 rfl
  · intro ho hf
    exact (r5 ho).2.2 hf
  · intro ho
    rw [List.all_eq_true]
    intro p hp
    unfold noQH
    rw [List.all_eq_true]
    intro b hb
    exact opqB_noQH b ((r4 ho p hp).1 b hb)
  · intro ho; exact (r5 ho).2.1
  · intro ho hq hf p hp; exact (r4 ho p hp).2.2 hq hf
  · intro ho s hs'
    exact (r4 ho s (List.mem_of_mem_head? hs')).2.1

/-- `RTc ↔ RTx` on records that satisfy both invariants -/
theorem RTc_iff_RTx (u : Url) (hs : WFs {} u) (hc : WFc u) : RTc u ↔ RTx u :=
  ⟨RTx_of_RTc u hs, RTc_of_WFc u hs hc⟩

/-! ### `RTx` really is independent of `WFs ∧ WFc`: for each clause a record that satisfies both invariants and every other
    clause, but not this one -/

example : WFs {} { scheme := lit "sc", host := some (lit "h"), decodedPort := 5 } ∧ WFc { scheme := lit "sc", host := some (lit "h"), decodedPort := 5 } ∧
    ¬ RTx { scheme := lit "sc", host := some (lit "h"), decodedPort := 5 } := by decide +kernel
example : WFs {} { scheme := lit "file", host := some (lit "localhost"), path := ⟨[[]], false⟩ } ∧
    WFc { scheme := lit "file", host := some (lit "localhost"), path := ⟨[[]], false⟩ } ∧
    ¬ RTx { scheme := lit "file", host := some (lit "localhost"), path := ⟨[[]], false⟩ } := by decide +kernel
example : WFs {} { scheme := lit "file", host := some [], path := ⟨[lit "C|"], false⟩ } ∧
    WFc { scheme := lit "file", host := some [], path := ⟨[lit "C|"], false⟩ } ∧
    ¬ RTx { scheme := lit "file", host := some [], path := ⟨[lit "C|"], false⟩ } := by decide +kernel
example : WFs {} { scheme := lit "sc", path := ⟨[lit "a?b"], true⟩ } ∧ WFc { scheme := lit "sc", path := ⟨[lit "a?b"], true⟩ } ∧
    ¬ RTx { scheme := lit "sc", path := ⟨[lit "a?b"], true⟩ } := by decide +kernel
example : WFs {} { scheme := lit "sc" } ∧ WFc { scheme := lit "sc" } ∧ ¬ RTx { scheme := lit "sc" } := by decide +kernel
example : WFs {} { scheme := lit "sc", path := ⟨[lit "a "], true⟩ } ∧ WFc { scheme := lit "sc", path := ⟨[lit "a "], true⟩ } ∧
    ¬ RTx { scheme := lit "sc", path := ⟨[lit "a "], true⟩ } := by decide +kernel
example : WFs {} { scheme := lit "sc", path := ⟨[lit "/a"], true⟩ } ∧ WFc { scheme := lit "sc", path := ⟨[lit "/a"], true⟩ } ∧
    ¬ RTx { scheme := lit "sc", path := ⟨[lit "/a"], true⟩ } := by decide +kernel
/-- … and a record that satisfies all three -/
example : WFs {} { scheme := lit "file", host := some [], path := ⟨[lit "C:", lit "x"], false⟩, fragment := some (lit "f") } ∧
    WFc { scheme := lit "file", host := some [], path := ⟨[lit "C:", lit "x"], false⟩, fragment := some (lit "f") } ∧
    RTx { scheme := lit "file", host := some [], path := ⟨[lit "C:", lit "x"], false⟩, fragment := some (lit "f") } := by decide +kernel

end WhatwgUrl.Proofs.RTcInv
