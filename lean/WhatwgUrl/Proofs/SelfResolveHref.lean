import WhatwgUrl.Proofs.SelfResolve
import WhatwgUrl.Proofs.RoundTrip
import WhatwgUrl.Proofs.WellFormed
/-
  Helper lemmas for C06c (the self-resolution law), part 2: the text.

  For a structurally well-formed record `u` (`WFs {} u`) the serialization `href u false` is, as the machine sees it
  (`goRunes (pro …)`), the scheme of `u`, a `:`, and — whenever `u` has a host, in particular whenever the scheme is special —
  `//`.  Nothing is assumed about the bytes of the other components: the prologue (trim, tab / newline removal) may well
  change them, but it cannot touch the scheme, the `:` and the `//` (all above 0x20), and these are ASCII.
-/
namespace WhatwgUrl.Proofs.SelfResolve
set_option linter.unusedSimpArgs false
set_option linter.unusedVariables false
open WhatwgUrl WhatwgUrl.Impl WhatwgUrl.Proofs.Resolve WhatwgUrl.Proofs.IPv4
open WhatwgUrl.Props.C04b (schemeOk okB WFs)

/-! ### the prologue on a text that starts with visible bytes -/

theorem proTail_cons (x : UInt8) (f : Bytes) (hw : Trim.isWs x = false) : proTail (x :: f) = x :: proTail f := by
  unfold proTail
  rw [List.filter_cons_of_pos (Trim.notTabNl_of_not_ws x hw), dropWsR_cons x _ hw]

theorem proTail_append (s t : Bytes) (hs : ∀ x ∈ s, Trim.isWs x = false) : proTail (s ++ t) = s ++ proTail t := by
  induction s with
  | nil => rfl
  | cons x s ih =>
    rw [List.cons_append, proTail_cons x _ (hs x List.mem_cons_self), ih (fun y hy => hs y (List.mem_cons_of_mem _ hy))]
    rfl

theorem pro_append (s t : Bytes) (hs : ∀ x ∈ s, Trim.isWs x = false) (hne : s ≠ []) : pro (s ++ t) = s ++ proTail t := by
  cases s with
  | nil => exact absurd rfl hne
  | cons x s =>
    rw [List.cons_append, pro_cons x _ (hs x List.mem_cons_self), proTail_append s t (fun y hy => hs y (List.mem_cons_of_mem _ hy))]
    rfl

theorem goRunes_append_ascii (s t : Bytes) (hs : ∀ x ∈ s, x.toNat < 0x80) : goRunes (s ++ t) = asStr s ++ goRunes t := by
  induction s with
  | nil => rfl
  | cons x s ih =>
    rw [List.cons_append, goRunes_cons_ascii x _ (hs x List.mem_cons_self), ih (fun y hy => hs y (List.mem_cons_of_mem _ hy))]
    rfl

/-! ### scheme bytes -/

theorem okB_facts : ∀ x : UInt8, okB x = true →
    Trim.isWs x = false ∧ x.toNat < 0x80 ∧ isSchemeChar (bc x) = true ∧ utf8Char (lowerC (bc x)) = [x] :=
  forall_uint8 (by decide +kernel)

theorem lower_facts : ∀ x : UInt8, isLowerN x.toNat = true →
    okB x = true ∧ isAlphaN (bc x).toNat = true :=
  forall_uint8 (by decide +kernel)

theorem colon_not_schemeChar : isSchemeChar ':' = false := by decide

theorem schemeSplit_okB (t : Bytes) (ht : ∀ x ∈ t, okB x = true) (after : Str) :
    ∀ buf, schemeSplit (asStr t ++ ':' :: after) buf = some (buf ++ t, after) := by
  induction t with
  | nil =>
    intro buf
    show schemeSplit (':' :: after) buf = _
    simp [schemeSplit, colon_not_schemeChar]
  | cons x t ih =>
    intro buf
    obtain ⟨_, _, h3, h4⟩ := okB_facts x (ht x List.mem_cons_self)
    show schemeSplit (bc x :: (asStr t ++ ':' :: after)) buf = _
    rw [schemeSplit, if_pos h3, h4, ih (fun y hy => ht y (List.mem_cons_of_mem _ hy))]
    simp

theorem schemeOk_okB (s : Bytes) (h : schemeOk s = true) : s ≠ [] ∧ ∀ x ∈ s, okB x = true := by
  cases s with
  | nil => simp [schemeOk] at h
  | cons c t =>
    simp only [schemeOk, Bool.and_eq_true] at h
    refine ⟨by simp, ?_⟩
    intro x hx
    rcases List.mem_cons.mp hx with rfl | hx
    · exact (lower_facts _ h.1).1
    · have := List.all_eq_true.mp h.2 x hx
      simpa [okB] using this

theorem splitScheme_schemeOk (s : Bytes) (h : schemeOk s = true) (after : Str) :
    splitScheme (asStr s ++ ':' :: after) = some (s, after) := by
  cases s with
  | nil => simp [schemeOk] at h
  | cons c t =>
    have hok := (schemeOk_okB _ h).2
    simp only [schemeOk, Bool.and_eq_true] at h
    obtain ⟨_, h2⟩ := lower_facts c h.1
    obtain ⟨_, _, _, h4⟩ := okB_facts c (hok c List.mem_cons_self)
    show splitScheme (bc c :: (asStr t ++ ':' :: after)) = _
    rw [splitScheme, if_pos h2, h4, schemeSplit_okB t (fun y hy => hok y (List.mem_cons_of_mem _ hy))]
    rfl

/-- a text that starts with a well-formed scheme and a `:` -/
theorem splitScheme_text (s X : Bytes) (h : schemeOk s = true) :
    splitScheme (goRunes (pro (s ++ 0x3a :: X))) = some (s, goRunes (proTail X)) := by
  obtain ⟨hne, hok⟩ := schemeOk_okB s h
  rw [pro_append s _ (fun x hx => (okB_facts x (hok x hx)).1) hne, proTail_cons _ _ (by decide),
    goRunes_append_ascii s _ (fun x hx => (okB_facts x (hok x hx)).2.1), goRunes_cons_ascii _ _ (by decide)]
  exact splitScheme_schemeOk s h _

theorem runes_slashes (Y : Bytes) : goRunes (proTail (0x2f :: 0x2f :: Y)) = '/' :: '/' :: goRunes (proTail Y) := by
  rw [proTail_cons _ _ (by decide), proTail_cons _ _ (by decide), goRunes_cons_ascii _ _ (by decide),
    goRunes_cons_ascii _ _ (by decide)]
  rfl

/-! ### the serialization -/

/-- what `href` writes after the `:` -/
def hrefRest (u : Url) : Bytes :=
  (match u.host with
   | some h =>
     [0x2f, 0x2f] ++
     (if u.username != [] || u.password != [] then
        u.username ++ (if u.password != [] then 0x3a :: u.password else []) ++ [0x40]
      else []) ++
     h ++ (match u.port with | some p => 0x3a :: p | none => [])
   | none => []) ++
  (if u.host == none && !u.path.opq && u.path.segs.length > 1 && u.path.segs.head? == some [] then [0x2f, 0x2e] else []) ++
  u.path.str ++
  (match u.query with | some q => 0x3f :: q | none => []) ++
  (match u.fragment with | some f => 0x23 :: f | none => [])

theorem href_eq (u : Url) : href u false = u.scheme ++ 0x3a :: hrefRest u := by
  unfold href hrefRest
  simp only [Bool.not_false, ↓reduceIte, List.append_assoc, List.cons_append, List.nil_append]
  rfl

theorem hrefRest_host (u : Url) (h : u.host ≠ none) : ∃ Y, hrefRest u = 0x2f :: 0x2f :: Y := by
  unfold hrefRest
  cases hh : u.host with
  | none => exact absurd hh h
  | some x =>
    simp only [List.append_assoc, List.cons_append, List.nil_append]
    exact ⟨_, rfl⟩

/-- the serialization of a record with a well-formed scheme, as the machine sees it: the scheme, and `//` after the `:`
    when there is a host -/
theorem href_splitScheme (u : Url) (hs : schemeOk u.scheme = true) :
    splitScheme (goRunes (pro (href u false))) = some (u.scheme, goRunes (proTail (hrefRest u))) ∧
    (u.host ≠ none → ['/', '/'].isPrefixOf (goRunes (proTail (hrefRest u))) = true) := by
  rw [href_eq, splitScheme_text _ _ hs]
  refine ⟨rfl, fun h => ?_⟩
  obtain ⟨Y, hY⟩ := hrefRest_host u h
  rw [hY, runes_slashes]
  simp [List.isPrefixOf]

/-- the serialization of a structurally well-formed record is a reference that does not read the base -/
theorem href_selfIndep (u : Url) (hw : WFs {} u) : selfIndep (goRunes (pro (href u false))) = true := by
  obtain ⟨h1, h2, _⟩ := hw
  obtain ⟨e, hp⟩ := href_splitScheme u h1
  unfold selfIndep
  rw [e]
  simp only [Bool.or_eq_true, Bool.not_eq_true']
  by_cases hsp : ({} : Cfg).isSpecial u.scheme = true
  · exact Or.inr (hp (h2 hsp).1)
  · exact Or.inl (by simpa using hsp)

end WhatwgUrl.Proofs.SelfResolve
