import WhatwgUrl.Proofs.Trim
import WhatwgUrl.Proofs.Utf8
import WhatwgUrl.Proofs.Percent
import WhatwgUrl.Proofs.IPv4
import WhatwgUrl.Spec.Url
/-
  Conformance simulation, part 2: the prologue of `basicParser` (Go: `trim c0OrSpaceSet`, `removeTabNl`, both on bytes)
  against the prologue of the standard's basic URL parser (strip leading / trailing C0-control-or-space code points,
  remove ASCII tab / newline code points), under the decidable hypothesis `TabNlOk` that marks the boundary of finding F3.
-/
namespace WhatwgUrl.Proofs.Sim
open WhatwgUrl WhatwgUrl.Impl WhatwgUrl.Proofs.Trim

/-- tab/newline removal at byte level agrees with removal at code point level (false only when a tab/newline sits
    inside an ill-formed UTF-8 sequence) -/
def TabNlOk (b : Bytes) : Prop :=
  goRunes (removeTabNl b).1 = (goRunes b).filter (fun c => !Spec.isTabOrNewline c)

instance (b : Bytes) : Decidable (TabNlOk b) := by unfold TabNlOk; infer_instance

/-! ### appending an ASCII byte never changes how the earlier bytes decode -/

theorem isCont_ascii (x : UInt8) (hx : x.toNat < 0x80) : isCont x = false := by
  simp only [isCont, Bool.and_eq_false_iff, decide_eq_false_iff_not]; omega

/-- `decode1` looks ahead at most three bytes and rejects a sequence whose next byte is not a continuation byte exactly
    as it rejects a truncated sequence at the end of the input -/
theorem decode1_append_noncont (b0 x : UInt8) (rest tl : Bytes) (hc : isCont x = false) :
    decode1 b0 (rest ++ x :: tl) = decode1 b0 rest := by
  have hx : x.toNat < 0x80 ∨ 0xBF < x.toNat := by
    simp only [isCont, Bool.and_eq_false_iff, decide_eq_false_iff_not] at hc; omega
  have hr1 : ∀ (p q : Prop) [Decidable p] [Decidable q],
      ((if p then 0xA0 else 0x80) ≤ x.toNat ∧ x.toNat ≤ (if q then 0x9F else 0xBF)) = False := by
    intro p q _ _; apply eq_false; split <;> split <;> omega
  have hr2 : ∀ (p q : Prop) [Decidable p] [Decidable q],
      ((if p then 0x90 else 0x80) ≤ x.toNat ∧ x.toNat ≤ (if q then 0x8F else 0xBF)) = False := by
    intro p q _ _; apply eq_false; split <;> split <;> omega
  unfold decode1
  simp only
  split
  · rfl
  split
  · rfl
  split
  · rcases rest with _ | ⟨b1, r⟩
    · simp [hc]
    · rfl
  split
  · rcases rest with _ | ⟨b1, _ | ⟨b2, r⟩⟩
    · cases tl <;> simp [hr1]
    · simp [hc]
    · rfl
  split
  · rcases rest with _ | ⟨b1, _ | ⟨b2, _ | ⟨b3, r⟩⟩⟩
    · rcases tl with _ | ⟨t1, _ | ⟨t2, tl⟩⟩ <;> simp [hr2]
    · cases tl <;> simp [hc]
    · simp [hc]
    · rfl
  · rfl

theorem decode1_append_ascii (b0 x : UInt8) (rest tl : Bytes) (hx : x.toNat < 0x80) :
    decode1 b0 (rest ++ x :: tl) = decode1 b0 rest :=
  decode1_append_noncont b0 x rest tl (isCont_ascii x hx)

/-- induction along the decoder -/
theorem goDecode_induction (P : Bytes → Prop) (h0 : P [])
    (hs : ∀ b0 rest, P (rest.drop ((decode1 b0 rest).2 - 1)) → P (b0 :: rest)) : ∀ b, P b := by
  have : ∀ (n : Nat) (b : Bytes), b.length ≤ n → P b := by
    intro n
    induction n with
    | zero =>
      intro b h
      have : b = [] := List.length_eq_zero_iff.mp (by omega)
      subst this; exact h0
    | succ n ih =>
      intro b h
      cases b with
      | nil => exact h0
      | cons b0 rest =>
        have hl := List.length_drop (i := (decode1 b0 rest).2 - 1) (l := rest)
        simp only [List.length_cons] at h
        exact hs b0 rest (ih _ (by omega))
  exact fun b => this b.length b (Nat.le_refl _)

/-- the decoder re-synchronises at a byte that is not a continuation byte, whatever precedes it -/
theorem goRunes_append_noncont_cons (x : UInt8) (tl : Bytes) (hx : isCont x = false) (b : Bytes) :
    goRunes (b ++ x :: tl) = goRunes b ++ goRunes (x :: tl) := by
  induction b using goDecode_induction with
  | h0 => rfl
  | hs b0 rest ih =>
    have hle := Utf8.decode1_size_le_length b0 rest
    rw [List.cons_append, Utf8.goRunes_cons, Utf8.goRunes_cons, decode1_append_noncont b0 x rest tl hx,
      List.drop_append_of_le_length (by omega), ih]
    rfl

/-- the decoder re-synchronises at an ASCII byte, whatever precedes it -/
theorem goRunes_append_ascii_cons (x : UInt8) (tl : Bytes) (hx : x.toNat < 0x80) (b : Bytes) :
    goRunes (b ++ x :: tl) = goRunes b ++ goRunes (x :: tl) :=
  goRunes_append_noncont_cons x tl (isCont_ascii x hx) b

/-- the encoding of a scalar value starts with a byte that is not a continuation byte -/
theorem utf8Char_head_noncont (c : Char) : ∃ x tl, utf8Char c = x :: tl ∧ isCont x = false := by
  have hv := Utf8.char_valid c
  rw [Utf8.utf8Char_eq]
  split
  · refine ⟨_, _, rfl, ?_⟩
    simp only [isCont, UInt8.toNat_ofNat', Bool.and_eq_false_iff, decide_eq_false_iff_not]; omega
  split
  · refine ⟨_, _, rfl, ?_⟩
    simp only [isCont, UInt8.toNat_ofNat', Bool.and_eq_false_iff, decide_eq_false_iff_not]; omega
  split
  · refine ⟨_, _, rfl, ?_⟩
    simp only [isCont, UInt8.toNat_ofNat', Bool.and_eq_false_iff, decide_eq_false_iff_not]; omega
  · refine ⟨_, _, rfl, ?_⟩
    simp only [isCont, UInt8.toNat_ofNat', Bool.and_eq_false_iff, decide_eq_false_iff_not]; omega

/-- appending the encoding of a scalar value appends that scalar value, whatever (ill-formed) bytes precede it -/
theorem goRunes_append_utf8Char (b : Bytes) (c : Char) : goRunes (b ++ utf8Char c) = goRunes b ++ [c] := by
  obtain ⟨x, tl, e, hx⟩ := utf8Char_head_noncont c
  rw [e, goRunes_append_noncont_cons x tl hx, ← e]
  have := Utf8.goRunes_utf8Char_append c []
  rw [List.append_nil] at this
  rw [this]; rfl

theorem goRunes_append_utf8 (b : Bytes) (s : Str) : goRunes (b ++ utf8 s) = goRunes b ++ s := by
  induction s generalizing b with
  | nil => simp [utf8]
  | cons c s ih =>
    rw [Percent.utf8_cons, ← List.append_assoc, ih, goRunes_append_utf8Char]
    simp

theorem goRunes_append_ascii_one (x : UInt8) (hx : x.toNat < 0x80) (b : Bytes) :
    goRunes (b ++ [x]) = goRunes b ++ [bc x] := by
  rw [goRunes_append_ascii_cons x [] hx, Utf8.goRunes_cons, decode1_ascii x [] hx]
  rfl

theorem goRunes_append_ascii (a : Bytes) (ha : ∀ x ∈ a, x.toNat < 0x80) (b : Bytes) :
    goRunes (b ++ a) = goRunes b ++ a.map bc := by
  induction a generalizing b with
  | nil => simp
  | cons x a ih =>
    have : b ++ x :: a = (b ++ [x]) ++ a := by simp
    rw [this, ih (fun y hy => ha y (by simp [hy])), goRunes_append_ascii_one x (ha x (by simp))]
    simp

/-! ### stripping at the front -/

theorem isC0OrSpace_bc (x : UInt8) : Spec.isC0OrSpace (bc x) = isWs x := by
  simp only [Spec.isC0OrSpace, isWs, Trim.bc_toNat]
  by_cases h : x.toNat < 0x21
  · simp [h]; omega
  · simp [h]; omega

theorem goRunes_dropWs (b : Bytes) : goRunes (dropWs b) = (goRunes b).dropWhile Spec.isC0OrSpace := by
  induction b with
  | nil => rfl
  | cons x rest ih =>
    by_cases hw : x.toNat < 0x21
    · have h1 : dropWs (x :: rest) = dropWs rest := by simp [dropWs, isWs, hw]
      have h2 : Spec.isC0OrSpace (bc x) = true := by rw [isC0OrSpace_bc]; simp [isWs, hw]
      rw [h1, ih, Utf8.goRunes_cons, decode1_ascii x rest (by omega)]
      simp [h2]
    · have h1 : dropWs (x :: rest) = x :: rest := by simp [dropWs, isWs, hw]
      have h2 := decode1_notws x rest (by omega)
      have h3 : Spec.isC0OrSpace (decode1 x rest).1 = false := by
        simp only [Spec.isC0OrSpace, decide_eq_false_iff_not]; omega
      rw [h1, Utf8.goRunes_cons]
      simp [h3]

/-! ### stripping at the end -/

theorem goRunes_ne_nil (b0 : UInt8) (rest : Bytes) : goRunes (b0 :: rest) ≠ [] := by
  rw [Utf8.goRunes_cons]; simp

/-- if the last byte is above 0x20, so is the last rune (a rune ≤ 0x20 is a complete one-byte sequence) -/
theorem goRunes_getLast_notws (b : Bytes) : ∀ x, b.getLast? = some x → 0x21 ≤ x.toNat →
    ∀ c, (goRunes b).getLast? = some c → 0x21 ≤ c.toNat := by
  induction b using goDecode_induction with
  | h0 => intro x h; simp at h
  | hs b0 rest ih =>
    intro x hx hx21 c hc
    rw [Utf8.goRunes_cons] at hc
    by_cases hr : rest.drop ((decode1 b0 rest).2 - 1) = []
    · rw [hr] at hc
      simp only [Utf8.goRunes_nil, List.getLast?_singleton, Option.some.injEq] at hc
      subst hc
      by_cases hb : 0x21 ≤ b0.toNat
      · exact decode1_notws b0 rest hb
      · have hd := decode1_ascii b0 rest (by omega)
        rw [hd] at hr
        simp only [Nat.sub_self, List.drop_zero] at hr
        subst hr
        simp only [List.getLast?_singleton, Option.some.injEq] at hx
        subst hx
        omega
    · obtain ⟨r0, rs, hrs⟩ := List.exists_cons_of_ne_nil hr
      have hne : goRunes (rest.drop ((decode1 b0 rest).2 - 1)) ≠ [] := by rw [hrs]; exact goRunes_ne_nil _ _
      rw [List.getLast?_cons_of_ne_nil hne] at hc
      refine ih x ?_ hx21 c hc
      have hrest : rest ≠ [] := by intro h; rw [h] at hr; simp at hr
      rw [List.getLast?_cons_of_ne_nil hrest] at hx
      rw [List.getLast?_drop]
      split
      · rename_i hlen
        exact absurd (List.drop_eq_nil_of_le hlen) hr
      · exact hx

theorem dropWhile_append_all {α : Type} (p : α → Bool) (a b : List α) (h : ∀ x ∈ a, p x = true) :
    (a ++ b).dropWhile p = b.dropWhile p := by
  induction a with
  | nil => rfl
  | cons x a ih =>
    have hx := h x (by simp)
    simp only [List.cons_append, List.dropWhile_cons, hx, if_true]
    exact ih (fun y hy => h y (by simp [hy]))

theorem mem_takeWhile_imp' {α : Type} {p : α → Bool} {l : List α} {x : α} (h : x ∈ l.takeWhile p) : p x = true := by
  induction l with
  | nil => simp at h
  | cons y l ih =>
    rw [List.takeWhile_cons] at h
    split at h
    · rw [List.mem_cons] at h
      rcases h with rfl | h
      · assumption
      · exact ih h
    · simp at h

theorem goRunes_dropWsR (b : Bytes) :
    goRunes (dropWsR b) = ((goRunes b).reverse.dropWhile Spec.isC0OrSpace).reverse := by
  -- b = kept ++ ws
  have hsplit : b = dropWsR b ++ (b.reverse.takeWhile isWs).reverse := by
    have := List.takeWhile_append_dropWhile (p := isWs) (l := b.reverse)
    have h2 := congrArg List.reverse this
    rw [List.reverse_append, List.reverse_reverse] at h2
    exact h2.symm
  have hws : ∀ x ∈ (b.reverse.takeWhile isWs).reverse, isWs x = true := by
    intro x hx
    rw [List.mem_reverse] at hx
    exact mem_takeWhile_imp' hx
  have hascii : ∀ x ∈ (b.reverse.takeWhile isWs).reverse, x.toNat < 0x80 := by
    intro x hx
    have := hws x hx
    simp only [isWs, decide_eq_true_eq] at this
    omega
  generalize hk : dropWsR b = k at hsplit
  generalize (b.reverse.takeWhile isWs).reverse = ws at hsplit hws hascii
  have h1 : goRunes b = goRunes k ++ ws.map bc := by rw [hsplit]; exact goRunes_append_ascii ws hascii k
  rw [h1, List.reverse_append, dropWhile_append_all]
  · -- the last rune of the kept part is not white space
    suffices h : (goRunes k).reverse.dropWhile Spec.isC0OrSpace = (goRunes k).reverse by rw [h, List.reverse_reverse]
    cases hg : (goRunes k).reverse with
    | nil => rfl
    | cons c l =>
      have hlast : (goRunes k).getLast? = some c := by
        rw [List.getLast?_eq_head?_reverse, hg]; rfl
      -- the last byte of `k` is not white space
      have hkne : k ≠ [] := by
        intro h; rw [h] at hg; simp at hg
      have hkl : ∀ x, k.getLast? = some x → 0x21 ≤ x.toNat := by
        intro x hx
        rw [← hk, dropWsR, List.getLast?_reverse] at hx
        have := List.head?_dropWhile_not isWs b.reverse
        rw [hx] at this
        simp only [isWs, Bool.not_eq_true', decide_eq_false_iff_not] at this
        omega
      obtain ⟨x, hx⟩ : ∃ x, k.getLast? = some x := by
        cases h : k.getLast? with
        | none => exact absurd (List.getLast?_eq_none_iff.mp h) hkne
        | some x => exact ⟨x, rfl⟩
      have := goRunes_getLast_notws k x hx (hkl x hx) c hlast
      have hc : Spec.isC0OrSpace c = false := by
        simp only [Spec.isC0OrSpace, decide_eq_false_iff_not]; omega
      simp [hc]
  · intro c hc
    rw [List.mem_reverse, List.mem_map] at hc
    obtain ⟨x, hx, rfl⟩ := hc
    rw [isC0OrSpace_bc]; exact hws x hx

/-- Go's `trim` with the C0-control-or-space set, seen on runes, is the standard's stripping of leading and trailing
    C0 control or space code points — for every byte string, valid UTF-8 or not -/
theorem goRunes_trim (input : Bytes) :
    goRunes (trim c0OrSpaceSet input).1 =
      (((goRunes input).dropWhile Spec.isC0OrSpace).reverse.dropWhile Spec.isC0OrSpace).reverse := by
  rw [trim_fst, goRunes_dropWsR, goRunes_dropWs]

/-! ### the prologue -/

/-- Prologue: the rune list the Go state machine runs on is the code point list the standard's machine runs on. -/
theorem prologue_sim (input : Bytes) (fresh : Bool)
    (h : TabNlOk (if fresh then (trim c0OrSpaceSet input).1 else input)) :
    goRunes (removeTabNl (if fresh then (trim c0OrSpaceSet input).1 else input)).1 =
    ((if fresh then (((goRunes input).dropWhile Spec.isC0OrSpace).reverse.dropWhile Spec.isC0OrSpace).reverse
      else goRunes input).filter (!Spec.isTabOrNewline ·)) := by
  rw [h]
  cases fresh
  · rfl
  · simp only [if_true, goRunes_trim]

/-! ### `TabNlOk` is satisfiable: it holds for every valid UTF-8 string (in particular every ASCII string) -/

private theorem isTabNl_ascii : ∀ i : Fin 128,
    isTabNl i.val.toUInt8 = (i.val == 0x09 || i.val == 0x0A || i.val == 0x0D) := by decide +kernel

private theorem isTabNl_high : ∀ x : UInt8, 0x80 ≤ x.toNat → isTabNl x = false :=
  IPv4.forall_uint8 (by decide +kernel)

theorem filter_utf8 (s : Str) :
    (utf8 s).filter (fun x => !isTabNl x) = utf8 (s.filter fun c => !Spec.isTabOrNewline c) := by
  induction s with
  | nil => rfl
  | cons c s ih =>
    rw [Percent.utf8_cons, List.filter_append, ih]
    by_cases hc : c.toNat < 0x80
    · have h1 := isTabNl_ascii ⟨c.toNat, hc⟩
      simp only at h1
      have h2 : Spec.isTabOrNewline c = isTabNl c.toNat.toUInt8 := by rw [h1]; rfl
      rw [Percent.utf8Char_ascii c hc, List.filter_cons, List.filter_cons, h2]
      split
      · rw [Percent.utf8_cons, Percent.utf8Char_ascii c hc]; rfl
      · rfl
    · have h1 : Spec.isTabOrNewline c = false := by
        simp only [Spec.isTabOrNewline, Bool.or_eq_false_iff, beq_eq_false_iff_ne]; omega
      have h2 : (utf8Char c).filter (fun x => !isTabNl x) = utf8Char c := by
        rw [List.filter_eq_self]
        intro x hx
        rw [isTabNl_high x (Percent.utf8Char_high c (by omega) x hx)]; rfl
      rw [h2, List.filter_cons, h1]
      rfl

theorem TabNlOk_utf8 (s : Str) : TabNlOk (utf8 s) := by
  unfold TabNlOk removeTabNl
  simp only
  rw [filter_utf8, Utf8.goRunes_utf8, Utf8.goRunes_utf8]

/-- the hypothesis holds for every valid UTF-8 input -/
theorem TabNlOk_of_valid (b : Bytes) (h : validUtf8 b = true) : TabNlOk b := by
  rw [← Utf8.utf8_goRunes b h]; exact TabNlOk_utf8 _

/-- … in particular for every ASCII input -/
theorem TabNlOk_of_ascii (b : Bytes) (h : ∀ x ∈ b, x.toNat < 0x80) : TabNlOk b := by
  rw [← IPv4.utf8_asStr b h]; exact TabNlOk_utf8 _

/-- trimming preserves validity, so for a valid input the hypothesis of `prologue_sim` holds -/
theorem TabNlOk_trim_of_valid (b : Bytes) (h : validUtf8 b = true) : TabNlOk (trim c0OrSpaceSet b).1 := by
  -- `trim` removes complete ASCII runes on both sides: the rest is `utf8` of the stripped rune list
  obtain ⟨s, rfl⟩ := (Utf8.validUtf8_iff b).mp h
  suffices hs : ∃ t : Str, (trim c0OrSpaceSet (utf8 s)).1 = utf8 t by
    obtain ⟨t, ht⟩ := hs; rw [ht]; exact TabNlOk_utf8 t
  rw [trim_fst]
  have hfront : ∀ s : Str, ∃ t : Str, dropWs (utf8 s) = utf8 t := by
    intro s
    induction s with
    | nil => exact ⟨[], rfl⟩
    | cons c s ih =>
      by_cases hc : c.toNat < 0x21
      · obtain ⟨t, ht⟩ := ih
        refine ⟨t, ?_⟩
        rw [Percent.utf8_cons, Percent.utf8Char_ascii c (by omega), ← ht]
        have : isWs c.toNat.toUInt8 = true := by
          simp only [isWs, decide_eq_true_eq, Nat.toUInt8, UInt8.toNat_ofNat']; omega
        simp [dropWs, this]
      · refine ⟨c :: s, ?_⟩
        have hne := Percent.utf8Char_ne_nil c
        obtain ⟨x, xs, hx⟩ := List.exists_cons_of_ne_nil hne
        have hxw : isWs x = false := by
          by_cases h80 : c.toNat < 0x80
          · have := Percent.utf8Char_ascii c h80
            rw [hx] at this
            simp only [List.cons.injEq] at this
            rw [this.1]
            simp only [isWs, decide_eq_false_iff_not, Nat.toUInt8, UInt8.toNat_ofNat']; omega
          · have := Percent.utf8Char_high c (by omega) x (by rw [hx]; simp)
            simp only [isWs, decide_eq_false_iff_not]; omega
        rw [Percent.utf8_cons, hx]
        simp [dropWs, hxw]
  obtain ⟨t, ht⟩ := hfront s
  rw [ht]
  -- the mirror image at the end
  have hback : ∀ r : Str, ∃ u : Str, dropWsR (utf8 r.reverse) = utf8 u := by
    intro r
    induction r with
    | nil => exact ⟨[], rfl⟩
    | cons c r ih =>
      rw [List.reverse_cons]
      generalize r.reverse = t at ih ⊢
      rw [Percent.utf8_append]
      have hone : utf8 [c] = utf8Char c := by simp [utf8]
      rw [hone]
      by_cases hc : c.toNat < 0x21
      · obtain ⟨u, hu⟩ := ih
        refine ⟨u, ?_⟩
        rw [Percent.utf8Char_ascii c (by omega), dropWsR_post _ _ ?_, hu]
        intro b hb
        simp only [List.mem_singleton] at hb
        subst hb
        simp only [Nat.toUInt8, UInt8.toNat_ofNat']; omega
      · refine ⟨t ++ [c], ?_⟩
        rw [Percent.utf8_append, hone]
        have hne := Percent.utf8Char_ne_nil c
        obtain ⟨x, hx⟩ : ∃ x, (utf8Char c).getLast? = some x := by
          cases h : (utf8Char c).getLast? with
          | none => exact absurd (List.getLast?_eq_none_iff.mp h) hne
          | some x => exact ⟨x, rfl⟩
        have hmem : x ∈ utf8Char c := List.mem_of_getLast? hx
        have hxw : isWs x = false := by
          by_cases h80 : c.toNat < 0x80
          · have := Percent.utf8Char_ascii c h80
            rw [this] at hmem
            simp only [List.mem_singleton] at hmem
            rw [hmem]
            simp only [isWs, decide_eq_false_iff_not, Nat.toUInt8, UInt8.toNat_ofNat']; omega
          · have := Percent.utf8Char_high c (by omega) x hmem
            simp only [isWs, decide_eq_false_iff_not]; omega
        obtain ⟨ini, hini⟩ : ∃ ini, utf8Char c = ini ++ [x] := by
          refine ⟨(utf8Char c).dropLast, ?_⟩
          exact (IPv4.dropLast_append_of_getLast? hx).symm
        rw [hini, ← List.append_assoc]
        simp [dropWsR, hxw]
  obtain ⟨u, hu⟩ := hback t.reverse
  rw [List.reverse_reverse] at hu
  exact ⟨u, hu⟩

/-- the counterexample behind finding F3: a newline inside an ill-formed sequence. Go removes the byte 0x0A and then
    decodes `C3 A9` as U+00E9; the standard sees U+FFFD, U+000A, U+FFFD and removes the middle one. -/
theorem TabNlOk_counterexample : ¬ TabNlOk [0xc3, 0x0a, 0xa9] := by decide +kernel

/-! ### non-vacuity -/

example : TabNlOk (lit " \thttp://ex\nample.org/\t ") := TabNlOk_of_ascii _ (by decide +kernel)
example : TabNlOk [0x61, 0xC3, 0xA9, 0x0a, 0xE2, 0x82, 0xAC] := TabNlOk_of_valid _ (by decide +kernel)
/-- an ill-formed input for which the hypothesis holds all the same (the newline is not inside the ill-formed sequence) -/
example : validUtf8 [0xc3, 0x61, 0x0a, 0xa9] = false ∧ TabNlOk [0xc3, 0x61, 0x0a, 0xa9] := by decide +kernel
/-- stripping on runes really happens, also next to ill-formed bytes -/
example : goRunes (trim c0OrSpaceSet [0x20, 0xc3, 0x20, 0x0a]).1 = [repl] := by decide +kernel

end WhatwgUrl.Proofs.Sim
