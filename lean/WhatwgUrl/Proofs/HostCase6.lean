import WhatwgUrl.Impl.Host

/-!
# `parseIPv6` does not depend on the ASCII letter case of its input runes

One-sided simulation: running the parser model on `rs.map lowerC` is the same as running it on `rs`,
with the "current rune" component of every state lower-cased.  The two-sided congruence follows.
-/

namespace WhatwgUrl.Proofs.HostCase6
open WhatwgUrl WhatwgUrl.Impl

/-! ### observations of a rune are invariant under `lowerC` -/

private theorem toNat_ofNat_valid (n : Nat) (h : n.isValidChar) : (Char.ofNat n).toNat = n := by
  unfold Char.ofNat
  simp only [h, dite_true]
  simp [Char.ofNatAux, Char.toNat]

theorem lowerC_toNat (c : Char) : (lowerC c).toNat = lowerN c.toNat := by
  unfold lowerC lowerN
  split
  · rename_i hu
    simp only [isUpperN, Bool.and_eq_true, decide_eq_true_eq] at hu
    exact toNat_ofNat_valid _ (Or.inl (by omega))
  · rfl

theorem lowerC_of_not_upper (c : Char) (h : isUpperN c.toNat = false) : lowerC c = c := by
  unfold lowerC; simp [h]

theorem isHex_lowerC (c : Char) : isHexN (lowerC c).toNat = isHexN c.toNat := by
  rw [lowerC_toNat]; unfold lowerN
  split
  · rename_i hu
    simp only [isUpperN, Bool.and_eq_true, decide_eq_true_eq] at hu
    simp only [isHexN, isDigitN]
    rw [Bool.eq_iff_iff]; simp only [Bool.or_eq_true, Bool.and_eq_true, decide_eq_true_eq]; omega
  · rfl

theorem isDigit_lowerC (c : Char) : isDigitN (lowerC c).toNat = isDigitN c.toNat := by
  rw [lowerC_toNat]; unfold lowerN
  split
  · rename_i hu
    simp only [isUpperN, Bool.and_eq_true, decide_eq_true_eq] at hu
    simp only [isDigitN]
    rw [Bool.eq_iff_iff]; simp only [Bool.and_eq_true, decide_eq_true_eq]; omega
  · rfl

theorem hexVal_lowerC (c : Char) : hexVal (lowerC c).toNat = hexVal c.toNat := by
  rw [lowerC_toNat]; unfold lowerN
  split
  · rename_i hu
    simp only [isUpperN, Bool.and_eq_true, decide_eq_true_eq] at hu
    have h1 : isDigitN (c.toNat + 32) = false := by
      simp only [isDigitN, Bool.and_eq_false_iff, decide_eq_false_iff_not]; omega
    have h2 : isDigitN c.toNat = false := by
      simp only [isDigitN, Bool.and_eq_false_iff, decide_eq_false_iff_not]; omega
    have h3 : (0x41 ≤ c.toNat + 32 && c.toNat + 32 ≤ 0x46) = false := by
      simp only [Bool.and_eq_false_iff, decide_eq_false_iff_not]; omega
    have h4 : (0x61 ≤ c.toNat && c.toNat ≤ 0x66) = false := by
      simp only [Bool.and_eq_false_iff, decide_eq_false_iff_not]; omega
    unfold hexVal
    rw [h1, h2, h3, h4]
    simp only [Bool.false_eq_true, if_false]
    by_cases h5 : c.toNat ≤ 0x46
    · have h6 : (0x41 ≤ c.toNat && c.toNat ≤ 0x46) = true := by
        simp only [Bool.and_eq_true, decide_eq_true_eq]; omega
      have h7 : (0x61 ≤ c.toNat + 32 && c.toNat + 32 ≤ 0x66) = true := by
        simp only [Bool.and_eq_true, decide_eq_true_eq]; omega
      rw [h6, h7]; simp only [if_true]; omega
    · have h6 : (0x41 ≤ c.toNat && c.toNat ≤ 0x46) = false := by
        simp only [Bool.and_eq_false_iff, decide_eq_false_iff_not]; omega
      have h7 : (0x61 ≤ c.toNat + 32 && c.toNat + 32 ≤ 0x66) = false := by
        simp only [Bool.and_eq_false_iff, decide_eq_false_iff_not]; omega
      rw [h6, h7]; simp
  · rfl

theorem lowerC_of_digit (c : Char) (h : isDigitN c.toNat = true) : lowerC c = c := by
  apply lowerC_of_not_upper
  simp only [isDigitN, Bool.and_eq_true, decide_eq_true_eq] at h
  simp only [isUpperN, Bool.and_eq_false_iff, decide_eq_false_iff_not]; omega

theorem lowerC_beq_of_not_alpha (c d : Char) (hd : isUpperN d.toNat = false)
    (hd' : isUpperN (d.toNat - 0x20) = false) (hd'' : 0x20 ≤ d.toNat) : (lowerC c == d) = (c == d) := by
  rw [Bool.eq_iff_iff]; simp only [beq_iff_eq]
  constructor
  · intro h
    have h1 := lowerC_toNat c
    rw [h] at h1
    unfold lowerN at h1
    split at h1
    · rename_i hu
      exfalso
      have : d.toNat - 0x20 = c.toNat := by omega
      rw [this] at hd'; rw [hd'] at hu; exact Bool.noConfusion hu
    · exact (Char.toNat_inj.mp h1).symm
  · intro h; subst h; exact lowerC_of_not_upper _ hd

theorem colon_lowerC (c : Char) : (lowerC c == ':') = (c == ':') :=
  lowerC_beq_of_not_alpha c ':' (by decide) (by decide) (by decide)

theorem dot_lowerC (c : Char) : (lowerC c == '.') = (c == '.') :=
  lowerC_beq_of_not_alpha c '.' (by decide) (by decide) (by decide)

theorem lowerC_repl : lowerC repl = repl := by decide

/-! ### cursor primitives on the lower-cased rune list -/

theorem cur6_map (rs : Str) (p : Int) : cur6 (rs.map lowerC) p = (cur6 rs p).map lowerC := by
  unfold cur6
  split
  · exact List.getElem?_map
  · rfl

theorem next6_map (rs : Str) (cu : C6) :
    next6 (rs.map lowerC) cu = ((next6 rs cu).1, lowerC (next6 rs cu).2) := by
  unfold next6
  rw [cur6_map]
  cases cur6 rs (cu.pointer + 1) with
  | none => simp only [Option.map_none, lowerC_repl]
  | some ch => simp only [Option.map_some]

theorem next6_map_fst (rs : Str) (cu : C6) : (next6 (rs.map lowerC) cu).1 = (next6 rs cu).1 := by
  rw [next6_map]

theorem next6_map_snd (rs : Str) (cu : C6) : (next6 (rs.map lowerC) cu).2 = lowerC (next6 rs cu).2 := by
  rw [next6_map]

theorem startsWithColon6_map (rs : Str) (cu : C6) :
    startsWithColon6 (rs.map lowerC) cu = startsWithColon6 rs cu := by
  unfold startsWithColon6
  rw [cur6_map]
  cases cur6 rs (cu.pointer + 1) with
  | none => rfl
  | some ch =>
    simp only [Option.map_some]
    have := colon_lowerC ch
    congr 1

/-! ### inner loops -/

theorem hexLoop6_map (rs : Str) (fuel : Nat) (cu : C6) (c : Char) (v l : Nat) :
    hexLoop6 (rs.map lowerC) fuel cu (lowerC c) v l =
      ((hexLoop6 rs fuel cu c v l).1, lowerC (hexLoop6 rs fuel cu c v l).2.1,
       (hexLoop6 rs fuel cu c v l).2.2.1, (hexLoop6 rs fuel cu c v l).2.2.2) := by
  induction fuel generalizing cu c v l with
  | zero => rfl
  | succ fuel ih =>
    unfold hexLoop6
    rw [isHex_lowerC, hexVal_lowerC, next6_map_fst, next6_map_snd]
    split
    · exact ih _ _ _ _
    · rfl

def mapD (x : Sum (C6 × Char × Int × Url) HR) : Sum (C6 × Char × Int × Url) HR :=
  match x with
  | .inl (cu, c, p, u) => .inl (cu, lowerC c, p, u)
  | .inr r => .inr r

theorem digitLoop6_map (cfg : Cfg) (rs : Str) (fuel : Nat) (cu : C6) (c : Char) (p : Int) (u : Url) :
    digitLoop6 cfg (rs.map lowerC) fuel cu (lowerC c) p u = mapD (digitLoop6 cfg rs fuel cu c p u) := by
  induction fuel generalizing cu c p u with
  | zero => rfl
  | succ fuel ih =>
    unfold digitLoop6
    rw [isDigit_lowerC]
    by_cases hd : isDigitN c.toNat = true
    · rw [lowerC_of_digit c hd]
      simp only [hd, if_true, next6_map_fst, next6_map_snd]
      split
      · split
        · rfl
        · exact ih _ _ _ _
      · split
        · rfl
        · split
          · rfl
          · exact ih _ _ _ _
    · simp only [hd, Bool.false_eq_true, if_false]
      rfl

theorem v4Loop6_map (cfg : Cfg) (rs : Str) (fuel : Nat) (cu : C6) (c : Char) (a : List Nat) (pi ns : Nat) (u : Url) :
    v4Loop6 cfg (rs.map lowerC) fuel cu (lowerC c) a pi ns u = v4Loop6 cfg rs fuel cu c a pi ns u := by
  induction fuel generalizing cu c a pi ns u with
  | zero => rfl
  | succ fuel ih =>
    unfold v4Loop6
    simp only [dot_lowerC, next6_map_fst, next6_map_snd, List.length_map]
    have hc : (if ns > 0 then lowerC (next6 rs cu).2 else lowerC c) =
        lowerC (if ns > 0 then (next6 rs cu).2 else c) := by split <;> rfl
    rw [hc, isDigit_lowerC, digitLoop6_map]
    generalize digitLoop6 cfg rs (rs.length + 2) _ _ (-1) u = d
    cases d with
    | inr r => rfl
    | inl x =>
      obtain ⟨cu2, c2, p, u2⟩ := x
      simp only [mapD, ih]

/-! ### main loop -/

def mapS (s : S6) : S6 := { s with c := lowerC s.c }

def mapR : R6 → R6
  | .cont s => .cont (mapS s)
  | .brk s => .brk (mapS s)
  | .done r => .done r

theorem iter6_map (cfg : Cfg) (rs : Str) (s : S6) :
    iter6 cfg (rs.map lowerC) (mapS s) = mapR (iter6 cfg rs s) := by
  obtain ⟨cur, c, address, pieceIdx, compress, url⟩ := s
  unfold iter6
  simp only [mapS, colon_lowerC, hexLoop6_map, dot_lowerC, next6_map_fst, next6_map_snd, v4Loop6_map,
    List.length_map]
  generalize hexLoop6 rs 5 cur c 0 0 = h
  obtain ⟨cu, c', value, length⟩ := h
  simp only []
  generalize v4Loop6 cfg rs _ _ _ address pieceIdx 0 url = w
  generalize setPiece address pieceIdx (value % 65536) = sp
  rcases w with ⟨a, pi, ns, u⟩ | r <;> cases sp <;> (repeat' split) <;> rfl

def mapL : Sum S6 HR → Sum S6 HR
  | .inl s => .inl (mapS s)
  | .inr r => .inr r

theorem loop6_map (cfg : Cfg) (rs : Str) (fuel : Nat) (s : S6) :
    loop6 cfg (rs.map lowerC) fuel (mapS s) = mapL (loop6 cfg rs fuel s) := by
  induction fuel generalizing s with
  | zero => rfl
  | succ fuel ih =>
    unfold loop6
    rw [iter6_map]
    have he : (mapS s).cur.eof = s.cur.eof := rfl
    rw [he]
    split
    · rfl
    · generalize iter6 cfg rs s = r
      cases r with
      | cont s' => exact ih s'
      | brk s' => rfl
      | done r => rfl

/-- the body of `parseIPv6` as a function of the rune list -/
def parse6R (cfg : Cfg) (u : Url) (rs : Str) : HR :=
  let cu0 : C6 := { pointer := -1, eof := false }
  let cu1 := (next6 rs cu0).1
  let c1 := (next6 rs cu0).2
  let start : Option S6 :=
    if c1 == ':' then
      if !startsWithColon6 rs cu1 then none
      else
        let cu2 := (next6 rs cu1).1
        let cu3 := (next6 rs cu2).1
        some { cur := cu3, c := (next6 rs cu2).2, address := List.replicate 8 0, pieceIdx := 1, compress := 1, url := u }
    else some { cur := cu1, c := c1, address := List.replicate 8 0, pieceIdx := 0, compress := -1, url := u }
  match start with
  | none => fail6 cfg u .IPv6InvalidCompression
  | some s0 =>
    match loop6 cfg rs (rs.length + 2) s0 with
    | .inr r => r
    | .inl s =>
      if s.compress ≥ 0 then
        match swap6 8 s.address 7 s.compress (s.pieceIdx - s.compress.toNat) with
        | none => ⟨s.url, .panic 4⟩
        | some a => ⟨s.url, .ok ([0x5b] ++ ipv6String a ++ [0x5d])⟩
      else if s.pieceIdx != 8 then fail6 cfg s.url .IPv6TooFewPieces
      else ⟨s.url, .ok ([0x5b] ++ ipv6String s.address ++ [0x5d])⟩

theorem parseIPv6_eq (cfg : Cfg) (u : Url) (input : Bytes) :
    parseIPv6 cfg u input = parse6R cfg u (goRunes input) := rfl

/-- what `parseIPv6` does with the final loop state -/
def fin6 (cfg : Cfg) (x : Sum S6 HR) : HR :=
  match x with
  | .inr r => r
  | .inl s =>
    if s.compress ≥ 0 then
      match swap6 8 s.address 7 s.compress (s.pieceIdx - s.compress.toNat) with
      | none => ⟨s.url, .panic 4⟩
      | some a => ⟨s.url, .ok ([0x5b] ++ ipv6String a ++ [0x5d])⟩
    else if s.pieceIdx != 8 then fail6 cfg s.url .IPv6TooFewPieces
    else ⟨s.url, .ok ([0x5b] ++ ipv6String s.address ++ [0x5d])⟩

theorem fin6_mapL (cfg : Cfg) (x : Sum S6 HR) : fin6 cfg (mapL x) = fin6 cfg x := by
  cases x <;> rfl

theorem parse6R_map (cfg : Cfg) (u : Url) (rs : Str) :
    parse6R cfg u (rs.map lowerC) = parse6R cfg u rs := by
  have key : ∀ s0 : S6, fin6 cfg (loop6 cfg (rs.map lowerC) ((rs.map lowerC).length + 2) (mapS s0)) =
      fin6 cfg (loop6 cfg rs (rs.length + 2) s0) := by
    intro s0
    rw [loop6_map, fin6_mapL, List.length_map]
  unfold parse6R
  simp only [next6_map_fst, next6_map_snd, colon_lowerC, startsWithColon6_map]
  by_cases h1 : ((next6 rs { pointer := -1, eof := false }).2 == ':') = true
  · by_cases h2 : (!startsWithColon6 rs (next6 rs { pointer := -1, eof := false }).1) = true
    · simp only [h1, h2, if_true]
    · simp only [h1, h2, if_true]
      exact key { cur := _, c := _, address := List.replicate 8 0, pieceIdx := 1, compress := 1, url := u }
  · simp only [h1]
    exact key { cur := _, c := _, address := List.replicate 8 0, pieceIdx := 0, compress := -1, url := u }

theorem parse6R_congr (cfg : Cfg) (u : Url) (rs rs' : Str) (h : rs.map lowerC = rs'.map lowerC) :
    parse6R cfg u rs = parse6R cfg u rs' := by
  rw [← parse6R_map cfg u rs, ← parse6R_map cfg u rs', h]

/-- The Go IPv6 parser model does not depend on the ASCII letter case of its input runes:
the whole result (url with recorded validation errors, and outcome) is the same. -/
theorem parseIPv6_congr (cfg : Cfg) (u : Url) (s t : Bytes)
    (h : (goRunes s).map lowerC = (goRunes t).map lowerC) :
    parseIPv6 cfg u s = parseIPv6 cfg u t := by
  rw [parseIPv6_eq, parseIPv6_eq]
  exact parse6R_congr cfg u _ _ h

/-- the hypothesis is satisfiable by genuinely different inputs -/
example : (goRunes (lit "2001:DB8::Ff")).map lowerC = (goRunes (lit "2001:db8::fF")).map lowerC
    ∧ lit "2001:DB8::Ff" ≠ lit "2001:db8::fF" := by decide +kernel

end WhatwgUrl.Proofs.HostCase6

#print axioms WhatwgUrl.Proofs.HostCase6.parseIPv6_congr
