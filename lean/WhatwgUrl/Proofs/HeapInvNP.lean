import WhatwgUrl.Proofs.NoPanic
/-
  Helper for C02c: panic freedom of `BasicParser` under a WEAKER loop invariant than `NoPanic.InvP`: the clause
  "in the scheme states under an override, scheme = file → host ≠ nil" is dropped (no panic site of this model version
  depends on it).  Consequence: the nine value-level setters do not panic on any url whose opaque path has its element
  (`PathOk`), whatever the configuration.
-/
namespace WhatwgUrl.Proofs.HeapInvNP
set_option linter.unusedSimpArgs false
set_option linter.unusedVariables false
open WhatwgUrl WhatwgUrl.Impl WhatwgUrl.Proofs.NoPanic
open WhatwgUrl.Proofs.Termination (next_pointer next_state next_eof bottom_cont herr_true)

/-- the weak loop invariant for panic freedom -/
def InvW (e : Env) (ps : PS) : Prop :=
  (relSt ps.state = true → e.base.isSome = true) ∧
  (ps.state = .query → ps.url.query.isSome = true) ∧
  (e.ov.isSome = true → ovSt ps.state = true)

macro "npw_leaf" : tactic => `(tactic|
  (simp_all [InvW, relSt, ovSt, schSt, rewindLast, resetInput, rewind, writeRune, next_state, next_url,
     record_scheme, record_host, record_query, record_path]))

macro "npw_step" : tactic => `(tactic| first
  | (with_reducible apply ShP_done; intro n; simp; done)
  | with_reducible apply ShP_retUrl
  | with_reducible apply ShP_herr_true
  | (with_reducible apply ShP_ite <;> intro _)
  | with_reducible apply ShP_herr
  | (with_reducible apply ShP_afterHost _ _ _ _ (parseHost_np _ _ _ _ _); intro _)
  | dsimp only
  | split
  | (with_reducible apply ShP_cont; npw_leaf; done)
  | (exfalso; npw_leaf; done))

theorem stSchemeStart_npw (e : Env) (q : PS) (r : Char) (hst : q.state = .schemeStart) (hI : InvW e q) :
    ShP (InvW e) (stSchemeStart e q r) := by
  obtain ⟨cfg, I, src, runes, base, ov⟩ := e
  cases ov <;> unfold stSchemeStart <;> repeat' npw_step

theorem stScheme_npw (e : Env) (q : PS) (r : Char) (hst : q.state = .scheme) (hI : InvW e q) :
    ShP (InvW e) (stScheme e q r) := by
  obtain ⟨cfg, I, src, runes, base, ov⟩ := e
  cases ov <;> cases base <;> unfold stScheme <;> repeat' npw_step

theorem stNoScheme_npw (e : Env) (q : PS) (r : Char) (hst : q.state = .noScheme) (hI : InvW e q) :
    ShP (InvW e) (stNoScheme e q r) := by
  obtain ⟨cfg, I, src, runes, base, ov⟩ := e
  cases ov <;> cases base <;> unfold stNoScheme <;> repeat' npw_step

theorem stSpecialRelativeOrAuthority_npw (e : Env) (q : PS) (r : Char) (hst : q.state = .specialRelativeOrAuthority) (hI : InvW e q) :
    ShP (InvW e) (stSpecialRelativeOrAuthority e q r) := by
  obtain ⟨cfg, I, src, runes, base, ov⟩ := e
  cases ov <;> cases base <;> unfold stSpecialRelativeOrAuthority <;> repeat' npw_step

theorem stPathOrAuthority_npw (e : Env) (q : PS) (r : Char) (hst : q.state = .pathOrAuthority) (hI : InvW e q) :
    ShP (InvW e) (stPathOrAuthority e q r) := by
  obtain ⟨cfg, I, src, runes, base, ov⟩ := e
  cases ov <;> cases base <;> unfold stPathOrAuthority <;> repeat' npw_step

theorem stRelative_npw (e : Env) (q : PS) (r : Char) (hst : q.state = .relative) (hI : InvW e q) :
    ShP (InvW e) (stRelative e q r) := by
  obtain ⟨cfg, I, src, runes, base, ov⟩ := e
  cases ov <;> cases base <;> unfold stRelative <;> repeat' npw_step

theorem stRelativeSlash_npw (e : Env) (q : PS) (r : Char) (hst : q.state = .relativeSlash) (hI : InvW e q) :
    ShP (InvW e) (stRelativeSlash e q r) := by
  obtain ⟨cfg, I, src, runes, base, ov⟩ := e
  cases ov <;> cases base <;> unfold stRelativeSlash <;> repeat' npw_step

theorem stSpecialAuthoritySlashes_npw (e : Env) (q : PS) (r : Char) (hst : q.state = .specialAuthoritySlashes) (hI : InvW e q) :
    ShP (InvW e) (stSpecialAuthoritySlashes e q r) := by
  obtain ⟨cfg, I, src, runes, base, ov⟩ := e
  cases ov <;> cases base <;> unfold stSpecialAuthoritySlashes <;> repeat' npw_step

theorem stSpecialAuthorityIgnoreSlashes_npw (e : Env) (q : PS) (r : Char) (hst : q.state = .specialAuthorityIgnoreSlashes) (hI : InvW e q) :
    ShP (InvW e) (stSpecialAuthorityIgnoreSlashes e q r) := by
  obtain ⟨cfg, I, src, runes, base, ov⟩ := e
  cases ov <;> cases base <;> unfold stSpecialAuthorityIgnoreSlashes <;> repeat' npw_step

theorem stAuthority_npw (e : Env) (q : PS) (r : Char) (hst : q.state = .authority) (hI : InvW e q) :
    ShP (InvW e) (stAuthority e q r) := by
  obtain ⟨cfg, I, src, runes, base, ov⟩ := e
  cases ov <;> cases base <;> unfold stAuthority <;> repeat' npw_step

theorem stPort_npw (e : Env) (q : PS) (r : Char) (hst : q.state = .port) (hI : InvW e q) :
    ShP (InvW e) (stPort e q r) := by
  obtain ⟨cfg, I, src, runes, base, ov⟩ := e
  cases ov <;> cases base <;> unfold stPort <;> repeat' npw_step

theorem stFile_npw (e : Env) (q : PS) (r : Char) (hst : q.state = .file) (hI : InvW e q) :
    ShP (InvW e) (stFile e q r) := by
  obtain ⟨cfg, I, src, runes, base, ov⟩ := e
  cases ov <;> cases base <;> unfold stFile <;> repeat' npw_step

theorem stFileSlash_npw (e : Env) (q : PS) (r : Char) (hst : q.state = .fileSlash) (hI : InvW e q) :
    ShP (InvW e) (stFileSlash e q r) := by
  obtain ⟨cfg, I, src, runes, base, ov⟩ := e
  cases ov <;> cases base <;> unfold stFileSlash <;> repeat' npw_step

theorem stFileHost_npw (e : Env) (q : PS) (r : Char) (hst : q.state = .fileHost) (hI : InvW e q) :
    ShP (InvW e) (stFileHost e q r) := by
  obtain ⟨cfg, I, src, runes, base, ov⟩ := e
  cases ov <;> cases base <;> unfold stFileHost <;> repeat' npw_step

theorem stPathStart_npw (e : Env) (q : PS) (r : Char) (hst : q.state = .pathStart) (hI : InvW e q) :
    ShP (InvW e) (stPathStart e q r) := by
  obtain ⟨cfg, I, src, runes, base, ov⟩ := e
  cases ov <;> cases base <;> unfold stPathStart <;> repeat' npw_step

theorem stPath_npw (e : Env) (q : PS) (r : Char) (hst : q.state = .path) (hI : InvW e q) :
    ShP (InvW e) (stPath e q r) := by
  obtain ⟨cfg, I, src, runes, base, ov⟩ := e
  cases ov <;> unfold stPath unitChecks <;> repeat' npw_step
  all_goals
    exfalso
    rename_i heq
    (repeat' split at heq) <;> cases heq

theorem stOpaquePath_npw (e : Env) (q : PS) (r : Char) (hst : q.state = .opaquePath) (hI : InvW e q) :
    ShP (InvW e) (stOpaquePath e q r) := by
  obtain ⟨cfg, I, src, runes, base, ov⟩ := e
  cases ov <;> cases base <;> unfold stOpaquePath unitChecks <;> repeat' npw_step

theorem stQuery_npw (e : Env) (q : PS) (r : Char) (hst : q.state = .query) (hI : InvW e q) :
    ShP (InvW e) (stQuery e q r) := by
  obtain ⟨cfg, I, src, runes, base, ov⟩ := e
  cases ov <;> cases base <;> unfold stQuery unitChecks <;> repeat' npw_step

theorem stFragment_npw (e : Env) (q : PS) (r : Char) (hst : q.state = .fragment) (hI : InvW e q) :
    ShP (InvW e) (stFragment e q r) := by
  obtain ⟨cfg, I, src, runes, base, ov⟩ := e
  cases ov <;> cases base <;> unfold stFragment unitChecks <;> repeat' npw_step

theorem stHost_npw (e : Env) (q : PS) (r : Char) (hst : q.state = .host ∨ q.state = .hostname) (hI : InvW e q)
    (hr : e.runes = goRunes e.src) (hq : q.eof = false → 0 ≤ q.pointer ∧ q.pointer < (e.runes.length : Nat)) :
    ShP (InvW e) (stHost e q r) := by
  have hcb : ∀ ps' : PS, q.eof = false → ps'.pointer = q.pointer → (currentAsByte e ps' = none) = False := by
    intro ps' he hp
    obtain ⟨x, hx⟩ := currentAsByte_some e ps' hr (by rw [hp]; exact (hq he).1) (by rw [hp]; exact (hq he).2)
    simp [hx]
  clear hr hq
  obtain ⟨cfg, I, src, runes, base, ov⟩ := e
  rcases hst with hst | hst <;> cases ov <;> unfold stHost <;> repeat' npw_step

theorem body_npw (e : Env) (q : PS) (r : Char) (hI : InvW e q)
    (hr : e.runes = goRunes e.src) (hq : q.eof = false → 0 ≤ q.pointer ∧ q.pointer < (e.runes.length : Nat)) :
    ShP (InvW e) (body e q r) := by
  unfold body
  split <;> rename_i heq
  · exact stSchemeStart_npw e q r heq hI
  · exact stScheme_npw e q r heq hI
  · exact stNoScheme_npw e q r heq hI
  · exact stOpaquePath_npw e q r heq hI
  · exact stSpecialRelativeOrAuthority_npw e q r heq hI
  · exact stSpecialAuthoritySlashes_npw e q r heq hI
  · exact stSpecialAuthorityIgnoreSlashes_npw e q r heq hI
  · exact stPathOrAuthority_npw e q r heq hI
  · exact stAuthority_npw e q r heq hI
  · exact stHost_npw e q r (Or.inl heq) hI hr hq
  · exact stHost_npw e q r (Or.inr heq) hI hr hq
  · exact stFile_npw e q r heq hI
  · exact stFileHost_npw e q r heq hI
  · exact stFileSlash_npw e q r heq hI
  · exact stPort_npw e q r heq hI
  · exact stPath_npw e q r heq hI
  · exact stPathStart_npw e q r heq hI
  · exact stQuery_npw e q r heq hI
  · exact stFragment_npw e q r heq hI
  · exact stRelative_npw e q r heq hI
  · exact stRelativeSlash_npw e q r heq hI

theorem InvW_next (e : Env) (ps : PS) (hI : InvW e ps) : InvW e (next e.runes ps).1 := by
  unfold InvW at hI ⊢
  rw [next_state, next_url]
  exact hI

/-- one iteration keeps the invariant (if it continues) and does not panic (if it returns) -/
theorem step_npw (e : Env) (ps : PS) (hI : InvW e ps) (hr : e.runes = goRunes e.src) : ShP (InvW e) (step e ps) := by
  unfold step
  have hq : (next e.runes ps).1.eof = false →
      0 ≤ (next e.runes ps).1.pointer ∧ (next e.runes ps).1.pointer < (e.runes.length : Nat) := by
    intro h; have := next_eof _ _ h; rw [next_pointer]; omega
  have hb := body_npw e _ (next e.runes ps).2 (InvW_next e ps hI) hr hq
  generalize body e (next e.runes ps).1 (next e.runes ps).2 = res at hb
  cases res with
  | done y => exact hb
  | cont p =>
    simp only [bottom]
    split
    · exact ShP_done _ _ (by simp)
    · exact hb

theorem loop_npw (e : Env) (hr : e.runes = goRunes e.src) : ∀ (fuel : Nat) (ps : PS), InvW e ps →
    ∀ n, (loop e fuel ps).ret ≠ .panic n := by
  intro fuel
  induction fuel with
  | zero => intro ps _ n; simp [loop]
  | succ k ih =>
    intro ps hI
    have hs := step_npw e ps hI hr
    unfold loop
    split
    · rename_i ps' h; exact ih ps' (hs.1 ps' h)
    · rename_i x h; exact hs.2 x h

/-- `basicParser` does not panic when the initial state satisfies the weak invariant -/
theorem basicParser_npw (cfg : Cfg) (I : Idna) (input : Bytes) (base url : Option Url) (ov : Option State)
    (h : ∀ (e : Env) (u : Url), e.base = base → e.ov = ov → (u.query = (url.getD {}).query) →
      InvW e { state := ov.getD .schemeStart, pointer := -1, eof := false, buffer := [], atFlag := false,
               bracketFlag := false, pwSeen := false, url := u }) :
    ∀ n, (basicParser cfg I input base url ov).ret ≠ .panic n := by
  unfold basicParser
  dsimp only
  by_cases h1 : (url.isNone && (trim c0OrSpaceSet input).2 && stops cfg false) = true
  · rw [if_pos h1]; intro n; simp
  · rw [if_neg h1]
    generalize (if url.isNone = true then (trim c0OrSpaceSet input).1 else input) = in1
    by_cases h2 : ((removeTabNl in1).2 && stops cfg false) = true
    · rw [if_pos h2]; intro n; simp
    · rw [if_neg h2]
      apply loop_npw _ rfl
      apply h _ _ rfl rfl
      split <;> split <;> simp only [record_query]

/-- an opaque path has its element (what `stripTrailingSpacesIfOpaque` indexes) -/
def PathOk (u : Url) : Prop := u.path.opq = true → u.path.segs ≠ []

instance (u : Url) : Decidable (PathOk u) := by unfold PathOk; infer_instance

/-- a state-override call of `basicParser` from one of the seven override states used by the setters -/
theorem ov_npw (cfg : Cfg) (I : Idna) (input : Bytes) (u : Url) (s : State)
    (hs : s = .schemeStart ∨ s = .host ∨ s = .hostname ∨ s = .port ∨ s = .pathStart ∨ s = .query ∨ s = .fragment)
    (hq : s = .query → u.query.isSome = true) :
    ∀ n, (basicParser cfg I input none (some u) (some s)).ret ≠ .panic n := by
  apply basicParser_npw
  intro e u' hb ho hq'
  simp only [Option.getD_some] at hq' ⊢
  rcases hs with rfl | rfl | rfl | rfl | rfl | rfl | rfl <;>
    simp_all [InvW, relSt, ovSt, schSt]

/-- the nine value-level setters do not panic on a `PathOk` url — for every configuration -/
theorem setU_np (cfg : Cfg) (I : Idna) (s : Setter) (u : Url) (v : Bytes) (hp : PathOk u) :
    ∀ n, (setU cfg I s u v).ret ≠ .panic n := by
  cases s <;> unfold setU <;> dsimp only
  · exact ov_npw _ _ _ _ _ (by simp) (by simp)
  · unfold setUsername keep; split <;> (intro n; simp)
  · unfold setPassword keep; split <;> (intro n; simp)
  · unfold setHost keep
    split
    · intro n; simp
    · exact ov_npw _ _ _ _ _ (by simp) (by simp)
  · unfold setHostname keep
    split
    · intro n; simp
    · exact ov_npw _ _ _ _ _ (by simp) (by simp)
  · unfold setPort keep
    split
    · intro n; simp
    · split
      · intro n; simp
      · exact ov_npw _ _ _ _ _ (by simp) (by simp)
  · unfold setPathname keep
    split
    · intro n; simp
    · exact ov_npw _ _ _ _ _ (by simp) (by simp)
  · unfold setSearchU keep stripTrailingSpacesIfOpaque
    dsimp only
    split
    · split
      · split
        · intro n; simp
        · rename_i h
          split at h
          · split at h
            · cases h
            · rename_i hopq _ hsegs; exact absurd hsegs (hp hopq)
          · cases h
      · intro n; simp
    · apply ov_npw _ _ _ _ _ (by simp)
      intro _
      split
      · rfl
      · rename_i h; cases hq : u.query <;> simp_all
  · unfold setHash keep stripTrailingSpacesIfOpaque
    dsimp only
    split
    · split
      · split
        · intro n; simp
        · rename_i h
          split at h
          · split at h
            · cases h
            · rename_i hopq _ hsegs; exact absurd hsegs (hp hopq)
          · cases h
      · intro n; simp
    · exact ov_npw _ _ _ _ _ (by simp) (by simp)

end WhatwgUrl.Proofs.HeapInvNP
