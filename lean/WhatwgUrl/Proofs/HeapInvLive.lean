import WhatwgUrl.Proofs.HeapInv
/-
  Helper for C02c: the optional third clause of the heap invariant — "if `o.sp = some s` then `s` is an existing list" —
  is preserved by every heap transformer EXCEPT `SetSearchParams` with an invalid list handle.
  Also: a generic preservation lemma for the canonicalizer (`canonicalize_pres`): a heap predicate closed under the
  setters, `searchParams` and `spMutate` is preserved by `canonicalize`, whether or not a step panics.
-/
namespace WhatwgUrl.Proofs.HeapInv
set_option linter.unusedSimpArgs false
set_option linter.unusedVariables false
open WhatwgUrl WhatwgUrl.Impl WhatwgUrl.Impl.Heap

/-- every list handle stored in a url object designates an existing list (index form) -/
def LiveR (H : Heap) : Prop :=
  ∀ (i : Nat) (o : UrlObj), H.urls[i]? = some o → ∀ s, o.sp = some s → s < H.sps.length

theorem LiveR_empty : LiveR {} := fun i o h => by simp at h

/-! ### primitives -/

theorem setUrl_live {H : Heap} (i : Nat) (f : UrlObj → UrlObj) (h : LiveR H)
    (hf : ∀ o, H.urls[i]? = some o → ∀ s, (f o).sp = some s → s < H.sps.length) : LiveR (H.setUrl i f) := by
  intro j o ho s hs
  rw [setUrl_sps]
  rw [setUrl_urls] at ho
  split at ho
  · cases hi : H.urls[i]? with
    | none => rw [hi] at ho; cases ho
    | some oi => rw [hi] at ho; cases ho; exact hf oi hi s hs
  · exact h j o ho s hs

theorem setSp_live {H : Heap} (s : Nat) (f : SpObj → SpObj) (h : LiveR H) : LiveR (H.setSp s f) := by
  intro j o ho t ht
  rw [setSp_urls] at ho
  rw [setSp_sps_length]
  exact h j o ho t ht

theorem allocUrl_live {H : Heap} (o : UrlObj) (h : LiveR H) (ho : ∀ s, o.sp = some s → s < H.sps.length) :
    LiveR (H.allocUrl o).1 := by
  intro j o' ho' s hs
  rw [allocUrl_sps]
  rw [allocUrl_urls] at ho'
  rcases Nat.lt_or_ge j H.urls.length with hj | hj
  · rw [List.getElem?_append_left hj] at ho'; exact h j o' ho' s hs
  · rw [List.getElem?_append_right hj] at ho'
    cases hk : j - H.urls.length with
    | zero => rw [hk] at ho'; cases ho'; exact ho s hs
    | succ k => rw [hk] at ho'; cases ho'

theorem allocSp_live {H : Heap} (so : SpObj) (h : LiveR H) : LiveR (H.allocSp so).1 := by
  intro j o ho s hs
  rw [allocSp_sps, List.length_append]
  exact Nat.lt_add_right _ (h j o ho s hs)

theorem setValue_live {H : Heap} (i : Nat) (r : Res) (h : LiveR H) : LiveR (H.setValue i r) :=
  setUrl_live i _ h (fun o ho s hs => h i o ho s hs)

theorem spUpdate_live {H : Heap} (s : Nat) (h : LiveR H) : LiveR (H.spUpdate s) := by
  unfold spUpdate
  split
  · exact h
  · split
    · exact h
    · split
      · exact h
      · dsimp only
        split
        · exact setUrl_live _ _ h (fun o ho s hs => h _ o ho s hs)
        · exact h

theorem newUrlSearchParams_live {H : Heap} (i : Nat) (h : LiveR H) : LiveR (H.newUrlSearchParams i) := by
  cases ho : H.urls[i]? with
  | none => unfold newUrlSearchParams; simp only [ho]; exact h
  | some uo =>
    rw [newUrlSearchParams_eq H i uo ho]
    refine setUrl_live i _ (allocSp_live _ h) ?_
    intro o _ s hs
    cases hs
    rw [allocSp_sps, List.length_append]
    simp

/-! ### the transformers of `Impl/Heap.lean` -/

theorem setSearch_live {H : Heap} (I : Idna) (i : Nat) (v : Bytes) (h : LiveR H) : LiveR (H.setSearch I i v).1 := by
  cases ho : H.urls[i]? with
  | none =>
    have hr : H.setSearch I i v = (H, .url) := by unfold setSearch; simp only [ho]
    rw [hr]; exact h
  | some uo =>
    have h1 : LiveR (H.setValue i (setSearchU uo.cfg I uo.u v)) := setValue_live i _ h
    unfold setSearch
    simp only [ho]
    split
    · cases hsp : uo.sp with
      | none => exact h1
      | some s => exact setSp_live s _ h1
    · cases hsp : uo.sp with
      | none => exact newUrlSearchParams_live i h1
      | some s =>
        simp only []
        split
        · exact h1
        · split
          · exact h1
          · split
            · exact h1
            · exact setSp_live s _ h1

theorem set_live {H : Heap} (I : Idna) (i : Nat) (st : Setter) (v : Bytes) (h : LiveR H) : LiveR (H.set I i st v).1 := by
  by_cases hst : st = .search
  · subst hst; exact setSearch_live I i v h
  · rw [set_eq_of_ne_search I H i st v hst]
    cases ho : H.urls[i]? with
    | none => exact h
    | some uo => exact setValue_live i _ h

theorem searchParams_live {H : Heap} (i : Nat) (h : LiveR H) : LiveR (H.searchParams i).1 := by
  unfold searchParams
  split
  · exact h
  · split
    · exact h
    · exact newUrlSearchParams_live i h

theorem spMutate_live {H : Heap} (s : Nat) (m : SpMut) (h : LiveR H) : LiveR (H.spMutate s m) :=
  spUpdate_live s (setSp_live s _ h)

/-- `SetSearchParams` needs a valid list handle (or an invalid url handle) -/
theorem setSearchParams_live {H : Heap} (i s : Nat) (h : LiveR H) (hs : s < H.sps.length ∨ H.urls[i]? = none) :
    LiveR (H.setSearchParams i s) := by
  refine spUpdate_live s (setUrl_live i _ h ?_)
  intro o ho t ht
  cases ht
  rcases hs with hs | hs
  · exact hs
  · rw [hs] at ho; cases ho

theorem clone_live {H : Heap} (i : Nat) (h : LiveR H) : LiveR (H.clone i).1 := by
  unfold clone
  split
  · exact h
  · rename_i uo ho
    have ha : LiveR (H.allocUrl { u := { uo.u with verrs := [], qlog := [] }, sp := none, cfg := uo.cfg }).1 :=
      allocUrl_live _ h (fun s hs => by cases hs)
    dsimp only
    split
    · exact ha
    · rename_i sp _
      refine setUrl_live _ _ (allocSp_live _ ha) ?_
      intro o _ s hs
      cases hs
      rw [allocSp_sps, List.length_append, allocUrl_sps]
      simp

theorem allocRes_live {H : Heap} (cfg : Cfg) (r : Res) (h : LiveR H) : LiveR (H.allocRes cfg r).1 := by
  unfold allocRes
  split
  · exact allocUrl_live _ h (fun s hs => by cases hs)
  · exact h

theorem urlParse_live {H : Heap} (I : Idna) (i : Nat) (ref : Bytes) (h : LiveR H) : LiveR (H.urlParse I i ref).1 := by
  unfold Heap.urlParse
  split
  · exact h
  · exact allocRes_live _ _ h

/-! ### the canonicalizer: a generic preservation lemma -/

theorem thenH_pres {P : Heap → Prop} {x : Heap × Ret} {k : Heap → Heap × Ret} (hx : P x.1) (hk : ∀ H', P H' → P (k H').1) :
    P (thenH x k).1 := by
  unfold thenH
  split
  · exact hx
  · exact hk _ hx

theorem spStep_pres {P : Heap → Prop} (i : Nat) (hsp : ∀ H, P H → P (H.searchParams i).1)
    (hmut : ∀ H s m, P H → P (H.spMutate s m)) {H : Heap} (m : SpMut) (h : P H) :
    P (match H.searchParams i with | (H', some s) => (H'.spMutate s m, Ret.url) | (H', none) => (H', Ret.url)).1 := by
  have hs := hsp H h
  split
  · rename_i H' s heq
    rw [heq] at hs
    exact hmut _ s m hs
  · rename_i H' heq
    rw [heq] at hs
    exact hs

/-- a heap predicate closed under the setters, `searchParams` and `spMutate` (on object `i`) is preserved by
    `canonicalize` on object `i`, whatever the steps return -/
theorem canonicalize_pres {P : Heap → Prop} (I : Idna) (p : Profile) (i : Nat)
    (hset : ∀ H st v, P H → P (H.set I i st v).1) (hsp : ∀ H, P H → P (H.searchParams i).1)
    (hmut : ∀ H s m, P H → P (H.spMutate s m)) {H : Heap} (h : P H) : P (canonicalize I p H i).1 := by
  unfold canonicalize
  dsimp only
  refine thenH_pres ?_ (fun H1 h1 => thenH_pres ?_ (fun H2 h2 => thenH_pres ?_ (fun H3 h3 => thenH_pres ?_ (fun H4 h4 =>
    thenH_pres ?_ (fun H5 h5 => thenH_pres ?_ (fun H6 h6 => thenH_pres ?_ (fun H7 h7 => ?_)))))))
  · split
    · exact hset _ _ _ h
    · exact h
  · split
    · exact hset _ _ _ h1
    · exact h1
  · split
    · exact spStep_pres i hsp hmut _ h2
    · exact h2
  · split
    · exact hset _ _ _ h3
    · exact h3
  · split
    · exact hset _ _ _ h4
    · exact h4
  · split
    · exact thenH_pres (hset _ _ _ h5) (fun H' h' => hset _ _ _ h')
    · exact h5
  · split
    · exact hset _ _ _ h6
    · exact h6
  · have h8 : P (match p.sortQuery with
        | .noSort => (H7, Ret.url)
        | .sortKeys => (match H7.searchParams i with | (H', some s) => (H'.spMutate s .sort, Ret.url) | (H', none) => (H', Ret.url))
        | .sortParameter => (match H7.searchParams i with | (H', some s) => (H'.spMutate s .sortAbs, Ret.url) | (H', none) => (H', Ret.url))).1 := by
      split
      · exact h7
      · exact spStep_pres i hsp hmut _ h7
      · exact spStep_pres i hsp hmut _ h7
    split
    · rename_i H' n heq
      have h8' : P (H', Ret.panic n).1 := by rw [← heq]; exact h8
      exact h8'
    · rename_i H' r _ heq
      have h8' : P (H', r).1 := by rw [← heq]; exact h8
      exact h8'

theorem canonicalize_live {H : Heap} (I : Idna) (p : Profile) (i : Nat) (h : LiveR H) : LiveR (canonicalize I p H i).1 :=
  canonicalize_pres I p i (fun _ st v h => set_live I i st v h) (fun _ h => searchParams_live i h)
    (fun _ s m h => spMutate_live s m h) h

theorem canonParse_live {H : Heap} (I : Idna) (p : Profile) (raw : Bytes) (h : LiveR H) : LiveR (canonParse I p H raw).1 := by
  have ha := allocRes_live (H := H) p.cfg (canonParseBase I p raw) h
  unfold canonParse
  dsimp only
  split
  · rename_i H' i heq
    rw [heq] at ha
    exact canonicalize_live I p i ha
  · rename_i H' heq
    rw [heq] at ha
    exact ha

theorem canonParseRef_live {H : Heap} (I : Idna) (p : Profile) (raw ref : Bytes) (h : LiveR H) :
    LiveR (canonParseRef I p H raw ref).1 := by
  unfold canonParseRef
  dsimp only
  split
  · have ha := allocRes_live (H := H) p.cfg (Impl.urlParse p.cfg I (canonParseBase I p raw).url ref) h
    split
    · rename_i H' i heq
      rw [heq] at ha
      exact canonicalize_live I p i ha
    · rename_i H' heq
      rw [heq] at ha
      exact ha
  · exact h
  · exact h


/-! ### histories in which `SetSearchParams` is given existing lists -/

/-- the list handle passed to `SetSearchParams` designates an existing list -/
def ValidSp (H : Heap) (_i s : Nat) : Prop := s < H.sps.length

theorem reach_live {C : Cfg → Prop} {V : Heap → Nat → Nat → Prop}
    (hV : ∀ H i s, V H i s → s < H.sps.length ∨ H.urls[i]? = none) {H : Heap} (h : HReachC C V H) : LiveR H := by
  induction h with
  | empty => exact LiveR_empty
  | parse cfg I raw _ _ ih => exact allocRes_live _ _ ih
  | parseRef cfg I raw ref _ _ ih => exact allocRes_live _ _ ih
  | set I i st v _ ih => exact set_live I i st v ih
  | searchParams i _ ih => exact searchParams_live i ih
  | spMutate s m _ ih => exact spMutate_live s m ih
  | setSearchParams i s hv _ ih => exact setSearchParams_live i s ih (hV _ _ _ hv)
  | clone i _ ih => exact clone_live i ih
  | urlParse I i ref _ ih => exact urlParse_live I i ref ih
  | canonicalize I p i _ ih => exact canonicalize_live I p i ih
  | canonParse I p raw _ _ ih => exact canonParse_live I p raw ih
  | canonParseRef I p raw ref _ _ ih => exact canonParseRef_live I p raw ref ih

end WhatwgUrl.Proofs.HeapInv
