import WhatwgUrl.Impl.Parser
/-
  Helper lemmas for C04 (structural well-formedness), host level:
   * `Same u u'` : `u'` differs from `u` at most in the ghost/diagnostic fields `verrs`, `qlog`;
     every routine of hostparser.go returns a url that is `Same` as the one it was given;
   * `parseHost` on a non-empty input never returns an empty host (given `preHost = none`, `postHost = none`
     and the oracle hypothesis `IdnaNonEmpty`).
-/
namespace WhatwgUrl.Proofs.HostWF
set_option linter.unusedSimpArgs false
set_option linter.unusedVariables false
open WhatwgUrl WhatwgUrl.Impl

/-- `u'` is `u` up to the diagnostic fields `verrs` / `qlog` -/
def Same (u u' : Url) : Prop :=
  u'.scheme = u.scheme ∧ u'.username = u.username ∧ u'.password = u.password ∧ u'.host = u.host ∧
  u'.port = u.port ∧ u'.decodedPort = u.decodedPort ∧ u'.path = u.path ∧ u'.query = u.query ∧ u'.fragment = u.fragment

theorem Same.refl (u : Url) : Same u u := ⟨rfl, rfl, rfl, rfl, rfl, rfl, rfl, rfl, rfl⟩
theorem Same.trans {a b c : Url} (h1 : Same a b) (h2 : Same b c) : Same a c := by
  obtain ⟨a1, a2, a3, a4, a5, a6, a7, a8, a9⟩ := h1
  obtain ⟨b1, b2, b3, b4, b5, b6, b7, b8, b9⟩ := h2
  exact ⟨b1.trans a1, b2.trans a2, b3.trans a3, b4.trans a4, b5.trans a5, b6.trans a6, b7.trans a7, b8.trans a8, b9.trans a9⟩

theorem Same_record (cfg : Cfg) (u : Url) (t : ErrT) (f : Bool) : Same u (record cfg u t f) := by
  unfold record; split <;> exact ⟨rfl, rfl, rfl, rfl, rfl, rfl, rfl, rfl, rfl⟩

theorem Same_record' {cfg : Cfg} {u u' : Url} {t : ErrT} {f : Bool} (h : Same u u') : Same u (record cfg u' t f) :=
  h.trans (Same_record _ _ _ _)

theorem Same_fail6 (cfg : Cfg) (u : Url) (t : ErrT) : Same u (fail6 cfg u t).url := Same_record _ _ _ _

/-- what we show about every `HR`-valued routine: the url is `Same`, and a successful host is not empty -/
def G (u0 : Url) (r : HR) : Prop := Same u0 r.url ∧ ∀ h, r.out = .ok h → h ≠ []

theorem G_err {u0 u : Url} (e : VErr) (h : Same u0 u) : G u0 ⟨u, .err e⟩ := ⟨h, by intro _ h; cases h⟩
theorem G_panic {u0 u : Url} (n : Nat) (h : Same u0 u) : G u0 ⟨u, .panic n⟩ := ⟨h, by intro _ h; cases h⟩
theorem G_ok {u0 u : Url} (x : Bytes) (h : Same u0 u) (hx : x ≠ []) : G u0 ⟨u, .ok x⟩ :=
  ⟨h, by intro _ h; cases h; exact hx⟩
theorem G_fail6 {cfg : Cfg} {u0 u : Url} (t : ErrT) (h : Same u0 u) : G u0 (fail6 cfg u t) := G_err _ (Same_record' h)

theorem G_hErr {cfg : Cfg} {u0 u : Url} (t : ErrT) (f : Bool) (k : Url → HR) (h0 : Same u0 u)
    (hk : ∀ u', Same u0 u' → G u0 (k u')) : G u0 (hErr cfg u t f k) := by
  unfold hErr
  split
  · exact G_err _ (Same_record' h0)
  · exact hk _ (Same_record' h0)

/-- split / peel tactic for goals `Same u0 …` / `G u0 …` -/
macro "same_base" : tactic => `(tactic| first
  | assumption
  | exact Same.refl _
  | apply Same_record'
  | apply G_err
  | apply G_panic
  | apply G_fail6
  | refine G_hErr _ _ _ ?_ ?_
  | intro _ _
  | dsimp only)

/-! ### IPv4 -/

theorem Same_parseIPv4Number {cfg : Cfg} {u0 u : Url} (input : Bytes) (h : Same u0 u) :
    Same u0 (parseIPv4Number cfg u input).url := by
  unfold parseIPv4Number
  dsimp only
  repeat' (first | same_base | split)

theorem Same_parseIPv4Parts {cfg : Cfg} {u0 : Url} : ∀ (parts : List Bytes) (u : Url) (acc : List Nat), Same u0 u →
    Same u0 (parseIPv4Parts cfg u parts acc).url := by
  intro parts
  induction parts with
  | nil => intro u acc h; exact h
  | cons p rest ih =>
    intro u acc h
    unfold parseIPv4Parts
    dsimp only
    have h1 := Same_parseIPv4Number (cfg := cfg) p h
    repeat' (first | same_base | apply ih | split)

theorem Same_ipv4RangeWarn {cfg : Cfg} {u0 : Url} : ∀ (ns : List Nat) (u : Url), Same u0 u →
    Same u0 (ipv4RangeWarn cfg u ns).1 := by
  intro ns
  induction ns with
  | nil => intro u h; exact h
  | cons n rest ih =>
    intro u h
    unfold ipv4RangeWarn
    repeat' (first | same_base | apply ih | split)

theorem ipv4String_ne (n : Nat) : ipv4String n ≠ [] := by simp [ipv4String]

theorem G_parseIPv4 {cfg : Cfg} {u0 u : Url} (input : Bytes) (h : Same u0 u) : G u0 (parseIPv4 cfg u input) := by
  unfold parseIPv4
  dsimp only
  repeat' (first | same_base | apply Same_ipv4RangeWarn | apply Same_parseIPv4Parts
                 | (apply G_ok _ _ (ipv4String_ne _)) | split)

/-! ### IPv6 -/

def GS4 (u0 : Url) : Sum (C6 × Char × Int × Url) HR → Prop
  | .inl x => Same u0 x.2.2.2
  | .inr r => G u0 r

theorem G_digitLoop6 {cfg : Cfg} {u0 : Url} (rs : Str) : ∀ (fuel : Nat) (cu : C6) (c : Char) (p : Int) (u : Url), Same u0 u →
    GS4 u0 (digitLoop6 cfg rs fuel cu c p u) := by
  intro fuel
  induction fuel with
  | zero => intro cu c p u h; exact h
  | succ n ih =>
    intro cu c p u h
    unfold digitLoop6
    dsimp only
    repeat' (first | (apply ih; assumption) | same_base | exact h | split)

def GS3 (u0 : Url) : Sum (List Nat × Nat × Nat × Url) HR → Prop
  | .inl x => Same u0 x.2.2.2
  | .inr r => G u0 r

theorem G_v4Loop6 {cfg : Cfg} {u0 : Url} (rs : Str) : ∀ (fuel : Nat) (cu : C6) (c : Char) (a : List Nat) (pi ns : Nat) (u : Url),
    Same u0 u → GS3 u0 (v4Loop6 cfg rs fuel cu c a pi ns u) := by
  intro fuel
  induction fuel with
  | zero => intro cu c a pi ns u h; exact h
  | succ n ih =>
    intro cu c a pi ns u h
    unfold v4Loop6
    dsimp only
    generalize (if ns > 0 then (next6 rs cu).1 else cu) = cu1
    generalize (if ns > 0 then (next6 rs cu).2 else c) = c1
    split
    · exact h
    · split
      · exact G_fail6 _ h
      · split
        · exact G_fail6 _ h
        · have hd := G_digitLoop6 (cfg := cfg) rs (rs.length + 2) cu1 c1 (-1) u h
          split
          · rename_i r heq
            rw [heq] at hd; exact hd
          · rename_i cu2 c2 p u2 heq
            rw [heq] at hd
            split
            · exact G_panic _ hd
            · exact ih _ _ _ _ _ _ hd

def GR6 (u0 : Url) : R6 → Prop
  | .cont s => Same u0 s.url
  | .brk s => Same u0 s.url
  | .done r => G u0 r

theorem G_iter6 {cfg : Cfg} {u0 : Url} (rs : Str) (s : S6) (h : Same u0 s.url) : GR6 u0 (iter6 cfg rs s) := by
  unfold iter6
  dsimp only
  split
  · exact G_fail6 _ h
  · split
    · split
      · exact G_fail6 _ h
      · exact h
    · split
      · split
        · exact G_fail6 _ h
        · split
          · exact G_fail6 _ h
          · generalize hcu : (next6 rs _).1 = cu1
            generalize hc1 : (next6 rs _).2 = c1
            have hv := G_v4Loop6 (cfg := cfg) rs (rs.length + 2) cu1 c1 s.address s.pieceIdx 0 s.url h
            split
            · rename_i r heq
              rw [heq] at hv; exact hv
            · rename_i a pi ns u heq
              rw [heq] at hv
              split
              · exact G_fail6 _ hv
              · exact hv
      · repeat' (first | (apply G_fail6; exact h) | (apply G_panic; exact h) | exact h | split)

def GS6 (u0 : Url) : Sum S6 HR → Prop
  | .inl s => Same u0 s.url
  | .inr r => G u0 r

theorem G_loop6 {cfg : Cfg} {u0 : Url} (rs : Str) : ∀ (fuel : Nat) (s : S6), Same u0 s.url → GS6 u0 (loop6 cfg rs fuel s) := by
  intro fuel
  induction fuel with
  | zero => intro s h; exact h
  | succ n ih =>
    intro s h
    unfold loop6
    split
    · exact h
    · have hi := G_iter6 (cfg := cfg) rs s h
      split
      · rename_i s' heq; rw [heq] at hi; exact ih _ hi
      · rename_i s' heq; rw [heq] at hi; exact hi
      · rename_i r heq; rw [heq] at hi; exact hi

theorem G_parseIPv6 {cfg : Cfg} {u0 u : Url} (input : Bytes) (h : Same u0 u) : G u0 (parseIPv6 cfg u input) := by
  unfold parseIPv6
  dsimp only
  split
  · exact G_fail6 _ h
  · rename_i s0 hs0
    have hs : Same u0 s0.url := by
      split at hs0
      · split at hs0
        · cases hs0
        · cases hs0; exact h
      · cases hs0; exact h
    have hl := G_loop6 (cfg := cfg) (goRunes input) ((goRunes input).length + 2) s0 hs
    split
    · rename_i r heq; rw [heq] at hl; exact hl
    · rename_i s heq
      rw [heq] at hl
      split
      · split
        · exact G_panic _ hl
        · exact G_ok _ hl (by simp)
      · split
        · exact G_fail6 _ hl
        · exact G_ok _ hl (by simp)

/-! ### opaque host -/

theorem runeBytes_ne (cfg : Cfg) (c : Char) : runeBytes cfg c ≠ [] := by
  unfold runeBytes
  split
  · simp
  · exact String.utf8EncodeChar_ne_nil

theorem percentEncodeRune_ne (cfg : Cfg) (tr : PSet) (c : Char) : percentEncodeRune cfg tr c ≠ [] := by
  unfold percentEncodeRune
  split
  · exact String.utf8EncodeChar_ne_nil
  · have := runeBytes_ne cfg c
    match h : runeBytes cfg c with
    | [] => exact absurd h this
    | x :: t => simp [pctByte]

theorem goRunes_ne (s : Bytes) (h : s ≠ []) : goRunes s ≠ [] := by
  match s, h with
  | b0 :: rest, _ => simp [goRunes, goDecode, goDecodeAux]

theorem G_opaqueLoop {cfg : Cfg} {u0 : Url} (input : Bytes) (hin : input ≠ []) : ∀ (rs : Str) (u : Url) (out : Bytes),
    Same u0 u → (rs ≠ [] ∨ out ≠ []) → G u0 (opaqueLoop cfg input rs u out) := by
  intro rs
  induction rs with
  | nil =>
    intro u out h ho
    unfold opaqueLoop
    exact G_ok _ h (by simpa using ho)
  | cons c rest ih =>
    intro u out h ho
    unfold opaqueLoop
    dsimp only
    split
    · split
      · exact G_ok _ h hin
      · exact G_err _ (Same_record' h)
    · split
      · exact G_err _ (Same_record' h)
      · split
        · apply G_err; apply Same_record'; split
          · exact Same_record' h
          · exact h
        · apply ih
          · split
            · apply Same_record'; split
              · exact Same_record' h
              · exact h
            · split
              · exact Same_record' h
              · exact h
          · right
            have := percentEncodeRune_ne cfg c0Set c
            simp [this]

theorem G_parseOpaqueHost {cfg : Cfg} {u0 u : Url} (input : Bytes) (hin : input ≠ []) (h : Same u0 u) :
    G u0 (parseOpaqueHost cfg u input) :=
  G_opaqueLoop input hin _ _ _ h (Or.inl (goRunes_ne _ hin))

/-! ### domain to ASCII -/

/-- the oracle hypothesis: on a non-empty query for which the ASCII-only fallback applies (error reported, input is
    ASCII-or-misc without punycode) the oracle's output is not empty. `x/net/idna` satisfies this (it returns the
    processed input together with the error); an arbitrary function does not. -/
def IdnaNonEmpty (I : Idna) : Prop :=
  ∀ s : Bytes, s ≠ [] → (I s).2 = true → asciiOrMiscNoPuny (goRunes s) 0 = true → (I s).1 ≠ []

theorem stringToUnicode_ne (cm : Charmap) : ∀ (rs : Str) (s : Bytes), rs ≠ [] → stringToUnicode cm rs = some s → s ≠ [] := by
  intro rs s hrs h
  match rs, hrs with
  | r :: rest, _ =>
    unfold stringToUnicode at h
    split at h
    · cases hr : stringToUnicode cm rest with
      | none => rw [hr] at h; cases h
      | some t => rw [hr] at h; cases h; simp
    · cases h

theorem Same_toASCII (cfg : Cfg) (I : Idna) {u0 u : Url} (src0 : Bytes) (h : Same u0 u) : Same u0 (toASCII cfg I u src0).2 := by
  have h' : ∀ q, Same u0 { u with qlog := q } := fun q => h
  unfold toASCII
  dsimp only
  repeat' (first | exact h | exact h' _ | split)

theorem toASCII_core (I : Idna) (hI : IdnaNonEmpty I) (lax : Bool) (u1 : Url) (src a : Bytes) (hne : src ≠ [])
    (h : (if ((I src).2 && asciiOrMiscNoPuny (goRunes src) 0) = true then (ToAsciiR.ok (I src).1, u1)
          else if ((I src).2 && !lax) = true then (ToAsciiR.err (I src).1, u1)
          else if (I src).1.isEmpty = true then (ToAsciiR.err [], u1) else (ToAsciiR.ok (I src).1, u1)).1 = .ok a) :
    a ≠ [] := by
  by_cases c1 : ((I src).2 && asciiOrMiscNoPuny (goRunes src) 0) = true
  · rw [if_pos c1] at h
    cases h
    simp only [Bool.and_eq_true] at c1
    exact hI src hne c1.1 c1.2
  · rw [if_neg c1] at h
    by_cases c2 : ((I src).2 && !lax) = true
    · rw [if_pos c2] at h; cases h
    · rw [if_neg c2] at h
      by_cases c3 : (I src).1.isEmpty = true
      · rw [if_pos c3] at h; cases h
      · rw [if_neg c3] at h
        cases h
        simpa using c3

theorem toASCII_ne (cfg : Cfg) (I : Idna) (hI : IdnaNonEmpty I) (u : Url) (src0 a : Bytes) (h0 : src0 ≠ [])
    (h : (toASCII cfg I u src0).1 = .ok a) : a ≠ [] := by
  unfold toASCII at h
  rw [if_neg (by simpa using h0)] at h
  cases hc : cfg.encOverride with
  | none =>
    simp only [hc] at h
    exact toASCII_core I hI _ _ _ _ h0 h
  | some cm =>
    cases hs : stringToUnicode cm (goRunes src0) with
    | none =>
      simp only [hc, hs] at h
      exact toASCII_core I hI _ _ _ _ h0 h
    | some s =>
      simp only [hc, hs] at h
      exact toASCII_core I hI _ _ _ _ (stringToUnicode_ne _ _ _ (goRunes_ne _ h0) hs) h

theorem pesRunes_ne (cfg : Cfg) (tr : PSet) (rs : Str) (h : rs ≠ []) : pesRunes cfg tr rs ≠ [] := by
  match rs, h with
  | r :: rest, _ =>
    unfold pesRunes
    split <;> simp [percentEncodeRune_ne]

theorem Same_forbiddenLoop {cfg : Cfg} {u0 : Url} (a : Bytes) : ∀ (rs : Str) (u : Url), Same u0 u →
    Same u0 (forbiddenLoop cfg a rs u).1 := by
  intro rs
  induction rs with
  | nil => intro u h; exact h
  | cons c rest ih =>
    intro u h
    unfold forbiddenLoop
    repeat' (first | same_base | apply ih | split)

theorem forbiddenLoop_ne {cfg : Cfg} (a : Bytes) (ha : a ≠ []) : ∀ (rs : Str) (u : Url) (x : Bytes),
    (forbiddenLoop cfg a rs u).2 = some (.ok x) → x ≠ [] := by
  intro rs
  induction rs with
  | nil => intro u x h; cases h
  | cons c rest ih =>
    intro u x h
    unfold forbiddenLoop at h
    split at h
    · split at h
      · cases h
        exact pesRunes_ne _ _ _ (goRunes_ne _ ha)
      · cases h
    · exact ih _ _ h

theorem decodePercent_ne (cfg : Cfg) (s : Bytes) (h : s ≠ []) : decodePercent cfg s ≠ [] := by
  match s, h with
  | [x], _ => simp [decodePercent]
  | [x, y], _ => simp [decodePercent]
  | x :: h1 :: h2 :: rest, _ =>
    rw [decodePercent]
    split
    · split
      · simp [utf8Char, String.utf8EncodeChar_ne_nil]
      · simp
    · simp

theorem percentEncodeBytes_ne (tr : PSet) (s : Bytes) (h : s ≠ []) : percentEncodeBytes tr s ≠ [] := by
  match s, h with
  | x :: rest, _ =>
    unfold percentEncodeBytes
    simp only [List.flatMap_cons]
    split <;> simp [pctByte]

/-! ### parseHost -/

theorem parseHost_nil (cfg : Cfg) (I : Idna) (u : Url) (ns : Bool) (hpre : cfg.preHost = none) :
    parseHost cfg I u [] ns = ⟨u, .ok []⟩ := by
  simp [parseHost, hpre]

theorem G_parseHost (cfg : Cfg) (I : Idna) (u : Url) (input : Bytes) (ns : Bool) (hpre : cfg.preHost = none)
    (hpost : cfg.postHost = none) (hI : IdnaNonEmpty I) (hin : input ≠ []) : G u (parseHost cfg I u input ns) := by
  unfold parseHost
  simp only [hpre, hpost]
  match input, hin with
  | b0 :: rest, _ =>
    dsimp only
    split
    · split
      · exact G_fail6 _ (Same.refl _)
      · exact G_parseIPv6 _ (Same.refl _)
    · split
      · exact G_parseOpaqueHost _ (by simp) (Same.refl _)
      · have hd : decodePercent cfg (b0 :: rest) ≠ [] := decodePercent_ne _ _ (by simp)
        split
        · exact G_ok _ (Same.refl _) (percentEncodeBytes_ne _ _ (by simp))
        · split
          · exact G_fail6 _ (Same.refl _)
          · have hs := Same_toASCII cfg I (u0 := u) (decodePercent cfg (b0 :: rest)) (Same.refl u)
            split
            · split
              · exact G_ok _ hs hd
              · exact G_fail6 _ hs
            · rename_i a ha
              have hane := toASCII_ne cfg I hI u _ a hd ha
              have hf := Same_forbiddenLoop (cfg := cfg) a (goRunes a) _ hs
              split
              · rename_i out hout
                refine ⟨hf, ?_⟩
                intro x hx
                dsimp only at hx
                rw [hx] at hout
                exact forbiddenLoop_ne a hane _ _ _ hout
              · split
                · exact G_parseIPv4 _ hf
                · exact G_ok _ hf hane

/-- every caller-visible fact about `parseHost` in one place -/
theorem parseHost_same (cfg : Cfg) (I : Idna) (u : Url) (input : Bytes) (ns : Bool) (hpre : cfg.preHost = none)
    (hpost : cfg.postHost = none) (hI : IdnaNonEmpty I) : Same u (parseHost cfg I u input ns).url := by
  by_cases h : input = []
  · subst h; rw [parseHost_nil _ _ _ _ hpre]; exact Same.refl _
  · exact (G_parseHost cfg I u input ns hpre hpost hI h).1

theorem parseHost_ne (cfg : Cfg) (I : Idna) (u : Url) (input : Bytes) (ns : Bool) (hpre : cfg.preHost = none)
    (hpost : cfg.postHost = none) (hI : IdnaNonEmpty I) (hin : input ≠ []) (h : Bytes)
    (ho : (parseHost cfg I u input ns).out = .ok h) : h ≠ [] :=
  (G_parseHost cfg I u input ns hpre hpost hI hin).2 h ho

end WhatwgUrl.Proofs.HostWF
