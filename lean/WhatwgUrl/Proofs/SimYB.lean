import WhatwgUrl.Proofs.SimDefs2
import WhatwgUrl.Proofs.Termination
import WhatwgUrl.Proofs.Percent
/-
  One more Go-side invariant of the loop tops, needed by the simulation lemma of the port state and not part of `XInv`
  (`SimDefs2.lean`): in the port state the buffer holds ASCII digits only. (The Go code computes the port number from the
  BYTES of the buffer, the standard from its CODE POINTS: `digitsVal 10 (utf8 "1é") = 100`, `Spec.strVal 10 "1é" = 10`.)

  `YInv_init` : it holds for every initial state of `basicParser` (empty buffer);
  `YInv_step` : it is preserved by every continuing iteration, in all 21 states, for EVERY configuration (no hypothesis
                on `e` at all): the port state is entered with an empty buffer only (host state, at `:`), and the port
                state itself appends digits only.
  Same technique as `SimInv.lean` (the compositional shape predicate `Sh` of `Termination.lean`).
-/
namespace WhatwgUrl.Proofs.Sim
set_option linter.unusedSimpArgs false
set_option linter.unusedVariables false
open WhatwgUrl WhatwgUrl.Impl WhatwgUrl.Proofs.Termination

/-- the port buffer holds ASCII digits (`e` is not used; it is there for the uniform shape `Inv e pi`) -/
def YInv (_e : Env) (pi : PS) : Prop := pi.state = .port → ∀ b ∈ pi.buffer, isDigitN b.toNat = true

theorem next_bufferY (rs : Str) (ps : PS) : (next rs ps).1.buffer = ps.buffer := by unfold next; split <;> rfl

/-- the bytes of a digit code point are digits -/
theorem digit_utf8Char (r : Char) (h : isDigitN r.toNat = true) : ∀ b ∈ utf8Char r, isDigitN b.toNat = true := by
  have hlt : r.toNat < 0x80 := by simp [isDigitN] at h; omega
  rw [Percent.utf8Char_ascii r hlt]
  intro b hb
  simp only [List.mem_singleton] at hb
  subst hb
  have : (r.toNat.toUInt8).toNat = r.toNat := by simp; omega
  rw [this]; exact h

/-- close a leaf `YInv e {…}` whose state is not the port state, or whose buffer is empty -/
macro "yleaf" : tactic => `(tactic|
  (unfold YInv; simp_all [rewindLast, resetInput, rewind, writeRune]))

macro "y_step" : tactic => `(tactic| first
  | (apply Sh_done; simp; done)
  | apply Sh_retUrl
  | apply Sh_herr_true
  | (apply Sh_ite <;> intro _)
  | (apply Sh_herr; intro _)
  | (apply Sh_afterHost; intro _ _)
  | dsimp only
  | split
  | (apply Sh_cont; yleaf))

theorem stSchemeStart_y (e : Env) (q : PS) (r : Char) (hst : q.state = .schemeStart) : Sh (YInv e) (stSchemeStart e q r) := by
  unfold stSchemeStart
  repeat' y_step

theorem stScheme_y (e : Env) (q : PS) (r : Char) (hst : q.state = .scheme) : Sh (YInv e) (stScheme e q r) := by
  unfold stScheme
  repeat' y_step

theorem stNoScheme_y (e : Env) (q : PS) (r : Char) (hst : q.state = .noScheme) : Sh (YInv e) (stNoScheme e q r) := by
  unfold stNoScheme
  repeat' y_step

theorem stSpecialRelativeOrAuthority_y (e : Env) (q : PS) (r : Char) (hst : q.state = .specialRelativeOrAuthority) :
    Sh (YInv e) (stSpecialRelativeOrAuthority e q r) := by
  unfold stSpecialRelativeOrAuthority
  repeat' y_step

theorem stPathOrAuthority_y (e : Env) (q : PS) (r : Char) (hst : q.state = .pathOrAuthority) :
    Sh (YInv e) (stPathOrAuthority e q r) := by
  unfold stPathOrAuthority
  repeat' y_step

theorem stRelative_y (e : Env) (q : PS) (r : Char) (hst : q.state = .relative) : Sh (YInv e) (stRelative e q r) := by
  unfold stRelative
  repeat' y_step

theorem stRelativeSlash_y (e : Env) (q : PS) (r : Char) (hst : q.state = .relativeSlash) : Sh (YInv e) (stRelativeSlash e q r) := by
  unfold stRelativeSlash
  repeat' y_step

theorem stSpecialAuthoritySlashes_y (e : Env) (q : PS) (r : Char) (hst : q.state = .specialAuthoritySlashes) :
    Sh (YInv e) (stSpecialAuthoritySlashes e q r) := by
  unfold stSpecialAuthoritySlashes
  repeat' y_step

theorem stSpecialAuthorityIgnoreSlashes_y (e : Env) (q : PS) (r : Char) (hst : q.state = .specialAuthorityIgnoreSlashes) :
    Sh (YInv e) (stSpecialAuthorityIgnoreSlashes e q r) := by
  unfold stSpecialAuthorityIgnoreSlashes
  repeat' y_step

theorem stAuthority_y (e : Env) (q : PS) (r : Char) (hst : q.state = .authority) : Sh (YInv e) (stAuthority e q r) := by
  unfold stAuthority
  repeat' y_step

/-- host / hostname state: the only entry into the port state, with an empty buffer -/
theorem stHost_y (e : Env) (q : PS) (r : Char) (hst : q.state = .host ∨ q.state = .hostname) : Sh (YInv e) (stHost e q r) := by
  unfold stHost
  rcases hst with hst | hst <;> repeat' y_step

/-- port state: digits are appended, everything else leaves the state -/
theorem stPort_y (e : Env) (q : PS) (r : Char) (hst : q.state = .port) (hq : YInv e q) : Sh (YInv e) (stPort e q r) := by
  unfold stPort
  apply Sh_ite <;> intro hd
  · apply Sh_cont
    intro _ b hb
    simp only [writeRune, List.mem_append] at hb
    rcases hb with hb | hb
    · exact hq hst b hb
    · exact digit_utf8Char r hd b hb
  · repeat' y_step

theorem stFile_y (e : Env) (q : PS) (r : Char) (hst : q.state = .file) : Sh (YInv e) (stFile e q r) := by
  unfold stFile
  repeat' y_step

theorem stFileSlash_y (e : Env) (q : PS) (r : Char) (hst : q.state = .fileSlash) : Sh (YInv e) (stFileSlash e q r) := by
  unfold stFileSlash
  repeat' y_step

theorem stFileHost_y (e : Env) (q : PS) (r : Char) (hst : q.state = .fileHost) : Sh (YInv e) (stFileHost e q r) := by
  unfold stFileHost
  repeat' y_step

theorem stPathStart_y (e : Env) (q : PS) (r : Char) (hst : q.state = .pathStart) : Sh (YInv e) (stPathStart e q r) := by
  unfold stPathStart
  repeat' y_step

theorem stPath_y (e : Env) (q : PS) (r : Char) (hst : q.state = .path) : Sh (YInv e) (stPath e q r) := by
  unfold stPath
  repeat' y_step

theorem stOpaquePath_y (e : Env) (q : PS) (r : Char) (hst : q.state = .opaquePath) : Sh (YInv e) (stOpaquePath e q r) := by
  unfold stOpaquePath
  repeat' y_step

theorem stQuery_y (e : Env) (q : PS) (r : Char) (hst : q.state = .query) : Sh (YInv e) (stQuery e q r) := by
  unfold stQuery
  repeat' y_step

theorem stFragment_y (e : Env) (q : PS) (r : Char) (hst : q.state = .fragment) : Sh (YInv e) (stFragment e q r) := by
  unfold stFragment
  repeat' y_step

/-! ### the switch, one iteration, the initial state -/

theorem body_y (e : Env) (q : PS) (r : Char) (hq : YInv e q) : Sh (YInv e) (body e q r) := by
  unfold body
  split <;> rename_i heq
  · exact stSchemeStart_y e q r heq
  · exact stScheme_y e q r heq
  · exact stNoScheme_y e q r heq
  · exact stOpaquePath_y e q r heq
  · exact stSpecialRelativeOrAuthority_y e q r heq
  · exact stSpecialAuthoritySlashes_y e q r heq
  · exact stSpecialAuthorityIgnoreSlashes_y e q r heq
  · exact stPathOrAuthority_y e q r heq
  · exact stAuthority_y e q r heq
  · exact stHost_y e q r (Or.inl heq)
  · exact stHost_y e q r (Or.inr heq)
  · exact stFile_y e q r heq
  · exact stFileHost_y e q r heq
  · exact stFileSlash_y e q r heq
  · exact stPort_y e q r heq hq
  · exact stPath_y e q r heq
  · exact stPathStart_y e q r heq
  · exact stQuery_y e q r heq
  · exact stFragment_y e q r heq
  · exact stRelative_y e q r heq
  · exact stRelativeSlash_y e q r heq

theorem YInv_of_next (e : Env) (pi : PS) (h : YInv e pi) : YInv e (next e.runes pi).1 := by
  unfold YInv
  rw [next_state, next_bufferY]
  exact h

/-- the invariant is preserved by every continuing iteration (all 21 states, every configuration) -/
theorem YInv_step (e : Env) (pi pi' : PS) (h : YInv e pi) (hs : step e pi = .cont pi') : YInv e pi' := by
  unfold step at hs
  rw [bottom_cont] at hs
  exact (body_y e _ _ (YInv_of_next e pi h)).1 pi' hs.1

/-- the invariant holds for every state with an empty buffer, in particular the initial state of `basicParser` -/
theorem YInv_of_nil (e : Env) (pi : PS) (h : pi.buffer = []) : YInv e pi := by
  intro _ b hb; rw [h] at hb; cases hb

theorem YInv_init (e : Env) (st : State) (u : Url) :
    YInv e { state := st, pointer := -1, eof := false, buffer := [], atFlag := false, bracketFlag := false,
             pwSeen := false, url := u } :=
  YInv_of_nil e _ rfl

/-! ### non-vacuity -/

/-- a port state with a non-empty digit buffer, and the step that appends one more digit -/
example :
    let e : Env := ⟨{}, fun s => (s, false), [0x38, 0x30], ['8', '0'], none, some .port⟩
    let pi : PS := ⟨.port, 0, false, [0x38], false, false, false, {}⟩
    YInv e pi ∧ step e pi = .cont ⟨.port, 1, false, [0x38, 0x30], false, false, false, {}⟩ := by
  intro e pi
  refine ⟨?_, rfl⟩
  intro _ b hb
  simp only [pi, List.mem_singleton] at hb
  subst hb; decide

/-- the invariant really restricts: a port state whose buffer is not digits -/
example (e : Env) : ¬ YInv e ⟨.port, 0, false, [0x61], false, false, false, {}⟩ := by
  intro h
  have := h rfl 0x61 (by simp)
  exact absurd this (by decide)

end WhatwgUrl.Proofs.Sim

open WhatwgUrl.Proofs.Sim in
#print axioms YInv_step
open WhatwgUrl.Proofs.Sim in
#print axioms YInv_init
