import WhatwgUrl.Proofs.IndepHist
/-
  Helper for C13b: histories on invalid handles, preservation of the other side's local view by a frame,
  interleaved histories on two objects, and the heap that contains only the target.
-/
namespace WhatwgUrl.Proofs.IndepHist
set_option linter.unusedSimpArgs false
set_option linter.unusedVariables false
open WhatwgUrl WhatwgUrl.Impl WhatwgUrl.Impl.Heap WhatwgUrl.Proofs

theorem applyOps_invalid (I : Idna) (H : Heap) (a : Nat) (ops : List Op) (ha : H.urls[a]? = none) :
    applyOps I H a ops = H := by
  induction ops with
  | nil => rfl
  | cons op ops ih => rw [applyOps_cons, applyOp_invalid I H a op ha]; exact ih

theorem applyOps_append (I : Idna) (H : Heap) (a : Nat) (l1 l2 : List Op) :
    applyOps I H a (l1 ++ l2) = applyOps I (applyOps I H a l1) a l2 := by
  unfold applyOps; rw [List.foldl_append]

theorem runV_append (I : Idna) (cfg : Cfg) (x : Url × Option Pairs) (l1 l2 : List Op) :
    runV I cfg x (l1 ++ l2) = runV I cfg (runV I cfg x l1) l2 := by
  unfold runV; rw [List.foldl_append]

/-- a frame for target `a` keeps the local view of a separated object `b` -/
theorem frame_loc {H H' : Heap} {a b : Nat} {cfg : Cfg} {x : Url × Option Pairs} (hf : Frame H H' a)
    (hsep : Separated H a b) (h : Loc H b cfg x) : Loc H' b cfg x := by
  obtain ⟨o, ho, hu, hc, hsp⟩ := h
  have hb := lt_of_getElem?_eq_some ho
  refine ⟨o, by rw [hf.urls b hb (fun e => hsep.1 e.symm)]; exact ho, hu, hc, ?_⟩
  rcases hsp with h | ⟨s, so, hs, hso, hbk, hx⟩
  · exact Or.inl h
  · refine Or.inr ⟨s, so, hs, ?_, hbk, hx⟩
    rw [hf.sps s (lt_of_getElem?_eq_some hso) (fun oa hoa hsa => hsep.2 oa o hoa ho s s hsa hs rfl)]
    exact hso

/-! ### interleavings -/

/-- operations applied alternately to two objects: `(true, op)` goes to `a`, `(false, op)` to `b` -/
def applyBoth (I : Idna) (H : Heap) (a b : Nat) (l : List (Bool × Op)) : Heap :=
  l.foldl (fun H' so => applyOp I H' (if so.1 then a else b) so.2) H

/-- the operations of one side -/
def proj (side : Bool) (l : List (Bool × Op)) : List Op := (l.filter (·.1 == side)).map (·.2)

@[simp] theorem applyBoth_nil (I : Idna) (H : Heap) (a b : Nat) : applyBoth I H a b [] = H := rfl
@[simp] theorem applyBoth_cons (I : Idna) (H : Heap) (a b : Nat) (so : Bool × Op) (l : List (Bool × Op)) :
    applyBoth I H a b (so :: l) = applyBoth I (applyOp I H (if so.1 then a else b) so.2) a b l := rfl

theorem proj_cons_same (side : Bool) (op : Op) (l : List (Bool × Op)) : proj side ((side, op) :: l) = op :: proj side l := by
  simp [proj]

theorem proj_cons_other (side : Bool) (op : Op) (l : List (Bool × Op)) : proj side ((!side, op) :: l) = proj side l := by
  cases side <;> simp [proj]

/-- interleaved histories: each side's local view evolves by its own operations only -/
theorem both (I : Idna) (l : List (Bool × Op)) : ∀ {H : Heap} {a b : Nat} {ca cb : Cfg} {xa xb : Url × Option Pairs},
    Separated H a b → Loc H a ca xa → Loc H b cb xb →
    Separated (applyBoth I H a b l) a b ∧ Loc (applyBoth I H a b l) a ca (runV I ca xa (proj true l)) ∧
      Loc (applyBoth I H a b l) b cb (runV I cb xb (proj false l)) := by
  induction l with
  | nil => intro H a b ca cb xa xb hsep ha hb; exact ⟨hsep, ha, hb⟩
  | cons so l ih =>
    intro H a b ca cb xa xb hsep ha hb
    obtain ⟨side, op⟩ := so
    cases side with
    | true =>
      obtain ⟨f1, l1⟩ := step I op ha
      have hb1 := frame_loc f1 hsep hb
      have hsep1 := (frame_inv f1 hsep hb.ownSp hb.lt).1
      have := ih hsep1 l1 hb1
      rw [applyBoth_cons]
      simp only [if_true]
      rw [proj_cons_same true, show proj false ((true, op) :: l) = proj false l from proj_cons_other false op l]
      exact this
    | false =>
      obtain ⟨f1, l1⟩ := step I op hb
      have ha1 := frame_loc f1 hsep.symm ha
      have hsep1 := (frame_inv f1 hsep.symm ha.ownSp ha.lt).1.symm
      have := ih hsep1 ha1 l1
      rw [applyBoth_cons]
      simp only [Bool.false_eq_true, if_false]
      rw [proj_cons_same false, show proj true ((false, op) :: l) = proj true l from proj_cons_other true op l]
      exact this

/-! ### the heap that contains only the target -/

/-- a heap with one object (value `x.1`, options `cfg`) and, if `x.2 = some l`, its own list `l` -/
def solo (cfg : Cfg) (x : Url × Option Pairs) : Heap :=
  match x.2 with
  | none => { urls := [{ u := x.1, sp := none, cfg := cfg }], sps := [] }
  | some l => { urls := [{ u := x.1, sp := some 0, cfg := cfg }], sps := [{ url := some 0, params := l }] }

theorem solo_loc (cfg : Cfg) (x : Url × Option Pairs) : Loc (solo cfg x) 0 cfg x := by
  obtain ⟨u, p⟩ := x
  cases p with
  | none => exact ⟨_, rfl, rfl, rfl, Or.inl ⟨rfl, rfl⟩⟩
  | some l => exact ⟨_, rfl, rfl, rfl, Or.inr ⟨0, _, rfl, rfl, rfl, rfl⟩⟩

end WhatwgUrl.Proofs.IndepHist
