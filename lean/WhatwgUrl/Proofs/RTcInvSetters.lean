import WhatwgUrl.Proofs.RTcInvMachine
import WhatwgUrl.Proofs.RTcInvProfile
/-
  C03c helper file, part 5: every setter keeps `RTx`, except the protocol setter when it switches a non-`file` url to
  `file` (the url may then start with a non-normalised drive letter `C|` — the documented exception — or have the host
  `localhost`, which the file host state would have mapped to the empty host).

  The parser-calling setters other than `protocol` go through the generalised machine invariant of
  `Proofs/RTcInvMachine.lean` (`basicParser_Xg`: any state override but the protocol setter's) + `setU_NoSl`;
  the protocol setter has its own two-state invariant here (the run only visits the scheme-start and scheme states).
-/
namespace WhatwgUrl.Proofs.RTcInv
set_option linter.unusedSimpArgs false
set_option linter.unusedVariables false
open WhatwgUrl WhatwgUrl.Impl WhatwgUrl.Proofs.HostWF WhatwgUrl.Proofs.Frame WhatwgUrl.Props.C04b
open WhatwgUrl.Proofs.OpaqueSlash (NoSl setU_NoSl)
open WhatwgUrl.Proofs.Termination (next_state)

/-! ### the setters that run the machine under an override other than scheme start -/

theorem RTx_of_parts {u : Url} (h : Xu u ∧ Xe u ∧ Xt u) (hn : NoSl u) : RTx u := ⟨h.1, h.2.1, h.2.2, hn⟩

theorem Xu_same {u u' : Url} (hs : Same u u') (h : Xu u) : Xu u' := by
  obtain ⟨h1, h2, h3, h4, h5, h6, h7, h8, h9⟩ := hs
  unfold Xu at h ⊢
  rw [h1, h4, h5, h6, h7]; exact h
theorem Xe_same {u u' : Url} (hs : Same u u') (h : Xe u) : Xe u' := by
  obtain ⟨h1, h2, h3, h4, h5, h6, h7, h8, h9⟩ := hs
  unfold Xe at h ⊢
  rw [h4, h7]; exact h
theorem Xt_same {u u' : Url} (hs : Same u u') (h : Xt u) : Xt u' := by
  obtain ⟨h1, h2, h3, h4, h5, h6, h7, h8, h9⟩ := hs
  unfold Xt at h ⊢
  rw [h7, h8, h9]; exact h

theorem setHostLike_X (I : Idna) (hI : IdnaNonEmpty I) (u : Url) (v : Bytes) (st : State) (hst : st = .host ∨ st = .hostname)
    (hs : WFs {} u) (hx : RTx u) (ho : ¬ u.path.opq = true) :
    Xu (basicParser {} I v none (some u) (some st)).url ∧ Xe (basicParser {} I v none (some u) (some st)).url ∧
    Xt (basicParser {} I v none (some u) (some st)).url := by
  apply basicParser_Xg I hI v none (some u) (some st) (by rcases hst with rfl | rfl <;> (intro h; cases h))
    (by intro h; cases h) (by intro b h; cases h) (by intro b h; cases h) hx.1
  · intro src runes u2 h
    have hw : WFs {} u2 := (WFs_same h).mpr hs
    have hop : u2.path.opq = false := by rw [h.2.2.2.2.2.2.1]; simpa using ho
    unfold J
    rcases hst with rfl | rfl
    · exact Or.inr ⟨rfl, hw, hop⟩
    · exact Or.inr ⟨rfl, hw, hop⟩
  · intro src runes u2 h
    unfold Bx
    rcases hst with rfl | rfl <;> exact fun _ => ⟨Xe_same h hx.2.1, Xt_same h hx.2.2.1⟩
  · exact Or.inr rfl

theorem setHost_RTx (I : Idna) (hI : IdnaNonEmpty I) (u : Url) (v : Bytes) (hs : WFs {} u) (hx : RTx u) :
    RTx (setU {} I .host u v).url := by
  refine RTx_of_parts ?_ (setU_NoSl {} I .host u v hx.2.2.2)
  show Xu (setHost {} I u v).url ∧ Xe (setHost {} I u v).url ∧ Xt (setHost {} I u v).url
  unfold setHost keep
  split
  · exact ⟨hx.1, hx.2.1, hx.2.2.1⟩
  · rename_i h; exact setHostLike_X I hI u v .host (Or.inl rfl) hs hx h

theorem setHostname_RTx (I : Idna) (hI : IdnaNonEmpty I) (u : Url) (v : Bytes) (hs : WFs {} u) (hx : RTx u) :
    RTx (setU {} I .hostname u v).url := by
  refine RTx_of_parts ?_ (setU_NoSl {} I .hostname u v hx.2.2.2)
  show Xu (setHostname {} I u v).url ∧ Xe (setHostname {} I u v).url ∧ Xt (setHostname {} I u v).url
  unfold setHostname keep
  split
  · exact ⟨hx.1, hx.2.1, hx.2.2.1⟩
  · rename_i h; exact setHostLike_X I hI u v .hostname (Or.inr rfl) hs hx h

theorem setPort_RTx (I : Idna) (hI : IdnaNonEmpty I) (u : Url) (v : Bytes) (hs : WFs {} u) (hx : RTx u) :
    RTx (setU {} I .port u v).url := by
  refine RTx_of_parts ?_ (setU_NoSl {} I .port u v hx.2.2.2)
  show Xu (setPort {} I u v).url ∧ Xe (setPort {} I u v).url ∧ Xt (setPort {} I u v).url
  unfold setPort keep
  split
  · exact ⟨hx.1, hx.2.1, hx.2.2.1⟩
  · rename_i h
    have hc := cannotHaveUPP_false h
    split
    · have := RTx_clearPort u hx
      exact ⟨this.1, this.2.1, this.2.2.1⟩
    · apply basicParser_Xg I hI v none (some u) (some .port) (by intro h; cases h)
        (by intro h; cases h) (by intro b h; cases h) (by intro b h; cases h) hx.1
      · intro src runes u2 h2
        have hw : WFs {} u2 := (WFs_same h2).mpr hs
        have hc2 : CanPort u2 := by
          obtain ⟨c1, c2, c3⟩ := hc
          unfold CanPort
          rw [h2.1, h2.2.2.2.1]; exact ⟨c1, c2, c3⟩
        unfold J
        exact ⟨((WFs_iff _ _).mp hw).1, hc2, (by intro h; cases h), fun _ => hw⟩
      · intro src runes u2 h2
        unfold Bx
        exact fun _ => ⟨Xe_same h2 hx.2.1, Xt_same h2 hx.2.2.1⟩
      · exact Or.inr rfl

theorem setPathname_RTx (I : Idna) (hI : IdnaNonEmpty I) (u : Url) (v : Bytes) (hs : WFs {} u) (hx : RTx u) :
    RTx (setU {} I .pathname u v).url := by
  refine RTx_of_parts ?_ (setU_NoSl {} I .pathname u v hx.2.2.2)
  show Xu (setPathname {} I u v).url ∧ Xe (setPathname {} I u v).url ∧ Xt (setPathname {} I u v).url
  unfold setPathname keep
  split
  · exact ⟨hx.1, hx.2.1, hx.2.2.1⟩
  · apply basicParser_Xg I hI v none (some { u with path := Path.init }) (some .pathStart) (by intro h; cases h)
      (by intro h; cases h) (by intro b h; cases h) (by intro b h; cases h)
    · obtain ⟨x1, x2, x3, x4⟩ := hx.1
      exact ⟨x1, x2, fun _ _ => DriveOk_init, fun h => by cases h⟩
    · intro src runes u2 h
      obtain ⟨h1, h2, h3, h4, h5, h6, h7, h8, h9⟩ := h
      have ha := ((WFs_iff _ _).mp hs).1
      unfold J
      refine ⟨?_, h7, Or.inr rfl⟩
      unfold WFa at ha ⊢
      rw [h1, h2, h3, h4, h5, h6]; exact ha
    · intro src runes u2 h
      unfold Bx
      intro h'; cases h'
    · exact Or.inr rfl

theorem setSearch_RTx (I : Idna) (hI : IdnaNonEmpty I) (u : Url) (v : Bytes) (hs : WFs {} u) (hx : RTx u) :
    RTx (setU {} I .search u v).url := by
  refine RTx_of_parts ?_ (setU_NoSl {} I .search u v hx.2.2.2)
  show Xu (setSearchU {} I u v).url ∧ Xe (setSearchU {} I u v).url ∧ Xt (setSearchU {} I u v).url
  by_cases hv : v = []
  · subst hv
    have := setSearch_empty_RTx {} I u hs hx
    exact ⟨this.1, this.2.1, this.2.2.1⟩
  · have hve : v.isEmpty = false := by cases v <;> simp_all
    unfold setSearchU keep
    simp only [hve, Bool.false_eq_true, if_false]
    have hx' : RTx (if (u.query == none) = true then { u with query := some [] } else u) := by
      split
      · obtain ⟨⟨x1, x2, x3, x4⟩, x5, x6, x7⟩ := hx
        unfold RTx Xu Xe Xt NoSl
        dsimp only
        exact ⟨⟨x1, x2, x3, x4⟩, x5, (fun _ hq => by cases hq), x7⟩
      · exact hx
    have hs' : WFs {} (if (u.query == none) = true then { u with query := some [] } else u) := by
      split
      · exact WFs_keep_fields hs rfl rfl rfl rfl rfl rfl rfl
      · exact hs
    apply basicParser_Xg I hI _ none (some _) (some .query) (by intro h; cases h)
      (by intro h; cases h) (by intro b h; cases h) (by intro b h; cases h) hx'.1
    · intro src runes u2 h
      unfold J
      exact (WFs_same h).mpr hs'
    · intro src runes u2 h
      unfold Bx
      exact ⟨Xe_same h hx'.2.1, fun _ => Xt_same h hx'.2.2.1⟩
    · exact Or.inr rfl

theorem setHash_RTx (I : Idna) (hI : IdnaNonEmpty I) (u : Url) (v : Bytes) (hs : WFs {} u) (hx : RTx u) :
    RTx (setU {} I .hash u v).url := by
  refine RTx_of_parts ?_ (setU_NoSl {} I .hash u v hx.2.2.2)
  show Xu (setHash {} I u v).url ∧ Xe (setHash {} I u v).url ∧ Xt (setHash {} I u v).url
  by_cases hv : v = []
  · subst hv
    have := setHash_empty_RTx {} I u hs hx
    exact ⟨this.1, this.2.1, this.2.2.1⟩
  · have hve : v.isEmpty = false := by cases v <;> simp_all
    unfold setHash keep
    simp only [hve, Bool.false_eq_true, if_false]
    have hx' : RTx { u with fragment := some [] } := by
      obtain ⟨⟨x1, x2, x3, x4⟩, x5, x6, x7⟩ := hx
      unfold RTx Xu Xe Xt NoSl
      dsimp only
      exact ⟨⟨x1, x2, x3, x4⟩, x5, (fun _ _ hf => by cases hf), x7⟩
    have hs' : WFs {} { u with fragment := some [] } := WFs_keep_fields hs rfl rfl rfl rfl rfl rfl rfl
    apply basicParser_Xg I hI _ none (some _) (some .fragment) (by intro h; cases h)
      (by intro h; cases h) (by intro b h; cases h) (by intro b h; cases h) hx'.1
    · intro src runes u2 h
      unfold J
      exact (WFs_same h).mpr hs'
    · intro src runes u2 h
      unfold Bx
      exact ⟨Xe_same h hx'.2.1, fun _ => Xt_same h hx'.2.2.1⟩
    · exact Or.inr rfl

/-! ### the protocol setter: its run visits only the scheme-start and scheme states -/

def SSt : State → Bool
  | .schemeStart | .scheme => true
  | _ => false

/-- invariant: still in one of the two states, the url is (up to diagnostics) the one the setter was called on -/
def InvS (u0 : Url) (ps : PS) : Prop := SSt ps.state = true ∧ Same u0 ps.url
/-- however the run returns: the url is the old one, or the old one with a new scheme and the default port cleaned -/
def DS (cfg : Cfg) (u0 : Url) (x : Res) : Prop :=
  Same u0 x.url ∨ ∃ b u', Same u0 u' ∧ x.url = cleanDefaultPort cfg { u' with scheme := b }

theorem stSchemeStart_s (e : Env) (u0 : Url) (q : PS) (r : Char) (hov : e.ov.isSome = true) (hI : InvS u0 q) :
    ShF (InvS u0) (DS e.cfg u0) (stSchemeStart e q r) := by
  have hn : e.ov.isNone = false := by cases h : e.ov <;> simp_all
  unfold stSchemeStart
  apply ShF_ite <;> intro _
  · apply ShF_cont; exact ⟨rfl, hI.2⟩
  · rw [hn]
    simp only [Bool.false_eq_true, if_false]
    apply ShF_herr_true
    exact Or.inl (hI.2.trans (Same_record _ _ _ _))

theorem stScheme_s (e : Env) (u0 : Url) (q : PS) (r : Char) (hov : e.ov.isSome = true) (hI : InvS u0 q) :
    ShF (InvS u0) (DS e.cfg u0) (stScheme e q r) := by
  have hn : e.ov.isNone = false := by cases h : e.ov <;> simp_all
  unfold stScheme
  simp only [hov, hn, Bool.true_and, if_true, Bool.false_eq_true, if_false]
  apply ShF_ite <;> intro _
  · apply ShF_cont; exact ⟨hI.1, hI.2⟩
  · apply ShF_ite <;> intro _
    · repeat' (first
        | ((with_reducible apply ShF_ite) <;> intro _)
        | (apply ShF_retUrl; exact Or.inl hI.2)
        | dsimp only)
      apply ShF_done
      exact Or.inr ⟨q.buffer, q.url, hI.2, rfl⟩
    · apply ShF_herr_true
      exact Or.inl (hI.2.trans (Same_record _ _ _ _))

theorem body_s (e : Env) (u0 : Url) (q : PS) (r : Char) (hov : e.ov.isSome = true) (hI : InvS u0 q) :
    ShF (InvS u0) (DS e.cfg u0) (body e q r) := by
  unfold body
  split <;> rename_i heq
  all_goals first
    | exact stSchemeStart_s e u0 q r hov hI
    | exact stScheme_s e u0 q r hov hI
    | (exfalso; simp [InvS, heq, SSt] at hI)

theorem InvS_next (rs : Str) (u0 : Url) (ps : PS) (hI : InvS u0 ps) : InvS u0 (next rs ps).1 := by
  unfold InvS at hI ⊢
  rw [next_state, WhatwgUrl.Proofs.Frame.next_url]
  exact hI

theorem step_s (e : Env) (u0 : Url) (ps : PS) (hov : e.ov.isSome = true) (hI : InvS u0 ps) :
    ShF (InvS u0) (DS e.cfg u0) (step e ps) := by
  unfold step
  have hb := body_s e u0 _ (next e.runes ps).2 hov (InvS_next e.runes u0 ps hI)
  generalize body e (next e.runes ps).1 (next e.runes ps).2 = res at hb
  cases res with
  | done y => exact ShF_done _ _ _ (hb.2 y rfl)
  | cont p =>
    simp only [bottom]
    split
    · exact ShF_done _ _ _ (Or.inl (hb.1 p rfl).2)
    · exact ShF_cont _ _ _ (hb.1 p rfl)

theorem loop_s (e : Env) (u0 : Url) (hov : e.ov.isSome = true) : ∀ (fuel : Nat) (ps : PS), InvS u0 ps →
    DS e.cfg u0 (loop e fuel ps) := by
  intro fuel
  induction fuel with
  | zero => intro ps hI; exact Or.inl hI.2
  | succ k ih =>
    intro ps hI
    have hs := step_s e u0 ps hov hI
    unfold loop
    split
    · rename_i ps' h; exact ih ps' (hs.1 ps' h)
    · rename_i x h; exact hs.2 x h

/-- **what the protocol setter can do to a url** (any configuration, oracle, value) -/
theorem setProtocol_shape (cfg : Cfg) (I : Idna) (u : Url) (v : Bytes) : DS cfg u (setProtocol cfg I u v) := by
  unfold setProtocol
  generalize (if endsWith v [0x3a] = true then v else v ++ [0x3a]) = inp
  unfold basicParser
  dsimp only
  simp only [Option.isNone_some, Bool.false_and, Bool.false_eq_true, if_false, Option.getD_some]
  split
  · exact Or.inl (Same_record _ _ _ _)
  · apply loop_s ⟨cfg, I, _, _, none, some .schemeStart⟩ u rfl
    refine ⟨rfl, ?_⟩
    dsimp only
    split
    · exact Same_record _ _ _ _
    · exact Same.refl _

theorem cdp_decodedPort_port (cfg : Cfg) (u : Url) (h : u.port = none → u.decodedPort = 0) :
    (cleanDefaultPort cfg u).port = none → (cleanDefaultPort cfg u).decodedPort = 0 := cdp_Xp cfg u h

/-- a change of scheme keeps `RTx` unless it switches to `file` -/
theorem RTx_setScheme (cfg : Cfg) (u : Url) (b : Bytes) (hx : RTx u) (hb : b = lit "file" → u.scheme = lit "file") :
    RTx (cleanDefaultPort cfg { u with scheme := b }) := by
  obtain ⟨⟨x1, x2, x3, x4⟩, x5, x6, x7⟩ := hx
  unfold RTx Xu Xe Xt NoSl
  rw [cdp_scheme, cdp_host, cdp_path, WhatwgUrl.Props.C04c.cdp_query, WhatwgUrl.Props.C04c.cdp_fragment]
  exact ⟨⟨cdp_Xp cfg _ x1, fun h => x2 (hb h), fun ho h => x3 ho (hb h), x4⟩, x5, x6, x7⟩

/-- the protocol setter keeps `RTx` unless it switches a non-`file` url to `file` -/
theorem setProtocol_RTx (cfg : Cfg) (I : Idna) (u : Url) (v : Bytes) (hx : RTx u)
    (hexc : (setProtocol cfg I u v).url.scheme = lit "file" → u.scheme = lit "file") :
    RTx (setProtocol cfg I u v).url := by
  rcases setProtocol_shape cfg I u v with h | ⟨b, u', hs, he⟩
  · exact (RTx_same h).mpr hx
  · rw [he] at hexc ⊢
    rw [cdp_scheme] at hexc
    apply RTx_setScheme cfg u' b ((RTx_same hs).mpr hx)
    intro hb
    rw [hs.1]; exact hexc hb

/-! ### all setters -/

/-- **every setter keeps `RTx`**, except `protocol` switching to `file` -/
theorem setU_RTx (I : Idna) (hI : IdnaNonEmpty I) (s : Setter) (u : Url) (v : Bytes) (hs : WFs {} u) (hx : RTx u)
    (hexc : s = .protocol → (setU {} I s u v).url.scheme = lit "file" → u.scheme = lit "file") :
    RTx (setU {} I s u v).url := by
  cases s with
  | protocol => exact setProtocol_RTx {} I u v hx (hexc rfl)
  | username => exact setUsername_RTx {} u v hx
  | password => exact setPassword_RTx {} u v hx
  | host => exact setHost_RTx I hI u v hs hx
  | hostname => exact setHostname_RTx I hI u v hs hx
  | port => exact setPort_RTx I hI u v hs hx
  | pathname => exact setPathname_RTx I hI u v hs hx
  | search => exact setSearch_RTx I hI u v hs hx
  | hash => exact setHash_RTx I hI u v hs hx

end WhatwgUrl.Proofs.RTcInv
