import WhatwgUrl.Proofs.SimParse
import WhatwgUrl.Proofs.SimSetters
import WhatwgUrl.Proofs.SimA2
import WhatwgUrl.Proofs.SimB2
import WhatwgUrl.Props.C04b
/-
  Conformance simulation, final assembly: the per-state lemmas (`stepSim'_A`: twelve states, `stepSim'_B`: nine states)
  are put together into the one-iteration simulation for ALL 21 states, the invariants `XInv` (`SimInv.lean`) and `YInv`
  (`SimYB.lean`) are carried through the generic loop lifting (`loop_sim_gen`) and the generic assembly theorems of
  `SimParse.lean` / `SimSetters.lean`, and the hypothesis on the parsed base (`hwf`) is discharged by the structural
  well-formedness theorem `C04_parse_WFs_default`.

  Results (all under the oracle laws `IdnaLaws I` only):
    `stepSimG_all`      the one-iteration simulation, every state, every state override
    `parse_conforms`    `basicParser {} I input base none none` against `Spec.basicParse`          (relation `RRes' true`)
    `parse_conforms_api`, `parseRef_conforms`   `parse` / `parseRef` against `Spec.apiParse`          (relation `RApi`)
    `C01_parse_conforms_obs`  the observable form (`obsImpl = obsSpec`)
    `set_conforms`      every setter against `Spec.set`                                            (relation `RUrl`)
-/
namespace WhatwgUrl.Proofs.Sim
open WhatwgUrl WhatwgUrl.Impl

/-! ### the one-iteration simulation for all states -/

/-- the two families of per-state lemmas cover the 21 states -/
theorem stA_or_stB : ∀ s : State, stA s = true ∨ stB s = true := by
  intro s; cases s <;> decide

/-- the invariant carried along the loop: the base is well-formed, `XInv` (`SimDefs2.lean`) and `YInv` (`SimYB.lean`: the
    port buffer holds ASCII digits) hold. All three are Go-side facts. -/
def XIY : Env → PS → Spec.PS → Prop := fun e pi _ => EnvOk e ∧ XInv e pi ∧ YInv e pi

/-- one iteration, any state: `stepSim'_A` or `stepSim'_B` -/
theorem stepSim'_all (I : Idna) (hI : IdnaLaws I) (ov : Option Spec.St) (e : Env) (input : Str) (base : Option Spec.SUrl)
    (hE : REnv e input base ov I) (hOk : EnvOk e) (pi : PS) (ss : Spec.PS) (h : RPS pi ss) (hx : XInv e pi) (hy : YInv e pi) :
    RStep' ov.isNone (step e pi) (afterRun input (Spec.run (specIdna I) input base ov ss)) := by
  rcases stA_or_stB pi.state with hs | hs
  · exact stepSim'_A I hI ov e input base hE hOk pi ss h hx hs
  · exact stepSim'_B I hI ov e input base hE hOk pi ss h hx hy hs

/-- the general one-iteration simulation, with the invariants re-established (`XInv_step`, `YInv_step`) -/
theorem stepSimG_all (I : Idna) (hI : IdnaLaws I) (ov : Option Spec.St) : StepSimG XIY (RRes' ov.isNone) I ov := by
  intro e input base hEnv pi ss hp hx
  obtain ⟨hEo, hx, hy⟩ := hx
  have hs := stepSim'_all I hI ov e input base hEnv hEo pi ss hp hx hy
  have hF' : HostFrame e.I := hostFrame_any e.I
  cases hgo : step e pi with
  | cont pi' =>
    rw [hgo] at hs
    cases hsp : afterRun input (Spec.run (specIdna I) input base ov ss) with
    | cont ss' =>
      rw [hsp] at hs
      exact ⟨hs, hEo, XInv_step e hEnv.cfg hF' hEo pi pi' hp.eof hx hgo, YInv_step e pi pi' hy hgo⟩
    | stop s => rw [hsp] at hs; exact hs.elim
  | done r =>
    rw [hgo] at hs
    cases hsp : afterRun input (Spec.run (specIdna I) input base ov ss) with
    | cont ss' => rw [hsp] at hs; exact hs.elim
    | stop s => rw [hsp] at hs; exact hs

/-- the invariant holds for the initial state of `basicParser` (the buffer is empty) -/
theorem XIY_init (I : Idna) (input : Bytes) (base : Option Url) (fresh : Bool) (ov : Option State) (url : Option Url)
    (hb : BaseOk? base) (hrel : relSt (ov.getD .schemeStart) = false)
    (hopq : (url.getD {}).path.opq = true →
      opqSt (ov.getD .schemeStart) = true ∨ (ov.isSome = true ∧ ovOpqSt (ov.getD .schemeStart) = true))
    (ss : Spec.PS) : XIY (envOf I input base fresh ov) (ps0Of url ov) ss :=
  ⟨fun b hb' => hb b hb', XInv_init _ _ _ hrel hopq, YInv_init _ _ _⟩

/-- without state override, fresh url -/
theorem XIY_init_parse (I : Idna) (input : Bytes) (base : Option Url) (hb : BaseOk? base) :
    XIY (envOf I input base true none) (ps0Of none none) (ss0Of none none) :=
  XIY_init I input base true none none hb rfl (fun h => by cases h) _

/-! ### parsing -/

/-- **The basic parser conforms** (no state override, default configuration): for corresponding (and well-formed) bases
    the results correspond — both fail or both succeed, and the url records correspond in either case. -/
theorem parse_conforms (I : Idna) (hI : IdnaLaws I) (input : Bytes) (base : Option Url) (sbase : Option Spec.SUrl)
    (hb : match base, sbase with | none, none => True | some bi, some bs => RUrl bi bs | _, _ => False)
    (hbok : BaseOk? base)
    (ht : TabNlOk (trim c0OrSpaceSet input).1) :
    RRes' true (basicParser {} I input base none none) (Spec.basicParse (specIdna I) (goRunes input) sbase none none) :=
  basicParser_sim_gen XIY (RRes' true) I none (stepSimG_all I hI none) input base none sbase none hb rfl
    (RPS_init .schemeStart {} {} RUrl_empty (by decide) (by decide) (by decide))
    (XIY_init_parse I input base hbok) ht

/-- the same with the relation `RRes` of `SimDefs.lean` -/
theorem stepSimG_all_RRes (I : Idna) (hI : IdnaLaws I) : StepSimG XIY RRes I none :=
  (stepSimG_all I hI none).mono fun _ _ h => h.toRRes

/-- `parse` against `Spec.apiParse` without a base -/
theorem parse_conforms_api (I : Idna) (hI : IdnaLaws I) (input : Bytes) (ht : TabNlOk (trim c0OrSpaceSet input).1) :
    RApi (parse {} I input) (Spec.apiParse (specIdna I) (goRunes input) none) :=
  parse_conforms_of_sim_api_gen XIY BaseOk? I (stepSimG_all_RRes I hI) (fun input base hb => XIY_init_parse I input base hb)
    (fun _ h => by cases h) input ht

/-- a successfully parsed url (no base) satisfies the condition on bases: a clause of `WFs` (`C04_parse_WFs_default`) -/
theorem parse_baseOk (I : Idna) (hI : IdnaLaws I) (b : Bytes) (hr : (parse {} I b).ret = .url) :
    BaseOk {} (parse {} I b).url :=
  (Props.C04b.C04_parse_WFs_default I hI.nonempty b none (fun _ h => by cases h) hr).2.1 |> fun h hs => (h hs).2.2.1

/-- **`parseRef` conforms** (the two-step parse with a base given as a string) against `Spec.apiParse` with a base string.
    For an empty base string the Go `parseRef` means "no base" while `Spec.apiParse … (some [])` parses the empty base
    and fails: hence `b ≠ []`. -/
theorem parseRef_conforms (I : Idna) (hI : IdnaLaws I) (b r : Bytes) (hne : b ≠ [])
    (htb : TabNlOk (trim c0OrSpaceSet b).1) (htr : TabNlOk (trim c0OrSpaceSet r).1) :
    RApi (parseRef {} I b r) (Spec.apiParse (specIdna I) (goRunes r) (some (goRunes b))) :=
  parseRef_conforms_of_sim_gen XIY BaseOk? I (stepSimG_all_RRes I hI) (fun input base hb => XIY_init_parse I input base hb)
    (fun _ h => by cases h) b r hne (fun hr b' hb' => by cases hb'; exact parse_baseOk I hI b hr) htb htr

/-- the observable form (failure, or the serialization plus the nine getters), any optional base string -/
theorem C01_parse_conforms_obs (I : Idna) (hI : IdnaLaws I) (input : Bytes) (base : Option Bytes)
    (hne : base ≠ some [])
    (ht : TabNlOk (trim c0OrSpaceSet input).1)
    (htb : ∀ b, base = some b → TabNlOk (trim c0OrSpaceSet b).1) :
    Props.C01.obsImpl (match (generalizing := false) base with | none => parse {} I input | some b => parseRef {} I b input) =
    Props.C01.obsSpec (Spec.apiParse (Props.C01.specIdna I) (goRunes input) (base.map goRunes)) :=
  C01_parse_conforms_of_sim_gen XIY BaseOk? I (stepSimG_all_RRes I hI) (fun input base hb => XIY_init_parse I input base hb)
    (fun _ h => by cases h) input base hne
    (fun b _ hr b' hb' => by cases hb'; exact parse_baseOk I hI b hr) ht htb

/-! ### the setters -/

/-- **Every setter conforms**: on corresponding url records the Go setter and the standard's setter leave corresponding
    url records (whether or not the parser re-entry fails). -/
theorem set_conforms (I : Idna) (hI : IdnaLaws I) (s : Setter) (ui : Url) (us : Spec.SUrl) (hu : RUrl ui us) (v : Bytes)
    (ht : TabNlOk v) :
    RUrl (setU {} I s ui v).url (Spec.set (specIdna I) (mapSetter s) us (goRunes v)) := by
  refine set_conforms_of_sim_gen XIY I (fun s => stepSimG_all I hI (some (stateMap (ovOf s)))) ?_ s ui us hu v ht
  intro v s u su hg
  refine XIY_init I v none false (some (ovOf s)) (some u) (fun b hb => by cases hb) (by cases s <;> rfl) ?_ _
  intro ho
  cases s
  case pathname => exact absurd ((hg rfl).symm.trans ho) (by decide)
  all_goals first
    | exact Or.inl rfl
    | exact Or.inr ⟨rfl, rfl⟩

end WhatwgUrl.Proofs.Sim

open WhatwgUrl.Proofs.Sim in
#print axioms stepSimG_all
open WhatwgUrl.Proofs.Sim in
#print axioms parse_conforms
open WhatwgUrl.Proofs.Sim in
#print axioms parseRef_conforms
open WhatwgUrl.Proofs.Sim in
#print axioms C01_parse_conforms_obs
open WhatwgUrl.Proofs.Sim in
#print axioms set_conforms
