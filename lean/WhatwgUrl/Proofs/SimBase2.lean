import WhatwgUrl.Proofs.SimDefs
import WhatwgUrl.Proofs.Termination
import WhatwgUrl.Proofs.Utf8
import WhatwgUrl.Proofs.Percent
import WhatwgUrl.Props.C10
/-
  A copy of the parts of `SimBase.lean` that the twelve per-state proofs of `SimA2.lean` use, in a namespace of its own
  (`WhatwgUrl.Proofs.Sim.A2`).  Reason: `SimBase.lean` declares public helper names in `WhatwgUrl.Proofs.Sim` that also
  exist in `SimHost.lean` (`stops_default`, `record_default`, `asciiLower_utf8`), `SimObs.lean` (`utf8_eq_nil`,
  `utf8_bne_nil`, `utf8_isEmpty`), `SimParse.lean` (`record_default`) and `SimSetters.lean` (`utf8_inj`, `utf8_beq`,
  `lit_file`, `RUrl.opq`), so nothing that imports `SimBase.lean` can be imported next to the assembly files. This copy
  can.  The dotted lemmas (`RUrl.opq`, `RUrl.list`, `RUrl.isSp`, `RUrl.creds`, `RPort.isSome`, `REnv.base_cases`) are
  renamed with an underscore; `setPort_sim`, the lower-casing / dot-segment / digit lemmas, `Extra`, `Sim`, the result
  lemmas and the tactics are left out (`SimA2.lean` has its own versions for the corrected result relation).

  Contents
  1. the default configuration: `stops`, `record`, `herr`
  2. the cursor: `cur = Spec.cAt`, `next` by cases, `remainingStartsWith`, `remainingFromPointer`
  3. `U+FFFD` is none of the code points the machine tests for
  4. `utf8`: injectivity, emptiness, literals, first bytes
  5. scheme table, `itoa`, `cleanDefaultPort`
  6. `RUrl` / `RPath` / `RPort` lemmas (`rurl_iff`), `shorten`, drive letters, `cleanDefaultPort`, the credentials loop
  7. `needsBase`, `NoOpq`, `BaseOK`
-/
namespace WhatwgUrl.Proofs.Sim.A2
set_option linter.unusedSimpArgs false
set_option linter.unusedVariables false
open WhatwgUrl WhatwgUrl.Impl
open WhatwgUrl.Proofs.Utf8 WhatwgUrl.Proofs.Percent

/-! ### 1. the default configuration -/

theorem stops_default (f : Bool) : stops {} f = f := by simp [stops]
theorem record_default (u : Url) (t : ErrT) (f : Bool) : record {} u t f = u := by simp [record]

/-- under the default configuration a non-fatal `handleError` does nothing -/
theorem herr_nonfatal (e : Env) (hc : e.cfg = {}) (ps : PS) (t : ErrT) (k : PS → StepR) :
    herr e ps t false k = k ps := by
  unfold herr
  rw [hc, stops_default, record_default]
  simp

/-- under the default configuration a fatal `handleError` returns the error and leaves the url alone -/
theorem herr_fatal (e : Env) (hc : e.cfg = {}) (ps : PS) (t : ErrT) (k : PS → StepR) :
    herr e ps t true k = .done ⟨ps.url, .err ⟨t, true⟩ false⟩ := by
  unfold herr
  rw [hc, stops_default, record_default]
  simp

/-! ### 2. the cursor -/

theorem cur_eq_cAt (rs : Str) (p : Int) : cur rs p = Spec.cAt rs p := rfl

theorem cAt_some_bounds {input : Str} {p : Int} {c : Char} (h : Spec.cAt input p = some c) :
    0 ≤ p ∧ p < input.length := by
  unfold Spec.cAt at h
  split at h
  · have := (List.getElem?_eq_some_iff.mp h).1
    omega
  · cases h

theorem cAt_none_ge {input : Str} {p : Int} (h : Spec.cAt input p = none) (h0 : 0 ≤ p) : (input.length : Int) ≤ p := by
  unfold Spec.cAt at h
  rw [if_pos h0] at h
  have := List.getElem?_eq_none_iff.mp h
  omega

theorem cAt_eq_getElem? {input : Str} {p : Int} (h0 : 0 ≤ p) : Spec.cAt input p = input[p.toNat]? := by
  unfold Spec.cAt; rw [if_pos h0]

/-- `next` when the standard's `c` is a code point -/
theorem next_some (rs : Str) (ps : PS) (c : Char) (h : Spec.cAt rs (ps.pointer + 1) = some c) :
    next rs ps = ({ ps with pointer := ps.pointer + 1 }, c) := by
  unfold next; rw [cur_eq_cAt, h]

/-- `next` when the standard's `c` is EOF -/
theorem next_none (rs : Str) (ps : PS) (h : Spec.cAt rs (ps.pointer + 1) = none) :
    next rs ps = ({ ps with pointer := ps.pointer + 1, eof := true }, repl) := by
  unfold next; rw [cur_eq_cAt, h]

/-- the two ways one iteration starts: after `next` the Go pointer is the standard's pointer; either `c` exists, `r = c`
    and `eof = false`, or `c` is EOF, `r = U+FFFD`, `eof = true` and the pointer is at the end of the input -/
theorem next_cases (input : Str) (pi : PS) (q : Int) (hp : q = pi.pointer + 1) (h0 : 0 ≤ q) :
    (∃ c, Spec.cAt input q = some c ∧ q < input.length ∧ next input pi = ({ pi with pointer := q }, c)) ∨
    (Spec.cAt input q = none ∧ (input.length : Int) ≤ q ∧ next input pi = ({ pi with pointer := q, eof := true }, repl)) := by
  subst hp
  cases h : Spec.cAt input (pi.pointer + 1) with
  | some c => exact Or.inl ⟨c, rfl, (cAt_some_bounds h).2, next_some _ _ _ h⟩
  | none => exact Or.inr ⟨rfl, cAt_none_ge h h0, next_none _ _ h⟩

theorem isPrefixOf_singleton (x : Char) (l : Str) : [x].isPrefixOf l = (l.head? == some x) := by
  cases l with
  | nil => rfl
  | cons a t =>
    simp only [List.isPrefixOf, List.head?_cons, Bool.and_true]
    by_cases h : x = a
    · subst h; simp
    · have h' : ¬ a = x := fun e => h e.symm
      simp [h, h', beq_eq_false_iff_ne.mpr h, beq_eq_false_iff_ne.mpr h']

/-- `remainingStartsWith "/"` against the standard's "remaining starts with /" -/
theorem remainingStartsWith_slash (rs : Str) (ps : PS) (he : ps.eof = false) (x : Char) :
    remainingStartsWith rs ps [x] = ((Spec.remaining rs ps.pointer).head? == some x) := by
  unfold remainingStartsWith runesFrom Spec.remaining
  rw [he, isPrefixOf_singleton]; rfl

/-- if the remaining input starts with `x`, the extra `next` succeeds -/
theorem next_of_remaining (rs : Str) (ps : PS) (x : Char) (h0 : -1 ≤ ps.pointer)
    (h : ((Spec.remaining rs ps.pointer).head? == some x) = true) :
    next rs ps = ({ ps with pointer := ps.pointer + 1 }, x) ∧ ps.pointer + 1 < rs.length := by
  have h1 : Spec.cAt rs (ps.pointer + 1) = some x := by
    unfold Spec.remaining at h
    rw [cAt_eq_getElem? (by omega)]
    rw [List.head?_drop] at h
    simpa using h
  exact ⟨next_some _ _ _ h1, (cAt_some_bounds h1).2⟩

theorem remainingFromPointer_noeof (rs : Str) (ps : PS) (he : ps.eof = false) :
    remainingFromPointer rs ps = utf8 (rs.drop ps.pointer.toNat) := by
  unfold remainingFromPointer runesFrom; rw [he]; rfl

/-! ### 3. U+FFFD -/

theorem repl_ne : repl ≠ '/' ∧ repl ≠ '\\' ∧ repl ≠ '?' ∧ repl ≠ '#' ∧ repl ≠ ':' ∧ repl ≠ '@' ∧ repl ≠ '+' ∧ repl ≠ '-' ∧
    repl ≠ '.' ∧ repl ≠ '[' ∧ repl ≠ ']' ∧ repl ≠ '%' := by decide
theorem repl_beq_slash : (repl == '/') = false := by decide
theorem repl_beq_bslash : (repl == '\\') = false := by decide
theorem repl_beq_qm : (repl == '?') = false := by decide
theorem repl_beq_hash : (repl == '#') = false := by decide
theorem repl_beq_colon : (repl == ':') = false := by decide
theorem repl_beq_at : (repl == '@') = false := by decide
theorem repl_beq_plus : (repl == '+') = false := by decide
theorem repl_beq_minus : (repl == '-') = false := by decide
theorem repl_beq_dot : (repl == '.') = false := by decide
theorem repl_beq_lbr : (repl == '[') = false := by decide
theorem repl_beq_rbr : (repl == ']') = false := by decide
theorem repl_bne_slash : (repl != '/') = true := by decide
theorem repl_bne_bslash : (repl != '\\') = true := by decide
theorem repl_bne_hash : (repl != '#') = true := by decide
theorem repl_not_alpha : isAlphaN repl.toNat = false := by decide
theorem repl_not_alnum : isAlnumN repl.toNat = false := by decide
theorem repl_not_digit : isDigitN repl.toNat = false := by decide

/-- `isC` on an existing code point / on EOF -/
@[simp] theorem isC_some (c x : Char) : Spec.isC (some c) x = (c == x) := by
  unfold Spec.isC
  by_cases h : c = x
  · subst h; simp
  · simp [h]
@[simp] theorem isC_none (x : Char) : Spec.isC none x = false := rfl

/-! ### 4. `utf8` -/

theorem utf8_inj {a b : Str} : utf8 a = utf8 b ↔ a = b :=
  ⟨fun h => by have := congrArg goRunes h; rwa [goRunes_utf8, goRunes_utf8] at this, fun h => h ▸ rfl⟩

theorem utf8_beq (a b : Str) : (utf8 a == utf8 b) = (a == b) := by
  by_cases h : a = b
  · subst h; simp
  · have : utf8 a ≠ utf8 b := fun e => h (utf8_inj.mp e)
    rw [beq_eq_false_iff_ne.mpr h, beq_eq_false_iff_ne.mpr this]

theorem utf8_bne (a b : Str) : (utf8 a != utf8 b) = (a != b) := by simp only [bne, utf8_beq]

theorem utf8_eq_nil {s : Str} : utf8 s = [] ↔ s = [] := by
  have := @utf8_inj s []
  simpa using this

theorem utf8_isEmpty (s : Str) : (utf8 s).isEmpty = s.isEmpty := by
  cases s with
  | nil => rfl
  | cons c t =>
    have : utf8 (c :: t) ≠ [] := fun e => by have := utf8_eq_nil.mp e; cases this
    cases h : utf8 (c :: t) with
    | nil => exact absurd h this
    | cons _ _ => rfl

theorem utf8_bne_nil (s : Str) : (utf8 s != []) = !s.isEmpty := by
  have := utf8_bne s []
  rw [utf8_nil] at this
  rw [this]
  cases s <;> rfl

theorem utf8_singleton (c : Char) : utf8 [c] = utf8Char c := by simp [utf8]

theorem optmap_utf8_beq (a b : Option Str) : (a.map utf8 == b.map utf8) = (a == b) := by
  cases a <;> cases b <;> simp [utf8_beq]

theorem optmap_utf8_beq_some_nil (a : Option Str) : (a.map utf8 == some []) = (a == some []) := by
  have := optmap_utf8_beq a (some [])
  simpa using this

theorem optmap_utf8_isSome (a : Option Str) : (a.map utf8).isSome = a.isSome := by cases a <;> rfl
theorem optmap_utf8_eq_none (a : Option Str) : (a.map utf8 = none) ↔ a = none := by cases a <;> simp

/-- an ASCII literal is its own UTF-8 encoding -/
theorem lit_eq_utf8 (s : String) (h : ∀ c ∈ s.toList, c.toNat < 0x80) : lit s = utf8 s.toList := by
  rw [utf8_ascii _ h]; rfl

theorem lit_file : lit "file" = utf8 "file".toList := by decide
theorem lit_ftp : lit "ftp" = utf8 "ftp".toList := by decide
theorem lit_http : lit "http" = utf8 "http".toList := by decide
theorem lit_https : lit "https" = utf8 "https".toList := by decide
theorem lit_ws : lit "ws" = utf8 "ws".toList := by decide
theorem lit_wss : lit "wss" = utf8 "wss".toList := by decide
theorem lit_pct40 : lit "%40" = utf8 "%40".toList := by decide
theorem lit_localhost : lit "localhost" = utf8 "localhost".toList := by decide

theorem utf8_eq_lit_file {s : Str} : utf8 s = lit "file" ↔ s = "file".toList := by rw [lit_file, utf8_inj]
theorem utf8_beq_lit_file (s : Str) : (utf8 s == lit "file") = (s == "file".toList) := by rw [lit_file, utf8_beq]
theorem utf8_bne_lit_file (s : Str) : (utf8 s != lit "file") = (s != "file".toList) := by rw [lit_file, utf8_bne]

/-- the first bytes of an encoding: an ASCII code point is its own byte; otherwise at least two bytes, all ≥ 0x80 -/
theorem utf8_cons_cases (c : Char) (s : Str) :
    (c.toNat < 0x80 ∧ utf8 (c :: s) = c.toNat.toUInt8 :: utf8 s) ∨
    (0x80 ≤ c.toNat ∧ ∃ x y t, utf8 (c :: s) = x :: y :: t ∧ 0x80 ≤ x.toNat ∧ 0x80 ≤ y.toNat) := by
  by_cases h : c.toNat < 0x80
  · left; exact ⟨h, by rw [utf8_cons, utf8Char_ascii c h]; rfl⟩
  · right
    refine ⟨by omega, ?_⟩
    have hl := utf8Char_length c
    have hh := utf8Char_high c (by omega)
    rw [utf8_cons]
    match e : utf8Char c with
    | [] => rw [e] at hl; simp at hl; repeat' split at hl
            all_goals omega
    | [x] => rw [e] at hl; simp at hl; repeat' split at hl
             all_goals omega
    | x :: y :: t =>
      rw [e] at hh
      exact ⟨x, y, t ++ utf8 s, rfl, hh x (by simp), hh y (by simp)⟩

theorem toUInt8_toNat_ascii (c : Char) (h : c.toNat < 0x80) : (c.toNat.toUInt8).toNat = c.toNat := by
  simp; omega

/-- an ASCII byte equals the byte of a literal ASCII character iff the characters are equal -/
theorem ascii_byte_beq (c x : Char) (h : c.toNat < 0x80) (hx : x.toNat < 0x80) :
    (c.toNat.toUInt8 == x.toNat.toUInt8) = (c == x) := by
  by_cases e : c = x
  · subst e; simp
  · have : c.toNat ≠ x.toNat := fun h' => e (Char.toNat_inj.mp h') 
    have h2 : c.toNat.toUInt8 ≠ x.toNat.toUInt8 := by
      intro h'
      have := congrArg UInt8.toNat h'
      rw [toUInt8_toNat_ascii c h, toUInt8_toNat_ascii x hx] at this
      exact absurd this ‹_›
    rw [beq_eq_false_iff_ne.mpr e, beq_eq_false_iff_ne.mpr h2]

/-! ### 5. scheme table, `itoa`, `cleanDefaultPort` -/

/-- the default port as the Go table stores it: decimal text, `""` for none -/
def dpText : Option Nat → Bytes
  | none => []
  | some n => itoa n

theorem default_specialSchemes : ({} : Cfg).specialSchemes =
    [(utf8 "ftp".toList, dpText (some 21)), (utf8 "file".toList, dpText none), (utf8 "http".toList, dpText (some 80)),
     (utf8 "https".toList, dpText (some 443)), (utf8 "ws".toList, dpText (some 80)), (utf8 "wss".toList, dpText (some 443))] := by
  decide

theorem find?_cons_ite {α : Type} (p : α → Bool) (a : α) (l : List α) :
    (a :: l).find? p = if p a then some a else l.find? p := by
  simp only [List.find?_cons]; cases p a <;> rfl

/-- the Go map of special schemes against the standard's table -/
theorem special?_utf8 (s : Str) :
    Cfg.special? {} (utf8 s) = if Spec.isSpecialScheme s then some (dpText (Spec.defaultPort s)) else none := by
  unfold Cfg.special? Spec.isSpecialScheme Spec.defaultPort Spec.specialSchemes
  rw [default_specialSchemes]
  simp only [find?_cons_ite, utf8_beq, List.find?_nil]
  generalize ("ftp".toList == s) = b1
  generalize ("file".toList == s) = b2
  generalize ("http".toList == s) = b3
  generalize ("https".toList == s) = b4
  generalize ("ws".toList == s) = b5
  generalize ("wss".toList == s) = b6
  cases b1 <;> cases b2 <;> cases b3 <;> cases b4 <;> cases b5 <;> cases b6 <;> rfl

theorem isSpecial_utf8 (s : Str) : Cfg.isSpecial {} (utf8 s) = Spec.isSpecialScheme s := by
  unfold Cfg.isSpecial
  rw [special?_utf8]
  split <;> simp_all

theorem isSpecialScheme_file : Spec.isSpecialScheme "file".toList = true := by decide
theorem defaultPort_file : Spec.defaultPort "file".toList = none := by decide

/-- a non-special scheme has no default port -/
theorem defaultPort_of_not_special (s : Str) (h : Spec.isSpecialScheme s = false) : Spec.defaultPort s = none := by
  unfold Spec.isSpecialScheme at h
  unfold Spec.defaultPort
  cases hf : Spec.specialSchemes.find? (·.1 == s) with
  | none => rfl
  | some x => rw [hf] at h; cases h

private def dval (l : List Nat) : Nat := l.foldl (fun a d => a * 10 + d) 0

private theorem toDigitsAux_val : ∀ (fuel n : Nat) (acc : List Nat), n ≤ fuel →
    (toDigitsAux 10 fuel n acc).foldl (fun a d => a * 10 + d) 0 = acc.foldl (fun a d => a * 10 + d) n := by
  intro fuel
  induction fuel with
  | zero =>
    intro n acc h
    have : n = 0 := by omega
    subst this
    simp [toDigitsAux]
  | succ f ih =>
    intro n acc h
    unfold toDigitsAux
    split
    · simp
    · rw [ih _ _ (by omega)]
      simp only [List.foldl_cons]
      congr 1
      omega

private theorem toDigitsAux_lt10 : ∀ fuel n acc, (∀ d ∈ acc, d < 10) → ∀ d ∈ toDigitsAux 10 fuel n acc, d < 10 := by
  intro fuel
  induction fuel with
  | zero =>
    intro n acc ha d hd
    simp only [toDigitsAux, List.mem_cons] at hd
    rcases hd with rfl | hd
    · omega
    · exact ha d hd
  | succ f ih =>
    intro n acc ha d hd
    unfold toDigitsAux at hd
    split at hd
    · simp only [List.mem_cons] at hd
      rcases hd with rfl | hd
      · assumption
      · exact ha d hd
    · refine ih _ _ ?_ d hd
      intro d' hd'
      simp only [List.mem_cons] at hd'
      rcases hd' with rfl | hd'
      · omega
      · exact ha _ hd'

private theorem foldl_digits (l : List Nat) (h : ∀ d ∈ l, d < 10) (a : Nat) :
    (l.map fun d => (0x30 + d).toUInt8).foldl (fun acc x => acc * 10 + hexVal x.toNat) a = l.foldl (fun a d => a * 10 + d) a := by
  induction l generalizing a with
  | nil => rfl
  | cons d t ih =>
    simp only [List.map_cons, List.foldl_cons]
    rw [ih (fun d' hd' => h d' (by simp [hd']))]
    congr 1
    have hd := h d (by simp)
    have : ((0x30 + d).toUInt8).toNat = 0x30 + d := by simp; omega
    rw [this]
    unfold hexVal isDigitN
    simp
    omega

/-- `strconv.Atoi(strconv.Itoa(n)) = n` -/
theorem digitsVal_itoa (n : Nat) : digitsVal 10 (itoa n) = n := by
  unfold digitsVal itoa toDigits
  rw [foldl_digits _ (toDigitsAux_lt10 n n [] (by simp)), toDigitsAux_val n n [] (Nat.le_refl _)]
  rfl

theorem itoa_inj {a b : Nat} : itoa a = itoa b ↔ a = b :=
  ⟨fun h => by have := congrArg (digitsVal 10) h; rwa [digitsVal_itoa, digitsVal_itoa] at this, fun h => h ▸ rfl⟩

theorem itoa_ne_nil (n : Nat) : itoa n ≠ [] := by
  unfold itoa toDigits
  cases n with
  | zero => decide
  | succ k =>
    unfold toDigitsAux
    split
    · simp
    · intro h
      have h2 := congrArg List.length h
      simp only [List.length_map, List.length_nil] at h2
      have : ∀ fuel n acc, (toDigitsAux 10 fuel n acc).length ≥ acc.length := by
        intro fuel
        induction fuel with
        | zero => intro n acc; simp [toDigitsAux]
        | succ f ih =>
          intro n acc
          unfold toDigitsAux
          split
          · simp
          · have := ih (n / 10) (n % 10 :: acc); simp at this; omega
      have := this k ((k + 1) / 10) [(k + 1) % 10]
      simp at this
      omega

theorem itoa_beq (a b : Nat) : (itoa a == itoa b) = (a == b) := by
  by_cases h : a = b
  · subst h; simp
  · have : itoa a ≠ itoa b := fun e => h (itoa_inj.mp e)
    rw [beq_eq_false_iff_ne.mpr h, beq_eq_false_iff_ne.mpr this]

/-! ### 6. urls, paths, ports -/

theorem byte_beq_of_high (x k : UInt8) (hx : 0x80 ≤ x.toNat) (hk : k.toNat < 0x80) : (x == k) = false := by
  apply beq_eq_false_iff_ne.mpr
  intro h; subst h; omega

theorem char_beq_of_high (c k : Char) (hc : 0x80 ≤ c.toNat) (hk : k.toNat < 0x80) : (c == k) = false := by
  apply beq_eq_false_iff_ne.mpr
  intro h; subst h; omega

theorem isAlphaN_high (n : Nat) (h : 0x80 ≤ n) : isAlphaN n = false := by
  simp [isAlphaN, isUpperN, isLowerN]; omega

theorem utf8_cons_ne_nil (c : Char) (s : Str) : utf8 (c :: s) ≠ [] := fun e => by
  have := utf8_eq_nil.mp e; cases this

/-- drive-letter tests on the bytes of `utf8 s` against the standard's tests on `s` -/
theorem isWDL_utf8 (s : Str) : Impl.isWindowsDriveLetter (utf8 s) = Spec.isWindowsDriveLetter s := by
  match s with
  | [] => rfl
  | [a] =>
    rcases utf8_cons_cases a [] with ⟨ha, e⟩ | ⟨ha, x, y, t, e, hx, hy⟩
    · rw [e]; rfl
    · rw [e]
      unfold Impl.isWindowsDriveLetter Spec.isWindowsDriveLetter
      cases t <;> simp [isAlphaN_high _ hx]
  | [a, b] =>
    rcases utf8_cons_cases a [b] with ⟨ha, e⟩ | ⟨ha, x, y, t, e, hx, hy⟩
    · rw [e]
      rcases utf8_cons_cases b [] with ⟨hb, e2⟩ | ⟨hb, x, y, t, e2, hx, hy⟩
      · rw [e2]
        simp only [utf8_nil, Impl.isWindowsDriveLetter, Spec.isWindowsDriveLetter, toUInt8_toNat_ascii a ha]
        have h1 := ascii_byte_beq b ':' hb (by decide)
        have h2 := ascii_byte_beq b '|' hb (by decide)
        have e1 : (':' : Char).toNat.toUInt8 = 0x3a := by decide
        have e3 : ('|' : Char).toNat.toUInt8 = 0x7c := by decide
        rw [e1] at h1; rw [e3] at h2
        rw [h1, h2]
      · rw [e2]
        simp only [Impl.isWindowsDriveLetter, Spec.isWindowsDriveLetter,
          char_beq_of_high b ':' hb (by decide), char_beq_of_high b '|' hb (by decide)]
        simp
    · rw [e]
      unfold Impl.isWindowsDriveLetter Spec.isWindowsDriveLetter
      cases t <;> simp [isAlphaN_high _ hx, isAlphaN_high _ ha]
  | a :: b :: c :: t =>
    have h3 : (utf8 (a :: b :: c :: t)).length ≥ 3 := by
      have := (utf8_length_bounds (a :: b :: c :: t)).1
      simp only [List.length_cons] at this; omega
    match e : utf8 (a :: b :: c :: t) with
    | [] => rw [e] at h3; simp at h3
    | [_] => rw [e] at h3; simp at h3
    | [_, _] => rw [e] at h3; simp at h3
    | _ :: _ :: _ :: _ => rfl

theorem isNDL_utf8 (s : Str) : Impl.isNormalizedWindowsDriveLetter (utf8 s) = Spec.isNormalizedWindowsDriveLetter s := by
  have h := isWDL_utf8 s
  match s with
  | [] => rfl
  | [a] =>
    rcases utf8_cons_cases a [] with ⟨ha, e⟩ | ⟨ha, x, y, t, e, hx, hy⟩
    · rw [e]; rfl
    · rw [e]
      unfold Impl.isNormalizedWindowsDriveLetter Spec.isNormalizedWindowsDriveLetter
      cases t <;> simp [isAlphaN_high _ hx]
  | [a, b] =>
    rcases utf8_cons_cases a [b] with ⟨ha, e⟩ | ⟨ha, x, y, t, e, hx, hy⟩
    · rw [e]
      rcases utf8_cons_cases b [] with ⟨hb, e2⟩ | ⟨hb, x, y, t, e2, hx, hy⟩
      · rw [e2]
        simp only [utf8_nil, Impl.isNormalizedWindowsDriveLetter, Spec.isNormalizedWindowsDriveLetter, toUInt8_toNat_ascii a ha]
        have h1 := ascii_byte_beq b ':' hb (by decide)
        have e1 : (':' : Char).toNat.toUInt8 = 0x3a := by decide
        rw [e1] at h1
        rw [h1]
      · rw [e2]
        simp only [Impl.isNormalizedWindowsDriveLetter, Spec.isNormalizedWindowsDriveLetter,
          char_beq_of_high b ':' hb (by decide)]
        simp
    · rw [e]
      unfold Impl.isNormalizedWindowsDriveLetter Spec.isNormalizedWindowsDriveLetter
      cases t <;> simp [isAlphaN_high _ hx, isAlphaN_high _ ha]
  | a :: b :: c :: t =>
    -- three or more code points: at least three bytes
    have h3 : (utf8 (a :: b :: c :: t)).length ≥ 3 := by
      have := (utf8_length_bounds (a :: b :: c :: t)).1
      simp only [List.length_cons] at this; omega
    match e : utf8 (a :: b :: c :: t) with
    | [] => rw [e] at h3; simp at h3
    | [_] => rw [e] at h3; simp at h3
    | [_, _] => rw [e] at h3; simp at h3
    | _ :: _ :: _ :: _ => rfl

theorem startsWithWDL_utf8 (s : Str) :
    Impl.startsWithAWindowsDriveLetter (utf8 s) = Spec.startsWithWindowsDriveLetter s := by
  match s with
  | [] => rfl
  | [a] =>
    rcases utf8_cons_cases a [] with ⟨ha, e⟩ | ⟨ha, x, y, t, e, hx, hy⟩
    · rw [e]; rfl
    · rw [e]
      simp [Impl.startsWithAWindowsDriveLetter, Spec.startsWithWindowsDriveLetter, Impl.isWindowsDriveLetter,
        isAlphaN_high _ hx]
  | a :: b :: rest =>
    rcases utf8_cons_cases a (b :: rest) with ⟨ha, e⟩ | ⟨ha, x, y, t, e, hx, hy⟩
    · rw [e]
      rcases utf8_cons_cases b rest with ⟨hb, e2⟩ | ⟨hb, x, y, t, e2, hx, hy⟩
      · rw [e2]
        have hw := isWDL_utf8 [a, b]
        have e3 : utf8 [a, b] = [a.toNat.toUInt8, b.toNat.toUInt8] := by
          rw [utf8_cons, utf8_singleton, utf8Char_ascii a ha, utf8Char_ascii b hb]; rfl
        rw [e3] at hw
        unfold Impl.startsWithAWindowsDriveLetter Spec.startsWithWindowsDriveLetter
        simp only [hw]
        congr 1
        match rest with
        | [] => rfl
        | c :: r =>
          rcases utf8_cons_cases c r with ⟨hc, e4⟩ | ⟨hc, x, y, t, e4, hx, hy⟩
          · rw [e4]
            have h1 := ascii_byte_beq c '/' hc (by decide)
            have h2 := ascii_byte_beq c '\\' hc (by decide)
            have h3 := ascii_byte_beq c '?' hc (by decide)
            have h4 := ascii_byte_beq c '#' hc (by decide)
            have e1 : ('/' : Char).toNat.toUInt8 = 0x2f := by decide
            have e2 : ('\\' : Char).toNat.toUInt8 = 0x5c := by decide
            have e3 : ('?' : Char).toNat.toUInt8 = 0x3f := by decide
            have e4 : ('#' : Char).toNat.toUInt8 = 0x23 := by decide
            rw [e1] at h1; rw [e2] at h2; rw [e3] at h3; rw [e4] at h4
            simp only [h1, h2, h3, h4]
          · rw [e4]
            simp only [byte_beq_of_high x 0x2f hx (by decide), byte_beq_of_high x 0x5c hx (by decide),
              byte_beq_of_high x 0x3f hx (by decide), byte_beq_of_high x 0x23 hx (by decide),
              char_beq_of_high c '/' hc (by decide), char_beq_of_high c '\\' hc (by decide),
              char_beq_of_high c '?' hc (by decide), char_beq_of_high c '#' hc (by decide)]
      · rw [e2]
        simp [Impl.startsWithAWindowsDriveLetter, Spec.startsWithWindowsDriveLetter, Impl.isWindowsDriveLetter,
          Spec.isWindowsDriveLetter, byte_beq_of_high x 0x3a hx (by decide), byte_beq_of_high x 0x7c hx (by decide),
          char_beq_of_high b ':' hb (by decide), char_beq_of_high b '|' hb (by decide)]
    · rw [e]
      simp [Impl.startsWithAWindowsDriveLetter, Spec.startsWithWindowsDriveLetter, Impl.isWindowsDriveLetter,
        Spec.isWindowsDriveLetter, isAlphaN_high _ hx, isAlphaN_high _ ha]

/-- `RUrl` as a conjunction (for `simp`) -/
theorem rurl_iff (ui : Url) (us : Spec.SUrl) : RUrl ui us ↔
    ui.scheme = utf8 us.scheme ∧ ui.username = utf8 us.username ∧ ui.password = utf8 us.password ∧
    ui.host = us.host.map utf8 ∧ RPort ui.port ui.decodedPort us.port ∧ RPath ui.path us.path ∧
    ui.query = us.query.map utf8 ∧ ui.fragment = us.fragment.map utf8 :=
  ⟨fun ⟨a, b, c, d, e, f, g, h⟩ => ⟨a, b, c, d, e, f, g, h⟩, fun ⟨a, b, c, d, e, f, g, h⟩ => ⟨a, b, c, d, e, f, g, h⟩⟩

/-- the two possibilities for the base -/
theorem REnv_base_cases {e : Env} {input : Str} {base : Option Spec.SUrl} {ov : Option Spec.St} {I : Idna}
    (hE : REnv e input base ov I) :
    (e.base = none ∧ base = none) ∨ ∃ bi bs, e.base = some bi ∧ base = some bs ∧ RUrl bi bs := by
  have := hE.base
  cases h1 : e.base <;> cases h2 : base <;> rw [h1, h2] at this
  · exact Or.inl ⟨rfl, rfl⟩
  · exact absurd this id
  · exact absurd this id
  · exact Or.inr ⟨_, _, rfl, rfl, this⟩

theorem ite_or_merge {α : Type} (c1 c2 : Bool) (a b : α) :
    (if c1 = true then a else if c2 = true then a else b) = if (c1 || c2) = true then a else b := by
  cases c1 <;> cases c2 <;> rfl

theorem special_ne (A B : Bool) : ((A && !B) || (!A && B)) = (A != B) := by cases A <;> cases B <;> rfl

theorem RUrl_opq {ui : Url} {us : Spec.SUrl} (h : RUrl ui us) : ui.path.opq = us.hasOpaquePath := by
  have hp := h.path
  unfold Spec.SUrl.hasOpaquePath
  match e : us.path with
  | .opaque s => rw [e] at hp; exact hp.1
  | .list l => rw [e] at hp; exact hp.1

theorem RUrl_list {ui : Url} {us : Spec.SUrl} (h : RUrl ui us) (hn : us.hasOpaquePath = false) :
    ∃ l, us.path = .list l ∧ ui.path = ⟨l.map utf8, false⟩ := by
  have hp := h.path
  unfold Spec.SUrl.hasOpaquePath at hn
  match e : us.path with
  | .opaque s => rw [e] at hn; cases hn
  | .list l =>
    rw [e] at hp
    refine ⟨l, rfl, ?_⟩
    obtain ⟨h1, h2⟩ := hp
    cases hpp : ui.path with
    | mk segs opq => rw [hpp] at h1 h2; simp only at h1 h2; rw [h1, h2]

theorem RUrl_isSp {ui : Url} {us : Spec.SUrl} (h : RUrl ui us) : Cfg.isSpecial {} ui.scheme = us.isSpecial := by
  rw [h.scheme, isSpecial_utf8]; rfl

theorem RPort_isSome {p : Option Bytes} {d : Nat} {sp : Option Nat} (h : RPort p d sp) : p.isSome = sp.isSome := by
  cases sp with
  | none => simp only [RPort] at h; rw [h]; rfl
  | some n => simp only [RPort] at h; rw [h.1]; rfl

theorem RUrl_creds {ui : Url} {us : Spec.SUrl} (h : RUrl ui us) :
    (ui.username != [] || ui.password != []) = us.includesCredentials := by
  rw [h.username, h.password, utf8_bne_nil, utf8_bne_nil]; rfl

theorem headD_map_utf8 (l : List Str) : (l.map utf8).headD [] = utf8 (l.headD []) := by
  cases l <;> rfl

/-- `url.path.shorten(url.scheme)` against "shorten url's path", for a list path -/
theorem shorten_sim {ui : Url} {us : Spec.SUrl} (h : RUrl ui us) (hn : us.hasOpaquePath = false) :
    RUrl { ui with path := ui.path.shorten ui.scheme } (Spec.shorten us) := by
  obtain ⟨l, e1, e2⟩ := RUrl_list h hn
  obtain ⟨h1, h2, h3, h4, h5, h6, h7, h8⟩ := h
  unfold Spec.shorten Path.shorten
  rw [e1, e2, h1]
  simp only [utf8_beq_lit_file, List.length_map, headD_map_utf8, isNDL_utf8]
  split
  · constructor <;> (try dsimp only) <;> first | assumption | skip
    rw [e1]; exact ⟨rfl, rfl⟩
  · cases l with
    | nil =>
      simp only [List.map_nil, List.isEmpty_nil, if_true, List.dropLast_nil]
      constructor <;> (try dsimp only) <;> first | assumption | skip
      exact ⟨rfl, rfl⟩
    | cons a t =>
      simp only [List.map_cons, List.isEmpty_cons, Bool.false_eq_true, if_false]
      constructor <;> (try dsimp only) <;> first | assumption | skip
      refine ⟨rfl, ?_⟩
      dsimp only
      rw [← List.map_cons, List.map_dropLast]

theorem shorten_nopq (us : Spec.SUrl) (hn : us.hasOpaquePath = false) : (Spec.shorten us).hasOpaquePath = false := by
  unfold Spec.SUrl.hasOpaquePath at hn
  unfold Spec.shorten
  match e : us.path with
  | .opaque s => rw [e] at hn; cases hn
  | .list l =>
    simp only
    split
    · unfold Spec.SUrl.hasOpaquePath; rw [e]
    · rfl

/-- `cleanDefaultPort` against "if url's port is url's scheme's default port, set it to null" -/
theorem cleanDefaultPort_sim {ui : Url} {us : Spec.SUrl} (h : RUrl ui us) :
    RUrl (cleanDefaultPort {} ui) (if us.port == Spec.defaultPort us.scheme then { us with port := none } else us) := by
  obtain ⟨h1, h2, h3, h4, h5, h6, h7, h8⟩ := h
  unfold cleanDefaultPort
  rw [h1, special?_utf8]
  cases hsp : Spec.isSpecialScheme us.scheme with
  | false =>
    simp only [Bool.false_eq_true, if_false]
    rw [defaultPort_of_not_special _ hsp]
    split
    · rename_i hp
      have hp' : us.port = none := by simpa using hp
      constructor <;> (try dsimp only) <;> first | assumption | skip
      rw [hp'] at h5; exact h5
    · constructor <;> assumption
  | true =>
    simp only [if_true]
    cases hp : us.port with
    | none =>
      rw [hp] at h5
      simp only [RPort] at h5
      have : (ui.port == none || ui.port == some (dpText (Spec.defaultPort us.scheme))) = true := by rw [h5]; rfl
      rw [if_pos this]
      split
      · constructor <;> (try dsimp only) <;> first | assumption | skip
        simp [RPort]
      · constructor <;> (try dsimp only) <;> first | assumption | skip
        rw [hp]; simp [RPort]
    | some n =>
      rw [hp] at h5
      simp only [RPort] at h5
      obtain ⟨h5a, h5b⟩ := h5
      cases hd : Spec.defaultPort us.scheme with
      | none =>
        have : (ui.port == none || ui.port == some (dpText none)) = false := by
          rw [h5a]
          simp [dpText, itoa_ne_nil]
        rw [this]
        simp only [Bool.false_eq_true, if_false]
        rw [if_neg (by simp)]
        constructor <;> (try dsimp only) <;> first | assumption | skip
        rw [hp]; exact ⟨h5a, h5b⟩
      | some m =>
        have : (ui.port == none || ui.port == some (dpText (some m))) = (n == m) := by
          rw [h5a]
          simp [dpText, itoa_beq]
        rw [this]
        have e2 : (some n == some m) = (n == m) := by simp
        rw [e2]
        split
        · constructor <;> (try dsimp only) <;> first | assumption | skip
          simp [RPort]
        · constructor <;> (try dsimp only) <;> first | assumption | skip
          rw [hp]; exact ⟨h5a, h5b⟩

/-! ### the credentials loop -/

theorem userinfo_has : userinfoSet.has = Spec.userinfoSet := by
  funext c; exact WhatwgUrl.Props.C10.C10_tables.2.2.2.2.2 c

/-- `percentEncodeRune` under the default configuration -/
theorem percentEncodeRune_sim (tr : PSet) (c : Char) :
    percentEncodeRune {} tr c = utf8 (Spec.utf8PercentEncodeCp tr.has c) := by
  rw [utf8_encodeCp]; exact percentEncodeRune_default tr c

theorem credLoop_sim (s : Str) : ∀ (pw : Bool) (u p : Str),
    Impl.credLoop {} s pw (utf8 u) (utf8 p) =
      ((Spec.credLoop s pw u p).1, utf8 (Spec.credLoop s pw u p).2.1, utf8 (Spec.credLoop s pw u p).2.2) := by
  induction s with
  | nil => intro pw u p; rfl
  | cons c t ih =>
    intro pw u p
    unfold Impl.credLoop Spec.credLoop
    rw [percentEncodeRune_sim, userinfo_has]
    split
    · exact ih _ _ _
    · split
      · rw [← utf8_append]; exact ih _ _ _
      · rw [← utf8_append]; exact ih _ _ _

/-- the credentials loop on the Go buffer (with the `%40` of an earlier `@`) against the standard's -/
theorem credLoop_buf_sim (af : Bool) (sbuf : Str) (pw : Bool) (u p : Str) :
    Impl.credLoop {} (goRunes (if af = true then lit "%40" ++ utf8 sbuf else utf8 sbuf)) pw (utf8 u) (utf8 p) =
      ((Spec.credLoop (if af = true then "%40".toList ++ sbuf else sbuf) pw u p).1,
       utf8 (Spec.credLoop (if af = true then "%40".toList ++ sbuf else sbuf) pw u p).2.1,
       utf8 (Spec.credLoop (if af = true then "%40".toList ++ sbuf else sbuf) pw u p).2.2) := by
  cases af
  · simp only [Bool.false_eq_true, if_false, goRunes_utf8]; exact credLoop_sim _ _ _ _
  · simp only [if_true, lit_pct40, ← utf8_append, goRunes_utf8]; exact credLoop_sim _ _ _ _

theorem remainingFromPointer_eof (rs : Str) (ps : PS) (he : ps.eof = true) : remainingFromPointer rs ps = utf8 [] := by
  unfold remainingFromPointer; rw [he]; rfl

theorem drop_of_ge (input : Str) (p : Int) (h : (input.length : Int) ≤ p) : input.drop p.toNat = [] :=
  List.drop_eq_nil_of_le (by omega)

/-! ### 7. clauses of the local invariant -/

/-- states reached only with a base whose path is a list -/
def needsBase : State → Bool
  | .specialRelativeOrAuthority | .relative | .relativeSlash => true
  | _ => false

/-- the url's path is a list, except in the states after an opaque path was set (and under the protocol, host, hostname
    and port setters, which return before a segment is added) -/
def NoOpq (ov : Option Spec.St) (st : State) (ss : Spec.PS) : Prop :=
  match st with
  | .opaquePath | .query | .fragment => True
  | .schemeStart | .scheme | .host | .hostname | .port | .fileHost => ov.isNone → ss.url.hasOpaquePath = false
  | _ => ss.url.hasOpaquePath = false

/-- a special base url has a list path (on the standard's side; derived from `EnvOk` in `SimA2.lean`) -/
def BaseOK (base : Option Spec.SUrl) : Prop :=
  ∀ b, base = some b → Spec.isSpecialScheme b.scheme = true → b.hasOpaquePath = false

end WhatwgUrl.Proofs.Sim.A2
