import WhatwgUrl.Proofs.SpellingShift
import WhatwgUrl.Proofs.RoundTrip
/-
  Spelling (C18c), part 2: running one machine (fuel-free), and the prologue of `basicParser`.

  * `Reach e ps ps'`  : the loop started in `ps` gets to `ps'` after finitely many continuing iterations;
  * `reach_bulk`      : a self-looping state that copies (a function of) the bytes satisfying `P`;
  * `basicParser_congr` : two inputs whose prologue flags agree give the same result as soon as the loops agree;
  * `trim_clean`, `removeTabNl_clean` : the prologue on `A ++ rest` for a clean (no byte ≤ 0x20 at either end, no tab/newline) `A`;
  * `goRunes_clean`   : decoding `A ++ rest` for an ASCII `A`.
-/
namespace WhatwgUrl.Proofs.Spelling
set_option linter.unusedSimpArgs false
set_option linter.unusedVariables false
open WhatwgUrl WhatwgUrl.Impl WhatwgUrl.Proofs.IPv4 WhatwgUrl.Proofs.Trim
open WhatwgUrl.Proofs.RoundTrip (next_some next_none drop_succ_of_cons)

/-! ### reaching a state -/

/-- the loop started in `ps` gets to `ps'` after finitely many continuing iterations -/
def Reach (e : Env) (ps ps' : PS) : Prop := ∃ n : Nat, ∀ m, loop e (n + m) ps = loop e m ps'

theorem Reach.refl (e : Env) (ps : PS) : Reach e ps ps := ⟨0, fun m => by simp⟩

theorem Reach.cons {e : Env} {ps ps' ps'' : PS} (h : step e ps = .cont ps') (H : Reach e ps' ps'') : Reach e ps ps'' := by
  obtain ⟨n, hn⟩ := H
  refine ⟨n + 1, fun m => ?_⟩
  rw [show n + 1 + m = (n + m) + 1 by omega]
  simp only [loop, h]
  exact hn m

theorem Reach.trans {e : Env} {ps ps' ps'' : PS} (H1 : Reach e ps ps') (H2 : Reach e ps' ps'') : Reach e ps ps'' := by
  obtain ⟨n, hn⟩ := H1
  obtain ⟨k, hk⟩ := H2
  refine ⟨n + k, fun m => ?_⟩
  rw [show n + k + m = n + (k + m) by omega, hn, hk]

theorem Reach.one {e : Env} {ps ps' : PS} (h : step e ps = .cont ps') : Reach e ps ps' := Reach.cons h (Reach.refl _ _)

theorem LoopEq.reach_l {e₁ e₂ : Env} {ps₁ ps₁' ps₂ : PS} (R : Reach e₁ ps₁ ps₁') (H : LoopEq e₁ ps₁' e₂ ps₂) :
    LoopEq e₁ ps₁ e₂ ps₂ := by
  obtain ⟨n, hn⟩ := R
  obtain ⟨n₁, n₂, h⟩ := H
  refine ⟨n + n₁, n₂, fun m => ?_⟩
  rw [show n + n₁ + m = n + (n₁ + m) by omega, hn, h]

theorem LoopEq.reach_r {e₁ e₂ : Env} {ps₁ ps₂ ps₂' : PS} (R : Reach e₂ ps₂ ps₂') (H : LoopEq e₁ ps₁ e₂ ps₂') :
    LoopEq e₁ ps₁ e₂ ps₂ := (LoopEq.reach_l R H.symm).symm

/-- generic self-loop: a state that appends `f b` to the buffer for the bytes satisfying `P` -/
theorem reach_bulk (e : Env) (P : UInt8 → Prop) (f : UInt8 → UInt8) (J : PS → Prop)
    (hJ : ∀ ps p b, J ps → J { ps with pointer := p, buffer := b })
    (hstep : ∀ (ps : PS) (k : Nat) (b : UInt8) (tl : Str), J ps → ps.pointer + 1 = (k : Int) → e.runes.drop k = bc b :: tl → P b →
      step e ps = .cont { ps with pointer := (k : Int), buffer := ps.buffer ++ [f b] }) :
    ∀ (w : Bytes), (∀ b ∈ w, P b) → ∀ (ps : PS) (k : Nat) (tl : Str), J ps → ps.pointer + 1 = (k : Int) →
      e.runes.drop k = asStr w ++ tl →
      Reach e ps { ps with pointer := ps.pointer + (w.length : Int), buffer := ps.buffer ++ w.map f } := by
  intro w
  induction w with
  | nil =>
    intro _ ps k tl _ _ _
    simpa using Reach.refl e ps
  | cons b w ih =>
    intro hw ps k tl hi hk hd
    have hs := hstep ps k b (asStr w ++ tl) hi hk hd (hw b (by simp))
    have := ih (fun x hx => hw x (by simp [hx])) { ps with pointer := (k : Int), buffer := ps.buffer ++ [f b] } (k + 1) tl
      (hJ _ _ _ hi) (by simp) (drop_succ_of_cons hd)
    refine Reach.cons hs ?_
    have e1 : ((k : Int) + (w.length : Int)) = ps.pointer + ((w.length + 1 : Nat) : Int) := by omega
    simpa [e1, List.append_assoc] using this

/-! ### the prologue -/

/-- the text the state machine gets to see -/
def text (x : Bytes) : Bytes := (removeTabNl (trim c0OrSpaceSet x).1).1

/-- the environment of a `basicParser` call on the (already trimmed and filtered) text `src` -/
def envOf (cfg : Cfg) (I : Idna) (base : Option Url) (ov : Option State) (src : Bytes) : Env :=
  ⟨cfg, I, src, goRunes src, base, ov⟩

/-- the initial state -/
def ps0 (st : State) (u : Url) : PS := ⟨st, -1, false, [], false, false, false, u⟩

theorem record_fresh (cfg : Cfg) (vs : List VErr) (t : ErrT) (f : Bool) :
    ∃ vs', record cfg ({ verrs := vs } : Url) t f = { verrs := vs' } := by
  unfold record
  split
  · exact ⟨_, rfl⟩
  · exact ⟨_, rfl⟩

/-- two inputs with the same prologue flags: it is enough to compare the loops, from a fresh record carrying any
    list of validation errors -/
theorem basicParser_congr (cfg : Cfg) (I : Idna) (x y : Bytes) (base : Option Url) (ov : Option State)
    (ht : (trim c0OrSpaceSet x).2 = (trim c0OrSpaceSet y).2)
    (hr : (removeTabNl (trim c0OrSpaceSet x).1).2 = (removeTabNl (trim c0OrSpaceSet y).1).2)
    (hloop : ∀ vs : List VErr,
      loop (envOf cfg I base ov (text x)) (fuelFor (goRunes (text x))) (ps0 (ov.getD .schemeStart) { verrs := vs }) =
      loop (envOf cfg I base ov (text y)) (fuelFor (goRunes (text y))) (ps0 (ov.getD .schemeStart) { verrs := vs })) :
    basicParser cfg I x base none ov = basicParser cfg I y base none ov := by
  unfold basicParser
  simp only [Option.isNone_none, Bool.true_and, if_true, Option.getD_none, ht, hr]
  split
  · rfl
  · split
    · rfl
    · obtain ⟨vs1, h1⟩ : ∃ vs1, (if (trim c0OrSpaceSet y).2 = true then record cfg ({} : Url) .InvalidURLUnit false else {}) = { verrs := vs1 } := by
        split
        · exact record_fresh cfg [] _ _
        · exact ⟨[], rfl⟩
      rw [h1]
      obtain ⟨vs2, h2⟩ : ∃ vs2, (if (removeTabNl (trim c0OrSpaceSet y).1).2 = true then record cfg ({ verrs := vs1 } : Url) .InvalidURLUnit false else { verrs := vs1 }) = { verrs := vs2 } := by
        split
        · exact record_fresh cfg vs1 _ _
        · exact ⟨vs1, rfl⟩
      rw [h2]
      exact hloop vs2

/-! ### the prologue on `A ++ rest` for a clean `A` -/

/-- no byte ≤ 0x20 (so no tab / newline either) -/
def NoWs (A : Bytes) : Prop := ∀ b ∈ A, isWs b = false

theorem dropWsR_clean (A rest : Bytes) (hA : A ≠ []) (hl : ∀ a, A.getLast? = some a → isWs a = false) :
    dropWsR (A ++ rest) = A ++ dropWsR rest := by
  unfold dropWsR
  rw [List.reverse_append, List.dropWhile_append]
  have hAr : A.reverse.dropWhile isWs = A.reverse := by
    cases h : A.reverse with
    | nil => rfl
    | cons x r =>
      have : A.getLast? = some x := by rw [← List.head?_reverse, h]; rfl
      simp [List.dropWhile_cons, hl x this]
  split
  · rename_i he
    have : List.dropWhile isWs rest.reverse = [] := by simpa using he
    rw [hAr, this]; simp
  · simp

theorem trim_clean (A rest : Bytes) (hA : A ≠ []) (hh : ∀ a, A.head? = some a → isWs a = false)
    (hl : ∀ a, A.getLast? = some a → isWs a = false) :
    trim c0OrSpaceSet (A ++ rest) = (A ++ dropWsR rest, decide ((dropWsR rest).length < rest.length)) := by
  have hne : (A ++ rest).isEmpty = false := by cases A with | nil => exact absurd rfl hA | cons _ _ => rfl
  have hp : (fun x : UInt8 => c0OrSpaceSet.inSet x.toNat) = isWs := by
    funext x; simp [inSet_c0, isWs]
  have h1 : trimPrefix c0OrSpaceSet (A ++ rest) = (A ++ rest, false) := by
    cases A with
    | nil => exact absurd rfl hA
    | cons a A' =>
      have ha : 0x21 ≤ a.toNat := by
        have := hh a rfl
        simp [isWs] at this; omega
      have hd := decode1_notws a (A' ++ rest) ha
      unfold trimPrefix
      simp only [List.cons_append, List.isEmpty_cons, Bool.false_eq_true, if_false]
      have : goDecode (a :: (A' ++ rest)) = decode1 a (A' ++ rest) :: goDecode ((A' ++ rest).drop ((decode1 a (A' ++ rest)).2 - 1)) :=
        Utf8.goDecode_cons a (A' ++ rest)
      rw [this]
      have hin : c0OrSpaceSet.inSet (decode1 a (A' ++ rest)).1.toNat = false := by
        rw [inSet_c0]; simp; omega
      simp [trimPrefixAux, hin]
  have hk : dropWsR (A ++ rest) = A ++ dropWsR rest := dropWsR_clean A rest hA hl
  have h2 : trimPostfix c0OrSpaceSet (A ++ rest) = (A ++ dropWsR rest, decide ((dropWsR rest).length < rest.length)) := by
    unfold trimPostfix
    simp only [hne, Bool.false_eq_true, if_false, hp]
    have : (List.dropWhile isWs (A ++ rest).reverse).reverse = A ++ dropWsR rest := hk
    rw [this]
    have hne2 : (A ++ dropWsR rest).isEmpty = false := by cases A with | nil => exact absurd rfl hA | cons _ _ => rfl
    simp only [hne2, Bool.false_eq_true, if_false, List.length_append]
    congr 1
    simp
  unfold trim
  rw [h1]
  simp only [h2, Bool.false_or]

theorem removeTabNl_clean (A rest : Bytes) (hA : NoWs A) :
    removeTabNl (A ++ rest) = (A ++ (removeTabNl rest).1, (removeTabNl rest).2) := by
  have hf : A.filter (fun x => !isTabNl x) = A := by
    apply List.filter_eq_self.mpr
    intro b hb
    have := notTabNl_of_not_ws b (hA b hb)
    simpa [notTabNl] using this
  have ha : A.any isTabNl = false := by
    rw [List.any_eq_false]
    intro b hb
    have := notTabNl_of_not_ws b (hA b hb)
    simpa [notTabNl] using this
  unfold removeTabNl
  simp only [List.filter_append, hf, List.any_append, ha, Bool.false_or]

/-- what is left of `rest` after the prologue -/
def restText (rest : Bytes) : Bytes := (removeTabNl (dropWsR rest)).1

theorem text_clean (A rest : Bytes) (hA : A ≠ []) (hn : NoWs A) : text (A ++ rest) = A ++ restText rest := by
  unfold text restText
  rw [trim_clean A rest hA (fun a h => hn a (List.mem_of_mem_head? h)) (fun a h => hn a (List.mem_of_getLast? h))]
  simp only [removeTabNl_clean A _ hn]

theorem flags_clean (A A' rest : Bytes) (hA : A ≠ []) (hn : NoWs A) (hA' : A' ≠ []) (hn' : NoWs A') :
    (trim c0OrSpaceSet (A ++ rest)).2 = (trim c0OrSpaceSet (A' ++ rest)).2 ∧
    (removeTabNl (trim c0OrSpaceSet (A ++ rest)).1).2 = (removeTabNl (trim c0OrSpaceSet (A' ++ rest)).1).2 := by
  rw [trim_clean A rest hA (fun a h => hn a (List.mem_of_mem_head? h)) (fun a h => hn a (List.mem_of_getLast? h)),
    trim_clean A' rest hA' (fun a h => hn' a (List.mem_of_mem_head? h)) (fun a h => hn' a (List.mem_of_getLast? h))]
  simp only [removeTabNl_clean A _ hn, removeTabNl_clean A' _ hn', and_self]

/-- decoding `A ++ rest` for an ASCII `A` -/
theorem goRunes_clean (A rest : Bytes) (hA : Ascii A) : goRunes (A ++ rest) = asStr A ++ goRunes rest := by
  have := Utf8.goRunes_utf8_append (asStr A) rest
  rwa [utf8_asStr A hA] at this

end WhatwgUrl.Proofs.Spelling
