import WhatwgUrl.Proofs.ReportingBase
import WhatwgUrl.Proofs.ReportingN
import WhatwgUrl.Proofs.ReportingU
import WhatwgUrl.Proofs.ReportingF
import WhatwgUrl.Proofs.ReportingX
/-
  Helper lemmas for C15 (validation-error reporting / fail mode), in four files:

  * `ReportingBase` — `erase`, `CfgRel` (configurations equal up to `report`/`failOnVErr`) with its congruence lemmas,
                      closed forms of `next`, `parseIPv4` and `stPath` with their inner continuations named;
  * `ReportingN`    — reporting is neutral: every function of the model commutes with `erase`
                      (`basicParser_N`), and the recorded errors of the base are never read (`basicParser_base`);
  * `ReportingU`    — one run: an invariant of the recorded list that survives appending non-fatal entries survives
                      every run that does not return an error; with `failOnVErr = false` every returned error is fatal
                      (`basicParser_U`);
  * `ReportingF`    — fail mode is sound: a run under `failOnVErr = true` returns an error or coincides with the run
                      under the other value of the switch (`basicParser_F`).

  * `ReportingX`    — fail mode is exact: as `ReportingF` with reporting on, plus "once the fail-mode run has returned an
                      error, the recorded list of the other run is non-empty for ever" (`basicParser_X`).

  Technique (as in `Termination.lean`, but relational): one lemma per function of the model, proved by a small
  tactic that walks both unfolded bodies in lock-step (`hom_ite`/`R_ite` for `if`, `herr_N`/`RelF_herr`/`Good_herr` for
  the validation-error choke point, `afterHost_*` for the host parser call, `rfl` at the leaves).
-/
