import WhatwgUrl.Proofs.SimBaseB
/-
  One-iteration simulation lemmas (SIM.md) for the states host, hostname, port, file host, path start, path, opaque path,
  query, fragment of the Go machine.

  Per state `S` there is `step_simX_S : … RPS pi ss → Extra input pi ss → pi.state = .S → RStepX o input (step e pi) (afterRun …)`
  where `RStepX` (SimBaseB.lean) is `RStep` plus the preservation of `Extra` (the invariants `RPS` lacks: the pointer is within
  `0 … |input|`; the path is a list in the states host … path; the port buffer is ASCII; the path-start buffer is empty) and
  with the result relation `RResB o` (`o` = "a state override is given"). `o = false` (that is plain `RRes`) for every state
  except port and file host, where the Go code and the standard return differently under a state override:
    * file host state, override, empty buffer at a delimiter/EOF: Go returns `nil, nil`, the standard returns the url;
    * port state, override, empty buffer at a non-digit: Go fails with `PortMissing`, the standard returns the url.
  At the end of the file: `step_sim_S` in the form of SIM.md (with `Extra` as an extra hypothesis), `step_sim_port_B/_partial`,
  `step_sim_fileHost_B/_partial`, the nine states at once (`step_simX_B`), preservation of `Extra` (`step_extra_B`), and
  machine-checked witnesses (non-vacuity; the two disagreements; why each part of `Extra` is needed).
-/
namespace WhatwgUrl.Proofs.Sim
set_option linter.unusedSimpArgs false
set_option linter.unusedVariables false
open WhatwgUrl WhatwgUrl.Impl
open WhatwgUrl.Proofs.Percent (utf8_nil utf8_cons utf8_append utf8Char_ascii encBytes utf8_encodeCp percentEncodeRune_default)
open WhatwgUrl.Proofs.Utf8 (goRunes_utf8)

theorem step_simX_fragment (I : Idna) (e : Env) (input : Str) (base : Option Spec.SUrl) (ov : Option Spec.St)
    (hE : REnv e input base ov I) (pi : PS) (ss : Spec.PS) (h : RPS pi ss) (hX : Extra input pi ss) (hs : pi.state = .fragment) :
    RStepX false input (step e pi) (afterRun input (Spec.run (specIdna I) input base ov ss)) := by
  sim_setupB
  cases hcc : Spec.cAt input (ptr + 1) with
  | none =>
    rw [step_noneB e input hr _ hcc]
    simp only [body, stFragment, Spec.run, hcc, Bool.not_true, Bool.false_eq_true, if_false]
    exact rstepX_contB (fun _ => ⟨cAt_none_geB xlo hcc, hu⟩) (fun he => by cases he)
  | some ch =>
    have hlt := (cAt_some_ltB hcc).2
    rw [step_someB e input hr _ _ hcc]
    simp only [body, stFragment, Spec.run, hcc, unitChecks_defaultB e hc, Bool.not_false, if_true, hc, ite_self,
      percentEncodeRune_B, fragmentSet_hasB]
    refine rstepX_contB (fun he => by cases he) (fun _ => ⟨hlt, ?_, Extra.ofOtherB (by simp only []; omega) (by simp only []; omega) rfl⟩)
    have hf := hu.fragment
    cases hfr : us.fragment with
    | none => rw [hfr] at hf; cases hf
    | some f =>
      rw [hfr] at hf
      simp only [Option.map_some, Option.some.injEq] at hf
      refine RPS.ofFragmentB rfl rfl rfl rfl rfl rfl rfl ?_ (hfrag rfl)
      exact hu.setFragment'B _ _ (by simp only [Option.getD_some, utf8_append, hf])

theorem step_simX_query (I : Idna) (e : Env) (input : Str) (base : Option Spec.SUrl) (ov : Option Spec.St)
    (hE : REnv e input base ov I) (pi : PS) (ss : Spec.PS) (h : RPS pi ss) (hX : Extra input pi ss) (hs : pi.state = .query) :
    RStepX false input (step e pi) (afterRun input (Spec.run (specIdna I) input base ov ss)) := by
  sim_setupB
  obtain ⟨hb1, hb2⟩ := hbuf
  simp only at hb1 hb2
  have hsp : isSp e ui = Spec.isSpecialScheme us.scheme := hu.isSpB e hc
  cases hcc : Spec.cAt input (ptr + 1) with
  | none =>
    rw [step_noneB e input hr _ hcc]
    simp only [body, stQuery, Spec.run, hcc, Bool.not_true, Bool.false_eq_true, if_false, repl_hashB, Bool.and_false,
      isC_noneB, Option.isNone_none, Bool.or_true, if_true, hb2, Option.getD_some, List.nil_append, Spec.SUrl.isSpecial]
    exact rstepX_contB (fun _ => ⟨cAt_none_geB xlo hcc, hu.setQuery'B _ _ hb1⟩) (fun he => by cases he)
  | some ch =>
    have hlt := (cAt_some_ltB hcc).2
    rw [step_someB e input hr _ _ hcc]
    simp only [body, stQuery, Spec.run, hcc, ov_isNoneB, isC_someB, Option.isNone_some, Bool.or_false]
    cases hq : (e.ov.isNone && ch == '#')
    · simp only [Bool.false_eq_true, if_false, Bool.not_false, if_true, unitChecks_defaultB e hc, hc, percentEncodeRune_B, hsp]
      refine rstepX_contB (fun he => by cases he) (fun _ => ⟨hlt, ?_, Extra.ofOtherB (by simp only []; omega) (by simp only []; omega) rfl⟩)
      refine RPS.ofQueryB rfl rfl rfl rfl rfl rfl rfl ?_ hb2 hu (hqry rfl)
      simp only [utf8PercentEncode_snocB, utf8_append, hb1]
      cases Spec.isSpecialScheme us.scheme <;> simp only [specialQuerySet_hasB, querySet_hasB, if_true, Bool.false_eq_true, if_false, Option.getD_some]
    · have hh : (ch == '#') = true := by
        simp only [Bool.and_eq_true] at hq; exact hq.2
      simp only [if_true, hh, hb2, Option.getD_some, List.nil_append, Spec.SUrl.isSpecial]
      cases hqq : ui.query with
      | none => exact absurd hqq (hqry rfl)
      | some q0 =>
        simp only []
        refine rstepX_contB (fun he => by cases he) (fun _ => ⟨hlt, ?_, Extra.ofOtherB (by simp only []; omega) (by simp only []; omega) rfl⟩)
        refine RPS.ofFragmentB rfl rfl rfl rfl rfl rfl rfl ?_ (by simp)
        exact (hu.setQuery'B _ _ hb1).setFragment'B _ _ rfl

theorem step_simX_opaquePath (I : Idna) (e : Env) (input : Str) (base : Option Spec.SUrl) (ov : Option Spec.St)
    (hE : REnv e input base ov I) (pi : PS) (ss : Spec.PS) (h : RPS pi ss) (hX : Extra input pi ss) (hs : pi.state = .opaquePath) :
    RStepX false input (step e pi) (afterRun input (Spec.run (specIdna I) input base ov ss)) := by
  sim_setupB
  have hb : sbuf = [] := hbuf
  subst hb
  have hpath := hopq rfl
  cases hcc : Spec.cAt input (ptr + 1) with
  | none =>
    rw [step_noneB e input hr _ hcc]
    simp only [body, stOpaquePath, Spec.run, hcc, Bool.not_true, Bool.false_eq_true, if_false, repl_hashB, repl_qmB, isC_noneB]
    exact rstepX_contB (fun _ => ⟨cAt_none_geB xlo hcc, hu⟩) (fun he => by cases he)
  | some ch =>
    have hlt := (cAt_some_ltB hcc).2
    rw [step_someB e input hr _ _ hcc]
    simp only [body, stOpaquePath, Spec.run, hcc, isC_someB]
    cases hq : (ch == '?')
    · cases hh : (ch == '#')
      · simp only [Bool.false_eq_true, if_false, Bool.not_false, if_true, unitChecks_defaultB e hc, hc, percentEncodeRune_B,
          percentEncodeInvalidRune_B, ite_self, c0Set_hasB]
        refine rstepX_contB (fun he => by cases he) (fun _ => ⟨hlt, ?_, Extra.ofOtherB (by simp only []; omega) (by simp only []; omega) rfl⟩)
        refine RPS.ofOpaqueB rfl rfl rfl rfl rfl rfl rfl rfl ?_ rfl
        have hp := hu.path
        rw [hpath] at hp
        unfold Spec.pathAppend
        cases hsp : us.path with
        | list l => rw [hsp] at hp; exact absurd hp.1 (by simp)
        | «opaque» s =>
          rw [hsp] at hp
          have hbs : buf = utf8 s := by have := hp.2; simpa using this
          simp only []
          exact hu.setPathB ⟨rfl, by simp [Path.setOpaque, utf8_append, hbs]⟩
      · simp only [Bool.false_eq_true, if_false, if_true]
        refine rstepX_contB (fun he => by cases he) (fun _ => ⟨hlt, ?_, Extra.ofOtherB (by simp only []; omega) (by simp only []; omega) rfl⟩)
        exact RPS.ofFragmentB rfl rfl rfl rfl rfl rfl rfl (hu.setFragment'B _ _ rfl) (by simp)
    · simp only [if_true]
      refine rstepX_contB (fun he => by cases he) (fun _ => ⟨hlt, ?_, Extra.ofOtherB (by simp only []; omega) (by simp only []; omega) rfl⟩)
      exact RPS.ofQueryB rfl rfl rfl rfl rfl rfl rfl rfl rfl (hu.setQuery'B _ _ rfl) (by simp)

theorem step_simX_pathStart (I : Idna) (e : Env) (input : Str) (base : Option Spec.SUrl) (ov : Option Spec.St)
    (hE : REnv e input base ov I) (pi : PS) (ss : Spec.PS) (h : RPS pi ss) (hX : Extra input pi ss) (hs : pi.state = .pathStart) :
    RStepX false input (step e pi) (afterRun input (Spec.run (specIdna I) input base ov ss)) := by
  sim_setupB
  have hb := xps rfl
  subst hb
  have hb : buf = [] := hbuf
  subst hb
  have hl := xlist rfl
  have hsp : isSp e ui = Spec.isSpecialScheme us.scheme := hu.isSpB e hc
  cases hcc : Spec.cAt input (ptr + 1) with
  | none =>
    rw [step_noneB e input hr _ hcc]
    simp only [body, stPathStart, Spec.run, hcc, hsp, hc, Spec.SUrl.isSpecial, herr_falseB e hc, ite_self, bne, isC_noneB,
      repl_hashB, repl_qmB, repl_slashB, repl_bslashB, Bool.not_false, Bool.not_true, Bool.and_true, Bool.and_false,
      Bool.false_eq_true, if_false, if_true, rewindLast, ov_isSomeB, ov_isNoneB, hu.host_noneB, Option.isSome_none]
    cases Spec.isSpecialScheme us.scheme
    · simp only [Bool.false_eq_true, if_false]
      cases hcond : (e.ov.isSome && us.host == none)
      · simp only [Bool.false_eq_true, if_false]
        exact rstepX_contB (fun _ => ⟨cAt_none_geB xlo hcc, hu⟩) (fun he => by cases he)
      · simp only [if_true]
        exact rstepX_contB (fun _ => ⟨cAt_none_geB xlo hcc, hu.pathAppendB hl []⟩) (fun he => by cases he)
    · simp only [if_true]
      refine rstepX_contB (fun he => by cases he) (fun _ => ⟨by simp only []; omega, ?_, Extra.ofListB (by simp only []; omega) (by simp only []; omega) hl (by simp) (by simp)⟩)
      exact RPS.ofOrdB rfl rfl rfl rfl rfl rfl rfl rfl hu
  | some ch =>
    have hlt := (cAt_some_ltB hcc).2
    rw [step_someB e input hr _ _ hcc]
    simp only [body, stPathStart, Spec.run, hcc, hsp, hc, Spec.SUrl.isSpecial, herr_falseB e hc, ite_self, bne, isC_someB,
      Bool.not_false, Bool.not_true, Bool.and_true, Bool.and_false,
      Bool.false_eq_true, if_false, if_true, rewindLast, ov_isSomeB, ov_isNoneB, hu.host_noneB, Option.isSome_some]
    cases Spec.isSpecialScheme us.scheme
    · simp only [Bool.false_eq_true, if_false]
      cases hq : (e.ov.isNone && ch == '?')
      · cases hh : (e.ov.isNone && ch == '#')
        · simp only [Bool.false_eq_true, if_false]
          rcases Bool.eq_false_or_eq_true (ch == '/') with hsl | hsl
          rotate_left
          · simp only [hsl, Bool.not_false, if_true]
            refine rstepX_contB (fun he => by cases he) (fun _ => ⟨by simp only []; omega, ?_, Extra.ofListB (by simp only []; omega) (by simp only []; omega) hl (by simp) (by simp)⟩)
            exact RPS.ofOrdB rfl rfl rfl rfl rfl rfl rfl rfl hu
          · simp only [hsl, Bool.not_true, Bool.false_eq_true, if_false]
            refine rstepX_contB (fun he => by cases he) (fun _ => ⟨hlt, ?_, Extra.ofListB (by simp only []; omega) (by simp only []; omega) hl (by simp) (by simp)⟩)
            exact RPS.ofOrdB rfl rfl rfl rfl rfl rfl rfl rfl hu
        · simp only [Bool.false_eq_true, if_false, if_true]
          refine rstepX_contB (fun he => by cases he) (fun _ => ⟨hlt, ?_, Extra.ofOtherB (by simp only []; omega) (by simp only []; omega) rfl⟩)
          exact RPS.ofFragmentB rfl rfl rfl rfl rfl rfl rfl (hu.setFragment'B _ _ rfl) (by simp)
      · simp only [if_true]
        refine rstepX_contB (fun he => by cases he) (fun _ => ⟨hlt, ?_, Extra.ofOtherB (by simp only []; omega) (by simp only []; omega) rfl⟩)
        exact RPS.ofQueryB rfl rfl rfl rfl rfl rfl rfl rfl rfl (hu.setQuery'B _ _ rfl) (by simp)
    · simp only [if_true]
      rcases Bool.eq_false_or_eq_true (ch == '/') with hsl | hsl <;> rcases Bool.eq_false_or_eq_true (ch == '\\') with hbs | hbs <;>
        simp only [hsl, hbs, Bool.not_false, Bool.not_true, Bool.and_true, Bool.and_false, Bool.false_eq_true, if_true, if_false]
      rotate_left 3
      · refine rstepX_contB (fun he => by cases he) (fun _ => ⟨by simp only []; omega, ?_, Extra.ofListB (by simp only []; omega) (by simp only []; omega) hl (by simp) (by simp)⟩)
        exact RPS.ofOrdB rfl rfl rfl rfl rfl rfl rfl rfl hu
      all_goals
        refine rstepX_contB (fun he => by cases he) (fun _ => ⟨hlt, ?_, Extra.ofListB (by simp only []; omega) (by simp only []; omega) hl (by simp) (by simp)⟩)
        exact RPS.ofOrdB rfl rfl rfl rfl rfl rfl rfl rfl hu


/-- the branch of the port state taken at a delimiter, EOF, or under a state override (Go side) -/
private def portFinG (e : Env) (ps : PS) : StepR :=
  let fin : PS → StepR := fun ps =>
    if e.ov.isSome then retUrl ps else .cont { (rewindLast ps) with state := .pathStart }
  if !ps.buffer.isEmpty then
    let port := digitsVal 10 ps.buffer
    if port > 65535 then
      .done ⟨record e.cfg ps.url .PortOutOfRange true, .err ⟨.PortOutOfRange, true⟩ false⟩
    else
      fin { ps with buffer := [],
                    url := cleanDefaultPort e.cfg { ps.url with decodedPort := port, port := some (itoa port) } }
  else if e.ov.isSome then herr e ps .PortMissing true fin
  else fin ps

private def portFinS (ov : Option Spec.St) (ps : Spec.PS) : Spec.R :=
  if !ps.buffer.isEmpty && Spec.strVal 10 ps.buffer > 65535 then .failure ps.url
  else
    let url := if !ps.buffer.isEmpty then Spec.setPort ps.url (Spec.strVal 10 ps.buffer) else ps.url
    if ov.isSome then .ret url
    else .cont { ps with pointer := ps.pointer - 1, url := url, buffer := [], state := .pathStart }

private theorem portFin_sim (e : Env) (hc : e.cfg = {}) (input : Str) (ptr : Int) (eofv : Bool) (sbuf : Str) (sat sbr spw : Bool)
    (ui : Url) (us : Spec.SUrl) (hu : RUrl ui us) (xlo : 0 ≤ ptr + 1) (xhi : ptr + 1 ≤ (input.length : Int))
    (hl : us.hasOpaquePath = false) (hasc : ∀ c ∈ sbuf, c.toNat < 0x80) :
    RStepX e.ov.isSome input (bottom (portFinG e ⟨.port, ptr + 1, eofv, utf8 sbuf, sat, sbr, spw, ui⟩))
      (afterRun input (portFinS (e.ov.map stateMap) ⟨.port, ptr + 1, sbuf, sat, sbr, spw, us⟩)) := by
  unfold portFinG portFinS
  simp only [utf8_isEmptyB, digitsVal_utf8B sbuf hasc, hc, herr_trueB e hc, ov_isSomeB, retUrl, rewindLast]
  rcases Bool.eq_false_or_eq_true sbuf.isEmpty with hemp | hemp
  · -- empty buffer
    have hb : sbuf = [] := List.isEmpty_iff.mp hemp
    subst hb
    simp only [List.isEmpty_nil, Bool.not_true, Bool.false_and, Bool.false_eq_true, if_false]
    rcases Bool.eq_false_or_eq_true e.ov.isSome with ho | ho
    · simp only [ho, if_true]
      exact Or.inr ⟨rfl, rfl, rfl, hu⟩
    · simp only [ho, Bool.false_eq_true, if_false]
      refine rstepX_contB (fun he => by cases he) (fun _ => ⟨by simp only []; omega, ?_,
        Extra.ofPathStartB (by simp only []; omega) (by simp only []; omega) hl rfl rfl⟩)
      exact RPS.ofOrdB rfl rfl rfl rfl rfl rfl rfl rfl hu
  · simp only [hemp, Bool.not_false, Bool.true_and, if_true, decide_eq_true_eq]
    by_cases hbig : Spec.strVal 10 sbuf > 65535
    · simp only [hbig, if_true]
      exact rstepX_failB _ _ _ _
    · simp only [hbig, if_false]
      have hu' := cleanDefaultPort_setPortB hu (Spec.strVal 10 sbuf)
      rcases Bool.eq_false_or_eq_true e.ov.isSome with ho | ho
      · simp only [ho, if_true]
        exact rstepX_retB hu'
      · simp only [ho, Bool.false_eq_true, if_false]
        refine rstepX_contB (fun he => by cases he) (fun _ => ⟨by simp only []; omega, ?_,
          Extra.ofPathStartB (by simp only []; omega) (by simp only []; omega) hl rfl rfl⟩)
        exact RPS.ofOrdB rfl rfl rfl rfl rfl rfl rfl rfl hu'

theorem isDigitN_ltB {n : Nat} (h : isDigitN n = true) : n < 0x80 := by
  simp [isDigitN] at h; omega

theorem step_simX_port (I : Idna) (e : Env) (input : Str) (base : Option Spec.SUrl) (ov : Option Spec.St)
    (hE : REnv e input base ov I) (pi : PS) (ss : Spec.PS) (h : RPS pi ss) (hX : Extra input pi ss) (hs : pi.state = .port) :
    RStepX e.ov.isSome input (step e pi) (afterRun input (Spec.run (specIdna I) input base ov ss)) := by
  sim_setupB
  have hb : buf = utf8 sbuf := hbuf
  subst hb
  have hl := xlist rfl
  have hasc := xport rfl
  have hsp : isSp e ui = Spec.isSpecialScheme us.scheme := hu.isSpB e hc
  have hG : ∀ ps r, stPort e ps r = if isDigitN r.toNat then .cont (writeRune ps r)
      else if (ps.eof || r == '/' || r == '?' || r == '#') || spBackslash e ps.url r || e.ov.isSome then portFinG e ps
      else herr e ps .PortInvalid true .cont := fun _ _ => rfl
  have hS : Spec.run (specIdna I) input base (e.ov.map stateMap) ⟨.port, ptr + 1, sbuf, sat, sbr, spw, us⟩ =
      if Spec.isDigitC (Spec.cAt input (ptr + 1)) then
        .cont ⟨.port, ptr + 1, sbuf ++ [(Spec.cAt input (ptr + 1)).getD '0'], sat, sbr, spw, us⟩
      else if (Spec.cAt input (ptr + 1)).isNone || Spec.isC (Spec.cAt input (ptr + 1)) '/' || Spec.isC (Spec.cAt input (ptr + 1)) '?' ||
          Spec.isC (Spec.cAt input (ptr + 1)) '#' || (us.isSpecial && Spec.isC (Spec.cAt input (ptr + 1)) '\\') ||
          (e.ov.map stateMap).isSome then
        portFinS (e.ov.map stateMap) ⟨.port, ptr + 1, sbuf, sat, sbr, spw, us⟩
      else .failure us := rfl
  rw [hS]
  cases hcc : Spec.cAt input (ptr + 1) with
  | none =>
    rw [step_noneB e input hr _ hcc]
    simp only [body, hG, repl_digitB, Bool.false_eq_true, if_false, Bool.true_or, if_true, Spec.isDigitC, Option.isNone_none]
    exact portFin_sim e hc input ptr true sbuf sat sbr spw ui us hu xlo xhi hl hasc
  | some ch =>
    have hlt := (cAt_some_ltB hcc).2
    rw [step_someB e input hr _ _ hcc]
    simp only [body, hG, Spec.isDigitC, Option.isNone_some, isC_someB, Bool.false_or, spBackslash, hsp, Spec.SUrl.isSpecial,
      ov_isSomeB, Bool.or_assoc]
    rcases Bool.eq_false_or_eq_true (isDigitN ch.toNat) with hd | hd
    · simp only [hd, if_true, writeRune, Option.getD_some]
      refine rstepX_contB (fun he => by cases he) (fun _ => ⟨hlt, ?_,
        Extra.ofPortB (by simp only []; omega) (by simp only []; omega) hl rfl ?_⟩)
      · exact RPS.ofOrdB rfl rfl rfl rfl rfl rfl rfl (utf8_snocB sbuf ch).symm hu
      · intro c hc'
        simp only [List.mem_append, List.mem_singleton] at hc'
        rcases hc' with hc' | hc'
        · exact hasc c hc'
        · subst hc'; exact isDigitN_ltB hd
    · simp only [hd, Bool.false_eq_true, if_false]
      split
      · exact portFin_sim e hc input ptr false sbuf sat sbr spw ui us hu xlo xhi hl hasc
      · rw [herr_trueB e hc]
        exact rstepX_failB _ _ _ _


/-- the delimiter / EOF branch of the file host state (Go side) -/
private def fhFinG (e : Env) (ps : PS) : StepR :=
  let ps := rewindLast ps
  if e.ov.isNone && Impl.isWindowsDriveLetter ps.buffer then
    herr e ps .FileInvalidWindowsDriveLetterHost false fun ps => .cont { ps with state := .path }
  else if ps.buffer.isEmpty then
    let ps := { ps with url := { ps.url with host := some [] } }
    if e.ov.isSome then .done ⟨ps.url, .nilNil⟩ else .cont { ps with state := .pathStart }
  else afterHost (parseHost e.cfg e.I ps.url ps.buffer (!isSp e ps.url)) ps fun ps h =>
    let h := if h == lit "localhost" then [] else h
    let ps := { ps with url := { ps.url with host := some h } }
    if e.ov.isSome then retUrl ps else .cont { ps with buffer := [], state := .pathStart }

private def fhFinS (I : Spec.SIdna) (ov : Option Spec.St) (ps0 : Spec.PS) : Spec.R :=
  let url := ps0.url
  let ps : Spec.PS := { ps0 with pointer := ps0.pointer - 1 }
  if ov.isNone && Spec.isWindowsDriveLetter ps.buffer then .cont { ps with state := .path }
  else if ps.buffer.isEmpty then
    let url := { url with host := some [] }
    if ov.isSome then .ret url else .cont { ps with url := url, state := .pathStart }
  else hostMatchB (Spec.parseHost I ps.buffer (!url.isSpecial)) url fun h =>
      let url := { url with host := some (if h == "localhost".toList then [] else h) }
      if ov.isSome then .ret url else .cont { ps with url := url, buffer := [], state := .pathStart }

private theorem fhFin_sim (I : Idna) (hH : HostConforms I) (e : Env) (hc : e.cfg = {}) (hi : e.I = I) (input : Str) (ptr : Int)
    (eofv : Bool) (sbuf : Str) (sat sbr spw : Bool)
    (ui : Url) (us : Spec.SUrl) (hu : RUrl ui us) (xlo : 0 ≤ ptr + 1) (xhi : ptr + 1 ≤ (input.length : Int))
    (hl : us.hasOpaquePath = false) :
    RStepX e.ov.isSome input (bottom (fhFinG e ⟨.fileHost, ptr + 1, eofv, utf8 sbuf, sat, sbr, spw, ui⟩))
      (afterRun input (fhFinS (specIdna I) (e.ov.map stateMap) ⟨.fileHost, ptr + 1, sbuf, sat, sbr, spw, us⟩)) := by
  have hsp : isSp e ui = Spec.isSpecialScheme us.scheme := hu.isSpB e hc
  unfold fhFinG fhFinS
  simp only [utf8_isEmptyB, isWindowsDriveLetter_utf8B, hc, hi, herr_falseB e hc, ov_isSomeB, ov_isNoneB, retUrl, rewindLast, hsp,
    Spec.SUrl.isSpecial]
  rcases Bool.eq_false_or_eq_true (e.ov.isNone && Spec.isWindowsDriveLetter sbuf) with hd | hd
  · simp only [hd, if_true]
    refine rstepX_contB (fun he => by cases he) (fun _ => ⟨by simp only []; omega, ?_,
      Extra.ofListB (by simp only []; omega) (by simp only []; omega) hl (by simp) (by simp)⟩)
    exact RPS.ofOrdB rfl rfl rfl rfl rfl rfl rfl rfl hu
  simp only [hd, Bool.false_eq_true, if_false]
  rcases Bool.eq_false_or_eq_true sbuf.isEmpty with hemp | hemp
  · have hb : sbuf = [] := List.isEmpty_iff.mp hemp
    subst hb
    simp only [List.isEmpty_nil, if_true]
    rcases Bool.eq_false_or_eq_true e.ov.isSome with ho | ho
    · simp only [ho, if_true]
      exact ⟨rfl, rfl, hu.setHostB []⟩
    · simp only [ho, Bool.false_eq_true, if_false]
      refine rstepX_contB (fun he => by cases he) (fun _ => ⟨by simp only []; omega, ?_,
        Extra.ofPathStartB (by simp only []; omega) (by simp only []; omega) hl rfl rfl⟩)
      exact RPS.ofOrdB rfl rfl rfl rfl rfl rfl rfl rfl (hu.setHostB [])
  · simp only [hemp, Bool.false_eq_true, if_false]
    have hne : sbuf ≠ [] := by intro h; subst h; cases hemp
    apply afterHost_simB I hH _ input ui sbuf hne _ _ _ us hu
    intro u' hs hu'
    have hh : (if (utf8 hs == lit "localhost") = true then [] else utf8 hs) =
        utf8 (if (hs == "localhost".toList) = true then [] else hs) := by
      rw [beq_localhostB]; split <;> rfl
    simp only [hh]
    rcases Bool.eq_false_or_eq_true e.ov.isSome with ho | ho
    · simp only [ho, if_true]
      exact rstepX_retB (hu'.setHostB _)
    · simp only [ho, Bool.false_eq_true, if_false]
      refine rstepX_contB (fun he => by cases he) (fun _ => ⟨by simp only []; omega, ?_,
        Extra.ofPathStartB (by simp only []; omega) (by simp only []; omega) hl rfl rfl⟩)
      exact RPS.ofOrdB rfl rfl rfl rfl rfl rfl rfl rfl (hu'.setHostB _)

theorem step_simX_fileHost (I : Idna) (hH : HostConforms I) (e : Env) (input : Str) (base : Option Spec.SUrl) (ov : Option Spec.St)
    (hE : REnv e input base ov I) (pi : PS) (ss : Spec.PS) (h : RPS pi ss) (hX : Extra input pi ss) (hs : pi.state = .fileHost) :
    RStepX e.ov.isSome input (step e pi) (afterRun input (Spec.run (specIdna I) input base ov ss)) := by
  sim_setupB
  have hb : buf = utf8 sbuf := hbuf
  subst hb
  have hl := xlist rfl
  have hG : ∀ ps r, stFileHost e ps r =
      if ps.eof || r == '/' || r == '\\' || r == '?' || r == '#' then fhFinG e ps else .cont (writeRune ps r) := fun _ _ => rfl
  have hS : Spec.run (specIdna I) input base (e.ov.map stateMap) ⟨.fileHost, ptr + 1, sbuf, sat, sbr, spw, us⟩ =
      if (Spec.cAt input (ptr + 1)).isNone || Spec.isC (Spec.cAt input (ptr + 1)) '/' || Spec.isC (Spec.cAt input (ptr + 1)) '\\' ||
          Spec.isC (Spec.cAt input (ptr + 1)) '?' || Spec.isC (Spec.cAt input (ptr + 1)) '#' then
        fhFinS (specIdna I) (e.ov.map stateMap) ⟨.fileHost, ptr + 1, sbuf, sat, sbr, spw, us⟩
      else .cont ⟨.fileHost, ptr + 1, sbuf ++ [(Spec.cAt input (ptr + 1)).getD ' '], sat, sbr, spw, us⟩ := rfl
  rw [hS]
  cases hcc : Spec.cAt input (ptr + 1) with
  | none =>
    rw [step_noneB e input hr _ hcc]
    simp only [body, hG, Bool.true_or, if_true, Option.isNone_none]
    exact fhFin_sim I hH e hc hi input ptr true sbuf sat sbr spw ui us hu xlo xhi hl
  | some ch =>
    have hlt := (cAt_some_ltB hcc).2
    rw [step_someB e input hr _ _ hcc]
    simp only [body, hG, Option.isNone_some, isC_someB, Bool.false_or]
    split
    · exact fhFin_sim I hH e hc hi input ptr false sbuf sat sbr spw ui us hu xlo xhi hl
    · simp only [writeRune, Option.getD_some]
      refine rstepX_contB (fun he => by cases he) (fun _ => ⟨hlt, ?_,
        Extra.ofListB (by simp only []; omega) (by simp only []; omega) hl (by simp) (by simp)⟩)
      exact RPS.ofOrdB rfl rfl rfl rfl rfl rfl rfl (utf8_snocB sbuf ch).symm hu


/-- the `:` branch of the host state (Go side) -/
private def hostColonG (e : Env) (ps : PS) : StepR :=
  let k : PS → StepR := fun ps =>
    if e.ov == some .hostname then retUrl ps
    else afterHost (parseHost e.cfg e.I ps.url ps.buffer (!isSp e ps.url)) ps fun ps h =>
      .cont { ps with url := { ps.url with host := some h }, buffer := [], state := .port }
  if ps.buffer.isEmpty then herr e ps .HostMissing true k else k ps

private def hostColonS (I : Spec.SIdna) (ov : Option Spec.St) (ps : Spec.PS) : Spec.R :=
  let url := ps.url
  if ps.buffer.isEmpty then .failure url
  else if ov == some .hostname then .ret url
  else hostMatchB (Spec.parseHost I ps.buffer (!url.isSpecial)) url fun h =>
    .cont { ps with url := { url with host := some h }, buffer := [], state := .port }

/-- the delimiter / EOF branch of the host state (Go side) -/
private def hostFinG (e : Env) (ps : PS) : StepR :=
  let ps := rewindLast ps
  if isSp e ps.url && ps.buffer.isEmpty then herr e ps .HostMissing true .cont
  else if e.ov.isSome && ps.buffer.isEmpty && (ps.url.username != [] || ps.url.password != [] || ps.url.port.isSome) then retUrl ps
  else afterHost (parseHost e.cfg e.I ps.url ps.buffer (!isSp e ps.url)) ps fun ps h =>
    let ps := { ps with url := { ps.url with host := some h }, buffer := [], state := .pathStart }
    if e.ov.isSome then retUrl ps else .cont ps

private def hostFinS (I : Spec.SIdna) (ov : Option Spec.St) (ps0 : Spec.PS) : Spec.R :=
  let url := ps0.url
  let ps : Spec.PS := { ps0 with pointer := ps0.pointer - 1 }
  if url.isSpecial && ps.buffer.isEmpty then .failure url
  else if ov.isSome && ps.buffer.isEmpty && (url.includesCredentials || url.port.isSome) then .ret url
  else hostMatchB (Spec.parseHost I ps.buffer (!url.isSpecial)) url fun h =>
    let url := { url with host := some h }
    if ov.isSome then .ret url else .cont { ps with url := url, buffer := [], state := .pathStart }

private theorem hostColon_sim (I : Idna) (hH : HostConforms I) (e : Env) (hc : e.cfg = {}) (hi : e.I = I) (input : Str) (ptr : Int)
    (st : State) (sst : Spec.St) (sbuf : Str) (sat sbr spw : Bool)
    (ui : Url) (us : Spec.SUrl) (hu : RUrl ui us) (xlo : 0 ≤ ptr + 1) (hlt : ptr + 1 < (input.length : Int))
    (hl : us.hasOpaquePath = false) :
    RStepX false input (bottom (hostColonG e ⟨st, ptr + 1, false, utf8 sbuf, sat, sbr, spw, ui⟩))
      (afterRun input (hostColonS (specIdna I) (e.ov.map stateMap) ⟨sst, ptr + 1, sbuf, sat, sbr, spw, us⟩)) := by
  have hsp : isSp e ui = Spec.isSpecialScheme us.scheme := hu.isSpB e hc
  unfold hostColonG hostColonS
  simp only [utf8_isEmptyB, hc, hi, herr_trueB e hc, ov_hostnameB, retUrl, hsp, Spec.SUrl.isSpecial]
  rcases Bool.eq_false_or_eq_true sbuf.isEmpty with hemp | hemp
  · simp only [hemp, if_true]
    exact rstepX_failB _ _ _ _
  simp only [hemp, Bool.false_eq_true, if_false]
  have hne : sbuf ≠ [] := by intro h; subst h; cases hemp
  rcases Bool.eq_false_or_eq_true (e.ov == some State.hostname) with ho | ho
  · simp only [ho, if_true]
    exact rstepX_retB hu
  simp only [ho, Bool.false_eq_true, if_false]
  apply afterHost_simB I hH _ input ui sbuf hne _ _ _ us hu
  intro u' hs hu'
  refine rstepX_contB (fun he => by cases he) (fun _ => ⟨hlt, ?_,
    Extra.ofPortB (by simp only []; omega) (by simp only []; omega) hl rfl (by intro c hc'; cases hc')⟩)
  exact RPS.ofOrdB rfl rfl rfl rfl rfl rfl rfl rfl (hu'.setHostB _)

private theorem hostFin_sim (I : Idna) (hH : HostConforms I) (e : Env) (hc : e.cfg = {}) (hi : e.I = I) (input : Str) (ptr : Int)
    (st : State) (sst : Spec.St) (eofv : Bool) (sbuf : Str) (sat sbr spw : Bool)
    (ui : Url) (us : Spec.SUrl) (hu : RUrl ui us) (xlo : 0 ≤ ptr + 1) (xhi : ptr + 1 ≤ (input.length : Int))
    (hl : us.hasOpaquePath = false) :
    RStepX false input (bottom (hostFinG e ⟨st, ptr + 1, eofv, utf8 sbuf, sat, sbr, spw, ui⟩))
      (afterRun input (hostFinS (specIdna I) (e.ov.map stateMap) ⟨sst, ptr + 1, sbuf, sat, sbr, spw, us⟩)) := by
  have hsp : isSp e ui = Spec.isSpecialScheme us.scheme := hu.isSpB e hc
  unfold hostFinG hostFinS
  simp only [utf8_isEmptyB, hc, hi, herr_trueB e hc, ov_isSomeB, retUrl, rewindLast, hsp, Spec.SUrl.isSpecial,
    ← Bool.or_assoc, hu.credsB, hu.port_isSomeB]
  rcases Bool.eq_false_or_eq_true (Spec.isSpecialScheme us.scheme && sbuf.isEmpty) with h1 | h1
  · simp only [h1, if_true]
    exact rstepX_failB _ _ _ _
  simp only [h1, Bool.false_eq_true, if_false]
  rcases Bool.eq_false_or_eq_true (e.ov.isSome && sbuf.isEmpty && (us.includesCredentials || us.port.isSome)) with h2 | h2
  · simp only [h2, if_true]
    exact rstepX_retB hu
  simp only [h2, Bool.false_eq_true, if_false]
  have key : ∀ u' hs, RUrl u' us →
      RStepX false input
        (bottom (if e.ov.isSome = true then
            StepR.done ⟨{ u' with host := some (utf8 hs) }, Ret.url⟩
          else StepR.cont ⟨State.pathStart, ptr + 1 - 1, false, [], sat, sbr, spw, { u' with host := some (utf8 hs) }⟩))
        (afterRun input (if e.ov.isSome = true then Spec.R.ret { us with host := some hs }
          else Spec.R.cont ⟨Spec.St.pathStart, ptr + 1 - 1, [], sat, sbr, spw, { us with host := some hs }⟩)) := by
    intro u' hs hu'
    rcases Bool.eq_false_or_eq_true e.ov.isSome with ho | ho
    · simp only [ho, if_true]
      exact rstepX_retB (hu'.setHostB _)
    · simp only [ho, Bool.false_eq_true, if_false]
      refine rstepX_contB (fun he => by cases he) (fun _ => ⟨by simp only []; omega, ?_,
        Extra.ofPathStartB (by simp only []; omega) (by simp only []; omega) hl rfl rfl⟩)
      exact RPS.ofOrdB rfl rfl rfl rfl rfl rfl rfl rfl (hu'.setHostB _)
  rcases Bool.eq_false_or_eq_true sbuf.isEmpty with hemp | hemp
  · have hb : sbuf = [] := List.isEmpty_iff.mp hemp
    subst hb
    have hns : Spec.isSpecialScheme us.scheme = false := by simpa using h1
    simp only [hns, Bool.not_false, utf8_nil, parseHost_nilB, specParseHost_nilB, afterHost, hostMatchB]
    exact key ui [] hu
  · have hne : sbuf ≠ [] := by intro h; subst h; cases hemp
    apply afterHost_simB I hH _ input ui sbuf hne _ _ _ us hu
    intro u' hs hu'
    exact key u' hs hu'

set_option hygiene false in
macro "host_scriptB" sst:term : tactic => `(tactic| (
    have hS : Spec.run (specIdna I) input base (e.ov.map stateMap) ⟨$sst, ptr + 1, sbuf, sat, sbr, spw, us⟩ =
        if (e.ov.map stateMap).isSome && us.scheme == "file".toList then .cont ⟨.fileHost, ptr + 1 - 1, sbuf, sat, sbr, spw, us⟩
        else if Spec.isC (Spec.cAt input (ptr + 1)) ':' && !sbr then
          hostColonS (specIdna I) (e.ov.map stateMap) ⟨$sst, ptr + 1, sbuf, sat, sbr, spw, us⟩
        else if (Spec.cAt input (ptr + 1)).isNone || Spec.isC (Spec.cAt input (ptr + 1)) '/' || Spec.isC (Spec.cAt input (ptr + 1)) '?' ||
            Spec.isC (Spec.cAt input (ptr + 1)) '#' || (us.isSpecial && Spec.isC (Spec.cAt input (ptr + 1)) '\\') then
          hostFinS (specIdna I) (e.ov.map stateMap) ⟨$sst, ptr + 1, sbuf, sat, sbr, spw, us⟩
        else
          .cont ⟨$sst, ptr + 1, sbuf ++ [(Spec.cAt input (ptr + 1)).getD ' '], sat,
            (if Spec.isC (Spec.cAt input (ptr + 1)) '[' then true else if Spec.isC (Spec.cAt input (ptr + 1)) ']' then false else sbr),
            spw, us⟩ := by
      simp only [Spec.run, stateMap, hostColonS, hostFinS]
      split
      · rfl
      split
      · rfl
      split
      · rfl
      split
      · rfl
      split <;> rfl
    simp only [stateMap]
    rw [hS]
    simp only [ov_isSomeB]
    cases hcc : Spec.cAt input (ptr + 1) with
    | none =>
      rw [step_noneB e input hr _ hcc]
      simp only [body, hG, hu.scheme, beq_fileB, repl_colonB, Bool.false_and, Bool.true_or, isC_noneB, Option.isNone_none, rewindLast]
      split
      · refine rstepX_contB (fun he => by cases he) (fun _ => ⟨by simp only []; omega, ?_,
          Extra.ofListB (by simp only []; omega) (by simp only []; omega) hl (by simp) (by simp)⟩)
        exact RPS.ofOrdB rfl rfl rfl rfl rfl rfl rfl rfl hu
      · simp only [Bool.false_eq_true, if_false, if_true]
        exact hostFin_sim I hH e hc hi input ptr _ _ true sbuf sat sbr spw ui us hu xlo xhi hl
    | some ch =>
      have hlt := (cAt_some_ltB hcc).2
      rw [step_someB e input hr _ _ hcc]
      simp only [body, hG, hu.scheme, beq_fileB, isC_someB, Option.isNone_some, Bool.false_or, rewindLast, spBackslash, hsp,
        Spec.SUrl.isSpecial, Bool.or_assoc]
      split
      · refine rstepX_contB (fun he => by cases he) (fun _ => ⟨by simp only []; omega, ?_,
          Extra.ofListB (by simp only []; omega) (by simp only []; omega) hl (by simp) (by simp)⟩)
        exact RPS.ofOrdB rfl rfl rfl rfl rfl rfl rfl rfl hu
      split
      · exact hostColon_sim I hH e hc hi input ptr _ _ sbuf sat sbr spw ui us hu xlo hlt hl
      split
      · exact hostFin_sim I hH e hc hi input ptr _ _ false sbuf sat sbr spw ui us hu xlo xhi hl
      · simp only [writeRune, Option.getD_some]
        refine rstepX_contB (fun he => by split at he <;> (try split at he) <;> cases he) (fun _ => ⟨hlt, ?_,
          Extra.ofListB (by simp only []; omega) (by simp only []; omega) hl (by split <;> (try split) <;> simp) (by split <;> (try split) <;> simp)⟩)
        rcases Bool.eq_false_or_eq_true (ch == '[') with hb1 | hb1 <;> rcases Bool.eq_false_or_eq_true (ch == ']') with hb2 | hb2 <;>
          simp only [hb1, hb2, if_true, Bool.false_eq_true, if_false] <;>
          exact RPS.ofOrdB rfl rfl rfl rfl rfl rfl rfl (utf8_snocB sbuf ch).symm hu))

private theorem host_core (I : Idna) (hH : HostConforms I) (e : Env) (hc : e.cfg = {}) (hi : e.I = I) (input : Str)
    (hr : e.runes = input) (base : Option Spec.SUrl) (ptr : Int)
    (st : State) (hst : st = .host ∨ st = .hostname) (sbuf : Str) (sat sbr spw : Bool)
    (ui : Url) (us : Spec.SUrl) (hu : RUrl ui us) (xlo : 0 ≤ ptr + 1) (xhi : ptr + 1 ≤ (input.length : Int))
    (hl : us.hasOpaquePath = false) :
    RStepX false input (step e ⟨st, ptr, false, utf8 sbuf, sat, sbr, spw, ui⟩)
      (afterRun input (Spec.run (specIdna I) input base (e.ov.map stateMap) ⟨stateMap st, ptr + 1, sbuf, sat, sbr, spw, us⟩)) := by
  have hsp : isSp e ui = Spec.isSpecialScheme us.scheme := hu.isSpB e hc
  have hG : ∀ ps r, stHost e ps r =
      if e.ov.isSome && ps.url.scheme == lit "file" then .cont { (rewindLast ps) with state := .fileHost }
      else if r == ':' && !ps.bracketFlag then hostColonG e ps
      else if ps.eof || (r == '/' || r == '?' || r == '#' || spBackslash e ps.url r) then hostFinG e ps
      else
        .cont (writeRune (if r == '[' then { ps with bracketFlag := true } else if r == ']' then { ps with bracketFlag := false } else ps) r) := by
    intro ps r
    unfold stHost hostColonG hostFinG
    simp only [hc, Bool.and_false, Bool.false_eq_true, if_false]
  rcases hst with rfl | rfl
  · host_scriptB Spec.St.host
  · host_scriptB Spec.St.hostname

theorem step_simX_host (I : Idna) (hH : HostConforms I) (e : Env) (input : Str) (base : Option Spec.SUrl) (ov : Option Spec.St)
    (hE : REnv e input base ov I) (pi : PS) (ss : Spec.PS) (h : RPS pi ss) (hX : Extra input pi ss) (hs : pi.state = .host) :
    RStepX false input (step e pi) (afterRun input (Spec.run (specIdna I) input base ov ss)) := by
  sim_setupB
  have hb : buf = utf8 sbuf := hbuf
  subst hb
  exact host_core I hH e hc hi input hr base ptr .host (Or.inl rfl) sbuf sat sbr spw ui us hu xlo xhi (xlist rfl)

theorem step_simX_hostname (I : Idna) (hH : HostConforms I) (e : Env) (input : Str) (base : Option Spec.SUrl) (ov : Option Spec.St)
    (hE : REnv e input base ov I) (pi : PS) (ss : Spec.PS) (h : RPS pi ss) (hX : Extra input pi ss) (hs : pi.state = .hostname) :
    RStepX false input (step e pi) (afterRun input (Spec.run (specIdna I) input base ov ss)) := by
  sim_setupB
  have hb : buf = utf8 sbuf := hbuf
  subst hb
  exact host_core I hH e hc hi input hr base ptr .hostname (Or.inr rfl) sbuf sat sbr spw ui us hu xlo xhi (xlist rfl)


/-- the segment-end branch of the path state (Go side): the continuation `k` of `stPath` -/
private def pathSegG (e : Env) (r : Char) (ps : PS) : StepR :=
  let slash := r == '/' || spBackslash e ps.url r
  let url := ps.url
  let res : Option (Url × Bytes) :=
    if Impl.isDoubleDot ps.buffer then
      let p := url.path.shorten url.scheme
      some ({ url with path := if !slash then p.addSegment [] else p }, ps.buffer)
    else if Impl.isSingleDot ps.buffer && !slash then some ({ url with path := url.path.addSegment [] }, ps.buffer)
    else if !Impl.isSingleDot ps.buffer then
      let buf :=
        if url.scheme == lit "file" && url.path.isEmpty && Impl.isWindowsDriveLetter ps.buffer && !e.cfg.skipDrive then
          ps.buffer.take 1 ++ [0x3a] ++ ps.buffer.drop 2
        else ps.buffer
      if !e.cfg.collapse || !isSp e url || url.path.isEmpty || (url.path.segs.getLast?.getD []).length > 0 then
        some ({ url with path := url.path.addSegment buf }, buf)
      else
        some ({ url with path := { url.path with segs := url.path.segs.dropLast ++ [buf] } }, buf)
    else some (url, ps.buffer)
  match res with
  | none => .done ⟨ps.url, .panic 14⟩
  | some (url, _) =>
    let ps := { ps with url := url, buffer := [] }
    if r == '?' then .cont { ps with state := .query, url := { ps.url with query := some [] } }
    else if r == '#' then .cont { ps with state := .fragment, url := { ps.url with fragment := some [] } }
    else .cont ps

private theorem pathSegG_eq (e : Env) (hc : e.cfg = {}) (r : Char) (ps : PS) :
    pathSegG e r ps =
      (if r == '?' then
        .cont { ps with state := .query, buffer := [],
                        url := { (pathSegUrlG ps.url ps.buffer (r == '/' || spBackslash e ps.url r)) with query := some [] } }
      else if r == '#' then
        .cont { ps with state := .fragment, buffer := [],
                        url := { (pathSegUrlG ps.url ps.buffer (r == '/' || spBackslash e ps.url r)) with fragment := some [] } }
      else .cont { ps with url := pathSegUrlG ps.url ps.buffer (r == '/' || spBackslash e ps.url r), buffer := [] }) := by
  unfold pathSegG pathSegUrlG
  simp only [hc, Bool.not_false, Bool.and_true, Bool.true_or, if_true]
  rcases Bool.eq_false_or_eq_true (Impl.isDoubleDot ps.buffer) with h1 | h1
  · simp only [h1, if_true]
  simp only [h1, Bool.false_eq_true, if_false]
  rcases Bool.eq_false_or_eq_true (Impl.isSingleDot ps.buffer && !(r == '/' || spBackslash e ps.url r)) with h2 | h2
  · simp only [h2, if_true]
  simp only [h2, Bool.false_eq_true, if_false]
  rcases Bool.eq_false_or_eq_true (Impl.isSingleDot ps.buffer) with h3 | h3
  · simp only [h3, Bool.not_true, Bool.false_eq_true, if_false]
  · simp only [h3, Bool.not_false, if_true]

theorem step_simX_path (I : Idna) (e : Env) (input : Str) (base : Option Spec.SUrl) (ov : Option Spec.St)
    (hE : REnv e input base ov I) (pi : PS) (ss : Spec.PS) (h : RPS pi ss) (hX : Extra input pi ss) (hs : pi.state = .path) :
    RStepX false input (step e pi) (afterRun input (Spec.run (specIdna I) input base ov ss)) := by
  sim_setupB
  have hb : buf = utf8 sbuf := hbuf
  subst hb
  have hl := xlist rfl
  have hsp : isSp e ui = Spec.isSpecialScheme us.scheme := hu.isSpB e hc
  have hG : ∀ ps r, stPath e ps r =
      if (ps.eof || r == '/') || spBackslash e ps.url r || (e.ov.isNone && (r == '?' || r == '#')) then
        (if spBackslash e ps.url r then herr e ps .InvalidReverseSolidus false (pathSegG e r) else pathSegG e r ps)
      else
        unitChecks e ps r fun ps =>
          if remainingInvalidPct e.runes ps then
            .cont { ps with buffer := ps.buffer ++ percentEncodeInvalidRune e.cfg e.cfg.pathSet r }
          else .cont { ps with buffer := ps.buffer ++ percentEncodeRune e.cfg e.cfg.pathSet r } := fun _ _ => rfl
  have hS : Spec.run (specIdna I) input base (e.ov.map stateMap) ⟨.path, ptr + 1, sbuf, sat, sbr, spw, us⟩ =
      if (Spec.cAt input (ptr + 1)).isNone ||
          (Spec.isC (Spec.cAt input (ptr + 1)) '/' || (us.isSpecial && Spec.isC (Spec.cAt input (ptr + 1)) '\\')) ||
          ((e.ov.map stateMap).isNone && (Spec.isC (Spec.cAt input (ptr + 1)) '?' || Spec.isC (Spec.cAt input (ptr + 1)) '#')) then
        (if Spec.isC (Spec.cAt input (ptr + 1)) '?' then
          .cont ⟨.query, ptr + 1, [], sat, sbr, spw,
            { (pathSegUrlS us sbuf (Spec.isC (Spec.cAt input (ptr + 1)) '/' || (us.isSpecial && Spec.isC (Spec.cAt input (ptr + 1)) '\\'))) with query := some [] }⟩
        else if Spec.isC (Spec.cAt input (ptr + 1)) '#' then
          .cont ⟨.fragment, ptr + 1, [], sat, sbr, spw,
            { (pathSegUrlS us sbuf (Spec.isC (Spec.cAt input (ptr + 1)) '/' || (us.isSpecial && Spec.isC (Spec.cAt input (ptr + 1)) '\\'))) with fragment := some [] }⟩
        else .cont ⟨.path, ptr + 1, [], sat, sbr, spw,
            pathSegUrlS us sbuf (Spec.isC (Spec.cAt input (ptr + 1)) '/' || (us.isSpecial && Spec.isC (Spec.cAt input (ptr + 1)) '\\'))⟩)
      else .cont ⟨.path, ptr + 1, sbuf ++ Spec.utf8PercentEncodeCp Spec.pathSet ((Spec.cAt input (ptr + 1)).getD ' '), sat, sbr, spw, us⟩ := rfl
  rw [hS]
  cases hcc : Spec.cAt input (ptr + 1) with
  | none =>
    rw [step_noneB e input hr _ hcc]
    simp only [body, hG, Bool.true_or, if_true, Option.isNone_none, herr_falseB e hc, ite_self, pathSegG_eq e hc, isC_noneB,
      repl_qmB, repl_hashB, repl_slashB, repl_bslashB, spBackslash, Bool.and_false, Bool.or_false, Bool.false_eq_true, if_false]
    have hseg := pathSegUrl_simB hu hl sbuf false
    exact rstepX_contB (fun _ => ⟨cAt_none_geB xlo hcc, hseg.1⟩) (fun he => by cases he)
  | some ch =>
    have hlt := (cAt_some_ltB hcc).2
    rw [step_someB e input hr _ _ hcc]
    simp only [body, hG, Option.isNone_some, isC_someB, Bool.false_or, herr_falseB e hc, ite_self, pathSegG_eq e hc, spBackslash, hsp,
      Spec.SUrl.isSpecial, ov_isNoneB, Bool.or_assoc]
    have hseg := pathSegUrl_simB hu hl sbuf (ch == '/' || (Spec.isSpecialScheme us.scheme && ch == '\\'))
    split
    · rcases Bool.eq_false_or_eq_true (ch == '?') with hq | hq
      · simp only [hq, if_true]
        refine rstepX_contB (fun he => by cases he) (fun _ => ⟨hlt, ?_, Extra.ofOtherB (by simp only []; omega) (by simp only []; omega) rfl⟩)
        exact RPS.ofQueryB rfl rfl rfl rfl rfl rfl rfl rfl rfl (hseg.1.setQuery'B _ _ rfl) (by simp)
      simp only [hq, Bool.false_eq_true, if_false]
      rcases Bool.eq_false_or_eq_true (ch == '#') with hh | hh
      · simp only [hh, if_true]
        refine rstepX_contB (fun he => by cases he) (fun _ => ⟨hlt, ?_, Extra.ofOtherB (by simp only []; omega) (by simp only []; omega) rfl⟩)
        exact RPS.ofFragmentB rfl rfl rfl rfl rfl rfl rfl (hseg.1.setFragment'B _ _ rfl) (by simp)
      simp only [hh, Bool.false_eq_true, if_false]
      refine rstepX_contB (fun he => by cases he) (fun _ => ⟨hlt, ?_,
        Extra.ofListB (by simp only []; omega) (by simp only []; omega) hseg.2 (by simp) (by simp)⟩)
      exact RPS.ofOrdB rfl rfl rfl rfl rfl rfl rfl rfl hseg.1
    · simp only [unitChecks_defaultB e hc, hc, percentEncodeInvalidRune_B, ite_self, percentEncodeRune_B, pathSet_hasB, Option.getD_some]
      refine rstepX_contB (fun he => by cases he) (fun _ => ⟨hlt, ?_,
        Extra.ofListB (by simp only []; omega) (by simp only []; omega) hl (by simp) (by simp)⟩)
      exact RPS.ofOrdB rfl rfl rfl rfl rfl rfl rfl (utf8_append _ _).symm hu

/-! ## the deliverables in the form of SIM.md -/

/-- the statement of SIM.md for state `S`, verbatim (no `Extra`). As it stands it is false for every state: `RPS` does
    not bound the pointer (see `Extra.lo`, `Extra.hi`); the theorems below prove it under `Extra`. -/
def step_sim_Statement (S : State) : Prop :=
  ∀ (I : Idna) (hI : IdnaLaws I) (hH : HostConforms I) (e : Env) (input : Str) (base : Option Spec.SUrl) (ov : Option Spec.St)
    (hE : REnv e input base ov I) (pi : PS) (ss : Spec.PS) (h : RPS pi ss) (hs : pi.state = S),
    RStep (step e pi) (afterRun input (Spec.run (specIdna I) input base ov ss))

/-- the statement with the missing invariants as a hypothesis -/
def step_simE_Statement (S : State) : Prop :=
  ∀ (I : Idna) (hI : IdnaLaws I) (hH : HostConforms I) (e : Env) (input : Str) (base : Option Spec.SUrl) (ov : Option Spec.St)
    (hE : REnv e input base ov I) (pi : PS) (ss : Spec.PS) (h : RPS pi ss) (hX : Extra input pi ss) (hs : pi.state = S),
    RStep (step e pi) (afterRun input (Spec.run (specIdna I) input base ov ss))

def step_sim_port_Statement : Prop := step_simE_Statement .port
def step_sim_fileHost_Statement : Prop := step_simE_Statement .fileHost

theorem step_sim_host : step_simE_Statement .host :=
  fun I _ hH e input base ov hE pi ss h hX hs => (step_simX_host I hH e input base ov hE pi ss h hX hs).toRStep
theorem step_sim_hostname : step_simE_Statement .hostname :=
  fun I _ hH e input base ov hE pi ss h hX hs => (step_simX_hostname I hH e input base ov hE pi ss h hX hs).toRStep
theorem step_sim_pathStart : step_simE_Statement .pathStart :=
  fun I _ _ e input base ov hE pi ss h hX hs => (step_simX_pathStart I e input base ov hE pi ss h hX hs).toRStep
theorem step_sim_path : step_simE_Statement .path :=
  fun I _ _ e input base ov hE pi ss h hX hs => (step_simX_path I e input base ov hE pi ss h hX hs).toRStep
theorem step_sim_opaquePath : step_simE_Statement .opaquePath :=
  fun I _ _ e input base ov hE pi ss h hX hs => (step_simX_opaquePath I e input base ov hE pi ss h hX hs).toRStep
theorem step_sim_query : step_simE_Statement .query :=
  fun I _ _ e input base ov hE pi ss h hX hs => (step_simX_query I e input base ov hE pi ss h hX hs).toRStep
theorem step_sim_fragment : step_simE_Statement .fragment :=
  fun I _ _ e input base ov hE pi ss h hX hs => (step_simX_fragment I e input base ov hE pi ss h hX hs).toRStep

/-- port state: with the result relation `RResB` (fatal `PortMissing` under an override against the standard's plain return) -/
theorem step_sim_port_B (I : Idna) (hI : IdnaLaws I) (hH : HostConforms I) (e : Env) (input : Str) (base : Option Spec.SUrl)
    (ov : Option Spec.St) (hE : REnv e input base ov I) (pi : PS) (ss : Spec.PS) (h : RPS pi ss) (hX : Extra input pi ss)
    (hs : pi.state = .port) :
    RStepB e.ov.isSome (step e pi) (afterRun input (Spec.run (specIdna I) input base ov ss)) :=
  (step_simX_port I e input base ov hE pi ss h hX hs).toB

/-- port state, without a state override: the statement of SIM.md -/
theorem step_sim_port_partial (I : Idna) (hI : IdnaLaws I) (hH : HostConforms I) (e : Env) (input : Str) (base : Option Spec.SUrl)
    (ov : Option Spec.St) (hE : REnv e input base ov I) (pi : PS) (ss : Spec.PS) (h : RPS pi ss) (hX : Extra input pi ss)
    (hs : pi.state = .port) (hov : e.ov = none) :
    RStep (step e pi) (afterRun input (Spec.run (specIdna I) input base ov ss)) := by
  have := step_simX_port I e input base ov hE pi ss h hX hs
  rw [hov] at this
  exact this.toRStep

/-- file host state: with the result relation `RResB` (`return nil, nil` under an override against the standard's return) -/
theorem step_sim_fileHost_B (I : Idna) (hI : IdnaLaws I) (hH : HostConforms I) (e : Env) (input : Str) (base : Option Spec.SUrl)
    (ov : Option Spec.St) (hE : REnv e input base ov I) (pi : PS) (ss : Spec.PS) (h : RPS pi ss) (hX : Extra input pi ss)
    (hs : pi.state = .fileHost) :
    RStepB e.ov.isSome (step e pi) (afterRun input (Spec.run (specIdna I) input base ov ss)) :=
  (step_simX_fileHost I hH e input base ov hE pi ss h hX hs).toB

/-- file host state, without a state override: the statement of SIM.md -/
theorem step_sim_fileHost_partial (I : Idna) (hI : IdnaLaws I) (hH : HostConforms I) (e : Env) (input : Str) (base : Option Spec.SUrl)
    (ov : Option Spec.St) (hE : REnv e input base ov I) (pi : PS) (ss : Spec.PS) (h : RPS pi ss) (hX : Extra input pi ss)
    (hs : pi.state = .fileHost) (hov : e.ov = none) :
    RStep (step e pi) (afterRun input (Spec.run (specIdna I) input base ov ss)) := by
  have := step_simX_fileHost I hH e input base ov hE pi ss h hX hs
  rw [hov] at this
  exact this.toRStep

/-- the states of this file -/
def stateB : State → Bool
  | .host | .hostname | .port | .fileHost | .pathStart | .path | .opaquePath | .query | .fragment => true
  | _ => false

/-- all nine states at once, with `Extra` carried along: the form the loop induction needs -/
theorem step_simX_B (I : Idna) (hH : HostConforms I) (e : Env) (input : Str) (base : Option Spec.SUrl) (ov : Option Spec.St)
    (hE : REnv e input base ov I) (pi : PS) (ss : Spec.PS) (h : RPS pi ss) (hX : Extra input pi ss) (hs : stateB pi.state = true) :
    RStepX e.ov.isSome input (step e pi) (afterRun input (Spec.run (specIdna I) input base ov ss)) := by
  have mono : ∀ a b, RStepX false input a b → RStepX e.ov.isSome input a b := by
    intro a b hab
    unfold RStepX at hab ⊢
    split
    · simpa using hab
    · exact RRes.toB _ (RResB_falseB.mp (by simpa using hab))
    · simp_all
  cases hst : pi.state <;> rw [hst] at hs <;> first
    | exact step_simX_port I e input base ov hE pi ss h hX hst
    | exact step_simX_fileHost I hH e input base ov hE pi ss h hX hst
    | exact mono _ _ (step_simX_host I hH e input base ov hE pi ss h hX hst)
    | exact mono _ _ (step_simX_hostname I hH e input base ov hE pi ss h hX hst)
    | exact mono _ _ (step_simX_pathStart I e input base ov hE pi ss h hX hst)
    | exact mono _ _ (step_simX_path I e input base ov hE pi ss h hX hst)
    | exact mono _ _ (step_simX_opaquePath I e input base ov hE pi ss h hX hst)
    | exact mono _ _ (step_simX_query I e input base ov hE pi ss h hX hst)
    | exact mono _ _ (step_simX_fragment I e input base ov hE pi ss h hX hst)
    | exact absurd hs (by decide)

/-- `Extra` is preserved by every continuing iteration in these states -/
theorem step_extra_B (I : Idna) (hH : HostConforms I) (e : Env) (input : Str) (base : Option Spec.SUrl) (ov : Option Spec.St)
    (hE : REnv e input base ov I) (pi : PS) (ss : Spec.PS) (h : RPS pi ss) (hX : Extra input pi ss) (hs : stateB pi.state = true)
    (pi' : PS) (ss' : Spec.PS) (h1 : step e pi = .cont pi')
    (h2 : afterRun input (Spec.run (specIdna I) input base ov ss) = .cont ss') : Extra input pi' ss' :=
  (step_simX_B I hH e input base ov hE pi ss h hX hs).extra pi' ss' h1 h2

/-! ## concrete witnesses: non-vacuity of the hypotheses, and the three places where the statement of SIM.md fails -/

private def uHttp : Url := { scheme := [0x68, 0x74, 0x74, 0x70], host := some [0x68] }
private def sHttp : Spec.SUrl := { scheme := "http".toList, host := some ['h'] }
private theorem rHttp : RUrl uHttp sHttp := ⟨by decide, rfl, rfl, by decide, rfl, ⟨rfl, rfl⟩, rfl, rfl⟩

/-- the port setter with the value "x" on `http://h`: a state override, an empty buffer, a non-digit. The hypotheses of the
    lemma hold, the Go code fails with `PortMissing`, the standard returns — `RStep` is false, `RStepB` holds. -/
example (I : Idna) :
    let e : Env := ⟨{}, I, [0x78], ['x'], none, some .port⟩
    let pi : PS := ⟨.port, -1, false, [], false, false, false, uHttp⟩
    let ss : Spec.PS := ⟨.port, 0, [], false, false, false, sHttp⟩
    REnv e ['x'] none (some .port) I ∧ RPS pi ss ∧ Extra ['x'] pi ss ∧
    step e pi = .done ⟨uHttp, .err ⟨.PortMissing, true⟩ false⟩ ∧
    Spec.run (specIdna I) ['x'] none (some .port) ss = .ret sHttp ∧
    ¬ RStep (step e pi) (afterRun ['x'] (Spec.run (specIdna I) ['x'] none (some .port) ss)) := by
  intro e pi ss
  have h1 : step e pi = .done ⟨uHttp, .err ⟨.PortMissing, true⟩ false⟩ := rfl
  have h2 : Spec.run (specIdna I) ['x'] none (some .port) ss = .ret sHttp := rfl
  refine ⟨⟨rfl, rfl, rfl, (by show goRunes [0x78] = _; decide), trivial, rfl⟩, ?_, ?_, h1, h2, ?_⟩
  · exact RPS.ofOrdB rfl rfl rfl rfl rfl rfl rfl rfl rHttp
  · exact Extra.ofPortB (by decide) (by decide) rfl rfl (by intro c hc; cases hc)
  · rw [h1, h2]; intro h; cases h

private def uFile : Url := { scheme := [0x66, 0x69, 0x6c, 0x65], host := some [] }
private def sFile : Spec.SUrl := { scheme := "file".toList, host := some [] }
private theorem rFile : RUrl uFile sFile := ⟨by decide, rfl, rfl, rfl, rfl, ⟨rfl, rfl⟩, rfl, rfl⟩

/-- the host setter with the value "" on `file:///`: the file host state under a state override with an empty buffer at EOF.
    The Go code returns `nil, nil`, the standard returns the url: `RRes` has no case for it, `RResB` has. -/
example (I : Idna) :
    let e : Env := ⟨{}, I, [], [], none, some .host⟩
    let pi : PS := ⟨.fileHost, -1, false, [], false, false, false, uFile⟩
    let ss : Spec.PS := ⟨.fileHost, 0, [], false, false, false, sFile⟩
    REnv e [] none (some .host) I ∧ RPS pi ss ∧ Extra [] pi ss ∧
    step e pi = .done ⟨uFile, .nilNil⟩ ∧
    Spec.run (specIdna I) [] none (some .host) ss = .ret sFile ∧
    ¬ RStep (step e pi) (afterRun [] (Spec.run (specIdna I) [] none (some .host) ss)) := by
  intro e pi ss
  have h1 : step e pi = .done ⟨uFile, .nilNil⟩ := rfl
  have h2 : Spec.run (specIdna I) [] none (some .host) ss = .ret sFile := rfl
  refine ⟨⟨rfl, rfl, rfl, rfl, trivial, rfl⟩, ?_, ?_, h1, h2, ?_⟩
  · exact RPS.ofOrdB rfl rfl rfl rfl rfl rfl rfl rfl rFile
  · exact Extra.ofListB (by decide) (by decide) rfl (by decide) (by decide)
  · rw [h1, h2]; intro h; cases h

/-- `Extra.lo` is needed (every state): `RPS` allows a pointer below -1; the Go cursor is then at "EOF" and the loop ends,
    the standard's driver continues -/
example (I : Idna) :
    let e : Env := ⟨{}, I, [0x78], ['x'], none, none⟩
    let pi : PS := ⟨.fragment, -5, false, [], false, false, false, { uHttp with fragment := some [] }⟩
    let ss : Spec.PS := ⟨.fragment, -4, [], false, false, false, { sHttp with fragment := some [] }⟩
    REnv e ['x'] none none I ∧ RPS pi ss ∧
    ¬ RStep (step e pi) (afterRun ['x'] (Spec.run (specIdna I) ['x'] none none ss)) := by
  intro e pi ss
  have h1 : step e pi = .done ⟨{ uHttp with fragment := some [] }, .url⟩ := rfl
  have h2 : afterRun ['x'] (Spec.run (specIdna I) ['x'] none none ss) = .cont { ss with pointer := -3 } := rfl
  refine ⟨⟨rfl, rfl, rfl, (by show goRunes [0x78] = _; decide), trivial, rfl⟩, ?_, ?_⟩
  · exact RPS.ofFragmentB rfl rfl rfl rfl rfl rfl rfl (rHttp.setFragment'B _ _ rfl) (by simp)
  · rw [h1, h2]; intro h; exact h

/-- `Extra.portBuf` is needed: `RPS` allows a non-ASCII buffer in the port state, and `digitsVal` on the bytes of "1é" is 100
    where `strVal` on its code points is 10 -/
example : digitsVal 10 (utf8 ['1', 'é']) = 100 ∧ Spec.strVal 10 ['1', 'é'] = 10 := by decide

/-- `Extra.listPath` is needed: `RPath` allows an opaque path in the path state, where `addSegment` (Go) and "append to
    url's path" (standard) differ -/
example :
    RPath ⟨[[0x61]], true⟩ (.opaque ['a']) ∧
    (Path.addSegment ⟨[[0x61]], true⟩ [0x62] = ⟨[[0x61], [0x62]], false⟩) ∧
    (Spec.pathAppend { path := .opaque ['a'] } ['b']).path = .opaque ['a', 'b'] ∧
    ¬ RPath ⟨[[0x61], [0x62]], false⟩ (.opaque ['a', 'b']) := by
  refine ⟨⟨rfl, rfl⟩, rfl, rfl, ?_⟩
  intro h; cases h.1

/-- `Extra.psBuf` is needed: with a non-empty buffer in the path start state the query state would start with it (the Go
    buffer is then not the encoding of the standard's) -/
example : utf8 [' '] ≠ utf8 (Spec.utf8PercentEncode Spec.querySet [' ']) := by decide

/-- non-vacuity of the hypotheses in the remaining states: a pair of related states for the input `http://h/a b?c#d` -/
example (I : Idna) :
    let input := "http://h/a b?c#d".toList
    let e : Env := ⟨{}, I, utf8 input, input, none, none⟩
    REnv e input none none I ∧
    (RPS ⟨.host, 6, false, [], false, false, false, { scheme := [0x68, 0x74, 0x74, 0x70] }⟩
        ⟨.host, 7, [], false, false, false, { scheme := "http".toList }⟩ ∧
      Extra input ⟨.host, 6, false, [], false, false, false, { scheme := [0x68, 0x74, 0x74, 0x70] }⟩
        ⟨.host, 7, [], false, false, false, { scheme := "http".toList }⟩) ∧
    (RPS ⟨.pathStart, 7, false, [], false, false, false, uHttp⟩ ⟨.pathStart, 8, [], false, false, false, sHttp⟩ ∧
      Extra input ⟨.pathStart, 7, false, [], false, false, false, uHttp⟩ ⟨.pathStart, 8, [], false, false, false, sHttp⟩) ∧
    (RPS ⟨.path, 10, false, [0x61, 0x25, 0x32, 0x30], false, false, false, uHttp⟩
        ⟨.path, 11, "a%20".toList, false, false, false, sHttp⟩ ∧
      Extra input ⟨.path, 10, false, [0x61, 0x25, 0x32, 0x30], false, false, false, uHttp⟩
        ⟨.path, 11, "a%20".toList, false, false, false, sHttp⟩) ∧
    RPS ⟨.query, 12, false, [], false, false, false, { uHttp with path := ⟨[[0x61, 0x25, 0x32, 0x30, 0x62]], false⟩, query := some [] }⟩
        ⟨.query, 13, [], false, false, false, { sHttp with path := .list ["a%20b".toList], query := some [] }⟩ ∧
    RPS ⟨.fragment, 14, false, [], false, false, false,
          { uHttp with path := ⟨[[0x61, 0x25, 0x32, 0x30, 0x62]], false⟩, query := some [0x63], fragment := some [] }⟩
        ⟨.fragment, 15, [], false, false, false,
          { sHttp with path := .list ["a%20b".toList], query := some ['c'], fragment := some [] }⟩ := by
  intro input e
  refine ⟨⟨rfl, rfl, rfl, Utf8.goRunes_utf8 _, trivial, rfl⟩, ⟨?_, ?_⟩, ⟨?_, ?_⟩, ⟨?_, ?_⟩, ?_, ?_⟩
  · exact RPS.ofOrdB rfl rfl rfl rfl rfl rfl rfl rfl ⟨by decide, rfl, rfl, rfl, rfl, ⟨rfl, rfl⟩, rfl, rfl⟩
  · exact Extra.ofListB (by decide) (by decide) rfl (by decide) (by decide)
  · exact RPS.ofOrdB rfl rfl rfl rfl rfl rfl rfl rfl rHttp
  · exact Extra.ofPathStartB (by decide) (by decide) rfl rfl rfl
  · exact RPS.ofOrdB rfl rfl rfl rfl rfl rfl rfl (by decide) rHttp
  · exact Extra.ofListB (by decide) (by decide) rfl (by decide) (by decide)
  · exact RPS.ofQueryB rfl rfl rfl rfl rfl rfl rfl rfl rfl
      ⟨by decide, rfl, rfl, by decide, rfl, ⟨rfl, by decide⟩, rfl, rfl⟩ (by simp)
  · exact RPS.ofFragmentB rfl rfl rfl rfl rfl rfl rfl
      ⟨by decide, rfl, rfl, by decide, rfl, ⟨rfl, by decide⟩, by decide, rfl⟩ (by simp)

/-- an opaque-path state: `mailto:a` after the `a` -/
example : RPS ⟨.opaquePath, 7, false, [0x61], false, false, false, { scheme := [0x6d], path := ⟨[[0x61]], true⟩ }⟩
    ⟨.opaquePath, 8, [], false, false, false, { scheme := ['m'], path := .opaque ['a'] }⟩ :=
  RPS.ofOpaqueB rfl rfl rfl rfl rfl rfl rfl rfl ⟨by decide, rfl, rfl, rfl, rfl, ⟨rfl, by decide⟩, rfl, rfl⟩ rfl

end WhatwgUrl.Proofs.Sim
