import WhatwgUrl.Proofs.ReportingU
import WhatwgUrl.Proofs.ReportingF
/-
  C15, part 4 (fail mode is exact): `c1` has `failOnVErr = true`, `c2` is the same configuration with the other value of
  the switch, and reporting is ON in both.  Lock-step as in `ReportingF`, with a stronger second alternative:
  either both runs agree, or the fail-mode run returned an error AND the recorded list of the other run is non-empty
  from then on ("dirty"), so that it cannot end in success with an empty list.
-/
namespace WhatwgUrl.Proofs.Reporting
set_option linter.unusedSimpArgs false
set_option linter.unusedVariables false
set_option linter.unusedSectionVars false
open WhatwgUrl WhatwgUrl.Impl

/-- something has been recorded -/
def Dirty (v : List VErr) : Prop := v ≠ []

theorem uhDirty (c : Cfg) : UH c Dirty := ⟨fun _ v t _ => by simp [Dirty]⟩

theorem dirty_record (c : Cfg) (hr : c.report = true) (u : Url) (t : ErrT) (f : Bool) : Dirty (record c u t f).verrs := by
  simp [record, hr, Dirty]

section
variable {c1 c2 : Cfg} (F : FH c1 c2) (hr : c2.report = true)
include F hr

def HRelX (c2 : Cfg) (hr1 hr2 : HR) : Prop := hr1 = hr2 ∨ ((∃ e, hr1.out = .err e) ∧ GoodH c2 Dirty hr2)
def RelX (c2 : Cfg) (r1 r2 : StepR) : Prop := r1 = r2 ∨ (isErrS r1 ∧ Good c2 Dirty r2)
def RelXR (c2 : Cfg) (x1 x2 : Res) : Prop := x1 = x2 ∨ ((∃ e w, x1.ret = .err e w) ∧ GoodR c2 Dirty x2)

/-! ### host level -/

omit F in
theorem GoodH_hErr_dirty (u : Url) (t : ErrT) (f : Bool) (k : Url → HR)
    (hk : ∀ u', Dirty u'.verrs → GoodH c2 Dirty (k u')) : GoodH c2 Dirty (hErr c2 u t f k) := by
  unfold hErr
  split
  · rename_i hs
    exact GoodH_err _ _ (fun hfo => stops_fo f hs hfo)
  · exact hk _ (dirty_record c2 hr _ _ _)

theorem hErr_X (u : Url) (t : ErrT) (f : Bool) (k1 k2 : Url → HR)
    (hk : ∀ u', Dirty u'.verrs → GoodH c2 Dirty (k2 u')) : HRelX c2 (hErr c1 u t f k1) (hErr c2 u t f k2) := by
  refine Or.inr ⟨?_, GoodH_hErr_dirty hr u t f k2 hk⟩
  unfold hErr
  rw [F.stops]
  exact ⟨_, rfl⟩

def PartsGood (c : Cfg) (r : NumsR) : Prop :=
  (r.err = none → Dirty r.url.verrs) ∧ (c.failOnVErr = false → ∀ e, r.err = some e → e.failure = true)

theorem parseIPv4Parts_X (parts : List Bytes) : ∀ (u : Url) (acc : List Nat),
    parseIPv4Parts c1 u parts acc = parseIPv4Parts c2 u parts acc ∨
      ((∃ e, (parseIPv4Parts c1 u parts acc).err = some e) ∧ PartsGood c2 (parseIPv4Parts c2 u parts acc)) := by
  induction parts with
  | nil => intro u acc; exact Or.inl rfl
  | cons p rest ih =>
    intro u acc
    by_cases hne : ((parseIPv4Number c2 u p).err != .none) = true
    · left
      simp only [parseIPv4Parts, parseIPv4Number_F F, F.rcd, if_pos hne]
    · by_cases hve : (parseIPv4Number c2 u p).ve = true
      · right
        constructor
        · simp only [parseIPv4Parts, parseIPv4Number_F F, F.rcd, F.stops, if_neg hne, hve, Bool.and_self, if_true]
          exact ⟨_, rfl⟩
        · unfold parseIPv4Parts
          simp only [if_neg hne, hve, Bool.true_and, if_true]
          split
          · rename_i hs
            refine ⟨by simp, ?_⟩
            intro hfo
            simp [stops, hfo] at hs
          · exact parseIPv4Parts_U (uhDirty c2) rest _ _ (dirty_record c2 hr _ _ _)
      · have hve' : (parseIPv4Number c2 u p).ve = false := by simpa using hve
        have h := ih (parseIPv4Number c2 u p).url (acc ++ [(parseIPv4Number c2 u p).n])
        simp only [parseIPv4Parts, parseIPv4Number_F F, F.rcd, F.stops, if_neg hne, hve', Bool.false_and,
          Bool.false_eq_true, if_false]
        exact h

def WarnGood (c : Cfg) (w : Url × Bool) : Prop :=
  (w.2 = false → Dirty w.1.verrs) ∧ (c.failOnVErr = false → w.2 = false)

theorem ipv4RangeWarn_X (ns : List Nat) : ∀ (u : Url),
    ipv4RangeWarn c1 u ns = ipv4RangeWarn c2 u ns ∨
      ((ipv4RangeWarn c1 u ns).2 = true ∧ WarnGood c2 (ipv4RangeWarn c2 u ns)) := by
  induction ns with
  | nil => intro u; exact Or.inl rfl
  | cons n rest ih =>
    intro u
    by_cases hn : n > 255
    · right
      constructor
      · simp only [ipv4RangeWarn, F.stops, if_pos hn, if_true]
      · unfold ipv4RangeWarn
        simp only [if_pos hn]
        split
        · rename_i hs
          refine ⟨by simp, ?_⟩
          intro hfo
          simp [stops, hfo] at hs
        · exact ipv4RangeWarn_U (uhDirty c2) rest _ (dirty_record c2 hr _ _ _)
    · simp only [ipv4RangeWarn, if_neg hn]
      exact ih u

omit F hr in
/-- the tail of `ipv4AfterCount` once the numbers are parsed, from what is known about the range warnings -/
theorem afterWarn_good (c : Cfg) (pr : NumsR) (w : Url × Bool) (hw : WarnGood c w) :
    GoodH c Dirty
      (if w.2 = true then ⟨w.1, .err ⟨.IPv4OutOfRangePart, false⟩⟩
       else if (pr.nums.dropLast.any (· > 255)) = true then
         ⟨record c w.1 .IPv4OutOfRangePart true, .err ⟨.IPv4OutOfRangePart, true⟩⟩
       else match pr.nums.getLast? with
         | none => ⟨w.1, .panic 1⟩
         | some last =>
           if last ≥ 256 ^ (5 - pr.nums.length) then
             ⟨record c w.1 .IPv4OutOfRangePart true, .err ⟨.IPv4OutOfRangePart, true⟩⟩
           else
             ⟨w.1, .ok (ipv4String (((List.range pr.nums.dropLast.length).foldl
                (fun acc i => acc + pr.nums.dropLast[i]! * 256 ^ (3 - i)) last) % 2 ^ 32))⟩) := by
  unfold WarnGood at hw
  repeat' split
  all_goals simp_all [GoodH]

omit F hr in
theorem ipv4AfterCount_good (c : Cfg) (parts : List Bytes) (u : Url)
    (hp : PartsGood c (parseIPv4Parts c u parts [])) : GoodH c Dirty (ipv4AfterCount c parts u) := by
  unfold ipv4AfterCount
  dsimp only
  unfold PartsGood at hp
  generalize parseIPv4Parts c u parts [] = pr at hp ⊢
  have hw := ipv4RangeWarn_U (c := c) (uhDirty c) pr.nums pr.url
  generalize ipv4RangeWarn c pr.url pr.nums = w at hw ⊢
  repeat' split
  all_goals simp_all [GoodH]

theorem ipv4AfterCount_X (parts : List Bytes) (u : Url) :
    HRelX c2 (ipv4AfterCount c1 parts u) (ipv4AfterCount c2 parts u) := by
  rcases parseIPv4Parts_X F hr parts u [] with heq | ⟨⟨e, he⟩, hg⟩
  · rcases hpe : (parseIPv4Parts c2 u parts []).err with _ | e
    · rcases ipv4RangeWarn_X F hr (parseIPv4Parts c2 u parts []).nums (parseIPv4Parts c2 u parts []).url with hw | ⟨hw1, hw2⟩
      · left
        simp only [ipv4AfterCount, heq, hw, F.rcd]
      · right
        constructor
        · simp only [ipv4AfterCount, heq, hpe, hw1, if_true]
          exact ⟨_, rfl⟩
        · simp only [ipv4AfterCount, hpe]
          exact afterWarn_good c2 _ _ hw2
    · left
      simp only [ipv4AfterCount, heq, hpe]
  · right
    constructor
    · simp only [ipv4AfterCount, he]
      exact ⟨_, rfl⟩
    · exact ipv4AfterCount_good c2 parts u hg

theorem parseIPv4_X (u : Url) (i : Bytes) : HRelX c2 (parseIPv4 c1 u i) (parseIPv4 c2 u i) := by
  rw [parseIPv4_eq, parseIPv4_eq]
  dsimp only
  repeat' first
    | apply ipv4AfterCount_X F hr
    | (apply hErr_X F hr; intro u' hu')
    | (apply R_ite <;> intro _)
  all_goals repeat' first
    | exact ipv4AfterCount_U (uhDirty c2) _ _ ‹_›
    | (apply GoodH_hErr (uhDirty c2) _ _ _ _ ‹_›; intro _ _)
    | (apply P_ite <;> intro _)

theorem opaqueLoop_X (i : Bytes) (rs : Str) : ∀ (u : Url) (out : Bytes),
    HRelX c2 (opaqueLoop c1 i rs u out) (opaqueLoop c2 i rs u out) := by
  induction rs with
  | nil => intro u out; exact Or.inl rfl
  | cons ch rest ih =>
    intro u out
    by_cases hf : forbiddenHost ch.toNat = true
    · left
      simp only [opaqueLoop, F.rcd, F.rel.laxHost, if_pos hf]
    · by_cases h1 : (!isUrlCp ch.toNat && ch != '%') = true
      · right
        constructor
        · simp only [opaqueLoop, F.stops, if_neg hf, h1, Bool.true_and, if_true]
          exact ⟨_, rfl⟩
        · unfold opaqueLoop
          simp only [if_neg hf, h1, Bool.true_and, if_true]
          split
          · rename_i hs
            exact GoodH_err _ _ (fun hfo => by simp [stops, hfo] at hs)
          · split
            · rename_i hs
              exact GoodH_err _ _ (fun hfo => by simp [stops, hfo] at hs)
            · apply opaqueLoop_U (uhDirty c2)
              split
              · exact dirty_record c2 hr _ _ _
              · exact dirty_record c2 hr _ _ _
      · have h1' : (!isUrlCp ch.toNat && ch != '%') = false := by simpa using h1
        by_cases h2 : (ch == '%' && invalidPct (ch :: rest)) = true
        · right
          constructor
          · simp only [opaqueLoop, F.stops, if_neg hf, h1', h2, Bool.false_and, Bool.true_and, Bool.false_eq_true,
              if_false, if_true]
            exact ⟨_, rfl⟩
          · unfold opaqueLoop
            simp only [if_neg hf, h1', h2, Bool.false_and, Bool.true_and, Bool.false_eq_true, if_false, if_true]
            split
            · rename_i hs
              exact GoodH_err _ _ (fun hfo => by simp [stops, hfo] at hs)
            · exact opaqueLoop_U (uhDirty c2) _ _ _ _ (dirty_record c2 hr _ _ _)
        · have h2' : (ch == '%' && invalidPct (ch :: rest)) = false := by simpa using h2
          have h := ih u (out ++ percentEncodeRune c2 c0Set ch)
          simp only [opaqueLoop, F.rel.percentEncodeRune, if_neg hf, h1', h2', Bool.false_and, Bool.false_eq_true, if_false]
          exact h

theorem parseHost_X (I : Idna) (u : Url) (i : Bytes) (ns : Bool) :
    HRelX c2 (parseHost c1 I u i ns) (parseHost c2 I u i ns) := by
  unfold parseHost
  simp only [F.rel.preHost, F.rel.postHost, F.rel.laxHost, F.rel.decodePercent, fail6_F F, parseIPv6_F F, toASCII_F F,
    forbiddenLoop_F F, endsInANumber_F F]
  repeat' split
  all_goals first
    | exact Or.inl rfl
    | exact opaqueLoop_X F hr _ _ _ _
    | exact parseIPv4_X F hr _ _
    | (exfalso; simp_all; done)

/-! ### parser level -/

omit F in
theorem Good_herr_dirty (I1 : Idna) (s1 : Bytes) (r1 : Str) (b1 : Option Url) (o1 : Option State)
    (ps : PS) (t : ErrT) (f : Bool) (k : PS → StepR)
    (hk : ∀ u, Dirty u.verrs → Good c2 Dirty (k { ps with url := u })) :
    Good c2 Dirty (herr ⟨c2, I1, s1, r1, b1, o1⟩ ps t f k) := by
  unfold herr
  dsimp only
  split
  · rename_i hs
    exact Good_done _ (GoodR_err _ _ _ (fun hfo => stops_fo f hs hfo))
  · exact hk _ (dirty_record c2 hr _ _ _)

theorem RelX_herr (I1 I2 : Idna) (s1 s2 : Bytes) (r1 r2 : Str) (b1 b2 : Option Url) (o1 o2 : Option State)
    (ps1 ps2 : PS) (t1 t2 : ErrT) (f1 f2 : Bool) (k1 k2 : PS → StepR)
    (hk : ∀ u, Dirty u.verrs → Good c2 Dirty (k2 { ps2 with url := u })) :
    RelX c2 (herr ⟨c1, I1, s1, r1, b1, o1⟩ ps1 t1 f1 k1) (herr ⟨c2, I2, s2, r2, b2, o2⟩ ps2 t2 f2 k2) := by
  refine Or.inr ⟨?_, Good_herr_dirty hr _ _ _ _ _ _ _ _ _ hk⟩
  unfold herr
  dsimp only
  rw [F.stops, if_pos rfl]
  exact ⟨_, _, _, rfl, rfl⟩

omit F hr in
theorem RelX_afterHost (hr1 hr2 : HR) (ps : PS) (k1 k2 : PS → Bytes → StepR) (hhr : HRelX c2 hr1 hr2)
    (hk : ∀ u h, RelX c2 (k1 { ps with url := u } h) (k2 { ps with url := u } h))
    (hk2 : ∀ u h, Dirty u.verrs → Good c2 Dirty (k2 { ps with url := u } h)) :
    RelX c2 (afterHost hr1 ps k1) (afterHost hr2 ps k2) := by
  rcases hhr with rfl | ⟨⟨e, he⟩, hg⟩
  · unfold afterHost
    rcases hr1 with ⟨u, o⟩
    cases o with
    | ok h => exact hk u h
    | err e => exact Or.inl rfl
    | panic n => exact Or.inl rfl
  · refine Or.inr ⟨?_, Good_afterHost _ _ _ hg hk2⟩
    unfold afterHost
    rw [he]
    exact ⟨_, _, _, rfl, rfl⟩

end

macro "x_step" F:term:max hr:term:max : tactic => `(tactic| first
  | exact Or.inl (by with_reducible rfl)
  | (apply RelX_herr $F $hr; intro _ _; repeat' u_step (uhDirty _))
  | (refine RelX_afterHost _ _ _ _ _ (parseHost_X $F $hr _ _ _ _) ?_
      (by intro _ _ _; repeat' u_step (uhDirty _)); intro _ _)
  | (apply R_ite <;> intro _)
  | (refine Or.inl (congrArg StepR.cont ?_); rfl)
  | (refine Or.inl (congrArg StepR.done ?_); rfl)
  | dsimp only
  | split)

section
variable {c1 c2 : Cfg} (F : FH c1 c2) (hr : c2.report = true) (I : Idna) (src : Bytes) (rs : Str) (base : Option Url)
  (ov : Option State)
include F hr

theorem stSchemeStart_X (ps : PS) (r : Char) :
    RelX c2 (stSchemeStart ⟨c1, I, src, rs, base, ov⟩ ps r) (stSchemeStart ⟨c2, I, src, rs, base, ov⟩ ps r) := by
  unfold stSchemeStart
  f_norm F
  repeat' x_step F hr

theorem stScheme_X (ps : PS) (r : Char) :
    RelX c2 (stScheme ⟨c1, I, src, rs, base, ov⟩ ps r) (stScheme ⟨c2, I, src, rs, base, ov⟩ ps r) := by
  unfold stScheme
  f_norm F
  repeat' x_step F hr

theorem stNoScheme_X (ps : PS) (r : Char) :
    RelX c2 (stNoScheme ⟨c1, I, src, rs, base, ov⟩ ps r) (stNoScheme ⟨c2, I, src, rs, base, ov⟩ ps r) := by
  unfold stNoScheme
  f_norm F
  repeat' x_step F hr

theorem stSpecialRelativeOrAuthority_X (ps : PS) (r : Char) :
    RelX c2 (stSpecialRelativeOrAuthority ⟨c1, I, src, rs, base, ov⟩ ps r) (stSpecialRelativeOrAuthority ⟨c2, I, src, rs, base, ov⟩ ps r) := by
  unfold stSpecialRelativeOrAuthority
  f_norm F
  repeat' x_step F hr

theorem stPathOrAuthority_X (ps : PS) (r : Char) :
    RelX c2 (stPathOrAuthority ⟨c1, I, src, rs, base, ov⟩ ps r) (stPathOrAuthority ⟨c2, I, src, rs, base, ov⟩ ps r) := by
  unfold stPathOrAuthority
  f_norm F
  repeat' x_step F hr

theorem stRelative_X (ps : PS) (r : Char) :
    RelX c2 (stRelative ⟨c1, I, src, rs, base, ov⟩ ps r) (stRelative ⟨c2, I, src, rs, base, ov⟩ ps r) := by
  unfold stRelative
  f_norm F
  repeat' x_step F hr

theorem stRelativeSlash_X (ps : PS) (r : Char) :
    RelX c2 (stRelativeSlash ⟨c1, I, src, rs, base, ov⟩ ps r) (stRelativeSlash ⟨c2, I, src, rs, base, ov⟩ ps r) := by
  unfold stRelativeSlash
  f_norm F
  repeat' x_step F hr

theorem stSpecialAuthoritySlashes_X (ps : PS) (r : Char) :
    RelX c2 (stSpecialAuthoritySlashes ⟨c1, I, src, rs, base, ov⟩ ps r) (stSpecialAuthoritySlashes ⟨c2, I, src, rs, base, ov⟩ ps r) := by
  unfold stSpecialAuthoritySlashes
  f_norm F
  repeat' x_step F hr

theorem stSpecialAuthorityIgnoreSlashes_X (ps : PS) (r : Char) :
    RelX c2 (stSpecialAuthorityIgnoreSlashes ⟨c1, I, src, rs, base, ov⟩ ps r) (stSpecialAuthorityIgnoreSlashes ⟨c2, I, src, rs, base, ov⟩ ps r) := by
  unfold stSpecialAuthorityIgnoreSlashes
  f_norm F
  repeat' x_step F hr

theorem stAuthority_X (ps : PS) (r : Char) :
    RelX c2 (stAuthority ⟨c1, I, src, rs, base, ov⟩ ps r) (stAuthority ⟨c2, I, src, rs, base, ov⟩ ps r) := by
  unfold stAuthority
  f_norm F
  repeat' x_step F hr

theorem stHost_X (ps : PS) (r : Char) :
    RelX c2 (stHost ⟨c1, I, src, rs, base, ov⟩ ps r) (stHost ⟨c2, I, src, rs, base, ov⟩ ps r) := by
  unfold stHost
  f_norm F
  repeat' x_step F hr

theorem stPort_X (ps : PS) (r : Char) :
    RelX c2 (stPort ⟨c1, I, src, rs, base, ov⟩ ps r) (stPort ⟨c2, I, src, rs, base, ov⟩ ps r) := by
  unfold stPort
  f_norm F
  repeat' x_step F hr

theorem stFile_X (ps : PS) (r : Char) :
    RelX c2 (stFile ⟨c1, I, src, rs, base, ov⟩ ps r) (stFile ⟨c2, I, src, rs, base, ov⟩ ps r) := by
  unfold stFile
  f_norm F
  repeat' x_step F hr

theorem stFileSlash_X (ps : PS) (r : Char) :
    RelX c2 (stFileSlash ⟨c1, I, src, rs, base, ov⟩ ps r) (stFileSlash ⟨c2, I, src, rs, base, ov⟩ ps r) := by
  unfold stFileSlash
  f_norm F
  repeat' x_step F hr

theorem stFileHost_X (ps : PS) (r : Char) :
    RelX c2 (stFileHost ⟨c1, I, src, rs, base, ov⟩ ps r) (stFileHost ⟨c2, I, src, rs, base, ov⟩ ps r) := by
  unfold stFileHost
  f_norm F
  repeat' x_step F hr

theorem stPathStart_X (ps : PS) (r : Char) :
    RelX c2 (stPathStart ⟨c1, I, src, rs, base, ov⟩ ps r) (stPathStart ⟨c2, I, src, rs, base, ov⟩ ps r) := by
  unfold stPathStart
  f_norm F
  repeat' x_step F hr

theorem stPath_X (ps : PS) (r : Char) :
    RelX c2 (stPath ⟨c1, I, src, rs, base, ov⟩ ps r) (stPath ⟨c2, I, src, rs, base, ov⟩ ps r) := by
  rw [stPath_eq, stPath_eq]
  unfold stPath'
  f_norm F
  repeat' x_step F hr

theorem stOpaquePath_X (ps : PS) (r : Char) :
    RelX c2 (stOpaquePath ⟨c1, I, src, rs, base, ov⟩ ps r) (stOpaquePath ⟨c2, I, src, rs, base, ov⟩ ps r) := by
  unfold stOpaquePath
  f_norm F
  repeat' x_step F hr

theorem stQuery_X (ps : PS) (r : Char) :
    RelX c2 (stQuery ⟨c1, I, src, rs, base, ov⟩ ps r) (stQuery ⟨c2, I, src, rs, base, ov⟩ ps r) := by
  unfold stQuery
  f_norm F
  repeat' x_step F hr

theorem stFragment_X (ps : PS) (r : Char) :
    RelX c2 (stFragment ⟨c1, I, src, rs, base, ov⟩ ps r) (stFragment ⟨c2, I, src, rs, base, ov⟩ ps r) := by
  unfold stFragment
  f_norm F
  repeat' x_step F hr

theorem body_X (ps : PS) (r : Char) :
    RelX c2 (body ⟨c1, I, src, rs, base, ov⟩ ps r) (body ⟨c2, I, src, rs, base, ov⟩ ps r) := by
  unfold body
  generalize hs : ps.state = s
  cases s <;> dsimp only <;> first
    | exact stSchemeStart_X F hr I src rs base ov ps r
    | exact stScheme_X F hr I src rs base ov ps r
    | exact stNoScheme_X F hr I src rs base ov ps r
    | exact stOpaquePath_X F hr I src rs base ov ps r
    | exact stSpecialRelativeOrAuthority_X F hr I src rs base ov ps r
    | exact stSpecialAuthoritySlashes_X F hr I src rs base ov ps r
    | exact stSpecialAuthorityIgnoreSlashes_X F hr I src rs base ov ps r
    | exact stPathOrAuthority_X F hr I src rs base ov ps r
    | exact stAuthority_X F hr I src rs base ov ps r
    | exact stHost_X F hr I src rs base ov ps r
    | exact stFile_X F hr I src rs base ov ps r
    | exact stFileHost_X F hr I src rs base ov ps r
    | exact stFileSlash_X F hr I src rs base ov ps r
    | exact stPort_X F hr I src rs base ov ps r
    | exact stPath_X F hr I src rs base ov ps r
    | exact stPathStart_X F hr I src rs base ov ps r
    | exact stQuery_X F hr I src rs base ov ps r
    | exact stFragment_X F hr I src rs base ov ps r
    | exact stRelative_X F hr I src rs base ov ps r
    | exact stRelativeSlash_X F hr I src rs base ov ps r

omit F hr in
theorem Good_bottom (s : StepR) (h : Good c2 Dirty s) : Good c2 Dirty (bottom s) := by
  cases s with
  | done x => exact h
  | cont p =>
    simp only [bottom]
    apply P_ite <;> intro _
    · exact Good_done _ (GoodR_url _ (h.1 p rfl))
    · exact h

theorem step_X (ps : PS) : RelX c2 (step ⟨c1, I, src, rs, base, ov⟩ ps) (step ⟨c2, I, src, rs, base, ov⟩ ps) := by
  unfold step
  dsimp only
  rcases body_X F hr I src rs base ov (next rs ps).1 (next rs ps).2 with heq | ⟨⟨x, e, w, hx, he⟩, hg⟩
  · rw [heq]; exact Or.inl rfl
  · right
    constructor
    · rw [hx]; exact ⟨x, e, w, rfl, he⟩
    · exact Good_bottom _ hg

theorem loop_X (fuel : Nat) : ∀ ps : PS,
    RelXR c2 (loop ⟨c1, I, src, rs, base, ov⟩ fuel ps) (loop ⟨c2, I, src, rs, base, ov⟩ fuel ps) := by
  induction fuel with
  | zero => intro ps; exact Or.inl rfl
  | succ n ih =>
    intro ps
    unfold loop
    rcases step_X F hr I src rs base ov ps with heq | ⟨⟨x, e, w, hx, he⟩, hg⟩
    · rw [heq]
      generalize step ⟨c2, I, src, rs, base, ov⟩ ps = s
      cases s with
      | cont p => exact ih p
      | done x => exact Or.inl rfl
    · right
      constructor
      · rw [hx]; exact ⟨e, w, he⟩
      · generalize step ⟨c2, I, src, rs, base, ov⟩ ps = s at hg
        cases s with
        | cont p => exact loop_U (uhDirty c2) I src rs base ov n p (hg.1 p rfl)
        | done x => exact hg.2 x rfl

theorem basicParser_X (input : Bytes) (url : Option Url) :
    RelXR c2 (basicParser c1 I input base url ov) (basicParser c2 I input base url ov) := by
  by_cases h1 : (url.isNone && (trim c0OrSpaceSet input).2) = true
  · right
    constructor
    · simp only [basicParser, F.stops, Bool.and_true, if_pos h1]
      exact ⟨_, _, rfl⟩
    · unfold basicParser
      simp only [h1, Bool.true_and, if_true]
      apply P_ite <;> intro hs
      · exact GoodR_err _ _ _ (fun hfo => by simp [stops, hfo] at hs)
      · apply P_ite <;> intro hs2
        · exact GoodR_err _ _ _ (fun hfo => by simp [stops, hfo] at hs2)
        · apply loop_U (uhDirty c2)
          dsimp only
          repeat' split
          all_goals exact dirty_record c2 hr _ _ _
  · have h1' : (url.isNone && (trim c0OrSpaceSet input).2) = false := by simpa using h1
    by_cases h2 : (removeTabNl (if url.isNone = true then (trim c0OrSpaceSet input).1 else input)).2 = true
    · right
      constructor
      · simp only [basicParser, F.stops, Bool.and_true, h1', Bool.false_and, Bool.false_eq_true, if_false, if_pos h2]
        exact ⟨_, _, rfl⟩
      · unfold basicParser
        simp only [h1', h2, Bool.false_and, Bool.true_and, Bool.false_eq_true, if_false, if_true]
        apply P_ite <;> intro hs
        · exact GoodR_err _ _ _ (fun hfo => by simp [stops, hfo] at hs)
        · exact loop_U (uhDirty c2) I _ _ base ov _ _ (dirty_record c2 hr _ _ _)
    · have h2' : (removeTabNl (if url.isNone = true then (trim c0OrSpaceSet input).1 else input)).2 = false := by
        simpa using h2
      simp only [basicParser, h1', h2', Bool.false_and, Bool.false_eq_true, if_false]
      exact loop_X F hr I _ _ base ov _ _

end

end WhatwgUrl.Proofs.Reporting
