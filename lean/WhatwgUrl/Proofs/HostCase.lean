import WhatwgUrl.Proofs.Domain
import WhatwgUrl.Proofs.NeutralUtf8
/-
  Helper lemmas for C09d: the special-scheme branch of `parseHost` under the oracle laws
  `L5` (the IDNA library is ASCII-case-insensitive) and `L6` (its output has no upper-case ASCII letter).

  * bytes with the same `lowerB` are both ASCII or equal; `decode1`, `goDecode`, `validUtf8`, the `xn--` automaton
    `asciiOrMiscNoPuny` see a byte string only up to `asciiLower`;
  * `decodePercent` commutes with ASCII case up to `asciiLower`;
  * `parseHost` in strict mode as a function of `validUtf8 d` and the ToASCII outcome `toAsciiOut cfg I d`
    (`d` the percent-decoded input), up to the ghost field `qlog`.
  Core Lean only.
-/
namespace WhatwgUrl.Proofs.HostCase
open WhatwgUrl WhatwgUrl.Impl WhatwgUrl.Proofs.IPv4 WhatwgUrl.Proofs.Domain

/-- L5: the library is ASCII-case-insensitive (output AND error flag) -/
def L5 (I : Idna) : Prop := ∀ s t : Bytes, asciiLower s = asciiLower t → I s = I t
/-- L6: the output of the library has no upper-case ASCII letter -/
def L6 (I : Idna) : Prop := ∀ s : Bytes, ∀ x ∈ (I s).1, ¬ (0x41 ≤ x.toNat ∧ x.toNat ≤ 0x5a)

/-! ### bytes -/

theorem lowerB_high : ∀ x : UInt8, 0x80 ≤ x.toNat → lowerB x = x := forall_uint8 (by decide +kernel)

theorem lowerB_eq_high {x y : UInt8} (h : lowerB x = lowerB y) (hx : 0x80 ≤ x.toNat) : x = y := by
  have hy : 0x80 ≤ y.toNat := by
    have h1 : ((lowerB x).toNat < 0x80) = (x.toNat < 0x80) := lowerB_ascii x
    have h2 : ((lowerB y).toNat < 0x80) = (y.toNat < 0x80) := lowerB_ascii y
    rw [h] at h1
    have : (y.toNat < 0x80) = (x.toNat < 0x80) := by rw [← h2, h1]
    by_cases hy : y.toNat < 0x80
    · have := this ▸ hy; omega
    · omega
  rw [← lowerB_high x hx, ← lowerB_high y hy]; exact h

theorem lowerB_eq_cases {x y : UInt8} (h : lowerB x = lowerB y) :
    (x.toNat < 0x80 ∧ y.toNat < 0x80) ∨ x = y := by
  by_cases hx : x.toNat < 0x80
  · by_cases hy : y.toNat < 0x80
    · exact Or.inl ⟨hx, hy⟩
    · exact Or.inr (lowerB_eq_high h.symm (by omega)).symm
  · exact Or.inr (lowerB_eq_high h (by omega))

theorem isCont_ascii (x : UInt8) (h : x.toNat < 0x80) : isCont x = false := by
  simp only [isCont, Bool.and_eq_false_iff, decide_eq_false_iff_not]; omega

theorem cons_of_asciiLower_cons {x : UInt8} {xs t : Bytes} (h : asciiLower (x :: xs) = asciiLower t) :
    ∃ y ys, t = y :: ys ∧ lowerB x = lowerB y ∧ asciiLower xs = asciiLower ys := by
  cases t with
  | nil => simp [asciiLower] at h
  | cons y ys =>
    simp only [asciiLower, List.map_cons, List.cons.injEq] at h
    exact ⟨y, ys, rfl, h.1, h.2⟩

theorem nil_of_asciiLower_nil {t : Bytes} (h : asciiLower [] = asciiLower t) : t = [] := by
  cases t with
  | nil => rfl
  | cons y ys => simp [asciiLower] at h

theorem asciiLower_drop (s : Bytes) (k : Nat) : asciiLower (s.drop k) = (asciiLower s).drop k := by
  simp [asciiLower, List.map_drop]

theorem asciiLower_length (s : Bytes) : (asciiLower s).length = s.length := by simp [asciiLower]

/-! ### `decode1` sees its arguments only up to ASCII case -/

theorem ite_congr_of {α : Type} (P Q : Bool) (X Y Z : α) (h1 : P = true → Q = true ∧ X = Y) (h2 : Q = true → P = true) :
    (if P then X else Z) = (if Q then Y else Z) := by
  cases hP : P
  · cases hQ : Q
    · rfl
    · have := h2 hQ; rw [hP] at this; cases this
  · obtain ⟨hq, hxy⟩ := h1 hP
    rw [hq, hxy]

open WhatwgUrl.Proofs.Neutral in
/-- a multi-byte (or ill-formed) lead byte: the result depends on the rest only up to ASCII case -/
theorem decode1_high_congr (b0 : UInt8) (h0 : 0x80 ≤ b0.toNat) (r r' : Bytes) (h : asciiLower r = asciiLower r') :
    decode1 b0 r = decode1 b0 r' := by
  by_cases h1 : b0.toNat < 0xC2
  · rw [decode1_lt_C2 b0 r h0 h1, decode1_lt_C2 b0 r' h0 h1]
  by_cases h2 : b0.toNat < 0xE0
  · rw [decode1_2 b0 r (by omega) h2, decode1_2 b0 r' (by omega) h2]
    cases r with
    | nil => rw [nil_of_asciiLower_nil h]
    | cons b1 r1 =>
      obtain ⟨b1', r1', rfl, e1, -⟩ := cons_of_asciiLower_cons h
      simp only []
      apply ite_congr_of
      · intro hc
        have := lowerB_eq_high e1 (isCont_ge _ hc)
        subst this; exact ⟨hc, rfl⟩
      · intro hc
        have := lowerB_eq_high e1.symm (isCont_ge _ hc)
        subst this; exact hc
  by_cases h3 : b0.toNat < 0xF0
  · rw [decode1_3 b0 r (by omega) h3, decode1_3 b0 r' (by omega) h3]
    cases r with
    | nil => rw [nil_of_asciiLower_nil h]
    | cons b1 r1 =>
      obtain ⟨b1', r1', rfl, e1, h'⟩ := cons_of_asciiLower_cons h
      cases r1 with
      | nil => rw [nil_of_asciiLower_nil h']
      | cons b2 r2 =>
        obtain ⟨b2', r2', rfl, e2, -⟩ := cons_of_asciiLower_cons h'
        simp only []
        apply ite_congr_of
        · intro hc
          obtain ⟨g1, g2⟩ := ok3_ge _ _ _ hc
          have := lowerB_eq_high e1 g1
          subst this
          have := lowerB_eq_high e2 g2
          subst this
          exact ⟨hc, rfl⟩
        · intro hc
          obtain ⟨g1, g2⟩ := ok3_ge _ _ _ hc
          have := lowerB_eq_high e1.symm g1
          subst this
          have := lowerB_eq_high e2.symm g2
          subst this
          exact hc
  by_cases h4 : b0.toNat < 0xF5
  · rw [decode1_4 b0 r (by omega) h4, decode1_4 b0 r' (by omega) h4]
    cases r with
    | nil => rw [nil_of_asciiLower_nil h]
    | cons b1 r1 =>
      obtain ⟨b1', r1', rfl, e1, h'⟩ := cons_of_asciiLower_cons h
      cases r1 with
      | nil => rw [nil_of_asciiLower_nil h']
      | cons b2 r2 =>
        obtain ⟨b2', r2', rfl, e2, h''⟩ := cons_of_asciiLower_cons h'
        cases r2 with
        | nil => rw [nil_of_asciiLower_nil h'']
        | cons b3 r3 =>
          obtain ⟨b3', r3', rfl, e3, -⟩ := cons_of_asciiLower_cons h''
          simp only []
          apply ite_congr_of
          · intro hc
            obtain ⟨g1, g2, g3⟩ := ok4_ge _ _ _ _ hc
            have := lowerB_eq_high e1 g1
            subst this
            have := lowerB_eq_high e2 g2
            subst this
            have := lowerB_eq_high e3 g3
            subst this
            exact ⟨hc, rfl⟩
          · intro hc
            obtain ⟨g1, g2, g3⟩ := ok4_ge _ _ _ _ hc
            have := lowerB_eq_high e1.symm g1
            subst this
            have := lowerB_eq_high e2.symm g2
            subst this
            have := lowerB_eq_high e3.symm g3
            subst this
            exact hc
  · rw [decode1_ge_F5 b0 r (by omega), decode1_ge_F5 b0 r' (by omega)]

/-- `goDecode` up to ASCII case: any observation `f` of the runes that does not distinguish the two cases of an ASCII
    letter gives the same list of (observation, size) pairs -/
theorem goDecode_map_congr {α : Type} (f : Char → α)
    (hf : ∀ x y : UInt8, x.toNat < 0x80 → y.toNat < 0x80 → lowerB x = lowerB y → f (bc x) = f (bc y)) :
    ∀ (n : Nat) (s t : Bytes), s.length ≤ n → asciiLower s = asciiLower t →
      (goDecode s).map (fun p => (f p.1, p.2)) = (goDecode t).map (fun p => (f p.1, p.2)) := by
  intro n
  induction n with
  | zero =>
    intro s t hn h
    have : s = [] := List.eq_nil_of_length_eq_zero (by omega)
    subst this
    rw [nil_of_asciiLower_nil h]
  | succ n ih =>
    intro s t hn h
    cases s with
    | nil => rw [nil_of_asciiLower_nil h]
    | cons b0 r =>
      obtain ⟨b0', r', rfl, e0, hr⟩ := cons_of_asciiLower_cons h
      rw [Neutral.goDecode_cons, Neutral.goDecode_cons]
      simp only [List.map_cons]
      have key : (decode1 b0 r).2 = (decode1 b0' r').2 ∧ f (decode1 b0 r).1 = f (decode1 b0' r').1 := by
        rcases lowerB_eq_cases e0 with ⟨hx, hy⟩ | rfl
        · rw [Trim.decode1_ascii b0 r hx, Trim.decode1_ascii b0' r' hy]
          exact ⟨rfl, hf b0 b0' hx hy e0⟩
        · by_cases hx : b0.toNat < 0x80
          · rw [Trim.decode1_ascii b0 r hx, Trim.decode1_ascii b0 r' hx]
            exact ⟨rfl, rfl⟩
          · rw [decode1_high_congr b0 (by omega) r r' hr]
            exact ⟨rfl, rfl⟩
      rw [key.1, key.2]
      congr 1
      apply ih
      · simp only [List.length_cons] at hn
        simp only [List.length_drop]; omega
      · rw [asciiLower_drop, asciiLower_drop, hr]

theorem goRunes_map_congr {α : Type} (f : Char → α)
    (hf : ∀ x y : UInt8, x.toNat < 0x80 → y.toNat < 0x80 → lowerB x = lowerB y → f (bc x) = f (bc y))
    (s t : Bytes) (h : asciiLower s = asciiLower t) : (goRunes s).map f = (goRunes t).map f := by
  have := congrArg (List.map (fun q : α × Nat => q.1)) (goDecode_map_congr f hf s.length s t (Nat.le_refl _) h)
  simpa [goRunes, List.map_map, Function.comp_def] using this

theorem lowerC_bc : ∀ x : UInt8, lowerC (bc x) = bc (lowerB x) := forall_uint8 (by decide +kernel)

/-- the rune lists agree up to ASCII case (interface for the IPv6 parser) -/
theorem goRunes_lowerC_congr (s t : Bytes) (h : asciiLower s = asciiLower t) :
    (goRunes s).map lowerC = (goRunes t).map lowerC :=
  goRunes_map_congr lowerC (fun x y _ _ e => by rw [lowerC_bc, lowerC_bc, e]) s t h

theorem validUtf8_congr (s t : Bytes) (h : asciiLower s = asciiLower t) : validUtf8 s = validUtf8 t := by
  have := goDecode_map_congr (fun c => c == repl) (fun x y _ _ _ => by rw [bc_ne_repl, bc_ne_repl]) s.length s t
    (Nat.le_refl _) h
  have e : ∀ u : Bytes, validUtf8 u =
      ((goDecode u).map (fun p => (p.1 == repl, p.2))).all (fun q => !(q.1 && q.2 == 1)) := by
    intro u; simp [validUtf8, List.all_map, Function.comp_def]
  rw [e s, e t, this]

theorem lowerForCheck_bc_lower : ∀ x : UInt8, x.toNat < 0x80 → lowerForCheck (bc x) = bc (lowerB x) :=
  forall_uint8 (by decide +kernel)

theorem asciiOrMisc_map_congr : ∀ (rs rs' : Str) (p : Int), rs.map lowerForCheck = rs'.map lowerForCheck →
    asciiOrMiscNoPuny rs p = asciiOrMiscNoPuny rs' p := by
  intro rs
  induction rs with
  | nil =>
    intro rs' p h
    cases rs' with
    | nil => rfl
    | cons c cs => simp at h
  | cons c cs ih =>
    intro rs' p h
    cases rs' with
    | nil => simp at h
    | cons c' cs' =>
      simp only [List.map_cons, List.cons.injEq] at h
      have ih' := fun p => ih cs' p h.2
      simp only [asciiOrMiscNoPuny, h.1, ih']

theorem asciiOrMisc_congr (s t : Bytes) (h : asciiLower s = asciiLower t) (p : Int) :
    asciiOrMiscNoPuny (goRunes s) p = asciiOrMiscNoPuny (goRunes t) p :=
  asciiOrMisc_map_congr _ _ p
    (goRunes_map_congr lowerForCheck
      (fun x y hx hy e => by rw [lowerForCheck_bc_lower x hx, lowerForCheck_bc_lower y hy, e]) s t h)

/-! ### `decodePercent` up to ASCII case -/

theorem hex_case : ∀ x y : UInt8, lowerB x = lowerB y →
    isHexN x.toNat = isHexN y.toNat ∧ hexVal x.toNat = hexVal y.toNat := by
  intro x y h
  have key : ∀ x : UInt8, isHexN (lowerB x).toNat = isHexN x.toNat ∧ hexVal (lowerB x).toNat = hexVal x.toNat :=
    forall_uint8 (by decide +kernel)
  rw [← (key x).1, ← (key x).2, ← (key y).1, ← (key y).2, h]
  exact ⟨rfl, rfl⟩

theorem lowerB_eq_pct : ∀ x : UInt8, lowerB x = lowerB 0x25 → x = 0x25 := forall_uint8 (by decide +kernel)
theorem lowerB_eq_lbr : ∀ x : UInt8, lowerB x = lowerB 0x5b → x = 0x5b := forall_uint8 (by decide +kernel)
theorem lowerB_eq_rbr : ∀ x : UInt8, lowerB x = lowerB 0x5d → x = 0x5d := forall_uint8 (by decide +kernel)

theorem hex2_congr (r r' : Bytes) (h : asciiLower r = asciiLower r') : hex2 r = hex2 r' := by
  cases r with
  | nil => rw [nil_of_asciiLower_nil h]
  | cons a r1 =>
    obtain ⟨a', r1', rfl, ea, h'⟩ := cons_of_asciiLower_cons h
    cases r1 with
    | nil => rw [nil_of_asciiLower_nil h']; rfl
    | cons b r2 =>
      obtain ⟨b', r2', rfl, eb, -⟩ := cons_of_asciiLower_cons h'
      simp only [hex2, (hex_case a a' ea).1, (hex_case b b' eb).1]

/-- **`decodePercent` commutes with ASCII case up to `asciiLower`**: `%4a` and `%4A` decode to the same byte, and a
    decoded byte is never looked at again -/
theorem decodePercent_case (cfg : Cfg) (henc : cfg.encOverride = none) :
    ∀ (n : Nat) (s t : Bytes), s.length ≤ n → asciiLower s = asciiLower t →
      asciiLower (decodePercent cfg s) = asciiLower (decodePercent cfg t) := by
  intro n
  induction n with
  | zero =>
    intro s t hn h
    have : s = [] := List.eq_nil_of_length_eq_zero (by omega)
    subst this
    rw [nil_of_asciiLower_nil h]
  | succ n ih =>
    intro s t hn h
    cases s with
    | nil => rw [nil_of_asciiLower_nil h]
    | cons x r =>
      obtain ⟨y, r', rfl, exy, hr⟩ := cons_of_asciiLower_cons h
      simp only [List.length_cons] at hn
      by_cases hesc : x = 0x25 ∧ hex2 r = true
      · obtain ⟨rfl, hh⟩ := hesc
        have hy : y = 0x25 := lowerB_eq_pct y exy.symm
        subst hy
        match r, hh, hr, hn with
        | a :: b :: r2, hh, hr, hn =>
          obtain ⟨a', r1', rfl, ea, h'⟩ := cons_of_asciiLower_cons hr
          obtain ⟨b', r2', rfl, eb, h''⟩ := cons_of_asciiLower_cons h'
          simp only [hex2, Bool.and_eq_true] at hh
          have ha' : isHexN a'.toNat = true := by rw [← (hex_case a a' ea).1]; exact hh.1
          have hb' : isHexN b'.toNat = true := by rw [← (hex_case b b' eb).1]; exact hh.2
          rw [decodePercent_esc cfg henc a b r2 hh.1 hh.2, decodePercent_esc cfg henc a' b' r2' ha' hb']
          rw [(hex_case a a' ea).2, (hex_case b b' eb).2]
          simp only [asciiLower, List.map_cons, List.cons.injEq, true_and]
          simp only [List.length_cons] at hn
          exact ih r2 r2' (by omega) h''
      · have hesc' : ¬ (y = 0x25 ∧ hex2 r' = true) := by
          intro ⟨hy, hh⟩
          apply hesc
          subst hy
          exact ⟨lowerB_eq_pct x exy, by rw [hex2_congr r r' hr]; exact hh⟩
        rw [decodePercent_cons_of_not cfg x r hesc, decodePercent_cons_of_not cfg y r' hesc']
        simp only [asciiLower, List.map_cons, List.cons.injEq]
        exact ⟨exy, ih r r' (by omega) hr⟩

theorem decodePercent_asciiLower (cfg : Cfg) (henc : cfg.encOverride = none) (s t : Bytes)
    (h : asciiLower s = asciiLower t) : asciiLower (decodePercent cfg s) = asciiLower (decodePercent cfg t) :=
  decodePercent_case cfg henc s.length s t (Nat.le_refl _) h

/-! ### ToASCII and the host parser as functions of the decoded domain -/

/-- the outcome of `ToASCII` on a non-empty domain (no encoding override) -/
def toAsciiOut (cfg : Cfg) (I : Idna) (d : Bytes) : ToAsciiR :=
  if (I d).2 && asciiOrMiscNoPuny (goRunes d) 0 then .ok (I d).1
  else if (I d).2 && !cfg.laxHost then .err (I d).1
  else if (I d).1.isEmpty then .err []
  else .ok (I d).1

theorem toASCII_eq (cfg : Cfg) (henc : cfg.encOverride = none) (I : Idna) (u : Url) (d : Bytes) (hne : d ≠ []) :
    toASCII cfg I u d = (toAsciiOut cfg I d, withQ (u.qlog ++ [d]) u) := by
  have he : d.isEmpty = false := by cases d <;> simp_all
  unfold toASCII toAsciiOut
  simp only [he, henc, Bool.false_eq_true, if_false]
  split
  · rfl
  · split
    · rfl
    · split <;> rfl

/-- the oracle's answer and the fallback test only see the domain up to ASCII case -/
theorem toAsciiOut_congr (cfg : Cfg) (I : Idna) (hI : L5 I) (d d' : Bytes) (h : asciiLower d = asciiLower d') :
    toAsciiOut cfg I d = toAsciiOut cfg I d' := by
  unfold toAsciiOut
  rw [hI d d' h, asciiOrMisc_congr d d' h]

/-- the special-scheme branch of the host parser after percent-decoding, on a url whose `qlog` is not looked at:
    `v` = the decoded domain is well-formed UTF-8, `r` = outcome of ToASCII, `raw`/`d` = the raw and the decoded
    input (used in the lax branches only) -/
def hostCore (cfg : Cfg) (u : Url) (raw d : Bytes) (v : Bool) (r : ToAsciiR) : HR :=
  if !v && cfg.laxHost then ⟨u, .ok (percentEncodeBytes hostSet raw)⟩
  else if !v then fail6 cfg u .DomainToASCII
  else match r with
    | .err _ => if cfg.laxHost then ⟨u, .ok d⟩ else fail6 cfg u .DomainToASCII
    | .ok a => finishDomain cfg u a

theorem fail6_withQ (cfg : Cfg) (q : List Bytes) (u : Url) (t : ErrT) :
    fail6 cfg (withQ q u) t = HR.withQ q (fail6 cfg u t) := by
  unfold fail6; rw [record_withQ]; rfl

theorem hostCore_withQ (cfg : Cfg) (hpost : cfg.postHost = none) (q : List Bytes) (u : Url) (raw d : Bytes)
    (v : Bool) (r : ToAsciiR) :
    hostCore cfg (withQ q u) raw d v r = HR.withQ q (hostCore cfg u raw d v r) := by
  unfold hostCore
  split
  · rfl
  · split
    · exact fail6_withQ cfg q u _
    · cases r with
      | err a =>
        simp only []
        split
        · rfl
        · exact fail6_withQ cfg q u _
      | ok a => exact finishDomain_withQ cfg hpost q u a

/-- **the host parser on a special-scheme, non-bracketed, non-empty input, up to the query log** -/
theorem parseHost_core (cfg : Cfg) (hpre : cfg.preHost = none) (hpost : cfg.postHost = none)
    (henc : cfg.encOverride = none) (I : Idna) (u : Url) (s : Bytes) (hne : s ≠ []) (hb : s.head? ≠ some 0x5b)
    (q : List Bytes) :
    HR.withQ q (parseHost cfg I u s false) =
      HR.withQ q (hostCore cfg u s (decodePercent cfg s) (validUtf8 (decodePercent cfg s))
        (toAsciiOut cfg I (decodePercent cfg s))) := by
  match s, hne, hb with
  | b0 :: tl, _, hb =>
    have hb0 : b0 ≠ 0x5b := by intro e; apply hb; simp [e]
    have hdne := decodePercent_ne_nil cfg (b0 :: tl) (by simp)
    rw [parseHost_domain_eq cfg hpre I u b0 tl hb0, toASCII_eq cfg henc I u _ hdne]
    generalize decodePercent cfg (b0 :: tl) = d
    generalize toAsciiOut cfg I d = r
    unfold hostCore
    split
    · rfl
    · split
      · rfl
      · cases r with
        | err a =>
          simp only []
          split
          · rfl
          · rw [fail6_withQ]; rfl
        | ok a =>
          simp only []
          rw [finishDomain_withQ cfg hpost]; rfl

theorem head_of_asciiLower {s t : Bytes} (h : asciiLower s = asciiLower t) (hne : s ≠ [])
    (hb : s.head? ≠ some 0x5b) : t ≠ [] ∧ t.head? ≠ some 0x5b := by
  cases s with
  | nil => exact absurd rfl hne
  | cons x xs =>
    obtain ⟨y, ys, rfl, e, -⟩ := cons_of_asciiLower_cons h
    refine ⟨by simp, ?_⟩
    simp only [List.head?_cons, ne_eq, Option.some.injEq] at hb ⊢
    intro hy; subst hy
    exact hb (lowerB_eq_lbr x e)

/-! ### the shape of the ToASCII output -/

/-- whatever `ToASCII` returns with success is empty or an answer of the oracle -/
theorem toASCII_ok_range (cfg : Cfg) (I : Idna) (u : Url) (d a : Bytes) (h : (toASCII cfg I u d).1 = .ok a) :
    a = [] ∨ ∃ src, a = (I src).1 := by
  have key : ∃ src, (toASCII cfg I u d).1 =
      if d.isEmpty then .ok []
      else if (I src).2 && asciiOrMiscNoPuny (goRunes src) 0 then .ok (I src).1
      else if (I src).2 && !cfg.laxHost then .err (I src).1
      else if (I src).1.isEmpty then .err []
      else .ok (I src).1 := by
    cases henc : cfg.encOverride with
    | none =>
      refine ⟨d, ?_⟩
      unfold toASCII
      simp only [henc]
      split
      · rfl
      · split
        · rfl
        · split
          · rfl
          · split <;> rfl
    | some cm =>
      cases hs : stringToUnicode cm (goRunes d) with
      | none =>
        refine ⟨d, ?_⟩
        unfold toASCII
        simp only [henc, hs]
        split
        · rfl
        · split
          · rfl
          · split
            · rfl
            · split <;> rfl
      | some s' =>
        refine ⟨s', ?_⟩
        unfold toASCII
        simp only [henc, hs]
        split
        · rfl
        · split
          · rfl
          · split
            · rfl
            · split <;> rfl
  obtain ⟨src, key⟩ := key
  rw [key] at h
  split at h
  · injection h with h; exact Or.inl h.symm
  · split at h
    · injection h with h; exact Or.inr ⟨_, h.symm⟩
    · split at h
      · cases h
      · split at h
        · cases h
        · injection h with h; exact Or.inr ⟨_, h.symm⟩

theorem lowerB_of_not_upper : ∀ x : UInt8, ¬ (0x41 ≤ x.toNat ∧ x.toNat ≤ 0x5a) → lowerB x = x :=
  forall_uint8 (by decide +kernel)

theorem lowerB_not_upper : ∀ x : UInt8, ¬ (0x41 ≤ (lowerB x).toNat ∧ (lowerB x).toNat ≤ 0x5a) :=
  forall_uint8 (by decide +kernel)

theorem asciiLower_of_no_upper (a : Bytes) (h : ∀ x ∈ a, ¬ (0x41 ≤ x.toNat ∧ x.toNat ≤ 0x5a)) : asciiLower a = a := by
  unfold asciiLower
  conv => rhs; rw [← List.map_id a]
  exact List.map_congr_left (fun x hx => lowerB_of_not_upper x (h x hx))

end WhatwgUrl.Proofs.HostCase
