import WhatwgUrl.Proofs.SimDefs
import WhatwgUrl.Proofs.Utf8
import WhatwgUrl.Proofs.Percent
import WhatwgUrl.Proofs.IPv4
import WhatwgUrl.Proofs.IPv6Parse
import WhatwgUrl.Props.C07
import WhatwgUrl.Props.C08
import WhatwgUrl.Props.C10
/-
  The host-parser piece of the conformance simulation: for the default configuration the Go host parser
  (`Impl.parseHost`) computes what the standard's host parser (`Spec.parseHost`) computes, given the oracle laws
  `IdnaLaws I` of `Proofs/SimDefs.lean`; and it leaves the url record alone (only the ghost field `qlog` may grow).

  Main theorems: `parseHost_conforms`, `parseHost_url`.
-/
namespace WhatwgUrl.Proofs.Sim
open WhatwgUrl WhatwgUrl.Impl WhatwgUrl.Proofs.Utf8 WhatwgUrl.Proofs.Percent WhatwgUrl.Proofs.IPv4 WhatwgUrl.Proofs.IPv6
open WhatwgUrl.Props

/-! ### A. frame and failure flags of the Go IPv6 parser (any configuration that does not report) -/

theorem record_nr (cfg : Cfg) (hr : cfg.report = false) (u : Url) (t : ErrT) (f : Bool) : record cfg u t f = u := by
  simp [record, hr]

example : Cfg.default.report = false := rfl

/-- a host-level result that left the url alone and whose error (if any) is a failure -/
def Good (u : Url) (r : HR) : Prop := r.url = u ∧ ∀ e, r.out = .err e → e.failure = true

theorem good_fail6 (cfg : Cfg) (hr : cfg.report = false) (u : Url) (t : ErrT) : Good u (fail6 cfg u t) := by
  refine ⟨record_nr cfg hr u t true, ?_⟩
  intro e h
  simp only [fail6, HOut.err.injEq] at h
  subst h; rfl

theorem good_err (cfg : Cfg) (hr : cfg.report = false) (u : Url) (t : ErrT) :
    Good u ⟨record cfg u t true, .err ⟨t, true⟩⟩ := good_fail6 cfg hr u t

/-- the same for the intermediate results of the loops (`proj` extracts the url of a non-final result) -/
def GoodS {α : Type} (proj : α → Url) (u : Url) : Sum α HR → Prop
  | .inl x => proj x = u
  | .inr r => Good u r

def GoodR (u : Url) : R6 → Prop
  | .cont s' => s'.url = u
  | .brk s' => s'.url = u
  | .done r => Good u r

theorem digitLoop6_good (cfg : Cfg) (hr : cfg.report = false) (rs : Str) :
    ∀ fuel cu c p u, GoodS (fun x : C6 × Char × Int × Url => x.2.2.2) u (digitLoop6 cfg rs fuel cu c p u) := by
  intro fuel
  induction fuel with
  | zero => intro cu c p u; rfl
  | succ f ih =>
    intro cu c p u
    simp only [digitLoop6]
    split
    · split
      · split
        · exact good_err cfg hr u _
        · exact ih _ _ _ _
      · split
        · exact good_err cfg hr u _
        · split
          · exact good_err cfg hr u _
          · exact ih _ _ _ _
    · rfl

theorem v4Loop6_good (cfg : Cfg) (hr : cfg.report = false) (rs : Str) :
    ∀ fuel cu c a pi ns u,
      GoodS (fun x : List Nat × Nat × Nat × Url => x.2.2.2) u (v4Loop6 cfg rs fuel cu c a pi ns u) := by
  intro fuel
  induction fuel with
  | zero => intro cu c a pi ns u; rfl
  | succ f ih =>
    intro cu c a pi ns u
    simp only [v4Loop6]
    generalize (if ns > 0 then (next6 rs cu).1 else cu) = cu1
    generalize (if ns > 0 then (next6 rs cu).2 else c) = c1
    split
    · rfl
    · split
      · exact good_fail6 cfg hr u _
      · split
        · exact good_fail6 cfg hr u _
        · have hd := digitLoop6_good cfg hr rs (rs.length + 2) cu1 c1 (-1) u
          split
          · rename_i r heq
            rw [heq] at hd; exact hd
          · rename_i cu2 c2 p u2 heq
            rw [heq] at hd
            have hd' : u2 = u := hd
            subst hd'
            split
            · exact ⟨rfl, fun e h => by cases h⟩
            · exact ih _ _ _ _ _ _

theorem iter6_good (cfg : Cfg) (hr : cfg.report = false) (rs : Str) (s : S6) : GoodR s.url (iter6 cfg rs s) := by
  simp only [iter6]
  split
  · exact good_fail6 cfg hr _ _
  · split
    · split
      · exact good_fail6 cfg hr _ _
      · rfl
    · split
      · split
        · exact good_fail6 cfg hr _ _
        · split
          · exact good_fail6 cfg hr _ _
          · generalize hcu : (next6 rs _).1 = cu1
            generalize hc1 : (next6 rs _).2 = c1
            have hv := v4Loop6_good cfg hr rs (rs.length + 2) cu1 c1 s.address s.pieceIdx 0 s.url
            split
            · rename_i r heq
              rw [heq] at hv; exact hv
            · rename_i a pi ns u heq
              rw [heq] at hv
              have hv' : u = s.url := hv
              subst hv' 
              split
              · exact good_fail6 cfg hr _ _
              · rfl
      · split
        · split
          · exact good_fail6 cfg hr _ _
          · split
            · exact ⟨rfl, fun e h => by cases h⟩
            · rfl
        · split
          · exact good_fail6 cfg hr _ _
          · split
            · exact ⟨rfl, fun e h => by cases h⟩
            · rfl

theorem loop6_good (cfg : Cfg) (hr : cfg.report = false) (rs : Str) :
    ∀ fuel s, GoodS S6.url s.url (Impl.loop6 cfg rs fuel s) := by
  intro fuel
  induction fuel with
  | zero => intro s; rfl
  | succ f ih =>
    intro s
    simp only [Impl.loop6]
    split
    · rfl
    · have hi := iter6_good cfg hr rs s
      split
      · rename_i s' heq
        rw [heq] at hi
        have hi' : s'.url = s.url := hi
        have := ih s'
        rw [hi'] at this
        exact this
      · rename_i s' heq
        rw [heq] at hi
        exact hi
      · rename_i r heq
        rw [heq] at hi
        exact hi

theorem parseIPv6_good (cfg : Cfg) (hr : cfg.report = false) (u : Url) (t : Bytes) : Good u (parseIPv6 cfg u t) := by
  simp only [parseIPv6]
  split
  · exact good_fail6 cfg hr _ _
  · rename_i s0 hs0
    have hu : s0.url = u := by
      split at hs0
      · split at hs0
        · cases hs0
        · cases hs0; rfl
      · cases hs0; rfl
    have hl := loop6_good cfg hr (goRunes t) ((goRunes t).length + 2) s0
    split
    · rename_i r heq
      rw [heq, hu] at hl; exact hl
    · rename_i s heq
      rw [heq, hu] at hl
      replace hl : s.url = u := hl
      split
      · split
        · exact ⟨hl, fun e h => by cases h⟩
        · exact ⟨hl, fun e h => by cases h⟩
      · split
        · rw [hl]; exact good_fail6 cfg hr _ _
        · exact ⟨hl, fun e h => by cases h⟩

/-- non-vacuity: a failing and a succeeding run, in the default configuration -/
example : (parseIPv6 Cfg.default {} (lit "1:2")).out = .err ⟨.IPv6TooFewPieces, true⟩ := by decide +kernel
example : (parseIPv6 Cfg.default { scheme := lit "ws" } (lit "::1")).url = { scheme := lit "ws" } := by decide +kernel

/-! ### B. a successful run of the standard's IPv6 parser returns eight pieces -/

theorem swapRun_length : ∀ fuel (a : List Nat) (pi c sw : Nat), (Spec.swapRun fuel a pi c sw).length = a.length := by
  intro fuel
  induction fuel with
  | zero => intro a pi c sw; rfl
  | succ f ih =>
    intro a pi c sw
    simp only [Spec.swapRun]
    split
    · rw [ih]; simp
    · rfl

theorem spec_parseIPv6_length (s : Str) (a : List Nat) (h : Spec.parseIPv6 s = some a) : a.length = 8 := by
  have key : ∀ s0, MInv s0 →
      (match Spec.loop6 s (s.length + 1) s0 with
        | none => none
        | some st =>
          match st.compress with
          | some c => some (Spec.swapRun 8 st.address 7 c (st.pieceIndex - c))
          | none => if st.pieceIndex != 8 then none else some st.address) = some a → a.length = 8 := by
    intro s0 hinv hk
    have hL := loop6_eq Cfg.default s {} (s.length + 1) s0 hinv
    cases hs : Spec.loop6 s (s.length + 1) s0 with
    | none => rw [hs] at hk; cases hk
    | some st =>
      rw [hs] at hL hk
      obtain ⟨g, -, -, -, -, hlen, -⟩ := hL
      simp only at hk
      cases hc : st.compress with
      | none =>
        rw [hc] at hk
        simp only at hk
        split at hk
        · cases hk
        · cases hk; exact hlen
      | some c =>
        rw [hc] at hk
        simp only [Option.some.injEq] at hk
        rw [← hk, swapRun_length]; exact hlen
  unfold Spec.parseIPv6 at h
  simp only at h
  split at h
  · cases h
  · rename_i s0 hs0
    refine key s0 ?_ h
    split at hs0
    · split at hs0
      · cases hs0
      · cases hs0
        exact ⟨by decide, by decide, fun j _ => zeros_get 8 j, fun c hc => by cases hc; decide⟩
    · cases hs0
      exact ⟨by decide, by decide, fun j _ => zeros_get 8 j, fun c hc => by cases hc⟩

example : Spec.parseIPv6 "::1".toList = some [0, 0, 0, 0, 0, 0, 0, 1] := by decide +kernel

/-! ### C. ASCII bytes at the ends of a UTF-8 string -/

/-- an ASCII byte inside the encoding of a code point: the code point is that ASCII character -/
theorem utf8Char_mem_ascii (c : Char) (b : UInt8) (hb : b ∈ utf8Char c) (h : b.toNat < 0x80) :
    utf8Char c = [b] ∧ c.toNat = b.toNat := by
  have hc : c.toNat < 0x80 := by
    rcases Nat.lt_or_ge c.toNat 0x80 with h' | h'
    · exact h'
    · have := utf8Char_high c h' b hb; omega
  have e := Percent.utf8Char_ascii c hc
  rw [e, List.mem_singleton] at hb
  subst hb
  refine ⟨e, ?_⟩
  simp only [Nat.toUInt8, UInt8.toNat_ofNat']
  omega

example : (0x5d : UInt8) ∈ utf8Char ']' ∧ (0x5d : UInt8).toNat < 0x80 := by decide
/-- the hypothesis is needed: `]` + 0x80 is the last byte of U+00DD, and of no ASCII character -/
example : utf8Char (Char.ofNat 0xdd) = [0xc3, 0x9d] := by decide +kernel

theorem char_eq_of_toNat_sh {c d : Char} (h : c.toNat = d.toNat) : c = d := by
  rw [← Char.ofNat_toNat c, ← Char.ofNat_toNat d, h]

theorem utf8_ne_nil {s : Str} (h : s ≠ []) : utf8 s ≠ [] := by
  cases s with
  | nil => exact absurd rfl h
  | cons c t =>
    rw [Percent.utf8_cons]
    intro e
    exact utf8Char_ne_nil c (List.append_eq_nil_iff.mp e).1

/-- the first byte of a UTF-8 string is `[` exactly when the first code point is -/
theorem utf8_cons_head (c : Char) (s : Str) :
    ∃ b0 tl, utf8 (c :: s) = b0 :: tl ∧ ((b0 == 0x5b) = (c == '[')) := by
  rw [Percent.utf8_cons]
  cases hc : utf8Char c with
  | nil => exact absurd hc (utf8Char_ne_nil c)
  | cons b0 tl =>
    refine ⟨b0, tl ++ utf8 s, rfl, ?_⟩
    by_cases hb : b0 = 0x5b
    · subst hb
      have := utf8Char_mem_ascii c 0x5b (by rw [hc]; simp) (by decide)
      have : c = '[' := char_eq_of_toNat_sh this.2
      subst this; rfl
    · have : c ≠ '[' := by
        intro e; subst e
        have : utf8Char '[' = [0x5b] := by decide
        rw [this] at hc
        cases hc; exact hb rfl
      rw [beq_false_of_ne hb, beq_false_of_ne this]

theorem isSuffixOf_singleton (x : UInt8) (l : Bytes) : ([x] : Bytes).isSuffixOf l = (l.getLast? == some x) := by
  rcases List.eq_nil_or_concat l with rfl | ⟨l', y, rfl⟩
  · rfl
  · rw [List.concat_eq_append]
    simp only [List.isSuffixOf, List.reverse_append, List.reverse_cons, List.reverse_nil, List.nil_append,
      List.singleton_append, List.isPrefixOf, Bool.and_true, List.getLast?_concat]
    by_cases h : x = y
    · subst h; simp
    · have h' : y ≠ x := fun e => h e.symm
      have h'' : some y ≠ some x := fun e => h' (Option.some.inj e)
      rw [beq_false_of_ne h, beq_false_of_ne h'']

/-- the last byte of a UTF-8 string is `]` exactly when the last code point is (a multi-byte encoding ends in a
    continuation byte, which is ≥ 0x80) -/
theorem utf8_endsWith (s : Str) : endsWith (utf8 s) [0x5d] = (s.getLast? == some ']') := by
  unfold endsWith
  rw [isSuffixOf_singleton]
  rcases List.eq_nil_or_concat s with rfl | ⟨s', c, rfl⟩
  · rfl
  · rw [List.concat_eq_append, Percent.utf8_append, List.getLast?_concat]
    have hc : utf8 [c] = utf8Char c := by simp [utf8]
    rw [hc]
    rcases List.eq_nil_or_concat (utf8Char c) with e | ⟨ini, bl, e⟩
    · exact absurd e (utf8Char_ne_nil c)
    · rw [List.concat_eq_append] at e
      rw [e, ← List.append_assoc, List.getLast?_concat]
      by_cases hb : bl = 0x5d
      · subst hb
        have := utf8Char_mem_ascii c 0x5d (by rw [e]; simp) (by decide)
        have : c = ']' := char_eq_of_toNat_sh this.2
        subst this; rfl
      · have hc' : c ≠ ']' := by
          intro e'; subst e'
          have : utf8Char ']' = [0x5d] := by decide
          rw [this] at e
          have := congrArg List.getLast? e
          rw [List.getLast?_concat] at this
          cases this; exact hb rfl
        have h1 : some bl ≠ some (0x5d : UInt8) := fun e => hb (Option.some.inj e)
        have h2 : some c ≠ some ']' := fun e => hc' (Option.some.inj e)
        rw [beq_false_of_ne h1, beq_false_of_ne h2]

example : endsWith (utf8 ['[', Char.ofNat 0xdd]) [0x5d] = false := by decide +kernel

/-- stripping the brackets at byte level is stripping them at code point level -/
theorem utf8_strip_brackets (s : Str) (h1 : s.head? = some '[') (h2 : s.getLast? = some ']') :
    trimSuffix1 (trimPrefix1 (utf8 s) [0x5b]) [0x5d] = utf8 ((s.drop 1).dropLast) := by
  cases s with
  | nil => cases h1
  | cons c t =>
    simp only [List.head?_cons, Option.some.injEq] at h1
    subst h1
    have hb : utf8Char '[' = [0x5b] := by decide
    have e1 : trimPrefix1 (utf8 ('[' :: t)) [0x5b] = utf8 t := by
      rw [Percent.utf8_cons, hb]
      simp [trimPrefix1, startsWith, List.isPrefixOf]
    rw [e1]
    rcases List.eq_nil_or_concat t with rfl | ⟨t', c, rfl⟩
    · cases h2
    · rw [List.concat_eq_append] at h2 ⊢
      rw [← List.cons_append, List.getLast?_concat] at h2
      cases h2
      have hb' : utf8 [']'] = [0x5d] := by decide
      rw [Percent.utf8_append, hb']
      have e2 : endsWith (utf8 t' ++ [0x5d]) [0x5d] = true := by
        unfold endsWith; rw [isSuffixOf_singleton, List.getLast?_concat]; rfl
      simp [trimSuffix1, e2]

example : "[::1]".toList.head? = some '[' ∧ "[::1]".toList.getLast? = some ']' ∧
    trimSuffix1 (trimPrefix1 (utf8 "[::1]".toList) [0x5b]) [0x5d] = lit "::1" := by decide +kernel

/-! ### D. the default configuration; the opaque-host parser -/

theorem default_report : Cfg.default.report = false := rfl
theorem default_failOnVErr : Cfg.default.failOnVErr = false := rfl
theorem default_laxHost : Cfg.default.laxHost = false := rfl
theorem default_encOverride : Cfg.default.encOverride = none := rfl
theorem default_preHost : Cfg.default.preHost = none := rfl
theorem default_postHost : Cfg.default.postHost = none := rfl
theorem record_default_sh (u : Url) (t : ErrT) (f : Bool) : record Cfg.default u t f = u := rfl
theorem stops_default_sh : stops Cfg.default false = false := rfl
theorem fail6_default (u : Url) (t : ErrT) : fail6 Cfg.default u t = ⟨u, .err ⟨t, true⟩⟩ := rfl

theorem c0Set_has : c0Set.has = Spec.c0ControlSet := funext C10.C10_tables.1

theorem percentEncodeRune_c0 (c : Char) :
    percentEncodeRune Cfg.default c0Set c = utf8 (Spec.utf8PercentEncodeCp Spec.c0ControlSet c) := by
  rw [percentEncodeRune_default, utf8_encodeCp, c0Set_has]

/-- the Go loop stops at the first forbidden host code point, the standard tests `any` up front: same outcome -/
theorem opaqueLoop_default (input : Bytes) : ∀ (rs : Str) (u : Url) (out : Bytes),
    opaqueLoop Cfg.default input rs u out =
      ⟨u, if rs.any (fun c => Spec.forbiddenHostCp c.toNat) then .err ⟨.HostInvalidCodePoint, true⟩
          else .ok (out ++ utf8 (Spec.utf8PercentEncode Spec.c0ControlSet rs))⟩ := by
  intro rs
  induction rs with
  | nil => intro u out; simp [opaqueLoop, Spec.utf8PercentEncode]
  | cons c rest ih =>
    intro u out
    simp only [opaqueLoop, record_default_sh, stops_default_sh, default_laxHost, Bool.and_false, Bool.false_eq_true,
      if_false, ite_self, C10.C10_forbidden_tables.1, List.any_cons]
    by_cases hf : Spec.forbiddenHostCp c.toNat = true
    · simp only [hf, if_true, Bool.true_or]
    · simp only [hf, Bool.false_eq_true, if_false, Bool.false_or]
      rw [ih, percentEncodeRune_c0]
      simp only [Spec.utf8PercentEncode, List.flatMap_cons, Percent.utf8_append, List.append_assoc]

theorem parseOpaqueHost_default (u : Url) (s : Str) :
    parseOpaqueHost Cfg.default u (utf8 s) =
      ⟨u, if s.any (fun c => Spec.forbiddenHostCp c.toNat) then .err ⟨.HostInvalidCodePoint, true⟩
          else .ok (utf8 (Spec.utf8PercentEncode Spec.c0ControlSet s))⟩ := by
  unfold parseOpaqueHost
  rw [goRunes_utf8, opaqueLoop_default]
  simp

theorem opaqueLoop_url (input : Bytes) (rs : Str) (u : Url) (out : Bytes) :
    (opaqueLoop Cfg.default input rs u out).url = u := by rw [opaqueLoop_default]

/-! ### E. the domain branch -/

/-! #### E.0 frame of the Go IPv4 parser -/

theorem parseIPv4Number_url (cfg : Cfg) (hr : cfg.report = false) (u : Url) (s : Bytes) :
    (parseIPv4Number cfg u s).url = u := by
  unfold parseIPv4Number
  simp only []
  repeat' split
  all_goals first | rfl | exact record_nr cfg hr _ _ _

theorem parseIPv4Parts_url (cfg : Cfg) (hr : cfg.report = false) :
    ∀ (parts : List Bytes) (u : Url) (acc : List Nat), (parseIPv4Parts cfg u parts acc).url = u := by
  intro parts
  induction parts with
  | nil => intro u acc; rfl
  | cons p rest ih =>
    intro u acc
    have hn := parseIPv4Number_url cfg hr u p
    simp only [parseIPv4Parts]
    split
    · simp only [record_nr cfg hr, hn]
    · split
      · simp only [record_nr cfg hr, hn]
      · rw [ih]
        split
        · rw [record_nr cfg hr, hn]
        · exact hn

theorem ipv4RangeWarn_url (cfg : Cfg) (hr : cfg.report = false) :
    ∀ (l : List Nat) (u : Url), (ipv4RangeWarn cfg u l).1 = u := by
  intro l
  induction l with
  | nil => intro u; rfl
  | cons n rest ih =>
    intro u
    simp only [ipv4RangeWarn]
    split
    · split
      · exact record_nr cfg hr _ _ _
      · rw [ih, record_nr cfg hr]
    · exact ih u

theorem hErr_url (cfg : Cfg) (hr : cfg.report = false) (u : Url) (t : ErrT) (f : Bool) (k : Url → HR)
    (hk : ∀ u', (k u').url = u') : (hErr cfg u t f k).url = u := by
  unfold hErr
  split
  · exact record_nr cfg hr _ _ _
  · rw [hk, record_nr cfg hr]

/-- the inner continuation `afterCount` of the model's `parseIPv4`, as a function of the (trimmed) parts -/
def afterCount (cfg : Cfg) (parts : List Bytes) (u : Url) : HR :=
  let pr := parseIPv4Parts cfg u parts []
  match pr.err with
  | some e => ⟨pr.url, .err e⟩
  | none =>
    let w := ipv4RangeWarn cfg pr.url pr.nums
    if w.2 then ⟨w.1, .err ⟨.IPv4OutOfRangePart, false⟩⟩
    else
      let nums := pr.nums
      if nums.dropLast.any (· > 255) then ⟨record cfg w.1 .IPv4OutOfRangePart true, .err ⟨.IPv4OutOfRangePart, true⟩⟩
      else match nums.getLast? with
        | none => ⟨w.1, .panic 1⟩
        | some last =>
          if last ≥ 256 ^ (5 - nums.length) then
            ⟨record cfg w.1 .IPv4OutOfRangePart true, .err ⟨.IPv4OutOfRangePart, true⟩⟩
          else
            let front := nums.dropLast
            let v := (List.range front.length).foldl (fun acc i => acc + front[i]! * 256 ^ (3 - i)) last
            ⟨w.1, .ok (ipv4String (v % 2 ^ 32))⟩

theorem parseIPv4_eq (cfg : Cfg) (u : Url) (input : Bytes) :
    parseIPv4 cfg u input =
      (let parts0 := splitOn 0x2e input
       let lastEmpty := parts0.getLast? == some []
       let parts := if lastEmpty && parts0.length > 1 then parts0.dropLast else parts0
       let afterEmpty : Url → HR := fun u =>
         if parts.length > 4 then hErr cfg u .IPv4TooManyParts true (afterCount cfg parts) else afterCount cfg parts u
       if lastEmpty then hErr cfg u .IPv4EmptyPart false afterEmpty else afterEmpty u) := rfl

theorem afterCount_url (cfg : Cfg) (hr : cfg.report = false) (parts : List Bytes) (u : Url) :
    (afterCount cfg parts u).url = u := by
  have h1 := parseIPv4Parts_url cfg hr parts u []
  have h2 := ipv4RangeWarn_url cfg hr (parseIPv4Parts cfg u parts []).nums (parseIPv4Parts cfg u parts []).url
  unfold afterCount
  simp only []
  split
  · exact h1
  · split
    · rw [h2, h1]
    · split
      · rw [record_nr cfg hr, h2, h1]
      · split
        · rw [h2, h1]
        · split
          · rw [record_nr cfg hr, h2, h1]
          · rw [h2, h1]

theorem parseIPv4_url (cfg : Cfg) (hr : cfg.report = false) (u : Url) (s : Bytes) : (parseIPv4 cfg u s).url = u := by
  rw [parseIPv4_eq]
  simp only []
  have hk : ∀ (parts : List Bytes) (u' : Url),
      (if parts.length > 4 then hErr cfg u' .IPv4TooManyParts true (afterCount cfg parts)
        else afterCount cfg parts u').url = u' := by
    intro parts u'
    split
    · exact hErr_url cfg hr _ _ _ _ (afterCount_url cfg hr parts)
    · exact afterCount_url cfg hr parts u'
  split
  · exact hErr_url cfg hr _ _ _ _ (hk _)
  · exact hk _ _

/-! #### E.1 ill-formed UTF-8 after percent-decoding: U+FFFD makes both sides fail -/

theorem repl_mem_of_invalid (b : Bytes) (h : validUtf8 b = false) : repl ∈ goRunes b := by
  unfold validUtf8 at h
  rw [List.all_eq_false] at h
  obtain ⟨d, hd, hp⟩ := h
  simp at hp
  unfold goRunes
  rw [List.mem_map]
  exact ⟨d, hd, hp.1⟩

example : validUtf8 [0x61, 0xff] = false ∧ goRunes [0x61, 0xff] = ['a', repl] := by decide +kernel

theorem lowerForCheck_repl : lowerForCheck repl = repl := by decide

theorem aom_repl : ∀ (d : Str) (p : Int), repl ∈ d → asciiOrMiscNoPuny d p = false := by
  intro d
  induction d with
  | nil => intro p h; cases h
  | cons r0 rest ih =>
    intro p h
    rw [List.mem_cons] at h
    simp only [asciiOrMiscNoPuny]
    rcases h with h | h
    · subst h
      rw [lowerForCheck_repl, if_pos (by decide)]
    · simp only [ih _ h, ite_self]

theorem pure_repl (d : Str) (h : repl ∈ d) : Spec.pureAsciiNoAce d = false := by
  unfold Spec.pureAsciiNoAce
  have : d.all (fun c => decide (c.toNat < 0x80)) = false := by
    rw [List.all_eq_false]; exact ⟨repl, h, by decide⟩
  rw [this]; rfl

example : repl ∈ ['a', repl] := by decide

/-- the automaton's transition on a non-dot character; `none` = an ACE prefix has been completed -/
def nextP (p : Int) (r : Char) : Option Int :=
  if p == 0 && r == 'x' then some 1
  else if p == 1 && r == 'n' then some 2
  else if p == 2 && r == '-' then some 3
  else if p == 3 && r == '-' then none
  else some (-1)

theorem aom_cons (r0 : Char) (rest : Str) (p : Int) :
    asciiOrMiscNoPuny (r0 :: rest) p =
      if (lowerForCheck r0).toNat ≥ 0x80 && (lowerForCheck r0).toNat != 0x2260 && (lowerForCheck r0).toNat != 0x226e &&
          (lowerForCheck r0).toNat != 0x226f then false
      else if lowerForCheck r0 == '.' then asciiOrMiscNoPuny rest 0
      else match nextP p (lowerForCheck r0) with
        | some p' => asciiOrMiscNoPuny rest p'
        | none => false := by
  simp only [asciiOrMiscNoPuny, nextP]
  repeat' split
  all_goals simp_all

def St (pfx : Str) (p : Int) : Prop :=
  (p = 0 ∧ pfx = []) ∨ (p = 1 ∧ pfx = ['x']) ∨ (p = 2 ∧ pfx = ['x', 'n']) ∨ (p = 3 ∧ pfx = ['x', 'n', '-']) ∨
  (p = -1 ∧ ∀ t, (pfx ++ t).take 4 ≠ ['x', 'n', '-', '-'])

theorem St_next (pfx : Str) (p : Int) (r : Char) (h : St pfx p) :
    match nextP p r with
    | some p' => St (pfx ++ [r]) p'
    | none => pfx ++ [r] = ['x', 'n', '-', '-'] := by
  rcases h with ⟨rfl, rfl⟩ | ⟨rfl, rfl⟩ | ⟨rfl, rfl⟩ | ⟨rfl, rfl⟩ | ⟨rfl, hd⟩
  · by_cases hx : r = 'x'
    · subst hx; simp [nextP, St]
    · simp [nextP, St, hx]
  · by_cases hx : r = 'n'
    · subst hx; simp [nextP, St]
    · simp [nextP, St, hx]
  · by_cases hx : r = '-'
    · subst hx; simp [nextP, St]
    · simp [nextP, St, hx]
  · by_cases hx : r = '-'
    · subst hx; simp [nextP]
    · simp [nextP, St, hx]
  · simp only [nextP]
    right; right; right; right
    refine ⟨rfl, fun t => ?_⟩
    rw [List.append_assoc]; exact hd _

example : St [] 0 ∧ St ['x', 'n'] 2 ∧ St ['y'] (-1) := by
  refine ⟨Or.inl ⟨rfl, rfl⟩, Or.inr (Or.inr (Or.inl ⟨rfl, rfl⟩)), Or.inr (Or.inr (Or.inr (Or.inr ⟨rfl, ?_⟩)))⟩
  intro t h
  simp at h

theorem splitStr_ne_nil (sep : Char) (s : Str) : Spec.splitStr sep s ≠ [] := by
  cases s with
  | nil => simp [Spec.splitStr]
  | cons x xs =>
    simp only [Spec.splitStr]
    split
    · simp
    · split <;> simp

theorem splitStr_append_nosep (sep : Char) (a b : Str) (h : sep ∉ a) :
    ∃ hd tl, Spec.splitStr sep b = hd :: tl ∧ Spec.splitStr sep (a ++ b) = (a ++ hd) :: tl := by
  induction a with
  | nil =>
    cases hb : Spec.splitStr sep b with
    | nil => exact absurd hb (splitStr_ne_nil sep b)
    | cons hd tl => exact ⟨hd, tl, rfl, by simpa using hb⟩
  | cons x xs ih =>
    have hx : (x == sep) = false := by
      apply beq_false_of_ne
      intro e; subst e; exact h (by simp)
    obtain ⟨hd, tl, e1, e2⟩ := ih (fun hm => h (List.mem_cons_of_mem _ hm))
    refine ⟨hd, tl, e1, ?_⟩
    simp only [List.cons_append, Spec.splitStr, hx, Bool.false_eq_true, if_false, e2]

def LabelsOk (L : List Str) : Bool := L.all fun l => l.take 4 != ['x', 'n', '-', '-']

theorem lowerC_ascii_fin : ∀ n : Fin 128,
    lowerB n.val.toUInt8 = (lowerC (Char.ofNat n.val)).toNat.toUInt8 ∧ (lowerC (Char.ofNat n.val)).toNat < 0x80 ∧
    lowerForCheck (Char.ofNat n.val) = lowerC (Char.ofNat n.val) := by decide +kernel

theorem lowerC_ascii (c : Char) (h : c.toNat < 0x80) :
    lowerB c.toNat.toUInt8 = (lowerC c).toNat.toUInt8 ∧ (lowerC c).toNat < 0x80 ∧ lowerForCheck c = lowerC c := by
  have := lowerC_ascii_fin ⟨c.toNat, h⟩
  simpa [Char.ofNat_toNat] using this

theorem aom_of_pure : ∀ (s : Str) (pfx : Str) (p : Int), (∀ c ∈ s, c.toNat < 0x80) → '.' ∉ pfx → St pfx p →
    LabelsOk (Spec.splitStr '.' (pfx ++ s.map lowerC)) = true → asciiOrMiscNoPuny s p = true := by
  intro s
  induction s with
  | nil => intro pfx p _ _ _ _; rfl
  | cons r0 rest ih =>
    intro pfx p hasc hdot hst hok
    obtain ⟨-, hlt, hl⟩ := lowerC_ascii r0 (hasc r0 (by simp))
    have hasc' : ∀ c ∈ rest, c.toNat < 0x80 := fun c hc => hasc c (List.mem_cons_of_mem _ hc)
    rw [aom_cons, hl]
    rw [if_neg (by simp; omega)]
    rw [List.map_cons] at hok
    by_cases hd : lowerC r0 = '.'
    · rw [hd] at hok ⊢
      simp only [beq_self_eq_true, if_true]
      obtain ⟨hd', tl, e1, e2⟩ := splitStr_append_nosep '.' pfx ('.' :: rest.map lowerC) hdot
      rw [e2] at hok
      simp only [Spec.splitStr, beq_self_eq_true, if_true, List.cons.injEq] at e1
      obtain ⟨rfl, rfl⟩ := e1
      simp only [LabelsOk, List.all_cons, Bool.and_eq_true] at hok
      exact ih [] 0 hasc' (by simp) (Or.inl ⟨rfl, rfl⟩) hok.2
    · rw [beq_false_of_ne hd]
      simp only [Bool.false_eq_true, if_false]
      have hn := St_next pfx p (lowerC r0) hst
      have hdot' : '.' ∉ pfx ++ [lowerC r0] := by
        simp only [List.mem_append, List.mem_singleton, not_or]
        exact ⟨hdot, fun e => hd e.symm⟩
      have hok' : LabelsOk (Spec.splitStr '.' ((pfx ++ [lowerC r0]) ++ rest.map lowerC)) = true := by
        rw [List.append_assoc]; exact hok
      cases hnp : nextP p (lowerC r0) with
      | some p' =>
        rw [hnp] at hn
        exact ih _ p' hasc' hdot' hn hok'
      | none =>
        rw [hnp] at hn
        simp only at hn
        rw [hn] at hok' hdot'
        obtain ⟨hd', tl, e1, e2⟩ := splitStr_append_nosep '.' _ (rest.map lowerC) hdot'
        rw [e2] at hok'
        simp [LabelsOk] at hok'

/-! #### E.3 pure-ASCII domains without ACE labels -/

theorem pure_ascii (d : Str) (h : Spec.pureAsciiNoAce d = true) :
    (∀ c ∈ d, c.toNat < 0x80) ∧ LabelsOk (Spec.splitStr '.' (d.map lowerC)) = true := by
  unfold Spec.pureAsciiNoAce at h
  rw [Bool.and_eq_true] at h
  refine ⟨?_, h.2⟩
  intro c hc
  have := List.all_eq_true.mp h.1 c hc
  simpa using this

/-- the standard-side test "pure ASCII, no ACE label" implies the Go-side test "ASCII or misc, no punycode" -/
theorem aom_of_pureAscii (d : Str) (h : Spec.pureAsciiNoAce d = true) : asciiOrMiscNoPuny d 0 = true := by
  obtain ⟨h1, h2⟩ := pure_ascii d h
  exact aom_of_pure d [] 0 h1 (by simp) (Or.inl ⟨rfl, rfl⟩) (by simpa using h2)

/-- non-vacuity, and the ACE test is per label and case-insensitive on both sides -/
example : Spec.pureAsciiNoAce "a.Xn-.xn".toList = true ∧ asciiOrMiscNoPuny "a.Xn-.xn".toList 0 = true := by
  decide +kernel
example : Spec.pureAsciiNoAce "a.XN--b".toList = false ∧ asciiOrMiscNoPuny "a.XN--b".toList 0 = false := by
  decide +kernel
/-- the converse fails (hence "misc"): U+2260 is accepted by the Go-side test only -/
example : Spec.pureAsciiNoAce [Char.ofNat 0x2260] = false ∧ asciiOrMiscNoPuny [Char.ofNat 0x2260] 0 = true := by
  decide +kernel

theorem utf8_ascii_bytes (d : Str) (h : ∀ c ∈ d, c.toNat < 0x80) : Ascii (utf8 d) := by
  rw [utf8_ascii d h]
  intro x hx
  rw [List.mem_map] at hx
  obtain ⟨c, hc, rfl⟩ := hx
  have := h c hc
  simp only [Nat.toUInt8, UInt8.toNat_ofNat']
  omega

theorem map_lowerC_ascii (d : Str) (h : ∀ c ∈ d, c.toNat < 0x80) : ∀ c ∈ d.map lowerC, c.toNat < 0x80 := by
  intro c hc
  rw [List.mem_map] at hc
  obtain ⟨c0, hc0, rfl⟩ := hc
  exact (lowerC_ascii c0 (h c0 hc0)).2.1

theorem asciiLower_utf8_sh (d : Str) (h : ∀ c ∈ d, c.toNat < 0x80) : asciiLower (utf8 d) = utf8 (d.map lowerC) := by
  induction d with
  | nil => rfl
  | cons c t ih =>
    obtain ⟨h1, h2, -⟩ := lowerC_ascii c (h c (by simp))
    rw [List.map_cons, Percent.utf8_cons, Percent.utf8_cons, Percent.utf8Char_ascii c (h c (by simp)),
      Percent.utf8Char_ascii (lowerC c) h2, ← h1, ← ih (fun x hx => h x (List.mem_cons_of_mem _ hx))]
    rfl

example : (∀ c ∈ "A.b".toList, c.toNat < 0x80) ∧ asciiLower (utf8 "A.b".toList) = lit "a.b" := by decide +kernel

theorem percentDecode_ne_nil (b : Bytes) (h : b ≠ []) : Spec.percentDecode b ≠ [] := by
  match b, h with
  | [x], _ => simp [Spec.percentDecode]
  | [x, a], _ => simp [Spec.percentDecode]
  | x :: a :: b :: r, _ =>
    simp only [Spec.percentDecode]
    split <;> simp

example : lit "%41" ≠ [] := by decide

/-! #### E.4 after domain-to-ASCII: forbidden domain code points, IPv4 -/

def ROut (o : HOut) (s : Option Str) : Prop :=
  match o, s with
  | .ok h, some hs => h = utf8 hs
  | .err e, none => e.failure = true
  | _, _ => False

theorem forbiddenLoop_default (a : Bytes) : ∀ (rs : Str) (u : Url),
    forbiddenLoop Cfg.default a rs u =
      (u, if rs.any (fun c => Spec.forbiddenDomainCp c.toNat) then some (.err ⟨.DomainInvalidCodePoint, true⟩)
          else none) := by
  intro rs
  induction rs with
  | nil => intro u; rfl
  | cons c rest ih =>
    intro u
    simp only [forbiddenLoop, record_default_sh, default_laxHost, Bool.false_eq_true, if_false,
      C10.C10_forbidden_tables.2, List.any_cons]
    by_cases hf : Spec.forbiddenDomainCp c.toNat = true
    · simp only [hf, if_true, Bool.true_or]
    · simp only [hf, Bool.false_eq_true, if_false, Bool.false_or]
      exact ih u

/-- the Go host parser after a successful domain-to-ASCII -/
def hostTail (u1 : Url) (a : Bytes) : HR :=
  let fl := forbiddenLoop Cfg.default a (goRunes a) u1
  match fl.2 with
  | some out => ⟨fl.1, out⟩
  | none => if endsInANumber Cfg.default fl.1 a then parseIPv4 Cfg.default fl.1 a else ⟨fl.1, .ok a⟩

/-- the standard's host parser after a successful domain-to-ASCII -/
def specTailH (asciiDomain : Str) : Option Str :=
  if asciiDomain.any (fun c => Spec.forbiddenDomainCp c.toNat) then none
  else if Spec.endsInANumber asciiDomain then (Spec.parseIPv4 asciiDomain).map Spec.serializeIPv4
  else some asciiDomain

theorem hostTail_conforms (u1 : Url) (a : Bytes) (ha : Ascii a) : ROut (hostTail u1 a).out (specTailH (asStr a)) := by
  unfold hostTail specTailH
  rw [goRunes_ascii a ha, forbiddenLoop_default]
  simp only []
  by_cases hf : (asStr a).any (fun c => Spec.forbiddenDomainCp c.toNat) = true
  · simp only [hf, if_true]
    exact rfl
  · simp only [hf, Bool.false_eq_true, if_false]
    rw [C07.C07_ends_in_number_conforms]
    by_cases he : Spec.endsInANumber (asStr a) = true
    · simp only [he, if_true]
      have := C07.C07_parse_conforms Cfg.default u1 a rfl
      cases ho : (parseIPv4 Cfg.default u1 a).out <;> cases hs : Spec.parseIPv4 (asStr a) <;>
        rw [ho, hs] at this <;> simp only [Option.map, ROut] at this ⊢
      · rw [this.2, C07.C07_serialize]
      · exact this
    · simp only [he, Bool.false_eq_true, if_false]
      exact (utf8_asStr a ha).symm

example : Ascii (lit "1.0x2") := by unfold Ascii; decide
example : (hostTail {} (lit "1.0x2")).out = .ok (lit "1.0.0.2") ∧
    specTailH (asStr (lit "1.0x2")) = some "1.0.0.2".toList := by decide +kernel

theorem hostTail_url (u1 : Url) (a : Bytes) : (hostTail u1 a).url = u1 := by
  unfold hostTail
  rw [forbiddenLoop_default]
  simp only []
  split
  · rfl
  · split
    · exact parseIPv4_url Cfg.default rfl _ _
    · rfl

/-! #### E.5 domain to ASCII -/

theorem toASCII_default (I : Idna) (u : Url) (dom : Bytes) (hne : dom ≠ []) :
    toASCII Cfg.default I u dom =
      (if (I dom).2 && asciiOrMiscNoPuny (goRunes dom) 0 then .ok (I dom).1
        else if (I dom).2 then .err (I dom).1
        else if (I dom).1.isEmpty then .err [] else .ok (I dom).1, { u with qlog := u.qlog ++ [dom] }) := by
  have he : dom.isEmpty = false := by cases dom <;> simp_all
  simp only [toASCII, he, default_encOverride, default_laxHost, Bool.false_eq_true, if_false, Bool.not_false,
    Bool.and_true]
  by_cases h1 : (I dom).2 = true <;> by_cases h2 : asciiOrMiscNoPuny (goRunes dom) 0 = true <;>
    by_cases h3 : (I dom).1.isEmpty = true <;> simp [h1, h2, h3]

theorem toASCII_url (I : Idna) (u : Url) (dom : Bytes) :
    { (toASCII Cfg.default I u dom).2 with qlog := [] } = { u with qlog := [] } := by
  by_cases hne : dom = []
  · subst hne; rfl
  · rw [toASCII_default I u dom hne]

/-- the domain branch of the Go host parser in the default configuration -/
def domainPart (I : Idna) (u : Url) (input : Bytes) : HR :=
  let domain := decodePercent Cfg.default input
  if !validUtf8 domain then fail6 Cfg.default u .DomainToASCII
  else
    let ta := toASCII Cfg.default I u domain
    match ta.1 with
    | .err _ => fail6 Cfg.default ta.2 .DomainToASCII
    | .ok a => hostTail ta.2 a

/-- the domain branch of the standard's host parser -/
def specDomainPart (SI : Spec.SIdna) (input : Str) : Option Str :=
  match Spec.domainToASCII SI (goRunes (Spec.percentDecode (utf8 input))) with
  | none => none
  | some asciiDomain => specTailH asciiDomain

theorem domain_conforms (I : Idna) (hI : IdnaLaws I) (u : Url) (sbuf : Str) (hne : sbuf ≠ []) :
    ROut (domainPart I u (utf8 sbuf)).out (specDomainPart (specIdna I) sbuf) := by
  unfold domainPart specDomainPart
  simp only []
  rw [decodePercent_default]
  have hdom := percentDecode_ne_nil (utf8 sbuf) (utf8_ne_nil hne)
  generalize Spec.percentDecode (utf8 sbuf) = dom at hdom
  by_cases hv : validUtf8 dom = true
  · -- well-formed: the oracle is consulted on `dom`
    have hu := utf8_goRunes dom hv
    have hd : goRunes dom ≠ [] := by
      intro e; rw [e] at hu; exact hdom hu.symm
    simp only [hv, Bool.not_true, Bool.false_eq_true, if_false]
    rw [toASCII_default I u dom hdom]
    simp only []
    generalize hdd : goRunes dom = d at hu hd
    generalize ({ u with qlog := u.qlog ++ [dom] } : Url) = u1
    have hde : d.isEmpty = false := by cases d <;> simp_all
    by_cases hp : Spec.pureAsciiNoAce d = true
    · -- pure ASCII without ACE labels: lower-casing on both sides
      obtain ⟨hasc, -⟩ := pure_ascii d hp
      have haom := aom_of_pureAscii d hp
      have hascii : Ascii dom := hu ▸ utf8_ascii_bytes d hasc
      have ha : (I dom).1 = asciiLower dom := hI.ascii_lower dom hascii (by rw [hdd]; exact haom)
      have ha' : (I dom).1 = utf8 (d.map lowerC) := by rw [ha, ← hu, asciiLower_utf8_sh d hasc]
      have hlow := map_lowerC_ascii d hasc
      have hA : Ascii (I dom).1 := ha' ▸ utf8_ascii_bytes _ hlow
      have hstr : asStr (I dom).1 = d.map lowerC := by
        rw [← goRunes_ascii _ hA, ha', goRunes_utf8]
      have hane : (I dom).1.isEmpty = false := by
        rw [ha]
        cases dom with
        | nil => exact absurd rfl hdom
        | cons x xs => rfl
      have hta : (if ((I dom).2 && asciiOrMiscNoPuny d 0) = true then ToAsciiR.ok (I dom).1
          else if (I dom).2 = true then ToAsciiR.err (I dom).1
          else if (I dom).1.isEmpty = true then ToAsciiR.err [] else ToAsciiR.ok (I dom).1) = .ok (I dom).1 := by
        rw [haom, hane]
        cases (I dom).2 <;> rfl
      rw [hta]
      simp only [Spec.domainToASCII, hp, if_true, hde, Bool.false_eq_true, if_false]
      rw [← hstr]
      exact hostTail_conforms u1 _ hA
    · -- otherwise the standard's side takes the oracle's answer as given
      have hA : Ascii (I dom).1 := hI.out_ascii dom
      have hgo : goRunes (I dom).1 = asStr (I dom).1 := goRunes_ascii _ hA
      have hemp : (asStr (I dom).1).isEmpty = (I dom).1.isEmpty := asStr_isEmpty _
      simp only [Spec.domainToASCII, hp, Bool.false_eq_true, if_false, specIdna, hu, hgo]
      cases hfail : (I dom).2
      · -- no error: accepted unless empty
        simp only [Bool.false_and, Bool.false_eq_true, if_false]
        cases hae : (I dom).1.isEmpty
        · simp only [Bool.false_eq_true, if_false, hemp, hae]
          exact hostTail_conforms u1 _ hA
        · simp only [if_true]
          exact rfl
      · cases haom : asciiOrMiscNoPuny d 0
        · -- error, and not ASCII-or-misc: both fail
          simp only [Bool.true_and, Bool.false_eq_true, if_false, Bool.not_false, if_true]
          exact rfl
        · -- error, accepted through the ASCII-or-misc fallback: non-empty by L4
          have hne' : (I dom).1 ≠ [] := hI.nonempty dom hdom hfail (by rw [hdd]; exact haom)
          have hae : (I dom).1.isEmpty = false := by cases h : (I dom).1 <;> simp_all
          simp only [Bool.true_and, if_true, Bool.not_true, Bool.false_eq_true, if_false, hemp, hae]
          exact hostTail_conforms u1 _ hA
  · -- ill-formed: Go fails before consulting the oracle, the standard's string contains U+FFFD
    have hv' : validUtf8 dom = false := by simpa using hv
    have hr := repl_mem_of_invalid dom hv'
    simp only [hv', Bool.not_false, if_true, fail6_default]
    have h1 := pure_repl _ hr
    have h2 := aom_repl _ 0 hr
    have h3 := hI.repl_fails _ hr
    simp only [Spec.domainToASCII, h1, Bool.false_eq_true, if_false, specIdna, h2, h3, Bool.not_false, Bool.and_self,
      if_true]
    exact rfl

theorem domainPart_url (I : Idna) (u : Url) (b : Bytes) :
    { (domainPart I u b).url with qlog := [] } = { u with qlog := [] } := by
  unfold domainPart
  simp only []
  split
  · rfl
  · split
    · exact toASCII_url I u _
    · rw [hostTail_url]; exact toASCII_url I u _

/-! ### F. assembly -/

theorem parseHost_cons (I : Idna) (u : Url) (b0 : UInt8) (rest : Bytes) (ns : Bool) :
    parseHost Cfg.default I u (b0 :: rest) ns =
      if b0 == 0x5b then
        (if !endsWith (b0 :: rest) [0x5d] then fail6 Cfg.default u .IPv6Unclosed
         else parseIPv6 Cfg.default u (trimSuffix1 (trimPrefix1 (b0 :: rest) [0x5b]) [0x5d]))
      else if ns then parseOpaqueHost Cfg.default u (b0 :: rest)
      else domainPart I u (b0 :: rest) := by
  simp only [parseHost, default_preHost, default_laxHost, default_postHost, Bool.and_false, Bool.false_eq_true,
    if_false]
  rfl

theorem spec_parseHost_eq (SI : Spec.SIdna) (input : Str) (ns : Bool) :
    Spec.parseHost SI input ns =
      if input.head? == some '[' then
        (if input.getLast? != some ']' then none
         else match Spec.parseIPv6 ((input.drop 1).dropLast) with
           | some a => some (['['] ++ Spec.serializeIPv6 a ++ [']'])
           | none => none)
      else if ns then Spec.parseOpaqueHost input
      else specDomainPart SI input := rfl

theorem parseHost_conforms' (I : Idna) (hI : IdnaLaws I) (u : Url) (sbuf : Str) (ns : Bool) (hne : sbuf ≠ []) :
    ROut (parseHost Cfg.default I u (utf8 sbuf) ns).out (Spec.parseHost (specIdna I) sbuf ns) := by
  cases sbuf with
  | nil => exact absurd rfl hne
  | cons c s =>
    obtain ⟨b0, tl, e, hb⟩ := utf8_cons_head c s
    have hP : parseHost Cfg.default I u (utf8 (c :: s)) ns =
        if c == '[' then
          (if !((c :: s).getLast? == some ']') then fail6 Cfg.default u .IPv6Unclosed
           else parseIPv6 Cfg.default u (trimSuffix1 (trimPrefix1 (utf8 (c :: s)) [0x5b]) [0x5d]))
        else if ns then parseOpaqueHost Cfg.default u (utf8 (c :: s))
        else domainPart I u (utf8 (c :: s)) := by
      rw [← utf8_endsWith, ← hb, e, parseHost_cons]
    rw [hP, spec_parseHost_eq]
    simp only [List.head?_cons, Option.some_beq_some]
    by_cases hc : c = '['
    · subst hc
      simp only [beq_self_eq_true, if_true]
      by_cases hl : ('[' :: s).getLast? = some ']'
      · simp only [hl, beq_self_eq_true, Bool.not_true, Bool.false_eq_true, if_false, bne_self_eq_false]
        rw [utf8_strip_brackets _ rfl hl]
        have h8 := C08.C08_parse_conforms Cfg.default u (utf8 ((('[' :: s).drop 1).dropLast))
        have hg := (parseIPv6_good Cfg.default rfl u (utf8 ((('[' :: s).drop 1).dropLast))).2
        rw [goRunes_utf8] at h8
        cases hs : Spec.parseIPv6 ((('[' :: s).drop 1).dropLast) with
        | none =>
          rw [hs] at h8
          cases ho : (parseIPv6 Cfg.default u (utf8 ((('[' :: s).drop 1).dropLast))).out with
          | ok x => rw [ho] at h8; exact absurd h8 id
          | err e => exact hg e ho
          | panic n => rw [ho] at h8; exact absurd h8 id
        | some a =>
          rw [hs] at h8
          have ha := spec_parseIPv6_length _ a hs
          cases ho : (parseIPv6 Cfg.default u (utf8 ((('[' :: s).drop 1).dropLast))).out with
          | ok x =>
            rw [ho] at h8
            simp only at h8
            simp only [ROut]
            rw [h8, C08.C08_serializer_conforms a ha, Percent.utf8_append, Percent.utf8_append]
            rfl
          | err e => rw [ho] at h8; exact absurd h8 id
          | panic n => rw [ho] at h8; exact absurd h8 id
      · have hl' : (('[' :: s).getLast? == some ']') = false := by
          cases h : ('[' :: s).getLast? == some ']'
          · rfl
          · exact absurd (by simpa using h) hl
        have hl'' : (('[' :: s).getLast? != some ']') = true := by simp [bne, hl']
        simp only [hl', hl'', Bool.not_false, if_true]
        exact rfl
    · simp only [beq_false_of_ne hc, Bool.false_eq_true, if_false]
      cases ns with
      | true =>
        simp only [if_true]
        rw [parseOpaqueHost_default]
        unfold Spec.parseOpaqueHost
        by_cases hf : (c :: s).any (fun c => Spec.forbiddenHostCp c.toNat) = true
        · simp only [hf, if_true]; exact rfl
        · simp only [hf, Bool.false_eq_true, if_false]; exact rfl
      | false =>
        simp only [Bool.false_eq_true, if_false]
        exact domain_conforms I hI u (c :: s) hne

/-- **The Go host parser conforms to the standard's host parser** (default configuration, oracle laws `IdnaLaws`). -/
theorem parseHost_conforms (I : Idna) (hI : IdnaLaws I) (u : Url) (sbuf : Str) (ns : Bool) (hne : sbuf ≠ []) :
    match (parseHost {} I u (utf8 sbuf) ns).out, Spec.parseHost (specIdna I) sbuf ns with
    | .ok h, some hs => h = utf8 hs
    | .err e, none => e.failure = true
    | _, _ => False :=
  parseHost_conforms' I hI u sbuf ns hne

/-- frame: the host parser leaves the url record alone; only the ghost field `qlog` may grow (any bytes) -/
theorem parseHost_url (I : Idna) (u : Url) (b : Bytes) (ns : Bool) :
    { (parseHost {} I u b ns).url with qlog := [] } = { u with qlog := [] } := by
  show { (parseHost Cfg.default I u b ns).url with qlog := [] } = { u with qlog := [] }
  cases b with
  | nil => rfl
  | cons b0 rest =>
    rw [parseHost_cons]
    split
    · split
      · rfl
      · rw [(parseIPv6_good Cfg.default rfl u _).1]
    · split
      · unfold parseOpaqueHost; rw [opaqueLoop_url]
      · exact domainPart_url I u _

/-! ### G. non-vacuity: an oracle that satisfies the four laws, and concrete evaluations -/

/-- a toy oracle: ASCII input is lower-cased without error, anything else is an error with output `x` -/
def I0 : Idna := fun s => if s.all (fun x => x.toNat < 0x80) then (asciiLower s, false) else ([0x78], true)

theorem lowerB_ascii : ∀ x : UInt8, x.toNat < 0x80 → (lowerB x).toNat < 0x80 := forall_uint8 (by decide +kernel)

theorem I0_laws : IdnaLaws I0 where
  ascii_lower := by
    intro s hs _
    have : s.all (fun x => decide (x.toNat < 0x80)) = true :=
      List.all_eq_true.mpr (fun x hx => by simpa using hs x hx)
    simp [I0, this]
  out_ascii := by
    intro s x hx
    unfold I0 at hx
    split at hx
    · rename_i h
      simp only [asciiLower, List.mem_map] at hx
      obtain ⟨y, hy, rfl⟩ := hx
      exact lowerB_ascii y (by simpa using List.all_eq_true.mp h y hy)
    · simp only [List.mem_singleton] at hx
      subst hx; decide
  repl_fails := by
    intro d hd
    have : (utf8 d).all (fun x => decide (x.toNat < 0x80)) = false := by
      rw [List.all_eq_false]
      refine ⟨0xEF, ?_, by decide⟩
      unfold utf8
      rw [List.mem_flatMap]
      exact ⟨repl, hd, by decide⟩
    simp [I0, this]
  nonempty := by
    intro s _ hf _
    unfold I0 at hf ⊢
    split at hf
    · cases hf
    · rename_i h
      simp [h]

/-- the theorem applies (its hypotheses are satisfiable): -/
example := parseHost_conforms I0 I0_laws {} "[::1]".toList false (by decide)
example : "EXAMPLE.com".toList ≠ [] := by decide

/-! IPv6 and opaque hosts reduce in the kernel -/
example : (parseHost {} I0 {} (utf8 "[::1]".toList) false).out = .ok (lit "[::1]") ∧
    Spec.parseHost (specIdna I0) "[::1]".toList false = some "[::1]".toList := by decide +kernel
example : (parseHost {} I0 {} (utf8 "[0:0::0:01]".toList) true).out = .ok (lit "[::1]") ∧
    Spec.parseHost (specIdna I0) "[0:0::0:01]".toList true = some "[::1]".toList := by decide +kernel
example : (parseHost {} I0 {} (utf8 "[::1".toList) false).out = .err ⟨.IPv6Unclosed, true⟩ ∧
    Spec.parseHost (specIdna I0) "[::1".toList false = none := by decide +kernel
example : (parseHost {} I0 {} (utf8 "[1:2]".toList) false).out = .err ⟨.IPv6TooFewPieces, true⟩ ∧
    Spec.parseHost (specIdna I0) "[1:2]".toList false = none := by decide +kernel
example : (parseHost {} I0 {} (utf8 "a b".toList) true).out = .err ⟨.HostInvalidCodePoint, true⟩ ∧
    Spec.parseHost (specIdna I0) "a b".toList true = none := by decide +kernel
example : (parseHost {} I0 {} (utf8 ['a', Char.ofNat 0xe9, '%', '7', 'f', Char.ofNat 0x7f]) true).out =
      .ok (lit "a%C3%A9%7f%7F") ∧
    Spec.parseHost (specIdna I0) ['a', Char.ofNat 0xe9, '%', '7', 'f', Char.ofNat 0x7f] true =
      some "a%C3%A9%7f%7F".toList := by decide +kernel

/-! domain hosts go through the percent-decoder, which is compiled by well-founded recursion: rewrite it first -/

/-- the domain branch once the percent-decoding is known -/
def domainAfter (I : Idna) (u : Url) (domain : Bytes) : HR :=
  if !validUtf8 domain then fail6 Cfg.default u .DomainToASCII
  else
    match (toASCII Cfg.default I u domain).1 with
    | .err _ => fail6 Cfg.default (toASCII Cfg.default I u domain).2 .DomainToASCII
    | .ok a => hostTail (toASCII Cfg.default I u domain).2 a

def specDomainAfter (SI : Spec.SIdna) (domain : Bytes) : Option Str :=
  match Spec.domainToASCII SI (goRunes domain) with
  | none => none
  | some asciiDomain => specTailH asciiDomain

theorem eval_domain (I : Idna) (u : Url) (s : Str) (dom : Bytes) (h0 : s.head? ≠ some '[') (hne : s ≠ [])
    (hd : Spec.percentDecode (utf8 s) = dom) :
    (parseHost {} I u (utf8 s) false).out = (domainAfter I u dom).out ∧
    Spec.parseHost (specIdna I) s false = specDomainAfter (specIdna I) dom := by
  subst hd
  cases s with
  | nil => exact absurd rfl hne
  | cons c t =>
    have hc : c ≠ '[' := fun e => h0 (by rw [e]; rfl)
    obtain ⟨b0, tl, e, hb⟩ := utf8_cons_head c t
    rw [beq_false_of_ne hc] at hb
    constructor
    · show (parseHost Cfg.default I u (utf8 (c :: t)) false).out = _
      rw [e, parseHost_cons, hb]
      simp only [Bool.false_eq_true, if_false]
      unfold domainPart domainAfter
      rw [decodePercent_default]
    · rw [spec_parseHost_eq]
      simp only [List.head?_cons, Option.some_beq_some, beq_false_of_ne hc, Bool.false_eq_true, if_false]
      rfl

theorem pd_nopct (b : Bytes) (h : ∀ x ∈ b, x ≠ 0x25) : Spec.percentDecode b = b := by
  have := pd_append_ne b [] h
  simpa [Spec.percentDecode] using this

example : (parseHost {} I0 {} (utf8 "EXAMPLE.com".toList) false).out = .ok (lit "example.com") ∧
    Spec.parseHost (specIdna I0) "EXAMPLE.com".toList false = some "example.com".toList := by
  have h := eval_domain I0 {} "EXAMPLE.com".toList (lit "EXAMPLE.com") (by decide) (by decide)
    (by rw [show utf8 "EXAMPLE.com".toList = lit "EXAMPLE.com" by decide +kernel]; exact pd_nopct _ (by decide))
  rw [h.1, h.2]
  decide +kernel

example : (parseHost {} I0 {} (utf8 "1.0x2".toList) false).out = .ok (lit "1.0.0.2") ∧
    Spec.parseHost (specIdna I0) "1.0x2".toList false = some "1.0.0.2".toList := by
  have h := eval_domain I0 {} "1.0x2".toList (lit "1.0x2") (by decide) (by decide)
    (by rw [show utf8 "1.0x2".toList = lit "1.0x2" by decide +kernel]; exact pd_nopct _ (by decide))
  rw [h.1, h.2]
  decide +kernel

/-- a forbidden domain code point -/
example : (parseHost {} I0 {} (utf8 "a b".toList) false).out = .err ⟨.DomainInvalidCodePoint, true⟩ ∧
    Spec.parseHost (specIdna I0) "a b".toList false = none := by
  have h := eval_domain I0 {} "a b".toList (lit "a b") (by decide) (by decide)
    (by rw [show utf8 "a b".toList = lit "a b" by decide +kernel]; exact pd_nopct _ (by decide))
  rw [h.1, h.2]
  decide +kernel

/-- an IPv4 address out of range -/
example : (parseHost {} I0 {} (utf8 "1.2.3.256".toList) false).out = .err ⟨.IPv4OutOfRangePart, true⟩ ∧
    Spec.parseHost (specIdna I0) "1.2.3.256".toList false = none := by
  have h := eval_domain I0 {} "1.2.3.256".toList (lit "1.2.3.256") (by decide) (by decide)
    (by rw [show utf8 "1.2.3.256".toList = lit "1.2.3.256" by decide +kernel]; exact pd_nopct _ (by decide))
  rw [h.1, h.2]
  decide +kernel

/-- ill-formed UTF-8 after percent-decoding: the Go code fails before the oracle, the standard through U+FFFD -/
example : (parseHost {} I0 {} (utf8 "%ff".toList) false).out = .err ⟨.DomainToASCII, true⟩ ∧
    Spec.parseHost (specIdna I0) "%ff".toList false = none := by
  have h := eval_domain I0 {} "%ff".toList [0xff] (by decide) (by decide)
    (by rw [show utf8 "%ff".toList = [0x25, 0x66, 0x66] by decide +kernel,
          pd_pct_hex _ _ _ (by decide) (by decide), Spec.percentDecode]; decide)
  rw [h.1, h.2]
  decide +kernel

/-- non-ASCII: the toy oracle reports an error; `ß` is not ASCII-or-misc, both fail;
    `a≠b` is accepted through the ASCII-or-misc fallback with the oracle's output on both sides -/
example : (parseHost {} I0 {} (utf8 [Char.ofNat 0xdf]) false).out = .err ⟨.DomainToASCII, true⟩ ∧
    Spec.parseHost (specIdna I0) [Char.ofNat 0xdf] false = none := by
  have h := eval_domain I0 {} [Char.ofNat 0xdf] [0xc3, 0x9f] (by decide) (by decide)
    (by rw [show utf8 [Char.ofNat 0xdf] = [0xc3, 0x9f] by decide +kernel]; exact pd_nopct _ (by decide))
  rw [h.1, h.2]
  decide +kernel

example : (parseHost {} I0 {} (utf8 ['a', Char.ofNat 0x2260, 'b']) false).out = .ok (lit "x") ∧
    Spec.parseHost (specIdna I0) ['a', Char.ofNat 0x2260, 'b'] false = some "x".toList := by
  have h := eval_domain I0 {} ['a', Char.ofNat 0x2260, 'b'] [0x61, 0xe2, 0x89, 0xa0, 0x62] (by decide) (by decide)
    (by rw [show utf8 ['a', Char.ofNat 0x2260, 'b'] = [0x61, 0xe2, 0x89, 0xa0, 0x62] by decide +kernel]
        exact pd_nopct _ (by decide))
  rw [h.1, h.2]
  decide +kernel

/-- the frame fact on a run that consults the oracle: only `qlog` grows -/
example : (domainAfter I0 {} (lit "EXAMPLE.com")).url = { qlog := [lit "EXAMPLE.com"] } := by decide +kernel

end WhatwgUrl.Proofs.Sim
