import WhatwgUrl.Impl.Heap
/-
  C17c helper file 0: the stable sort of `SearchParams.Sort` is idempotent, and its result has the elements of its argument.
  (Self-contained: `Proofs/SearchParams.lean` cannot be imported together with `Proofs/Percent.lean`.)
-/
namespace WhatwgUrl.Proofs.IdemSort
open WhatwgUrl WhatwgUrl.Impl

theorem bytesLt_asymm : ∀ (a b : Bytes), bytesLt a b = true → bytesLt b a = false
  | [], [] => by simp [bytesLt]
  | [], _ :: _ => by simp [bytesLt]
  | _ :: _, [] => by simp [bytesLt]
  | x :: xs, y :: ys => by
    have ih := bytesLt_asymm xs ys
    unfold bytesLt
    by_cases h1 : x.toNat < y.toNat
    · have : ¬ y.toNat < x.toNat := by omega
      simp [h1, this]
    · by_cases h2 : y.toNat < x.toNat
      · simp [h1, h2]
      · simpa [h1, h2] using ih

theorem bytesLt_trans : ∀ (a b c : Bytes), bytesLt a b = true → bytesLt b c = true → bytesLt a c = true
  | [], [], _ => by simp [bytesLt]
  | [], _ :: _, [] => by simp [bytesLt]
  | [], _ :: _, _ :: _ => by simp [bytesLt]
  | _ :: _, [], _ => by simp [bytesLt]
  | _ :: _, _ :: _, [] => by simp [bytesLt]
  | x :: xs, y :: ys, z :: zs => by
    have ih := bytesLt_trans xs ys zs
    unfold bytesLt
    by_cases h1 : x.toNat < y.toNat
    · by_cases h2 : y.toNat < z.toNat
      · have : x.toNat < z.toNat := by omega
        simp [this]
      · by_cases h3 : z.toNat < y.toNat
        · simp [h1, h2, h3]
        · have : x.toNat < z.toNat := by omega
          simp [this]
    · by_cases h1' : y.toNat < x.toNat
      · simp [h1, h1']
      · have hxy : x.toNat = y.toNat := by omega
        by_cases h2 : y.toNat < z.toNat
        · have : x.toNat < z.toNat := by omega
          simp [this]
        · by_cases h3 : z.toNat < y.toNat
          · simp [h1, h1', h2, h3]
          · have h4 : ¬ x.toNat < z.toNat := by omega
            have h5 : ¬ z.toNat < x.toNat := by omega
            simpa [h1, h1', h2, h3, h4, h5] using ih

/-- no later element has a smaller key -/
abbrev Sorted (key : Bytes × Bytes → Bytes) (l : Pairs) : Prop :=
  l.Pairwise (fun a b => bytesLt (key b) (key a) = false)

theorem insertStable_mem (key : Bytes × Bytes → Bytes) (x : Bytes × Bytes) (l : Pairs) :
    ∀ z, z ∈ insertStable key x l ↔ z = x ∨ z ∈ l := by
  induction l with
  | nil => intro z; simp [insertStable]
  | cons y ys ih =>
    intro z
    unfold insertStable
    split
    · simp
    · simp only [List.mem_cons, ih]
      constructor
      · rintro (h | h | h)
        · exact Or.inr (Or.inl h)
        · exact Or.inl h
        · exact Or.inr (Or.inr h)
      · rintro (h | h | h)
        · exact Or.inr (Or.inl h)
        · exact Or.inl h
        · exact Or.inr (Or.inr h)

theorem foldl_insert_mem (key : Bytes × Bytes → Bytes) (l acc : Pairs) :
    ∀ z, z ∈ l.foldl (fun acc x => insertStable key x acc) acc ↔ z ∈ acc ∨ z ∈ l := by
  induction l generalizing acc with
  | nil => intro z; simp
  | cons x xs ih =>
    intro z
    simp only [List.foldl_cons, ih, insertStable_mem, List.mem_cons]
    constructor
    · rintro ((h | h) | h)
      · exact Or.inr (Or.inl h)
      · exact Or.inl h
      · exact Or.inr (Or.inr h)
    · rintro (h | h | h)
      · exact Or.inl (Or.inr h)
      · exact Or.inl (Or.inl h)
      · exact Or.inr h

theorem sortStable_mem (key : Bytes × Bytes → Bytes) (l : Pairs) : ∀ z, z ∈ sortStable key l ↔ z ∈ l := by
  intro z
  unfold sortStable
  rw [foldl_insert_mem]
  simp

theorem insertStable_sorted (key : Bytes × Bytes → Bytes) (x : Bytes × Bytes) (l : Pairs)
    (h : Sorted key l) : Sorted key (insertStable key x l) := by
  induction l with
  | nil => simp [insertStable]
  | cons y ys ih =>
    unfold insertStable
    have hy := (List.pairwise_cons.mp h)
    split
    · rename_i hlt
      refine List.pairwise_cons.mpr ⟨?_, h⟩
      intro z hz
      rcases List.mem_cons.mp hz with rfl | hz
      · exact bytesLt_asymm _ _ hlt
      · -- key x < key y, ¬ key z < key y : then ¬ key z < key x
        cases hc : bytesLt (key z) (key x) with
        | false => rfl
        | true =>
          have := bytesLt_trans _ _ _ hc hlt
          rw [hy.1 z hz] at this
          cases this
    · rename_i hlt
      refine List.pairwise_cons.mpr ⟨?_, ih hy.2⟩
      intro z hz
      rcases (insertStable_mem key x ys z).mp hz with rfl | hz
      · simpa using hlt
      · exact hy.1 z hz

theorem foldl_insert_sorted (key : Bytes × Bytes → Bytes) (l acc : Pairs) (h : Sorted key acc) :
    Sorted key (l.foldl (fun acc x => insertStable key x acc) acc) := by
  induction l generalizing acc with
  | nil => exact h
  | cons x xs ih => exact ih _ (insertStable_sorted key x acc h)

theorem sortStable_sorted (key : Bytes × Bytes → Bytes) (l : Pairs) : Sorted key (sortStable key l) :=
  foldl_insert_sorted key l [] List.Pairwise.nil

/-- inserting an element that is not smaller than any element of the list appends it -/
theorem insertStable_last (key : Bytes × Bytes → Bytes) (x : Bytes × Bytes) (l : Pairs)
    (h : ∀ y ∈ l, bytesLt (key x) (key y) = false) : insertStable key x l = l ++ [x] := by
  induction l with
  | nil => rfl
  | cons y ys ih =>
    unfold insertStable
    rw [h y (by simp)]
    simp only [Bool.false_eq_true, if_false, List.cons_append]
    rw [ih (fun z hz => h z (by simp [hz]))]

theorem foldl_insert_of_sorted (key : Bytes × Bytes → Bytes) (l acc : Pairs) (h : Sorted key (acc ++ l)) :
    l.foldl (fun acc x => insertStable key x acc) acc = acc ++ l := by
  induction l generalizing acc with
  | nil => simp
  | cons x xs ih =>
    simp only [List.foldl_cons]
    have hx : ∀ y ∈ acc, bytesLt (key x) (key y) = false := by
      intro y hy
      have := List.pairwise_append.mp h
      exact this.2.2 y hy x (by simp)
    rw [insertStable_last key x acc hx]
    have h' : Sorted key ((acc ++ [x]) ++ xs) := by simpa using h
    rw [ih _ h']
    simp

/-- sorting a sorted list changes nothing -/
theorem sortStable_of_sorted (key : Bytes × Bytes → Bytes) (l : Pairs) (h : Sorted key l) : sortStable key l = l := by
  unfold sortStable
  rw [foldl_insert_of_sorted key l [] (by simpa using h)]
  rfl

/-- **the stable sort is idempotent** -/
theorem sortStable_idem (key : Bytes × Bytes → Bytes) (l : Pairs) : sortStable key (sortStable key l) = sortStable key l :=
  sortStable_of_sorted key _ (sortStable_sorted key l)

end WhatwgUrl.Proofs.IdemSort
