import WhatwgUrl.Impl.Api
import WhatwgUrl.Proofs.HostWF
import WhatwgUrl.Proofs.Termination
import WhatwgUrl.Proofs.Percent
/-
  Helper definitions and lemmas for C04b (structural well-formedness of every reachable URL record), part 1.

  The technique is the compositional one of `Proofs/Termination.lean`: a shape predicate `Sh P D r` over `StepR`
  ("every `.cont ps'` satisfies `P`, every `.done x` satisfies `D`"), one rule per combinator of the CPS-style state
  functions (`ite`, `herr`, `afterHost ∘ parseHost`, `retUrl`, `.done`, `.cont`), one `_good` lemma per state function
  (this file: all states but path / authority / host), then `body`, `step`, `loop`, `basicParser` (part 2).

  * `WFs cfg u`            the property (conjunction of decidable facts);  `WFs ↔ WFa ∧ WFp` (authority part / path part)
  * `J e ps p`             the state-indexed machine invariant ("WFs so far"); `p` = index of the next code point.
                           It covers the fresh parse (`e.ov = none`) and the runs under a state override (setters).
                           Only the authority and host states are positional (`AuthZ`, `HostZ`): they record that the
                           code points buffered since the last `@` start with a non-delimiter, which is what makes
                           "credentials ⇒ non-empty host" true for NON-special schemes (`sc://u@/` fails, `sc://u@h/` ok);
                           the rewind `len([]rune(buffer)) + 1` needs the UTF-8 round trip of `Proofs/Utf8RT.lean`.
  * `P e ps'`              continuing step: `eof → WFs url` (the loop bottom returns it), `¬eof → J`
  * `D e x`                returning step: `x.ret ≠ outOfFuel → (override ∨ x.ret = .url) → WFs x.url`
  * `Hyp e`                the standing hypotheses (normalisations kept, oracle hypothesis, well-formed base)
  * leaves are closed by `wf_close`: `simp only` to field level, then `grind`.
-/
namespace WhatwgUrl.Props.C04b
set_option linter.unusedSimpArgs false
set_option linter.unusedVariables false
open WhatwgUrl WhatwgUrl.Impl WhatwgUrl.Proofs.HostWF

/-! ### the property -/

/-- alpha *(alnum / + / - / .), lower case -/
def schemeOk (s : Bytes) : Bool :=
  match s with
  | [] => false
  | c :: rest => isLowerN c.toNat && rest.all fun x => isLowerN x.toNat || isDigitN x.toNat || x == 0x2b || x == 0x2d || x == 0x2e

/-- canonical decimal in 0..65535, cache in sync, never the default -/
def portOk (cfg : Cfg) (u : Url) : Bool :=
  match u.port with
  | none => true
  | some p => p == itoa u.decodedPort && u.decodedPort ≤ 65535 && cfg.special? u.scheme != some p

/-- structural well-formedness -/
def WFs (cfg : Cfg) (u : Url) : Prop :=
  schemeOk u.scheme = true ∧
  (cfg.isSpecial u.scheme = true → u.host ≠ none ∧ (u.host = some [] → u.scheme = lit "file") ∧ u.path.opq = false ∧ u.path.segs ≠ []) ∧
  (u.path.opq = true → u.host = none ∧ u.path.segs.length = 1) ∧
  ((u.username ≠ [] ∨ u.password ≠ [] ∨ u.port ≠ none) → u.host ≠ none ∧ u.host ≠ some [] ∧ u.scheme ≠ lit "file") ∧
  portOk cfg u = true ∧
  (u.scheme = lit "file" → u.host ≠ none)

instance (cfg : Cfg) (u : Url) : Decidable (WFs cfg u) := by unfold WFs; infer_instance

/-- the `∃`-form of the opaque-path clause -/
theorem WFs_opaque_single {cfg : Cfg} {u : Url} (h : WFs cfg u) (ho : u.path.opq = true) : ∃ s, u.path.segs = [s] := by
  have := (h.2.2.1 ho).2
  match hs : u.path.segs, this with
  | [s], _ => exact ⟨s, rfl⟩

/-! ### field-level forms -/

def portOkF (cfg : Cfg) (scheme : Bytes) (port : Option Bytes) (dp : Nat) : Bool :=
  match port with
  | none => true
  | some p => p == itoa dp && dp ≤ 65535 && cfg.special? scheme != some p

theorem portOk_eq (cfg : Cfg) (u : Url) : portOk cfg u = portOkF cfg u.scheme u.port u.decodedPort := rfl
@[simp] theorem portOkF_none (cfg : Cfg) (s : Bytes) (d : Nat) : portOkF cfg s none d = true := rfl

/-- everything of `WFs` that does not talk about the path -/
def WFa (cfg : Cfg) (u : Url) : Prop :=
  schemeOk u.scheme = true ∧
  (cfg.isSpecial u.scheme = true → u.host ≠ none ∧ (u.host = some [] → u.scheme = lit "file")) ∧
  ((u.username ≠ [] ∨ u.password ≠ [] ∨ u.port ≠ none) → u.host ≠ none ∧ u.host ≠ some [] ∧ u.scheme ≠ lit "file") ∧
  portOkF cfg u.scheme u.port u.decodedPort = true ∧
  (u.scheme = lit "file" → u.host ≠ none)

/-- the path clauses of `WFs` -/
def WFp (cfg : Cfg) (u : Url) : Prop :=
  (cfg.isSpecial u.scheme = true → u.path.opq = false ∧ u.path.segs ≠ []) ∧
  (u.path.opq = true → u.host = none ∧ u.path.segs.length = 1)

theorem WFs_iff (cfg : Cfg) (u : Url) : WFs cfg u ↔ WFa cfg u ∧ WFp cfg u := by
  unfold WFs WFa WFp
  rw [portOk_eq]
  constructor
  · rintro ⟨h1, h2, h3, h4, h5, h6⟩
    exact ⟨⟨h1, fun h => ⟨(h2 h).1, (h2 h).2.1⟩, h4, h5, h6⟩, fun h => ⟨(h2 h).2.2.1, (h2 h).2.2.2⟩, h3⟩
  · rintro ⟨⟨h1, h2, h4, h5, h6⟩, h7, h3⟩
    exact ⟨h1, fun h => ⟨(h2 h).1, (h2 h).2, (h7 h).1, (h7 h).2⟩, h3, h4, h5, h6⟩

def Blank (u : Url) : Prop :=
  u.username = [] ∧ u.password = [] ∧ u.host = none ∧ u.port = none ∧ u.path = ⟨[], false⟩

/-- url in the states between the scheme and the authority -/
def PreAuth (u : Url) : Prop := schemeOk u.scheme = true ∧ u.scheme ≠ lit "file" ∧ Blank u

/-- url in the file states -/
def FileJ (u : Url) : Prop :=
  u.scheme = lit "file" ∧ u.username = [] ∧ u.password = [] ∧ u.port = none ∧ u.host ≠ none ∧ u.path.opq = false

def CanPort (u : Url) : Prop := u.host ≠ none ∧ u.host ≠ some [] ∧ u.scheme ≠ lit "file"

def NonDelim (c : Char) : Prop := c ≠ '/' ∧ c ≠ '?' ∧ c ≠ '#'

/-- positional invariant of the authority state: the buffer is the UTF-8 of the code points read since the last `@`,
    and the first of them (at index `p - |s|`, `p` = index of the next code point to read) is not a delimiter -/
def AuthZ (e : Env) (ps : PS) (p : Int) : Prop :=
  ∃ s : Str, ps.buffer = utf8 s ∧ (s ≠ [] → ∃ c, cur e.runes (p - s.length) = some c ∧ NonDelim c)

/-- positional invariant of the host state (fresh parse): with credentials the host cannot come out empty -/
def HostZ (e : Env) (ps : PS) (p : Int) : Prop :=
  (ps.url.username ≠ [] ∨ ps.url.password ≠ []) → ps.buffer ≠ [] ∨ ∃ c, cur e.runes p = some c ∧ NonDelim c

/-- the state-indexed machine invariant; `p` is the index of the next code point to be read -/
def J (e : Env) (ps : PS) (p : Int) : Prop :=
  match ps.state with
  | .schemeStart =>
    ps.buffer = [] ∧ ((e.ov = none ∧ Blank ps.url) ∨ (e.ov = some .schemeStart ∧ WFs e.cfg ps.url))
  | .scheme =>
    schemeOk ps.buffer = true ∧ ((e.ov = none ∧ Blank ps.url) ∨ (e.ov = some .schemeStart ∧ WFs e.cfg ps.url))
  | .noScheme => e.ov = none ∧ ps.buffer = [] ∧ Blank ps.url
  | .relative =>
    e.ov = none ∧ ps.buffer = [] ∧ Blank ps.url ∧ (∀ b, e.base = some b → b.scheme ≠ lit "file" ∧ b.path.opq = false)
  | .relativeSlash =>
    e.ov = none ∧ ps.buffer = [] ∧ PreAuth ps.url ∧ (∀ b, e.base = some b → b.scheme = ps.url.scheme)
  | .specialRelativeOrAuthority =>
    e.ov = none ∧ ps.buffer = [] ∧ PreAuth ps.url ∧ e.cfg.isSpecial ps.url.scheme = true ∧
      ∃ b, e.base = some b ∧ b.scheme = ps.url.scheme
  | .specialAuthoritySlashes => e.ov = none ∧ ps.buffer = [] ∧ PreAuth ps.url
  | .specialAuthorityIgnoreSlashes => e.ov = none ∧ ps.buffer = [] ∧ PreAuth ps.url
  | .pathOrAuthority => e.ov = none ∧ ps.buffer = [] ∧ PreAuth ps.url ∧ e.cfg.isSpecial ps.url.scheme = false
  | .authority =>
    e.ov = none ∧ schemeOk ps.url.scheme = true ∧ ps.url.scheme ≠ lit "file" ∧ ps.url.host = none ∧ ps.url.port = none ∧
      ps.url.path = ⟨[], false⟩ ∧ (ps.atFlag = false → ps.url.username = [] ∧ ps.url.password = []) ∧ AuthZ e ps p
  | .host | .hostname =>
    (e.ov = none ∧ schemeOk ps.url.scheme = true ∧ ps.url.scheme ≠ lit "file" ∧ ps.url.port = none ∧
        ps.url.path = ⟨[], false⟩ ∧ HostZ e ps p) ∨
    (e.ov.isSome = true ∧ WFs e.cfg ps.url ∧ ps.url.path.opq = false)
  | .port =>
    WFa e.cfg ps.url ∧ CanPort ps.url ∧ (e.ov = none → ps.url.path = ⟨[], false⟩) ∧ (e.ov.isSome = true → WFs e.cfg ps.url)
  | .file => e.ov = none ∧ Blank ps.url
  | .fileSlash => e.ov = none ∧ FileJ ps.url ∧ ps.url.path = ⟨[], false⟩
  | .fileHost =>
    FileJ ps.url ∧ (e.ov = none → ps.url.path = ⟨[], false⟩) ∧ (e.ov.isSome = true → WFs e.cfg ps.url)
  | .pathStart => WFa e.cfg ps.url ∧ ps.url.path = ⟨[], false⟩ ∧ (e.ov = none ∨ e.ov = some .pathStart)
  | .path => WFa e.cfg ps.url ∧ ps.url.path.opq = false ∧ (e.ov = none ∨ e.ov = some .pathStart)
  | .opaquePath =>
    e.ov = none ∧ schemeOk ps.url.scheme = true ∧ e.cfg.isSpecial ps.url.scheme = false ∧ ps.url.scheme ≠ lit "file" ∧
      ps.url.username = [] ∧ ps.url.password = [] ∧ ps.url.host = none ∧ ps.url.port = none ∧
      ps.url.path.opq = true ∧ ps.url.path.segs.length = 1
  | .query => WFs e.cfg ps.url
  | .fragment => WFs e.cfg ps.url

/-- the hypotheses under which the machine keeps the invariant -/
structure Hyp (e : Env) : Prop where
  hc : e.cfg.skipTrailingSlash = false
  hpre : e.cfg.preHost = none
  hpost : e.cfg.postHost = none
  hI : IdnaNonEmpty e.I
  hb : ∀ b, e.base = some b → WFs e.cfg b
  /-- only the protocol setter needs `file` to be special -/
  hfile : e.ov = some .schemeStart → e.cfg.isSpecial (lit "file") = true
  /-- only the pathname setter needs this: a non-fatal validation error that stops the parser (fail-on-validation-error
      mode) leaves the half-built path in the url -/
  hfail : e.ov = some .pathStart → stops e.cfg false = false

/-- postcondition of a continuing step -/
def P (e : Env) (ps : PS) : Prop :=
  (ps.eof = true → WFs e.cfg ps.url) ∧ (ps.eof = false → J e ps (ps.pointer + 1))

/-- postcondition of a returning step: a returned url is well-formed; under a state override (setters) the mutated
    url is well-formed however the parser returned -/
def D (e : Env) (x : Res) : Prop :=
  x.ret ≠ .outOfFuel → (e.ov.isSome = true ∨ x.ret = .url) → WFs e.cfg x.url

/-- relation between the state after `nextCodePoint` and the code point it returned -/
def Cur (e : Env) (q : PS) (r : Char) : Prop :=
  (q.eof = false ∧ cur e.runes q.pointer = some r) ∨ (q.eof = true ∧ cur e.runes q.pointer = none ∧ r = repl)

/-! ### shape predicate and its rules -/

def Sh (P : PS → Prop) (D : Res → Prop) (r : StepR) : Prop :=
  (∀ ps', r = .cont ps' → P ps') ∧ (∀ x, r = .done x → D x)

theorem Sh_done (P : PS → Prop) (D : Res → Prop) (x : Res) (hx : D x) : Sh P D (.done x) :=
  ⟨(by intro ps' h; cases h), (by intro y h; cases h; exact hx)⟩
theorem Sh_retUrl (P : PS → Prop) (D : Res → Prop) (ps : PS) (hx : D ⟨ps.url, .url⟩) : Sh P D (retUrl ps) := Sh_done _ _ _ hx
theorem Sh_cont (P : PS → Prop) (D : Res → Prop) (ps : PS) (h : P ps) : Sh P D (.cont ps) :=
  ⟨(by intro ps' h'; cases h'; exact h), (by intro y h; cases h)⟩
theorem Sh_ite (P : PS → Prop) (D : Res → Prop) (c : Prop) [Decidable c] (a b : StepR) (ha : c → Sh P D a) (hb : ¬ c → Sh P D b) :
    Sh P D (if c then a else b) := by
  by_cases hc : c
  · rw [if_pos hc]; exact ha hc
  · rw [if_neg hc]; exact hb hc
theorem Sh_herr_true (P : PS → Prop) (D : Res → Prop) (e : Env) (ps : PS) (t : ErrT) (k : PS → StepR)
    (hd : D ⟨record e.cfg ps.url t true, .err ⟨t, true⟩ false⟩) : Sh P D (herr e ps t true k) := by
  rw [WhatwgUrl.Proofs.Termination.herr_true]; exact Sh_done _ _ _ hd
theorem Sh_herr (P : PS → Prop) (D : Res → Prop) (e : Env) (ps : PS) (t : ErrT) (f : Bool) (k : PS → StepR)
    (hd : stops e.cfg f = true → D ⟨record e.cfg ps.url t f, .err ⟨t, f⟩ false⟩)
    (h : Sh P D (k { ps with url := record e.cfg ps.url t f })) : Sh P D (herr e ps t f k) := by
  unfold herr
  apply Sh_ite
  · intro hs; exact Sh_done _ _ _ (hd hs)
  · intro _; exact h
theorem Sh_afterHost (P : PS → Prop) (D : Res → Prop) (hr : HR) (ps : PS) (k : PS → Bytes → StepR)
    (hd : ∀ ret, ret ≠ .url → D ⟨hr.url, ret⟩)
    (h : ∀ b, hr.out = .ok b → Sh P D (k { ps with url := hr.url } b)) : Sh P D (afterHost hr ps k) := by
  unfold afterHost
  split
  · rename_i b hb; exact h b hb
  · exact Sh_done _ _ _ (hd _ (by simp))
  · exact Sh_done _ _ _ (hd _ (by simp))

/-- `afterHost ∘ parseHost`: the url comes back `Same`, the host is empty iff the input was -/
theorem Sh_afterHost_ph (P : PS → Prop) (D : Res → Prop) (e : Env) (H : Hyp e) (ps : PS) (buf : Bytes) (ns : Bool)
    (k : PS → Bytes → StepR)
    (hd : ∀ u', Same ps.url u' → ∀ ret, ret ≠ .url → D ⟨u', ret⟩)
    (h : ∀ u' b, Same ps.url u' → (buf ≠ [] → b ≠ []) → (buf = [] → b = []) → Sh P D (k { ps with url := u' } b)) :
    Sh P D (afterHost (parseHost e.cfg e.I ps.url buf ns) ps k) := by
  have hs := parseHost_same e.cfg e.I ps.url buf ns H.hpre H.hpost H.hI
  apply Sh_afterHost
  · exact hd _ hs
  · intro b hb
    apply h _ _ hs
    · intro hne; exact parseHost_ne e.cfg e.I ps.url buf ns H.hpre H.hpost H.hI hne b hb
    · intro he
      subst he
      rw [parseHost_nil _ _ _ _ H.hpre] at hb
      cases hb; rfl

/-! ### projection lemmas -/

section proj
variable (cfg : Cfg) (u : Url) (t : ErrT) (f : Bool)
@[simp] theorem record_scheme : (record cfg u t f).scheme = u.scheme := (Same_record cfg u t f).1
@[simp] theorem record_username : (record cfg u t f).username = u.username := (Same_record cfg u t f).2.1
@[simp] theorem record_password : (record cfg u t f).password = u.password := (Same_record cfg u t f).2.2.1
@[simp] theorem record_host : (record cfg u t f).host = u.host := (Same_record cfg u t f).2.2.2.1
@[simp] theorem record_port : (record cfg u t f).port = u.port := (Same_record cfg u t f).2.2.2.2.1
@[simp] theorem record_decodedPort : (record cfg u t f).decodedPort = u.decodedPort := (Same_record cfg u t f).2.2.2.2.2.1
@[simp] theorem record_path : (record cfg u t f).path = u.path := (Same_record cfg u t f).2.2.2.2.2.2.1
@[simp] theorem record_query : (record cfg u t f).query = u.query := (Same_record cfg u t f).2.2.2.2.2.2.2.1
@[simp] theorem record_fragment : (record cfg u t f).fragment = u.fragment := (Same_record cfg u t f).2.2.2.2.2.2.2.2
end proj

theorem WFs_same {cfg : Cfg} {u u' : Url} (h : Same u u') : WFs cfg u' ↔ WFs cfg u := by
  obtain ⟨h1, h2, h3, h4, h5, h6, h7, h8, h9⟩ := h
  unfold WFs
  rw [portOk_eq, portOk_eq, h1, h2, h3, h4, h5, h6, h7]

@[simp] theorem WFs_record (cfg cfg' : Cfg) (u : Url) (t : ErrT) (f : Bool) : WFs cfg (record cfg' u t f) ↔ WFs cfg u :=
  WFs_same (Same_record _ _ _ _)

@[simp] theorem next_url (rs : Str) (ps : PS) : (next rs ps).1.url = ps.url := by unfold next; split <;> rfl
@[simp] theorem next_buffer (rs : Str) (ps : PS) : (next rs ps).1.buffer = ps.buffer := by unfold next; split <;> rfl
@[simp] theorem next_atFlag (rs : Str) (ps : PS) : (next rs ps).1.atFlag = ps.atFlag := by unfold next; split <;> rfl
@[simp] theorem next_state' (rs : Str) (ps : PS) : (next rs ps).1.state = ps.state := by unfold next; split <;> rfl
@[simp] theorem next_pointer' (rs : Str) (ps : PS) : (next rs ps).1.pointer = ps.pointer + 1 := by unfold next; split <;> rfl

theorem next_Cur (e : Env) (ps : PS) (h : ps.eof = false) : Cur e (next e.runes ps).1 (next e.runes ps).2 := by
  unfold next
  split
  · rename_i c hc; left; exact ⟨h, hc⟩
  · rename_i hc; right; exact ⟨rfl, hc, rfl⟩

/-! ### scheme buffer -/

def okB (x : UInt8) : Bool := isLowerN x.toNat || isDigitN x.toNat || x == 0x2b || x == 0x2d || x == 0x2e

theorem schemeOk_append (b l : Bytes) (hb : schemeOk b = true) (hl : l.all okB = true) : schemeOk (b ++ l) = true := by
  match b, hb with
  | c :: rest, hb =>
    simp only [schemeOk, List.cons_append, List.all_append, Bool.and_eq_true] at hb ⊢
    exact ⟨hb.1, hb.2, hl⟩

theorem scheme_table : ∀ n : Fin 128,
    (isAlphaN (Char.ofNat n.val).toNat = true → schemeOk (utf8Char (lowerC (Char.ofNat n.val))) = true) ∧
    ((isAlnumN (Char.ofNat n.val).toNat || Char.ofNat n.val == '+' || Char.ofNat n.val == '-' || Char.ofNat n.val == '.') = true →
      (utf8Char (lowerC (Char.ofNat n.val))).all okB = true) := by decide


theorem schemeOk_first (r : Char) (h : isAlphaN r.toNat = true) : schemeOk (utf8Char (lowerC r)) = true := by
  have hlt : r.toNat < 128 := by
    simp [isAlphaN, isUpperN, isLowerN] at h; omega
  have hr : Char.ofNat r.toNat = r := Char.ofNat_toNat r
  have := (scheme_table ⟨r.toNat, hlt⟩).1
  simp only [hr] at this
  exact this h

theorem okB_next (r : Char) (h : (isAlnumN r.toNat || r == '+' || r == '-' || r == '.') = true) :
    (utf8Char (lowerC r)).all okB = true := by
  have hlt : r.toNat < 128 := by
    simp only [Bool.or_eq_true, beq_iff_eq] at h
    rcases h with ((h | h) | h) | h
    · simp [isAlnumN, isAlphaN, isUpperN, isLowerN, isDigitN] at h; omega
    · subst h; decide
    · subst h; decide
    · subst h; decide
  have hr : Char.ofNat r.toNat = r := Char.ofNat_toNat r
  have := (scheme_table ⟨r.toNat, hlt⟩).2
  simp only [hr] at this
  exact this h

theorem schemeOk_next (b : Bytes) (r : Char) (hb : schemeOk b = true)
    (h : (isAlnumN r.toNat || r == '+' || r == '-' || r == '.') = true) : schemeOk (b ++ utf8Char (lowerC r)) = true :=
  schemeOk_append _ _ hb (okB_next r h)

theorem schemeOk_first' (b : Bytes) (r : Char) (hb : b = []) (h : isAlphaN r.toNat = true) :
    schemeOk (b ++ utf8Char (lowerC r)) = true := by
  subst hb; exact schemeOk_first r h

theorem schemeOk_file : schemeOk (lit "file") = true := by decide

theorem Cur_eof {e : Env} {q : PS} {r : Char} (h : Cur e q r) : q.eof = true → r = repl := by
  rcases h with ⟨h, _⟩ | ⟨_, _, h⟩
  · intro h'; rw [h] at h'; cases h'
  · intro _; exact h

/-! ### facts about U+FFFD, the code point returned at EOF -/

theorem repl_alpha : isAlphaN repl.toNat = false := by decide
theorem repl_alnum : isAlnumN repl.toNat = false := by decide
theorem repl_digit : isDigitN repl.toNat = false := by decide
theorem repl_slash : (repl == '/') = false := by decide
theorem repl_bslash : (repl == '\\') = false := by decide
theorem repl_qm : (repl == '?') = false := by decide
theorem repl_hash : (repl == '#') = false := by decide
theorem repl_colon : (repl == ':') = false := by decide
theorem repl_at : (repl == '@') = false := by decide
theorem repl_plus : (repl == '+') = false := by decide
theorem repl_minus : (repl == '-') = false := by decide
theorem repl_dot : (repl == '.') = false := by decide
theorem repl_lb : (repl == '[') = false := by decide
theorem repl_rb : (repl == ']') = false := by decide
theorem repl_nslash : (repl != '/') = true := by decide
theorem repl_nbslash : (repl != '\\') = true := by decide
theorem repl_nhash : (repl != '#') = true := by decide

/-- specialise a state function to `r = U+FFFD` -/
macro "wf_repl" : tactic => `(tactic|
  simp only [repl_alpha, repl_alnum, repl_digit, repl_slash, repl_bslash, repl_qm, repl_hash, repl_colon, repl_at,
    repl_plus, repl_minus, repl_dot, repl_lb, repl_rb, repl_nslash, repl_nbslash, repl_nhash, spBackslash,
    Bool.or_false, Bool.false_or, Bool.or_true, Bool.true_or, Bool.and_false, Bool.false_and, Bool.and_true, Bool.true_and,
    Bool.not_false, Bool.not_true, Bool.false_eq_true, if_false, if_true, ↓reduceIte])

theorem next_eof_of_rsw (rs : Str) (ps : PS) (c r : Char) (s : Str) (hc : cur rs ps.pointer = some r)
    (h : remainingStartsWith rs ps (c :: s) = true) : (next rs ps).1.eof = false := by
  unfold remainingStartsWith runesFrom at h
  simp only [Bool.and_eq_true, Bool.not_eq_true'] at h
  obtain ⟨he, hp⟩ := h
  unfold next cur
  by_cases h0 : 0 ≤ ps.pointer + 1
  · rw [if_pos h0]
    cases hd : List.drop (ps.pointer + 1).toNat rs with
    | nil => rw [hd] at hp; simp at hp
    | cons x t =>
      have : rs[(ps.pointer + 1).toNat]? = some x := by
        have := List.getElem?_drop (xs := rs) (i := (ps.pointer + 1).toNat) (j := 0)
        rw [hd] at this
        simpa using this.symm
      rw [this]
      exact he
  · -- negative index: toNat = 0, still the head of the list
    exfalso
    unfold cur at hc
    split at hc
    · omega
    · cases hc

theorem AuthZ_nil (e : Env) (ps : PS) (p : Int) (h : ps.buffer = []) : AuthZ e ps p :=
  ⟨[], by simp [h, utf8], by simp⟩

@[simp] theorem shorten_opq (p : Path) (s : Bytes) : (p.shorten s).opq = p.opq := by
  unfold Path.shorten; repeat' (first | rfl | split)

/-! ### tactics -/

/-- reduce a leaf `P e {…}` / `D e ⟨…⟩` to field level -/
macro "wf_fl" : tactic => `(tactic|
  simp only [P, D, J, Same, HostZ, NonDelim, writeRune, rewindLast, resetInput, rewind, isSp, spBackslash, Path.setOpaque, Path.addSegment, Path.init, List.length_singleton, shorten_opq, record_scheme, record_username,
    record_password, record_host, record_port, record_decodedPort, record_path, record_query, record_fragment, WFs_record,
    next_url, next_buffer, next_atFlag, next_state', next_pointer',
    true_implies, false_implies, and_true, true_and, reduceCtorEq, implies_true, not_true_eq_false, not_false_eq_true,
    forall_const, Bool.false_eq_true, Bool.true_eq_false, ne_eq, or_true, true_or, List.append_eq_nil_iff, List.cons_ne_nil, and_false] at *)

macro "wf_step" : tactic => `(tactic| first
  | dsimp only
  | apply Sh_cont
  | apply Sh_done
  | apply Sh_retUrl
  | apply Sh_herr_true
  | (apply Sh_ite <;> intro _)
  | (apply Sh_herr; intro _)
  | (apply Sh_afterHost_ph _ _ _ ‹Hyp _› <;> intros)
  | split)

macro "wf_unf" : tactic => `(tactic|
  simp only [WFs_iff, WFa, WFp, Blank, PreAuth, FileJ, CanPort, shorten_opq, record_scheme, record_username,
    record_password, record_host, record_port, record_decodedPort, record_path, record_query, record_fragment,
    true_implies, false_implies, and_true, true_and, reduceCtorEq, implies_true, not_true_eq_false, not_false_eq_true,
    forall_const, Bool.false_eq_true, Bool.true_eq_false, ne_eq, List.append_eq_nil_iff, List.cons_ne_nil, and_false,
    Bool.and_eq_true, Bool.or_eq_true, Bool.not_eq_true', beq_iff_eq, bne_iff_ne, List.isEmpty_iff,
    Option.isSome_iff_ne_none, decide_eq_true_eq] at *)

macro "wf_grind" : tactic => `(tactic|
  grind (splits := 60) [portOkF_none, schemeOk_first', schemeOk_next, schemeOk_file, next_eof_of_rsw, AuthZ_nil])

macro "wf_close" he:ident : tactic => `(tactic|
  (wf_fl; (try simp only [$he:ident]);
   first | wf_grind
         | (wf_unf; wf_grind)))

theorem ov_isSome (e : Env) : e.ov.isSome = true ↔ e.ov ≠ none := Option.isSome_iff_ne_none
theorem ov_isNone (e : Env) : e.ov.isNone = true ↔ e.ov = none := Option.isNone_iff_eq_none

/-! ### cleanDefaultPort -/

@[simp] theorem cdp_scheme (cfg : Cfg) (u : Url) : (cleanDefaultPort cfg u).scheme = u.scheme := by
  unfold cleanDefaultPort; repeat' (first | rfl | split)
@[simp] theorem cdp_username (cfg : Cfg) (u : Url) : (cleanDefaultPort cfg u).username = u.username := by
  unfold cleanDefaultPort; repeat' (first | rfl | split)
@[simp] theorem cdp_password (cfg : Cfg) (u : Url) : (cleanDefaultPort cfg u).password = u.password := by
  unfold cleanDefaultPort; repeat' (first | rfl | split)
@[simp] theorem cdp_host (cfg : Cfg) (u : Url) : (cleanDefaultPort cfg u).host = u.host := by
  unfold cleanDefaultPort; repeat' (first | rfl | split)
@[simp] theorem cdp_path (cfg : Cfg) (u : Url) : (cleanDefaultPort cfg u).path = u.path := by
  unfold cleanDefaultPort; repeat' (first | rfl | split)

def portPre (port : Option Bytes) (dp : Nat) : Bool :=
  match port with
  | none => true
  | some p => p == itoa dp && dp ≤ 65535

theorem portPre_of_portOkF {cfg : Cfg} {s : Bytes} {port : Option Bytes} {dp : Nat} (h : portOkF cfg s port dp = true) :
    portPre port dp = true := by
  cases port with
  | none => rfl
  | some p => simp only [portOkF, portPre, Bool.and_eq_true] at h ⊢; exact h.1

theorem cdp_port (cfg : Cfg) (u : Url) : (cleanDefaultPort cfg u).port ≠ none → u.port ≠ none := by
  unfold cleanDefaultPort
  split
  · split
    · intro h; exact absurd rfl h
    · exact id
  · exact id

theorem cdp_portOk (cfg : Cfg) (u : Url) (h : portPre u.port u.decodedPort = true) :
    portOkF cfg u.scheme (cleanDefaultPort cfg u).port (cleanDefaultPort cfg u).decodedPort = true := by
  unfold cleanDefaultPort
  split
  · rename_i dp hdp
    split
    · rfl
    · rename_i hne
      cases hp : u.port with
      | none => simp [hp] at hne
      | some p =>
        rw [hp] at h
        simp only [hp, portOkF, portPre, Bool.and_eq_true, hdp] at h ⊢
        refine ⟨h, ?_⟩
        simp [hp] at hne
        simpa using fun e => hne e.symm
  · rename_i hnone
    cases hp : u.port with
    | none => rfl
    | some p =>
      rw [hp] at h
      simp only [portOkF, portPre, Bool.and_eq_true, hnone] at h ⊢
      exact ⟨h, by simp⟩


theorem WFs_setScheme (cfg : Cfg) (u : Url) (buf : Bytes) (hu : WFs cfg u) (hs : schemeOk buf = true)
    (hfile : cfg.isSpecial (lit "file") = true)
    (h1 : ¬(cfg.isSpecial u.scheme = true ∧ cfg.isSpecial buf = false))
    (h2 : ¬(cfg.isSpecial u.scheme = false ∧ cfg.isSpecial buf = true))
    (h3 : ¬((u.username ≠ [] ∨ u.password ≠ [] ∨ u.port.isSome = true) ∧ buf = lit "file"))
    (h5 : ¬(u.scheme = lit "file" ∧ u.host = some [])) :
    WFs cfg (cleanDefaultPort cfg { u with scheme := buf }) := by
  have hp := cdp_portOk cfg { u with scheme := buf }
  have hp2 := cdp_port cfg { u with scheme := buf }
  simp only [WFs_iff, WFa, WFp, cdp_scheme, cdp_username, cdp_password, cdp_host, cdp_path] at hu ⊢
  have hpre := portPre_of_portOkF hu.1.2.2.2.1
  replace hp := hp hpre
  dsimp only at hp hp2 ⊢
  have hf' : buf = lit "file" → cfg.isSpecial buf = true := fun h => h ▸ hfile
  have hpn : u.port.isSome = true ↔ u.port ≠ none := Option.isSome_iff_ne_none
  generalize (cleanDefaultPort cfg { u with scheme := buf }).port = port' at *
  generalize (cleanDefaultPort cfg { u with scheme := buf }).decodedPort = dp' at *
  cases hsp : cfg.isSpecial buf <;> cases hsu : cfg.isSpecial u.scheme <;> grind


theorem WFa_setPort (cfg : Cfg) (u : Url) (n : Nat) (h : WFa cfg u) (hc : CanPort u) (hn : ¬ n > 65535) :
    WFa cfg (cleanDefaultPort cfg { u with decodedPort := n, port := some (itoa n) }) := by
  have hp := cdp_portOk cfg { u with decodedPort := n, port := some (itoa n) }
    (by simp only [portPre, Bool.and_eq_true, beq_self_eq_true, true_and, decide_eq_true_eq]; omega)
  simp only [WFa, CanPort, cdp_scheme, cdp_username, cdp_password, cdp_host, cdp_path] at h hc ⊢
  dsimp only at hp ⊢
  generalize (cleanDefaultPort cfg { u with decodedPort := n, port := some (itoa n) }).port = port' at *
  generalize (cleanDefaultPort cfg { u with decodedPort := n, port := some (itoa n) }).decodedPort = dp' at *
  grind

theorem WFp_cdp (cfg : Cfg) (u : Url) : WFp cfg (cleanDefaultPort cfg u) ↔ WFp cfg u := by
  simp only [WFp, cdp_scheme, cdp_host, cdp_path]

theorem WFp_setPort (cfg : Cfg) (u : Url) (n : Nat) (p : Option Bytes) :
    WFp cfg { u with decodedPort := n, port := p } ↔ WFp cfg u := by
  simp only [WFp]

theorem WFs_setPort (cfg : Cfg) (u : Url) (n : Nat) (h : WFs cfg u) (hc : CanPort u) (hn : ¬ n > 65535) :
    WFs cfg (cleanDefaultPort cfg { u with decodedPort := n, port := some (itoa n) }) := by
  rw [WFs_iff] at h ⊢
  exact ⟨WFa_setPort cfg u n h.1 hc hn, (WFp_cdp _ _).mpr ((WFp_setPort _ _ _ _).mpr h.2)⟩

macro "wf_fl2" : tactic => `(tactic|
  simp only [cdp_scheme, cdp_username, cdp_password, cdp_host, cdp_path] at *)

/-- closer for the leaves that involve `cleanDefaultPort` -/
macro "wf_close_port" he:ident : tactic => `(tactic|
  (wf_fl; (try wf_fl2); (try simp only [$he:ident]);
   grind (splits := 60) [WFs_setPort, WFa_setPort]))

/-! ### one lemma per state function -/

theorem stSchemeStart_good (e : Env) (H : Hyp e) (q : PS) (r : Char) (hst : q.state = .schemeStart)
    (hJ : J e q q.pointer) (hcur : Cur e q r) : Sh (P e) (D e) (stSchemeStart e q r) := by
  unfold J at hJ; rw [hst] at hJ; dsimp only at hJ
  have hb := H.hb
  have hov1 := ov_isSome e
  have hov2 := ov_isNone e
  unfold stSchemeStart
  rcases hcur with ⟨he, hc⟩ | ⟨he, hc, rfl⟩
  · repeat' wf_step
    all_goals wf_close he
  · wf_repl
    repeat' wf_step
    all_goals wf_close he

theorem stNoScheme_good (e : Env) (H : Hyp e) (q : PS) (r : Char) (hst : q.state = .noScheme)
    (hJ : J e q q.pointer) (hcur : Cur e q r) : Sh (P e) (D e) (stNoScheme e q r) := by
  unfold J at hJ; rw [hst] at hJ; dsimp only at hJ
  have hb := H.hb
  have hov1 := ov_isSome e
  have hov2 := ov_isNone e
  unfold stNoScheme
  rcases hcur with ⟨he, hc⟩ | ⟨he, hc, rfl⟩
  · repeat' wf_step
    all_goals wf_close he
  · wf_repl
    repeat' wf_step
    all_goals wf_close he

theorem stScheme_good (e : Env) (H : Hyp e) (q : PS) (r : Char) (hst : q.state = .scheme)
    (hJ : J e q q.pointer) (hcur : Cur e q r) : Sh (P e) (D e) (stScheme e q r) := by
  unfold J at hJ; rw [hst] at hJ; dsimp only at hJ
  have hb := H.hb
  have hov1 := ov_isSome e
  have hov2 := ov_isNone e
  have hfile := H.hfile
  unfold stScheme
  rcases hcur with ⟨he, hc⟩ | ⟨he, hc, rfl⟩
  · repeat' wf_step
    all_goals try wf_close he
    · wf_fl
      intros
      apply WFs_setScheme <;> grind
  · wf_repl
    repeat' wf_step
    all_goals wf_close he


theorem stSpecialRelativeOrAuthority_good (e : Env) (H : Hyp e) (q : PS) (r : Char) (hst : q.state = .specialRelativeOrAuthority)
    (hJ : J e q q.pointer) (hcur : Cur e q r) : Sh (P e) (D e) (stSpecialRelativeOrAuthority e q r) := by
  unfold J at hJ; rw [hst] at hJ; dsimp only at hJ
  have hb := H.hb
  have hov1 := ov_isSome e
  have hov2 := ov_isNone e
  unfold stSpecialRelativeOrAuthority
  rcases hcur with ⟨he, hc⟩ | ⟨he, hc, rfl⟩
  · repeat' wf_step
    all_goals wf_close he
  · wf_repl
    repeat' wf_step
    all_goals wf_close he

theorem stPathOrAuthority_good (e : Env) (H : Hyp e) (q : PS) (r : Char) (hst : q.state = .pathOrAuthority)
    (hJ : J e q q.pointer) (hcur : Cur e q r) : Sh (P e) (D e) (stPathOrAuthority e q r) := by
  unfold J at hJ; rw [hst] at hJ; dsimp only at hJ
  have hb := H.hb
  have hov1 := ov_isSome e
  have hov2 := ov_isNone e
  unfold stPathOrAuthority
  rcases hcur with ⟨he, hc⟩ | ⟨he, hc, rfl⟩
  · repeat' wf_step
    all_goals wf_close he
  · wf_repl
    repeat' wf_step
    all_goals wf_close he

theorem stSpecialAuthoritySlashes_good (e : Env) (H : Hyp e) (q : PS) (r : Char) (hst : q.state = .specialAuthoritySlashes)
    (hJ : J e q q.pointer) (hcur : Cur e q r) : Sh (P e) (D e) (stSpecialAuthoritySlashes e q r) := by
  unfold J at hJ; rw [hst] at hJ; dsimp only at hJ
  have hb := H.hb
  have hov1 := ov_isSome e
  have hov2 := ov_isNone e
  unfold stSpecialAuthoritySlashes
  rcases hcur with ⟨he, hc⟩ | ⟨he, hc, rfl⟩
  · repeat' wf_step
    all_goals wf_close he
  · wf_repl
    repeat' wf_step
    all_goals wf_close he

theorem stSpecialAuthorityIgnoreSlashes_good (e : Env) (H : Hyp e) (q : PS) (r : Char) (hst : q.state = .specialAuthorityIgnoreSlashes)
    (hJ : J e q q.pointer) (hcur : Cur e q r) : Sh (P e) (D e) (stSpecialAuthorityIgnoreSlashes e q r) := by
  unfold J at hJ; rw [hst] at hJ; dsimp only at hJ
  have hb := H.hb
  have hov1 := ov_isSome e
  have hov2 := ov_isNone e
  unfold stSpecialAuthorityIgnoreSlashes
  rcases hcur with ⟨he, hc⟩ | ⟨he, hc, rfl⟩
  · repeat' wf_step
    all_goals wf_close he
  · wf_repl
    repeat' wf_step
    all_goals wf_close he

theorem stRelative_good (e : Env) (H : Hyp e) (q : PS) (r : Char) (hst : q.state = .relative)
    (hJ : J e q q.pointer) (hcur : Cur e q r) : Sh (P e) (D e) (stRelative e q r) := by
  unfold J at hJ; rw [hst] at hJ; dsimp only at hJ
  have hb := H.hb
  have hov1 := ov_isSome e
  have hov2 := ov_isNone e
  unfold stRelative
  rcases hcur with ⟨he, hc⟩ | ⟨he, hc, rfl⟩
  · repeat' wf_step
    all_goals wf_close he
  · wf_repl
    repeat' wf_step
    all_goals wf_close he

theorem stRelativeSlash_good (e : Env) (H : Hyp e) (q : PS) (r : Char) (hst : q.state = .relativeSlash)
    (hJ : J e q q.pointer) (hcur : Cur e q r) : Sh (P e) (D e) (stRelativeSlash e q r) := by
  unfold J at hJ; rw [hst] at hJ; dsimp only at hJ
  have hb := H.hb
  have hov1 := ov_isSome e
  have hov2 := ov_isNone e
  unfold stRelativeSlash
  rcases hcur with ⟨he, hc⟩ | ⟨he, hc, rfl⟩
  · repeat' wf_step
    all_goals wf_close he
  · wf_repl
    repeat' wf_step
    all_goals wf_close he

theorem stFile_good (e : Env) (H : Hyp e) (q : PS) (r : Char) (hst : q.state = .file)
    (hJ : J e q q.pointer) (hcur : Cur e q r) : Sh (P e) (D e) (stFile e q r) := by
  unfold J at hJ; rw [hst] at hJ; dsimp only at hJ
  have hb := H.hb
  have hov1 := ov_isSome e
  have hov2 := ov_isNone e
  unfold stFile
  rcases hcur with ⟨he, hc⟩ | ⟨he, hc, rfl⟩
  · repeat' wf_step
    all_goals wf_close he
  · wf_repl
    repeat' wf_step
    all_goals wf_close he

theorem stFileSlash_good (e : Env) (H : Hyp e) (q : PS) (r : Char) (hst : q.state = .fileSlash)
    (hJ : J e q q.pointer) (hcur : Cur e q r) : Sh (P e) (D e) (stFileSlash e q r) := by
  unfold J at hJ; rw [hst] at hJ; dsimp only at hJ
  have hb := H.hb
  have hov1 := ov_isSome e
  have hov2 := ov_isNone e
  unfold stFileSlash
  rcases hcur with ⟨he, hc⟩ | ⟨he, hc, rfl⟩
  · repeat' wf_step
    all_goals wf_close he
  · wf_repl
    repeat' wf_step
    all_goals wf_close he

theorem stFileHost_good (e : Env) (H : Hyp e) (q : PS) (r : Char) (hst : q.state = .fileHost)
    (hJ : J e q q.pointer) (hcur : Cur e q r) : Sh (P e) (D e) (stFileHost e q r) := by
  unfold J at hJ; rw [hst] at hJ; dsimp only at hJ
  have hb := H.hb
  have hov1 := ov_isSome e
  have hov2 := ov_isNone e
  unfold stFileHost
  rcases hcur with ⟨he, hc⟩ | ⟨he, hc, rfl⟩
  · repeat' wf_step
    all_goals wf_close he
  · wf_repl
    repeat' wf_step
    all_goals wf_close he

theorem stPathStart_good (e : Env) (H : Hyp e) (q : PS) (r : Char) (hst : q.state = .pathStart)
    (hJ : J e q q.pointer) (hcur : Cur e q r) : Sh (P e) (D e) (stPathStart e q r) := by
  unfold J at hJ; rw [hst] at hJ; dsimp only at hJ
  have hb := H.hb
  have hc0 := H.hc
  have hfail := H.hfail
  have hov1 := ov_isSome e
  have hov2 := ov_isNone e
  unfold stPathStart
  rcases hcur with ⟨he, hc⟩ | ⟨he, hc, rfl⟩
  · repeat' wf_step
    all_goals wf_close he
  · wf_repl
    repeat' wf_step
    all_goals wf_close he

theorem stOpaquePath_good (e : Env) (H : Hyp e) (q : PS) (r : Char) (hst : q.state = .opaquePath)
    (hJ : J e q q.pointer) (hcur : Cur e q r) : Sh (P e) (D e) (stOpaquePath e q r) := by
  unfold J at hJ; rw [hst] at hJ; dsimp only at hJ
  have hb := H.hb
  have hc0 := H.hc
  have hfail := H.hfail
  have hov1 := ov_isSome e
  have hov2 := ov_isNone e
  unfold stOpaquePath unitChecks
  rcases hcur with ⟨he, hc⟩ | ⟨he, hc, rfl⟩
  · repeat' wf_step
    all_goals wf_close he
  · wf_repl
    repeat' wf_step
    all_goals wf_close he

theorem stQuery_good (e : Env) (H : Hyp e) (q : PS) (r : Char) (hst : q.state = .query)
    (hJ : J e q q.pointer) (hcur : Cur e q r) : Sh (P e) (D e) (stQuery e q r) := by
  unfold J at hJ; rw [hst] at hJ; dsimp only at hJ
  have hb := H.hb
  have hc0 := H.hc
  have hfail := H.hfail
  have hov1 := ov_isSome e
  have hov2 := ov_isNone e
  unfold stQuery unitChecks
  rcases hcur with ⟨he, hc⟩ | ⟨he, hc, rfl⟩
  · repeat' wf_step
    all_goals wf_close he
  · wf_repl
    repeat' wf_step
    all_goals wf_close he

theorem stFragment_good (e : Env) (H : Hyp e) (q : PS) (r : Char) (hst : q.state = .fragment)
    (hJ : J e q q.pointer) (hcur : Cur e q r) : Sh (P e) (D e) (stFragment e q r) := by
  unfold J at hJ; rw [hst] at hJ; dsimp only at hJ
  have hb := H.hb
  have hc0 := H.hc
  have hfail := H.hfail
  have hov1 := ov_isSome e
  have hov2 := ov_isNone e
  unfold stFragment unitChecks
  rcases hcur with ⟨he, hc⟩ | ⟨he, hc, rfl⟩
  · repeat' wf_step
    all_goals wf_close he
  · wf_repl
    repeat' wf_step
    all_goals wf_close he

theorem stPort_good (e : Env) (H : Hyp e) (q : PS) (r : Char) (hst : q.state = .port)
    (hJ : J e q q.pointer) (hcur : Cur e q r) : Sh (P e) (D e) (stPort e q r) := by
  unfold J at hJ; rw [hst] at hJ; dsimp only at hJ
  have hb := H.hb
  have hov1 := ov_isSome e
  have hov2 := ov_isNone e
  unfold stPort
  rcases hcur with ⟨he, hc⟩ | ⟨he, hc, rfl⟩
  · repeat' wf_step
    all_goals try wf_close he
    all_goals wf_close_port he
  · wf_repl
    repeat' wf_step
    all_goals try wf_close he
    all_goals wf_close_port he

end WhatwgUrl.Props.C04b
