import WhatwgUrl.Proofs.PipelineRel
/-
  C18d helper file 2: the lock-step lemma for each state function of the two families.
-/
namespace WhatwgUrl.Proofs.Pipeline
set_option linter.unusedSimpArgs false
set_option linter.unusedVariables false
open WhatwgUrl WhatwgUrl.Impl

/-- the path family -/
def sP : State → Bool
  | .pathStart | .path | .query | .fragment => true
  | _ => false

/-- the host family -/
def sH : State → Bool
  | .host | .hostname | .fileHost | .port => true
  | _ => false

macro "ag_side" : tactic => `(tactic| first | assumption | (intro _; rfl) | rfl | (intro h; cases h))

macro "ag_leaf" : tactic => `(tactic| first
  | exact RelR_cont' (hu := Ag_mk (hp := by ag_side) (hq := by ag_side) (hf := by ag_side) ..) (hs := by first | assumption | rfl)
      (hQ := by ag_side) ..
  | exact RelR_done' (hu := Ag_mk (hp := by ag_side) (hq := by ag_side) (hf := by ag_side) ..) ..)

macro "ag_step" : tactic => `(tactic| first
  | dsimp only
  | ((with_reducible apply RelR_ite) <;> intro _)
  | ag_leaf
  | ((apply RelR_ite) <;> intro _))

theorem stFragment_ag (e : Env) (wq wf : Bool) (r : Char) (p q : PS) (h : PSAg true wq wf p q) (hS : sP p.state = true)
    (hQ : p.state = .query → p.url.query = q.url.query) :
    RelR true wq wf sP (stFragment e p r) (stFragment e q r) := by
  apply of_fields (fun p => stFragment e p r) sP sP true wq wf ?_ p q h hS hQ
  intro st ptr eof buf af bf pw sc us pwd ho po dp pa pa' qu fr ve ql qu' fr' ve' ql' hp hq hf hS hQ
  have := hp rfl; subst this
  obtain ⟨cfg, I, src, rs, base, ov⟩ := e
  cases hrep : cfg.report <;>
  · simp only [stFragment, unitChecks, herr, isSp, remainingInvalidPct, record, hrep, Bool.false_eq_true, if_false, if_true]
    repeat' ag_step

theorem stQuery_ag (e : Env) (wq wf : Bool) (r : Char) (p q : PS) (h : PSAg true wq wf p q) (hS : p.state = .query)
    (hQ : p.state = .query → p.url.query = q.url.query) :
    RelR true wq wf sP (stQuery e p r) (stQuery e q r) := by
  apply of_fields (fun p => stQuery e p r) (fun s => decide (s = .query)) sP true wq wf ?_ p q h (by rw [hS]; rfl) hQ
  intro st ptr eof buf af bf pw sc us pwd ho po dp pa pa' qu fr ve ql qu' fr' ve' ql' hp hq hf hS hQ
  have := hp rfl; subst this
  have := of_decide_eq_true hS; subst this
  have := hQ rfl; subst this
  obtain ⟨cfg, I, src, rs, base, ov⟩ := e
  cases hrep : cfg.report <;>
  · simp only [stQuery, unitChecks, herr, isSp, remainingInvalidPct, record, hrep, Bool.false_eq_true, if_false, if_true]
    repeat' (first | ag_step | split)

theorem stPathStart_ag (e : Env) (wq wf : Bool) (r : Char) (p q : PS) (h : PSAg true wq wf p q) (hS : sP p.state = true)
    (hQ : p.state = .query → p.url.query = q.url.query) :
    RelR true wq wf sP (stPathStart e p r) (stPathStart e q r) := by
  apply of_fields (fun p => stPathStart e p r) sP sP true wq wf ?_ p q h hS hQ
  intro st ptr eof buf af bf pw sc us pwd ho po dp pa pa' qu fr ve ql qu' fr' ve' ql' hp hq hf hS hQ
  have := hp rfl; subst this
  obtain ⟨cfg, I, src, rs, base, ov⟩ := e
  cases hrep : cfg.report <;>
  · simp only [stPathStart, herr, isSp, rewindLast, Path.addSegment, record, hrep, Bool.false_eq_true, if_false, if_true]
    repeat' (first | ag_step | split)

theorem stPath_ag (e : Env) (wq wf : Bool) (r : Char) (p q : PS) (h : PSAg true wq wf p q) (hS : sP p.state = true)
    (hQ : p.state = .query → p.url.query = q.url.query) :
    RelR true wq wf sP (stPath e p r) (stPath e q r) := by
  apply of_fields (fun p => stPath e p r) sP sP true wq wf ?_ p q h hS hQ
  intro st ptr eof buf af bf pw sc us pwd ho po dp pa pa' qu fr ve ql qu' fr' ve' ql' hp hq hf hS hQ
  have := hp rfl; subst this
  obtain ⟨cfg, I, src, rs, base, ov⟩ := e
  cases hrep : cfg.report <;>
  · simp only [stPath, unitChecks, herr, isSp, spBackslash, remainingInvalidPct, record, hrep, Bool.false_eq_true, if_false, if_true]
    repeat' (first | ag_step)
    all_goals
      by_cases c1 : isDoubleDot buf = true
      · simp only [if_pos c1]; repeat' ag_step
      · simp only [if_neg c1]
        by_cases c2 : (isSingleDot buf && !(r == '/' || cfg.isSpecial sc && r == '\\')) = true
        · simp only [if_pos c2]; repeat' ag_step
        · simp only [if_neg c2]
          by_cases c3 : (!isSingleDot buf) = true
          · simp only [if_pos c3]
            by_cases c4 : (!cfg.collapse || !cfg.isSpecial sc || pa.isEmpty || decide (List.length (pa.segs.getLast?.getD []) > 0)) = true
            · simp only [if_pos c4]; repeat' ag_step
            · simp only [if_neg c4]; repeat' ag_step
          · simp only [if_neg c3]; repeat' ag_step

/-! ### the host family -/

theorem Ag_parseHost {wp wq wf : Bool} {u u' : Url} (cfg : Cfg) (I : Idna) (buf : Bytes) (ns : Bool) (h : Ag wp wq wf u u') :
    Ag wp wq wf (parseHost cfg I u buf ns).url (parseHost cfg I u' buf ns).url := by
  obtain ⟨a1, a2, a3, a4, a5, a6, a7, a8, a9⟩ := WhatwgUrl.Proofs.Frame.parseHost_same' cfg I u buf ns
  obtain ⟨b1, b2, b3, b4, b5, b6, b7, b8, b9⟩ := WhatwgUrl.Proofs.Frame.parseHost_same' cfg I u' buf ns
  obtain ⟨h1, h2, h3, h4, h5, h6, h7, h8, h9⟩ := h
  unfold Ag
  rw [a1, a2, a3, a4, a5, a6, a7, a8, a9, b1, b2, b3, b4, b5, b6, b7, b8, b9]
  exact ⟨h1, h2, h3, h4, h5, h6, h7, h8, h9⟩

theorem RelR_afterHost (wp wq wf : Bool) (S : State → Bool) (cfg : Cfg) (I : Idna) (hH : HostOk cfg I) (u u' : Url)
    (hu : Ag wp wq wf u u') (buf : Bytes) (ns : Bool) (st : State) (ptr : Int) (eof : Bool) (b : Bytes) (af bf pw : Bool) (w w' : Url)
    (k k' : PS → Bytes → StepR)
    (hk : ∀ (v v' : Url) (h : Bytes), Ag wp wq wf v v' →
      RelR wp wq wf S (k ⟨st, ptr, eof, b, af, bf, pw, v⟩ h) (k' ⟨st, ptr, eof, b, af, bf, pw, v'⟩ h)) :
    RelR wp wq wf S (afterHost (parseHost cfg I u buf ns) ⟨st, ptr, eof, b, af, bf, pw, w⟩ k)
      (afterHost (parseHost cfg I u' buf ns) ⟨st, ptr, eof, b, af, bf, pw, w'⟩ k') := by
  have hA := Ag_parseHost cfg I buf ns hu
  have n1 := WhatwgUrl.Proofs.NoPanic.parseHost_np cfg I u buf ns
  have n2 := WhatwgUrl.Proofs.NoPanic.parseHost_np cfg I u' buf ns
  unfold afterHost
  cases h1 : (parseHost cfg I u buf ns).out with
  | ok h =>
    rw [hH u u' buf ns h hu.weaken h1]
    exact hk _ _ h hA
  | panic n => exact absurd h1 (n1 n)
  | err e1 =>
    cases h2 : (parseHost cfg I u' buf ns).out with
    | ok h => rw [hH u' u buf ns h hu.symm.weaken h2] at h1; cases h1
    | panic n => exact absurd h2 (n2 n)
    | err e2 => exact ⟨hA, Or.inr ⟨⟨_, _, rfl⟩, ⟨_, _, rfl⟩⟩⟩

theorem stPort_ag (e : Env) (hov : e.ov.isSome = true) (wp wq wf : Bool) (r : Char) (p q : PS) (h : PSAg wp wq wf p q) (hS : sH p.state = true)
    (hQ : p.state = .query → p.url.query = q.url.query) :
    RelR wp wq wf sH (stPort e p r) (stPort e q r) := by
  apply of_fields (fun p => stPort e p r) sH sH wp wq wf ?_ p q h hS hQ
  intro st ptr eof buf af bf pw sc us pwd ho po dp pa pa' qu fr ve ql qu' fr' ve' ql' hp hq hf hS hQ
  obtain ⟨cfg, I, src, rs, base, ov⟩ := e
  cases ov with
  | none => cases hov
  | some o =>
    cases hrep : cfg.report <;>
    · simp only [stPort, herr, isSp, spBackslash, writeRune, retUrl, cleanDefaultPort, record, hrep, Option.isSome_some, Bool.or_true, Bool.false_eq_true, if_false, if_true]
      repeat' (first | ag_step | split)

macro "ag_host " hH:term : tactic => `(tactic|
  (refine RelR_afterHost (hH := $hH) (hu := Ag_mk (hp := by ag_side) (hq := by ag_side) (hf := by ag_side) ..) (hk := ?_) ..
   intro v v' h hv
   obtain ⟨sc2, us2, pwd2, ho2, po2, dp2, pa2, qu2, fr2, ve2, ql2⟩ := v
   obtain ⟨sc3, us3, pwd3, ho3, po3, dp3, pa3, qu3, fr3, ve3, ql3⟩ := v'
   obtain ⟨a1, a2, a3, a4, a5, a6, a7, a8, a9⟩ := hv
   dsimp only at a1 a2 a3 a4 a5 a6 a7 a8 a9
   subst a1 a2 a3 a4 a5 a6))

theorem stFileHost_ag (e : Env) (hH : HostOk e.cfg e.I) (hov : e.ov.isSome = true) (wp wq wf : Bool) (r : Char) (p q : PS)
    (h : PSAg wp wq wf p q) (hS : sH p.state = true) (hQ : p.state = .query → p.url.query = q.url.query) :
    RelR wp wq wf sH (stFileHost e p r) (stFileHost e q r) := by
  apply of_fields (fun p => stFileHost e p r) sH sH wp wq wf ?_ p q h hS hQ
  intro st ptr eof buf af bf pw sc us pwd ho po dp pa pa' qu fr ve ql qu' fr' ve' ql' hp hq hf hS hQ
  obtain ⟨cfg, I, src, rs, base, ov⟩ := e
  cases ov with
  | none => cases hov
  | some o =>
    cases hrep : cfg.report <;>
    · simp only [stFileHost, herr, isSp, spBackslash, writeRune, retUrl, rewindLast, record, hrep, Option.isSome_some, Option.isNone_some,
        Bool.false_and, Bool.or_true, Bool.false_eq_true, if_false, if_true]
      repeat' (first | ag_step | ag_host hH)

theorem stHost_ag (e : Env) (hH : HostOk e.cfg e.I) (hov : e.ov.isSome = true) (wp wq wf : Bool) (r : Char) (p q : PS)
    (h : PSAg wp wq wf p q) (hS : sH p.state = true) (hQ : p.state = .query → p.url.query = q.url.query) :
    RelR wp wq wf sH (stHost e p r) (stHost e q r) := by
  apply of_fields (fun p => stHost e p r) sH sH wp wq wf ?_ p q h hS hQ
  intro st ptr eof buf af bf pw sc us pwd ho po dp pa pa' qu fr ve ql qu' fr' ve' ql' hp hq hf hS hQ
  obtain ⟨cfg, I, src, rs, base, ov⟩ := e
  cases ov with
  | none => cases hov
  | some o =>
    cases hrep : cfg.report <;>
    · simp only [stHost, herr, isSp, spBackslash, writeRune, retUrl, rewindLast, currentIsInvalid, currentAsByte, record, hrep,
        Option.isSome_some, Option.isNone_some, Bool.true_and, Bool.false_and, Bool.or_true, Bool.false_eq_true, if_false, if_true]
      repeat' (first | ag_step | ag_host hH)
      all_goals
        by_cases hb1 : (r == '[') = true
        · simp only [if_pos hb1]
          cases hx : src[byteOffset src ptr]? <;> repeat' ag_step
        · simp only [if_neg hb1]
          by_cases hb2 : (r == ']') = true
          · simp only [if_pos hb2]
            cases hx : src[byteOffset src ptr]? <;> repeat' ag_step
          · simp only [if_neg hb2]
            cases hx : src[byteOffset src ptr]? <;> repeat' ag_step


/-! ### the switch, one iteration, the loop, `basicParser` -/

theorem body_agP (e : Env) (wq wf : Bool) (r : Char) (p q : PS) (h : PSAg true wq wf p q) (hS : sP p.state = true)
    (hQ : p.state = .query → p.url.query = q.url.query) :
    RelR true wq wf sP (body e p r) (body e q r) := by
  unfold body
  rw [← h.1]
  split <;> rename_i heq
  all_goals first
    | exact stPathStart_ag e wq wf r p q h hS hQ
    | exact stPath_ag e wq wf r p q h hS hQ
    | exact stQuery_ag e wq wf r p q h heq hQ
    | exact stFragment_ag e wq wf r p q h hS hQ
    | (exfalso; rw [heq] at hS; cases hS)

theorem body_agH (e : Env) (hH : HostOk e.cfg e.I) (hov : e.ov.isSome = true) (wp wq wf : Bool) (r : Char) (p q : PS)
    (h : PSAg wp wq wf p q) (hS : sH p.state = true) (hQ : p.state = .query → p.url.query = q.url.query) :
    RelR wp wq wf sH (body e p r) (body e q r) := by
  unfold body
  rw [← h.1]
  split <;> rename_i heq
  all_goals first
    | exact stHost_ag e hH hov wp wq wf r p q h hS hQ
    | exact stFileHost_ag e hH hov wp wq wf r p q h hS hQ
    | exact stPort_ag e hov wp wq wf r p q h hS hQ
    | (exfalso; rw [heq] at hS; cases hS)

theorem next_ag (rs : Str) (wp wq wf : Bool) (p q : PS) (h : PSAg wp wq wf p q) :
    PSAg wp wq wf (next rs p).1 (next rs q).1 ∧ (next rs p).2 = (next rs q).2 ∧ (next rs p).1.state = p.state ∧
      (next rs p).1.url = p.url ∧ (next rs q).1.url = q.url := by
  obtain ⟨h1, h2, h3, h4, h5, h6, h7, hu⟩ := h
  unfold next
  rw [h2]
  split
  · exact ⟨⟨h1, by simp only [h2], h3, h4, h5, h6, h7, hu⟩, rfl, rfl, rfl, rfl⟩
  · exact ⟨⟨h1, by simp only [h2], rfl, h4, h5, h6, h7, hu⟩, rfl, rfl, rfl, rfl⟩

theorem bottom_ag (wp wq wf : Bool) (S : State → Bool) (a b : StepR) (h : RelR wp wq wf S a b) :
    RelR wp wq wf S (bottom a) (bottom b) := by
  cases a with
  | done x =>
    cases b with
    | done y => exact h
    | cont q => exact h.elim
  | cont p =>
    cases b with
    | done y => exact h.elim
    | cont q =>
      obtain ⟨hps, hs, hq⟩ := h
      simp only [bottom]
      rw [← hps.2.2.1]
      split
      · exact ⟨hps.2.2.2.2.2.2.2, Or.inl rfl⟩
      · exact ⟨hps, hs, hq⟩

theorem step_agP (e : Env) (wq wf : Bool) (p q : PS) (h : PSAg true wq wf p q) (hS : sP p.state = true)
    (hQ : p.state = .query → p.url.query = q.url.query) :
    RelR true wq wf sP (step e p) (step e q) := by
  obtain ⟨n1, n2, n3, n4, n5⟩ := next_ag e.runes true wq wf p q h
  unfold step
  rw [← n2]
  exact bottom_ag _ _ _ _ _ _ (body_agP e wq wf _ _ _ n1 (by rw [n3]; exact hS) (by rw [n3, n4, n5]; exact hQ))

theorem step_agH (e : Env) (hH : HostOk e.cfg e.I) (hov : e.ov.isSome = true) (wp wq wf : Bool) (p q : PS) (h : PSAg wp wq wf p q)
    (hS : sH p.state = true) (hQ : p.state = .query → p.url.query = q.url.query) :
    RelR wp wq wf sH (step e p) (step e q) := by
  obtain ⟨n1, n2, n3, n4, n5⟩ := next_ag e.runes wp wq wf p q h
  unfold step
  rw [← n2]
  exact bottom_ag _ _ _ _ _ _ (body_agH e hH hov wp wq wf _ _ _ n1 (by rw [n3]; exact hS) (by rw [n3, n4, n5]; exact hQ))

theorem loop_ag (e : Env) (wp wq wf : Bool) (S : State → Bool)
    (hstep : ∀ p q, PSAg wp wq wf p q → S p.state = true → (p.state = .query → p.url.query = q.url.query) →
      RelR wp wq wf S (step e p) (step e q)) :
    ∀ (fuel : Nat) (p q : PS), PSAg wp wq wf p q → S p.state = true → (p.state = .query → p.url.query = q.url.query) →
      ResAg wp wq wf (loop e fuel p) (loop e fuel q) := by
  intro fuel
  induction fuel with
  | zero => intro p q h _ _; exact ⟨h.2.2.2.2.2.2.2, Or.inl rfl⟩
  | succ n ih =>
    intro p q h hS hQ
    have hs := hstep p q h hS hQ
    unfold loop
    cases h1 : step e p with
    | cont p' =>
      cases h2 : step e q with
      | cont q' =>
        rw [h1, h2] at hs
        exact ih p' q' hs.1 hs.2.1 hs.2.2
      | done y => rw [h1, h2] at hs; exact hs.elim
    | done x =>
      cases h2 : step e q with
      | cont q' => rw [h1, h2] at hs; exact hs.elim
      | done y => rw [h1, h2] at hs; exact hs

theorem basicParser_ag (cfg : Cfg) (I : Idna) (input : Bytes) (base : Option Url) (ov : State) (wp wq wf : Bool) (S : State → Bool)
    (hstep : ∀ (e : Env), e.cfg = cfg → e.I = I → e.ov = some ov → ∀ p q, PSAg wp wq wf p q → S p.state = true →
      (p.state = .query → p.url.query = q.url.query) → RelR wp wq wf S (step e p) (step e q))
    (u u' : Url) (hu : Ag wp wq wf u u') (hS : S ov = true) (hQ : ov = .query → u.query = u'.query) :
    ResAg wp wq wf (basicParser cfg I input base (some u) (some ov)) (basicParser cfg I input base (some u') (some ov)) := by
  unfold basicParser
  simp only [Option.isNone_some, Bool.false_and, Bool.false_eq_true, if_false, Option.getD_some]
  split
  · exact ⟨Ag_record _ _ _ hu, Or.inl rfl⟩
  · apply loop_ag _ wp wq wf S (hstep _ rfl rfl rfl)
    · refine ⟨rfl, rfl, rfl, rfl, rfl, rfl, rfl, ?_⟩
      dsimp only
      split
      · exact Ag_record _ _ _ hu
      · exact hu
    · exact hS
    · intro h
      dsimp only at h ⊢
      split
      · rw [WhatwgUrl.Proofs.Frame.record_query, WhatwgUrl.Proofs.Frame.record_query]; exact hQ h
      · exact hQ h

/-- **path family**: two runs under an override in {pathStart, path, query, fragment} on records that agree on the path -/
theorem basicParser_agP (cfg : Cfg) (I : Idna) (input : Bytes) (base : Option Url) (ov : State) (wq wf : Bool)
    (u u' : Url) (hu : Ag true wq wf u u') (hS : sP ov = true) (hQ : ov = .query → u.query = u'.query) :
    ResAg true wq wf (basicParser cfg I input base (some u) (some ov)) (basicParser cfg I input base (some u') (some ov)) :=
  basicParser_ag cfg I input base ov true wq wf sP (fun e _ _ _ p q h hs hq => step_agP e wq wf p q h hs hq) u u' hu hS hQ

/-- **host family**: two runs under an override in {host, hostname, fileHost, port} -/
theorem basicParser_agH (cfg : Cfg) (I : Idna) (hH : HostOk cfg I) (input : Bytes) (base : Option Url) (ov : State) (wp wq wf : Bool)
    (u u' : Url) (hu : Ag wp wq wf u u') (hS : sH ov = true) :
    ResAg wp wq wf (basicParser cfg I input base (some u) (some ov)) (basicParser cfg I input base (some u') (some ov)) :=
  basicParser_ag cfg I input base ov wp wq wf sH
    (fun e h1 h2 h3 p q h hs hq => step_agH e (by rw [h1, h2]; exact hH) (by rw [h3]; rfl) wp wq wf p q h hs hq) u u' hu hS
    (by intro h; subst h; cases hS)

end WhatwgUrl.Proofs.Pipeline
