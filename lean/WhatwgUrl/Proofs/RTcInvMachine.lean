import WhatwgUrl.Proofs.RTcInv
import WhatwgUrl.Proofs.CharsetMachine
import WhatwgUrl.Proofs.SimPrologue
/-
  C03c helper file, part 2: the clauses 1–6 of `RTx` are kept by the state machine — in a fresh parse (with or without a
  base) and under every state override (setters) other than the protocol setter's (`HypX.hnp`; the protocol setter is
  treated in `RTcInvSetters.lean`).  Same compositional scheme as `Proofs/WellFormed*.lean` / `Proofs/CharsetMachine.lean`
  (`Sh P D r`, one lemma per state function); the structural invariant `J` of C04b is used as a hypothesis.
  Clause 7 (`NoSl`) is `Proofs/OpaqueSlash.lean`.

  * `Xu` (clauses 1–4) holds at every loop top;
  * `Bx` is the state-indexed part: the opaque-path state is positional ("the buffer ends in a space only if the code
    point just read was a space", and the prologue of a fresh parse has stripped trailing spaces: `runes_last`); the
    path-start state of a fresh parse has a host; under an override the url is mutated in place, so the host / port /
    query / fragment states carry `Xe ∧ Xt` all the time, while the path states (pathname setter) establish them at the end;
  * `Px` / `Dx`: post-conditions of a continuing / returning step (`Dx`: under an override every way of returning counts).
-/
namespace WhatwgUrl.Proofs.RTcInv
set_option linter.unusedSimpArgs false
set_option linter.unusedVariables false
open WhatwgUrl WhatwgUrl.Impl WhatwgUrl.Proofs.HostWF WhatwgUrl.Props.C04b
open WhatwgUrl.Props.C04c (cdp_query cdp_fragment)

/-- the additional standing hypotheses (all hold in the default configuration; the state override is arbitrary except
    for the protocol setter's, which is treated separately: it is the documented exception) -/
structure HypX (e : Env) : Prop where
  hnp : e.ov ≠ some .schemeStart
  hstops : stops e.cfg false = false
  henc : e.cfg.encOverride = none
  hpct : e.cfg.pctSingle = false
  hcol : e.cfg.collapse = false
  hskip : e.cfg.skipDrive = false
  hfileSp : e.cfg.isSpecial (lit "file") = true
  hbx : ∀ b, e.base = some b → Xu b ∧ Xe b
  /-- the prologue of a fresh parse has stripped trailing spaces -/
  hlast : e.ov = none → e.runes.getLast? ≠ some ' '

/-- the state-indexed part; `p` = index of the next code point -/
def Bx (e : Env) (ps : PS) (p : Int) : Prop :=
  match ps.state with
  | .opaquePath =>
    ps.url.path = ⟨[ps.buffer], true⟩ ∧ (ps.buffer.getLast? = some 0x20 → cur e.runes (p - 1) = some ' ')
  | .query | .fragment => Xe ps.url ∧ (e.ov.isSome = true → Xt ps.url)
  | .pathStart => e.ov = none → ps.url.host ≠ none
  | .host | .hostname | .fileHost | .port => e.ov.isSome = true → Xe ps.url ∧ Xt ps.url
  | _ => True

def Px (e : Env) (ps : PS) : Prop :=
  Xu ps.url ∧ (ps.eof = true → Xe ps.url ∧ Xt ps.url) ∧ (ps.eof = false → Bx e ps (ps.pointer + 1))
/-- under a state override the url is mutated in place, so every way of returning counts -/
def Dx (e : Env) (x : Res) : Prop := (x.ret = .url ∨ e.ov.isSome = true) → Xu x.url ∧ Xe x.url ∧ Xt x.url

/-! ### path facts -/

theorem DriveOk_init : DriveOk ⟨[], false⟩ := by intro s hs; cases hs
theorem DriveOk_nil (p : Path) (h : p.segs = []) : DriveOk p := by
  intro s hs; rw [h] at hs; cases hs

theorem head?_dropLast' {α : Type} (l : List α) (s : α) (h : s ∈ l.dropLast.head?) : s ∈ l.head? := by
  match l, h with
  | [a], h => simp at h
  | a :: b :: t, h => simpa using h

theorem DriveOk_shorten (p : Path) (sc : Bytes) (h : DriveOk p) : DriveOk (p.shorten sc) := by
  unfold Path.shorten
  split
  · exact h
  · split
    · exact h
    · intro s hs
      exact h s (head?_dropLast' _ _ hs)

theorem DriveOk_add (p : Path) (s : Bytes) (h : DriveOk p) (hne : p.segs ≠ []) : DriveOk (p.addSegment s) := by
  intro x hx
  apply h x
  unfold Path.addSegment at hx
  dsimp only at hx
  cases hp : p.segs with
  | nil => exact absurd hp hne
  | cons a t => rw [hp] at hx; simpa using hx

theorem DriveOk_add_first (p : Path) (s : Bytes) (he : p.segs = [])
    (hs : isWindowsDriveLetter s = true → isNormalizedWindowsDriveLetter s = true) : DriveOk (p.addSegment s) := by
  intro x hx
  unfold Path.addSegment at hx
  dsimp only at hx
  rw [he] at hx
  simp only [List.nil_append, List.head?_cons, Option.mem_def, Option.some.injEq] at hx
  subst hx; exact hs

theorem DriveOk_add_nil (p : Path) (h : DriveOk p) : DriveOk (p.addSegment []) := by
  by_cases hne : p.segs = []
  · exact DriveOk_add_first p [] hne (by intro h; cases h)
  · exact DriveOk_add p [] h hne

@[simp] theorem addSegment_opq (p : Path) (s : Bytes) : (p.addSegment s).opq = false := rfl
theorem addSegment_ne (p : Path) (s : Bytes) : (p.addSegment s).segs ≠ [] := by simp [Path.addSegment]

theorem norm_of_drive (buf : Bytes) (h : isWindowsDriveLetter buf = true) :
    isNormalizedWindowsDriveLetter (buf.take 1 ++ [0x3a] ++ buf.drop 2) = true := by
  obtain ⟨a, b, rfl, ha, _⟩ := WhatwgUrl.Props.C04c.drive_shape buf h
  simp [isNormalizedWindowsDriveLetter, ha]

theorem isEmpty_segs (p : Path) : p.isEmpty = true ↔ p.segs = [] := by
  unfold Path.isEmpty; exact List.isEmpty_iff

/-! ### `cleanDefaultPort` and the port cache -/

theorem cdp_Xp (cfg : Cfg) (u : Url) (h : u.port = none → u.decodedPort = 0) :
    (cleanDefaultPort cfg u).port = none → (cleanDefaultPort cfg u).decodedPort = 0 := by
  unfold cleanDefaultPort
  split
  · split
    · intro _; rfl
    · exact h
  · exact h

theorem Xu_cdp (cfg : Cfg) (u : Url) (h : Xu u) : Xu (cleanDefaultPort cfg u) := by
  unfold Xu at h ⊢
  rw [cdp_scheme, cdp_host, cdp_path]
  exact ⟨cdp_Xp cfg u h.1, h.2⟩

/-! ### tactics -/

@[simp] theorem noQH_nil : noQH [] = true := rfl
theorem noQH_append (a b : Bytes) : noQH (a ++ b) = (noQH a && noQH b) := by simp [noQH]

theorem WFs_file_list (cfg : Cfg) (b : Url) (h : WFs cfg b) (hf : cfg.isSpecial (lit "file") = true) (hs : b.scheme = lit "file") :
    b.path.opq = false := (h.2.1 (by rw [hs]; exact hf)).2.2.1

theorem localhost_ne_nil : ([] : Bytes) ≠ lit "localhost" := by decide

macro "x_fl" : tactic => `(tactic|
  simp only [Px, Dx, Bx, Xu, Xe, Xt, Same, Blank, PreAuth, FileJ, CanPort, writeRune, rewindLast, resetInput, rewind, isSp, spBackslash,
    Path.setOpaque, Path.init, shorten_opq, addSegment_opq, record_scheme, record_username,
    record_password, record_host, record_port, record_decodedPort, record_path, record_query, record_fragment,
    cdp_scheme, cdp_username, cdp_password, cdp_host, cdp_path, cdp_query, cdp_fragment,
    next_url, next_buffer, next_atFlag, next_state', next_pointer', List.all_cons, List.all_nil, noQH_nil, Bool.and_true, List.getLast?_nil,
    true_implies, false_implies, and_true, true_and, reduceCtorEq, implies_true, not_true_eq_false, not_false_eq_true,
    forall_const, Bool.false_eq_true, Bool.true_eq_false, ne_eq, or_true, true_or, and_false, and_self] at *)

macro "x_step" : tactic => `(tactic| first
  | dsimp only
  | apply Sh_cont
  | apply Sh_done
  | apply Sh_retUrl
  | apply Sh_herr_true
  | (apply Sh_ite <;> intro _)
  | (apply Sh_herr; intro _)
  | (apply Sh_afterHost_ph _ _ _ ‹Hyp _› <;> intros)
  | split)

macro "x_grind" : tactic => `(tactic|
  grind (splits := 40) [DriveOk_init, DriveOk_shorten, DriveOk_add_nil, DriveOk_add_first, DriveOk_nil, addSegment_ne,
    localhost_ne_nil, cdp_Xp, next_eof_of_rsw])

macro "x_close" he:ident : tactic => `(tactic|
  (x_fl <;> (try simp only [$he:ident] at *) <;> x_grind))

/-! ### one lemma per state function -/

theorem stSchemeStart_x (e : Env) (H : Hyp e) (X : HypX e) (q : PS) (r : Char) (hst : q.state = .schemeStart)
    (hJ : J e q q.pointer) (hU : Xu q.url) (hB : Bx e q q.pointer) (hcur : Cur e q r) : Sh (Px e) (Dx e) (stSchemeStart e q r) := by
  unfold J at hJ; rw [hst] at hJ; dsimp only at hJ
  unfold Bx at hB; rw [hst] at hB; dsimp only at hB
  have hbx := X.hbx
  have hb := H.hb
  have hnp := X.hnp
  have hstops := X.hstops
  have hov1 := ov_isSome e
  have hov2 := ov_isNone e
  unfold stSchemeStart
  rcases hcur with ⟨he, hc⟩ | ⟨he, hc, rfl⟩
  · repeat' x_step
    all_goals x_close he
  · try wf_repl
    repeat' x_step
    all_goals x_close he

theorem stNoScheme_x (e : Env) (H : Hyp e) (X : HypX e) (q : PS) (r : Char) (hst : q.state = .noScheme)
    (hJ : J e q q.pointer) (hU : Xu q.url) (hB : Bx e q q.pointer) (hcur : Cur e q r) : Sh (Px e) (Dx e) (stNoScheme e q r) := by
  unfold J at hJ; rw [hst] at hJ; dsimp only at hJ
  unfold Bx at hB; rw [hst] at hB; dsimp only at hB
  have hbx := X.hbx
  have hb := H.hb
  have hbl := fun b hb' => WFs_file_list e.cfg b (H.hb b hb') X.hfileSp
  have hsts := H.hc
  have hnp := X.hnp
  have hstops := X.hstops
  have hov1 := ov_isSome e
  have hov2 := ov_isNone e
  unfold stNoScheme
  rcases hcur with ⟨he, hc⟩ | ⟨he, hc, rfl⟩
  · repeat' x_step
    all_goals x_close he
  · try wf_repl
    repeat' x_step
    all_goals x_close he

theorem stRelative_x (e : Env) (H : Hyp e) (X : HypX e) (q : PS) (r : Char) (hst : q.state = .relative)
    (hJ : J e q q.pointer) (hU : Xu q.url) (hB : Bx e q q.pointer) (hcur : Cur e q r) : Sh (Px e) (Dx e) (stRelative e q r) := by
  unfold J at hJ; rw [hst] at hJ; dsimp only at hJ
  unfold Bx at hB; rw [hst] at hB; dsimp only at hB
  have hbx := X.hbx
  have hb := H.hb
  have hbl := fun b hb' => WFs_file_list e.cfg b (H.hb b hb') X.hfileSp
  have hsts := H.hc
  have hnp := X.hnp
  have hstops := X.hstops
  have hov1 := ov_isSome e
  have hov2 := ov_isNone e
  unfold stRelative
  rcases hcur with ⟨he, hc⟩ | ⟨he, hc, rfl⟩
  · repeat' x_step
    all_goals x_close he
  · try wf_repl
    repeat' x_step
    all_goals x_close he

theorem stSpecialRelativeOrAuthority_x (e : Env) (H : Hyp e) (X : HypX e) (q : PS) (r : Char) (hst : q.state = .specialRelativeOrAuthority)
    (hJ : J e q q.pointer) (hU : Xu q.url) (hB : Bx e q q.pointer) (hcur : Cur e q r) : Sh (Px e) (Dx e) (stSpecialRelativeOrAuthority e q r) := by
  unfold J at hJ; rw [hst] at hJ; dsimp only at hJ
  unfold Bx at hB; rw [hst] at hB; dsimp only at hB
  have hbx := X.hbx
  have hb := H.hb
  have hbl := fun b hb' => WFs_file_list e.cfg b (H.hb b hb') X.hfileSp
  have hsts := H.hc
  have hnp := X.hnp
  have hstops := X.hstops
  have hov1 := ov_isSome e
  have hov2 := ov_isNone e
  unfold stSpecialRelativeOrAuthority
  rcases hcur with ⟨he, hc⟩ | ⟨he, hc, rfl⟩
  · repeat' x_step
    all_goals x_close he
  · try wf_repl
    repeat' x_step
    all_goals x_close he

theorem stPathOrAuthority_x (e : Env) (H : Hyp e) (X : HypX e) (q : PS) (r : Char) (hst : q.state = .pathOrAuthority)
    (hJ : J e q q.pointer) (hU : Xu q.url) (hB : Bx e q q.pointer) (hcur : Cur e q r) : Sh (Px e) (Dx e) (stPathOrAuthority e q r) := by
  unfold J at hJ; rw [hst] at hJ; dsimp only at hJ
  unfold Bx at hB; rw [hst] at hB; dsimp only at hB
  have hbx := X.hbx
  have hb := H.hb
  have hbl := fun b hb' => WFs_file_list e.cfg b (H.hb b hb') X.hfileSp
  have hsts := H.hc
  have hnp := X.hnp
  have hstops := X.hstops
  have hov1 := ov_isSome e
  have hov2 := ov_isNone e
  unfold stPathOrAuthority
  rcases hcur with ⟨he, hc⟩ | ⟨he, hc, rfl⟩
  · repeat' x_step
    all_goals x_close he
  · try wf_repl
    repeat' x_step
    all_goals x_close he

theorem stSpecialAuthoritySlashes_x (e : Env) (H : Hyp e) (X : HypX e) (q : PS) (r : Char) (hst : q.state = .specialAuthoritySlashes)
    (hJ : J e q q.pointer) (hU : Xu q.url) (hB : Bx e q q.pointer) (hcur : Cur e q r) : Sh (Px e) (Dx e) (stSpecialAuthoritySlashes e q r) := by
  unfold J at hJ; rw [hst] at hJ; dsimp only at hJ
  unfold Bx at hB; rw [hst] at hB; dsimp only at hB
  have hbx := X.hbx
  have hb := H.hb
  have hbl := fun b hb' => WFs_file_list e.cfg b (H.hb b hb') X.hfileSp
  have hsts := H.hc
  have hnp := X.hnp
  have hstops := X.hstops
  have hov1 := ov_isSome e
  have hov2 := ov_isNone e
  unfold stSpecialAuthoritySlashes
  rcases hcur with ⟨he, hc⟩ | ⟨he, hc, rfl⟩
  · repeat' x_step
    all_goals x_close he
  · try wf_repl
    repeat' x_step
    all_goals x_close he

theorem stSpecialAuthorityIgnoreSlashes_x (e : Env) (H : Hyp e) (X : HypX e) (q : PS) (r : Char) (hst : q.state = .specialAuthorityIgnoreSlashes)
    (hJ : J e q q.pointer) (hU : Xu q.url) (hB : Bx e q q.pointer) (hcur : Cur e q r) : Sh (Px e) (Dx e) (stSpecialAuthorityIgnoreSlashes e q r) := by
  unfold J at hJ; rw [hst] at hJ; dsimp only at hJ
  unfold Bx at hB; rw [hst] at hB; dsimp only at hB
  have hbx := X.hbx
  have hb := H.hb
  have hbl := fun b hb' => WFs_file_list e.cfg b (H.hb b hb') X.hfileSp
  have hsts := H.hc
  have hnp := X.hnp
  have hstops := X.hstops
  have hov1 := ov_isSome e
  have hov2 := ov_isNone e
  unfold stSpecialAuthorityIgnoreSlashes
  rcases hcur with ⟨he, hc⟩ | ⟨he, hc, rfl⟩
  · repeat' x_step
    all_goals x_close he
  · try wf_repl
    repeat' x_step
    all_goals x_close he

theorem stRelativeSlash_x (e : Env) (H : Hyp e) (X : HypX e) (q : PS) (r : Char) (hst : q.state = .relativeSlash)
    (hJ : J e q q.pointer) (hU : Xu q.url) (hB : Bx e q q.pointer) (hcur : Cur e q r) : Sh (Px e) (Dx e) (stRelativeSlash e q r) := by
  unfold J at hJ; rw [hst] at hJ; dsimp only at hJ
  unfold Bx at hB; rw [hst] at hB; dsimp only at hB
  have hbx := X.hbx
  have hb := H.hb
  have hbl := fun b hb' => WFs_file_list e.cfg b (H.hb b hb') X.hfileSp
  have hsts := H.hc
  have hnp := X.hnp
  have hstops := X.hstops
  have hov1 := ov_isSome e
  have hov2 := ov_isNone e
  unfold stRelativeSlash
  rcases hcur with ⟨he, hc⟩ | ⟨he, hc, rfl⟩
  · repeat' x_step
    all_goals x_close he
  · try wf_repl
    repeat' x_step
    all_goals x_close he

theorem stFile_x (e : Env) (H : Hyp e) (X : HypX e) (q : PS) (r : Char) (hst : q.state = .file)
    (hJ : J e q q.pointer) (hU : Xu q.url) (hB : Bx e q q.pointer) (hcur : Cur e q r) : Sh (Px e) (Dx e) (stFile e q r) := by
  unfold J at hJ; rw [hst] at hJ; dsimp only at hJ
  unfold Bx at hB; rw [hst] at hB; dsimp only at hB
  have hbx := X.hbx
  have hb := H.hb
  have hbl := fun b hb' => WFs_file_list e.cfg b (H.hb b hb') X.hfileSp
  have hsts := H.hc
  have hnp := X.hnp
  have hstops := X.hstops
  have hov1 := ov_isSome e
  have hov2 := ov_isNone e
  unfold stFile
  rcases hcur with ⟨he, hc⟩ | ⟨he, hc, rfl⟩
  · repeat' x_step
    all_goals x_close he
  · try wf_repl
    repeat' x_step
    all_goals x_close he

theorem stFileSlash_x (e : Env) (H : Hyp e) (X : HypX e) (q : PS) (r : Char) (hst : q.state = .fileSlash)
    (hJ : J e q q.pointer) (hU : Xu q.url) (hB : Bx e q q.pointer) (hcur : Cur e q r) : Sh (Px e) (Dx e) (stFileSlash e q r) := by
  unfold J at hJ; rw [hst] at hJ; dsimp only at hJ
  unfold Bx at hB; rw [hst] at hB; dsimp only at hB
  have hbx := X.hbx
  have hb := H.hb
  have hbl := fun b hb' => WFs_file_list e.cfg b (H.hb b hb') X.hfileSp
  have hsts := H.hc
  have hnp := X.hnp
  have hstops := X.hstops
  have hov1 := ov_isSome e
  have hov2 := ov_isNone e
  unfold stFileSlash
  rcases hcur with ⟨he, hc⟩ | ⟨he, hc, rfl⟩
  · repeat' x_step
    all_goals x_close he
  · try wf_repl
    repeat' x_step
    all_goals x_close he

theorem stFileHost_x (e : Env) (H : Hyp e) (X : HypX e) (q : PS) (r : Char) (hst : q.state = .fileHost)
    (hJ : J e q q.pointer) (hU : Xu q.url) (hB : Bx e q q.pointer) (hcur : Cur e q r) : Sh (Px e) (Dx e) (stFileHost e q r) := by
  unfold J at hJ; rw [hst] at hJ; dsimp only at hJ
  unfold Bx at hB; rw [hst] at hB; dsimp only at hB
  have hbx := X.hbx
  have hb := H.hb
  have hbl := fun b hb' => WFs_file_list e.cfg b (H.hb b hb') X.hfileSp
  have hsts := H.hc
  have hnp := X.hnp
  have hstops := X.hstops
  have hov1 := ov_isSome e
  have hov2 := ov_isNone e
  unfold stFileHost
  rcases hcur with ⟨he, hc⟩ | ⟨he, hc, rfl⟩
  · repeat' x_step
    all_goals x_close he
  · try wf_repl
    repeat' x_step
    all_goals x_close he

theorem stPathStart_x (e : Env) (H : Hyp e) (X : HypX e) (q : PS) (r : Char) (hst : q.state = .pathStart)
    (hJ : J e q q.pointer) (hU : Xu q.url) (hB : Bx e q q.pointer) (hcur : Cur e q r) : Sh (Px e) (Dx e) (stPathStart e q r) := by
  unfold J at hJ; rw [hst] at hJ; dsimp only at hJ
  unfold Bx at hB; rw [hst] at hB; dsimp only at hB
  have hbx := X.hbx
  have hb := H.hb
  have hbl := fun b hb' => WFs_file_list e.cfg b (H.hb b hb') X.hfileSp
  have hsts := H.hc
  have hnp := X.hnp
  have hstops := X.hstops
  have hov1 := ov_isSome e
  have hov2 := ov_isNone e
  unfold stPathStart
  rcases hcur with ⟨he, hc⟩ | ⟨he, hc, rfl⟩
  · repeat' x_step
    all_goals x_close he
  · try wf_repl
    repeat' x_step
    all_goals x_close he

theorem stPort_x (e : Env) (H : Hyp e) (X : HypX e) (q : PS) (r : Char) (hst : q.state = .port)
    (hJ : J e q q.pointer) (hU : Xu q.url) (hB : Bx e q q.pointer) (hcur : Cur e q r) : Sh (Px e) (Dx e) (stPort e q r) := by
  unfold J at hJ; rw [hst] at hJ; dsimp only at hJ
  unfold Bx at hB; rw [hst] at hB; dsimp only at hB
  have hbx := X.hbx
  have hb := H.hb
  have hbl := fun b hb' => WFs_file_list e.cfg b (H.hb b hb') X.hfileSp
  have hsts := H.hc
  have hnp := X.hnp
  have hstops := X.hstops
  have hov1 := ov_isSome e
  have hov2 := ov_isNone e
  unfold stPort
  rcases hcur with ⟨he, hc⟩ | ⟨he, hc, rfl⟩
  · repeat' x_step
    all_goals x_close he
  · try wf_repl
    repeat' x_step
    all_goals x_close he

theorem stScheme_x (e : Env) (H : Hyp e) (X : HypX e) (q : PS) (r : Char) (hst : q.state = .scheme)
    (hJ : J e q q.pointer) (hU : Xu q.url) (hB : Bx e q q.pointer) (hcur : Cur e q r) : Sh (Px e) (Dx e) (stScheme e q r) := by
  unfold J at hJ; rw [hst] at hJ; dsimp only at hJ
  unfold Bx at hB; rw [hst] at hB; dsimp only at hB
  have hbx := X.hbx
  have hb := H.hb
  have hbl := fun b hb' => WFs_file_list e.cfg b (H.hb b hb') X.hfileSp
  have hsts := H.hc
  have hnp := X.hnp
  have hstops := X.hstops
  have hov1 := ov_isSome e
  have hov2 := ov_isNone e
  unfold stScheme
  rcases hcur with ⟨he, hc⟩ | ⟨he, hc, rfl⟩
  · repeat' x_step
    all_goals x_close he
  · try wf_repl
    repeat' x_step
    all_goals x_close he

theorem stQuery_x (e : Env) (H : Hyp e) (X : HypX e) (q : PS) (r : Char) (hst : q.state = .query)
    (hJ : J e q q.pointer) (hU : Xu q.url) (hB : Bx e q q.pointer) (hcur : Cur e q r) : Sh (Px e) (Dx e) (stQuery e q r) := by
  unfold J at hJ; rw [hst] at hJ; dsimp only at hJ
  unfold Bx at hB; rw [hst] at hB; dsimp only at hB
  have hbx := X.hbx
  have hb := H.hb
  have hbl := fun b hb' => WFs_file_list e.cfg b (H.hb b hb') X.hfileSp
  have hsts := H.hc
  have hnp := X.hnp
  have hstops := X.hstops
  have hov1 := ov_isSome e
  have hov2 := ov_isNone e
  unfold stQuery unitChecks
  rcases hcur with ⟨he, hc⟩ | ⟨he, hc, rfl⟩
  · repeat' x_step
    all_goals x_close he
  · try wf_repl
    repeat' x_step
    all_goals x_close he

theorem stFragment_x (e : Env) (H : Hyp e) (X : HypX e) (q : PS) (r : Char) (hst : q.state = .fragment)
    (hJ : J e q q.pointer) (hU : Xu q.url) (hB : Bx e q q.pointer) (hcur : Cur e q r) : Sh (Px e) (Dx e) (stFragment e q r) := by
  unfold J at hJ; rw [hst] at hJ; dsimp only at hJ
  unfold Bx at hB; rw [hst] at hB; dsimp only at hB
  have hbx := X.hbx
  have hb := H.hb
  have hbl := fun b hb' => WFs_file_list e.cfg b (H.hb b hb') X.hfileSp
  have hsts := H.hc
  have hnp := X.hnp
  have hstops := X.hstops
  have hov1 := ov_isSome e
  have hov2 := ov_isNone e
  unfold stFragment unitChecks
  rcases hcur with ⟨he, hc⟩ | ⟨he, hc, rfl⟩
  · repeat' x_step
    all_goals x_close he
  · try wf_repl
    repeat' x_step
    all_goals x_close he

theorem stAuthority_x (e : Env) (H : Hyp e) (X : HypX e) (q : PS) (r : Char) (hst : q.state = .authority)
    (hJ : J e q q.pointer) (hU : Xu q.url) (hB : Bx e q q.pointer) (hcur : Cur e q r) : Sh (Px e) (Dx e) (stAuthority e q r) := by
  unfold J at hJ; rw [hst] at hJ; dsimp only at hJ
  unfold Bx at hB; rw [hst] at hB; dsimp only at hB
  have hbx := X.hbx
  have hb := H.hb
  have hbl := fun b hb' => WFs_file_list e.cfg b (H.hb b hb') X.hfileSp
  have hsts := H.hc
  have hnp := X.hnp
  have hstops := X.hstops
  have hov1 := ov_isSome e
  have hov2 := ov_isNone e
  unfold stAuthority
  rcases hcur with ⟨he, hc⟩ | ⟨he, hc, rfl⟩
  · repeat' x_step
    all_goals x_close he
  · try wf_repl
    repeat' x_step
    all_goals x_close he

theorem stHost_x (e : Env) (H : Hyp e) (X : HypX e) (q : PS) (r : Char) (hst : q.state = .host ∨ q.state = .hostname)
    (hJ : J e q q.pointer) (hU : Xu q.url) (hB : Bx e q q.pointer) (hcur : Cur e q r) : Sh (Px e) (Dx e) (stHost e q r) := by
  have hJ' : (e.ov = none ∧ schemeOk q.url.scheme = true ∧ q.url.scheme ≠ lit "file" ∧ q.url.port = none ∧
        q.url.path = ⟨[], false⟩ ∧ HostZ e q q.pointer) ∨
      (e.ov.isSome = true ∧ WFs e.cfg q.url ∧ q.url.path.opq = false) := by
    unfold J at hJ
    rcases hst with h | h <;> rw [h] at hJ <;> exact hJ
  have hB' : e.ov.isSome = true → Xe q.url ∧ Xt q.url := by
    unfold Bx at hB
    rcases hst with h | h <;> rw [h] at hB <;> exact hB
  clear hJ hB
  have hnp := X.hnp
  have hstops := X.hstops
  have hov1 := ov_isSome e
  have hov2 := ov_isNone e
  unfold stHost
  rcases hcur with ⟨he, hc⟩ | ⟨he, hc, rfl⟩
  · repeat' x_step
    all_goals x_close he
  · try wf_repl
    repeat' x_step
    all_goals x_close he

/-- what the path state does to the url at a segment terminator, as far as `RTx` is concerned -/
def PathStepX (u u' : Url) (slash : Bool) : Prop :=
  u'.scheme = u.scheme ∧ u'.host = u.host ∧ u'.port = u.port ∧ u'.decodedPort = u.decodedPort ∧
  u'.query = u.query ∧ u'.fragment = u.fragment ∧ u'.path.opq = false ∧
  (slash = false → u'.path.segs ≠ []) ∧ (u.scheme = lit "file" → DriveOk u'.path)

theorem Sh_path_res_x (P : PS → Prop) (D : Res → Prop) (e : Env) (hcol : e.cfg.collapse = false) (hskip : e.cfg.skipDrive = false)
    (url : Url) (buffer : Bytes) (slash : Bool) (g : StepR) (f : Url → Bytes → StepR)
    (ho : url.path.opq = false) (hd : url.scheme = lit "file" → DriveOk url.path)
    (h : ∀ u' b, PathStepX url u' slash → Sh P D (f u' b)) :
    Sh P D (match (
        (if isDoubleDot buffer then
          some ({ url with path := if !slash then (url.path.shorten url.scheme).addSegment [] else url.path.shorten url.scheme }, buffer)
        else if isSingleDot buffer && !slash then some ({ url with path := url.path.addSegment [] }, buffer)
        else if !isSingleDot buffer then
          if !e.cfg.collapse || !isSp e url || url.path.isEmpty || (url.path.segs.getLast?.getD []).length > 0 then
            some ({ url with path := (url.path.addSegment
                      (if url.scheme == lit "file" && url.path.isEmpty && isWindowsDriveLetter buffer && !e.cfg.skipDrive then
                        buffer.take 1 ++ [0x3a] ++ buffer.drop 2 else buffer)) },
                  (if url.scheme == lit "file" && url.path.isEmpty && isWindowsDriveLetter buffer && !e.cfg.skipDrive then
                        buffer.take 1 ++ [0x3a] ++ buffer.drop 2 else buffer))
          else
            some ({ url with path := { url.path with segs := (url.path.segs.dropLast ++
                      [(if url.scheme == lit "file" && url.path.isEmpty && isWindowsDriveLetter buffer && !e.cfg.skipDrive then
                        buffer.take 1 ++ [0x3a] ++ buffer.drop 2 else buffer)]) } },
                  (if url.scheme == lit "file" && url.path.isEmpty && isWindowsDriveLetter buffer && !e.cfg.skipDrive then
                        buffer.take 1 ++ [0x3a] ++ buffer.drop 2 else buffer))
        else some (url, buffer)) : Option (Url × Bytes)) with
      | none => g
      | some (url, b) => f url b) := by
  by_cases c1 : isDoubleDot buffer = true
  · rw [if_pos c1]
    apply h
    refine ⟨rfl, rfl, rfl, rfl, rfl, rfl, ?_, ?_, ?_⟩
    · dsimp only; split
      · rfl
      · rw [shorten_opq]; exact ho
    · intro hs; subst hs; simp [Path.addSegment]
    · intro hf
      dsimp only
      split
      · exact DriveOk_add_nil _ (DriveOk_shorten _ _ (hd hf))
      · exact DriveOk_shorten _ _ (hd hf)
  · rw [if_neg c1]
    by_cases c2 : (isSingleDot buffer && !slash) = true
    · rw [if_pos c2]
      apply h
      exact ⟨rfl, rfl, rfl, rfl, rfl, rfl, rfl, by intro _; simp [Path.addSegment], fun hf => DriveOk_add_nil _ (hd hf)⟩
    · rw [if_neg c2]
      by_cases c3 : (!isSingleDot buffer) = true
      · rw [if_pos c3]
        rw [if_pos (by simp [hcol])]
        apply h
        refine ⟨rfl, rfl, rfl, rfl, rfl, rfl, rfl, by intro _; simp [Path.addSegment], fun hf => ?_⟩
        dsimp only
        by_cases hne : url.path.segs = []
        · apply DriveOk_add_first _ _ hne
          split
          · rename_i hdl
            simp only [Bool.and_eq_true] at hdl
            intro _; exact norm_of_drive _ hdl.1.2
          · rename_i hdl
            intro hdr
            exfalso; apply hdl
            simp [hf, (isEmpty_segs _).mpr hne, hdr, hskip]
        · exact DriveOk_add _ _ (hd hf) hne
      · rw [if_neg c3]
        apply h
        refine ⟨rfl, rfl, rfl, rfl, rfl, rfl, ho, ?_, hd⟩
        intro hs; subst hs
        simp at c2 c3
        rw [c3] at c2; cases c2

macro "x_path_k" he:ident : tactic => `(tactic|
  (refine Sh_path_res_x _ _ _ ‹_ = false› ‹_ = false› _ _ _ _ _ ?_ ?_ ?_
   · x_close $he
   · x_close $he
   · intro u' b hok
     unfold PathStepX at hok
     (repeat' x_step) <;> x_close $he))

theorem stPath_x (e : Env) (H : Hyp e) (X : HypX e) (q : PS) (r : Char) (hst : q.state = .path)
    (hJ : J e q q.pointer) (hU : Xu q.url) (hcur : Cur e q r) : Sh (Px e) (Dx e) (stPath e q r) := by
  unfold J at hJ; rw [hst] at hJ; dsimp only at hJ
  have hnp := X.hnp
  have hstops := X.hstops
  have hov1 := ov_isSome e
  have hov2 := ov_isNone e
  have hE := Cur_eof hcur
  have r1 := repl_slash
  have r2 := repl_bslash
  have r3 := repl_qm
  have r4 := repl_hash
  have hcol := X.hcol
  have hskip := X.hskip
  have he : q.eof = q.eof := rfl
  unfold stPath unitChecks
  dsimp only
  apply Sh_ite <;> intro _
  · apply Sh_ite <;> intro _
    · apply Sh_herr
      · intro _; x_close he
      · dsimp only
        x_path_k he
    · x_path_k he
  · repeat' x_step
    all_goals x_close he

/-! ### the opaque-path state (positional) -/

theorem pct_noQH : ∀ b : UInt8, WhatwgUrl.Props.C04c.isPctByte b = true → (b != 0x3f && b != 0x23) = true ∧ b ≠ 0x20 :=
  WhatwgUrl.Proofs.IPv4.forall_uint8 (by decide +kernel)

theorem toUInt8_eq_of (r : Char) (n : Nat) (hn : n < 256) (hle : r.toNat ≤ 0x7e) (h : r.toNat.toUInt8 = n.toUInt8) : r = Char.ofNat n := by
  have h1 : r.toNat.toUInt8.toNat = r.toNat := WhatwgUrl.Props.C04c.toUInt8_toNat_of_lt _ (by omega)
  have h2 : n.toUInt8.toNat = n := WhatwgUrl.Props.C04c.toUInt8_toNat_of_lt _ hn
  have : r.toNat = n := by rw [← h1, h, h2]
  rw [← this, Char.ofNat_toNat]

theorem pe_noQH (cfg : Cfg) (henc : cfg.encOverride = none) (tr : PSet) (r : Char) (h1 : r ≠ '?') (h2 : r ≠ '#') :
    noQH (percentEncodeRune cfg tr r) = true := by
  unfold noQH
  apply WhatwgUrl.Props.C04c.pe_all cfg henc
  · intro b hb; exact (pct_noQH b hb).1
  · intro _ hle
    simp only [Bool.and_eq_true, bne_iff_ne, ne_eq]
    constructor
    · intro e; exact h1 (toUInt8_eq_of r 0x3f (by omega) hle e)
    · intro e; exact h2 (toUInt8_eq_of r 0x23 (by omega) hle e)

theorem pe_last (cfg : Cfg) (henc : cfg.encOverride = none) (tr : PSet) (r : Char)
    (h : (percentEncodeRune cfg tr r).getLast? = some 0x20) : r = ' ' := by
  rcases WhatwgUrl.Props.C04c.pe_shape cfg henc tr r with ⟨_, h2, h3⟩ | hp
  · rw [h3] at h
    simp only [List.getLast?_singleton, Option.some.injEq] at h
    exact toUInt8_eq_of r 0x20 (by omega) h2 h
  · rw [List.all_eq_true] at hp
    exact absurd rfl (pct_noQH _ (hp _ (List.mem_of_getLast? h))).2

theorem append_pe_last (cfg : Cfg) (henc : cfg.encOverride = none) (tr : PSet) (b : Bytes) (r : Char)
    (h : (b ++ percentEncodeRune cfg tr r).getLast? = some 0x20) : r = ' ' := by
  rw [List.getLast?_append] at h
  cases hl : (percentEncodeRune cfg tr r).getLast? with
  | none => exact absurd (List.getLast?_eq_none_iff.mp hl) (percentEncodeRune_ne cfg tr r)
  | some x =>
    rw [hl] at h
    simp only [Option.some_or] at h
    cases h
    exact pe_last cfg henc tr r hl

/-- the last rune, seen through the cursor -/
theorem cur_before_end (rs : Str) (c : Char) (hl : rs.getLast? ≠ some c) (p : Int) (h1 : cur rs p = none) :
    cur rs (p - 1) ≠ some c := by
  intro h2
  apply hl
  unfold cur at h1 h2
  split at h2
  · rename_i h0
    have hp : 0 ≤ p := by omega
    rw [if_pos hp] at h1
    have hlen : rs.length ≤ p.toNat := by
      rcases Nat.lt_or_ge p.toNat rs.length with hlt | hge
      · rw [List.getElem?_eq_getElem hlt] at h1; cases h1
      · exact hge
    obtain ⟨hlt, hget⟩ := List.getElem?_eq_some_iff.mp h2
    have hidx : (p - 1).toNat = rs.length - 1 := by omega
    rw [List.getLast?_eq_getElem?, ← hidx]
    exact h2
  · cases h2

theorem stOpaquePath_x (e : Env) (H : Hyp e) (X : HypX e) (q : PS) (r : Char) (hst : q.state = .opaquePath)
    (hJ : J e q q.pointer) (hU : Xu q.url) (hB : Bx e q q.pointer) (hcur : Cur e q r) : Sh (Px e) (Dx e) (stOpaquePath e q r) := by
  unfold J at hJ; rw [hst] at hJ; dsimp only at hJ
  unfold Bx at hB; rw [hst] at hB; dsimp only at hB
  have hnp := X.hnp
  have hstops := X.hstops
  have hov1 := ov_isSome e
  have hov2 := ov_isNone e
  have hq1 : r ≠ '?' → r ≠ '#' → noQH (percentEncodeRune e.cfg c0Set r) = true := pe_noQH e.cfg X.henc c0Set r
  have hl1 : (q.buffer ++ percentEncodeRune e.cfg c0Set r).getLast? = some 0x20 → r = ' ' := append_pe_last e.cfg X.henc c0Set q.buffer r
  have hend : cur e.runes q.pointer = none → cur e.runes (q.pointer - 1) ≠ some ' ' := cur_before_end e.runes ' ' (X.hlast hJ.1) q.pointer
  have hpm : q.pointer + 1 - 1 = q.pointer := by omega
  have hnb : noQH q.buffer = true := by
    have := hU.2.2.2 hJ.2.2.2.2.2.2.2.2.1
    rw [hB.1] at this
    simpa using this
  have hna := noQH_append q.buffer (percentEncodeRune e.cfg c0Set r)
  unfold stOpaquePath unitChecks
  simp only [X.hpct, percentEncodeInvalidRune, Bool.false_eq_true, if_false, ite_self]
  rcases hcur with ⟨he, hc⟩ | ⟨he, hc, rfl⟩
  · repeat' x_step
    all_goals (simp only [hst] at *; x_close he)
  · try wf_repl
    repeat' x_step
    all_goals (simp only [hst] at *; x_close he)

/-! ### the switch, one iteration, the loop -/

theorem body_x (e : Env) (H : Hyp e) (X : HypX e) (q : PS) (r : Char) (hJ : J e q q.pointer) (hU : Xu q.url)
    (hB : Bx e q q.pointer) (hcur : Cur e q r) : Sh (Px e) (Dx e) (body e q r) := by
  unfold body
  split <;> rename_i heq
  · exact stSchemeStart_x e H X q r heq hJ hU hB hcur
  · exact stScheme_x e H X q r heq hJ hU hB hcur
  · exact stNoScheme_x e H X q r heq hJ hU hB hcur
  · exact stOpaquePath_x e H X q r heq hJ hU hB hcur
  · exact stSpecialRelativeOrAuthority_x e H X q r heq hJ hU hB hcur
  · exact stSpecialAuthoritySlashes_x e H X q r heq hJ hU hB hcur
  · exact stSpecialAuthorityIgnoreSlashes_x e H X q r heq hJ hU hB hcur
  · exact stPathOrAuthority_x e H X q r heq hJ hU hB hcur
  · exact stAuthority_x e H X q r heq hJ hU hB hcur
  · exact stHost_x e H X q r (Or.inl heq) hJ hU hB hcur
  · exact stHost_x e H X q r (Or.inr heq) hJ hU hB hcur
  · exact stFile_x e H X q r heq hJ hU hB hcur
  · exact stFileHost_x e H X q r heq hJ hU hB hcur
  · exact stFileSlash_x e H X q r heq hJ hU hB hcur
  · exact stPort_x e H X q r heq hJ hU hB hcur
  · exact stPath_x e H X q r heq hJ hU hcur
  · exact stPathStart_x e H X q r heq hJ hU hB hcur
  · exact stQuery_x e H X q r heq hJ hU hB hcur
  · exact stFragment_x e H X q r heq hJ hU hB hcur
  · exact stRelative_x e H X q r heq hJ hU hB hcur
  · exact stRelativeSlash_x e H X q r heq hJ hU hB hcur

/-- the loop invariant: the structural one of C04b plus the `RTx` part -/
def InvX (e : Env) (ps : PS) : Prop := Inv e ps ∧ Xu ps.url ∧ Bx e ps (ps.pointer + 1)

theorem Bx_next (e : Env) (ps : PS) (p : Int) (h : Bx e ps p) : Bx e (next e.runes ps).1 p := by
  unfold next
  split <;> exact h

theorem step_x (e : Env) (H : Hyp e) (X : HypX e) (ps : PS) (hI : InvX e ps) :
    Sh (Px e) (Dx e) (body e (next e.runes ps).1 (next e.runes ps).2) := by
  apply body_x e H X
  · rw [next_pointer']; exact J_next e ps _ hI.1.1
  · rw [next_url]; exact hI.2.1
  · rw [next_pointer']; exact Bx_next e ps _ hI.2.2
  · exact next_Cur e ps hI.1.2

theorem step_contX (e : Env) (H : Hyp e) (X : HypX e) (ps ps' : PS) (hI : InvX e ps) (h : step e ps = .cont ps') : InvX e ps' := by
  have h1 := step_cont e H ps ps' hI.1 h
  unfold step at h
  rw [WhatwgUrl.Proofs.Termination.bottom_cont] at h
  obtain ⟨h2, he⟩ := h
  have := (step_x e H X ps hI).1 ps' h2
  exact ⟨h1, this.1, this.2.2 he⟩

theorem step_doneX (e : Env) (H : Hyp e) (X : HypX e) (ps : PS) (hI : InvX e ps) (x : Res) (h : step e ps = .done x) :
    Dx e x := by
  unfold step at h
  have hg := step_x e H X ps hI
  generalize body e (next e.runes ps).1 (next e.runes ps).2 = res at h hg
  cases res with
  | done y => simp only [bottom] at h; cases h; exact hg.2 _ rfl
  | cont p =>
    simp only [bottom] at h
    split at h
    · rename_i hp
      cases h
      intro _
      exact ⟨(hg.1 p rfl).1, (hg.1 p rfl).2.1 hp⟩
    · cases h

theorem loop_x (e : Env) (H : Hyp e) (X : HypX e) : ∀ (fuel : Nat) (ps : PS), InvX e ps →
    (loop e fuel ps).ret ≠ .outOfFuel → Dx e (loop e fuel ps) := by
  intro fuel
  induction fuel with
  | zero => intro ps _; unfold loop; intro h; exact absurd rfl h
  | succ n ih =>
    intro ps hI
    unfold loop
    split
    · rename_i ps' hs
      exact ih ps' (step_contX e H X ps ps' hI hs)
    · rename_i r hs
      intro _
      exact step_doneX e H X ps hI r hs

/-! ### the prologue: the machine never sees a trailing space -/

open WhatwgUrl.Proofs.Trim in
theorem runes_last (input : Bytes) : (goRunes (removeTabNl (trim c0OrSpaceSet input).1).1).getLast? ≠ some ' ' := by
  rw [prologue_text]
  generalize input.filter notTabNl = s
  generalize hk : dropWsR (dropWs s) = k
  intro h
  have hkne : k ≠ [] := by
    intro e; rw [e] at h; simp at h
  obtain ⟨x, hx⟩ : ∃ x, k.getLast? = some x := by
    cases h' : k.getLast? with
    | none => exact absurd (List.getLast?_eq_none_iff.mp h') hkne
    | some x => exact ⟨x, rfl⟩
  have hx21 : 0x21 ≤ x.toNat := by
    rw [← hk, dropWsR, List.getLast?_reverse] at hx
    have := List.head?_dropWhile_not isWs (dropWs s).reverse
    rw [hx] at this
    simp only [isWs, Bool.not_eq_true', decide_eq_false_iff_not] at this
    omega
  have := WhatwgUrl.Proofs.Sim.goRunes_getLast_notws k x hx hx21 ' ' h
  revert this; decide

/-! ### `basicParser` -/

/-- the parser-level statement (default configuration): a fresh parse, or a run under any state override other than the
    protocol setter's -/
theorem basicParser_Xg (I : Idna) (hI : IdnaNonEmpty I) (input : Bytes) (base url : Option Url) (ov : Option State)
    (hnp : ov ≠ some .schemeStart) (hfresh : ov = none → url = none)
    (hb : ∀ b, base = some b → WFs {} b) (hbx : ∀ b, base = some b → Xu b ∧ Xe b)
    (hu : Xu (url.getD {}))
    (hJ0 : ∀ (src : Bytes) (runes : Str) (u2 : Url), Same (url.getD {}) u2 →
      J { cfg := {}, I := I, src := src, runes := runes, base := base, ov := ov }
        { state := ov.getD .schemeStart, pointer := -1, eof := false, buffer := [], atFlag := false, bracketFlag := false,
          pwSeen := false, url := u2 } 0)
    (hB0 : ∀ (src : Bytes) (runes : Str) (u2 : Url), Same (url.getD {}) u2 →
      Bx { cfg := {}, I := I, src := src, runes := runes, base := base, ov := ov }
        { state := ov.getD .schemeStart, pointer := -1, eof := false, buffer := [], atFlag := false, bracketFlag := false,
          pwSeen := false, url := u2 } 0) :
    ((basicParser {} I input base url ov).ret = .url ∨ ov.isSome = true) →
      Xu (basicParser {} I input base url ov).url ∧ Xe (basicParser {} I input base url ov).url ∧
      Xt (basicParser {} I input base url ov).url := by
  have hfuel := basicParser_fuel {} I input base url ov
  revert hfuel
  unfold basicParser
  dsimp only
  have hst : stops {} false = false := by decide
  simp only [hst, Bool.and_false, Bool.false_eq_true, if_false]
  generalize hin : (if url.isNone = true then (trim c0OrSpaceSet input).1 else input) = in1
  generalize hu1 : (if (url.isNone && (trim c0OrSpaceSet input).2) = true then record {} (url.getD {}) .InvalidURLUnit false
    else url.getD {}) = u1
  have hs1 : Same (url.getD {}) u1 := by
    rw [← hu1]; split
    · exact Same_record _ _ _ _
    · exact Same.refl _
  generalize hu2 : (if (removeTabNl in1).2 = true then record {} u1 .InvalidURLUnit false else u1) = u2
  have hs2 : Same (url.getD {}) u2 := by
    rw [← hu2]; split
    · exact hs1.trans (Same_record _ _ _ _)
    · exact hs1
  have hl : ov = none → (goRunes (removeTabNl in1).1).getLast? ≠ some ' ' := by
    intro h
    have hn := hfresh h
    subst hn
    rw [← hin]
    exact runes_last input
  generalize (removeTabNl in1).1 = src at hl ⊢
  have H : Hyp ⟨{}, I, src, goRunes src, base, ov⟩ :=
    ⟨rfl, rfl, rfl, hI, hb, (by intro h; exact absurd h hnp), (by intro _; exact hst)⟩
  have X : HypX ⟨{}, I, src, goRunes src, base, ov⟩ :=
    ⟨hnp, hst, rfl, rfl, rfl, rfl, (by show Cfg.isSpecial {} (lit "file") = true; decide), hbx, hl⟩
  intro hfuel
  apply loop_x _ H X _ _ _ hfuel
  refine ⟨⟨hJ0 _ _ _ hs2, rfl⟩, ?_, hB0 _ _ _ hs2⟩
  obtain ⟨h1, h2, h3, h4, h5, h6, h7, h8, h9⟩ := hs2
  unfold Xu at hu ⊢
  dsimp only
  rw [h5, h6, h4, h7, h1]
  exact hu

/-- a fresh parse in the default configuration: the clauses 1–6 of `RTx` hold for the returned url -/
theorem basicParser_X (I : Idna) (hI : IdnaNonEmpty I) (input : Bytes) (base : Option Url)
    (hb : ∀ b, base = some b → WFs {} b) (hbx : ∀ b, base = some b → Xu b ∧ Xe b) :
    (basicParser {} I input base none none).ret = .url →
      Xu (basicParser {} I input base none none).url ∧ Xe (basicParser {} I input base none none).url ∧
      Xt (basicParser {} I input base none none).url := by
  intro hr
  apply basicParser_Xg I hI input base none none (by intro h; cases h) (fun _ => rfl) hb hbx (by unfold Xu; decide)
  · intro src runes u2 hs
    obtain ⟨h1, h2, h3, h4, h5, h6, h7, h8, h9⟩ := hs
    unfold J
    exact ⟨rfl, Or.inl ⟨rfl, h2, h3, h4, h5, h7⟩⟩
  · intro src runes u2 hs
    exact True.intro
  · exact Or.inl hr

end WhatwgUrl.Proofs.RTcInv
