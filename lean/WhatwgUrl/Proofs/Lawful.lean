import WhatwgUrl.Impl.Types
/- the derived `BEq` instances of the enumerations are lawful -/
namespace WhatwgUrl.Impl

instance : LawfulBEq ErrT where
  eq_of_beq := by intro a b h; cases a <;> cases b <;> first | rfl | cases h
  rfl := by intro a; cases a <;> rfl

instance : LawfulBEq State where
  eq_of_beq := by intro a b h; cases a <;> cases b <;> first | rfl | cases h
  rfl := by intro a; cases a <;> rfl

end WhatwgUrl.Impl
