import WhatwgUrl.Proofs.IdemPipeline
import WhatwgUrl.Proofs.IdemHost
import WhatwgUrl.Proofs.WebCred
/-
  C17f helper file 2: the closed form of the value-level pipeline `canonV` (repeated decoding) on the record of an ordinary
  web url WITH credentials and port (`WebRecX`) — the twin of `Proofs/IdemPipeline.lean` (`WebRec`: no credentials, no
  port).  The eight steps act on host, path, query, fragment as there; the credentials and the port are carried along
  (`stage1X` … `stage4X`), removed by step 5 (`removePort`) resp. step 6 (`removeUserInfo`) if the profile says so.
  For parser options whose hooks ignore the record (`HooksIgnore`: no hooks, the hooks of the two predefined profiles).
-/
namespace WhatwgUrl.Proofs.Idem
set_option linter.unusedSimpArgs false
set_option linter.unusedVariables false
open WhatwgUrl WhatwgUrl.Impl WhatwgUrl.Proofs.IPv4 WhatwgUrl.Proofs.RoundTrip WhatwgUrl.Proofs.Spelling
open WhatwgUrl.Proofs.Pipeline
open WhatwgUrl.Proofs.Canon (forall_uint8)
open WhatwgUrl.Props.C18d (OptRel render WebText)
open WhatwgUrl.Props.C18 (Spelled)

/-- the record of a web url with credentials `un`, `pw` and port `po` (decoded: `dpo`) -/
structure WebRecX (u : Url) (s un pw h : Bytes) (po : Option Bytes) (dpo : Nat) (segs : List Bytes) (q f : Option Bytes) : Prop where
  scheme : u.scheme = s
  username : u.username = un
  password : u.password = pw
  host : u.host = some h
  port : u.port = po
  dport : u.decodedPort = dpo
  path : u.path = ⟨segs, false⟩
  query : u.query = q
  fragment : u.fragment = f

theorem WebRecX.of_same {u u' : Url} {s un pw h : Bytes} {po : Option Bytes} {dpo : Nat} {segs : List Bytes} {q f : Option Bytes}
    (w : WebRecX u s un pw h po dpo segs q f) (hs : HostWF.Same u u') : WebRecX u' s un pw h po dpo segs q f := by
  obtain ⟨a1, a2, a3, a4, a5, a6, a7, a8, a9⟩ := hs
  exact ⟨a1.trans w.scheme, a2.trans w.username, a3.trans w.password, a4.trans w.host, a5.trans w.port, a6.trans w.dport,
    a7.trans w.path, a8.trans w.query, a9.trans w.fragment⟩

/-- `user[:password]@`, or nothing -/
def credText (un pw : Bytes) : Bytes :=
  if (un != [] || pw != []) = true then un ++ (if (pw != []) = true then 0x3a :: pw else []) ++ [0x40] else []

theorem href_webRecX {u : Url} {s un pw h : Bytes} {po : Option Bytes} {dpo : Nat} {segs : List Bytes} {q f : Option Bytes}
    (w : WebRecX u s un pw h po dpo segs q f) :
    href u false = s ++ lit "://" ++ credText un pw ++ h ++ Web.portText po ++ (pathText segs ++ (qTail q ++ fTail f)) := by
  unfold href credText
  rw [w.scheme, w.username, w.password, w.host, w.port, w.path, w.query, w.fragment, lit_css]
  cases q <;> cases f <;> cases po <;> simp [qTail, fTail, Path.str, Path.str?, pathText, Web.portText]

theorem WebRecX.cannot {u : Url} {s un pw h : Bytes} {po : Option Bytes} {dpo : Nat} {segs : List Bytes} {q f : Option Bytes}
    (w : WebRecX u s un pw h po dpo segs q f)
    (hne : h ≠ []) (hnf : (s == lit "file") = false) : cannotHaveUPP u = false := by
  unfold cannotHaveUPP
  rw [w.host, w.scheme, hnf]
  have : (some h == some ([] : Bytes)) = false := by simpa using hne
  rw [this]
  rfl

/-! ### step 1: the host name -/

theorem stage1X (I : Idna) (p : Profile) (hp : p.repeatedPercentDecoding = true) (hc : CfgWeb p.cfg) (hk : HooksIgnore p.cfg)
    (x : VS) {s un pw h hc' : Bytes} {po : Option Bytes} {dpo : Nat} {segs : List Bytes} {q f : Option Bytes} (hs : Sch p.cfg s)
    (w : WebRecX x.u s un pw h po dpo segs q f)
    (hv : hostText (decodeEncode hostSet h) = true)
    (hout : (parseHost p.cfg I {} (decodeEncode hostSet h) false).out = .ok hc') :
    ∃ x1, (if (p.repeatedPercentDecoding && hostname x.u != []) = true then
        vSet p.cfg I .hostname (decodeEncode hostSet (hostname x.u)) x else (x, .url)) = (x1, .url) ∧
      WebRecX x1.u s un pw hc' po dpo segs q f ∧ x1.sp = x.sp := by
  have hh : hostname x.u = h := by unfold hostname; rw [w.host]; rfl
  have hne : h ≠ [] := by
    intro he
    rw [he, decodeEncode_nil] at hv
    exact absurd hv (by decide)
  have hcond : (p.repeatedPercentDecoding && hostname x.u != []) = true := by
    rw [hp, hh]; simpa using hne
  rw [if_pos hcond, hh]
  have hout' : (parseHost p.cfg I x.u (decodeEncode hostSet h) false).out = .ok hc' := by
    rw [parseHost_out_indep p.cfg I hk x.u {} _ false]; exact hout
  have hset := setHostname_text p.cfg I x.u (decodeEncode hostSet h) hc' hv (by rw [w.path])
    (by rw [w.scheme]; exact hs.special) (by rw [w.scheme]; exact hs.notfile hc) hout'
  refine ⟨⟨{ (parseHost p.cfg I x.u (decodeEncode hostSet h) false).url with host := some hc' }, x.sp⟩, ?_, ?_, rfl⟩
  · unfold vSet
    rw [hset]
  · have w' := w.of_same (Frame.parseHost_same' p.cfg I x.u (decodeEncode hostSet h) false)
    exact ⟨w'.scheme, w'.username, w'.password, rfl, w'.port, w'.dport, w'.path, w'.query, w'.fragment⟩

/-! ### step 2: the path -/

theorem stage2X (I : Idna) (p : Profile) (hp : p.repeatedPercentDecoding = true) (hc : CfgWeb p.cfg)
    (x : VS) {s un pw h : Bytes} {po : Option Bytes} {dpo : Nat} {psegs segs : List Bytes} {q f : Option Bytes} (w : WebRecX x.u s un pw h po dpo segs q f)
    (hsegs : All2 Seg psegs segs) (hne : segs ≠ []) :
    ∃ x2, (if (p.repeatedPercentDecoding && pathname x.u != []) = true then
        vSet p.cfg I .pathname (decodeEncode laxPathSet (pathname x.u)) x else (x, .url)) = (x2, .url) ∧
      WebRecX x2.u s un pw h po dpo psegs q f ∧ x2.sp = x.sp := by
  have hpn : pathname x.u = pathText segs := by unfold pathname; rw [w.path]; rfl
  have hcond : (p.repeatedPercentDecoding && pathname x.u != []) = true := by
    rw [hp, hpn]; simpa using pathText_ne_nil hne
  rw [if_pos hcond, hpn, dE_path hsegs]
  have hps : ∀ p ∈ psegs, PSeg p := by
    intro p hp
    obtain ⟨y, _, hy⟩ := forall2_mem_left hsegs p hp
    exact ⟨hy.1.1, hy.2.1, hy.2.2⟩
  have hset := setPathname_plain p.cfg I x.u psegs hc.pathSet (by rw [w.path]) (all2_ne_nil hsegs hne) hps
  refine ⟨⟨{ x.u with path := ⟨psegs, false⟩ }, x.sp⟩, ?_, ?_, rfl⟩
  · unfold vSet
    rw [hset]
  · exact ⟨w.scheme, w.username, w.password, w.host, w.port, w.dport, rfl, w.query, w.fragment⟩

theorem stage3X (p : Profile) (hp : p.repeatedPercentDecoding = true) (hc : CfgWeb p.cfg)
    (x : VS) {s un pw h : Bytes} {po : Option Bytes} {dpo : Nat} {psegs : List Bytes} {pq q : Option Pairs} {f : Option Bytes}
    (hq : OptRel (All2 PairTok) pq q) (w : WebRecX x.u s un pw h po dpo psegs (q.map qText) f) (hsp : x.sp = none) :
    ∃ x3, (if (p.repeatedPercentDecoding && search x.u != []) = true then
        (vMut p.cfg (.iterate fun nv => (decodeEncode repeatedQuerySet nv.1, decodeEncode repeatedQuerySet nv.2)) x, Ret.url)
        else (x, .url)) = (x3, .url) ∧
      WebRecX x3.u s un pw h po dpo psegs (pq.map qText) f ∧ SpInv x3.sp pq := by
  cases pq with
  | none =>
    cases q with
    | some l => exact hq.elim
    | none =>
      have hs : search x.u = [] := by unfold search; rw [w.query]; rfl
      rw [hs]
      simp only [bne_self_eq_false, Bool.and_false, Bool.false_eq_true, if_false]
      exact ⟨x, rfl, w, Or.inl ⟨hsp, Or.inl rfl⟩⟩
  | some pl =>
    cases q with
    | none => exact hq.elim
    | some l =>
      have hq' : All2 PairTok pl l := hq
      cases hq' with
      | nil =>
        have hs : search x.u = [] := by unfold search; rw [w.query]; rfl
        rw [hs]
        simp only [bne_self_eq_false, Bool.and_false, Bool.false_eq_true, if_false]
        exact ⟨x, rfl, w, Or.inl ⟨hsp, Or.inr rfl⟩⟩
      | @cons a b t₁ t₂ hab ht =>
        have hall : All2 PairTok (a :: t₁) (b :: t₂) := .cons hab ht
        have hqn : qText (b :: t₂) ≠ [] := qText_ne_nil _ (by simp)
        have hcond : (p.repeatedPercentDecoding && search x.u != []) = true := by
          rw [hp, search_ne_of_some x.u _ w.query hqn]; rfl
        rw [if_pos hcond]
        have hspl : SpPairs (b :: t₂) := by
          intro nv hnv
          obtain ⟨y, _, hy⟩ := forall2_mem_right hall nv hnv
          exact ⟨tok_spB hy.1, tok_spB hy.2⟩
        have hdec : ∀ nv ∈ b :: t₂, decodePercent p.cfg nv.1 = canonDecode nv.1 ∧ decodePercent p.cfg nv.2 = canonDecode nv.2 := by
          intro nv hnv
          obtain ⟨y, _, hy⟩ := forall2_mem_right hall nv hnv
          exact ⟨decodePercent_tok p.cfg hc.dec hy.1, decodePercent_tok p.cfg hc.dec hy.2⟩
        have hvl : vList p.cfg x = (b :: t₂).map fun nv => (canonDecode nv.1, canonDecode nv.2) := by
          unfold vList
          rw [hsp, w.query]
          exact spInit_qText_g p.cfg _ hspl hdec
        have hpp : PlainPairs (a :: t₁) := plainPairs_of_all2 hall
        have hL : Heap.applyMut (.iterate fun nv => (decodeEncode repeatedQuerySet nv.1, decodeEncode repeatedQuerySet nv.2))
            (vList p.cfg x) = a :: t₁ := by
          rw [hvl]
          exact map_dq_plain hall
        have hS : spString p.cfg (a :: t₁) = qText (a :: t₁) := spString_plain p.cfg hc.querySet _ hpp
        have hSe : (qText (a :: t₁)).isEmpty = false := by
          have := qText_ne_nil (a :: t₁) (by simp)
          cases hh : qText (a :: t₁) with
          | nil => exact absurd hh this
          | cons _ _ => rfl
        refine ⟨⟨{ x.u with query := some (qText (a :: t₁)) }, some (a :: t₁)⟩, ?_, ?_, Or.inr ⟨_, rfl, rfl⟩⟩
        · unfold vMut
          rw [hL, hS, hSe]
          simp
        · exact ⟨w.scheme, w.username, w.password, w.host, w.port, w.dport, w.path, rfl, w.fragment⟩

/-! ### step 4: the fragment -/

theorem stage4X (I : Idna) (p : Profile) (hp : p.repeatedPercentDecoding = true) (hc : CfgWeb p.cfg)
    (x : VS) {s un pw h : Bytes} {po : Option Bytes} {dpo : Nat} {psegs : List Bytes} {q pf f : Option Bytes} (hs : Sch p.cfg s)
    (hf : OptRel Tok pf f) (w : WebRecX x.u s un pw h po dpo psegs q f) :
    ∃ x4, (if (p.repeatedPercentDecoding && hashG x.u != []) = true then
        vSet p.cfg I .hash (decodeEncode hostSet (trimPrefix1 (hashG x.u) [0x23])) x else (x, .url)) = (x4, .url) ∧
      WebRecX x4.u s un pw h po dpo psegs q pf ∧ x4.sp = x.sp := by
  cases pf with
  | none =>
    cases f with
    | some y => exact hf.elim
    | none =>
      have hs' : hashG x.u = [] := by unfold hashG; rw [w.fragment]
      rw [hs']
      simp only [bne_self_eq_false, Bool.and_false, Bool.false_eq_true, if_false]
      exact ⟨x, rfl, w, rfl⟩
  | some pp =>
    cases f with
    | none => exact hf.elim
    | some y =>
      have ht : Tok pp y := hf
      obtain ⟨a1, a2⟩ := hashG_some x.u y w.fragment (tok_ne_nil ht)
      have hcond : (p.repeatedPercentDecoding && hashG x.u != []) = true := by rw [hp, a1]; rfl
      rw [if_pos hcond, a2, dE_tok_frag ht]
      have hset := setHash_plain p.cfg I x.u pp hc.fragSet (by rw [w.scheme]; exact hs.special) ht.1
      refine ⟨⟨{ x.u with fragment := some pp }, x.sp⟩, ?_, ?_, rfl⟩
      · unfold vSet
        rw [hset]
      · exact ⟨w.scheme, w.username, w.password, w.host, w.port, w.dport, w.path, w.query, rfl⟩

/-! ### steps 5 – 7: the removals -/

theorem stage5X (I : Idna) (p : Profile) (x : VS) {s un pw h : Bytes} {po : Option Bytes} {dpo : Nat} {segs : List Bytes}
    {q f : Option Bytes} (w : WebRecX x.u s un pw h po dpo segs q f) (hne : h ≠ []) (hnf : (s == lit "file") = false) :
    ∃ x5, (if p.removePort = true then vSet p.cfg I .port [] x else (x, .url)) = (x5, .url) ∧
      WebRecX x5.u s un pw h (if p.removePort = true then none else po) (if p.removePort = true then 0 else dpo) segs q f ∧
      x5.sp = x.sp := by
  split
  · refine ⟨⟨{ x.u with port := none, decodedPort := 0 }, x.sp⟩, ?_, ?_, rfl⟩
    · unfold vSet
      show (_, (setPort p.cfg I x.u []).ret) = _
      have : setPort p.cfg I x.u [] = ⟨{ x.u with port := none, decodedPort := 0 }, .url⟩ := by
        unfold setPort keep
        rw [w.cannot hne hnf]
        simp
      show ((⟨(setPort p.cfg I x.u []).url, x.sp⟩ : VS), (setPort p.cfg I x.u []).ret) = _
      rw [this]
    · exact ⟨w.scheme, w.username, w.password, w.host, rfl, rfl, w.path, w.query, w.fragment⟩
  · exact ⟨x, rfl, w, rfl⟩

theorem stage6X (I : Idna) (p : Profile) (x : VS) {s un pw h : Bytes} {po : Option Bytes} {dpo : Nat} {segs : List Bytes}
    {q f : Option Bytes} (w : WebRecX x.u s un pw h po dpo segs q f) (hne : h ≠ []) (hnf : (s == lit "file") = false) :
    ∃ x6, (if p.removeUserInfo = true then thenV (vSet p.cfg I .username [] x) fun x => vSet p.cfg I .password [] x
        else (x, .url)) = (x6, .url) ∧
      WebRecX x6.u s (if p.removeUserInfo = true then [] else un) (if p.removeUserInfo = true then [] else pw) h po dpo segs q f ∧
      x6.sp = x.sp := by
  split
  · have h1 : setUsername p.cfg x.u [] = ⟨{ x.u with username := [] }, .url⟩ := by
      unfold setUsername keep
      rw [w.cannot hne hnf, pes_nil]
      simp
    have w1 : WebRecX { x.u with username := [] } s [] pw h po dpo segs q f :=
      ⟨w.scheme, rfl, w.password, w.host, w.port, w.dport, w.path, w.query, w.fragment⟩
    have h2 : setPassword p.cfg { x.u with username := [] } [] = ⟨{ { x.u with username := [] } with password := [] }, .url⟩ := by
      unfold setPassword keep
      rw [w1.cannot hne hnf, pes_nil]
      simp
    refine ⟨⟨{ { x.u with username := [] } with password := [] }, x.sp⟩, ?_, ?_, rfl⟩
    · unfold vSet thenV
      show (match (setUsername p.cfg x.u []).ret with
        | .panic n => _
        | _ => ((⟨(setPassword p.cfg (setUsername p.cfg x.u []).url []).url, x.sp⟩ : VS),
            (setPassword p.cfg (setUsername p.cfg x.u []).url []).ret)) = _
      rw [h1]
      dsimp only
      rw [h2]
    · exact ⟨w.scheme, rfl, rfl, w.host, w.port, w.dport, w.path, w.query, w.fragment⟩
  · exact ⟨x, rfl, w, rfl⟩

theorem stage7X (I : Idna) (p : Profile) (x : VS) {s un pw h : Bytes} {po : Option Bytes} {dpo : Nat} {segs : List Bytes} {q f : Option Bytes}
    (w : WebRecX x.u s un pw h po dpo segs q f) :
    ∃ x7, (if p.removeFragment = true then vSet p.cfg I .hash [] x else (x, .url)) = (x7, .url) ∧
      WebRecX x7.u s un pw h po dpo segs q (if p.removeFragment = true then none else f) ∧ x7.sp = x.sp := by
  split
  · have hset : ∃ u', setHash p.cfg I x.u [] = ⟨u', .url⟩ ∧ WebRecX u' s un pw h po dpo segs q none := by
      unfold setHash keep stripTrailingSpacesIfOpaque
      simp only [List.isEmpty_nil, if_true, w.path, Bool.false_eq_true, if_false]
      split
      · exact ⟨_, rfl, ⟨w.scheme, w.username, w.password, w.host, w.port, w.dport, rfl, w.query, rfl⟩⟩
      · exact ⟨_, rfl, ⟨w.scheme, w.username, w.password, w.host, w.port, w.dport, (by first | exact w.path | rfl), w.query, rfl⟩⟩
    obtain ⟨u', h1, w'⟩ := hset
    refine ⟨⟨u', x.sp⟩, ?_, w', rfl⟩
    unfold vSet
    show ((⟨(setHash p.cfg I x.u []).url, x.sp⟩ : VS), (setHash p.cfg I x.u []).ret) = _
    rw [h1]
  · exact ⟨x, rfl, w, rfl⟩

theorem vMut_sortX (cfg : Cfg) (hc : CfgWeb cfg) (m : Heap.SpMut) (g : Pairs → Pairs) (hm : ∀ l, Heap.applyMut m l = g l)
    (hg : ∀ l, PlainPairs l → PlainPairs (g l)) (hnil : g [] = [])
    (x : VS) {s un pw h : Bytes} {po : Option Bytes} {dpo : Nat} {psegs : List Bytes} {pq : Option Pairs} {f : Option Bytes}
    (w : WebRecX x.u s un pw h po dpo psegs (pq.map qText) f) (hi : SpInv x.sp pq) (hpl : ∀ l, pq = some l → PlainPairs l) :
    WebRecX (vMut cfg m x).u s un pw h po dpo psegs ((pq.map g).map qText) f := by
  have hvl := vList_of_inv cfg x pq hi w.query
  unfold vMut
  rw [hvl, hm]
  cases pq with
  | none =>
    have e1 : spString cfg (g ((none : Option Pairs).getD [])) = [] := by
      show spString cfg (g []) = []
      rw [hnil]; rfl
    have e2 : x.u.query.isSome = false := by rw [w.query]; rfl
    rw [e1, e2]
    simpa using w
  | some l =>
    have e1 : spString cfg (g ((some l : Option Pairs).getD [])) = qText (g l) :=
      spString_plain cfg hc.querySet _ (hg l (hpl l rfl))
    have e2 : x.u.query.isSome = true := by rw [w.query]; rfl
    rw [e1, e2]
    have : (((qText (g l)).isEmpty && true) || !(qText (g l)).isEmpty) = true := by
      cases (qText (g l)).isEmpty <;> rfl
    rw [this]
    simp only [if_true]
    exact ⟨w.scheme, w.username, w.password, w.host, w.port, w.dport, w.path, rfl, w.fragment⟩

theorem stage8X (p : Profile) (hc : CfgWeb p.cfg) (x : VS) {s un pw h : Bytes} {po : Option Bytes} {dpo : Nat} {psegs : List Bytes} {pq : Option Pairs} {f : Option Bytes}
    (w : WebRecX x.u s un pw h po dpo psegs (pq.map qText) f) (hi : SpInv x.sp pq) (hpl : ∀ l, pq = some l → PlainPairs l) :
    ∃ x8, (match (match p.sortQuery with
          | .noSort => (x, Ret.url)
          | .sortKeys => (vMut p.cfg .sort x, Ret.url)
          | .sortParameter => (vMut p.cfg .sortAbs x, Ret.url)) with
        | (x', Ret.panic n) => (x', Ret.panic n)
        | (x', _) => (x', Ret.url)) = (x8, Ret.url) ∧
      WebRecX x8.u s un pw h po dpo psegs ((pq.map (sortOf p)).map qText) f := by
  unfold sortOf
  cases p.sortQuery with
  | noSort =>
    refine ⟨x, rfl, ?_⟩
    have : pq.map id = pq := by cases pq <;> rfl
    dsimp only
    rw [this]; exact w
  | sortKeys =>
    exact ⟨_, rfl, vMut_sortX p.cfg hc .sort spSort (fun _ => rfl) (fun l hl => sortStable_plain _ l hl) rfl x w hi hpl⟩
  | sortParameter =>
    exact ⟨_, rfl, vMut_sortX p.cfg hc .sortAbs spSortAbs (fun _ => rfl) (fun l hl => sortStable_plain _ l hl) rfl x w hi hpl⟩

/-- **the closed form of the pipeline** on the record of a web url WITH credentials and port: the credentials are
    carried along unless the profile removes them, the port is kept unless the profile removes it -/
theorem canonV_webX (I : Idna) (p : Profile) (hp : p.repeatedPercentDecoding = true) (hc : CfgWeb p.cfg) (hk : HooksIgnore p.cfg)
    (u : Url) {s un pw h hc' : Bytes} {po : Option Bytes} {dpo : Nat} {psegs segs : List Bytes} {pq q : Option Pairs}
    {pf f : Option Bytes}
    (hs : Sch p.cfg s) (w : WebRecX u s un pw h po dpo segs (q.map qText) f) (hsp : Spells psegs pq pf segs q f)
    (hv : hostText (decodeEncode hostSet h) = true)
    (hout : (parseHost p.cfg I {} (decodeEncode hostSet h) false).out = .ok hc') (hcne : hc' ≠ []) :
    ∃ x8, canonV I p ⟨u, none⟩ = (x8, .url) ∧
      WebRecX x8.u s (if p.removeUserInfo = true then [] else un) (if p.removeUserInfo = true then [] else pw) hc'
        (if p.removePort = true then none else po) (if p.removePort = true then 0 else dpo)
        psegs ((pq.map (sortOf p)).map qText) (if p.removeFragment = true then none else pf) := by
  have hnf := hs.notfile hc
  obtain ⟨x1, e1, w1, s1⟩ := stage1X I p hp hc hk ⟨u, none⟩ hs w hv hout
  obtain ⟨x2, e2, w2, s2⟩ := stage2X I p hp hc x1 w1 hsp.hsegs hsp.hne
  obtain ⟨x3, e3, w3, s3⟩ := stage3X p hp hc x2 hsp.hquery w2 (by rw [s2, s1])
  obtain ⟨x4, e4, w4, s4⟩ := stage4X I p hp hc x3 hs hsp.hfrag w3
  obtain ⟨x5, e5, w5, s5⟩ := stage5X I p x4 w4 hcne hnf
  obtain ⟨x6, e6, w6, s6⟩ := stage6X I p x5 w5 hcne hnf
  obtain ⟨x7, e7, w7, s7⟩ := stage7X I p x6 w6
  obtain ⟨x8, e8, w8⟩ := stage8X p hc x7 w7 (by rw [s7, s6, s5, s4]; exact s3) hsp.plainPairs
  refine ⟨x8, ?_, w8⟩
  unfold canonV
  dsimp only
  rw [e1, thenV_url, e2, thenV_url, e3, thenV_url, e4, thenV_url, e5, thenV_url, e6, thenV_url, e7, thenV_url]
  exact e8

end WhatwgUrl.Proofs.Idem
#print axioms WhatwgUrl.Proofs.Idem.canonV_webX
#print axioms WhatwgUrl.Proofs.Idem.href_webRecX
