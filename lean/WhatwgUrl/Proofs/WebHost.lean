import WhatwgUrl.Proofs.WebQuery
import WhatwgUrl.Props.C09b
/-
  C18e helper file 6 (item 4): the ASCII letter case of a DOMAIN host text does not matter, for configurations with a
  pre-parse-host hook and / or an encoding override (`Props/C09b.lean: C09_case_independent_literal` is about configurations
  without either).
   * `HookCase cfg`  : the pre-parse-host hook commutes with ASCII lower-casing (`gsbPre`, `semanticPre` do);
   * `EncAscii cfg`  : the encoding override, where it encodes an ASCII code point to a byte above 31, encodes it to itself
                       (so `stringToUnicode` leaves an ASCII domain alone; Latin-1 does);
   * `DomainInput i` : what the host parser gets to see (after the hook) is empty, or not bracketed, without `%`, pure
                       ASCII without an ACE (`xn--`) label start — the inputs on which law L1 pins the oracle down;
   * `host_case`     : then the outcome of the host parser is the same for two host texts that differ in letter case only.
-/
namespace WhatwgUrl.Proofs.Web
set_option linter.unusedSimpArgs false
set_option linter.unusedVariables false
open WhatwgUrl WhatwgUrl.Impl WhatwgUrl.Proofs.IPv4 WhatwgUrl.Proofs.Domain

/-! ### lower-casing and the hooks -/

theorem lowerB_dot : ∀ x : UInt8, (lowerB x == 0x2e) = (x == 0x2e) := forall_uint8 (by decide +kernel)
theorem lowerB_pct : ∀ x : UInt8, lowerB x = 0x25 → x = 0x25 := forall_uint8 (by decide +kernel)
theorem lowerB_bracket : ∀ x : UInt8, lowerB x = lowerB 0x5b → x = 0x5b := forall_uint8 (by decide +kernel)

theorem map_dropWhile {α β : Type} (f : α → β) (p : α → Bool) (p' : β → Bool) (h : ∀ x, p' (f x) = p x) :
    ∀ l : List α, (l.dropWhile p).map f = (l.map f).dropWhile p'
  | [] => rfl
  | x :: l => by
    simp only [List.dropWhile_cons, List.map_cons, h x]
    split
    · exact map_dropWhile f p p' h l
    · rfl

theorem asciiLower_trimLeft (s : Bytes) : asciiLower (trimLeftByte 0x2e s) = trimLeftByte 0x2e (asciiLower s) := by
  unfold asciiLower trimLeftByte
  exact map_dropWhile lowerB (· == 0x2e) (· == 0x2e) lowerB_dot s

theorem asciiLower_trimRight (s : Bytes) : asciiLower (trimRightByte 0x2e s) = trimRightByte 0x2e (asciiLower s) := by
  unfold asciiLower trimRightByte
  rw [List.map_reverse, map_dropWhile lowerB (· == 0x2e) (· == 0x2e) lowerB_dot, List.map_reverse]

theorem asciiLower_collapseAux : ∀ (fl : Bool) (s : Bytes),
    asciiLower (collapseDotsAux fl s) = collapseDotsAux fl (asciiLower s)
  | _, [] => rfl
  | fl, x :: s => by
    have hx := lowerB_dot x
    simp only [asciiLower, List.map_cons, collapseDotsAux, hx]
    by_cases h : (x == 0x2e) = true
    · simp only [h, if_true]
      cases fl
      · simp only [Bool.false_eq_true, if_false, List.map_cons]
        exact congrArg _ (asciiLower_collapseAux true s)
      · simp only [if_true]
        exact asciiLower_collapseAux true s
    · simp only [h, if_false, List.map_cons]
      exact congrArg _ (asciiLower_collapseAux false s)

theorem asciiLower_collapse (s : Bytes) : asciiLower (collapseDots s) = collapseDots (asciiLower s) :=
  asciiLower_collapseAux false s

theorem gsbPre_lower (u : Url) (a : Bytes) : asciiLower (gsbPre u a) = gsbPre u (asciiLower a) := by
  unfold gsbPre
  rw [asciiLower_collapse, asciiLower_trimRight, asciiLower_trimLeft]

theorem asciiLower_isEmpty (s : Bytes) : (asciiLower s).isEmpty = s.isEmpty := by cases s <;> rfl

theorem semanticPre_lower (u : Url) (a : Bytes) : asciiLower (semanticPre u a) = semanticPre u (asciiLower a) := by
  unfold semanticPre
  simp only [asciiLower_isEmpty]
  split
  · rfl
  · simp only [← asciiLower_trimLeft, ← asciiLower_trimRight, ← asciiLower_collapse, asciiLower_isEmpty]
    split
    · decide
    · rfl

/-- the pre-parse-host hook commutes with ASCII lower-casing -/
def HookCase (cfg : Cfg) : Prop := ∀ f, cfg.preHost = some f → ∀ u a, asciiLower (f u a) = f u (asciiLower a)

theorem hookCase_default : HookCase {} := fun f hf => by cases hf
theorem hookCase_gsb : HookCase gsbCfg := fun f hf u a => by cases hf; exact gsbPre_lower u a
theorem hookCase_semantic : HookCase semanticCfg := fun f hf u a => by cases hf; exact semanticPre_lower u a

/-- what the host parser gets to see -/
def preIn (cfg : Cfg) (u : Url) (a : Bytes) : Bytes := match cfg.preHost with | some f => f u a | none => a

theorem preIn_lower (cfg : Cfg) (h : HookCase cfg) (u : Url) (a₁ a₂ : Bytes) (hl : asciiLower a₁ = asciiLower a₂) :
    asciiLower (preIn cfg u a₁) = asciiLower (preIn cfg u a₂) := by
  unfold preIn
  cases hp : cfg.preHost with
  | none => exact hl
  | some f => simp only; rw [h f hp, h f hp, hl]

/-! ### the encoding override on an ASCII domain -/

/-- where the override encodes an ASCII code point to a byte above 31, it encodes it to itself -/
def EncAscii (cfg : Cfg) : Prop :=
  ∀ cm, cfg.encOverride = some cm → ∀ b : UInt8, b.toNat < 0x80 → (cm.enc (bc b)).2 = true → (cm.enc (bc b)).1.toNat > 31 →
    (cm.enc (bc b)).1 = b

theorem encAscii_none (cfg : Cfg) (h : cfg.encOverride = none) : EncAscii cfg := fun cm hcm => by rw [h] at hcm; cases hcm

theorem latin1_ascii : ∀ b : UInt8, b.toNat < 0x80 → (latin1.enc (bc b)).1 = b := forall_uint8 (by decide +kernel)

theorem encAscii_semantic : EncAscii semanticCfg := fun cm hcm b hb _ _ => by cases hcm; exact latin1_ascii b hb

theorem stringToUnicode_ascii (cm : Charmap)
    (h : ∀ b : UInt8, b.toNat < 0x80 → (cm.enc (bc b)).2 = true → (cm.enc (bc b)).1.toNat > 31 → (cm.enc (bc b)).1 = b) :
    ∀ (d : Bytes), Ascii d → ∀ s, stringToUnicode cm (asStr d) = some s → s = d
  | [], _, s, hs => by simp [stringToUnicode] at hs; exact hs
  | b :: d, hd, s, hs => by
    simp only [asStr_cons, stringToUnicode] at hs
    split at hs
    · rename_i hc
      simp only [Bool.and_eq_true, decide_eq_true_eq] at hc
      cases hr : stringToUnicode cm (asStr d) with
      | none => rw [hr] at hs; cases hs
      | some s' =>
        rw [hr] at hs
        simp only [Option.map_some, Option.some.injEq] at hs
        rw [← hs, h b (hd b (by simp)) hc.1 hc.2, stringToUnicode_ascii cm h d (fun x hx => hd x (by simp [hx])) s' hr]
    · cases hs

/-- `ToASCII` on a pure-ASCII domain without ACE label, also under an encoding override -/
theorem toASCII_pure_c (cfg : Cfg) (henc : EncAscii cfg) (I : Idna) (hI : L1 I) (u : Url) (d : Bytes)
    (hd : PureAsciiNoAce d) (hne : d ≠ []) :
    toASCII cfg I u d = (.ok (asciiLower d), { u with qlog := u.qlog ++ [d] }) := by
  cases hcm : cfg.encOverride with
  | none => exact toASCII_pure cfg hcm I hI u d hd hne
  | some cm =>
    have he : d.isEmpty = false := by cases d <;> simp_all
    have hae : (asciiLower d).isEmpty = false := by
      have := asciiLower_ne_nil hne
      cases hh : asciiLower d <;> simp_all
    have hg := goRunes_ascii d hd.1
    unfold toASCII
    simp only [he, hcm, Bool.false_eq_true, if_false]
    cases hr : stringToUnicode cm (goRunes d) with
    | none =>
      simp only [hI d hd, asciiOrMisc_pure d hd, Bool.and_true, hae]
      cases (I d).2 <;> simp
    | some s =>
      have : s = d := stringToUnicode_ascii cm (henc cm hcm) d hd.1 s (by rw [← hg]; exact hr)
      subst this
      simp only [hI s hd, asciiOrMisc_pure s hd, Bool.and_true, hae]
      cases (I s).2 <;> simp

/-! ### the host parser on a domain input -/

theorem parseHost_pre_nil (cfg : Cfg) (I : Idna) (u : Url) (a : Bytes) (ns : Bool) (hin : preIn cfg u a = []) :
    parseHost cfg I u a ns = ⟨u, .ok []⟩ := by
  unfold preIn at hin
  unfold parseHost
  cases hp : cfg.preHost with
  | none => rw [hp] at hin; simp only at hin ⊢; rw [hin]
  | some f => rw [hp] at hin; simp only at hin ⊢; rw [hin]

theorem parseHost_pre_cons (cfg : Cfg) (I : Idna) (u : Url) (a : Bytes) (b0 : UInt8) (tl : Bytes)
    (hin : preIn cfg u a = b0 :: tl) (hb : b0 ≠ 0x5b) :
    parseHost cfg I u a false =
      (if !validUtf8 (decodePercent cfg (b0 :: tl)) && cfg.laxHost then
         ⟨u, .ok (percentEncodeBytes hostSet (b0 :: tl))⟩
       else if !validUtf8 (decodePercent cfg (b0 :: tl)) then fail6 cfg u .DomainToASCII
       else match (toASCII cfg I u (decodePercent cfg (b0 :: tl))).1 with
         | .err _ =>
           if cfg.laxHost then ⟨(toASCII cfg I u (decodePercent cfg (b0 :: tl))).2, .ok (decodePercent cfg (b0 :: tl))⟩
           else fail6 cfg (toASCII cfg I u (decodePercent cfg (b0 :: tl))).2 .DomainToASCII
         | .ok a => finishDomain cfg (toASCII cfg I u (decodePercent cfg (b0 :: tl))).2 a) := by
  have hb' : (b0 == 0x5b) = false := by simpa using hb
  unfold preIn at hin
  unfold parseHost
  cases hp : cfg.preHost with
  | none =>
    rw [hp] at hin; simp only at hin ⊢; rw [hin]
    simp only [hb', Bool.false_eq_true, if_false]
    rfl
  | some f =>
    rw [hp] at hin; simp only at hin ⊢; rw [hin]
    simp only [hb', Bool.false_eq_true, if_false]
    rfl

/-- the input of the host parser (after the hook) on which law L1 pins the oracle down -/
def DomainInput (i : Bytes) : Prop :=
  i = [] ∨ (i.head? ≠ some 0x5b ∧ (0x25 : UInt8) ∉ i ∧ PureAsciiNoAce i)

instance (i : Bytes) : Decidable (DomainInput i) := by unfold DomainInput; infer_instance

/-- closed form of the outcome on a domain input -/
theorem parseHost_domainInput (cfg : Cfg) (hpost : cfg.postHost = none) (henc : EncAscii cfg) (I : Idna) (hI : L1 I)
    (u : Url) (a i : Bytes) (hin : preIn cfg u a = i) (hne : i ≠ []) (hb : i.head? ≠ some 0x5b) (hp : (0x25 : UInt8) ∉ i)
    (hd : PureAsciiNoAce i) :
    (parseHost cfg I u a false).out = (finishDomain cfg u (asciiLower i)).out := by
  match i, hne, hb, hp, hd with
  | b0 :: tl, _, hb, hp, hd =>
    have hb0 : b0 ≠ 0x5b := by intro e; apply hb; simp [e]
    rw [parseHost_pre_cons cfg I u a b0 tl hin hb0, decodePercent_no_pct cfg _ hp]
    have hv := validUtf8_ascii _ hd.1
    rw [toASCII_pure_c cfg henc I hI u _ hd (by simp)]
    simp only [hv, Bool.not_true, Bool.false_and, Bool.false_eq_true, if_false]
    exact finishDomain_out_withQ cfg hpost _ u _

/-- **the ASCII letter case of a domain host text does not matter** -/
theorem host_case (cfg : Cfg) (hpost : cfg.postHost = none) (hcase : HookCase cfg) (henc : EncAscii cfg) (I : Idna) (hI : L1 I)
    (u : Url) (a₁ a₂ : Bytes) (hl : asciiLower a₁ = asciiLower a₂) (hD : DomainInput (preIn cfg u a₁)) :
    (parseHost cfg I u a₁ false).out = (parseHost cfg I u a₂ false).out := by
  have hli := preIn_lower cfg hcase u a₁ a₂ hl
  generalize h1 : preIn cfg u a₁ = i₁ at hD hli
  generalize h2 : preIn cfg u a₂ = i₂ at hli
  rcases hD with hD | ⟨hb, hp, hd⟩
  · subst hD
    have : i₂ = [] := by
      cases i₂ with
      | nil => rfl
      | cons _ _ => simp [asciiLower] at hli
    subst this
    rw [parseHost_pre_nil cfg I u a₁ false h1, parseHost_pre_nil cfg I u a₂ false h2]
  · by_cases hne : i₁ = []
    · subst hne
      have : i₂ = [] := by
        cases i₂ with
        | nil => rfl
        | cons _ _ => simp [asciiLower] at hli
      subst this
      rw [parseHost_pre_nil cfg I u a₁ false h1, parseHost_pre_nil cfg I u a₂ false h2]
    · have hd2 : PureAsciiNoAce i₂ := Props.C09b.pureAsciiNoAce_congr hli hd
      have hne2 : i₂ ≠ [] := by
        intro e; subst e
        cases i₁ with
        | nil => exact hne rfl
        | cons x xs => simp [asciiLower] at hli
      have hp2 : (0x25 : UInt8) ∉ i₂ := by
        intro hm
        have : lowerB 0x25 ∈ asciiLower i₁ := by rw [hli]; exact List.mem_map_of_mem hm
        obtain ⟨x, hx, hx2⟩ := List.mem_map.mp this
        have := lowerB_pct x hx2
        subst this
        exact hp hx
      have hb2 : i₂.head? ≠ some 0x5b := by
        cases i₁ with
        | nil => exact absurd rfl hne
        | cons x xs =>
          cases i₂ with
          | nil => exact absurd rfl hne2
          | cons y ys =>
            simp only [asciiLower, List.map_cons, List.cons.injEq] at hli
            simp only [List.head?_cons, ne_eq, Option.some.injEq] at hb ⊢
            intro e; subst e
            exact hb (lowerB_bracket x hli.1)
      rw [parseHost_domainInput cfg hpost henc I hI u a₁ i₁ h1 hne hb hp hd,
        parseHost_domainInput cfg hpost henc I hI u a₂ i₂ h2 hne2 hb2 hp2 hd2, hli]

end WhatwgUrl.Proofs.Web
