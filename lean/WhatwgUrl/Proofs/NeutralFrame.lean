import WhatwgUrl.Proofs.NeutralSets
import WhatwgUrl.Proofs.Frame
/-
  Helper lemmas for C16c (frame property of the replaceable percent-encode sets): a replaced set governs exactly the
  component it names.

  Technique: RELATIONAL lock-step.  `SRel R D` relates the outcomes of one iteration of two runs (continuing states by `R`,
  returned results by `D`); `loop_rel` / `basicParser_rel` lift a step-wise relation to the loop and to `basicParser`.
  The relations are "equal, or (in the state that collects the component, and the states after it) equal except for the
  buffer / the named url field".  The sets are read only by the collecting state (`body_updS_sets`); the states after it
  do not read the named field (`stFragment_relG`, `stQuery_relG`, for an abstract url mask `g`).
-/
namespace WhatwgUrl.Proofs.Neutral
set_option linter.unusedSimpArgs false
set_option linter.unusedVariables false
set_option linter.unusedSectionVars false
set_option linter.unnecessarySimpa false
open WhatwgUrl WhatwgUrl.Impl WhatwgUrl.Proofs.Termination

/-- outcome-wise relation between two iterations -/
def SRel (R : PS → PS → Prop) (D : Res → Res → Prop) : StepR → StepR → Prop
  | .cont p1, .cont p2 => R p1 p2
  | .done x1, .done x2 => D x1 x2
  | _, _ => False

theorem SRel_ite (R : PS → PS → Prop) (D : Res → Res → Prop) (cnd : Prop) [Decidable cnd] (a1 b1 a2 b2 : StepR)
    (ha : cnd → SRel R D a1 a2) (hb : ¬ cnd → SRel R D b1 b2) :
    SRel R D (if cnd then a1 else b1) (if cnd then a2 else b2) := by
  by_cases h : cnd
  · rw [if_pos h, if_pos h]; exact ha h
  · rw [if_neg h, if_neg h]; exact hb h

theorem SRel_cont (R : PS → PS → Prop) (D : Res → Res → Prop) (p1 p2 : PS) (h : R p1 p2) : SRel R D (.cont p1) (.cont p2) := h
theorem SRel_done (R : PS → PS → Prop) (D : Res → Res → Prop) (x1 x2 : Res) (h : D x1 x2) : SRel R D (.done x1) (.done x2) := h

theorem SRel_refl (R : PS → PS → Prop) (D : Res → Res → Prop) (hR : ∀ p, R p p) (hD : ∀ x, D x x) (r : StepR) :
    SRel R D r r := by
  cases r with
  | cont p => exact hR p
  | done x => exact hD x

theorem SRel_bottom (R : PS → PS → Prop) (D : Res → Res → Prop)
    (hRD : ∀ p1 p2, R p1 p2 → p1.eof = p2.eof ∧ D ⟨p1.url, .url⟩ ⟨p2.url, .url⟩) (r1 r2 : StepR)
    (h : SRel R D r1 r2) : SRel R D (bottom r1) (bottom r2) := by
  cases r1 with
  | cont p1 =>
    cases r2 with
    | cont p2 =>
      have := hRD p1 p2 h
      simp only [bottom, this.1]
      by_cases he : p2.eof = true
      · rw [if_pos he, if_pos he]; exact this.2
      · rw [if_neg he, if_neg he]; exact h
    | done x2 => exact h.elim
  | done x1 =>
    cases r2 with
    | cont p2 => exact h.elim
    | done x2 => exact h

/-- relational lock-step -/
theorem loop_rel (e1 e2 : Env) (R : PS → PS → Prop) (D : Res → Res → Prop)
    (hstep : ∀ p1 p2, R p1 p2 → SRel R D (step e1 p1) (step e2 p2))
    (hfuel : ∀ p1 p2, R p1 p2 → D ⟨p1.url, .outOfFuel⟩ ⟨p2.url, .outOfFuel⟩) :
    ∀ (fuel : Nat) (p1 p2 : PS), R p1 p2 → D (loop e1 fuel p1) (loop e2 fuel p2) := by
  intro fuel
  induction fuel with
  | zero => intro p1 p2 h; exact hfuel p1 p2 h
  | succ n ih =>
    intro p1 p2 h
    unfold loop
    have hs := hstep p1 p2 h
    cases h1 : step e1 p1 with
    | cont q1 =>
      cases h2 : step e2 p2 with
      | cont q2 => rw [h1, h2] at hs; exact ih q1 q2 hs
      | done x2 => rw [h1, h2] at hs; exact hs.elim
    | done x1 =>
      cases h2 : step e2 p2 with
      | cont q2 => rw [h1, h2] at hs; exact hs.elim
      | done x2 => rw [h1, h2] at hs; exact hs

/-! ### fragment -/

def mFU (u : Url) : Url := { u with fragment := none }
def mF (ps : PS) : PS := { ps with buffer := [], url := mFU ps.url }

def RelF (P : Bytes → Prop) (p1 p2 : PS) : Prop :=
  p1 = p2 ∨ (p2.state = .fragment ∧ P p2.url.scheme ∧ mF p1 = mF p2)
def ResF (P : Bytes → Prop) (x1 x2 : Res) : Prop :=
  x1 = x2 ∨ (P x2.url.scheme ∧ x1.ret = x2.ret ∧ mFU x1.url = mFU x2.url)

theorem mF_eq (p1 p2 : PS) (h : mF p1 = mF p2) :
    p1 = { p2 with buffer := p1.buffer, url := { p2.url with fragment := p1.url.fragment } } := by
  obtain ⟨st1, pt1, eof1, b1, a1, br1, pw1, u1⟩ := p1
  obtain ⟨st2, pt2, eof2, b2, a2, br2, pw2, u2⟩ := p2
  obtain ⟨x1, x2, x3, x4, x5, x6, x7, x8, x9, x10, x11⟩ := u1
  obtain ⟨y1, y2, y3, y4, y5, y6, y7, y8, y9, y10, y11⟩ := u2
  simp only [mF, mFU, PS.mk.injEq, Url.mk.injEq] at h
  obtain ⟨h1, h2, h3, _, h5, h6, h7, h8, h9, h10, h11, h12, h13, h14, h15, _, h17, h18⟩ := h
  subst_vars
  rfl



section
variable (c : Cfg) (t1 t2 t3 t4 t5 : PSet) (I : Idna) (src : Bytes) (rs : Str) (base : Option Url) (ov : Option State)

theorem isSpecial_updS_self : (updS c c.specialSchemes t1 t2 t3 t4 t5).isSpecial = c.isSpecial := rfl

theorem record_mFU (cfg : Cfg) (u : Url) (t : ErrT) (f : Bool) : mFU (record cfg u t f) = record cfg (mFU u) t f := by
  unfold record; split <;> rfl

theorem mFU_set (u : Url) (f : Option Bytes) : mFU { u with fragment := f } = mFU u := rfl

theorem stFragment_rel (P : Bytes → Prop) (q1 q2 : PS) (r : Char) (hst : q2.state = .fragment) (hP : P q2.url.scheme)
    (hm : mF q1 = mF q2) :
    SRel (RelF P) (ResF P) (stFragment ⟨updS c c.specialSchemes t1 t2 t3 t4 t5, I, src, rs, base, ov⟩ q1 r)
      (stFragment ⟨c, I, src, rs, base, ov⟩ q2 r) := by
  rw [mF_eq q1 q2 hm]
  generalize q1.buffer = b
  generalize q1.url.fragment = f
  simp only [stFragment, unitChecks, herr, isSp, remainingInvalidPct, isSpecial_updS_self, record_updS, stops_updS,
    record_scheme]
  repeat' (first
    | (apply SRel_ite <;> intro _)
    | (refine Or.inr ⟨?_, ?_, ?_⟩ <;> first | exact hst | (simpa only [record_scheme] using hP) | rfl | (simp only [mF, mFU_set, record_mFU]; done)))

theorem SAgree_self (x : Bytes) : SAgree c.specialSchemes c x := rfl

/-- the sets are read only by the state that collects the component -/
theorem body_updS_sets (q : PS) (r : Char) (h1 : q.state = .path → t1 = c.pathSet)
    (h2 : q.state = .query → t2 = c.spQuerySet ∧ t3 = c.querySet)
    (h3 : q.state = .fragment → t4 = c.spFragSet ∧ t5 = c.fragSet) :
    body ⟨updS c c.specialSchemes t1 t2 t3 t4 t5, I, src, rs, base, ov⟩ q r = body ⟨c, I, src, rs, base, ov⟩ q r := by
  unfold body
  split <;> rename_i hst
  · rfl
  · exact stScheme_updS c _ _ _ _ _ _ I src rs base ov q r (fun _ => ⟨SAgree_self c _, fun _ => SAgree_self c _⟩)
  · rfl
  · rfl
  · rfl
  · rfl
  · rfl
  · rfl
  · exact stAuthority_updS c _ _ _ _ _ _ I src rs base ov q r (SAgree_self c _)
  · exact stHost_updS c _ _ _ _ _ _ I src rs base ov q r (SAgree_self c _)
  · exact stHost_updS c _ _ _ _ _ _ I src rs base ov q r (SAgree_self c _)
  · rfl
  · exact stFileHost_updS c _ _ _ _ _ _ I src rs base ov q r (SAgree_self c _)
  · rfl
  · exact stPort_updS c _ _ _ _ _ _ I src rs base ov q r (SAgree_self c _)
  · rw [h1 hst]; exact stPath_updS c _ _ _ _ _ I src rs base ov q r (SAgree_self c _)
  · exact stPathStart_updS c _ _ _ _ _ _ I src rs base ov q r (SAgree_self c _)
  · rw [(h2 hst).1, (h2 hst).2]; exact stQuery_updS c _ _ _ _ I src rs base ov q r (SAgree_self c _)
  · rw [(h3 hst).1, (h3 hst).2]; exact stFragment_updS c _ _ _ _ I src rs base ov q r (SAgree_self c _)
  · exact stRelative_updS c _ _ _ _ _ _ I src rs base ov q r (fun _ _ => SAgree_self c _)
  · exact stRelativeSlash_updS c _ _ _ _ _ _ I src rs base ov q r (SAgree_self c _)

theorem RelF_refl (P : Bytes → Prop) (p : PS) : RelF P p p := Or.inl rfl
theorem ResF_refl (P : Bytes → Prop) (x : Res) : ResF P x x := Or.inl rfl

theorem next_mF (p1 p2 : PS) (hm : mF p1 = mF p2) :
    mF (next rs p1).1 = mF (next rs p2).1 ∧ (next rs p1).2 = (next rs p2).2 := by
  rw [mF_eq p1 p2 hm]
  unfold next
  dsimp only
  split <;> exact ⟨rfl, rfl⟩

/-- the fragment sets: a replaced set that is not selected changes nothing -/
theorem stFragment_unsel (q : PS) (r : Char)
    (h4 : c.isSpecial q.url.scheme = true → t4 = c.spFragSet) (h5 : c.isSpecial q.url.scheme = false → t5 = c.fragSet) :
    stFragment ⟨updS c c.specialSchemes t1 t2 t3 t4 t5, I, src, rs, base, ov⟩ q r =
      stFragment ⟨c, I, src, rs, base, ov⟩ q r := by
  cases hs : c.isSpecial q.url.scheme
  · rw [h5 hs]
    simp only [stFragment, unitChecks, herr, isSp, remainingInvalidPct, isSpecial_updS_self, record_updS, stops_updS,
      record_scheme, hs]
    rfl
  · rw [h4 hs]
    simp only [stFragment, unitChecks, herr, isSp, remainingInvalidPct, isSpecial_updS_self, record_updS, stops_updS,
      record_scheme, hs]
    rfl

theorem body_relF (P : Bytes → Prop)
    (hsel : ∀ sch, ¬ P sch → (c.isSpecial sch = true → t4 = c.spFragSet) ∧ (c.isSpecial sch = false → t5 = c.fragSet))
    (q1 q2 : PS) (r : Char) (h : RelF P q1 q2) :
    SRel (RelF P) (ResF P) (body ⟨updS c c.specialSchemes c.pathSet c.spQuerySet c.querySet t4 t5, I, src, rs, base, ov⟩ q1 r)
      (body ⟨c, I, src, rs, base, ov⟩ q2 r) := by
  rcases h with h | ⟨hst, hP, hm⟩
  · subst h
    by_cases hst : q1.state = .fragment
    · have hb : ∀ e : Env, body e q1 r = stFragment e q1 r := by intro e; simp only [body, hst]
      rw [hb, hb]
      by_cases hP : P q1.url.scheme
      · exact stFragment_rel c _ _ _ t4 t5 I src rs base ov P q1 q1 r hst hP rfl
      · rw [stFragment_unsel c _ _ _ t4 t5 I src rs base ov q1 r (hsel _ hP).1 (hsel _ hP).2]
        exact SRel_refl _ _ (RelF_refl P) (ResF_refl P) _
    · rw [body_updS_sets c _ _ _ t4 t5 I src rs base ov q1 r (fun _ => rfl) (fun _ => ⟨rfl, rfl⟩) (fun h => absurd h hst)]
      exact SRel_refl _ _ (RelF_refl P) (ResF_refl P) _
  · have hst1 : q1.state = .fragment := by
      have := congrArg PS.state hm
      simp only [mF] at this
      rw [this, hst]
    have hb1 : ∀ e : Env, body e q1 r = stFragment e q1 r := by intro e; simp only [body, hst1]
    have hb2 : ∀ e : Env, body e q2 r = stFragment e q2 r := by intro e; simp only [body, hst]
    rw [hb1, hb2]
    exact stFragment_rel c _ _ _ t4 t5 I src rs base ov P q1 q2 r hst hP hm

theorem step_relF (P : Bytes → Prop)
    (hsel : ∀ sch, ¬ P sch → (c.isSpecial sch = true → t4 = c.spFragSet) ∧ (c.isSpecial sch = false → t5 = c.fragSet))
    (p1 p2 : PS) (h : RelF P p1 p2) :
    SRel (RelF P) (ResF P) (step ⟨updS c c.specialSchemes c.pathSet c.spQuerySet c.querySet t4 t5, I, src, rs, base, ov⟩ p1)
      (step ⟨c, I, src, rs, base, ov⟩ p2) := by
  unfold step
  apply SRel_bottom
  · intro a1 a2 ha
    rcases ha with ha | ⟨hst, hP, hm⟩
    · subst ha; exact ⟨rfl, Or.inl rfl⟩
    · refine ⟨?_, Or.inr ⟨hP, rfl, ?_⟩⟩
      · have := congrArg PS.eof hm; simpa only [mF] using this
      · have := congrArg PS.url hm; simpa only [mF] using this
  · dsimp only
    rcases h with h | ⟨hst, hP, hm⟩
    · subst h; exact body_relF c t4 t5 I src rs base ov P hsel _ _ _ (Or.inl rfl)
    · obtain ⟨hn1, hn2⟩ := next_mF rs p1 p2 hm
      rw [hn2]
      refine body_relF c t4 t5 I src rs base ov P hsel _ _ _ (Or.inr ⟨?_, ?_, hn1⟩)
      · rw [next_state]; exact hst
      · rw [next_url]; exact hP

end

/-- lift a relational lock-step to `basicParser` -/
theorem basicParser_rel (c1 c : Cfg) (hrec : record c1 = record c) (hstops : stops c1 = stops c)
    (R : PS → PS → Prop) (D : Res → Res → Prop) (hR : ∀ p, R p p) (hD : ∀ x, D x x)
    (hfuel : ∀ p1 p2, R p1 p2 → D ⟨p1.url, .outOfFuel⟩ ⟨p2.url, .outOfFuel⟩)
    (I : Idna) (input : Bytes) (base url : Option Url) (ov : Option State)
    (hstep : ∀ p1 p2, R p1 p2 →
      SRel R D (step ⟨c1, I, prologueText url input, goRunes (prologueText url input), base, ov⟩ p1)
        (step ⟨c, I, prologueText url input, goRunes (prologueText url input), base, ov⟩ p2)) :
    D (basicParser c1 I input base url ov) (basicParser c I input base url ov) := by
  unfold basicParser
  simp only [hrec, hstops]
  by_cases h1 : (url.isNone && (trim c0OrSpaceSet input).2 && stops c false) = true
  · rw [if_pos h1, if_pos h1]; exact hD _
  · rw [if_neg h1, if_neg h1]
    by_cases h2 : ((removeTabNl (if url.isNone then (trim c0OrSpaceSet input).1 else input)).2 && stops c false) = true
    · rw [if_pos h2, if_pos h2]; exact hD _
    · rw [if_neg h2, if_neg h2]
      unfold prologueText at hstep
      exact loop_rel _ _ R D hstep hfuel _ _ _ (hR _)

theorem ResF_fuel (P : Bytes → Prop) (p1 p2 : PS) (h : RelF P p1 p2) :
    ResF P ⟨p1.url, .outOfFuel⟩ ⟨p2.url, .outOfFuel⟩ := by
  rcases h with h | ⟨hst, hP, hm⟩
  · subst h; exact Or.inl rfl
  · refine Or.inr ⟨hP, rfl, ?_⟩
    have := congrArg PS.url hm; simpa only [mF] using this

/-- replaced fragment sets: the results agree except for the fragment, and agree completely unless the scheme
    selects a replaced set (`P`) -/
theorem basicParser_relF (c : Cfg) (t4 t5 : PSet) (P : Bytes → Prop)
    (hsel : ∀ sch, ¬ P sch → (c.isSpecial sch = true → t4 = c.spFragSet) ∧ (c.isSpecial sch = false → t5 = c.fragSet))
    (I : Idna) (input : Bytes) (base url : Option Url) (ov : Option State) :
    ResF P (basicParser (updS c c.specialSchemes c.pathSet c.spQuerySet c.querySet t4 t5) I input base url ov)
      (basicParser c I input base url ov) :=
  basicParser_rel (updS c c.specialSchemes c.pathSet c.spQuerySet c.querySet t4 t5) c rfl rfl (RelF P) (ResF P) (RelF_refl P) (ResF_refl P) (ResF_fuel P) I input base url ov
    (fun p1 p2 h => step_relF c t4 t5 I _ _ base ov P hsel p1 p2 h)

/-! ### states that differ in the url only, up to a url mask `g` -/

/-- a url mask: forgets a component that `record` and the fragment / query writes do not touch -/
structure UMask (g : Url → Url) : Prop where
  hrec : ∀ (cfg : Cfg) (u1 u2 : Url) (t : ErrT) (f : Bool), g u1 = g u2 → g (record cfg u1 t f) = g (record cfg u2 t f)
  hsch : ∀ u1 u2 : Url, g u1 = g u2 → u1.scheme = u2.scheme
  hfrag : ∀ (u1 u2 : Url) (x : Option Bytes), g u1 = g u2 → g { u1 with fragment := x } = g { u2 with fragment := x }

def RelG (g : Url → Url) (p1 p2 : PS) : Prop := ∃ u1, p1 = { p2 with url := u1 } ∧ g u1 = g p2.url

section
variable (c : Cfg) (t1 t2 t3 t4 t5 : PSet) (I : Idna) (src : Bytes) (rs : Str) (base : Option Url) (ov : Option State)

theorem stFragment_relG (g : Url → Url) (hg : UMask g) (R : PS → PS → Prop) (D : Res → Res → Prop)
    (q1 q2 : PS) (r : Char)
    (hR : ∀ p1 p2, p2.state = .fragment → p2.url.scheme = q2.url.scheme → RelG g p1 p2 → R p1 p2)
    (hD : ∀ (u1 u2 : Url) (ret : Ret), u2.scheme = q2.url.scheme → g u1 = g u2 → D ⟨u1, ret⟩ ⟨u2, ret⟩)
    (hst : q2.state = .fragment) (h : RelG g q1 q2) :
    SRel R D (stFragment ⟨updS c c.specialSchemes t1 t2 t3 c.spFragSet c.fragSet, I, src, rs, base, ov⟩ q1 r)
      (stFragment ⟨c, I, src, rs, base, ov⟩ q2 r) := by
  obtain ⟨u1, h1, hu⟩ := h
  subst h1
  have hs : c.isSpecial u1.scheme = c.isSpecial q2.url.scheme := by rw [hg.hsch _ _ hu]
  simp only [stFragment, unitChecks, herr, isSp, remainingInvalidPct, isSpecial_updS_self, record_updS, stops_updS,
    record_scheme, percentEncodeRune_updS, hs]
  repeat' (first
    | (apply SRel_ite <;> intro _)
    | (apply SRel_done; apply hD
       · first | rfl | (simp only [record_scheme]; done)
       · first | exact hg.hrec _ _ _ _ _ (hg.hrec _ _ _ _ _ hu) | exact hg.hrec _ _ _ _ _ hu | exact hu)
    | (apply SRel_cont; refine hR _ _ ?_ ?_ ⟨_, rfl, ?_⟩
       · exact hst
       · first | rfl | (simp only [record_scheme]; done)
       · first
          | exact hg.hfrag _ _ _ hu | exact hg.hrec _ _ _ _ _ (hg.hrec _ _ _ _ _ hu) | exact hg.hrec _ _ _ _ _ hu | exact hu))

/-- a url mask that also leaves the query alone -/
structure UMaskQ (g : Url → Url) : Prop extends UMask g where
  hq : ∀ u1 u2 : Url, g u1 = g u2 → u1.query = u2.query
  hqset : ∀ (u1 u2 : Url) (y : Option Bytes), g u1 = g u2 → g { u1 with query := y } = g { u2 with query := y }
  hfqset : ∀ (u1 u2 : Url) (x y : Option Bytes), g u1 = g u2 →
    g { u1 with fragment := x, query := y } = g { u2 with fragment := x, query := y }

theorem stQuery_relG (g : Url → Url) (hg : UMaskQ g) (R : PS → PS → Prop) (D : Res → Res → Prop)
    (q1 q2 : PS) (r : Char)
    (hR : ∀ p1 p2, (p2.state = .query ∨ p2.state = .fragment) → p2.url.scheme = q2.url.scheme → RelG g p1 p2 → R p1 p2)
    (hD : ∀ (u1 u2 : Url) (ret : Ret), u2.scheme = q2.url.scheme → g u1 = g u2 → D ⟨u1, ret⟩ ⟨u2, ret⟩)
    (hst : q2.state = .query) (h : RelG g q1 q2) :
    SRel R D (stQuery ⟨updS c c.specialSchemes t1 c.spQuerySet c.querySet t4 t5, I, src, rs, base, ov⟩ q1 r)
      (stQuery ⟨c, I, src, rs, base, ov⟩ q2 r) := by
  obtain ⟨u1, h1, hu⟩ := h
  subst h1
  have hs : c.isSpecial u1.scheme = c.isSpecial q2.url.scheme := by rw [hg.hsch _ _ hu]
  have hq := hg.hq _ _ hu
  cases hq2 : q2.url.query <;> rw [hq2] at hq <;>
  simp only [stQuery, unitChecks, herr, isSp, remainingInvalidPct, isSpecial_updS_self, record_updS, stops_updS,
    record_scheme, percentEncodeRune_updS, hs, hq, hq2] <;>
  repeat' (first
    | (apply SRel_ite <;> intro _)
    | (apply SRel_done; apply hD
       · first | rfl | (simp only [record_scheme]; done)
       · first | exact hg.hrec _ _ _ _ _ (hg.hrec _ _ _ _ _ hu) | exact hg.hrec _ _ _ _ _ hu | exact hu)
    | (apply SRel_cont; refine hR _ _ ?_ ?_ ⟨_, rfl, ?_⟩
       · first | exact Or.inl hst | exact Or.inr rfl
       · first | rfl | (simp only [record_scheme]; done)
       · first
          | exact hg.hfqset _ _ _ _ hu | exact hg.hqset _ _ _ hu
          | exact hg.hrec _ _ _ _ _ (hg.hrec _ _ _ _ _ hu) | exact hg.hrec _ _ _ _ _ hu | exact hu))

/-! ### query sets -/

def mQU (u : Url) : Url := { u with query := none }

def RelQ (P : Bytes → Prop) (p1 p2 : PS) : Prop :=
  p1 = p2 ∨ (P p2.url.scheme ∧
    ((p2.state = .query ∧ ∃ b f, p1 = { p2 with buffer := b, url := { p2.url with query := f } } ∧
        f.isSome = p2.url.query.isSome) ∨
     (p2.state = .fragment ∧ RelG mQU p1 p2)))
def ResQ (P : Bytes → Prop) (x1 x2 : Res) : Prop :=
  x1 = x2 ∨ (P x2.url.scheme ∧ x1.ret = x2.ret ∧ mQU x1.url = mQU x2.url)

theorem record_setq (cfg : Cfg) (u : Url) (f : Option Bytes) (t : ErrT) (fl : Bool) :
    record cfg { u with query := f } t fl = { record cfg u t fl with query := f } := by
  unfold record; split <;> rfl

theorem isSpecial_record (cfg : Cfg) (u : Url) (t : ErrT) (f : Bool) :
    c.isSpecial (record cfg u t f).scheme = c.isSpecial u.scheme := by rw [record_scheme]

theorem mQU_setq (u : Url) (f : Option Bytes) : mQU { u with query := f } = mQU u := rfl

theorem stQuery_relQ (P : Bytes → Prop) (q2 : PS) (b : Bytes) (f : Option Bytes) (r : Char) (hst : q2.state = .query)
    (hP : P q2.url.scheme) (hf : f.isSome = q2.url.query.isSome) :
    SRel (RelQ P) (ResQ P)
      (stQuery ⟨updS c c.specialSchemes t1 t2 t3 t4 t5, I, src, rs, base, ov⟩
        { q2 with buffer := b, url := { q2.url with query := f } } r)
      (stQuery ⟨c, I, src, rs, base, ov⟩ q2 r) := by
  cases hq2 : q2.url.query <;> cases f <;> rw [hq2] at hf <;> (try (simp at hf; done))
  all_goals
    simp only [stQuery, unitChecks, herr, isSp, remainingInvalidPct, isSpecial_updS_self, record_updS, stops_updS,
      isSpecial_record, percentEncodeRune_updS, record_setq, hq2]
    repeat' (first
      | (apply SRel_ite <;> intro _)
      | (apply SRel_done; refine Or.inr ⟨?_, rfl, ?_⟩
         · first | exact hP | (simpa only [record_scheme] using hP)
         · first | rfl | (simp only [mQU_setq]; done))
      | (apply SRel_cont; refine Or.inr ⟨?_, ?_⟩
         · first | exact hP | (simpa only [record_scheme] using hP)
         · first
            | exact Or.inr ⟨rfl, _, rfl, rfl⟩
            | (refine Or.inl ⟨hst, _, _, rfl, ?_⟩; simp only [Frame.record_query, hq2]; try rfl)))

end
theorem mQU_eq (u1 u2 : Url) (h : mQU u1 = mQU u2) : u1 = { u2 with query := u1.query } := by
  obtain ⟨x1, x2, x3, x4, x5, x6, x7, x8, x9, x10, x11⟩ := u1
  obtain ⟨y1, y2, y3, y4, y5, y6, y7, y8, y9, y10, y11⟩ := u2
  simp only [mQU, Url.mk.injEq] at h
  obtain ⟨h1, h2, h3, h4, h5, h6, h7, _, h9, h10, h11⟩ := h
  subst_vars
  rfl

theorem UMask_mQU : UMask mQU where
  hrec := by
    intro cfg u1 u2 t f h
    rw [mQU_eq u1 u2 h]
    unfold record; split <;> rfl
  hsch := by
    intro u1 u2 h
    rw [mQU_eq u1 u2 h]
  hfrag := by
    intro u1 u2 x h
    rw [mQU_eq u1 u2 h]
    rfl

section
variable (c : Cfg) (t1 t2 t3 t4 t5 : PSet) (I : Idna) (src : Bytes) (rs : Str) (base : Option Url) (ov : Option State)

theorem stQuery_unsel (q : PS) (r : Char)
    (h2 : c.isSpecial q.url.scheme = true → t2 = c.spQuerySet) (h3 : c.isSpecial q.url.scheme = false → t3 = c.querySet) :
    stQuery ⟨updS c c.specialSchemes t1 t2 t3 t4 t5, I, src, rs, base, ov⟩ q r =
      stQuery ⟨c, I, src, rs, base, ov⟩ q r := by
  cases hs : c.isSpecial q.url.scheme
  · rw [h3 hs]
    simp only [stQuery, unitChecks, herr, isSp, remainingInvalidPct, isSpecial_updS_self, record_updS, stops_updS,
      record_scheme, hs]
    rfl
  · rw [h2 hs]
    simp only [stQuery, unitChecks, herr, isSp, remainingInvalidPct, isSpecial_updS_self, record_updS, stops_updS,
      record_scheme, hs]
    rfl

theorem RelQ_refl (P : Bytes → Prop) (p : PS) : RelQ P p p := Or.inl rfl
theorem ResQ_refl (P : Bytes → Prop) (x : Res) : ResQ P x x := Or.inl rfl

theorem body_relQ (P : Bytes → Prop)
    (hsel : ∀ sch, ¬ P sch → (c.isSpecial sch = true → t2 = c.spQuerySet) ∧ (c.isSpecial sch = false → t3 = c.querySet))
    (q1 q2 : PS) (r : Char) (h : RelQ P q1 q2) :
    SRel (RelQ P) (ResQ P) (body ⟨updS c c.specialSchemes c.pathSet t2 t3 c.spFragSet c.fragSet, I, src, rs, base, ov⟩ q1 r)
      (body ⟨c, I, src, rs, base, ov⟩ q2 r) := by
  rcases h with h | ⟨hP, ⟨hst, b, f, hq, hf⟩ | ⟨hst, hG⟩⟩
  · subst h
    by_cases hst : q1.state = .query
    · have hb : ∀ e : Env, body e q1 r = stQuery e q1 r := by intro e; simp only [body, hst]
      rw [hb, hb]
      by_cases hP : P q1.url.scheme
      · exact stQuery_relQ c _ t2 t3 _ _ I src rs base ov P q1 q1.buffer q1.url.query r hst hP rfl
      · rw [stQuery_unsel c _ t2 t3 _ _ I src rs base ov q1 r (hsel _ hP).1 (hsel _ hP).2]
        exact SRel_refl _ _ (RelQ_refl P) (ResQ_refl P) _
    · rw [body_updS_sets c _ t2 t3 _ _ I src rs base ov q1 r (fun _ => rfl) (fun h => absurd h hst) (fun _ => ⟨rfl, rfl⟩)]
      exact SRel_refl _ _ (RelQ_refl P) (ResQ_refl P) _
  · subst hq
    have hb1 : ∀ (e : Env) (p : PS), p.state = .query → body e p r = stQuery e p r := by
      intro e p hp; simp only [body, hp]
    rw [hb1 _ q2 hst, hb1 _ { q2 with buffer := b, url := { q2.url with query := f } } hst]
    exact stQuery_relQ c _ t2 t3 _ _ I src rs base ov P q2 b f r hst hP hf
  · have hst1 : q1.state = .fragment := by
      obtain ⟨u1, h1, _⟩ := hG; rw [h1]; exact hst
    have hb1 : ∀ (e : Env) (p : PS), p.state = .fragment → body e p r = stFragment e p r := by
      intro e p hp; simp only [body, hp]
    rw [hb1 _ q2 hst, hb1 _ q1 hst1]
    refine stFragment_relG c _ t2 t3 I src rs base ov mQU UMask_mQU _ _ q1 q2 r ?_ ?_ hst hG
    · intro p1 p2 hp hs hG'
      exact Or.inr ⟨by rw [hs]; exact hP, Or.inr ⟨hp, hG'⟩⟩
    · intro u1 u2 ret hs hu
      exact Or.inr ⟨by rw [hs]; exact hP, rfl, hu⟩

theorem next_RelG (g : Url → Url) (p1 p2 : PS) (h : RelG g p1 p2) :
    RelG g (next rs p1).1 (next rs p2).1 ∧ (next rs p1).2 = (next rs p2).2 := by
  obtain ⟨u1, h1, hu⟩ := h
  subst h1
  unfold next
  dsimp only
  split <;> exact ⟨⟨u1, rfl, hu⟩, rfl⟩

theorem next_RelQ (P : Bytes → Prop) (p1 p2 : PS) (h : RelQ P p1 p2) :
    RelQ P (next rs p1).1 (next rs p2).1 ∧ (next rs p1).2 = (next rs p2).2 := by
  rcases h with h | ⟨hP, ⟨hst, b, f, hq, hf⟩ | ⟨hst, hG⟩⟩
  · subst h; exact ⟨Or.inl rfl, rfl⟩
  · subst hq
    refine ⟨Or.inr ⟨by rw [next_url]; exact hP, Or.inl ⟨by rw [next_state]; exact hst, b, f, ?_, by rw [next_url]; exact hf⟩⟩, ?_⟩
    · unfold next; dsimp only; split <;> rfl
    · unfold next; dsimp only; split <;> rfl
  · obtain ⟨h1, h2⟩ := next_RelG rs mQU p1 p2 hG
    exact ⟨Or.inr ⟨by rw [next_url]; exact hP, Or.inr ⟨by rw [next_state]; exact hst, h1⟩⟩, h2⟩

theorem RelQ_bottom (P : Bytes → Prop) (a1 a2 : PS) (h : RelQ P a1 a2) :
    a1.eof = a2.eof ∧ ResQ P ⟨a1.url, .url⟩ ⟨a2.url, .url⟩ := by
  rcases h with h | ⟨hP, ⟨hst, b, f, hq, hf⟩ | ⟨hst, u1, h1, hu⟩⟩
  · subst h; exact ⟨rfl, Or.inl rfl⟩
  · subst hq; exact ⟨rfl, Or.inr ⟨hP, rfl, rfl⟩⟩
  · subst h1; exact ⟨rfl, Or.inr ⟨hP, rfl, hu⟩⟩

theorem ResQ_fuel (P : Bytes → Prop) (p1 p2 : PS) (h : RelQ P p1 p2) :
    ResQ P ⟨p1.url, .outOfFuel⟩ ⟨p2.url, .outOfFuel⟩ := by
  rcases h with h | ⟨hP, ⟨hst, b, f, hq, hf⟩ | ⟨hst, u1, h1, hu⟩⟩
  · subst h; exact Or.inl rfl
  · subst hq; exact Or.inr ⟨hP, rfl, rfl⟩
  · subst h1; exact Or.inr ⟨hP, rfl, hu⟩

theorem step_relQ (P : Bytes → Prop)
    (hsel : ∀ sch, ¬ P sch → (c.isSpecial sch = true → t2 = c.spQuerySet) ∧ (c.isSpecial sch = false → t3 = c.querySet))
    (p1 p2 : PS) (h : RelQ P p1 p2) :
    SRel (RelQ P) (ResQ P) (step ⟨updS c c.specialSchemes c.pathSet t2 t3 c.spFragSet c.fragSet, I, src, rs, base, ov⟩ p1)
      (step ⟨c, I, src, rs, base, ov⟩ p2) := by
  unfold step
  apply SRel_bottom _ _ (RelQ_bottom P)
  dsimp only
  obtain ⟨hn1, hn2⟩ := next_RelQ rs P p1 p2 h
  rw [hn2]
  exact body_relQ c t2 t3 I src rs base ov P hsel _ _ _ hn1

end

/-- replaced query sets: the results agree except for the query, and agree completely unless the scheme selects a
    replaced set (`P`) -/
theorem basicParser_relQ (c : Cfg) (t2 t3 : PSet) (P : Bytes → Prop)
    (hsel : ∀ sch, ¬ P sch → (c.isSpecial sch = true → t2 = c.spQuerySet) ∧ (c.isSpecial sch = false → t3 = c.querySet))
    (I : Idna) (input : Bytes) (base url : Option Url) (ov : Option State) :
    ResQ P (basicParser (updS c c.specialSchemes c.pathSet t2 t3 c.spFragSet c.fragSet) I input base url ov)
      (basicParser c I input base url ov) :=
  basicParser_rel (updS c c.specialSchemes c.pathSet t2 t3 c.spFragSet c.fragSet) c rfl rfl (RelQ P) (ResQ P)
    (RelQ_refl P) (ResQ_refl P) (ResQ_fuel P) I input base url ov
    (fun p1 p2 h => step_relQ c t2 t3 I _ _ base ov P hsel p1 p2 h)

/-- the continuation of the path state at a terminator: compute the new path, reset the buffer, dispatch on `?` / `#` -/
def pathK (e : Env) (r : Char) : PS → StepR := fun ps =>
      let slash := r == '/' || spBackslash e ps.url r
      let url := ps.url
      let res : Option (Url × Bytes) :=
        if isDoubleDot ps.buffer then
          let p := url.path.shorten url.scheme
          some ({ url with path := if !slash then p.addSegment [] else p }, ps.buffer)
        else if isSingleDot ps.buffer && !slash then some ({ url with path := url.path.addSegment [] }, ps.buffer)
        else if !isSingleDot ps.buffer then
          let buf :=
            if url.scheme == lit "file" && url.path.isEmpty && isWindowsDriveLetter ps.buffer && !e.cfg.skipDrive then
              ps.buffer.take 1 ++ [0x3a] ++ ps.buffer.drop 2
            else ps.buffer
          if !e.cfg.collapse || !isSp e url || url.path.isEmpty || (url.path.segs.getLast?.getD []).length > 0 then
            some ({ url with path := url.path.addSegment buf }, buf)
          else
            some ({ url with path := { url.path with segs := url.path.segs.dropLast ++ [buf] } }, buf)
        else some (url, ps.buffer)
      match res with
      | none => .done ⟨ps.url, .panic 14⟩
      | some (url, _) =>
        let ps := { ps with url := url, buffer := [] }
        if r == '?' then .cont { ps with state := .query, url := { ps.url with query := some [] } }
        else if r == '#' then .cont { ps with state := .fragment, url := { ps.url with fragment := some [] } }
        else .cont ps

theorem stPath_eq (e : Env) (ps : PS) (r : Char) :
    stPath e ps r =
      if (ps.eof || r == '/') || spBackslash e ps.url r || (e.ov.isNone && (r == '?' || r == '#')) then
        (if spBackslash e ps.url r then herr e ps .InvalidReverseSolidus false (pathK e r) else pathK e r ps)
      else
        unitChecks e ps r fun ps =>
          if remainingInvalidPct e.runes ps then
            .cont { ps with buffer := ps.buffer ++ percentEncodeInvalidRune e.cfg e.cfg.pathSet r }
          else .cont { ps with buffer := ps.buffer ++ percentEncodeRune e.cfg e.cfg.pathSet r } := rfl

def pathTail (r : Char) (ps : PS) : StepR :=
  if r == '?' then .cont { ps with state := .query, url := { ps.url with query := some [] } }
  else if r == '#' then .cont { ps with state := .fragment, url := { ps.url with fragment := some [] } }
  else .cont ps

theorem pathK_shape (e : Env) (r : Char) (ps : PS) :
    ∃ np, pathK e r ps = pathTail r { ps with url := { ps.url with path := np }, buffer := [] } := by
  unfold pathK
  dsimp only
  split
  · rename_i heq
    exfalso
    (repeat' split at heq) <;> cases heq
  · rename_i url buf heq
    have : ∃ np, url = { ps.url with path := np } := by
      (repeat' split at heq) <;> (cases heq; exact ⟨_, rfl⟩)
    obtain ⟨np, hnp⟩ := this
    subst hnp
    exact ⟨np, rfl⟩

/-! ### path set -/

def mPU (u : Url) : Url := { u with path := Path.init }

def RelP (p1 p2 : PS) : Prop :=
  p1 = p2 ∨
    ((p2.state = .path ∧ ∃ b pth, p1 = { p2 with buffer := b, url := { p2.url with path := pth } }) ∨
     ((p2.state = .query ∨ p2.state = .fragment) ∧ RelG mPU p1 p2))
def ResP (x1 x2 : Res) : Prop := x1.ret = x2.ret ∧ mPU x1.url = mPU x2.url

theorem mPU_eq (u1 u2 : Url) (h : mPU u1 = mPU u2) : u1 = { u2 with path := u1.path } := by
  obtain ⟨x1, x2, x3, x4, x5, x6, x7, x8, x9, x10, x11⟩ := u1
  obtain ⟨y1, y2, y3, y4, y5, y6, y7, y8, y9, y10, y11⟩ := u2
  simp only [mPU, Url.mk.injEq] at h
  obtain ⟨h1, h2, h3, h4, h5, h6, _, h8, h9, h10, h11⟩ := h
  subst_vars
  rfl

theorem UMaskQ_mPU : UMaskQ mPU where
  hrec := by
    intro cfg u1 u2 t f h
    rw [mPU_eq u1 u2 h]
    unfold record; split <;> rfl
  hsch := by
    intro u1 u2 h
    rw [mPU_eq u1 u2 h]
  hfrag := by
    intro u1 u2 x h
    rw [mPU_eq u1 u2 h]
    rfl
  hq := by
    intro u1 u2 h
    rw [mPU_eq u1 u2 h]
  hqset := by
    intro u1 u2 y h
    rw [mPU_eq u1 u2 h]
    rfl
  hfqset := by
    intro u1 u2 x y h
    rw [mPU_eq u1 u2 h]
    rfl

theorem record_setp (cfg : Cfg) (u : Url) (p : Path) (t : ErrT) (fl : Bool) :
    record cfg { u with path := p } t fl = { record cfg u t fl with path := p } := by
  unfold record; split <;> rfl

theorem pathTail_rel (r : Char) (q : PS) (hst : q.state = .path) (np1 np2 : Path) :
    SRel RelP ResP (pathTail r { q with url := { q.url with path := np1 }, buffer := [] })
      (pathTail r { q with url := { q.url with path := np2 }, buffer := [] }) := by
  unfold pathTail
  repeat' (first
    | (apply SRel_ite <;> intro _)
    | (apply SRel_cont; first
        | exact Or.inr (Or.inr ⟨Or.inl rfl, _, rfl, rfl⟩)
        | exact Or.inr (Or.inr ⟨Or.inr rfl, _, rfl, rfl⟩)
        | exact Or.inr (Or.inl ⟨hst, [], np1, rfl⟩)))

theorem pathK_rel (e1 e2 : Env) (r : Char) (q2 : PS) (hst : q2.state = .path) (b : Bytes) (pth : Path) :
    SRel RelP ResP (pathK e1 r { q2 with buffer := b, url := { q2.url with path := pth } }) (pathK e2 r q2) := by
  obtain ⟨np1, h1⟩ := pathK_shape e1 r { q2 with buffer := b, url := { q2.url with path := pth } }
  obtain ⟨np2, h2⟩ := pathK_shape e2 r q2
  rw [h1, h2]
  exact pathTail_rel r q2 hst np1 np2

section
variable (c : Cfg) (t1 t2 t3 t4 t5 : PSet) (I : Idna) (src : Bytes) (rs : Str) (base : Option Url) (ov : Option State)

attribute [local irreducible] pathK in
theorem stPath_relP (q2 : PS) (b : Bytes) (pth : Path) (r : Char) (hst : q2.state = .path) :
    SRel RelP ResP
      (stPath ⟨updS c c.specialSchemes t1 t2 t3 t4 t5, I, src, rs, base, ov⟩
        { q2 with buffer := b, url := { q2.url with path := pth } } r)
      (stPath ⟨c, I, src, rs, base, ov⟩ q2 r) := by
  rw [stPath_eq, stPath_eq]
  simp only [unitChecks, herr, isSp, spBackslash, remainingInvalidPct, isSpecial_updS_self, record_updS, stops_updS,
    isSpecial_record, record_setp]
  repeat' (first
    | (apply SRel_ite <;> intro _)
    | exact pathK_rel _ _ r q2 hst b pth
    | exact pathK_rel _ _ r { q2 with url := record c q2.url _ _ } hst b pth
    | (apply SRel_done; exact ⟨rfl, rfl⟩)
    | (apply SRel_cont; exact Or.inr (Or.inl ⟨hst, _, _, rfl⟩)))

theorem RelP_refl (p : PS) : RelP p p := Or.inl rfl
theorem ResP_refl (x : Res) : ResP x x := ⟨rfl, rfl⟩

theorem body_relP (q1 q2 : PS) (r : Char) (h : RelP q1 q2) :
    SRel RelP ResP (body ⟨updS c c.specialSchemes t1 c.spQuerySet c.querySet c.spFragSet c.fragSet, I, src, rs, base, ov⟩ q1 r)
      (body ⟨c, I, src, rs, base, ov⟩ q2 r) := by
  have hbP : ∀ (e : Env) (p : PS), p.state = .path → body e p r = stPath e p r := by
    intro e p hp; simp only [body, hp]
  have hbQ : ∀ (e : Env) (p : PS), p.state = .query → body e p r = stQuery e p r := by
    intro e p hp; simp only [body, hp]
  have hbF : ∀ (e : Env) (p : PS), p.state = .fragment → body e p r = stFragment e p r := by
    intro e p hp; simp only [body, hp]
  have hRG : ∀ p1 p2 : PS, (p2.state = .query ∨ p2.state = .fragment) → RelG mPU p1 p2 → RelP p1 p2 :=
    fun p1 p2 hp hG => Or.inr (Or.inr ⟨hp, hG⟩)
  have hDG : ∀ (u1 u2 : Url) (ret : Ret), mPU u1 = mPU u2 → ResP ⟨u1, ret⟩ ⟨u2, ret⟩ := fun _ _ _ hu => ⟨rfl, hu⟩
  rcases h with h | ⟨hst, b, pth, hq⟩ | ⟨hst, hG⟩
  · subst h
    by_cases hst : q1.state = .path
    · rw [hbP _ _ hst, hbP _ _ hst]
      exact stPath_relP c t1 _ _ _ _ I src rs base ov q1 q1.buffer q1.url.path r hst
    · rw [body_updS_sets c t1 _ _ _ _ I src rs base ov q1 r (fun h => absurd h hst) (fun _ => ⟨rfl, rfl⟩) (fun _ => ⟨rfl, rfl⟩)]
      exact SRel_refl _ _ RelP_refl ResP_refl _
  · subst hq
    rw [hbP _ q2 hst, hbP _ { q2 with buffer := b, url := { q2.url with path := pth } } hst]
    exact stPath_relP c t1 _ _ _ _ I src rs base ov q2 b pth r hst
  · have hst1 : q1.state = q2.state := by
      obtain ⟨u1, h1, _⟩ := hG; rw [h1]
    rcases hst with hst | hst
    · rw [hbQ _ q2 hst, hbQ _ q1 (hst1.trans hst)]
      exact stQuery_relG c t1 _ _ I src rs base ov mPU UMaskQ_mPU _ _ q1 q2 r
        (fun p1 p2 hp _ hG' => hRG p1 p2 hp hG') (fun u1 u2 ret _ hu => hDG u1 u2 ret hu) hst hG
    · rw [hbF _ q2 hst, hbF _ q1 (hst1.trans hst)]
      exact stFragment_relG c t1 _ _ I src rs base ov mPU UMaskQ_mPU.toUMask _ _ q1 q2 r
        (fun p1 p2 hp _ hG' => hRG p1 p2 (Or.inr hp) hG') (fun u1 u2 ret _ hu => hDG u1 u2 ret hu) hst hG

theorem next_RelP (p1 p2 : PS) (h : RelP p1 p2) :
    RelP (next rs p1).1 (next rs p2).1 ∧ (next rs p1).2 = (next rs p2).2 := by
  rcases h with h | ⟨hst, b, pth, hq⟩ | ⟨hst, hG⟩
  · subst h; exact ⟨Or.inl rfl, rfl⟩
  · subst hq
    refine ⟨Or.inr (Or.inl ⟨by rw [next_state]; exact hst, b, pth, ?_⟩), ?_⟩
    · unfold next; dsimp only; split <;> rfl
    · unfold next; dsimp only; split <;> rfl
  · obtain ⟨h1, h2⟩ := next_RelG rs mPU p1 p2 hG
    exact ⟨Or.inr (Or.inr ⟨by rw [next_state]; exact hst, h1⟩), h2⟩

theorem RelP_bottom (a1 a2 : PS) (h : RelP a1 a2) :
    a1.eof = a2.eof ∧ ResP ⟨a1.url, .url⟩ ⟨a2.url, .url⟩ := by
  rcases h with h | ⟨hst, b, pth, hq⟩ | ⟨hst, u1, h1, hu⟩
  · subst h; exact ⟨rfl, rfl, rfl⟩
  · subst hq; exact ⟨rfl, rfl, rfl⟩
  · subst h1; exact ⟨rfl, rfl, hu⟩

theorem ResP_fuel (p1 p2 : PS) (h : RelP p1 p2) : ResP ⟨p1.url, .outOfFuel⟩ ⟨p2.url, .outOfFuel⟩ := by
  rcases h with h | ⟨hst, b, pth, hq⟩ | ⟨hst, u1, h1, hu⟩
  · subst h; exact ⟨rfl, rfl⟩
  · subst hq; exact ⟨rfl, rfl⟩
  · subst h1; exact ⟨rfl, hu⟩

theorem step_relP (p1 p2 : PS) (h : RelP p1 p2) :
    SRel RelP ResP (step ⟨updS c c.specialSchemes t1 c.spQuerySet c.querySet c.spFragSet c.fragSet, I, src, rs, base, ov⟩ p1)
      (step ⟨c, I, src, rs, base, ov⟩ p2) := by
  unfold step
  apply SRel_bottom _ _ RelP_bottom
  dsimp only
  obtain ⟨hn1, hn2⟩ := next_RelP rs p1 p2 h
  rw [hn2]
  exact body_relP c t1 I src rs base ov _ _ _ hn1

end

/-- a replaced path set: the results agree except for the path -/
theorem basicParser_relP (c : Cfg) (t1 : PSet) (I : Idna) (input : Bytes) (base url : Option Url) (ov : Option State) :
    ResP (basicParser (updS c c.specialSchemes t1 c.spQuerySet c.querySet c.spFragSet c.fragSet) I input base url ov)
      (basicParser c I input base url ov) :=
  basicParser_rel (updS c c.specialSchemes t1 c.spQuerySet c.querySet c.spFragSet c.fragSet) c rfl rfl RelP ResP
    RelP_refl ResP_refl ResP_fuel I input base url ov
    (fun p1 p2 h => step_relP c t1 I _ _ base ov p1 p2 h)

end WhatwgUrl.Proofs.Neutral
