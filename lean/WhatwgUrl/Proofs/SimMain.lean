import WhatwgUrl.Proofs.SimParse
import WhatwgUrl.Proofs.SimSetters
/-
  Conformance simulation: everything around the per-state one-iteration lemmas (C01 / C05 assembly).

  * part 1 (loop lifting)            `Proofs/SimLoop.lean`      `loop_sim`, `loop_sim_for`, `loop_sim_gen`, `machine_succ`,
                                                                `machine_fuel_irrel`, `RPS_init`
  * part 2 (prologue)                `Proofs/SimPrologue.lean`  `prologue_sim`, `goRunes_trim`, `TabNlOk_of_valid`,
                                                                `TabNlOk_of_ascii`, `TabNlOk_trim_of_valid`,
                                                                `TabNlOk_counterexample`, `goRunes_append_utf8Char`
  * part 3 (observation transport)   `Proofs/SimObs.lean`       `RUrl.obs_href`, `RUrl.obs_protocol`, `RUrl.obs_host`, …
  * part 4 (assembly, C01)           `Proofs/SimParse.lean`     `parse_conforms_of_sim`, `parseRef_conforms_of_sim`,
                                                                `C01_parse_conforms_of_sim` and their `'`, `_for`, `_gen` forms
  * part 5 (setters, C05)            `Proofs/SimSetters.lean`   `set_conforms_of_sim'`, `set_conforms_of_sim_gen`,
                                                                `basicParse_scheme_colon`
  * corrected definitions            `Proofs/SimDefs2.lean`     `RRes'`, `RStep'`, `XInv`, `BaseOk`, `HostFrame`, `StepSim'`
  * the invariant is inductive       `Proofs/SimInv.lean`       `XInv_init`, `XInv_step`

  This file: the concrete disagreements behind the corrections, non-vacuity examples and the axiom audit. (`StepSim I` and
  each `step_sim_S` exactly as stated in SIM.md are unsatisfiable: `StepSim_false`, `StepSimFor_none_false` in `SimParse.lean`.)

  What a per-state lemma has to provide in the corrected form (`StepSim'`, for its state `S`):
    hypotheses   `REnv e input base ov I`, `EnvOk e`, `RPS pi ss`, `XInv e pi`, `pi.state = S`
    conclusion   `RStep' ov.isNone (step e pi) (afterRun input (Spec.run (specIdna I) input base ov ss))`, i.e.
                 * both continue and `RPS pi' ss'` (exactly as before; `XInv e pi'` comes for free from `XInv_step`), or
                 * both stop and `RRes' ov.isNone r s`: as `RRes`, and ADDITIONALLY
                   - `RUrl r.url s.1` also when Go returns an error (always the Go url at that moment, which corresponds
                     to the standard's url by `RPS.url`; after a host parser error use `HostFrame`),
                   - for Go's `return nil, nil` (file host state, override, empty buffer): `ov ≠ none`, no failure on
                     the Spec side, and the urls correspond,
                   - under an override the failure flag of a failing Go run is not compared (port state, override,
                     empty buffer: Go returns `PortMissing`, the standard returns without failure).
-/
namespace WhatwgUrl.Proofs.Sim
open WhatwgUrl WhatwgUrl.Impl

/-! ### the concrete disagreements behind the corrections -/

private def I0 : Idna := fun s => (s, false)

/-- port setter with a value that does not start with a digit: Go returns the error `PortMissing` (failure), the
    standard returns without failure; the url is unchanged on both sides (so the setter conforms all the same) -/
example :
    (setPort {} I0 { scheme := lit "http", host := some (lit "h") } (lit "x")).ret = .err ⟨.PortMissing, true⟩ false ∧
    (setPort {} I0 { scheme := lit "http", host := some (lit "h") } (lit "x")).url = { scheme := lit "http", host := some (lit "h") } ∧
    Spec.basicParse (specIdna I0) "x".toList none (some { scheme := "http".toList, host := some "h".toList }) (some .port) =
      ({ scheme := "http".toList, host := some "h".toList }, false) := by decide +kernel

/-- host setter with the empty value on a `file:` url: Go returns `nil, nil`, the standard returns the url with the
    empty host; the urls correspond -/
example :
    (setHost {} I0 { scheme := lit "file", host := some (lit "h") } []).ret = .nilNil ∧
    (setHost {} I0 { scheme := lit "file", host := some (lit "h") } []).url = { scheme := lit "file", host := some [] } ∧
    Spec.basicParse (specIdna I0) [] none (some { scheme := "file".toList, host := some "h".toList }) (some .host) =
      ({ scheme := "file".toList, host := some [] }, false) := by decide +kernel

/-- an ill-formed base record (special scheme with an opaque path; never produced by the parser) on which the Go code
    and the standard really disagree: hence `BaseOk` -/
example :
    href (basicParser {} I0 (lit "http:y") (some { scheme := lit "http", host := some (lit "h"), path := ⟨[lit "x"], true⟩ })
      none none).url false ≠
    utf8 (Spec.serialize (Spec.basicParse (specIdna I0) "http:y".toList
      (some { scheme := "http".toList, host := some "h".toList, path := .opaque "x".toList }) none none).1 false) := by
  decide +kernel

/-! ### non-vacuity of the corrected hypotheses on a concrete run -/

/-- the invariant holds initially … -/
example : XInv (envOf I0 (lit "foo://h/") none true none) (ps0Of none none) :=
  XInv_init _ _ _ rfl (fun h => by cases h)
/-- … and the two sides of the conclusion of `C01_parse_conforms_of_sim'` are really computed and equal on an example -/
example : Props.C01.obsImpl (parse {} I0 (lit " foo://u@[::1]:8/a/../b?q#f\t")) =
    Props.C01.obsSpec (Spec.apiParse (Props.C01.specIdna I0) (goRunes (lit " foo://u@[::1]:8/a/../b?q#f\t")) none) := by
  decide +kernel

end WhatwgUrl.Proofs.Sim

open WhatwgUrl.Proofs.Sim in
#print axioms loop_sim
open WhatwgUrl.Proofs.Sim in
#print axioms loop_sim_gen
open WhatwgUrl.Proofs.Sim in
#print axioms prologue_sim
open WhatwgUrl.Proofs.Sim in
#print axioms TabNlOk_of_valid
open WhatwgUrl.Proofs.Sim in
#print axioms TabNlOk_of_ascii
open WhatwgUrl.Proofs.Sim in
#print axioms TabNlOk_counterexample
open WhatwgUrl.Proofs.Sim in
#print axioms RUrl.obs_href
open WhatwgUrl.Proofs.Sim in
#print axioms RUrl.obs_host
open WhatwgUrl.Proofs.Sim in
#print axioms parse_conforms_of_sim
open WhatwgUrl.Proofs.Sim in
#print axioms parseRef_conforms_of_sim
open WhatwgUrl.Proofs.Sim in
#print axioms C01_parse_conforms_of_sim
open WhatwgUrl.Proofs.Sim in
#print axioms parse_conforms_of_sim'
open WhatwgUrl.Proofs.Sim in
#print axioms parseRef_conforms_of_sim'
open WhatwgUrl.Proofs.Sim in
#print axioms C01_parse_conforms_of_sim'
open WhatwgUrl.Proofs.Sim in
#print axioms C01_parse_conforms_of_sim_valid'
open WhatwgUrl.Proofs.Sim in
#print axioms set_conforms_of_sim'
open WhatwgUrl.Proofs.Sim in
#print axioms set_conforms_of_sim_gen
open WhatwgUrl.Proofs.Sim in
#print axioms XInv_step
open WhatwgUrl.Proofs.Sim in
#print axioms XInv_init
open WhatwgUrl.Proofs.Sim in
#print axioms StepSim_false
open WhatwgUrl.Proofs.Sim in
#print axioms StepSimFor_none_false
