import WhatwgUrl.Proofs.SimA2
import WhatwgUrl.Proofs.SimHost
/-
  `SimA2.lean` can be imported next to `SimHost.lean`, and all hypotheses of `stepSim'_A` — including the oracle laws —
  are satisfiable at once: the toy oracle `I0` (`I0_laws`), a one-code-point input, the empty url record as base, the
  machine at its first iteration in each of the twelve states.
-/
namespace WhatwgUrl.Proofs.Sim.A2
open WhatwgUrl WhatwgUrl.Impl

example (S : State) (hS : stA S = true) :
    RStep' true (step (wEnv I0) (wPS S)) (afterRun ['a'] (Spec.run (specIdna I0) ['a'] (some {}) none (wSS S))) :=
  have w := witness_ok2 I0 S hS
  stepSim'_A I0 I0_laws none _ _ _ w.1 w.2.1 _ _ w.2.2.1 w.2.2.2.1 w.2.2.2.2

end WhatwgUrl.Proofs.Sim.A2
