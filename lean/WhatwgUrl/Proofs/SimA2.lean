import WhatwgUrl.Proofs.SimBase2
import WhatwgUrl.Proofs.SimDefs2
/-
  The one-iteration simulation lemmas of `SimA.lean` (twelve states: scheme start, scheme, no scheme, special relative or
  authority, path or authority, relative, relative slash, special authority slashes, special authority ignore slashes,
  authority, file, file slash) in the CORRECTED form of `SimDefs2.lean` (SIM2.md):

      def stA : State → Bool      -- true exactly on the twelve states
      theorem stepSim'_A (I) (hI : IdnaLaws I) (ov e input base) (hE : REnv e input base ov I) (hOk : EnvOk e)
          (pi ss) (h : RPS pi ss) (hx : XInv e pi) (hs : stA pi.state = true) :
          RStep' ov.isNone (step e pi) (afterRun input (Spec.run (specIdna I) input base ov ss))

  (both in `WhatwgUrl.Proofs.Sim`; everything else of this file lives in `WhatwgUrl.Proofs.Sim.A2`).

  How it is obtained.
  * This file does not import `SimBase.lean` / `SimA.lean` (their public helper names clash with `SimHost.lean`,
    `SimObs.lean`, `SimParse.lean`, `SimSetters.lean`); it imports the namespaced copy `SimBase2.lean`, so it can be
    imported next to all of them (and next to `SimA.lean` / `SimB.lean`).
  * The result lemmas of `SimBase.lean` are restated for `RStep'` (`sim2_failure`, `sim2_ret`, `sim2_eof`, `sim2_cont'`);
    the only new obligation is `RUrl u us` at a failure leaf, and at every failure leaf of these twelve states both urls
    are the loop-top urls (`RPS.url`; `viewUrl` is the identity in these states). The local invariant need not be
    re-established any more (`XInv_step` does that centrally), so `sim2_cont'` has three hypotheses fewer than `sim_cont'`.
    The twelve proofs are the proof texts of `SimA.lean` with the new leaves.
  * The local invariant `Extra2` is `Extra` of `SimBase.lean` with the buffer clause restricted to the states of
    `bufEmptySt` and the authority state (the old clause "the buffer is empty in the file slash state" is true of every
    reachable state but is not part of `XCore`, and the proof of that state never used it).
  * `Extra2` and `BaseOK base` are DERIVED from `RPS pi ss`, `XInv e pi`, `REnv …`, `EnvOk e` (`extra2_of_inv`,
    `baseOK_of_envOk`): no additional Go-side invariant `YInv` is needed for these twelve states.
  * `IdnaLaws I` is not used (none of the twelve states calls the host parser); it is kept in the statement because the
    task fixes the signature. `stepSim'_A_core` is the same theorem without it.
-/
namespace WhatwgUrl.Proofs.Sim.A2
set_option linter.unusedSimpArgs false
set_option linter.unusedVariables false
open WhatwgUrl WhatwgUrl.Impl
open WhatwgUrl.Proofs.Percent

/-! ### 1. the local invariant, as far as the twelve proofs use it -/

/-- the standard's buffer at a loop top, by (Go) state: empty in the states of `bufEmptySt`, bounded by the pointer in
    the authority state (`XCore.buf` / `XCore.auth` transported through `RBuf`) -/
def BufInv2 (st : State) (ss : Spec.PS) : Prop :=
  match st with
  | .authority => (ss.buffer.length : Int) ≤ ss.pointer
  | .schemeStart | .noScheme | .specialRelativeOrAuthority | .specialAuthoritySlashes | .specialAuthorityIgnoreSlashes
  | .pathOrAuthority | .relative | .relativeSlash | .file | .pathStart => ss.buffer = []
  | _ => True

structure Extra2 (input : Str) (base : Option Spec.SUrl) (ov : Option Spec.St) (pi : PS) (ss : Spec.PS) : Prop where
  lo : 0 ≤ ss.pointer
  hi : ss.pointer ≤ (input.length : Int)
  buf : BufInv2 pi.state ss
  base : needsBase pi.state = true → ∃ b, base = some b ∧ b.hasOpaquePath = false
  nopq : NoOpq ov pi.state ss

/-! ### 2. `bottom` against `afterRun`, for the corrected result relation -/

section
variable {input : Str} {noOv : Bool}

/-- both return failure, and the urls (as modified so far) correspond -/
theorem sim2_failure (u : Url) (t : VErr) (w : Bool) (us : Spec.SUrl) (h : RUrl u us) :
    RStep' noOv (bottom (.done ⟨u, .err t w⟩)) (afterRun input (.failure us)) :=
  ⟨fun _ => rfl, h⟩

/-- both return the url -/
theorem sim2_ret (u : Url) (us : Spec.SUrl) (h : RUrl u us) :
    RStep' noOv (bottom (.done ⟨u, .url⟩)) (afterRun input (.ret us)) :=
  ⟨rfl, h⟩

/-- a branch that does not rewind, at EOF -/
theorem sim2_eof (Q : PS) (S : Spec.PS) (he : Q.eof = true) (hp : (input.length : Int) ≤ S.pointer)
    (hu : RUrl Q.url S.url) : RStep' noOv (bottom (.cont Q)) (afterRun input (.cont S)) := by
  unfold bottom afterRun
  simp only [he, if_true]
  rw [if_pos hp]
  exact ⟨rfl, hu⟩

/-- a branch that goes on -/
theorem sim2_cont (Q : PS) (S : Spec.PS) (he : Q.eof = false) (hp : S.pointer < (input.length : Int))
    (h : RPS Q { S with pointer := S.pointer + 1 }) :
    RStep' noOv (bottom (.cont Q)) (afterRun input (.cont S)) := by
  unfold bottom afterRun
  simp only [he, Bool.false_eq_true, if_false]
  rw [if_neg (by omega)]
  exact h

/-- `sim2_cont` with the fields spelled out -/
theorem sim2_cont' (Q : PS) (S : Spec.PS) (he : Q.eof = false)
    (hptr : S.pointer = Q.pointer) (hlo : -1 ≤ S.pointer) (hhi : S.pointer < (input.length : Int))
    (hst : S.state = stateMap Q.state) (hat : S.atSignSeen = Q.atFlag) (hbr : S.insideBrackets = Q.bracketFlag)
    (hpw : S.passwordTokenSeen = Q.pwSeen)
    (hbuf : RBuf Q.state (Spec.isSpecialScheme S.url.scheme) Q.buffer { S with pointer := S.pointer + 1 })
    (hurl : RUrl (viewUrl Q) S.url)
    (hfrag : Q.state = .fragment → Q.url.fragment ≠ none)
    (hopq : Q.state = .opaquePath → Q.url.path = ⟨[Q.buffer], true⟩)
    (hqry : Q.state = .query → Q.url.query ≠ none) :
    RStep' noOv (bottom (.cont Q)) (afterRun input (.cont S)) := by
  refine sim2_cont Q S he hhi ⟨hst, ?_, he, hat, hbr, hpw, hbuf, hurl, hfrag, hopq, hqry⟩
  dsimp only; omega

end

/-! ### 3. tactics -/

/-- close one hypothesis of `sim2_cont'` -/
macro "simA2_leaf1" : tactic => `(tactic|
  first
  | rfl
  | assumption
  | omega
  | (simp_all [stateMap, RBuf, viewUrl, BufInv2, NoOpq, needsBase, rurl_iff, utf8_append, utf8_singleton, utf8_nil,
      Path.setOpaque, Path.init, RPath, RPort, Spec.utf8PercentEncode, lit_file]; done)
  | (simp_all [stateMap, RBuf, viewUrl, BufInv2, NoOpq, needsBase, rurl_iff, utf8_append, utf8_singleton, utf8_nil,
      Path.setOpaque, Path.init, RPath, RPort, Spec.utf8PercentEncode, lit_file]; omega))

/-- close a continuing leaf -/
macro "simA2_leaf" : tactic => `(tactic|
  (apply sim2_cont' <;> (try dsimp only [rewindLast, resetInput, rewind, writeRune]) <;> simA2_leaf1))

set_option hygiene false in
/-- `prologue` of `SimBase.lean` for `Extra2` -/
macro "simA2_prologue" S:term : tactic => `(tactic|
  (obtain ⟨st, ptr, eof, buf, gat, gbr, gpw, url⟩ := pi
   obtain ⟨sst, sptr, sbuf, atF, brF, pwS, surl⟩ := ss
   obtain ⟨hst, hptr, heof, hat, hbr, hpw, hbuf, hurl, hfrag, hopq, hqry⟩ := h
   obtain ⟨hlo, hhi, hbi, hbase, hno⟩ := hx
   dsimp only at hs hst hptr heof hat hbr hpw hbuf hurl hfrag hopq hqry hlo hhi hbi hbase hno
   subst hs
   simp only [stateMap, RBuf, viewUrl, BufInv2, NoOpq, needsBase] at hst hbuf hurl hbi hno hbase
   subst hst heof hat hbr hpw hptr
   have hcfg := hE.cfg
   have hov := hE.ov
   have hru := hE.runes
   subst hov
   unfold step
   rw [hru]
   rcases next_cases input ⟨$S, ptr, false, buf, atF, brF, pwS, url⟩ (ptr + 1) rfl hlo with ⟨c, hc, hlt, hn⟩ | ⟨hc, hge, hn⟩ <;>
   (rw [hn]; dsimp only [body]; unfold Spec.run; simp only [hc])))

/-! ### 4. the twelve states (proof text of `SimA.lean`, with the new leaves) -/

theorem step_sim2_schemeStart (I : Idna) (e : Env) (input : Str)
    (base : Option Spec.SUrl) (ov : Option Spec.St)
    (hE : REnv e input base ov I) (pi : PS) (ss : Spec.PS) (h : RPS pi ss) (hx : Extra2 input base ov pi ss)
    (hs : pi.state = .schemeStart) :
    RStep' ov.isNone (step e pi) (afterRun input (Spec.run (specIdna I) input base ov ss)) := by
  simA2_prologue .schemeStart
  · simp only [stSchemeStart, Option.isNone_map]
    by_cases h1 : isAlphaN c.toNat = true
    · simp only [h1, if_true]
      simA2_leaf
    · simp only [h1, Bool.false_eq_true, if_false]
      by_cases h2 : e.ov.isNone = true
      · simp only [h2, if_true]
        simA2_leaf
      · simp only [h2, Bool.false_eq_true, if_false, herr_fatal e hcfg]
        exact sim2_failure _ _ _ _ hurl
  · simp only [stSchemeStart, Option.isNone_map, repl_not_alpha, Bool.false_eq_true, if_false]
    by_cases h2 : e.ov.isNone = true
    · simp only [h2, if_true]
      simA2_leaf
    · simp only [h2, Bool.false_eq_true, if_false, herr_fatal e hcfg]
      exact sim2_failure _ _ _ _ hurl

theorem step_sim2_pathOrAuthority (I : Idna) (e : Env) (input : Str)
    (base : Option Spec.SUrl) (ov : Option Spec.St)
    (hE : REnv e input base ov I) (pi : PS) (ss : Spec.PS) (h : RPS pi ss) (hx : Extra2 input base ov pi ss)
    (hs : pi.state = .pathOrAuthority) :
    RStep' ov.isNone (step e pi) (afterRun input (Spec.run (specIdna I) input base ov ss)) := by
  simA2_prologue .pathOrAuthority
  · simp only [stPathOrAuthority, isC_some]
    by_cases h1 : c = '/'
    · simp only [h1, beq_self_eq_true, if_true]
      simA2_leaf
    · simp only [beq_eq_false_iff_ne.mpr h1, Bool.false_eq_true, if_false]
      simA2_leaf
  · simp only [stPathOrAuthority, isC_none, repl_beq_slash, Bool.false_eq_true, if_false]
    simA2_leaf

theorem step_sim2_specialAuthorityIgnoreSlashes (I : Idna) (e : Env) (input : Str)
    (base : Option Spec.SUrl) (ov : Option Spec.St)
    (hE : REnv e input base ov I) (pi : PS) (ss : Spec.PS) (h : RPS pi ss) (hx : Extra2 input base ov pi ss)
    (hs : pi.state = .specialAuthorityIgnoreSlashes) :
    RStep' ov.isNone (step e pi) (afterRun input (Spec.run (specIdna I) input base ov ss)) := by
  simA2_prologue .specialAuthorityIgnoreSlashes
  · simp only [stSpecialAuthorityIgnoreSlashes, isC_some, herr_nonfatal e hcfg, bne]
    by_cases h1 : (!(c == '/') && !(c == '\\')) = true
    · simp only [h1, if_true]
      simA2_leaf
    · simp only [h1, Bool.false_eq_true, if_false]
      simA2_leaf
  · simp only [stSpecialAuthorityIgnoreSlashes, isC_none, repl_bne_slash, repl_bne_bslash, Bool.and_self, if_true,
      Bool.not_false]
    simA2_leaf

theorem step_sim2_specialAuthoritySlashes (I : Idna) (e : Env) (input : Str)
    (base : Option Spec.SUrl) (ov : Option Spec.St)
    (hE : REnv e input base ov I) (pi : PS) (ss : Spec.PS) (h : RPS pi ss) (hx : Extra2 input base ov pi ss)
    (hs : pi.state = .specialAuthoritySlashes) :
    RStep' ov.isNone (step e pi) (afterRun input (Spec.run (specIdna I) input base ov ss)) := by
  simA2_prologue .specialAuthoritySlashes
  · simp only [stSpecialAuthoritySlashes, isC_some, herr_nonfatal e hcfg, hru]
    rw [remainingStartsWith_slash _ _ rfl]
    dsimp only
    by_cases h1 : (c == '/' && (Spec.remaining input (ptr + 1)).head? == some '/') = true
    · simp only [h1, if_true]
      have h2 : ((Spec.remaining input (ptr + 1)).head? == some '/') = true := by
        simp only [Bool.and_eq_true] at h1; exact h1.2
      obtain ⟨hn2, hlt2⟩ := next_of_remaining input
        ⟨.specialAuthoritySlashes, ptr + 1, false, buf, atF, brF, pwS, url⟩ '/' (by dsimp only; omega) h2
      rw [hn2]
      dsimp only at hlt2
      simA2_leaf
    · simp only [h1, Bool.false_eq_true, if_false]
      simA2_leaf
  · simp only [stSpecialAuthoritySlashes, isC_none, repl_beq_slash, Bool.false_and, Bool.false_eq_true, if_false,
      herr_nonfatal e hcfg]
    simA2_leaf

theorem step_sim2_specialRelativeOrAuthority (I : Idna) (e : Env) (input : Str)
    (base : Option Spec.SUrl) (ov : Option Spec.St)
    (hE : REnv e input base ov I) (pi : PS) (ss : Spec.PS) (h : RPS pi ss) (hx : Extra2 input base ov pi ss)
    (hs : pi.state = .specialRelativeOrAuthority) :
    RStep' ov.isNone (step e pi) (afterRun input (Spec.run (specIdna I) input base ov ss)) := by
  simA2_prologue .specialRelativeOrAuthority
  · simp only [stSpecialRelativeOrAuthority, isC_some, herr_nonfatal e hcfg, hru]
    rw [remainingStartsWith_slash _ _ rfl]
    dsimp only
    by_cases h1 : (c == '/' && (Spec.remaining input (ptr + 1)).head? == some '/') = true
    · simp only [h1, if_true]
      have h2 : ((Spec.remaining input (ptr + 1)).head? == some '/') = true := by
        simp only [Bool.and_eq_true] at h1; exact h1.2
      obtain ⟨hn2, hlt2⟩ := next_of_remaining input
        ⟨.specialRelativeOrAuthority, ptr + 1, false, buf, atF, brF, pwS, url⟩ '/' (by dsimp only; omega) h2
      rw [hn2]
      dsimp only at hlt2
      simA2_leaf
    · simp only [h1, Bool.false_eq_true, if_false]
      simA2_leaf
  · simp only [stSpecialRelativeOrAuthority, isC_none, repl_beq_slash, Bool.false_and, Bool.false_eq_true, if_false,
      herr_nonfatal e hcfg]
    simA2_leaf

theorem step_sim2_noScheme (I : Idna) (e : Env) (input : Str)
    (base : Option Spec.SUrl) (ov : Option Spec.St)
    (hE : REnv e input base ov I) (pi : PS) (ss : Spec.PS) (h : RPS pi ss) (hx : Extra2 input base ov pi ss)
    (hs : pi.state = .noScheme) :
    RStep' ov.isNone (step e pi) (afterRun input (Spec.run (specIdna I) input base ov ss)) := by
  simA2_prologue .noScheme
  · rcases REnv_base_cases hE with ⟨hb1, hb2⟩ | ⟨bi, bs, hb1, hb2, hb⟩
    · subst hb2
      simp only [stNoScheme, hb1, herr_fatal e hcfg]
      exact sim2_failure _ _ _ _ hurl
    · subst hb2
      simp only [stNoScheme, hb1, herr_fatal e hcfg, isC_some, RUrl_opq hb, hb.scheme, utf8_bne_lit_file]
      cases hop : bs.hasOpaquePath
      · simp only [Bool.false_and, Bool.false_eq_true, if_false]
        by_cases hf : (bs.scheme != "file".toList) = true
        · simp only [hf, if_true]
          simA2_leaf
        · simp only [hf, Bool.false_eq_true, if_false]
          simA2_leaf
      · simp only [Bool.true_and]
        by_cases h1 : c = '#'
        · subst h1
          simp only [bne_self_eq_false, beq_self_eq_true, Bool.not_true, Bool.false_eq_true, if_false, if_true]
          simA2_leaf
        · simp only [bne_iff_ne, ne_eq, h1, not_false_eq_true, if_true, beq_eq_false_iff_ne.mpr h1, Bool.not_false]
          exact sim2_failure _ _ _ _ hurl
  · rcases REnv_base_cases hE with ⟨hb1, hb2⟩ | ⟨bi, bs, hb1, hb2, hb⟩
    · subst hb2
      simp only [stNoScheme, hb1, herr_fatal e hcfg]
      exact sim2_failure _ _ _ _ hurl
    · subst hb2
      simp only [stNoScheme, hb1, herr_fatal e hcfg, isC_none, RUrl_opq hb, hb.scheme, utf8_bne_lit_file, repl_bne_hash,
        repl_beq_hash]
      cases hop : bs.hasOpaquePath
      · simp only [Bool.false_and, Bool.false_eq_true, if_false]
        by_cases hf : (bs.scheme != "file".toList) = true
        · simp only [hf, if_true]
          simA2_leaf
        · simp only [hf, Bool.false_eq_true, if_false]
          simA2_leaf
      · simp only [Bool.true_and, Bool.not_false, Bool.and_self, if_true]
        exact sim2_failure _ _ _ _ hurl

theorem step_sim2_relative (I : Idna) (e : Env) (input : Str)
    (base : Option Spec.SUrl) (ov : Option Spec.St)
    (hE : REnv e input base ov I) (pi : PS) (ss : Spec.PS) (h : RPS pi ss) (hx : Extra2 input base ov pi ss)
    (hs : pi.state = .relative) :
    RStep' ov.isNone (step e pi) (afterRun input (Spec.run (specIdna I) input base ov ss)) := by
  simA2_prologue .relative
  · obtain ⟨b0, hb0, hnb⟩ := hbase trivial
    rcases REnv_base_cases hE with ⟨hb1, hb2⟩ | ⟨bi, bs, hb1, hb2, hb⟩
    · rw [hb2] at hb0; cases hb0
    · subst hb2; injection hb0 with hb0; subst hb0
      simp only [stRelative, hb1, herr_nonfatal e hcfg, isC_some, spBackslash, isSp, hcfg, hb.scheme, isSpecial_utf8,
        Spec.SUrl.isSpecial]
      by_cases h1 : c = '/'
      · subst h1
        simp only [beq_self_eq_true, if_true]
        simA2_leaf
      · simp only [beq_eq_false_iff_ne.mpr h1, Bool.false_eq_true, if_false]
        by_cases h2 : (Spec.isSpecialScheme bs.scheme && c == '\\') = true
        · simp only [h2, if_true]
          simA2_leaf
        · simp only [h2, Bool.false_eq_true, if_false]
          by_cases h3 : c = '?'
          · subst h3
            simp only [beq_self_eq_true, if_true]
            simA2_leaf
          · simp only [beq_eq_false_iff_ne.mpr h3, Bool.false_eq_true, if_false]
            by_cases h4 : c = '#'
            · subst h4
              simp only [beq_self_eq_true, if_true]
              simA2_leaf
            · simp only [beq_eq_false_iff_ne.mpr h4, Bool.false_eq_true, if_false, Bool.not_false, if_true,
                Option.isSome_some]
              have hU : RUrl { url with scheme := utf8 bs.scheme, username := bi.username, password := bi.password, host := bi.host, port := bi.port, decodedPort := bi.decodedPort, path := bi.path, query := none }
                  { surl with scheme := bs.scheme, username := bs.username, password := bs.password, host := bs.host, port := bs.port, path := bs.path, query := none } := by
                simp_all [rurl_iff]
              have hS := shorten_sim hU hnb
              have hN := shorten_nopq { surl with scheme := bs.scheme, username := bs.username, password := bs.password, host := bs.host, port := bs.port, path := bs.path, query := none } hnb
              simA2_leaf
  · obtain ⟨b0, hb0, hnb⟩ := hbase trivial
    rcases REnv_base_cases hE with ⟨hb1, hb2⟩ | ⟨bi, bs, hb1, hb2, hb⟩
    · rw [hb2] at hb0; cases hb0
    · subst hb2; injection hb0 with hb0; subst hb0
      simp only [stRelative, hb1, herr_nonfatal e hcfg, isC_none, spBackslash, isSp, hcfg, hb.scheme, isSpecial_utf8,
        Spec.SUrl.isSpecial, repl_beq_slash, repl_beq_bslash, repl_beq_qm, repl_beq_hash, Bool.and_false,
        Bool.false_eq_true, if_false, Bool.not_true, Option.isSome_none]
      apply sim2_eof
      · rfl
      · exact hge
      · simp_all [rurl_iff]

theorem step_sim2_relativeSlash (I : Idna) (e : Env) (input : Str)
    (base : Option Spec.SUrl) (ov : Option Spec.St)
    (hE : REnv e input base ov I) (pi : PS) (ss : Spec.PS) (h : RPS pi ss) (hx : Extra2 input base ov pi ss)
    (hs : pi.state = .relativeSlash) :
    RStep' ov.isNone (step e pi) (afterRun input (Spec.run (specIdna I) input base ov ss)) := by
  simA2_prologue .relativeSlash
  · obtain ⟨b0, hb0, hnb⟩ := hbase trivial
    rcases REnv_base_cases hE with ⟨hb1, hb2⟩ | ⟨bi, bs, hb1, hb2, hb⟩
    · rw [hb2] at hb0; cases hb0
    · subst hb2; injection hb0 with hb0; subst hb0
      simp only [stRelativeSlash, hb1, herr_nonfatal e hcfg, isC_some, isSp, hcfg, RUrl_isSp hurl, ite_self]
      by_cases h1 : (surl.isSpecial && (c == '/' || c == '\\')) = true
      · simp only [h1, if_true]
        simA2_leaf
      · simp only [h1, Bool.false_eq_true, if_false]
        by_cases h2 : c = '/'
        · subst h2
          simp only [beq_self_eq_true, if_true]
          simA2_leaf
        · simp only [beq_eq_false_iff_ne.mpr h2, Bool.false_eq_true, if_false]
          simA2_leaf
  · obtain ⟨b0, hb0, hnb⟩ := hbase trivial
    rcases REnv_base_cases hE with ⟨hb1, hb2⟩ | ⟨bi, bs, hb1, hb2, hb⟩
    · rw [hb2] at hb0; cases hb0
    · subst hb2; injection hb0 with hb0; subst hb0
      simp only [stRelativeSlash, hb1, herr_nonfatal e hcfg, isC_none, isSp, hcfg, RUrl_isSp hurl, ite_self,
        repl_beq_slash, repl_beq_bslash, Bool.or_self, Bool.and_false, Bool.false_eq_true, if_false]
      simA2_leaf

theorem step_sim2_authority (I : Idna) (e : Env) (input : Str)
    (base : Option Spec.SUrl) (ov : Option Spec.St)
    (hE : REnv e input base ov I) (pi : PS) (ss : Spec.PS) (h : RPS pi ss) (hx : Extra2 input base ov pi ss)
    (hs : pi.state = .authority) :
    RStep' ov.isNone (step e pi) (afterRun input (Spec.run (specIdna I) input base ov ss)) := by
  simA2_prologue .authority
  · subst hbuf
    simp only [stAuthority, herr_nonfatal e hcfg, herr_fatal e hcfg, isC_some, spBackslash, isSp, hcfg, RUrl_isSp hurl,
      hurl.username, hurl.password, credLoop_buf_sim, utf8_isEmpty, WhatwgUrl.Proofs.Utf8.goRunes_utf8,
      Option.isNone_some, Bool.false_or, Option.getD_some]
    by_cases h1 : c = '@'
    · subst h1
      simp only [beq_self_eq_true, if_true]
      simA2_leaf
    · simp only [beq_eq_false_iff_ne.mpr h1, Bool.false_eq_true, if_false]
      by_cases h2 : (c == '/' || c == '?' || c == '#' || surl.isSpecial && c == '\\') = true
      · simp only [h2, if_true]
        by_cases h3 : (atF && sbuf.isEmpty) = true
        · simp only [h3, if_true]
          exact sim2_failure _ _ _ _ hurl
        · simp only [h3, Bool.false_eq_true, if_false]
          simA2_leaf
      · simp only [h2, Bool.false_eq_true, if_false]
        simA2_leaf
  · subst hbuf
    simp only [stAuthority, herr_nonfatal e hcfg, herr_fatal e hcfg, isC_none, spBackslash, isSp, hcfg, RUrl_isSp hurl,
      utf8_isEmpty, WhatwgUrl.Proofs.Utf8.goRunes_utf8, repl_beq_at, Bool.false_eq_true, if_false,
      Option.isNone_none, Bool.true_or, if_true]
    by_cases h3 : (atF && sbuf.isEmpty) = true
    · simp only [h3, if_true]
      exact sim2_failure _ _ _ _ hurl
    · simp only [h3, Bool.false_eq_true, if_false]
      simA2_leaf

theorem step_sim2_file (I : Idna) (e : Env) (input : Str)
    (base : Option Spec.SUrl) (ov : Option Spec.St) (hB : BaseOK base)
    (hE : REnv e input base ov I) (pi : PS) (ss : Spec.PS) (h : RPS pi ss) (hx : Extra2 input base ov pi ss)
    (hs : pi.state = .file) :
    RStep' ov.isNone (step e pi) (afterRun input (Spec.run (specIdna I) input base ov ss)) := by
  simA2_prologue .file
  · simp only [stFile, herr_nonfatal e hcfg, isC_some, ite_self]
    by_cases h1 : (c == '/' || c == '\\') = true
    · simp only [h1, if_true]
      simA2_leaf
    · simp only [h1, Bool.false_eq_true, if_false]
      rcases REnv_base_cases hE with ⟨hb1, hb2⟩ | ⟨bi, bs, hb1, hb2, hb⟩
      · subst hb2
        simp only [hb1]
        simA2_leaf
      · subst hb2
        simp only [hb1, hb.scheme, utf8_beq_lit_file]
        by_cases hf : (bs.scheme == "file".toList) = true
        · have hnb : bs.hasOpaquePath = false :=
            hB bs rfl (by rw [beq_iff_eq.mp hf]; exact isSpecialScheme_file)
          simp only [hf, if_true]
          by_cases h3 : c = '?'
          · subst h3
            simp only [beq_self_eq_true, if_true]
            simA2_leaf
          · simp only [beq_eq_false_iff_ne.mpr h3, Bool.false_eq_true, if_false]
            by_cases h4 : c = '#'
            · subst h4
              simp only [beq_self_eq_true, if_true]
              simA2_leaf
            · simp only [beq_eq_false_iff_ne.mpr h4, Bool.false_eq_true, if_false, Bool.not_false, if_true,
                Option.isSome_some, hru]
              rw [remainingFromPointer_noeof _ _ rfl, startsWithWDL_utf8]
              dsimp only
              have hU : RUrl { url with scheme := lit "file", host := bi.host, path := bi.path, query := none }
                  { surl with scheme := "file".toList, host := bs.host, path := bs.path, query := none } := by
                simp_all [rurl_iff, lit_file]
              have hS := shorten_sim hU hnb
              have hN := shorten_nopq { surl with scheme := "file".toList, host := bs.host, path := bs.path, query := none } hnb
              cases hw : Spec.startsWithWindowsDriveLetter (List.drop (ptr + 1).toNat input)
              · simp only [Bool.not_false, if_true]
                simA2_leaf
              · simp only [Bool.not_true, Bool.false_eq_true, if_false]
                simA2_leaf
        · simp only [hf, Bool.false_eq_true, if_false]
          simA2_leaf
  · simp only [stFile, herr_nonfatal e hcfg, isC_none, ite_self, repl_beq_slash, repl_beq_bslash, Bool.or_self,
      Bool.false_eq_true, if_false]
    rcases REnv_base_cases hE with ⟨hb1, hb2⟩ | ⟨bi, bs, hb1, hb2, hb⟩
    · subst hb2
      simp only [hb1]
      simA2_leaf
    · subst hb2
      simp only [hb1, hb.scheme, utf8_beq_lit_file]
      by_cases hf : (bs.scheme == "file".toList) = true
      · simp only [hf, if_true, repl_beq_qm, repl_beq_hash, Bool.false_eq_true, if_false, Bool.not_true,
          Option.isSome_none]
        apply sim2_eof
        · rfl
        · exact hge
        · simp_all [rurl_iff, lit_file]
      · simp only [hf, Bool.false_eq_true, if_false]
        simA2_leaf

theorem step_sim2_fileSlash (I : Idna) (e : Env) (input : Str)
    (base : Option Spec.SUrl) (ov : Option Spec.St) (hB : BaseOK base)
    (hE : REnv e input base ov I) (pi : PS) (ss : Spec.PS) (h : RPS pi ss) (hx : Extra2 input base ov pi ss)
    (hs : pi.state = .fileSlash) :
    RStep' ov.isNone (step e pi) (afterRun input (Spec.run (specIdna I) input base ov ss)) := by
  simA2_prologue .fileSlash
  · simp only [stFileSlash, herr_nonfatal e hcfg, isC_some, ite_self]
    by_cases h1 : (c == '/' || c == '\\') = true
    · simp only [h1, if_true]
      simA2_leaf
    · simp only [h1, Bool.false_eq_true, if_false]
      rcases REnv_base_cases hE with ⟨hb1, hb2⟩ | ⟨bi, bs, hb1, hb2, hb⟩
      · subst hb2
        simp only [hb1]
        simA2_leaf
      · subst hb2
        simp only [hb1, hb.scheme, utf8_beq_lit_file]
        by_cases hf : (bs.scheme == "file".toList) = true
        · have hnb : bs.hasOpaquePath = false :=
            hB bs rfl (by rw [beq_iff_eq.mp hf]; exact isSpecialScheme_file)
          obtain ⟨l, hl1, hl2⟩ := RUrl_list hb hnb
          obtain ⟨l', hl1', hl2'⟩ := RUrl_list hurl hno
          simp only [hf, if_true, hru]
          rw [remainingFromPointer_noeof _ _ rfl, startsWithWDL_utf8]
          simp only [hl2, Spec.pathList, hl1, List.isEmpty_map, headD_map_utf8, isNDL_utf8]
          cases hw : Spec.startsWithWindowsDriveLetter (List.drop (ptr + 1).toNat input)
          · cases l with
            | nil =>
              simp only [List.isEmpty_nil, Bool.not_true, Bool.and_false, Bool.false_and, Bool.false_eq_true, if_false,
                List.head?_nil]
              simA2_leaf
            | cons a t =>
              simp only [List.isEmpty_cons, Bool.not_false, Bool.true_and, List.head?_cons, List.headD_cons]
              cases hd : Spec.isNormalizedWindowsDriveLetter a
              · simp only [Bool.false_eq_true, if_false]
                simA2_leaf
              · simp only [if_true, Spec.pathAppend, hl1', Path.addSegment, hl2']
                simA2_leaf
          · simp only [Bool.not_true, Bool.false_and, Bool.false_eq_true, if_false]
            simA2_leaf
        · simp only [hf, Bool.false_eq_true, if_false]
          simA2_leaf
  · simp only [stFileSlash, herr_nonfatal e hcfg, isC_none, ite_self, repl_beq_slash, repl_beq_bslash, Bool.or_self,
      Bool.false_eq_true, if_false]
    rcases REnv_base_cases hE with ⟨hb1, hb2⟩ | ⟨bi, bs, hb1, hb2, hb⟩
    · subst hb2
      simp only [hb1]
      simA2_leaf
    · subst hb2
      simp only [hb1, hb.scheme, utf8_beq_lit_file]
      by_cases hf : (bs.scheme == "file".toList) = true
      · have hnb : bs.hasOpaquePath = false :=
          hB bs rfl (by rw [beq_iff_eq.mp hf]; exact isSpecialScheme_file)
        obtain ⟨l, hl1, hl2⟩ := RUrl_list hb hnb
        obtain ⟨l', hl1', hl2'⟩ := RUrl_list hurl hno
        have hw0 : Spec.startsWithWindowsDriveLetter [] = false := rfl
        simp only [hf, if_true, hru]
        rw [remainingFromPointer_eof _ _ rfl, startsWithWDL_utf8, drop_of_ge input (ptr + 1) hge, hw0]
        simp only [hl2, Spec.pathList, hl1, List.isEmpty_map, headD_map_utf8, isNDL_utf8]
        cases l with
        | nil =>
          simp only [List.isEmpty_nil, Bool.not_true, Bool.and_false, Bool.false_and, Bool.false_eq_true, if_false,
            List.head?_nil]
          simA2_leaf
        | cons a t =>
          simp only [List.isEmpty_cons, Bool.not_false, Bool.true_and, List.head?_cons, List.headD_cons]
          cases hd : Spec.isNormalizedWindowsDriveLetter a
          · simp only [Bool.false_eq_true, if_false]
            simA2_leaf
          · simp only [if_true, Spec.pathAppend, hl1', Path.addSegment, hl2']
            simA2_leaf
      · simp only [hf, Bool.false_eq_true, if_false]
        simA2_leaf

set_option hygiene false in
/-- the tail of the scheme state without override, after the `file` and "same scheme as the base" tests -/
macro "simA2_scheme_rest" : tactic => `(tactic|
  (by_cases h5 : Spec.isSpecialScheme sbuf = true
   · simp only [h5, if_true]
     simA2_leaf
   · simp only [h5, Bool.false_eq_true, if_false]
     rw [remainingStartsWith_slash _ _ rfl]
     dsimp only
     by_cases h6 : ((Spec.remaining input (ptr + 1)).head? == some '/') = true
     · simp only [h6, if_true]
       obtain ⟨hn2, hlt2⟩ := next_of_remaining input
         ⟨.scheme, ptr + 1, false, [], atF, brF, pwS, { url with scheme := utf8 sbuf }⟩ '/' (by dsimp only; omega) h6
       rw [hn2]
       dsimp only at hlt2
       simA2_leaf
     · simp only [h6, Bool.false_eq_true, if_false]
       simA2_leaf))

theorem step_sim2_scheme (I : Idna) (e : Env) (input : Str)
    (base : Option Spec.SUrl) (ov : Option Spec.St) (hB : BaseOK base)
    (hE : REnv e input base ov I) (pi : PS) (ss : Spec.PS) (h : RPS pi ss) (hx : Extra2 input base ov pi ss)
    (hs : pi.state = .scheme) :
    RStep' ov.isNone (step e pi) (afterRun input (Spec.run (specIdna I) input base ov ss)) := by
  simA2_prologue .scheme
  · subst hbuf
    simp only [stScheme, herr_nonfatal e hcfg, herr_fatal e hcfg, retUrl, hcfg, hru, Option.isSome_map,
      Option.isNone_map, ite_self]
    by_cases ha : (isAlnumN c.toNat || c == '+' || c == '-' || c == '.') = true
    · simp only [ha, if_true]
      simA2_leaf
    · simp only [ha, Bool.false_eq_true, if_false]
      by_cases h2 : c = ':'
      · subst h2
        simp only [beq_self_eq_true, if_true]
        cases hov : e.ov with
        | none =>
          have hno' : surl.hasOpaquePath = false := hno (by rw [hov]; rfl)
          simp only [Option.isSome_none, Bool.false_and, Bool.false_eq_true, if_false, isSp, hcfg, isSpecial_utf8,
            utf8_beq_lit_file, Spec.SUrl.isSpecial]
          by_cases hf : (sbuf == "file".toList) = true
          · simp only [hf, if_true]
            simA2_leaf
          · simp only [hf, Bool.false_eq_true, if_false]
            rcases REnv_base_cases hE with ⟨hb1, hb2⟩ | ⟨bi, bs, hb1, hb2, hb⟩
            · subst hb2
              simp only [hb1, Bool.and_false, Bool.false_eq_true, if_false]
              simA2_scheme_rest
            · subst hb2
              simp only [hb1, hb.scheme, utf8_beq]
              by_cases h4 : (Spec.isSpecialScheme sbuf && bs.scheme == sbuf) = true
              · simp only [h4, if_true]
                have hnb : bs.hasOpaquePath = false := by
                  simp only [Bool.and_eq_true, beq_iff_eq] at h4
                  exact hB bs rfl (by rw [h4.2]; exact h4.1)
                simA2_leaf
              · simp only [h4, Bool.false_eq_true, if_false]
                simA2_scheme_rest
        | some o =>
          have hh : (url.host == some []) = (surl.host == some []) := by
            rw [hurl.host, optmap_utf8_beq_some_nil]
          have hsc : (url.scheme == lit "file") = (surl.scheme == "file".toList) := by
            rw [hurl.scheme, utf8_beq_lit_file]
          have hm4 : ∀ A B X : Bool, (A && !B || (!A && B || X)) = ((A != B) || X) := by
            intro A B X; cases A <;> cases B <;> rfl
          simp only [Option.isSome_some, Bool.true_and, ite_or_merge, RUrl_isSp hurl, isSpecial_utf8, hm4,
            RUrl_creds hurl, RPort_isSome hurl.port, utf8_beq_lit_file, hh, hsc, Spec.SUrl.isSpecial]
          by_cases h4 : ((Spec.isSpecialScheme surl.scheme != Spec.isSpecialScheme sbuf) ||
              ((surl.includesCredentials || surl.port.isSome) && sbuf == "file".toList ||
                surl.scheme == "file".toList && surl.host == some [])) = true
          · simp only [h4, if_true]
            exact sim2_ret _ _ hurl
          · simp only [h4, Bool.false_eq_true, if_false]
            have hU : RUrl { url with scheme := utf8 sbuf } { surl with scheme := sbuf } := by
              simp_all [rurl_iff]
            exact sim2_ret _ _ (cleanDefaultPort_sim hU)
      · simp only [beq_eq_false_iff_ne.mpr h2, Bool.false_eq_true, if_false]
        by_cases h3 : e.ov.isNone = true
        · simp only [h3, if_true]
          simA2_leaf
        · simp only [h3, Bool.false_eq_true, if_false]
          exact sim2_failure _ _ _ _ hurl
  · subst hbuf
    simp only [stScheme, herr_nonfatal e hcfg, herr_fatal e hcfg, retUrl, hcfg, hru, Option.isSome_map,
      Option.isNone_map, repl_not_alnum, repl_beq_plus, repl_beq_minus, repl_beq_dot, repl_beq_colon, Bool.or_self,
      Bool.false_eq_true, if_false]
    by_cases h3 : e.ov.isNone = true
    · simp only [h3, if_true]
      simA2_leaf
    · simp only [h3, Bool.false_eq_true, if_false]
      exact sim2_failure _ _ _ _ hurl


/-! ### 5. the local invariant is derived from `RPS`, `XInv`, `REnv`, `EnvOk` -/

/-- the twelve states of this file -/
def _root_.WhatwgUrl.Proofs.Sim.stA : State → Bool
  | .schemeStart | .scheme | .noScheme | .specialRelativeOrAuthority | .pathOrAuthority | .relative | .relativeSlash
  | .specialAuthoritySlashes | .specialAuthorityIgnoreSlashes | .authority | .file | .fileSlash => true
  | _ => false

/-- `BaseOK base` of the old lemmas from `EnvOk e` and `REnv.base` (`RUrl` transports "special ⇒ list path") -/
theorem baseOK_of_envOk {e : Env} {input : Str} {base : Option Spec.SUrl} {ov : Option Spec.St} {I : Idna}
    (hE : REnv e input base ov I) (hOk : EnvOk e) : BaseOK base := by
  intro b hb hsp
  rcases REnv_base_cases hE with ⟨_, hb2⟩ | ⟨bi, bs, hb1, hb2, hr⟩
  · rw [hb2] at hb; cases hb
  · rw [hb2] at hb; injection hb with hb; subst hb
    have h1 := hOk bi hb1
    unfold BaseOk at h1
    rw [hE.cfg, RUrl_isSp hr, RUrl_opq hr] at h1
    exact h1 hsp

/-- `Extra2` from the relation, the central Go-side invariant and the environment -/
theorem extra2_of_inv {e : Env} {input : Str} {base : Option Spec.SUrl} {ov : Option Spec.St} {I : Idna}
    (hE : REnv e input base ov I) {pi : PS} {ss : Spec.PS} (h : RPS pi ss) (hx : XInv e pi)
    (hs : stA pi.state = true) : Extra2 input base ov pi ss := by
  have hptr := h.pointer
  have hlt := hx.lt
  have hp0 := hx.core.ptr
  rw [hE.runes] at hlt
  refine ⟨by omega, by omega, ?_, ?_, ?_⟩
  · -- buffer clauses: `XCore.buf` / `XCore.auth` through `RBuf`
    have hb := h.buf
    have hc := hx.core.buf
    have ha := hx.core.auth
    obtain ⟨st, ptr, eof, buf, gat, gbr, gpw, url⟩ := pi
    dsimp only at hs hb hc ha hptr ⊢
    cases st <;> simp only [stA, Bool.false_eq_true] at hs <;>
      simp only [BufInv2, RBuf, bufEmptySt, forall_const, reduceCtorEq, false_implies] at hb hc ha ⊢
    all_goals first
      | (rw [hc] at hb; exact utf8_eq_nil.mp hb.symm)
      | (rw [hb, WhatwgUrl.Proofs.Utf8.goRunes_utf8] at ha; omega)
  · -- the relative states have a base with a list path
    intro hn
    have hrel : relSt pi.state = true := by
      revert hn; cases pi.state <;> simp [needsBase, relSt]
    obtain ⟨b, hb, hbo⟩ := hx.core.rel hrel
    rcases REnv_base_cases hE with ⟨hb1, _⟩ | ⟨bi, bs, hb1, hb2, hr⟩
    · rw [hb1] at hb; cases hb
    · rw [hb1] at hb; injection hb with hb; subst hb
      exact ⟨bs, hb2, by rw [← RUrl_opq hr]; exact hbo⟩
  · -- no opaque path
    have hu := h.url
    have ho := hx.core.opq
    have hov := hE.ov
    obtain ⟨st, ptr, eof, buf, gat, gbr, gpw, url⟩ := pi
    dsimp only at hs hu ho ⊢
    have key : (opqSt st = false) → (e.ov.isSome = true → ovOpqSt st = false) → viewUrl ⟨st, ptr, eof, buf, gat, gbr, gpw, url⟩ = url →
        ss.url.hasOpaquePath = false := by
      intro h1 h2 h3
      rw [h3] at hu
      rw [← RUrl_opq hu]
      cases hq : url.path.opq with
      | false => rfl
      | true =>
        rcases ho hq with h4 | ⟨h4, h5⟩
        · rw [h1] at h4; cases h4
        · rw [h2 h4] at h5; cases h5
    cases st <;> simp only [stA, Bool.false_eq_true] at hs <;> simp only [NoOpq]
    all_goals first
      | exact key rfl (fun _ => rfl) rfl
      | (intro hnone
         refine key rfl (fun hsome => ?_) rfl
         rw [hov] at hnone
         cases hq : e.ov with
         | none => rw [hq] at hsome; cases hsome
         | some o => rw [hq] at hnone; cases hnone)

/-! ### 6. the twelve lemmas in the corrected form -/

/-- the corrected one-iteration lemma for the twelve states (without the unused oracle laws) -/
theorem stepSim'_A_core (I : Idna) (ov : Option Spec.St) (e : Env) (input : Str) (base : Option Spec.SUrl)
    (hE : REnv e input base ov I) (hOk : EnvOk e) (pi : PS) (ss : Spec.PS) (h : RPS pi ss) (hx : XInv e pi)
    (hs : stA pi.state = true) :
    RStep' ov.isNone (step e pi) (afterRun input (Spec.run (specIdna I) input base ov ss)) := by
  have hX := extra2_of_inv hE h hx hs
  have hB := baseOK_of_envOk hE hOk
  cases hst : pi.state <;> rw [hst] at hs <;> simp only [stA, Bool.false_eq_true] at hs
  · exact step_sim2_schemeStart I e input base ov hE pi ss h hX hst
  · exact step_sim2_scheme I e input base ov hB hE pi ss h hX hst
  · exact step_sim2_noScheme I e input base ov hE pi ss h hX hst
  · exact step_sim2_specialRelativeOrAuthority I e input base ov hE pi ss h hX hst
  · exact step_sim2_specialAuthoritySlashes I e input base ov hE pi ss h hX hst
  · exact step_sim2_specialAuthorityIgnoreSlashes I e input base ov hE pi ss h hX hst
  · exact step_sim2_pathOrAuthority I e input base ov hE pi ss h hX hst
  · exact step_sim2_authority I e input base ov hE pi ss h hX hst
  · exact step_sim2_file I e input base ov hB hE pi ss h hX hst
  · exact step_sim2_fileSlash I e input base ov hB hE pi ss h hX hst
  · exact step_sim2_relative I e input base ov hE pi ss h hX hst
  · exact step_sim2_relativeSlash I e input base ov hE pi ss h hX hst

end WhatwgUrl.Proofs.Sim.A2

namespace WhatwgUrl.Proofs.Sim
open WhatwgUrl WhatwgUrl.Impl

/-- **the deliverable**: `StepSim' I ov` restricted to the twelve states of `stA`.
    Hypotheses: `IdnaLaws I` (not used: none of the twelve states calls the host parser), `REnv e input base ov I`,
    `EnvOk e`, `RPS pi ss`, `XInv e pi`, `stA pi.state = true`. No additional invariant. -/
theorem stepSim'_A (I : Idna) (hI : IdnaLaws I) (ov : Option Spec.St) (e : Env) (input : Str) (base : Option Spec.SUrl)
    (hE : REnv e input base ov I) (hOk : EnvOk e) (pi : PS) (ss : Spec.PS) (h : RPS pi ss) (hx : XInv e pi)
    (hs : stA pi.state = true) :
    RStep' ov.isNone (step e pi) (afterRun input (Spec.run (specIdna I) input base ov ss)) :=
  A2.stepSim'_A_core I ov e input base hE hOk pi ss h hx hs

/-- `stA` is true exactly on the twelve states -/
theorem stA_iff (s : State) : stA s = true ↔
    s = .schemeStart ∨ s = .scheme ∨ s = .noScheme ∨ s = .specialRelativeOrAuthority ∨ s = .pathOrAuthority ∨
    s = .relative ∨ s = .relativeSlash ∨ s = .specialAuthoritySlashes ∨ s = .specialAuthorityIgnoreSlashes ∨
    s = .authority ∨ s = .file ∨ s = .fileSlash := by
  cases s <;> simp [stA]

/-! ### 7. non-vacuity

  A one-code-point input, the empty url record as base, the machine at its first iteration in state `S` (as `witness_ok`
  of `SimA.lean`), now with `EnvOk` and `XInv` instead of the local invariant. (`IdnaLaws I` is satisfiable: `I0_laws` in
  `SimHost.lean`; it is a parameter here because that file cannot be imported together with what this one needs.) -/
namespace A2

def wEnv (I : Idna) : Env := { cfg := {}, I := I, src := lit "a", runes := ['a'], base := some {}, ov := none }
def wPS (S : State) : PS := ⟨S, -1, false, [], false, false, false, {}⟩
def wSS (S : State) : Spec.PS := { state := stateMap S, url := {} }

theorem wRUrl : RUrl {} {} := ⟨rfl, rfl, rfl, rfl, rfl, ⟨rfl, rfl⟩, rfl, rfl⟩

theorem witness_ok2 (I : Idna) (S : State) (hS : stA S = true) :
    REnv (wEnv I) ['a'] (some {}) none I ∧ EnvOk (wEnv I) ∧ RPS (wPS S) (wSS S) ∧ XInv (wEnv I) (wPS S) ∧
    stA (wPS S).state = true := by
  refine ⟨⟨rfl, rfl, rfl, (by show goRunes (lit "a") = ['a']; decide), wRUrl, rfl⟩, ?_, ?_, ?_, hS⟩
  · intro b hb _
    have : b = {} := by
      have : some ({} : Url) = some b := hb
      injection this with this; exact this.symm
    subst this; rfl
  · refine ⟨rfl, rfl, rfl, rfl, rfl, rfl, ?_, ?_, ?_, ?_, ?_⟩
    · cases S <;> first | rfl | cases hS
    · cases S <;> first | exact wRUrl | cases hS
    · intro h; rw [show (wPS S).state = S from rfl] at h; subst h; cases hS
    · intro h; rw [show (wPS S).state = S from rfl] at h; subst h; cases hS
    · intro h; rw [show (wPS S).state = S from rfl] at h; subst h; cases hS
  · refine ⟨by show (-1 : Int) < ((['a'] : Str).length : Int); decide, ⟨Int.le_refl _, ?_, fun _ => rfl, ?_, ?_⟩⟩
    · intro _; show ((goRunes []).length : Int) ≤ -1 + 1; decide
    · intro _; exact ⟨{}, rfl, rfl⟩
    · intro h; cases h

/-- the theorem applies to the witness in each of the twelve states (every hypothesis is satisfiable) -/
example (I : Idna) (hI : IdnaLaws I) (S : State) (hS : stA S = true) :
    RStep' true (step (wEnv I) (wPS S)) (afterRun ['a'] (Spec.run (specIdna I) ['a'] (some {}) none (wSS S))) :=
  have w := witness_ok2 I S hS
  stepSim'_A I hI none _ _ _ w.1 w.2.1 _ _ w.2.2.1 w.2.2.2.1 w.2.2.2.2

example : stA .schemeStart = true ∧ stA .scheme = true ∧ stA .noScheme = true ∧ stA .specialRelativeOrAuthority = true ∧
    stA .pathOrAuthority = true ∧ stA .relative = true ∧ stA .relativeSlash = true ∧ stA .specialAuthoritySlashes = true ∧
    stA .specialAuthorityIgnoreSlashes = true ∧ stA .authority = true ∧ stA .file = true ∧ stA .fileSlash = true ∧
    stA .host = false ∧ stA .hostname = false ∧ stA .port = false ∧ stA .fileHost = false ∧ stA .pathStart = false ∧
    stA .path = false ∧ stA .opaquePath = false ∧ stA .query = false ∧ stA .fragment = false := by decide

/-- a failure leaf is really exercised, and there the new clause of `RRes'` (the urls correspond) has content:
    no-scheme state without a base — Go returns `MissingSchemeNonRelativeURL` with the url record as it is -/
def wEnvNB (I : Idna) : Env := { cfg := {}, I := I, src := lit "a", runes := ['a'], base := none, ov := none }

example (I : Idna) : step (wEnvNB I) (wPS .noScheme) = .done ⟨{}, .err ⟨.MissingSchemeNonRelativeURL, true⟩ false⟩ ∧
    afterRun ['a'] (Spec.run (specIdna I) ['a'] none none (wSS .noScheme)) = .stop ({}, true) := by
  constructor <;> rfl

theorem wXInvNB (I : Idna) : XInv (wEnvNB I) (wPS .noScheme) := by
  refine ⟨by show (-1 : Int) < ((['a'] : Str).length : Int); decide, ⟨Int.le_refl _, ?_, fun _ => rfl, ?_, ?_⟩⟩
  · intro h; cases h
  · intro h; cases h
  · intro h; cases h

example (I : Idna) (hI : IdnaLaws I) :
    RStep' true (step (wEnvNB I) (wPS .noScheme)) (afterRun ['a'] (Spec.run (specIdna I) ['a'] none none (wSS .noScheme))) :=
  stepSim'_A I hI none (wEnvNB I) ['a'] none
    ⟨rfl, rfl, rfl, (by show goRunes (lit "a") = ['a']; decide), trivial, rfl⟩ (fun b hb => by cases hb)
    _ _ (witness_ok2 I .noScheme rfl).2.2.1 (wXInvNB I) rfl

end A2
end WhatwgUrl.Proofs.Sim

open WhatwgUrl.Proofs.Sim in
#print axioms stepSim'_A
open WhatwgUrl.Proofs.Sim in
#print axioms A2.extra2_of_inv
open WhatwgUrl.Proofs.Sim in
#print axioms A2.baseOK_of_envOk
