import WhatwgUrl.Proofs.Resolve
/-
  Helper lemmas for C06b, part 3: absolute references do not look at the base.
  * `BF s`: the states whose state functions do not read `e.base` and from which only such states are reachable
    (rank ≤ 9: special authority ignore slashes, authority, host, port, file host, path start, path, opaque path, query,
    fragment; plus path-or-authority).
-/
namespace WhatwgUrl.Proofs.Resolve
set_option linter.unusedSimpArgs false
set_option linter.unusedVariables false
open WhatwgUrl WhatwgUrl.Impl WhatwgUrl.Proofs.Termination

/-- base-free states -/
def BF (s : State) : Prop := rank s ≤ 9 ∨ s = .pathOrAuthority

theorem body_base_free (I : Idna) (src : Bytes) (rs : Str) (b₁ b₂ : Url) (q : PS) (r : Char) (h : BF q.state) :
    body (E I src rs b₁) q r = body (E I src rs b₂) q r := by
  unfold body
  split <;> rename_i heq <;> first
    | rfl
    | (exfalso; rw [heq] at h; revert h; unfold BF; decide)

theorem step_base_free (I : Idna) (src : Bytes) (rs : Str) (b₁ b₂ : Url) (ps : PS) (h : BF ps.state) :
    step (E I src rs b₁) ps = step (E I src rs b₂) ps := by
  unfold step
  simp only [E_runes]
  rw [body_base_free I src rs b₁ b₂ _ _ (by rw [next_state]; exact h)]

/-- the rank never goes up -/
theorem step_rank (e : Env) (ps ps' : PS) (hI : Inv e.runes.length ps) (h : step e ps = .cont ps') :
    rank ps'.state ≤ rank ps.state := by
  unfold step at h
  rw [bottom_cont] at h
  obtain ⟨h1, he⟩ := h
  obtain ⟨hp, hE⟩ := hI
  have hq1 : (next e.runes ps).1.pointer ≤ e.runes.length := by rw [next_pointer]; omega
  have hq : (next e.runes ps).1.eof = false → (next e.runes ps).1.pointer < e.runes.length := by
    intro h; have := next_eof _ _ h; rw [next_pointer]; omega
  have hg := (body_good e _ (next e.runes ps).2 hq1 hq).1 ps' h1 he
  obtain ⟨_, hor⟩ := hg
  rw [next_state] at hor
  rcases hor with hr | ⟨hr, _, _⟩ <;> omega

theorem step_BF (e : Env) (ps ps' : PS) (hI : Inv e.runes.length ps) (hb : BF ps.state) (h : step e ps = .cont ps') :
    BF ps'.state := by
  rcases hb with hb | hb
  · exact Or.inl (Nat.le_trans (step_rank e ps ps' hI h) hb)
  · left
    unfold step at h
    rw [bottom_cont] at h
    obtain ⟨h1, _⟩ := h
    unfold body at h1
    rw [next_state, hb] at h1
    simp only [stPathOrAuthority] at h1
    split at h1 <;> cases h1 <;> (show rank _ ≤ 9; dsimp only; decide)

/-- from a base-free state the run does not depend on the base -/
theorem runs_base_free (I : Idna) (src : Bytes) (rs : Str) (b₁ b₂ : Url) {ps : PS} {r : Res}
    (h : Runs (E I src rs b₁) ps r) : Inv rs.length ps → BF ps.state → Runs (E I src rs b₂) ps r := by
  induction h with
  | done hs =>
    intro _ hb
    rw [step_base_free I src rs b₁ b₂ _ hb] at hs
    exact Runs.done hs
  | cont hs _ ih =>
    intro hI hb
    have hI' := (step_cont (E I src rs b₁) _ _ hI hs).1
    have hb' := step_BF (E I src rs b₁) _ _ hI hb hs
    rw [step_base_free I src rs b₁ b₂ _ hb] at hs
    exact Runs.cont hs (ih hI' hb')

/-- any state that satisfies the loop invariant runs to completion -/
theorem runs_exists (e : Env) (ps : PS) (hI : Inv e.runes.length ps) : ∃ r, Runs e ps r := by
  refine ⟨loop e (fuelFor e.runes) ps, loop_runs e _ ps (loop_ok e _ ps hI ?_)⟩
  unfold mu fuelFor
  have hm : rank ps.state * (e.runes.length + 2) ≤ 17 * (e.runes.length + 2) := Nat.mul_le_mul_right _ (rank_le _)
  generalize rank ps.state * (e.runes.length + 2) = A at hm ⊢
  have := hI.1
  omega

/-! ### the scheme of an absolute reference -/

/-- scheme characters (lower-cased into the buffer) up to the `:`; the scheme and the text after the `:` -/
def schemeSplit : Str → Bytes → Option (Bytes × Str)
  | [], _ => none
  | c :: rest, buf =>
    if isSchemeChar c then schemeSplit rest (buf ++ utf8Char (lowerC c))
    else if c == ':' then some (buf, rest) else none

def splitScheme : Str → Option (Bytes × Str)
  | [] => none
  | c :: rest => if isAlphaN c.toNat then schemeSplit rest (utf8Char (lowerC c)) else none

theorem runs_scheme_yes (I : Idna) (src : Bytes) (rs : Str) (u : Url) (sch : Bytes) (after : Str) :
    ∀ (rest : Str) (k : Nat) (p : Int) (buf : Bytes), p + 1 = (k : Int) → rs.drop k = rest →
      schemeSplit rest buf = some (sch, after) →
      ∃ k' : Nat, rs.drop k' = ':' :: after ∧
        ∀ b r, Runs (E I src rs b) (P .scheme ((k' : Int) - 1) sch u) r → Runs (E I src rs b) (P .scheme p buf u) r := by
  intro rest
  induction rest with
  | nil => intro k p buf _ _ h; simp [schemeSplit] at h
  | cons c rest ih =>
    intro k p buf hp hd hsp
    by_cases hc : isSchemeChar c = true
    · have hsp' : schemeSplit rest (buf ++ utf8Char (lowerC c)) = some (sch, after) := by simpa [schemeSplit, hc] using hsp
      obtain ⟨k', hk', hrun⟩ := ih (k + 1) k _ (by omega) (drop_succ_of_cons hd) hsp'
      refine ⟨k', hk', fun b r hr => ?_⟩
      have hs : step (E I src rs b) (P .scheme p buf u) = .cont (P .scheme k (buf ++ utf8Char (lowerC c)) u) := by
        rw [step_cons hp hd]
        simp only [isSchemeChar] at hc
        simp [body, P, stScheme, bottom, hc, writeRune]
      exact Runs.cont hs (hrun b r hr)
    · simp only [schemeSplit, hc, Bool.false_eq_true, if_false] at hsp
      split at hsp
      · rename_i hcol
        simp only [Option.some.injEq, Prod.mk.injEq] at hsp
        obtain ⟨rfl, rfl⟩ := hsp
        have hcc : c = ':' := by simpa using hcol
        subst hcc
        refine ⟨k, hd, fun b r hr => ?_⟩
        have : (k : Int) - 1 = p := by omega
        rw [this] at hr
        exact hr
      · cases hsp

/-! ### the steps after the scheme -/

theorem runesFrom_succ (rs : Str) (k : Nat) : runesFrom rs ((k : Int) + 1) = rs.drop (k + 1) := by
  unfold runesFrom
  have : ((k : Int) + 1).toNat = k + 1 := by omega
  rw [this]

theorem lt_length_of_drop {rs : Str} {k : Nat} {c : Char} {rest : Str} (h : rs.drop k = c :: rest) : k < rs.length := by
  have := congrArg List.length h
  simp only [List.length_drop, List.length_cons] at this
  omega

section colon
variable (I : Idna) (src : Bytes) (rs : Str) (b : Url) (u : Url) (sch : Bytes) (after : Str) (k : Nat) (p : Int)

/-- special scheme, the same as the base's: special relative or authority state -/
theorem step_colon_sROA (hp : p + 1 = (k : Int)) (hd : rs.drop k = ':' :: after) (hnf : sch ≠ lit "file")
    (hsp : ({} : Cfg).isSpecial sch = true) (hb : b.scheme = sch) :
    step (E I src rs b) (P .scheme p sch u) = .cont (P .specialRelativeOrAuthority k [] { u with scheme := sch }) := by
  rw [step_cons hp hd]
  have h1 : isAlnumN 58 = false := by decide
  simp [body, P, stScheme, bottom, h1, hnf, isSp, hsp, hb]

/-- special scheme, different from the base's: special authority slashes state -/
theorem step_colon_sAS (hp : p + 1 = (k : Int)) (hd : rs.drop k = ':' :: after) (hnf : sch ≠ lit "file")
    (hsp : ({} : Cfg).isSpecial sch = true) (hb : b.scheme ≠ sch) :
    step (E I src rs b) (P .scheme p sch u) = .cont (P .specialAuthoritySlashes k [] { u with scheme := sch }) := by
  rw [step_cons hp hd]
  have h1 : isAlnumN 58 = false := by decide
  simp [body, P, stScheme, bottom, h1, hnf, isSp, hsp, hb]

/-- non-special scheme followed by `/`: path or authority state, the `/` consumed -/
theorem step_colon_pOA (after2 : Str) (hp : p + 1 = (k : Int)) (hd : rs.drop k = ':' :: '/' :: after2)
    (hsp : ({} : Cfg).isSpecial sch = false) :
    step (E I src rs b) (P .scheme p sch u) = .cont (P .pathOrAuthority ((k + 1 : Nat) : Int) [] { u with scheme := sch }) := by
  rw [step_cons hp hd]
  have h1 : isAlnumN 58 = false := by decide
  have hnf : sch ≠ lit "file" := by intro h; rw [h] at hsp; revert hsp; decide
  have hd1 := drop_succ_of_cons hd
  have hn : next rs (P .scheme (k : Int) [] { u with scheme := sch }) =
      (P .scheme ((k + 1 : Nat) : Int) [] { u with scheme := sch }, '/') := next_cons (by omega) hd1
  simp only [P] at hn
  simp [body, P, stScheme, bottom, h1, hnf, isSp, hsp, remainingStartsWith, runesFrom_succ, hd1, hn]

/-- non-special scheme not followed by `/`: opaque path state -/
theorem step_colon_opaque (hp : p + 1 = (k : Int)) (hd : rs.drop k = ':' :: after)
    (hsp : ({} : Cfg).isSpecial sch = false) (hns : ['/'].isPrefixOf after = false) :
    step (E I src rs b) (P .scheme p sch u) =
      .cont (P .opaquePath k [] { u with scheme := sch, path := Path.setOpaque [] }) := by
  rw [step_cons hp hd]
  have h1 : isAlnumN 58 = false := by decide
  have hnf : sch ≠ lit "file" := by intro h; rw [h] at hsp; revert hsp; decide
  have hd1 := drop_succ_of_cons hd
  simp [body, P, stScheme, bottom, h1, hnf, isSp, hsp, remainingStartsWith, runesFrom_succ, hd1, hns]

/-- special relative or authority state on `//`: special authority ignore slashes state, both consumed -/
theorem step_sROA_slashes (after2 : Str) (buf : Bytes) (hd : rs.drop (k + 1) = '/' :: '/' :: after2) :
    step (E I src rs b) (P .specialRelativeOrAuthority k buf u) =
      .cont (P .specialAuthorityIgnoreSlashes ((k + 2 : Nat) : Int) buf u) := by
  rw [step_cons (k := k + 1) (by omega) hd]
  have hd1 := drop_succ_of_cons hd
  have hn : next rs (P .specialRelativeOrAuthority ((k : Int) + 1) buf u) =
      (P .specialRelativeOrAuthority ((k + 2 : Nat) : Int) buf u, '/') := next_cons (k := k + 2) (by omega) hd1
  simp only [P] at hn
  have hr : runesFrom rs ((k : Int) + 1 + 1) = '/' :: after2 := by
    have : (k : Int) + 1 + 1 = ((k + 1 : Nat) : Int) + 1 := by omega
    rw [this, runesFrom_succ]; exact hd1
  simp [body, P, stSpecialRelativeOrAuthority, bottom, remainingStartsWith, hr, hn]

theorem step_sAS_slashes (after2 : Str) (buf : Bytes) (hd : rs.drop (k + 1) = '/' :: '/' :: after2) :
    step (E I src rs b) (P .specialAuthoritySlashes k buf u) =
      .cont (P .specialAuthorityIgnoreSlashes ((k + 2 : Nat) : Int) buf u) := by
  rw [step_cons (k := k + 1) (by omega) hd]
  have hd1 := drop_succ_of_cons hd
  have hn : next rs (P .specialAuthoritySlashes ((k : Int) + 1) buf u) =
      (P .specialAuthoritySlashes ((k + 2 : Nat) : Int) buf u, '/') := next_cons (k := k + 2) (by omega) hd1
  simp only [P] at hn
  have hr : runesFrom rs ((k : Int) + 1 + 1) = '/' :: after2 := by
    have : (k : Int) + 1 + 1 = ((k + 1 : Nat) : Int) + 1 := by omega
    rw [this, runesFrom_succ]; exact hd1
  simp [body, P, stSpecialAuthoritySlashes, bottom, remainingStartsWith, hr, hn]

end colon

/-! ### absolute references -/

theorem schemeSplit_isSome : ∀ (rest : Str) (buf : Bytes), (schemeSplit rest buf).isSome = schemeTail rest := by
  intro rest
  induction rest with
  | nil => intro buf; rfl
  | cons c rest ih =>
    intro buf
    unfold schemeSplit schemeTail
    by_cases hc : isSchemeChar c = true
    · simp only [hc, if_true]; exact ih _
    · simp only [hc, Bool.false_eq_true, if_false]
      by_cases hcol : (c == ':') = true
      · simp [hcol]
      · simp [hcol]

/-- `splitScheme` succeeds exactly on the references that have a scheme -/
theorem splitScheme_isSome (rs : Str) : (splitScheme rs).isSome = hasSchemeR rs := by
  cases rs with
  | nil => rfl
  | cons c rest =>
    unfold splitScheme hasSchemeR
    by_cases hc : isAlphaN c.toNat = true
    · simp only [hc, if_true, Bool.true_and]; exact schemeSplit_isSome _ _
    · simp [hc]

/-- the reference has a scheme other than `file` which is not special or is followed by `//` -/
def absIndep (rs : Str) : Bool :=
  match splitScheme rs with
  | none => false
  | some (sch, after) => sch != lit "file" && (!({} : Cfg).isSpecial sch || ['/', '/'].isPrefixOf after)

theorem Inv_P {N : Nat} {s : State} {k : Nat} {buf : Bytes} {u : Url} (h : k < N) : Inv N (P s (k : Int) buf u) :=
  ⟨by simp only [P]; omega, rfl⟩

theorem isPrefixOf_elim {p after : Str} (h : p.isPrefixOf after = true) : ∃ a2, after = p ++ a2 := by
  rw [List.isPrefixOf_iff_prefix] at h
  obtain ⟨t, ht⟩ := h
  exact ⟨t, ht.symm⟩

/-- an absolute reference of this kind reaches, whatever the base, one and the same base-free state -/
theorem abs_common (I : Idna) (src : Bytes) (rs : Str) (u : Url) (h : absIndep rs = true) :
    ∃ S : PS, BF S.state ∧ Inv rs.length S ∧
      ∀ b r, Runs (E I src rs b) S r → Runs (E I src rs b) (P .schemeStart (-1) [] u) r := by
  match rs, h with
  | c :: rest, h =>
    unfold absIndep splitScheme at h
    by_cases hc : isAlphaN c.toNat = true
    · simp only [hc, if_true] at h
      cases hsp : schemeSplit rest (utf8Char (lowerC c)) with
      | none => rw [hsp] at h; cases h
      | some pr =>
        obtain ⟨sch, after⟩ := pr
        rw [hsp] at h
        simp only [Bool.and_eq_true, bne_iff_ne, ne_eq, Bool.or_eq_true, Bool.not_eq_true'] at h
        obtain ⟨hnf, hor⟩ := h
        obtain ⟨k', hk', hrun⟩ := runs_scheme_yes I src (c :: rest) u sch after rest 1 0 (utf8Char (lowerC c))
          (by rfl) (by rfl) hsp
        -- the first step: scheme start state on a letter
        have hs0 : ∀ b, step (E I src (c :: rest) b) (P .schemeStart (-1) [] u) = .cont (P .scheme 0 (utf8Char (lowerC c)) u) := by
          intro b
          rw [step_cons (k := 0) (by rfl) (by rfl)]
          simp [body, P, stSchemeStart, bottom, hc, writeRune]
        have hpre : ∀ b r, Runs (E I src (c :: rest) b) (P .scheme ((k' : Int) - 1) sch u) r →
            Runs (E I src (c :: rest) b) (P .schemeStart (-1) [] u) r :=
          fun b r hr => Runs.cont (hs0 b) (hrun b r hr)
        have hk1 : ((k' : Int) - 1) + 1 = (k' : Int) := by omega
        by_cases hspc : ({} : Cfg).isSpecial sch = true
        · -- special: followed by `//`
          have hpf : ['/', '/'].isPrefixOf after = true := by
            rcases hor with h | h
            · rw [hspc] at h; cases h
            · exact h
          obtain ⟨after2, rfl⟩ := isPrefixOf_elim hpf
          · have hk' : List.drop k' (c :: rest) = ':' :: '/' :: '/' :: after2 := hk'
            have hd1 := drop_succ_of_cons hk'
            have hlen := lt_length_of_drop (drop_succ_of_cons hd1)
            refine ⟨P .specialAuthorityIgnoreSlashes ((k' + 2 : Nat) : Int) [] { u with scheme := sch },
              Or.inl (by simp only [P]; decide), Inv_P (by omega), fun b r hr => hpre b r ?_⟩
            by_cases hb : b.scheme = sch
            · exact Runs.cont (step_colon_sROA I src _ b u sch _ k' _ hk1 hk' hnf hspc hb)
                (Runs.cont (step_sROA_slashes I src _ b _ k' after2 [] hd1) hr)
            · exact Runs.cont (step_colon_sAS I src _ b u sch _ k' _ hk1 hk' hnf hspc hb)
                (Runs.cont (step_sAS_slashes I src _ b _ k' after2 [] hd1) hr)
        · have hspc' : ({} : Cfg).isSpecial sch = false := by simpa using hspc
          by_cases hsl : ['/'].isPrefixOf after = true
          · obtain ⟨after2, rfl⟩ := isPrefixOf_elim hsl
            · have hk' : List.drop k' (c :: rest) = ':' :: '/' :: after2 := hk'
              have hlen := lt_length_of_drop (drop_succ_of_cons hk')
              exact ⟨P .pathOrAuthority ((k' + 1 : Nat) : Int) [] { u with scheme := sch }, Or.inr rfl, Inv_P (by omega),
                fun b r hr => hpre b r (Runs.cont (step_colon_pOA I src _ b u sch k' _ after2 hk1 hk' hspc') hr)⟩
          · have hlen := lt_length_of_drop hk'
            exact ⟨P .opaquePath (k' : Int) [] { u with scheme := sch, path := Path.setOpaque [] },
              Or.inl (by simp only [P]; decide),
              Inv_P hlen,
              fun b r hr => hpre b r (Runs.cont (step_colon_opaque I src _ b u sch after k' _ hk1 hk' hspc' (Bool.eq_false_iff.mpr hsl)) hr)⟩
    · simp only [hc, Bool.false_eq_true, if_false] at h

/-- so its resolution does not depend on the base -/
theorem abs_indep (I : Idna) (src : Bytes) (rs : Str) (u : Url) (h : absIndep rs = true) (b₁ b₂ : Url) :
    ∃ r, Runs (E I src rs b₁) (P .schemeStart (-1) [] u) r ∧ Runs (E I src rs b₂) (P .schemeStart (-1) [] u) r := by
  obtain ⟨S, hbf, hI, hrun⟩ := abs_common I src rs u h
  obtain ⟨r, hr⟩ := runs_exists (E I src rs b₁) S hI
  exact ⟨r, hrun b₁ r hr, hrun b₂ r (runs_base_free I src rs b₁ b₂ hr hI hbf)⟩

end WhatwgUrl.Proofs.Resolve
