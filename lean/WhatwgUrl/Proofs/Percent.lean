import WhatwgUrl.Impl.Percent
import WhatwgUrl.Spec.Basic
/-
  Helper lemmas for C10 (percent-encode sets and the percent codec):
  bit-level facts for `PSet.set` / `PSet.clear`, UTF-8 byte facts, and the behaviour of
  `Spec.percentDecode` on escapes, on non-`%` bytes and on a `%` that does / does not start an escape.
-/
namespace WhatwgUrl.Proofs.Percent
open WhatwgUrl WhatwgUrl.Impl

/-! ### bits -/

theorem bne_true_of_ne {a b : Nat} (h : a ≠ b) : (a != b) = true := by simp [h]

theorem set_has (p : PSet) (b c : Nat) : (p.set b).has c = (p.has c || c == b) := by
  simp only [PSet.has, PSet.set, Nat.testBit_or, Nat.one_shiftLeft, Nat.testBit_two_pow]
  simp only [Bool.or_assoc]
  congr 3
  by_cases h : c = b
  · simp [h]
  · have : ¬ b = c := fun e => h e.symm
    simp [h, this]

theorem odd_pred_testBit (a k : Nat) (ha : a % 2 = 1) : (a - 1).testBit k = (a.testBit k && k != 0) := by
  cases k with
  | zero => simp [Nat.testBit_zero]; omega
  | succ k =>
    simp only [Nat.testBit_succ]
    have : (a - 1) / 2 = a / 2 := by omega
    simp [this]

/-- subtracting `2^b` from a number whose bit `b` is set clears exactly that bit -/
theorem testBit_sub_two_pow (x b c : Nat) (h : x.testBit b = true) :
    (x - 2 ^ b).testBit c = (x.testBit c && c != b) := by
  have hx : x = 2 ^ b * (x / 2 ^ b) + x % 2 ^ b := (Nat.div_add_mod x (2 ^ b)).symm
  have hr : x % 2 ^ b < 2 ^ b := Nat.mod_lt _ (Nat.two_pow_pos b)
  have hodd : (x / 2 ^ b) % 2 = 1 := by
    have := Nat.testBit_eq_decide_div_mod_eq (x := x) (i := b)
    rw [h] at this; simpa using this.symm
  have hsub : x - 2 ^ b = 2 ^ b * (x / 2 ^ b - 1) + x % 2 ^ b := by
    rw [Nat.mul_sub_one]
    generalize x / 2 ^ b = a at *
    have h1 : 1 ≤ a := by omega
    have h2 : 2 ^ b * 1 ≤ 2 ^ b * a := Nat.mul_le_mul_left _ h1
    generalize 2 ^ b * a = m at *
    generalize x % 2 ^ b = r at *
    omega
  rw [hsub]
  conv => rhs; rw [hx]
  rw [Nat.testBit_two_pow_mul_add _ hr, Nat.testBit_two_pow_mul_add _ hr]
  by_cases hcb : c < b
  · have : c ≠ b := by omega
    simp [hcb, this]
  · simp only [hcb, ↓reduceIte]
    rw [odd_pred_testBit _ _ hodd]
    congr 1
    by_cases h2 : c = b
    · simp [h2]
    · have : c - b ≠ 0 := by omega
      rw [bne_true_of_ne this, bne_true_of_ne h2]

theorem clear_has (p : PSet) (b c : Nat) :
    (p.clear b).has c = (c < p.allBelow || c > 0x7E || (p.bits.testBit c && c != b)) := by
  simp only [PSet.has, PSet.clear]
  by_cases h : p.bits.testBit b = true
  · simp only [h, ↓reduceIte, Nat.one_shiftLeft, testBit_sub_two_pow _ _ _ h]; rfl
  · simp only [h]
    by_cases e : c = b
    · subst e; simp [h]; rfl
    · rw [bne_true_of_ne e, Bool.and_true]; rfl

@[simp] theorem set_allBelow (p : PSet) (b : Nat) : (p.set b).allBelow = p.allBelow := rfl
@[simp] theorem clear_allBelow (p : PSet) (b : Nat) : (p.clear b).allBelow = p.allBelow := rfl

theorem clear_testBit (p : PSet) (b c : Nat) : (p.clear b).bits.testBit c = (p.bits.testBit c && c != b) := by
  simp only [PSet.clear]
  by_cases h : p.bits.testBit b = true
  · simp only [h, ↓reduceIte, Nat.one_shiftLeft, testBit_sub_two_pow _ _ _ h]
  · simp only [h]
    by_cases e : c = b
    · subst e; simp [h]
    · rw [bne_true_of_ne e, Bool.and_true]; rfl

/-! ### hex digits -/

theorem hexDigit16 : ∀ d : Fin 16,
    isHexN (hexUpper d.val).toNat = true ∧ hexVal (hexUpper d.val).toNat = d.val ∧
    utf8Char (bc (hexUpper d.val)) = [hexUpper d.val] ∧ isLowerN (bc (hexUpper d.val)).toNat = false ∧
    isHexN (bc (hexUpper d.val)).toNat = true := by
  decide

theorem hex_roundtrip (x : UInt8) :
    isHexN (hexUpper (x.toNat / 16)).toNat = true ∧ isHexN (hexUpper (x.toNat % 16)).toNat = true ∧
    (hexVal (hexUpper (x.toNat / 16)).toNat * 16 + hexVal (hexUpper (x.toNat % 16)).toNat).toUInt8 = x := by
  have hx := x.toNat_lt
  have a := hexDigit16 ⟨x.toNat / 16, by omega⟩
  have b := hexDigit16 ⟨x.toNat % 16, by omega⟩
  refine ⟨a.1, b.1, ?_⟩
  rw [a.2.1, b.2.1]
  apply UInt8.toNat_inj.mp
  simp
  omega

theorem isHexN_lt {c : Nat} (h : isHexN c = true) : c < 0x80 := by
  simp [isHexN, isDigitN] at h
  omega

theorem not_isHexN_of_ge {c : Nat} (h : 0x80 ≤ c) : isHexN c = false := by
  cases e : isHexN c
  · rfl
  · have := isHexN_lt e; omega

/-! ### UTF-8 -/

@[simp] theorem utf8_nil : utf8 [] = [] := rfl
theorem utf8_cons (c : Char) (s : Str) : utf8 (c :: s) = utf8Char c ++ utf8 s := by simp [utf8]
theorem utf8_append (a b : Str) : utf8 (a ++ b) = utf8 a ++ utf8 b := by simp [utf8]

theorem utf8Char_ascii (c : Char) (h : c.toNat < 0x80) : utf8Char c = [c.toNat.toUInt8] := by
  unfold utf8Char String.utf8EncodeChar
  have : c.val.toNat ≤ 0x7f := by
    have : c.toNat = c.val.toNat := rfl
    omega
  simp only [this, ↓reduceIte]
  rfl

theorem utf8Char_high (c : Char) (h : 0x80 ≤ c.toNat) : ∀ b ∈ utf8Char c, 0x80 ≤ b.toNat := by
  have hc : c.toNat = c.val.toNat := rfl
  rw [hc] at h
  unfold utf8Char String.utf8EncodeChar
  simp only
  intro b hb
  split at hb
  · omega
  · split at hb
    · simp at hb
      rcases hb with rfl | rfl <;> simp <;> omega
    · split at hb
      · simp at hb
        rcases hb with rfl | rfl | rfl <;> simp <;> omega
      · simp at hb
        rcases hb with rfl | rfl | rfl | rfl <;> simp <;> omega

theorem utf8Char_ne_nil (c : Char) : utf8Char c ≠ [] := String.utf8EncodeChar_ne_nil

theorem utf8Char_pct : utf8Char '%' = [0x25] := by decide

theorem toNat_ne_pct {c : Char} (h : c ≠ '%') : c.toNat ≠ 0x25 := by
  intro e
  apply h
  have : Char.ofNat c.toNat = c := Char.ofNat_toNat c
  rw [e] at this
  exact this.symm

/-- the UTF-8 bytes of a code point other than `%` never contain the byte 0x25 -/
theorem utf8Char_ne_pct (c : Char) (h : c ≠ '%') : ∀ b ∈ utf8Char c, b ≠ 0x25 := by
  intro b hb e
  by_cases hc : c.toNat < 0x80
  · rw [utf8Char_ascii c hc] at hb
    simp at hb
    have h1 := toNat_ne_pct h
    have : b.toNat = c.toNat := by rw [hb]; simp; omega
    rw [e] at this
    simp at this
    omega
  · have := utf8Char_high c (by omega) b hb
    rw [e] at this
    simp at this

/-- a hex digit code point is one byte, itself a hex digit -/
theorem utf8Char_hex (c : Char) (h : isHexN c.toNat = true) :
    utf8Char c = [c.toNat.toUInt8] ∧ isHexN (c.toNat.toUInt8).toNat = true := by
  have hlt := isHexN_lt h
  refine ⟨utf8Char_ascii c hlt, ?_⟩
  have : (c.toNat.toUInt8).toNat = c.toNat := by simp; omega
  rw [this]; exact h

/-- the first UTF-8 byte of a code point that is not a hex digit is not a hex digit -/
theorem utf8Char_nonhex_head (c : Char) (h : isHexN c.toNat = false) :
    ∃ x t, utf8Char c = x :: t ∧ isHexN x.toNat = false := by
  by_cases hc : c.toNat < 0x80
  · refine ⟨c.toNat.toUInt8, [], utf8Char_ascii c hc, ?_⟩
    have : (c.toNat.toUInt8).toNat = c.toNat := by simp; omega
    rw [this]; exact h
  · match e : utf8Char c with
    | [] => exact absurd e (utf8Char_ne_nil c)
    | x :: t =>
      refine ⟨x, t, rfl, ?_⟩
      have := utf8Char_high c (by omega) x (by rw [e]; simp)
      exact not_isHexN_of_ge this

/-! ### the encoder at byte level -/

/-- the bytes the standard's encoder emits for one code point -/
def encBytes (set : Nat → Bool) (c : Char) : Bytes :=
  if set c.toNat then (utf8Char c).flatMap pctByte else utf8Char c

theorem encBytes_of_mem (set : Nat → Bool) (c : Char) (h : set c.toNat = true) :
    encBytes set c = (utf8Char c).flatMap pctByte := by simp [encBytes, h]
theorem encBytes_of_not_mem (set : Nat → Bool) (c : Char) (h : set c.toNat = false) :
    encBytes set c = utf8Char c := by simp [encBytes, h]

theorem utf8_pe (x : UInt8) : utf8 (Spec.percentEncodeByte x) = pctByte x := by
  have hx := x.toNat_lt
  have a := hexDigit16 ⟨x.toNat / 16, by omega⟩
  have b := hexDigit16 ⟨x.toNat % 16, by omega⟩
  simp [utf8, Spec.percentEncodeByte, pctByte, a.2.2.1, b.2.2.1, utf8Char_pct]

theorem utf8_flatMap_pe (bs : Bytes) : utf8 (bs.flatMap Spec.percentEncodeByte) = bs.flatMap pctByte := by
  induction bs with
  | nil => rfl
  | cons x t ih => simp only [List.flatMap_cons, utf8_append, utf8_pe, ih]

theorem utf8_encodeCp (set : Nat → Bool) (c : Char) : utf8 (Spec.utf8PercentEncodeCp set c) = encBytes set c := by
  unfold Spec.utf8PercentEncodeCp encBytes
  cases set c.toNat
  · simp [utf8]
  · simp [utf8_flatMap_pe]

theorem utf8_encode (set : Nat → Bool) (s : Str) :
    utf8 (Spec.utf8PercentEncode set s) = s.flatMap (encBytes set) := by
  induction s with
  | nil => rfl
  | cons c t ih =>
    simp only [Spec.utf8PercentEncode, List.flatMap_cons, utf8_append, utf8_encodeCp] at ih ⊢
    rw [ih]

theorem encBytes_pct (set : Nat → Bool) (hp : set 0x25 = false) : encBytes set '%' = [0x25] := by
  have : ('%' : Char).toNat = 0x25 := rfl
  simp [encBytes, this, hp, utf8Char_pct]

theorem encBytes_nonhex_head (set : Nat → Bool) (c : Char) (h : isHexN c.toNat = false) :
    ∃ x t, encBytes set c = x :: t ∧ isHexN x.toNat = false := by
  obtain ⟨x, t, e, hx⟩ := utf8Char_nonhex_head c h
  unfold encBytes
  cases set c.toNat
  · exact ⟨x, t, by simpa using e, hx⟩
  · refine ⟨0x25, _, by simp [e, pctByte]; rfl, by decide⟩

/-! ### `Spec.percentDecode` -/

theorem pd_pctByte (x : UInt8) (rest : Bytes) :
    Spec.percentDecode (pctByte x ++ rest) = x :: Spec.percentDecode rest := by
  obtain ⟨h1, h2, h3⟩ := hex_roundtrip x
  simp [pctByte, Spec.percentDecode, h1, h2, h3]

theorem pd_ne (x : UInt8) (rest : Bytes) (h : x ≠ 0x25) :
    Spec.percentDecode (x :: rest) = x :: Spec.percentDecode rest := by
  match rest with
  | [] => simp [Spec.percentDecode]
  | [a] => simp [Spec.percentDecode]
  | a :: b :: r => simp [Spec.percentDecode, h]

theorem pd_append_ne (bs rest : Bytes) (h : ∀ b ∈ bs, b ≠ 0x25) :
    Spec.percentDecode (bs ++ rest) = bs ++ Spec.percentDecode rest := by
  induction bs with
  | nil => rfl
  | cons x t ih =>
    rw [List.cons_append, pd_ne _ _ (h x (by simp)), ih (fun b hb => h b (by simp [hb]))]
    rfl

theorem pd_flatMap_pct (bs rest : Bytes) :
    Spec.percentDecode (bs.flatMap pctByte ++ rest) = bs ++ Spec.percentDecode rest := by
  induction bs with
  | nil => rfl
  | cons x t ih => rw [List.flatMap_cons, List.append_assoc, pd_pctByte, ih]; rfl

theorem pd_pct_nonhex1 (x : UInt8) (rest : Bytes) (h : isHexN x.toNat = false) :
    Spec.percentDecode (0x25 :: x :: rest) = 0x25 :: Spec.percentDecode (x :: rest) := by
  match rest with
  | [] => simp [Spec.percentDecode]
  | a :: r => simp [Spec.percentDecode, h]

theorem pd_pct_nonhex2 (x y : UInt8) (rest : Bytes) (h : isHexN y.toNat = false) :
    Spec.percentDecode (0x25 :: x :: y :: rest) = 0x25 :: Spec.percentDecode (x :: y :: rest) := by
  simp [Spec.percentDecode, h]

theorem pd_pct_hex (x y : UInt8) (rest : Bytes) (hx : isHexN x.toNat = true) (hy : isHexN y.toNat = true) :
    Spec.percentDecode (0x25 :: x :: y :: rest) =
      (hexVal x.toNat * 16 + hexVal y.toNat).toUInt8 :: Spec.percentDecode rest := by
  simp [Spec.percentDecode, hx, hy]

/-- decoding undoes the encoder when `%` is in the set (and hex digits need not be: they are only ever copied) -/
theorem decode_inverts (set : Nat → Bool) (hp : set 0x25 = true) (s : Str) :
    Spec.percentDecode (s.flatMap (encBytes set)) = utf8 s := by
  induction s with
  | nil => simp [Spec.percentDecode]
  | cons c t ih =>
    rw [List.flatMap_cons, utf8_cons]
    cases hs : set c.toNat
    · have hc : c ≠ '%' := by
        intro e; subst e
        have : ('%' : Char).toNat = 0x25 := rfl
        rw [this, hp] at hs; cases hs
      rw [encBytes_of_not_mem set c hs, pd_append_ne _ _ (utf8Char_ne_pct c hc), ih]
    · rw [encBytes_of_mem set c hs, pd_flatMap_pct, ih]

/-- with `%` and the hex digits outside the set, encoding does not change what decoding yields -/
theorem decode_same_aux (set : Nat → Bool) (hp : set 0x25 = false) (hh : ∀ c, isHexN c = true → set c = false) :
    ∀ n (s : Str), s.length ≤ n →
      Spec.percentDecode (s.flatMap (encBytes set)) = Spec.percentDecode (utf8 s) := by
  have E_hex : ∀ c : Char, isHexN c.toNat = true → encBytes set c = utf8Char c := by
    intro c h; simp [encBytes, hh _ h]
  intro n
  induction n with
  | zero =>
    intro s hs
    have : s = [] := List.eq_nil_of_length_eq_zero (by omega)
    subst this; rfl
  | succ n ih =>
    intro s hs
    match s, hs with
    | [], _ => rfl
    | c :: s', hs =>
      have hlen : s'.length ≤ n := by simp at hs; omega
      by_cases hc : c = '%'
      · subst hc
        rw [List.flatMap_cons, utf8_cons, encBytes_pct set hp, utf8Char_pct]
        match s', hlen with
        | [], _ => rfl
        | c1 :: s1, hlen =>
          cases h1 : isHexN c1.toNat
          · -- `%` followed by a non-hex code point: not an escape on either side
            obtain ⟨x, t, e, hx⟩ := encBytes_nonhex_head set c1 h1
            obtain ⟨x', t', e', hx'⟩ := utf8Char_nonhex_head c1 h1
            have := ih (c1 :: s1) hlen
            simp only [List.flatMap_cons, utf8_cons, e, e', List.cons_append, List.nil_append] at this ⊢
            rw [pd_pct_nonhex1 _ _ hx, pd_pct_nonhex1 _ _ hx', this]
          · obtain ⟨u1, hb1⟩ := utf8Char_hex c1 h1
            match s1, hlen with
            | [], _ =>
              simp only [List.flatMap_cons, utf8_cons, E_hex c1 h1, u1, List.flatMap_nil, utf8_nil]
            | c2 :: s2, hlen =>
              cases h2 : isHexN c2.toNat
              · obtain ⟨x, t, e, hx⟩ := encBytes_nonhex_head set c2 h2
                obtain ⟨x', t', e', hx'⟩ := utf8Char_nonhex_head c2 h2
                have := ih (c1 :: c2 :: s2) hlen
                simp only [List.flatMap_cons, utf8_cons, E_hex c1 h1, u1, e, e', List.cons_append,
                  List.nil_append] at this ⊢
                rw [pd_pct_nonhex2 _ _ _ hx, pd_pct_nonhex2 _ _ _ hx', this]
              · obtain ⟨u2, hb2⟩ := utf8Char_hex c2 h2
                have := ih s2 (by simp at hlen; omega)
                simp only [List.flatMap_cons, utf8_cons, E_hex c1 h1, E_hex c2 h2, u1, u2, List.cons_append,
                  List.nil_append]
                rw [pd_pct_hex _ _ _ hb1 hb2, pd_pct_hex _ _ _ hb1 hb2, this]
      · rw [List.flatMap_cons, utf8_cons, pd_append_ne _ (utf8 s') (utf8Char_ne_pct c hc)]
        cases hs : set c.toNat
        · rw [encBytes_of_not_mem set c hs, pd_append_ne _ _ (utf8Char_ne_pct c hc), ih s' hlen]
        · rw [encBytes_of_mem set c hs, pd_flatMap_pct, ih s' hlen]

/-! ### the Go codec in the default configuration -/

theorem percentEncodeRune_default (tr : PSet) (r : Char) :
    percentEncodeRune Cfg.default tr r = encBytes tr.has r := by
  unfold percentEncodeRune encBytes runeBytes
  have : Cfg.default.encOverride = none := rfl
  rw [this]
  cases tr.has r.toNat <;> rfl

theorem pesRunes_default (tr : PSet) (rs : Str) : pesRunes Cfg.default tr rs = rs.flatMap (encBytes tr.has) := by
  induction rs with
  | nil => rfl
  | cons r t ih =>
    have : Cfg.default.pctSingle = false := rfl
    simp only [pesRunes, this, Bool.and_false, Bool.false_eq_true, ↓reduceIte, List.flatMap_cons,
      percentEncodeRune_default, ih]

theorem decodePercent_default (s : Bytes) : decodePercent Cfg.default s = Spec.percentDecode s := by
  have hc : Cfg.default.encOverride = none := rfl
  fun_induction Spec.percentDecode s with
  | case1 => simp [decodePercent]
  | case2 x h1 h2 rest' hcond ih =>
    simp only [decodePercent, hc, hcond, ↓reduceIte, ih]; rfl
  | case3 x h1 h2 rest' hcond ih =>
    have hcond' : (x == 37 && isHexN h1.toNat && isHexN h2.toNat) = false := by simpa using hcond
    simp [decodePercent, hcond', ih]
  | case4 x rest hne ih =>
    match rest, hne with
    | [], _ => simp [decodePercent, Spec.percentDecode]
    | [a], _ => simp [decodePercent, Spec.percentDecode]
    | a :: b :: r, hne => exact absurd rfl (hne a b r)

end WhatwgUrl.Proofs.Percent
