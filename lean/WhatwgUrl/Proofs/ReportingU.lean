import WhatwgUrl.Proofs.ReportingBase
/-
  C15, part 2 (one run): an invariant `IV` of the recorded list that is preserved by appending a NON-fatal entry is
  preserved along every run that does not return an error; and with `failOnVErr = false` every returned error is fatal.
  (`IV := all entries non-fatal` gives "recorded entries on success are non-fatal"; `IV := True` gives the second
  statement for an arbitrary initial url.)
-/
namespace WhatwgUrl.Proofs.Reporting
set_option linter.unusedSimpArgs false
set_option linter.unusedVariables false
set_option linter.unusedSectionVars false
open WhatwgUrl WhatwgUrl.Impl

/-- hypotheses of the one-run pass -/
structure UH (c : Cfg) (IV : List VErr → Prop) : Prop where
  /-- only needed when fail mode is off: in fail mode no `handleError` call ever continues -/
  app : c.failOnVErr = false → ∀ v t, IV v → IV (v ++ [⟨t, false⟩])

/-- what is claimed about a host-level result -/
def GoodH (c : Cfg) (IV : List VErr → Prop) (hr : HR) : Prop :=
  (∀ h, hr.out = .ok h → IV hr.url.verrs) ∧ (c.failOnVErr = false → ∀ e, hr.out = .err e → e.failure = true)

/-- what is claimed about a returned result -/
def GoodR (c : Cfg) (IV : List VErr → Prop) (x : Res) : Prop :=
  (x.ret = .url → IV x.url.verrs) ∧ (c.failOnVErr = false → ∀ e w, x.ret = .err e w → e.failure = true)

/-- what is claimed about one step -/
def Good (c : Cfg) (IV : List VErr → Prop) (r : StepR) : Prop :=
  (∀ ps', r = .cont ps' → IV ps'.url.verrs) ∧ (∀ x, r = .done x → GoodR c IV x)

section
variable {c : Cfg} {IV : List VErr → Prop} (U : UH c IV)
include U

theorem UH.rcd (hfo : c.failOnVErr = false) (u : Url) (t : ErrT) (h : IV u.verrs) : IV (record c u t false).verrs := by
  unfold record; split
  · exact U.app hfo _ _ h
  · exact h

omit U in
theorem fo_of_not_stops (h : ¬ stops c false = true) : c.failOnVErr = false := by
  simpa [stops] using h

omit U in
theorem stops_false_of (f : Bool) (h : ¬ stops c f = true) : f = false := by
  cases f <;> simp_all [stops]

omit U in
theorem stops_fo (f : Bool) (h : stops c f = true) (hfo : c.failOnVErr = false) : f = true := by
  cases f <;> simp_all [stops]

/-! ### host level -/

omit U in
theorem GoodH_err (u : Url) (e : VErr) (h : c.failOnVErr = false → e.failure = true) : GoodH c IV ⟨u, .err e⟩ :=
  ⟨(by intro _ h; cases h), (by intro hfo e' h'; cases h'; exact h hfo)⟩

omit U in
theorem GoodH_ok (u : Url) (b : Bytes) (h : IV u.verrs) : GoodH c IV ⟨u, .ok b⟩ :=
  ⟨(by intro _ _; exact h), (by intro hfo e' h'; cases h')⟩

omit U in
theorem GoodH_panic (u : Url) (n : Nat) : GoodH c IV ⟨u, .panic n⟩ :=
  ⟨(by intro _ h; cases h), (by intro hfo e' h'; cases h')⟩

theorem GoodH_hErr (u : Url) (t : ErrT) (f : Bool) (k : Url → HR) (hu : IV u.verrs)
    (hk : ∀ u', IV u'.verrs → GoodH c IV (k u')) : GoodH c IV (hErr c u t f k) := by
  unfold hErr
  split
  · rename_i hs
    exact GoodH_err _ _ (fun hfo => stops_fo f hs hfo)
  · rename_i hs
    have := stops_false_of f hs
    subst this
    exact hk _ (U.rcd (fo_of_not_stops hs) _ _ hu)

omit U in
theorem GoodH_fail6 (u : Url) (t : ErrT) : GoodH c IV (fail6 c u t) := GoodH_err _ _ (fun _ => rfl)

omit U in
theorem parseIPv4Number_U (c : Cfg) (u : Url) (i : Bytes) : (parseIPv4Number c u i).err = .none → (parseIPv4Number c u i).url = u := by
  unfold parseIPv4Number
  dsimp only
  repeat' split
  all_goals simp

theorem parseIPv4Parts_U (parts : List Bytes) : ∀ (u : Url) (acc : List Nat), IV u.verrs →
    ((parseIPv4Parts c u parts acc).err = none → IV (parseIPv4Parts c u parts acc).url.verrs) ∧
    (c.failOnVErr = false → ∀ e, (parseIPv4Parts c u parts acc).err = some e → e.failure = true) := by
  induction parts with
  | nil => intro u acc h; simp [parseIPv4Parts, h]
  | cons p rest ih =>
    intro u acc h
    unfold parseIPv4Parts
    have hn := parseIPv4Number_U c u p
    generalize parseIPv4Number c u p = r at hn
    dsimp only
    split
    · simp
    · rename_i h1
      have h1' : r.err = .none := by
        generalize r.err = x at h1 ⊢
        cases x <;> first | rfl | exact absurd h1 (by decide)
      have hu := hn h1'
      split
      · rename_i h2
        refine ⟨by simp, ?_⟩
        intro hfo
        simp [stops, hfo] at h2
      · rename_i h2
        apply ih
        split
        · rename_i hv
          have hfo : c.failOnVErr = false := by simpa [stops, hv] using h2
          exact U.rcd hfo _ _ (by rw [hu]; exact h)
        · rw [hu]; exact h

theorem ipv4RangeWarn_U (ns : List Nat) : ∀ (u : Url), IV u.verrs →
    ((ipv4RangeWarn c u ns).2 = false → IV (ipv4RangeWarn c u ns).1.verrs) ∧
    (c.failOnVErr = false → (ipv4RangeWarn c u ns).2 = false) := by
  induction ns with
  | nil => intro u h; simp [ipv4RangeWarn, h]
  | cons n rest ih =>
    intro u h
    unfold ipv4RangeWarn
    split
    · split
      · rename_i h2
        refine ⟨by simp, ?_⟩
        intro hfo; simp [stops, hfo] at h2
      · rename_i hs
        exact ih _ (U.rcd (fo_of_not_stops hs) _ _ h)
    · exact ih _ h

omit U in
theorem P_ite {α : Type} (P : α → Prop) (p : Prop) [Decidable p] (a b : α) (ha : p → P a) (hb : ¬ p → P b) :
    P (if p then a else b) := by
  split
  · exact ha ‹_›
  · exact hb ‹_›

theorem ipv4AfterCount_U (parts : List Bytes) (u : Url) (hu : IV u.verrs) : GoodH c IV (ipv4AfterCount c parts u) := by
  unfold ipv4AfterCount
  dsimp only
  have hp := parseIPv4Parts_U (c := c) U parts u [] hu
  generalize parseIPv4Parts c u parts [] = pr at hp ⊢
  have hw := ipv4RangeWarn_U (c := c) U pr.nums pr.url
  generalize ipv4RangeWarn c pr.url pr.nums = w at hw ⊢
  repeat' split
  all_goals simp_all [GoodH]

theorem parseIPv4_U (u : Url) (i : Bytes) (hu : IV u.verrs) : GoodH c IV (parseIPv4 c u i) := by
  rw [parseIPv4_eq]
  dsimp only
  repeat' first
    | (apply GoodH_hErr U _ _ _ _ (by assumption); intro _ _)
    | (apply P_ite <;> intro _)
    | (apply ipv4AfterCount_U U; assumption)

/-! #### IPv6 -/

def GoodDL (c : Cfg) (IV : List VErr → Prop) : Sum (C6 × Char × Int × Url) HR → Prop
  | .inl x => IV x.2.2.2.verrs
  | .inr r => GoodH c IV r
def GoodVL (c : Cfg) (IV : List VErr → Prop) : Sum (List Nat × Nat × Nat × Url) HR → Prop
  | .inl x => IV x.2.2.2.verrs
  | .inr r => GoodH c IV r
def GoodR6 (c : Cfg) (IV : List VErr → Prop) : R6 → Prop
  | .cont s => IV s.url.verrs
  | .brk s => IV s.url.verrs
  | .done r => GoodH c IV r
def GoodL6 (c : Cfg) (IV : List VErr → Prop) : Sum S6 HR → Prop
  | .inl s => IV s.url.verrs
  | .inr r => GoodH c IV r

theorem digitLoop6_U (rs : Str) (fuel : Nat) : ∀ (cu : C6) (ch : Char) (p : Int) (u : Url), IV u.verrs →
    GoodDL c IV (digitLoop6 c rs fuel cu ch p u) := by
  induction fuel with
  | zero => intro cu ch p u h; exact h
  | succ n ih =>
    intro cu ch p u h
    unfold digitLoop6
    dsimp only
    repeat' split
    all_goals first
      | exact ih _ _ _ _ h
      | exact h
      | (refine GoodH_err (c := c) (IV := IV) _ _ ?_; intro _; rfl)

theorem v4Loop6_U (rs : Str) (fuel : Nat) : ∀ (cu : C6) (ch : Char) (a : List Nat) (pi ns : Nat) (u : Url), IV u.verrs →
    GoodVL c IV (v4Loop6 c rs fuel cu ch a pi ns u) := by
  induction fuel with
  | zero => intro cu ch a pi ns u h; exact h
  | succ n ih =>
    intro cu ch a pi ns u h
    unfold v4Loop6
    dsimp only
    have hd := digitLoop6_U (c := c) U rs (rs.length + 2) (if ns > 0 then (next6 rs cu).1 else cu)
      (if ns > 0 then (next6 rs cu).2 else ch) (-1) u h
    generalize digitLoop6 c rs (rs.length + 2) _ _ (-1) u = d at hd ⊢
    repeat' split
    all_goals first
      | exact h
      | exact GoodH_fail6 _ _
      | (simp_all [GoodDL, GoodVL]; done)
      | (apply ih; simp_all [GoodDL])
      | (simp_all [GoodDL, GoodVL]; exact GoodH_panic _ _)

theorem iter6_U (rs : Str) (s : S6) (h : IV s.url.verrs) : GoodR6 c IV (iter6 c rs s) := by
  unfold iter6
  dsimp only
  have hd := v4Loop6_U (c := c) U rs (rs.length + 2)
    (next6 rs { pointer := (hexLoop6 rs 5 s.cur s.c 0 0).1.pointer - ((hexLoop6 rs 5 s.cur s.c 0 0).2.2.2 + 1 : Nat), eof := false }).1
    (next6 rs { pointer := (hexLoop6 rs 5 s.cur s.c 0 0).1.pointer - ((hexLoop6 rs 5 s.cur s.c 0 0).2.2.2 + 1 : Nat), eof := false }).2
    s.address s.pieceIdx 0 s.url h
  generalize v4Loop6 c rs (rs.length + 2) _ _ s.address s.pieceIdx 0 s.url = d at hd ⊢
  repeat' split
  all_goals first
    | exact h
    | exact GoodH_fail6 _ _
    | exact GoodH_panic _ _
    | (simp_all [GoodVL, GoodR6]; done)

theorem loop6_U (rs : Str) (fuel : Nat) : ∀ (s : S6), IV s.url.verrs → GoodL6 c IV (loop6 c rs fuel s) := by
  induction fuel with
  | zero => intro s h; exact h
  | succ n ih =>
    intro s h
    unfold loop6
    have hi := iter6_U (c := c) U rs s h
    generalize iter6 c rs s = d at hi ⊢
    repeat' split
    all_goals first
      | exact h
      | (apply ih; exact hi)
      | exact hi

theorem parseIPv6_U (u : Url) (i : Bytes) (h : IV u.verrs) : GoodH c IV (parseIPv6 c u i) := by
  unfold parseIPv6
  dsimp only
  generalize goRunes i = rs
  by_cases h1 : ((next6 rs ⟨-1, false⟩).2 == ':') = true
  · by_cases h2 : (!startsWithColon6 rs (next6 rs ⟨-1, false⟩).1) = true
    · simp only [if_pos h1, if_pos h2]; exact GoodH_fail6 _ _
    · simp only [if_pos h1, if_neg h2]
      generalize hd1 : loop6 c rs _ _ = d1
      have hk : GoodL6 c IV d1 := by rw [← hd1]; exact loop6_U U rs _ _ h
      clear hd1
      rcases d1 with s | r <;> simp only [GoodL6] at hk <;> dsimp only
      all_goals repeat' split
      all_goals first
        | exact hk
        | exact GoodH_fail6 _ _
        | exact GoodH_panic _ _
        | exact GoodH_ok _ _ hk
  · simp only [if_neg h1]
    generalize hd1 : loop6 c rs _ _ = d1
    have hk : GoodL6 c IV d1 := by rw [← hd1]; exact loop6_U U rs _ _ h
    clear hd1
    rcases d1 with s | r <;> simp only [GoodL6] at hk <;> dsimp only
    all_goals repeat' split
    all_goals first
      | exact hk
      | exact GoodH_fail6 _ _
      | exact GoodH_panic _ _
      | exact GoodH_ok _ _ hk

/-! #### opaque host, domain -/

theorem opaqueLoop_U (i : Bytes) (rs : Str) : ∀ (u : Url) (out : Bytes), IV u.verrs →
    GoodH c IV (opaqueLoop c i rs u out) := by
  induction rs with
  | nil => intro u out h; exact GoodH_ok _ _ h
  | cons ch rest ih =>
    intro u out h
    unfold opaqueLoop
    dsimp only
    repeat' split
    all_goals first
      | exact GoodH_ok _ _ h
      | (refine GoodH_err (c := c) (IV := IV) _ _ ?_; intro _; rfl)
      | (refine GoodH_err (c := c) (IV := IV) _ _ ?_; intro hfo; simp_all [stops]; done)
      | (apply ih; repeat' split)
    all_goals first
      | exact h
      | (have hfo : c.failOnVErr = false := by simp_all [stops]
         first
          | exact U.rcd hfo _ _ h
          | exact U.rcd hfo _ _ (U.rcd hfo _ _ h))

omit U in
theorem toASCII_U (I : Idna) (u : Url) (s : Bytes) : (toASCII c I u s).2.verrs = u.verrs := by
  unfold toASCII
  dsimp only
  repeat' split
  all_goals rfl

theorem forbiddenLoop_U (a : Bytes) (rs : Str) : ∀ (u : Url), IV u.verrs →
    ((forbiddenLoop c a rs u).2 = none → IV (forbiddenLoop c a rs u).1.verrs) ∧
    (∀ o, (forbiddenLoop c a rs u).2 = some o → GoodH c IV ⟨(forbiddenLoop c a rs u).1, o⟩) := by
  induction rs with
  | nil => intro u h; simp [forbiddenLoop, h]
  | cons ch rest ih =>
    intro u h
    unfold forbiddenLoop
    repeat' split
    · refine ⟨by simp, ?_⟩
      intro o ho; cases ho; exact GoodH_ok _ _ h
    · refine ⟨by simp, ?_⟩
      intro o ho; cases ho; exact GoodH_err _ _ (fun _ => rfl)
    · exact ih u h

theorem parseHost_U (I : Idna) (u : Url) (i : Bytes) (ns : Bool) (h : IV u.verrs) :
    GoodH c IV (parseHost c I u i ns) := by
  unfold parseHost
  generalize c.preHost = pre
  rcases pre with _ | f <;> dsimp only
  · generalize i = input
    split
    · exact GoodH_ok _ _ h
    · split
      · split
        · exact GoodH_fail6 _ _
        · exact parseIPv6_U U _ _ h
      · split
        · exact opaqueLoop_U U _ _ _ _ h
        · split
          · exact GoodH_ok _ _ h
          · split
            · exact GoodH_fail6 _ _
            · generalize hta : toASCII c I u _ = ta
              have h' : IV ta.2.verrs := by rw [← hta, toASCII_U]; exact h
              split
              · split
                · exact GoodH_ok _ _ h'
                · exact GoodH_fail6 _ _
              · rename_i ad _
                have hf := forbiddenLoop_U (c := c) U ad (goRunes ad) ta.2 h'
                generalize forbiddenLoop c ad (goRunes ad) ta.2 = fl at hf ⊢
                split
                · rename_i o ho; exact hf.2 o ho
                · rename_i ho
                  have h'' := hf.1 ho
                  split
                  · exact parseIPv4_U U _ _ h''
                  · split
                    · exact GoodH_ok _ _ h''
                    · exact GoodH_ok _ _ h''
  · generalize f u i = input
    split
    · exact GoodH_ok _ _ h
    · split
      · split
        · exact GoodH_fail6 _ _
        · exact parseIPv6_U U _ _ h
      · split
        · exact opaqueLoop_U U _ _ _ _ h
        · split
          · exact GoodH_ok _ _ h
          · split
            · exact GoodH_fail6 _ _
            · generalize hta : toASCII c I u _ = ta
              have h' : IV ta.2.verrs := by rw [← hta, toASCII_U]; exact h
              split
              · split
                · exact GoodH_ok _ _ h'
                · exact GoodH_fail6 _ _
              · rename_i ad _
                have hf := forbiddenLoop_U (c := c) U ad (goRunes ad) ta.2 h'
                generalize forbiddenLoop c ad (goRunes ad) ta.2 = fl at hf ⊢
                split
                · rename_i o ho; exact hf.2 o ho
                · rename_i ho
                  have h'' := hf.1 ho
                  split
                  · exact parseIPv4_U U _ _ h''
                  · split
                    · exact GoodH_ok _ _ h''
                    · exact GoodH_ok _ _ h''

/-! ### parser level -/

omit U in
theorem Good_cont (ps : PS) (h : IV ps.url.verrs) : Good c IV (.cont ps) :=
  ⟨(by intro ps' h'; cases h'; exact h), (by intro x h'; cases h')⟩

omit U in
theorem Good_done (x : Res) (h : GoodR c IV x) : Good c IV (.done x) :=
  ⟨(by intro ps' h'; cases h'), (by intro y h'; cases h'; exact h)⟩

omit U in
theorem GoodR_url (u : Url) (h : IV u.verrs) : GoodR c IV ⟨u, .url⟩ :=
  ⟨(fun _ => h), (by intro _ e w h'; cases h')⟩

omit U in
theorem GoodR_nilNil (u : Url) : GoodR c IV ⟨u, .nilNil⟩ :=
  ⟨(by intro h'; cases h'), (by intro _ e w h'; cases h')⟩

omit U in
theorem GoodR_panic (u : Url) (n : Nat) : GoodR c IV ⟨u, .panic n⟩ :=
  ⟨(by intro h'; cases h'), (by intro _ e w h'; cases h')⟩

omit U in
theorem GoodR_err (u : Url) (e : VErr) (w : Bool) (h : c.failOnVErr = false → e.failure = true) :
    GoodR c IV ⟨u, .err e w⟩ :=
  ⟨(by intro h'; cases h'), (by intro hfo e' w' h'; cases h'; exact h hfo)⟩

omit U in
theorem Good_retUrl (ps : PS) (h : IV ps.url.verrs) : Good c IV (retUrl ps) := Good_done _ (GoodR_url _ h)

theorem Good_herr (I1 : Idna) (s1 : Bytes) (r1 : Str) (b1 : Option Url) (o1 : Option State)
    (ps : PS) (t : ErrT) (f : Bool) (k : PS → StepR) (hps : IV ps.url.verrs)
    (hk : ∀ u, IV u.verrs → Good c IV (k { ps with url := u })) :
    Good c IV (herr ⟨c, I1, s1, r1, b1, o1⟩ ps t f k) := by
  unfold herr
  dsimp only
  split
  · rename_i hs
    exact Good_done _ (GoodR_err _ _ _ (fun hfo => stops_fo f hs hfo))
  · rename_i hs
    have := stops_false_of f hs
    subst this
    exact hk _ (U.rcd (fo_of_not_stops hs) _ _ hps)

omit U in
theorem Good_afterHost (hr : HR) (ps : PS) (k : PS → Bytes → StepR) (hhr : GoodH c IV hr)
    (hk : ∀ u h, IV u.verrs → Good c IV (k { ps with url := u } h)) : Good c IV (afterHost hr ps k) := by
  unfold afterHost
  rcases hr with ⟨u, o⟩
  cases o with
  | ok h => exact hk u h (hhr.1 h rfl)
  | err e => exact Good_done _ (GoodR_err _ _ _ (fun hfo => hhr.2 hfo e rfl))
  | panic n => exact Good_done _ (GoodR_panic _ _)

omit U in
theorem cleanDefaultPort_verrs (c : Cfg) (u : Url) : (cleanDefaultPort c u).verrs = u.verrs := by
  unfold cleanDefaultPort
  repeat' split
  all_goals rfl

end

/-- close `IV X.url.verrs` for an explicit state `X` -/
macro "u_leaf" : tactic => `(tactic| first
  | assumption
  | (simp only [cleanDefaultPort_verrs, next_fst, rewindLast, rewind, resetInput, writeRune]; assumption))

/-- one step of the one-run tactic for the state functions -/
macro "u_step" U:term : tactic => `(tactic| first
  | (apply Good_herr $U _ _ _ _ _ _ _ _ _ (by u_leaf); intro _ _)
  | (apply Good_afterHost _ _ _ (parseHost_U $U _ _ _ _ (by u_leaf)); intro _ _ _)
  | (apply Good_retUrl; u_leaf)
  | (apply Good_cont; u_leaf)
  | (apply Good_done; first
      | (apply GoodR_url; u_leaf)
      | apply GoodR_nilNil
      | apply GoodR_panic
      | (apply GoodR_err; intro _; rfl))
  | (apply P_ite <;> intro _)
  | dsimp only
  | split)

section
variable {c : Cfg} {IV : List VErr → Prop} (U : UH c IV) (I : Idna) (src : Bytes) (rs : Str) (base : Option Url)
  (ov : Option State)
include U

theorem stSchemeStart_U (ps : PS) (r : Char) (h : IV ps.url.verrs) : Good c IV (stSchemeStart ⟨c, I, src, rs, base, ov⟩ ps r) := by
  unfold stSchemeStart
  repeat' u_step U

theorem stScheme_U (ps : PS) (r : Char) (h : IV ps.url.verrs) : Good c IV (stScheme ⟨c, I, src, rs, base, ov⟩ ps r) := by
  unfold stScheme
  repeat' u_step U

theorem stNoScheme_U (ps : PS) (r : Char) (h : IV ps.url.verrs) : Good c IV (stNoScheme ⟨c, I, src, rs, base, ov⟩ ps r) := by
  unfold stNoScheme
  repeat' u_step U

theorem stSpecialRelativeOrAuthority_U (ps : PS) (r : Char) (h : IV ps.url.verrs) : Good c IV (stSpecialRelativeOrAuthority ⟨c, I, src, rs, base, ov⟩ ps r) := by
  unfold stSpecialRelativeOrAuthority
  repeat' u_step U

theorem stPathOrAuthority_U (ps : PS) (r : Char) (h : IV ps.url.verrs) : Good c IV (stPathOrAuthority ⟨c, I, src, rs, base, ov⟩ ps r) := by
  unfold stPathOrAuthority
  repeat' u_step U

theorem stRelative_U (ps : PS) (r : Char) (h : IV ps.url.verrs) : Good c IV (stRelative ⟨c, I, src, rs, base, ov⟩ ps r) := by
  unfold stRelative
  repeat' u_step U

theorem stRelativeSlash_U (ps : PS) (r : Char) (h : IV ps.url.verrs) : Good c IV (stRelativeSlash ⟨c, I, src, rs, base, ov⟩ ps r) := by
  unfold stRelativeSlash
  repeat' u_step U

theorem stSpecialAuthoritySlashes_U (ps : PS) (r : Char) (h : IV ps.url.verrs) : Good c IV (stSpecialAuthoritySlashes ⟨c, I, src, rs, base, ov⟩ ps r) := by
  unfold stSpecialAuthoritySlashes
  repeat' u_step U

theorem stSpecialAuthorityIgnoreSlashes_U (ps : PS) (r : Char) (h : IV ps.url.verrs) : Good c IV (stSpecialAuthorityIgnoreSlashes ⟨c, I, src, rs, base, ov⟩ ps r) := by
  unfold stSpecialAuthorityIgnoreSlashes
  repeat' u_step U

theorem stAuthority_U (ps : PS) (r : Char) (h : IV ps.url.verrs) : Good c IV (stAuthority ⟨c, I, src, rs, base, ov⟩ ps r) := by
  unfold stAuthority
  repeat' u_step U

theorem stHost_U (ps : PS) (r : Char) (h : IV ps.url.verrs) : Good c IV (stHost ⟨c, I, src, rs, base, ov⟩ ps r) := by
  unfold stHost
  repeat' u_step U

theorem stPort_U (ps : PS) (r : Char) (h : IV ps.url.verrs) : Good c IV (stPort ⟨c, I, src, rs, base, ov⟩ ps r) := by
  unfold stPort
  repeat' u_step U

theorem stFile_U (ps : PS) (r : Char) (h : IV ps.url.verrs) : Good c IV (stFile ⟨c, I, src, rs, base, ov⟩ ps r) := by
  unfold stFile
  repeat' u_step U

theorem stFileSlash_U (ps : PS) (r : Char) (h : IV ps.url.verrs) : Good c IV (stFileSlash ⟨c, I, src, rs, base, ov⟩ ps r) := by
  unfold stFileSlash
  repeat' u_step U

theorem stFileHost_U (ps : PS) (r : Char) (h : IV ps.url.verrs) : Good c IV (stFileHost ⟨c, I, src, rs, base, ov⟩ ps r) := by
  unfold stFileHost
  repeat' u_step U

theorem stPathStart_U (ps : PS) (r : Char) (h : IV ps.url.verrs) : Good c IV (stPathStart ⟨c, I, src, rs, base, ov⟩ ps r) := by
  unfold stPathStart
  repeat' u_step U

theorem stPath_U (ps : PS) (r : Char) (h : IV ps.url.verrs) : Good c IV (stPath ⟨c, I, src, rs, base, ov⟩ ps r) := by
  rw [stPath_eq]
  unfold stPath'
  repeat' u_step U

theorem stOpaquePath_U (ps : PS) (r : Char) (h : IV ps.url.verrs) : Good c IV (stOpaquePath ⟨c, I, src, rs, base, ov⟩ ps r) := by
  unfold stOpaquePath
  repeat' u_step U

theorem stQuery_U (ps : PS) (r : Char) (h : IV ps.url.verrs) : Good c IV (stQuery ⟨c, I, src, rs, base, ov⟩ ps r) := by
  unfold stQuery
  repeat' u_step U

theorem stFragment_U (ps : PS) (r : Char) (h : IV ps.url.verrs) : Good c IV (stFragment ⟨c, I, src, rs, base, ov⟩ ps r) := by
  unfold stFragment
  repeat' u_step U

theorem body_U (ps : PS) (r : Char) (h : IV ps.url.verrs) : Good c IV (body ⟨c, I, src, rs, base, ov⟩ ps r) := by
  unfold body
  split <;> first
    | exact stSchemeStart_U U I src rs base ov ps r h
    | exact stScheme_U U I src rs base ov ps r h
    | exact stNoScheme_U U I src rs base ov ps r h
    | exact stOpaquePath_U U I src rs base ov ps r h
    | exact stSpecialRelativeOrAuthority_U U I src rs base ov ps r h
    | exact stSpecialAuthoritySlashes_U U I src rs base ov ps r h
    | exact stSpecialAuthorityIgnoreSlashes_U U I src rs base ov ps r h
    | exact stPathOrAuthority_U U I src rs base ov ps r h
    | exact stAuthority_U U I src rs base ov ps r h
    | exact stHost_U U I src rs base ov ps r h
    | exact stFile_U U I src rs base ov ps r h
    | exact stFileHost_U U I src rs base ov ps r h
    | exact stFileSlash_U U I src rs base ov ps r h
    | exact stPort_U U I src rs base ov ps r h
    | exact stPath_U U I src rs base ov ps r h
    | exact stPathStart_U U I src rs base ov ps r h
    | exact stQuery_U U I src rs base ov ps r h
    | exact stFragment_U U I src rs base ov ps r h
    | exact stRelative_U U I src rs base ov ps r h
    | exact stRelativeSlash_U U I src rs base ov ps r h

theorem step_U (ps : PS) (h : IV ps.url.verrs) : Good c IV (step ⟨c, I, src, rs, base, ov⟩ ps) := by
  unfold step
  dsimp only
  have hn : IV (next rs ps).1.url.verrs := by rw [next_fst]; exact h
  have hb := body_U (c := c) U I src rs base ov (next rs ps).1 (next rs ps).2 hn
  generalize body _ (next rs ps).1 (next rs ps).2 = s at hb
  cases s with
  | done x => exact hb
  | cont p =>
    simp only [bottom]
    apply P_ite <;> intro _
    · exact Good_done _ (GoodR_url _ (hb.1 p rfl))
    · exact hb

theorem loop_U (fuel : Nat) : ∀ ps : PS, IV ps.url.verrs → GoodR c IV (loop ⟨c, I, src, rs, base, ov⟩ fuel ps) := by
  induction fuel with
  | zero => intro ps h; exact ⟨(by intro h'; cases h'), (by intro _ e w h'; cases h')⟩
  | succ n ih =>
    intro ps h
    unfold loop
    have hs := step_U (c := c) U I src rs base ov ps h
    generalize step _ ps = s at hs
    cases s with
    | cont p => exact ih p (hs.1 p rfl)
    | done x => exact hs.2 x rfl

theorem basicParser_U (input : Bytes) (url : Option Url) (h : IV (url.getD {}).verrs) :
    GoodR c IV (basicParser c I input base url ov) := by
  unfold basicParser
  dsimp only
  apply P_ite <;> intro hs
  · refine GoodR_err _ _ _ ?_
    intro hfo
    simp [stops, hfo] at hs
  · apply P_ite <;> intro hs2
    · refine GoodR_err _ _ _ ?_
      intro hfo
      simp [stops, hfo] at hs2
    · apply loop_U U
      dsimp only
      repeat' split
      all_goals first
        | exact h
        | (have hfo : c.failOnVErr = false := by simp_all [stops]
           first
            | exact U.rcd hfo _ _ h
            | exact U.rcd hfo _ _ (U.rcd hfo _ _ h))

end

end WhatwgUrl.Proofs.Reporting
