import WhatwgUrl.Proofs.SpExactC
/-
  Helper lemmas for C11b, part 4: Go's rune conversion adds bytes ≥ 0x80 exactly on ill-formed input, the parse of a join
  is the concatenation of the parses, and the `→` direction.
-/
namespace WhatwgUrl.Proofs.SpExact
open WhatwgUrl WhatwgUrl.Impl
open WhatwgUrl.Proofs.SearchParams (forall_uint8 parseSeq spInit_eq decodePercent_default)

theorem goDecode_ind' (P : Bytes → Prop) (h0 : P [])
    (hs : ∀ b0 rest, P (rest.drop ((decode1 b0 rest).2 - 1)) → P (b0 :: rest)) : ∀ b, P b := by
  have : ∀ (n : Nat) (b : Bytes), b.length ≤ n → P b := by
    intro n
    induction n with
    | zero =>
      intro b h
      have : b = [] := List.length_eq_zero_iff.mp (by omega)
      subst this; exact h0
    | succ n ih =>
      intro b h
      cases b with
      | nil => exact h0
      | cons b0 rest =>
        have hl := List.length_drop (i := (decode1 b0 rest).2 - 1) (l := rest)
        simp only [List.length_cons] at h
        exact hs b0 rest (ih _ (by omega))
  exact fun b => this b.length b (Nat.le_refl _)

theorem san_cons (b0 : UInt8) (rest : Bytes) :
    san (b0 :: rest) = utf8Char (decode1 b0 rest).1 ++ san (rest.drop ((decode1 b0 rest).2 - 1)) := by
  simp [san, Utf8.goRunes_cons, utf8]

/-- the rune conversion never removes bytes ≥ 0x80, and adds some exactly when the input is ill-formed -/
theorem H_san (b : Bytes) : H b ≤ H (san b) ∧ (H (san b) ≤ H b → validUtf8 b = true) := by
  induction b using goDecode_ind' with
  | h0 => exact ⟨Nat.le_refl _, fun _ => rfl⟩
  | hs b0 rest ih =>
    have hs := Utf8.decode1_spec b0 rest
    rw [san_cons, H_append, Utf8.validUtf8_cons]
    rcases hs.1 with e | e
    · rw [e] at ih ⊢
      simp only [Nat.sub_self, List.drop_zero] at ih ⊢
      have h3 : H (utf8Char repl) = 3 := by decide
      have hc := H_cons b0 rest
      rw [h3, hc]
      refine ⟨by split <;> omega, fun hle => ?_⟩
      exfalso
      split at hle <;> omega
    · have hk := hs.2.1
      have hsplit : b0 :: rest =
          (b0 :: rest).take (decode1 b0 rest).2 ++ rest.drop ((decode1 b0 rest).2 - 1) := by
        obtain ⟨k, hk'⟩ : ∃ k, (decode1 b0 rest).2 = k + 1 := ⟨(decode1 b0 rest).2 - 1, by omega⟩
        rw [hk']; simp
      have hH : H (b0 :: rest) =
          H ((b0 :: rest).take (decode1 b0 rest).2) + H (rest.drop ((decode1 b0 rest).2 - 1)) := by
        rw [← H_append, ← hsplit]
      rw [e, hH]
      refine ⟨by omega, fun hle => ?_⟩
      have hv := ih.2 (by omega)
      rw [hv, Bool.and_true]
      cases hb : ((decode1 b0 rest).1 == repl && (decode1 b0 rest).2 == 1) with
      | false => rfl
      | true =>
        exfalso
        simp only [Bool.and_eq_true, beq_iff_eq] at hb
        have := congrArg List.length e
        rw [hb.1, hb.2, Utf8.utf8Char_repl_length] at this
        simp at this

/-! ### the parse of a join -/

theorem splitOn_append (sep : UInt8) (a b : Bytes) :
    splitOn sep (a ++ sep :: b) = splitOn sep a ++ splitOn sep b := by
  induction a with
  | nil => rw [List.nil_append, splitOn_sep_cons]; rfl
  | cons x a ih =>
    by_cases hx : x = sep
    · subst hx
      rw [List.cons_append, splitOn_sep_cons, splitOn_sep_cons, ih]; rfl
    · obtain ⟨h, tl, hs⟩ := splitOn_exists sep a
      have : splitOn sep (a ++ sep :: b) = h :: (tl ++ splitOn sep b) := by rw [ih, hs]; rfl
      rw [List.cons_append, splitOn_cons_ne _ _ _ _ _ hx this, splitOn_cons_ne _ _ _ _ _ hx hs]; rfl

theorem spInit_append (a b : Bytes) :
    spInit Cfg.default (a ++ 0x26 :: b) = spInit Cfg.default a ++ spInit Cfg.default b := by
  rw [spInit_eq, spInit_eq, spInit_eq, splitOn_append, List.filterMap_append]

theorem spInit_S0 (l : Pairs) : spInit Cfg.default (S0 l) = l.flatMap (fun p => spInit Cfg.default (J p)) := by
  induction l with
  | nil => rfl
  | cons p l ih =>
    cases l with
    | nil => simp [S0, intercalate]
    | cons q r =>
      have e : S0 (p :: q :: r) = J p ++ 0x26 :: S0 (q :: r) := by
        simp [S0, intercalate]
      rw [e, spInit_append, ih]
      simp only [List.flatMap_cons]

theorem length_le_flatMap {α : Type} (f : α → List α) (t : List α) (h : ∀ p ∈ t, f p ≠ []) :
    t.length ≤ (t.flatMap f).length := by
  induction t with
  | nil => simp
  | cons p t ih =>
    have h1 : 1 ≤ (f p).length := by
      cases e : f p with
      | nil => exact absurd e (h p (by simp))
      | cons _ _ => simp
    have := ih (fun q hq => h q (by simp [hq]))
    simp only [List.flatMap_cons, List.length_append, List.length_cons]
    omega

theorem flatMap_fix {α : Type} (f : α → List α) (l : List α) (h : ∀ p ∈ l, f p ≠ []) (e : l.flatMap f = l) :
    ∀ p ∈ l, f p = [p] := by
  induction l with
  | nil => intro p hp; simp at hp
  | cons p t ih =>
    rw [List.flatMap_cons] at e
    have h1 := length_le_flatMap f t (fun q hq => h q (by simp [hq]))
    have h2 := congrArg List.length e
    simp only [List.length_append, List.length_cons] at h2
    have hp := h p (by simp)
    match hf : f p, hp with
    | [a], _ =>
      rw [hf] at e
      simp only [List.cons_append, List.nil_append, List.cons.injEq] at e
      obtain ⟨rfl, e⟩ := e
      intro q hq
      rcases List.mem_cons.mp hq with rfl | hq
      · exact hf
      · exact ih (fun q hq => h q (by simp [hq])) e q hq
    | a :: b :: c, _ =>
      rw [hf] at h2
      simp only [List.length_cons] at h2
      omega

/-! ### one pair -/

theorem parseSeq_some (q a b : Bytes) (hne : q ≠ []) (hs : splitFirst 0x3d q = (a, some b)) :
    parseSeq Cfg.default q = some (PD (R a), PD (R b)) := by
  unfold parseSeq
  have : q.isEmpty = false := by
    cases q with
    | nil => exact absurd rfl hne
    | cons _ _ => rfl
  simp only [this, Bool.false_eq_true, ↓reduceIte, hs, decodePercent_default]
  rfl

theorem fix_good (n : Bytes) (h : PD (R n) = n) : noPct n = true ∧ ∀ x ∈ n, x ≠ 0x2b := by
  have h1 : (PD (R n)).length = (R n).length := by rw [h, R_length]
  have h2 := noPct_of_length _ h1
  have h3 := PD_noPct _ h2
  rw [h3] at h
  rw [h] at h2
  exact ⟨h2, R_fix_conv n h⟩

theorem single_only_if (p : Bytes × Bytes) (h : spInit Cfg.default (J p) = [p]) :
    goodName p.1 = true ∧ goodValue p.2 = true := by
  have hh : hi 0x3d = false := by decide
  -- 1. well-formed
  have m1 := spInit_H (J p)
  rw [h] at m1
  simp only [List.map_cons, List.map_nil, List.sum_cons, List.sum_nil, pairH, J, H_append, H_cons, hh] at m1
  have s1 := H_san p.1
  have s2 := H_san p.2
  have v1 : validUtf8 p.1 = true := s1.2 (by simp at m1; omega)
  have v2 : validUtf8 p.2 = true := s2.2 (by simp at m1; omega)
  have hJ : J p = p.1 ++ 0x3d :: p.2 := by
    unfold J; rw [san_valid _ v1, san_valid _ v2]
  rw [hJ] at h
  -- 2. no `&`
  have m2 := spInit_L (p.1 ++ 0x3d :: p.2)
  rw [h] at m2
  have hI : I (p.1 ++ 0x3d :: p.2) = 1 := by simp [I]
  simp only [List.map_cons, List.map_nil, List.sum_cons, List.sum_nil, pairL, hI, List.length_append,
    List.length_cons] at m2
  have hamp := splitOn_single 0x26 (p.1 ++ 0x3d :: p.2) (by omega)
  rw [spInit_eq, SearchParams.splitOn_no_sep _ _ hamp] at h
  -- 3. the one sequence
  rcases splitFirst_spec (p.1 ++ 0x3d :: p.2) with ⟨a, b, e, ha, hs⟩ | ⟨ha, _⟩
  · rw [List.filterMap_cons, parseSeq_some _ a b (by simp) hs] at h
    simp only [List.filterMap_nil, List.cons.injEq, and_true] at h
    have e1 : PD (R a) = p.1 := congrArg Prod.fst h
    have e2 : PD (R b) = p.2 := congrArg Prod.snd h
    have l1 := PD_length_le (R a); rw [R_length, e1] at l1
    have l2 := PD_length_le (R b); rw [R_length, e2] at l2
    have l3 := congrArg List.length e
    simp only [List.length_append, List.length_cons] at l3
    have hab := List.append_inj e (by omega)
    have ea : p.1 = a := hab.1
    have eb : p.2 = b := (List.cons.inj hab.2).2
    rw [← ea] at e1 ha
    rw [← eb] at e2
    obtain ⟨g1, g2⟩ := fix_good _ e1
    obtain ⟨g3, g4⟩ := fix_good _ e2
    constructor
    · simp only [goodName, v1, g1, Bool.and_true, Bool.true_and, List.all_eq_true, nameByte, Bool.and_eq_true,
        bne_iff_ne, ne_eq]
      exact fun x hx => ⟨⟨hamp x (by simp [hx]), ha x hx⟩, g2 x hx⟩
    · simp only [goodValue, v2, g3, Bool.and_true, Bool.true_and, List.all_eq_true, valueByte, Bool.and_eq_true,
        bne_iff_ne, ne_eq]
      exact fun x hx => ⟨hamp x (by simp [hx]), g4 x hx⟩
  · exact absurd rfl (ha 0x3d (by simp))

theorem J_has_eq (p : Bytes × Bytes) : (0x3d : UInt8) ∈ J p := by simp [J]

theorem exact_of_rt (l : Pairs) (h : spInit Cfg.default (spString Cfg.default l) = l) : RtExact l := by
  rw [rt_eq, spInit_S0] at h
  have := flatMap_fix _ l (fun p _ => spInit_ne_nil _ (J_has_eq p)) h
  exact fun p hp => single_only_if p (this p hp)

theorem rt_iff (l : Pairs) : spInit Cfg.default (spString Cfg.default l) = l ↔ RtExact l :=
  ⟨exact_of_rt l, rt_of_exact l⟩

/-- one pair: what comes back -/
theorem rt_flatMap (l : Pairs) : spInit Cfg.default (spString Cfg.default l) =
    l.flatMap (fun p => spInit Cfg.default (spString Cfg.default [p])) := by
  rw [rt_eq, spInit_S0]
  apply flatMap_congr'
  intro p _
  rw [rt_eq]
  simp [S0, intercalate]

end WhatwgUrl.Proofs.SpExact
