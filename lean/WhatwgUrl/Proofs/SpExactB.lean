import WhatwgUrl.Proofs.SpExact
/-
  Helper lemmas for C11b, part 2: the exact class `RtExact`, the `←` direction, and the two counting
  arguments (bytes ≥ 0x80 never disappear; lengths never grow) that give the `→` direction.
-/
namespace WhatwgUrl.Proofs.SpExact
open WhatwgUrl WhatwgUrl.Impl
open WhatwgUrl.Proofs.SearchParams (forall_uint8 parseSeq spInit_eq decodePercent_default)

/-- no `%` followed by two hex digits -/
def noPct : Bytes → Bool
  | [] => true
  | x :: t => !esc (x :: t) && noPct t

def nameByte (x : UInt8) : Bool := x != 0x26 && x != 0x3d && x != 0x2b
def valueByte (x : UInt8) : Bool := x != 0x26 && x != 0x2b

def goodName (n : Bytes) : Bool := validUtf8 n && noPct n && n.all nameByte
def goodValue (v : Bytes) : Bool := validUtf8 v && noPct v && v.all valueByte

/-- the lists that survive serialize-then-parse -/
def RtExact (l : Pairs) : Prop := ∀ p ∈ l, goodName p.1 = true ∧ goodValue p.2 = true

instance (l : Pairs) : Decidable (RtExact l) := by unfold RtExact; infer_instance

/-! ### fixed points of the decoder and of `+ → space` -/

theorem PD_noPct (s : Bytes) (h : noPct s = true) : PD s = s := by
  induction s with
  | nil => exact PD_nil
  | cons x t ih =>
    simp only [noPct, Bool.and_eq_true, Bool.not_eq_true'] at h
    rw [PD_step, h.1]
    simp [ih h.2]

theorem PD_length_le (s : Bytes) : (PD s).length ≤ s.length := by
  simp only [PD]
  fun_induction Spec.percentDecode s with
  | case1 => simp
  | case2 x h1 h2 rest' hc ih => simp only [List.length_cons]; omega
  | case3 x h1 h2 rest' hc ih => simp only [List.length_cons] at ih ⊢; omega
  | case4 x rest hrest ih => simp only [List.length_cons]; omega

theorem esc_length {s : Bytes} (h : esc s = true) : 3 ≤ s.length := by
  match s, h with
  | _ :: _ :: _ :: _, _ => simp

theorem noPct_of_length (s : Bytes) (h : (PD s).length = s.length) : noPct s = true := by
  induction s with
  | nil => rfl
  | cons x t ih =>
    rw [PD_step] at h
    by_cases he : esc (x :: t) = true
    · exfalso
      rw [if_pos he] at h
      have h1 := PD_length_le (t.drop 2)
      have h2 := esc_length he
      simp only [List.length_cons, List.length_drop] at h h1 h2
      omega
    · have he' : esc (x :: t) = false := by simpa using he
      rw [he'] at h
      simp only [Bool.false_eq_true, ↓reduceIte, List.length_cons, Nat.add_right_cancel_iff] at h
      simp [noPct, he', ih h]

theorem R_length (s : Bytes) : (R s).length = s.length := by simp [R, replaceByte]

theorem R_fix (s : Bytes) (h : ∀ x ∈ s, x ≠ 0x2b) : R s = s := by
  induction s with
  | nil => rfl
  | cons x t ih =>
    have hx : (x == 0x2b) = false := beq_false_of_ne (h x (by simp))
    rw [R_cons, hx, ih (fun y hy => h y (by simp [hy]))]
    rfl

theorem R_fix_conv (s : Bytes) (h : R s = s) : ∀ x ∈ s, x ≠ 0x2b := by
  induction s with
  | nil => intro x hx; simp at hx
  | cons y t ih =>
    rw [R_cons] at h
    have h1 := (List.cons.inj h).1
    have h2 := (List.cons.inj h).2
    intro x hx
    rcases List.mem_cons.mp hx with rfl | hx
    · intro e
      rw [e] at h1
      simp at h1
    · exact ih h2 x hx

/-! ### `←` -/

theorem san_valid (s : Bytes) (h : validUtf8 s = true) : san s = s := Utf8.utf8_goRunes s h

theorem goodName_spec {n : Bytes} (h : goodName n = true) :
    validUtf8 n = true ∧ noPct n = true ∧ ∀ x ∈ n, x ≠ 0x26 ∧ x ≠ 0x3d ∧ x ≠ 0x2b := by
  simp only [goodName, Bool.and_eq_true, List.all_eq_true, nameByte, bne_iff_ne, ne_eq] at h
  exact ⟨h.1.1, h.1.2, fun x hx => ⟨(h.2 x hx).1.1, (h.2 x hx).1.2, (h.2 x hx).2⟩⟩

theorem goodValue_spec {n : Bytes} (h : goodValue n = true) :
    validUtf8 n = true ∧ noPct n = true ∧ ∀ x ∈ n, x ≠ 0x26 ∧ x ≠ 0x2b := by
  simp only [goodValue, Bool.and_eq_true, List.all_eq_true, valueByte, bne_iff_ne, ne_eq] at h
  exact ⟨h.1.1, h.1.2, fun x hx => ⟨(h.2 x hx).1, (h.2 x hx).2⟩⟩

theorem J_good (p : Bytes × Bytes) (h1 : goodName p.1 = true) (h2 : goodValue p.2 = true) :
    J p = p.1 ++ 0x3d :: p.2 := by
  unfold J
  rw [san_valid _ (goodName_spec h1).1, san_valid _ (goodValue_spec h2).1]

theorem parseSeq_J (p : Bytes × Bytes) (h1 : goodName p.1 = true) (h2 : goodValue p.2 = true) :
    parseSeq Cfg.default (J p) = some p := by
  obtain ⟨_, n2, n3⟩ := goodName_spec h1
  obtain ⟨_, v2, v3⟩ := goodValue_spec h2
  rw [J_good p h1 h2]
  unfold parseSeq
  have hne : (p.1 ++ 0x3d :: p.2).isEmpty = false := by simp
  simp only [hne, Bool.false_eq_true, ↓reduceIte]
  rw [SearchParams.splitFirst_append_sep 0x3d _ _ (fun x hx => (n3 x hx).2.1)]
  simp only [decodePercent_default]
  have e1 : Spec.percentDecode (replaceByte 0x2b 0x20 p.1) = p.1 := by
    have := R_fix p.1 (fun x hx => (n3 x hx).2.2)
    simp only [R] at this
    rw [this]; exact PD_noPct _ n2
  have e2 : Spec.percentDecode (replaceByte 0x2b 0x20 p.2) = p.2 := by
    have := R_fix p.2 (fun x hx => (v3 x hx).2)
    simp only [R] at this
    rw [this]; exact PD_noPct _ v2
  rw [e1, e2]

theorem J_no_amp (p : Bytes × Bytes) (h1 : goodName p.1 = true) (h2 : goodValue p.2 = true) :
    ∀ x ∈ J p, x ≠ 0x26 := by
  obtain ⟨_, n2, n3⟩ := goodName_spec h1
  obtain ⟨_, v2, v3⟩ := goodValue_spec h2
  rw [J_good p h1 h2]
  intro x hx
  rcases List.mem_append.mp hx with hx | hx
  · exact (n3 x hx).1
  · rcases List.mem_cons.mp hx with rfl | hx
    · decide
    · exact (v3 x hx).1

theorem rt_of_exact (l : Pairs) (h : RtExact l) : spInit Cfg.default (spString Cfg.default l) = l := by
  rw [rt_eq]
  match l with
  | [] => rfl
  | p :: ps =>
    rw [spInit_eq]
    unfold S0
    rw [List.map_cons, SearchParams.splitOn_intercalate]
    · rw [← List.map_cons]
      generalize p :: ps = l at h
      induction l with
      | nil => rfl
      | cons q qs ih =>
        have hq := h q (by simp)
        rw [List.map_cons, List.filterMap_cons, parseSeq_J q hq.1 hq.2]
        simp only
        rw [ih (fun r hr => h r (by simp [hr]))]
    · intro seg hseg
      rw [← List.map_cons] at hseg
      obtain ⟨q, hq, rfl⟩ := List.mem_map.mp hseg
      exact J_no_amp q (h q hq).1 (h q hq).2

end WhatwgUrl.Proofs.SpExact
